package main

import (
	"encoding/json"
	"fmt"
	"reflect"
	"time"
	"unsafe"

	"github.com/philpearl/avro"
	avronull "github.com/philpearl/avro/null"
	avrotime "github.com/philpearl/avro/time"
)

func init() {
	avrotime.RegisterCodecs()
	avronull.RegisterCodecs()
}

// ---- running the library's codecs on one value ----------------------------

type readRes struct {
	Class string // ok | err | panic | crash | timeout
	Rem   int
	Val   reflect.Value // valid when Class == ok and run in-process
	Coq   string        // gval term of Val
	Msg   string
}

func (r readRes) coq() string {
	switch r.Class {
	case "ok":
		return cApp("ROk", r.Coq, cZ(int64(r.Rem)))
	case "err":
		return "RErr"
	}
	return "RPanic"
}

func schemaCodec(s avro.Schema, g *GT) (c avro.Codec, err error) {
	defer func() {
		if p := recover(); p != nil {
			c, err = nil, fmt.Errorf("PANIC in Schema.Codec: %v", p)
		}
	}()
	return s.Codec(reflect.New(g.RType()).Elem().Interface())
}

func isPanicErr(err error) bool {
	return err != nil && len(err.Error()) > 5 && err.Error()[:5] == "PANIC"
}

// implRead decodes bs into a zero value of g.
func implRead(c avro.Codec, g *GT, bs []byte) (res readRes) {
	defer func() {
		if p := recover(); p != nil {
			res = readRes{Class: "panic", Msg: fmt.Sprint(p)}
		}
	}()
	dst := reflect.New(g.RType())
	r := avro.NewReadBuf(bs)
	if err := c.Read(r, unsafe.Pointer(dst.Pointer())); err != nil {
		return readRes{Class: "err", Msg: err.Error()}
	}
	return readRes{Class: "ok", Rem: r.Len(), Val: dst.Elem(), Coq: coqVal(g, dst.Elem())}
}

func implSkip(c avro.Codec, bs []byte) (res ires) {
	defer func() {
		if p := recover(); p != nil {
			res = ires{Class: "panic"}
		}
	}()
	r := avro.NewReadBuf(bs)
	if err := c.Skip(r); err != nil {
		return ires{Class: "err"}
	}
	return ires{Class: "ok", Rem: r.Len()}
}

func implWrite(c avro.Codec, v reflect.Value) (out []byte, panicked bool) {
	defer func() {
		if p := recover(); p != nil {
			out, panicked = nil, true
		}
	}()
	w := avro.NewWriteBuf(nil)
	c.Write(w, unsafe.Pointer(v.Addr().Pointer()))
	return append([]byte{}, w.Bytes()...), false
}

func cOptBytes(b []byte, none bool) string {
	if none {
		return "None"
	}
	return cApp("Some", cBytes(b))
}

func schemaJSON(s avro.Schema) string {
	b, err := s.Marshal()
	if err != nil {
		return "<" + err.Error() + ">"
	}
	return string(b)
}

// ---- isolated execution (hostile inputs) -----------------------------------

type isoReadReq struct {
	Schema string `json:"schema"`
	Type   *GT    `json:"type"`
	Bytes  []byte `json:"bytes"`
	Skip   bool   `json:"skip"`
}
type isoReadResp struct {
	Class      string `json:"class"`
	Rem        int    `json:"rem"`
	Coq        string `json:"coq"`
	Msg        string `json:"msg"`
	AllocBytes uint64 `json:"alloc"`
}

func init() {
	workerFns["read"] = func(arg json.RawMessage) (any, error) {
		var req isoReadReq
		if err := json.Unmarshal(arg, &req); err != nil {
			return nil, err
		}
		s, err := avro.SchemaFromString(req.Schema)
		if err != nil {
			return isoReadResp{Class: "builderr", Msg: err.Error()}, nil
		}
		c, err := schemaCodec(s, req.Type)
		if err != nil {
			if isPanicErr(err) {
				return isoReadResp{Class: "panic", Msg: err.Error()}, nil
			}
			return isoReadResp{Class: "builderr", Msg: err.Error()}, nil
		}
		before := totalAlloc()
		if req.Skip {
			r := implSkip(c, req.Bytes)
			return isoReadResp{Class: r.Class, Rem: r.Rem, AllocBytes: totalAlloc() - before}, nil
		}
		r := implRead(c, req.Type, req.Bytes)
		return isoReadResp{Class: r.Class, Rem: r.Rem, Coq: r.Coq, Msg: r.Msg, AllocBytes: totalAlloc() - before}, nil
	}
}

func isoRead(s avro.Schema, g *GT, bs []byte, skip bool) isoReadResp {
	var resp isoReadResp
	outcome, msg := isolated("read", isoReadReq{Schema: schemaJSON(s), Type: g, Bytes: bs, Skip: skip}, &resp, 10*time.Second)
	if outcome != "ok" {
		return isoReadResp{Class: outcome, Msg: msg}
	}
	return resp
}
