package main

// C01/C02 with values and blocks of sizes the generated cases never reach: a string of
// thirteen thousand bytes, a hundred-kilobyte byte field, seventy thousand array items,
// map keys of several kilobytes, several blocks above 64 KiB, and empty slices that
// still own storage.  Direct oracle only (the independent container parser, the
// reference decoder and ReadFile); nothing of this size is handed to the Coq model.

import (
	"bytes"
	"fmt"
	"reflect"
	"unsafe"

	"github.com/philpearl/avro"
)

type BigRow struct {
	ID      int64             `json:"id"`
	Name    string            `json:"name"`
	Payload []byte            `json:"payload"`
	Nums    []int64           `json:"nums"`
	M       map[string]string `json:"m"`
}

func bigRows(kind string) []BigRow {
	rep := func(b byte, n int) []byte { return bytes.Repeat([]byte{b}, n) }
	ramp := func(n int) []int64 {
		out := make([]int64, n)
		for i := range out {
			out[i] = int64(i)*3 - 7
		}
		return out
	}
	small := func(i int64) BigRow {
		return BigRow{ID: i, Name: fmt.Sprintf("row-%d", i), Payload: []byte{byte(i), 1, 2}, Nums: []int64{i, -i}, M: map[string]string{"k": fmt.Sprint(i)}}
	}
	switch kind {
	case "long-string":
		return []BigRow{small(1), small(2), {ID: 3, Name: string(rep('n', 13001)), M: map[string]string{}}, small(4), {ID: 5, Name: string(rep('q', 4097))}, {ID: 6, Name: string(rep('r', 8193))}}
	case "big-bytes":
		return []BigRow{small(1), small(2), {ID: 3, Name: "payload", Payload: rep(0xAB, 100<<10)}, small(4)}
	case "long-array":
		return []BigRow{small(1), {ID: 2, Name: "nums", Nums: ramp(70000)}, small(3)}
	case "big-keys":
		return []BigRow{small(1), {ID: 2, M: map[string]string{string(rep('k', 9000)): string(rep('v', 5000)), "short": "x"}}, small(3)}
	case "big-blocks":
		return []BigRow{{ID: 1, Payload: rep(1, 70<<10)}, {ID: 2, Payload: rep(2, 66<<10)}, {ID: 3, Payload: rep(3, 80<<10)}, small(4)}
	case "spare-capacity":
		nums := []int64{9, 8, 7}
		return []BigRow{small(1), {ID: 2, Name: "empties", Payload: make([]byte, 0, 4), Nums: make([]int64, 0, 8), M: map[string]string{}},
			{ID: 3, Name: "resliced", Payload: []byte{1, 2, 3}[:0], Nums: nums[:0]}, small(4)}
	}
	return nil
}

func c01Big(r *Run) {
	g := gtOf(reflect.TypeOf(BigRow{}))
	s, err := avro.SchemaForType(BigRow{})
	if err != nil {
		r.Fail(-1, "schema-error", "SchemaForType(BigRow): "+err.Error(), nil)
		return
	}
	for _, kind := range []string{"long-string", "big-bytes", "long-array", "big-keys", "big-blocks", "spare-capacity"} {
		rows := bigRows(kind)
		for _, comp := range []avro.Compression{avro.CompressionNull, avro.CompressionDeflate, avro.CompressionSnappy} {
			for _, blockSize := range []int{0, 1024, 32 << 10, 1 << 20} {
				desc := map[string]any{"kind": "big/" + kind, "codec": string(comp), "block_size": blockSize, "rows": len(rows)}
				r.Count("big/" + kind)
				var buf bytes.Buffer
				werr := func() (err error) {
					defer func() {
						if p := recover(); p != nil {
							err = fmt.Errorf("PANIC: %v", p)
						}
					}()
					enc, err := avro.NewEncoderFor[BigRow](&buf, comp, blockSize)
					if err != nil {
						return err
					}
					for i := range rows {
						if err := enc.Encode(&rows[i]); err != nil {
							return err
						}
					}
					return enc.Flush()
				}()
				if werr != nil {
					r.Fail(-1, "encode-error", "encoding fails: "+werr.Error(), desc)
					continue
				}
				// the independent reader: container parser + reference decoder
				ct, perr := parseContainer(buf.Bytes())
				if perr != nil {
					r.Fail(-1, "container-invalid", "the file is not a valid container: "+perr.Error(), desc)
					continue
				}
				k := 0
				bad := false
				for bi, b := range ct.Blocks {
					rest := b.Payload
					for n := int64(0); n < b.Count && !bad; n++ {
						d, r2, derr := decodeDatum(s, rest)
						if derr != nil || k >= len(rows) {
							r.Fail(-1, "payload-not-avro", fmt.Sprintf("block %d record %d: not a valid encoding under the schema (%v)", bi, n, derr), desc)
							bad = true
							break
						}
						want, _ := datumOfValue(s, g, reflect.ValueOf(&rows[k]).Elem())
						if !datumEq(want, d, true) {
							r.Fail(-1, "wrong-datum", fmt.Sprintf("record %d decodes (reference decoder) to a different datum than the value written denotes", k), desc)
							bad = true
						}
						rest = r2
						k++
					}
					if !bad && len(rest) != 0 {
						r.Fail(-1, "payload-leftover", fmt.Sprintf("block %d: %d bytes follow its records", bi, len(rest)), desc)
						bad = true
					}
				}
				if !bad && k != len(rows) {
					r.Fail(-1, "record-count", fmt.Sprintf("the file holds %d records, %d were written", k, len(rows)), desc)
				}
				// the library's own reader
				n := 0
				rerr := func() (err error) {
					defer func() {
						if p := recover(); p != nil {
							err = fmt.Errorf("PANIC: %v", p)
						}
					}()
					return avro.ReadFile(bytes.NewReader(buf.Bytes()), BigRow{}, func(val unsafe.Pointer, rb *avro.ResourceBank) error {
						if n < len(rows) {
							if eq, where := normEq(g, reflect.ValueOf(&rows[n]).Elem(), reflect.NewAt(reflect.TypeOf(BigRow{}), val).Elem()); !eq {
								r.Fail(-1, "roundtrip-value", fmt.Sprintf("record %d reads back differently at %s", n, where), desc)
							}
						}
						n++
						rb.Close()
						return nil
					})
				}()
				if rerr != nil || n != len(rows) {
					r.Fail(-1, "roundtrip-read-error", fmt.Sprintf("ReadFile: %v after %d of %d records", rerr, n, len(rows)), desc)
				}
			}
		}
	}
}
