package main

// Hand-written types for C15 (schema generation corner cases) and C20
// (user-defined custom codecs in every position).

import (
	"fmt"
	"reflect"
	"time"
	"unsafe"

	"github.com/philpearl/avro"
	"github.com/unravelin/null/v5"
)

// ===========================================================================
// C15: corner types
// ===========================================================================

type C15In struct{ X int64 }
type C15In2 struct {
	Z string `json:"z"`
}
type c15unexp struct{ Q int64 }

// tag corner cases
type C15Tags struct {
	A  int64   `json:"-"`                  // excluded
	B  int64   `json:"-,"`                 // excluded too (encoding/json would call it "-")
	C  int64   `json:",omitempty"`         // Go name, nullable
	D  int64   `json:"x,omitempty,string"` // x, nullable
	E  int64   `json:",string"`            // Go name, plain
	F  int64   `bq:"-"`                    // excluded
	G  int64   `json:"g" bq:"-"`           // excluded whatever json says
	H  int64   `json:"h" bq:"other"`       // kept
	I  string  `json:"i,string,omitempty"` // omitempty anywhere in the option list
	J  string  `json:"j,omitemptyx"`       // not omitempty
	K  string  `json:"omitempty"`          // a name, not an option
	L  string  `json:",,omitempty"`        // empty option, then omitempty
	M  string  `json:"m,"`                 // trailing comma
	N  float64 `json:"n, omitempty"`       // option with a space: not omitempty
	O  bool    `json:"with space"`
	P  bool    `json:"ünï-cødé"`
	Q  *int64  `json:"q,omitempty"` // pointer and omitempty: one union
	R  []int64 `json:"r,omitempty"` // omitempty slice: nullable array
	S  *[]int64
	T  *map[string]int64 `json:"t,omitempty"` // pointer to map stays a map; omitempty then wraps it
	U  **int64
	V  map[string]*int64 `json:"v,omitempty"`
	W  time.Time         `json:"w,omitempty"` // registered union: not wrapped again
	X  *time.Time        `json:"x2,omitempty"`
	Y  null.Int          `json:"y,omitempty"`
	Z  *null.String
	Zz string `json:"-" bq:"-"`
}

// duplicate JSON names in one struct
type C15Dup struct {
	G int64  `json:"dup"`
	H string `json:"dup"`
	I int64
	J int64 `json:"I"` // collides with the Go name of I
}

// duplicate names with identical types: the codec builder accepts these
type C15DupSame struct {
	A int64 `json:"d"`
	B int64 `json:"d"`
	C string
}

type C15Empty struct{}

// embedded structs: not flattened, a field named after the type (or its tag)
type C15Embed struct {
	C15In
	*C15In2
	c15unexp // unexported embedded type: skipped
	C15Empty `json:"renamed"`
	Own      int64
}

// unexported fields of every kind
type C15Unexported struct {
	a  bool
	b  int8
	c  uint64
	d  complex128
	e  chan int
	f  func()
	g  any
	h  unsafe.Pointer
	i  [3]int
	j  map[int]int
	k  *C15Unexported // would be recursive if it were looked at
	l  []uint16
	m  uintptr
	OK int64
}

// excluded fields of unsupported kinds
type C15ExcludedBad struct {
	A chan int        `json:"-"`
	B func()          `bq:"-"`
	C any             `json:"-,"`
	D complex64       `json:"-"`
	E uint32          `bq:"-"`
	F *C15ExcludedBad `json:"-"` // recursion behind an excluded field is never seen
	G int64
}

// the same named struct in several positions
type C15Twice struct {
	A C15In
	B C15In
}
type C15TwicePtr struct {
	A C15In
	B *C15In
}
type C15TwiceDeep struct {
	A []C15In
	B map[string]map[string]*C15In
}
type C15OnceOnly struct {
	A C15In
	B C15In2
	C struct{ X int64 } // anonymous
}
type C15AnonTwice struct {
	A struct{ X int64 }
	B struct{ X int64 }
}

// named types over every kind
type (
	C15NBool   bool
	C15NInt    int
	C15NInt8   int8
	C15NInt16  int16
	C15NInt32  int32
	C15NInt64  int64
	C15NUint8  uint8
	C15NUint   uint
	C15NF32    float32
	C15NF64    float64
	C15NStr    string
	C15NBytes  []byte
	C15NBytes2 []C15NUint8
	C15NSlice  []string
	C15NArr    [4]byte
	C15NArr2   [2]int64
	C15NMap    map[string]int64
	C15NMapInt map[int64]string
	C15NChan   chan int
	C15NFunc   func()
	C15NCplx   complex64
)

type C15Named1 struct {
	A C15NBool
	B C15NInt
	C C15NInt16
	D C15NInt32
	E C15NInt64
	F C15NF32
	G C15NF64
	H C15NStr
	I C15NBytes
	J C15NBytes2
	K C15NSlice
	L C15NMap
	M *C15NInt64
	N []C15NStr
	O map[string]C15NF64
	P C15NStr `json:"p,omitempty"`
}
type C15NamedI8 struct{ A C15NInt8 }
type C15NamedU8 struct{ A C15NUint8 }
type C15NamedU struct{ A C15NUint }
type C15NamedArr struct{ A C15NArr }
type C15NamedArr2 struct{ A C15NArr2 }
type C15NamedMapInt struct{ A C15NMapInt }
type C15NamedChan struct{ A C15NChan }
type C15NamedFunc struct{ A C15NFunc }
type C15NamedCplx struct{ A C15NCplx }

// every kind the mapping does (or does not) cover, as field / element / pointee / map value
type C15KInt8 struct{ A int8 }
type C15KUint8 struct{ A uint8 }
type C15KUint16 struct{ A uint16 }
type C15KUint32 struct{ A uint32 }
type C15KUint64 struct{ A uint64 }
type C15KUint struct{ A uint }
type C15KUintptr struct{ A uintptr }
type C15KC64 struct{ A complex64 }
type C15KC128 struct{ A complex128 }
type C15KIface struct{ A any }
type C15KIface2 struct{ A fmt.Stringer }
type C15KChan struct{ A chan int }
type C15KFunc struct{ A func(int) int }
type C15KUnsafe struct{ A unsafe.Pointer }
type C15KArrByte struct{ A [5]byte }
type C15KArrByte0 struct{ A [0]byte }
type C15KArrInt struct{ A [3]int64 }
type C15KArrStruct struct{ A [2]C15In }
type C15KMapInt struct{ A map[int]string }
type C15KMapStruct struct{ A map[C15In]string }
type C15KMapNamedStr struct{ A map[C15NStr]int64 }
type C15KElemU16 struct{ A []uint16 }
type C15KElemChan struct{ A []chan int }
type C15KPtrU32 struct{ A *uint32 }
type C15KPtrFunc struct{ A *func() }
type C15KMapValU struct{ A map[string]uint }
type C15KMapValIface struct{ A map[string]any }
type C15KArrElemU struct{ A [2]uint64 }
type C15KDeepBad struct {
	A []map[string]*struct{ B []complex64 }
}
type C15KPtrPtrSlice struct{ A **[]int64 }
type C15KSliceOfPtrSlice struct{ A []*[]string }
type C15KI8Everywhere struct {
	A []int8
	B *int8
	C map[string]int8
}

// self-referential and mutually recursive types (run in a child process)
type C15R1 struct{ Next *C15R1 }
type C15R2 struct{ Kids []C15R2 }
type C15R3 struct{ M map[string]C15R3 }
type C15RA struct{ B *C15RB }
type C15RB struct{ A *C15RA }
type C15RC struct{ D []C15RD }
type C15RD struct{ C map[string]*C15RC }
type C15RE struct {
	X struct{ Y []*C15RE }
}
type C15RF struct {
	V int64
	P **C15RF `json:"p,omitempty"`
}
type C15RG struct{ A [2]*C15RG }
type C15RH1 struct{ H2 C15RH2 }
type C15RH2 struct{ H3 []C15RH3 }
type C15RH3 struct{ H1 *C15RH1 }

// not recursive: the same type twice along different branches, and a type
// that refers to itself only behind an excluded field
type C15NotRec struct {
	A C15In
	B struct{ C C15In }
	D *C15ExcludedBad
}

// two different struct types that print the same ("main.C15Acct"): a package-level one and a
// function-local one that contains it.  Containing a namesake is not recursion.
type C15Acct struct {
	N int64 `json:"n"`
}

func c15Namesake() any {
	type inner = C15Acct
	type C15Acct struct {
		Peer  inner   `json:"peer"`
		Peers []inner `json:"peers"`
		Name  string  `json:"name"`
	}
	return C15Acct{}
}

var c15Corner = []any{
	c15Namesake(),
	C15Tags{}, C15Dup{}, C15DupSame{}, C15Empty{}, C15Embed{}, C15Unexported{}, C15ExcludedBad{},
	C15Twice{}, C15TwicePtr{}, C15TwiceDeep{}, C15OnceOnly{}, C15AnonTwice{},
	C15Named1{}, C15NamedI8{}, C15NamedU8{}, C15NamedU{}, C15NamedArr{}, C15NamedArr2{}, C15NamedMapInt{},
	C15NamedChan{}, C15NamedFunc{}, C15NamedCplx{},
	C15KInt8{}, C15KUint8{}, C15KUint16{}, C15KUint32{}, C15KUint64{}, C15KUint{}, C15KUintptr{}, C15KC64{}, C15KC128{},
	C15KIface{}, C15KIface2{}, C15KChan{}, C15KFunc{}, C15KUnsafe{}, C15KArrByte{}, C15KArrByte0{}, C15KArrInt{},
	C15KArrStruct{}, C15KMapInt{}, C15KMapStruct{}, C15KMapNamedStr{}, C15KElemU16{}, C15KElemChan{}, C15KPtrU32{},
	C15KPtrFunc{}, C15KMapValU{}, C15KMapValIface{}, C15KArrElemU{}, C15KDeepBad{}, C15KPtrPtrSlice{},
	C15KSliceOfPtrSlice{}, C15KI8Everywhere{}, C15NotRec{}, C20W{},
	// anonymous top-level struct types
	struct{ A int64 }{}, struct{}{}, struct {
		A struct{ B struct{ C int64 } }
	}{},
	// pointers to structs, and things that are not structs at all
	&C15Tags{}, &C15In{}, (*C15Twice)(nil),
	int64(5), "x", []int64{}, &[]C15In{}, map[string]C15In{}, C15NInt64(1), new(*C15In), [1]C15In{}, 1.5, true, func() {}, make(chan int),
}

var c15Recursive = map[string]any{
	"R1": C15R1{}, "R2": C15R2{}, "R3": C15R3{}, "RA": C15RA{}, "RB": &C15RB{}, "RC": C15RC{}, "RD": C15RD{},
	"RE": C15RE{}, "RF": C15RF{}, "RG": C15RG{}, "RH1": C15RH1{}, "RH2": C15RH2{}, "RH3": &C15RH3{},
}

// cycles whose only defined type is a slice, map or array type and whose only struct is
// anonymous (judged by the oracle alone: the model's type descriptions name structs)
type C15Tree []struct{ Kids C15Tree }
type C15Dir map[string]struct{ Sub C15Dir }
type C15Forest []struct {
	Name string
	Sub  map[string]struct{ Trees C15Forest }
}

var c15RecursiveAnon = map[string]any{
	"AnonTree":   struct{ T C15Tree }{},
	"AnonDir":    struct{ D C15Dir }{},
	"AnonForest": struct{ F C15Forest }{},
	"AnonPtr":    &struct{ T *C15Tree }{},
}

// ===========================================================================
// C20: user-defined custom types and their codecs
// ===========================================================================

type Cents int64
type Tag string
type Pair struct{ A, B int64 }
type pairShadow struct{ A, B int64 } // layout-identical to Pair, never registered
type IDs []int64

var (
	c20CentsT = reflect.TypeOf(Cents(0))
	c20TagT   = reflect.TypeOf(Tag(""))
	c20PairT  = reflect.TypeOf(Pair{})
	c20IDsT   = reflect.TypeOf(IDs(nil))
)

var c20TypeNames = []string{"Cents", "Tag", "Pair", "IDs"}

func c20TypeOf(name string) reflect.Type {
	switch name {
	case "Cents":
		return c20CentsT
	case "Tag":
		return c20TagT
	case "Pair":
		return c20PairT
	case "IDs":
		return c20IDsT
	}
	return nil
}

// call counters, per custom type
type c20Counter struct {
	Build, Read, Write, Omit, Skip, New int
}

var c20Counters = map[string]*c20Counter{"Cents": {}, "Tag": {}, "Pair": {}, "IDs": {}}

func c20Snapshot() map[string]c20Counter {
	out := map[string]c20Counter{}
	for k, v := range c20Counters {
		out[k] = *v
	}
	return out
}

// ---- Cents: an int64 stored xor k -------------------------------------------
// matches the model's CCustom k (CInt 64 om): wire format and Omit of the
// inner codec, value transformed by cx k.
type c20CentsCodec struct {
	avro.Int64Codec
	k    int64
	omit bool
	n    *c20Counter
}

func (c c20CentsCodec) Read(r *avro.ReadBuf, p unsafe.Pointer) error {
	c.n.Read++
	if err := c.Int64Codec.Read(r, p); err != nil {
		return err
	}
	*(*int64)(p) ^= c.k
	return nil
}
func (c c20CentsCodec) Skip(r *avro.ReadBuf) error { c.n.Skip++; return c.Int64Codec.Skip(r) }
func (c c20CentsCodec) New(r *avro.ReadBuf) unsafe.Pointer {
	c.n.New++
	return r.Alloc(c20CentsT)
}
func (c c20CentsCodec) Omit(p unsafe.Pointer) bool {
	c.n.Omit++
	return c.omit && *(*int64)(p) == 0
}
func (c c20CentsCodec) Write(w *avro.WriteBuf, p unsafe.Pointer) {
	c.n.Write++
	v := *(*int64)(p) ^ c.k
	c.Int64Codec.Write(w, unsafe.Pointer(&v))
}

func c20CentsBuilder(k int64) avro.CodecBuildFunc {
	return func(s avro.Schema, t reflect.Type, omit bool) (avro.Codec, error) {
		n := c20Counters["Cents"]
		n.Build++
		if s.Type != "long" && s.Type != "int" {
			return nil, fmt.Errorf("Cents needs a long or int schema, not %q", s.Type)
		}
		return c20CentsCodec{k: k, omit: omit, n: n}, nil
	}
}

// ---- Tag: a string stored reversed --------------------------------------------
type c20TagCodec struct {
	avro.StringCodec
	omit bool
	n    *c20Counter
}

func c20Reverse(s string) string {
	b := []byte(s)
	for i, j := 0, len(b)-1; i < j; i, j = i+1, j-1 {
		b[i], b[j] = b[j], b[i]
	}
	return string(b)
}

func (c c20TagCodec) Read(r *avro.ReadBuf, p unsafe.Pointer) error {
	c.n.Read++
	if err := c.StringCodec.Read(r, p); err != nil {
		return err
	}
	*(*string)(p) = c20Reverse(*(*string)(p))
	return nil
}
func (c c20TagCodec) Skip(r *avro.ReadBuf) error { c.n.Skip++; return c.StringCodec.Skip(r) }
func (c c20TagCodec) New(r *avro.ReadBuf) unsafe.Pointer {
	c.n.New++
	return r.Alloc(c20TagT)
}
func (c c20TagCodec) Omit(p unsafe.Pointer) bool {
	c.n.Omit++
	return c.omit && len(*(*string)(p)) == 0
}
func (c c20TagCodec) Write(w *avro.WriteBuf, p unsafe.Pointer) {
	c.n.Write++
	v := c20Reverse(*(*string)(p))
	c.StringCodec.Write(w, unsafe.Pointer(&v))
}

func c20TagBuilder(k int64) avro.CodecBuildFunc {
	return func(s avro.Schema, t reflect.Type, omit bool) (avro.Codec, error) {
		n := c20Counters["Tag"]
		n.Build++
		if s.Type != "string" {
			return nil, fmt.Errorf("Tag needs a string schema, not %q", s.Type)
		}
		return c20TagCodec{omit: omit, n: n}, nil
	}
}

// ---- Pair: a struct whose codec delegates to the library's record codec ---------
// (built for a layout-identical unregistered struct type) and counts calls.
type c20PairCodec struct {
	inner avro.Codec
	n     *c20Counter
}

func (c c20PairCodec) Read(r *avro.ReadBuf, p unsafe.Pointer) error {
	c.n.Read++
	return c.inner.Read(r, p)
}
func (c c20PairCodec) Skip(r *avro.ReadBuf) error               { c.n.Skip++; return c.inner.Skip(r) }
func (c c20PairCodec) New(r *avro.ReadBuf) unsafe.Pointer       { c.n.New++; return r.Alloc(c20PairT) }
func (c c20PairCodec) Omit(p unsafe.Pointer) bool               { c.n.Omit++; return c.inner.Omit(p) }
func (c c20PairCodec) Write(w *avro.WriteBuf, p unsafe.Pointer) { c.n.Write++; c.inner.Write(w, p) }

func c20PairBuilder(k int64) avro.CodecBuildFunc {
	return func(s avro.Schema, t reflect.Type, omit bool) (avro.Codec, error) {
		n := c20Counters["Pair"]
		n.Build++
		inner, err := s.Codec(pairShadow{})
		if err != nil {
			return nil, err
		}
		return c20PairCodec{inner: inner, n: n}, nil
	}
}

// ---- IDs: a named slice with a hand-written block loop -----------------------------
// The item codec is whatever the library builds for (items schema, int64): it is
// obtained as the codec of a one-field record over struct{F int64}, whose Read,
// Write and Skip at offset 0 are the item codec's.
type c20IDsCodec struct {
	item avro.Codec
	omit bool
	n    *c20Counter
}

func (c c20IDsCodec) Read(r *avro.ReadBuf, p unsafe.Pointer) error {
	c.n.Read++
	s := (*[]int64)(p)
	for {
		count, err := r.Varint()
		if err != nil {
			return err
		}
		if count == 0 {
			return nil
		}
		if count < 0 {
			count = -count
			if _, err := r.Varint(); err != nil {
				return err
			}
		}
		for i := int64(0); i < count; i++ {
			var x int64
			if err := c.item.Read(r, unsafe.Pointer(&x)); err != nil {
				return err
			}
			*s = append(*s, x)
		}
	}
}

func (c c20IDsCodec) Skip(r *avro.ReadBuf) error {
	c.n.Skip++
	for {
		count, err := r.Varint()
		if err != nil {
			return err
		}
		if count == 0 {
			return nil
		}
		if count < 0 {
			size, err := r.Varint()
			if err != nil {
				return err
			}
			if _, err := r.Next(int(size)); err != nil {
				return err
			}
			continue
		}
		for ; count > 0; count-- {
			if err := c.item.Skip(r); err != nil {
				return err
			}
		}
	}
}
func (c c20IDsCodec) New(r *avro.ReadBuf) unsafe.Pointer { c.n.New++; return r.Alloc(c20IDsT) }
func (c c20IDsCodec) Omit(p unsafe.Pointer) bool {
	c.n.Omit++
	return c.omit && len(*(*[]int64)(p)) == 0
}
func (c c20IDsCodec) Write(w *avro.WriteBuf, p unsafe.Pointer) {
	c.n.Write++
	s := *(*[]int64)(p)
	if len(s) == 0 {
		w.Varint(0)
		return
	}
	w.Varint(int64(len(s)))
	for i := range s {
		c.item.Write(w, unsafe.Pointer(&s[i]))
	}
	w.Varint(0)
}

func c20IDsBuilder(k int64) avro.CodecBuildFunc {
	return func(s avro.Schema, t reflect.Type, omit bool) (avro.Codec, error) {
		n := c20Counters["IDs"]
		n.Build++
		if s.Type != "array" || s.Object == nil {
			return nil, fmt.Errorf("IDs needs an array schema, not %q", s.Type)
		}
		rs := avro.Schema{Type: "record", Object: &avro.SchemaObject{Name: "w",
			Fields: []avro.SchemaRecordField{{Name: "F", Type: s.Object.Items}}}}
		item, err := rs.Codec(struct{ F int64 }{})
		if err != nil {
			return nil, err
		}
		return c20IDsCodec{item: item, omit: omit, n: n}, nil
	}
}

func c20Builder(name string, k int64) avro.CodecBuildFunc {
	switch name {
	case "Cents":
		return c20CentsBuilder(k)
	case "Tag":
		return c20TagBuilder(k)
	case "Pair":
		return c20PairBuilder(k)
	case "IDs":
		return c20IDsBuilder(k)
	}
	return nil
}

// the schemas registered for the custom types; variant "alt" is a second
// acceptable schema (for "the most recent registration wins" on the schema side)
func c20RegSchema(name, variant string) avro.Schema {
	switch name {
	case "Cents":
		if variant == "alt" {
			return avro.Schema{Type: "long", Object: &avro.SchemaObject{LogicalType: "timestamp-millis"}}
		}
		return avro.Schema{Type: "long"}
	case "Tag":
		switch variant {
		case "nullfirst":
			return avro.Schema{Type: "union", Union: []avro.Schema{{Type: "null"}, {Type: "string"}}}
		case "nullsecond":
			return avro.Schema{Type: "union", Union: []avro.Schema{{Type: "string"}, {Type: "null"}}}
		}
		return avro.Schema{Type: "string"}
	case "Pair":
		s, err := avro.SchemaForType(pairShadow{})
		if err != nil {
			panic(err)
		}
		s.Object.Name = "Pair"
		if variant == "alt" {
			s.Object.Name = "PairAlt"
		}
		return s
	case "IDs":
		it := avro.Schema{Type: "long"}
		if variant == "alt" {
			it = avro.Schema{Type: "long", Object: &avro.SchemaObject{LogicalType: "timestamp-micros"}}
		}
		return avro.Schema{Type: "array", Object: &avro.SchemaObject{Items: it}}
	}
	return avro.Schema{}
}

// ---- containers: the custom types in every position ------------------------------
type C20In struct {
	C Cents
	T *Tag `json:"t,omitempty"`
	X int64
}

type C20A struct {
	C   Cents
	PC  *Cents
	SC  []Cents
	MC  map[string]Cents
	OC  Cents  `json:"oc,omitempty"`
	OPC *Cents `json:"opc,omitempty"`
	T   Tag
	PT  *Tag
	ST  []Tag
	MT  map[string]Tag
	OT  Tag `json:"ot,omitempty"`
	N   int64
	S   string
	In  C20In
	SIn []C20In
	MPC map[string]*Cents
	SPC []*Cents
	MIn map[string]C20In
}

type C20B struct {
	P   Pair
	PP  *Pair
	SP  []Pair
	MP  map[string]Pair
	OP  *Pair `json:"op,omitempty"`
	OP2 Pair  `json:"op2,omitempty"`
	I   IDs
	SI  []IDs
	MI  map[string]IDs
	OI  IDs `json:"oi,omitempty"`
	N   int64
	SPP []*Pair
}

// pointer to the named slice: its schema stays a plain array
type C20PI struct {
	PI *IDs
	N  int64
}

// two levels of pointers
type C20PP struct {
	PPC **Cents
	PPT **Tag `json:"ppt,omitempty"`
	N   int64
}

// only one custom type each (frame: the others' registrations must not matter)
type C20OnlyCents struct {
	A Cents
	B []Cents
	N int64
}
type C20OnlyTag struct {
	A Tag
	B map[string]Tag
	S string
}

// no custom type at all, but the same underlying kinds
type C20Plain struct {
	A int64
	B string
	C []int64
	D struct{ A, B int64 }
	E *int64 `json:"e,omitempty"`
}

// the library's own registrations as slice elements and map values
type C20W struct {
	ST  []time.Time
	MT  map[string]time.Time
	SNI []null.Int
	MNI map[string]null.Int
	SNS []null.String
	MNS map[string]null.String
	SNB []null.Bool
	MNB map[string]null.Bool
	SNF []null.Float
	MNF map[string]null.Float
	SNT []null.Time
	MNT map[string]null.Time
	SPT []*time.Time
	MPN map[string]*null.Int
}

var c20Containers = map[string]any{
	"C20A": C20A{}, "C20B": C20B{}, "C20PI": C20PI{}, "C20PP": C20PP{}, "C20OnlyCents": C20OnlyCents{},
	"C20OnlyTag": C20OnlyTag{}, "C20Plain": C20Plain{}, "C20W": C20W{}, "C20In": C20In{}, "Pair": Pair{},
}

func c20Zero(name string) any {
	if z, ok := c20Containers[name]; ok {
		return z
	}
	for _, e := range pool {
		if e.Name == name {
			return e.Zero
		}
	}
	return nil
}

// one custom type each, for the caller-schema matrix
type C20OneC struct{ C Cents }
type C20OneT struct{ T Tag }
type C20OneP struct{ P Pair }
type C20OneI struct{ I IDs }

func init() {
	c20Containers["C20OneC"] = C20OneC{}
	c20Containers["C20OneT"] = C20OneT{}
	c20Containers["C20OneP"] = C20OneP{}
	c20Containers["C20OneI"] = C20OneI{}
}
