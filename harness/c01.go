package main

import (
	"bytes"
	"encoding/json"
	"fmt"
	"io"
	"math"
	"math/rand"
	"reflect"
	"unsafe"

	"github.com/philpearl/avro"
)

func init() {
	register("C01", "Avro.Corr.Codec", func(r *Run) { runEncoderProps(r, "C01") })
	register("C02", "Avro.Corr.Codec", func(r *Run) { runEncoderProps(r, "C02") })
}

// ---- the generic Encoder[T], instantiated for every pool type -------------
type encIface interface {
	Encode(v reflect.Value) error
	Flush() error
}
type encWrap[T any] struct{ e *avro.Encoder[T] }

func (w *encWrap[T]) Encode(v reflect.Value) error { return w.e.Encode((*T)(v.Addr().UnsafePointer())) }
func (w *encWrap[T]) Flush() error                 { return w.e.Flush() }

type encFactory func(w io.Writer, comp avro.Compression, blockSize int) (encIface, error)

func mkEnc[T any]() encFactory {
	return func(w io.Writer, comp avro.Compression, blockSize int) (encIface, error) {
		e, err := avro.NewEncoderFor[T](w, comp, blockSize)
		if err != nil {
			return nil, err
		}
		return &encWrap[T]{e}, nil
	}
}

var encTable = map[string]encFactory{
	"P01": mkEnc[P01](), "P02": mkEnc[P02](), "P03": mkEnc[P03](), "P04": mkEnc[P04](), "P05": mkEnc[P05](),
	"P06": mkEnc[P06](), "P07": mkEnc[P07](), "P08": mkEnc[P08](), "P09": mkEnc[P09](), "P10": mkEnc[P10](),
	"P11": mkEnc[P11](), "P12": mkEnc[P12](), "P13": mkEnc[P13](), "P14": mkEnc[P14](), "P15": mkEnc[P15](),
	"P16": mkEnc[P16](), "P17": mkEnc[P17](), "P18": mkEnc[P18](), "P19": mkEnc[P19](), "P20": mkEnc[P20](),
	"P21": mkEnc[P21](), "P22": mkEnc[P22](), "P23": mkEnc[P23](), "P24": mkEnc[P24](), "P25": mkEnc[P25](),
	"P26": mkEnc[P26](), "P27": mkEnc[P27](), "P28": mkEnc[P28](), "P29": mkEnc[P29](),
}

// ---- known-finding shapes: values the schema cannot express ----------------
// (a) a non-nil pointer to an invalid null.* wrapper: written as non-null with the stale payload
// (b) nil pointer to slice/map: the schema has no null, nil reads back as pointer to empty
// (c) **T with the inner pointer nil: non-null selector followed by nothing
func findingShape(g *GT, v reflect.Value) string {
	g = g.under()
	if g == nil || !v.IsValid() {
		return ""
	}
	switch g.Kind {
	case "ptr":
		e := g.Elem.under()
		if v.IsNil() {
			if e != nil && (e.Kind == "map" || (e.Kind == "slice" && !e.isBytes())) {
				return "ptr-to-collection:nil"
			}
			return ""
		}
		if e != nil && e.Kind == "wrap" && e.Wrap != "time" {
			if x, ok := expose(v.Elem()); ok {
				if valid, _, ok := wrapParts(e.Wrap, x); ok && !valid {
					return "ptr-to-invalid-wrapper"
				}
			}
		}
		if e != nil && e.Kind == "ptr" && v.Elem().IsNil() {
			return "ptr-ptr:inner-nil"
		}
		return findingShape(g.Elem, v.Elem())
	case "slice":
		if g.isBytes() {
			return ""
		}
		for i := 0; i < v.Len(); i++ {
			if k := findingShape(g.Elem, v.Index(i)); k != "" {
				return k
			}
		}
	case "map":
		it := v.MapRange()
		for it.Next() {
			if k := findingShape(g.Elem, it.Value()); k != "" {
				return k
			}
		}
	case "struct":
		for i, f := range g.Fields {
			if fieldName(f) == "-" {
				continue
			}
			if fv, ok := expose(v.Field(i)); ok {
				if k := findingShape(f.T, fv); k != "" {
					return k
				}
			}
		}
	}
	return ""
}

// negZeroOmit: -0.0 in an omitempty float field is "a zero value": it is written
// as null and reads back as +0.0 (documented normalisation).  Normalise the input.
func normaliseOmitZero(g *GT, v reflect.Value, omit bool) {
	g = g.under()
	if g == nil || !v.IsValid() {
		return
	}
	switch g.Kind {
	case "float32", "float64":
		if omit && v.CanSet() && v.Float() == 0 && math.Signbit(v.Float()) {
			v.SetFloat(0)
		}
	case "struct":
		for i, f := range g.Fields {
			if fieldName(f) == "-" || !f.Exported {
				continue
			}
			normaliseOmitZero(f.T, v.Field(i), fieldOmitEmpty(f))
		}
	case "ptr":
		if !v.IsNil() {
			normaliseOmitZero(g.Elem, v.Elem(), false)
		}
	case "slice":
		if !g.isBytes() {
			for i := 0; i < v.Len(); i++ {
				normaliseOmitZero(g.Elem, v.Index(i), false)
			}
		}
	case "map":
		if !v.IsNil() {
			it := v.MapRange()
			for it.Next() {
				e := reflect.New(v.Type().Elem()).Elem()
				e.Set(it.Value())
				normaliseOmitZero(g.Elem, e, false)
				v.SetMapIndex(it.Key(), e)
			}
		}
	}
}

type recWriter struct {
	chunks [][]byte
}

func (w *recWriter) Write(p []byte) (int, error) {
	w.chunks = append(w.chunks, append([]byte{}, p...))
	return len(p), nil
}
func (w *recWriter) Bytes() []byte { return bytes.Join(w.chunks, nil) }

var compressions = []avro.Compression{avro.CompressionNull, avro.CompressionDeflate, avro.CompressionSnappy}

// schemaFromJSONStd converts schema JSON to avro.Schema using only the standard library
// (the independent reader must not rely on the library's own JSON code).
func schemaFromJSONStd(text []byte) (s avro.Schema, err error) {
	var v any
	dec := json.NewDecoder(bytes.NewReader(text))
	dec.UseNumber()
	if err := dec.Decode(&v); err != nil {
		return s, err
	}
	return schemaFromAny(v)
}

func schemaFromAny(v any) (avro.Schema, error) {
	switch x := v.(type) {
	case string:
		return avro.Schema{Type: x}, nil
	case []any:
		s := avro.Schema{Type: "union"}
		for _, b := range x {
			bs, err := schemaFromAny(b)
			if err != nil {
				return s, err
			}
			s.Union = append(s.Union, bs)
		}
		return s, nil
	case map[string]any:
		o := &avro.SchemaObject{}
		s := avro.Schema{Object: o}
		if t, ok := x["type"].(string); ok {
			s.Type = t
		} else {
			return s, fmt.Errorf("schema object without a type name")
		}
		str := func(k string) string { z, _ := x[k].(string); return z }
		o.LogicalType, o.Name, o.Namespace = str("logicalType"), str("name"), str("namespace")
		if f, ok := x["fields"].([]any); ok {
			for _, fe := range f {
				fm, ok := fe.(map[string]any)
				if !ok {
					return s, fmt.Errorf("record field is not an object")
				}
				ft, err := schemaFromAny(fm["type"])
				if err != nil {
					return s, err
				}
				n, _ := fm["name"].(string)
				o.Fields = append(o.Fields, avro.SchemaRecordField{Name: n, Type: ft})
			}
		}
		var err error
		if it, ok := x["items"]; ok {
			if o.Items, err = schemaFromAny(it); err != nil {
				return s, err
			}
		}
		if vs, ok := x["values"]; ok {
			if o.Values, err = schemaFromAny(vs); err != nil {
				return s, err
			}
		}
		if sz, ok := x["size"].(json.Number); ok {
			n, err := sz.Int64()
			if err != nil {
				return s, err
			}
			o.Size = int(n)
		}
		if sy, ok := x["symbols"].([]any); ok {
			for _, e := range sy {
				z, _ := e.(string)
				o.Symbols = append(o.Symbols, z)
			}
		}
		return s, nil
	}
	return avro.Schema{}, fmt.Errorf("unexpected JSON value %T in schema", v)
}

// runEncoderProps drives C01 (round trip through Encoder and ReadFile) and C02
// (the output is valid Avro for an independent reader).
func runEncoderProps(r *Run, prop string) {
	c01Big(r)
	if prop == "C01" {
		c10LargePointee(r) // values above 64 KiB behind pointers, banks closed and recycled record by record
		c01EveryBlockLength(r, true)
		c01WideMapValues(r)
		c01AdjacentFloats(r)
		c03SlotReuse(r)
	} else {
		c02NilCollectionPointers(r)
		// C02 speaks of every file the encoder or the file writer produces: the FileWriter used
		// directly (empty blocks, blocks at varint boundaries, AppendHeader behind a prefix)
		c09FileWriterDirect(r, false)
		c01EveryBlockLength(r, true)
	}
	nfiles := r.N(90, 2500)
	for i := 0; i < nfiles; i++ {
		e := pool[i%len(pool)]
		if i >= len(pool) {
			e = pool[r.Rng.Intn(len(pool))]
		}
		g := e.GT
		rt := reflect.TypeOf(e.Zero)
		comp := compressions[r.Rng.Intn(3)]
		blockSize := []int{0, 1, 40, 300, 100000}[r.Rng.Intn(5)]
		nvals := r.Rng.Intn(9)
		if i%7 == 0 {
			nvals = 0
		} else if nvals < 3 && i%2 == 0 {
			nvals += 3
		}
		var vals []reflect.Value
		shape := ""
		// in one file of three every second record is the zero value of the type (nil pointers, empty
		// strings, slices and maps, zero numbers) between two rich ones: nothing of a record may show
		// in the next
		sparse := i%3 == 1
		if sparse && nvals < 4 {
			nvals = 4 + r.Rng.Intn(3)
		}
		if sparse {
			r.Count("sparse-file")
		}
		for k := 0; k < nvals; k++ {
			v := genValue(r.Rng, g)
			if sparse && k%2 == 1 {
				v = reflect.New(rt).Elem()
			}
			if !sparse && k%3 == 2 {
				// one omitempty field empty, its neighbours as they came
				if zeroOneOmitField(r.Rng, g, v) {
					r.Count("one-empty-omitempty-field")
				}
			}
			zeroExcluded(g, v)
			normaliseOmitZero(g, v, false)
			if sk := findingShape(g, v); sk != "" && shape == "" {
				shape = sk
			}
			vals = append(vals, v)
		}
		desc := map[string]any{"type": e.Name, "compression": string(comp), "block_size": blockSize, "records": nvals}
		var descVals []any
		for _, v := range vals {
			descVals = append(descVals, descVal(g, v))
		}
		desc["values"] = descVals
		r.Count("type/" + e.Name)
		r.Count("comp/" + string(comp))
		r.Count(fmt.Sprintf("blocksize/%d", blockSize))

		// schema generation for this type, against the model
		s, serr := avro.SchemaForType(reflect.New(rt).Interface())
		if serr != nil {
			r.Add(cApp("KSchema", g.Coq(), "None"), desc, "schema/"+e.Name)
			r.Fail(-1, "schema-error", "SchemaForType fails on a supported type: "+serr.Error(), desc)
			continue
		}
		if i < len(pool) {
			r.Add(cApp("KSchema", g.Coq(), cApp("Some", coqSchema(s))), map[string]any{"type": e.Name, "schema": schemaJSON(s)}, "schema/"+e.Name)
		}

		// write through the generic Encoder with a random flush pattern
		w := &recWriter{}
		var flushes []int
		func() {
			defer func() {
				if p := recover(); p != nil {
					serr = fmt.Errorf("PANIC: %v", p)
				}
			}()
			enc, err := encTable[e.Name](w, comp, blockSize)
			if err != nil {
				serr = err
				return
			}
			for k, v := range vals {
				if err := enc.Encode(v); err != nil {
					serr = err
					return
				}
				if r.Rng.Intn(3) == 0 {
					flushes = append(flushes, k)
					if err := enc.Flush(); err != nil {
						serr = err
						return
					}
				}
			}
			if err := enc.Flush(); err != nil {
				serr = err
			}
			if r.Rng.Intn(2) == 0 {
				enc.Flush() // a second flush must add nothing
			}
		}()
		desc["flush_after"] = flushes
		if serr != nil {
			r.Fail(-1, classifyKF(shape, "encode-error"), "encoding fails: "+serr.Error(), desc)
			continue
		}
		file := w.Bytes()
		desc["file"] = hexs(file)

		// per-record model comparison through the same codec the encoder uses
		codec, cerr := schemaCodec(s, g)
		if cerr == nil {
			for k, v := range vals {
				bs, panicked := implWrite(codec, v)
				want, okd := datumOfValue(s, g, v)
				if !okd {
					want = &Datum{K: "null"}
				}
				id := r.Add(cApp("KWrite", coqSchema(s), g.Coq(), coqVal(g, v), cOptBytes(bs, panicked), coqDatum(want)),
					map[string]any{"type": e.Name, "value": descVal(g, v), "bytes": hexs(bs)}, fmt.Sprintf("write/%s/%x", e.Name, bs))
				if panicked {
					r.Fail(id, classifyKF(findingShape(g, v), "write-panic"), "Codec.Write panics", map[string]any{"type": e.Name, "value": descVal(g, v)})
				} else {
					checkWrittenDatum(r, id, s, g, v, bs, want, okd)
				}
				_ = k
			}
		}

		if prop == "C02" {
			checkIndependentReader(r, e, g, s, vals, file, string(comp), shape, desc)
			continue
		}

		// C01: read back into the same type
		var got []reflect.Value
		var rerr error
		func() {
			defer func() {
				if p := recover(); p != nil {
					rerr = fmt.Errorf("PANIC: %v", p)
				}
			}()
			rerr = avro.ReadFile(bytes.NewReader(file), reflect.New(rt).Elem().Interface(), func(val unsafe.Pointer, rb *avro.ResourceBank) error {
				v := reflect.New(rt).Elem()
				v.Set(reflect.NewAt(rt, val).Elem())
				got = append(got, v)
				return nil
			})
		}()
		switch {
		case rerr != nil:
			r.Fail(-1, classifyKF(shape, "roundtrip-read-error"), "reading back fails: "+rerr.Error(), desc)
		case len(got) != len(vals):
			r.Fail(-1, classifyKF(shape, "roundtrip-count"), fmt.Sprintf("wrote %d records, read %d", len(vals), len(got)), desc)
		default:
			for k := range vals {
				if eq, where := normEq(g, vals[k], got[k]); !eq {
					r.Fail(-1, classifyKF(findingShape(g, vals[k]), "roundtrip-value"), fmt.Sprintf("record %d differs at %s", k, where), desc)
					break
				}
			}
		}
	}
	if prop == "C01" {
		dynamicRoundTrips(r)
	}
}

// checkWrittenDatum: the written bytes are a complete valid encoding under the
// schema and decode (reference decoder) to the datum the value denotes.
func checkWrittenDatum(r *Run, id int, s avro.Schema, g *GT, v reflect.Value, bs []byte, want *Datum, okd bool) {
	vd := map[string]any{"type": g.Coq(), "value": descVal(g, v), "bytes": hexs(bs), "schema": schemaJSON(s)}
	d, rest, err := decodeDatum(s, bs)
	switch {
	case err != nil:
		r.Fail(id, classifyKF(findingShape(g, v), "payload-not-avro"), "written bytes are not a valid encoding under the schema: "+err.Error(), vd)
	case len(rest) != 0:
		r.Fail(id, classifyKF(findingShape(g, v), "payload-leftover"), fmt.Sprintf("%d bytes follow the encoding", len(rest)), vd)
	case okd && !datumEq(want, d, true):
		r.Fail(id, classifyKF(findingShape(g, v), "wrong-datum"), "written bytes decode to a different datum than the value denotes: got "+trunc(coqDatum(d))+" want "+trunc(coqDatum(want)), vd)
	}
}

func classifyKF(shape, other string) string {
	if shape != "" {
		return shape
	}
	return other
}

// checkIndependentReader: C02.  The file is parsed by the harness's spec-based
// container reader; the embedded schema is parsed with the standard library's JSON;
// every block is decoded with the reference decoder under that schema alone.
func checkIndependentReader(r *Run, e poolEntry, g *GT, s avro.Schema, vals []reflect.Value, file []byte, comp, shape string, desc map[string]any) {
	ct, err := parseContainer(file)
	if err != nil {
		r.Fail(-1, classifyKF(shape, "invalid-container"), "output is not a well-formed container: "+err.Error(), desc)
		return
	}
	if ct.Codec != comp {
		r.Fail(-1, "codec-metadata", fmt.Sprintf("metadata says codec %q, encoder was given %q", ct.Codec, comp), desc)
	}
	es, err := schemaFromJSONStd(ct.SchemaJSON)
	if err != nil {
		r.Fail(-1, "embedded-schema-json", "embedded schema is not valid JSON for an independent parser: "+err.Error(), desc)
		return
	}
	if coqSchema(es) != coqSchema(s) {
		r.Fail(-1, "embedded-schema", "embedded schema differs from SchemaForType", desc)
	}
	k := 0
	for bi, b := range ct.Blocks {
		if b.Count <= 0 {
			r.Fail(-1, "empty-block", fmt.Sprintf("block %d declares %d records", bi, b.Count), desc)
		}
		rest := b.Payload
		for j := int64(0); j < b.Count; j++ {
			d, rr, err := decodeDatum(es, rest)
			if err != nil {
				r.Fail(-1, classifyKF(shape, "payload-not-avro"), fmt.Sprintf("block %d record %d is not a valid encoding under the embedded schema: %v", bi, j, err), desc)
				return
			}
			rest = rr
			if k >= len(vals) {
				r.Fail(-1, "extra-record", "more records in the file than were written", desc)
				return
			}
			want, okd := datumOfValue(s, g, vals[k])
			if okd && !datumEq(want, d, true) {
				r.Fail(-1, classifyKF(findingShape(g, vals[k]), "wrong-datum"), fmt.Sprintf("record %d decodes to a different datum: got %s want %s", k, trunc(coqDatum(d)), trunc(coqDatum(want))), desc)
				return
			}
			k++
		}
		if len(rest) != 0 {
			r.Fail(-1, classifyKF(shape, "block-leftover"), fmt.Sprintf("block %d has %d bytes left over after its %d records", bi, len(rest), b.Count), desc)
			return
		}
	}
	if k != len(vals) {
		r.Fail(-1, classifyKF(shape, "missing-record"), fmt.Sprintf("file holds %d records, %d were written", k, len(vals)), desc)
	}
}

// zeroOneOmitField empties one omitempty field of v (at the top level, or else inside a nested
// struct field) and leaves the rest: what sits next to an empty field must not decide how it is written.
func zeroOneOmitField(rng *rand.Rand, g *GT, v reflect.Value) bool {
	u := g.under()
	if u == nil || u.Kind != "struct" || v.Kind() != reflect.Struct {
		return false
	}
	var cands, nested []int
	for i, f := range u.Fields {
		if !f.Exported || i >= v.NumField() || !v.Field(i).CanSet() {
			continue
		}
		if fieldOmitEmpty(f) {
			cands = append(cands, i)
		} else if fu := f.T.under(); fu != nil && fu.Kind == "struct" {
			nested = append(nested, i)
		}
	}
	if len(cands) > 0 {
		i := cands[rng.Intn(len(cands))]
		v.Field(i).Set(reflect.Zero(v.Field(i).Type()))
		return true
	}
	for _, i := range nested {
		if zeroOneOmitField(rng, u.Fields[i].T, v.Field(i)) {
			return true
		}
	}
	return false
}

// dynamicRoundTrips: random struct types (reflect.StructOf) through
// SchemaForType + Schema.Codec + Write + Read, the path the Encoder and ReadFile use.
func dynamicRoundTrips(r *Run) {
	n := r.N(120, 4000)
	for i := 0; i < n; i++ {
		g := genStructType(r.Rng, TypeGenCfg{MaxDepth: 1 + r.Rng.Intn(4), Dynamic: true, AllowUnsupported: i%10 == 0})
		rt := g.RType()
		s, err := avro.SchemaForType(reflect.New(rt).Interface())
		desc := map[string]any{"type": g.Coq()}
		if err != nil {
			r.Add(cApp("KSchema", g.Coq(), "None"), desc, "dynschema/"+g.Coq())
			r.Count("dyn/schema-refused")
			continue
		}
		r.Add(cApp("KSchema", g.Coq(), cApp("Some", coqSchema(s))), desc, "dynschema/"+g.Coq())
		codec, err := schemaCodec(s, g)
		if err != nil {
			r.Add(cApp("KBuild", coqSchema(s), g.Coq(), "false"), desc, "dynbuild/"+g.Coq())
			r.Count("dyn/codec-refused")
			if isPanicErr(err) {
				r.Fail(-1, "build-panic", err.Error(), desc)
			}
			continue
		}
		r.Count("dyn/ok")
		for k := 0; k < 3; k++ {
			v := genValue(r.Rng, g)
			if k == 2 {
				zeroOneOmitField(r.Rng, g, v)
			}
			zeroExcluded(g, v)
			normaliseOmitZero(g, v, false)
			shape := findingShape(g, v)
			bs, panicked := implWrite(codec, v)
			want, okd := datumOfValue(s, g, v)
			if !okd {
				want = &Datum{K: "null"}
			}
			vd := map[string]any{"type": g.Coq(), "value": descVal(g, v), "bytes": hexs(bs)}
			id := r.Add(cApp("KWrite", coqSchema(s), g.Coq(), coqVal(g, v), cOptBytes(bs, panicked), coqDatum(want)), vd, fmt.Sprintf("dynwrite/%x/%s", bs, g.Coq()))
			if panicked {
				r.Fail(id, classifyKF(shape, "write-panic"), "Codec.Write panics", vd)
				continue
			}
			checkWrittenDatum(r, id, s, g, v, bs, want, okd)
			got := implRead(codec, g, bs)
			idr := r.Add(cApp("KRead", coqSchema(s), g.Coq(), cBytes(bs), got.coq()), vd, fmt.Sprintf("dynread/%x/%s", bs, g.Coq()))
			switch {
			case got.Class != "ok":
				r.Fail(idr, classifyKF(shape, "roundtrip-read-error"), "reading back fails: "+got.Class+" "+got.Msg, vd)
			case got.Rem != 0:
				r.Fail(idr, classifyKF(shape, "roundtrip-leftover"), fmt.Sprintf("%d bytes left after reading back", got.Rem), vd)
			default:
				if eq, where := normEq(g, v, got.Val); !eq {
					r.Fail(idr, classifyKF(shape, "roundtrip-value"), "value differs at "+where, vd)
				}
			}
		}
	}
}
