package main

import (
	"bytes"
	"encoding/binary"
	"fmt"
	"math"
	"reflect"
	"time"
	"unsafe"

	"github.com/philpearl/avro"
	"github.com/unravelin/null/v5"
)

// c13Padding: caller-written schemas over structs whose neighbouring fixed-width fields are
// separated by alignment padding (float32 before float64, a three-byte array before a float32,
// an int16 before a double), in schema order and in another order.  What is written is the
// specification's encoding of the values, field by field in schema order, and reading it back
// gives the values.
func c13Padding(r *Run) {
	type padded struct {
		A float32 `json:"a"`
		B float64 `json:"b"`
		C [3]byte `json:"c"`
		D float32 `json:"d"`
		E int16   `json:"e"`
		F float64 `json:"f"`
		G [5]byte `json:"g"`
		H float64 `json:"h"`
	}
	f := func(n, t string) string { return `{"name":"` + n + `","type":` + t + `}` }
	fx := func(n string, k int) string {
		return f(n, fmt.Sprintf(`{"type":"fixed","name":"X%s","size":%d}`, n, k))
	}
	orders := [][]string{{"a", "b", "c", "d", "e", "f", "g", "h"}, {"h", "g", "f", "e", "d", "c", "b", "a"}, {"b", "a", "d", "c", "f", "e", "h", "g"}}
	fieldSchema := map[string]string{"a": f("a", `"float"`), "b": f("b", `"double"`), "c": fx("c", 3), "d": f("d", `"float"`), "e": f("e", `"int"`), "f": f("f", `"double"`), "g": fx("g", 5), "h": f("h", `"double"`)}
	v := padded{A: 1.5, B: -2.25, C: [3]byte{1, 2, 3}, D: float32(math.Pi), E: -300, F: 1e100, G: [5]byte{9, 8, 7, 6, 5}, H: -0.5}
	enc := map[string][]byte{
		"a": binary.LittleEndian.AppendUint32(nil, math.Float32bits(v.A)), "b": binary.LittleEndian.AppendUint64(nil, math.Float64bits(v.B)),
		"c": v.C[:], "d": binary.LittleEndian.AppendUint32(nil, math.Float32bits(v.D)), "e": specVarint(int64(v.E)),
		"f": binary.LittleEndian.AppendUint64(nil, math.Float64bits(v.F)), "g": v.G[:], "h": binary.LittleEndian.AppendUint64(nil, math.Float64bits(v.H)),
	}
	for _, order := range orders {
		schema := `{"type":"record","name":"P","fields":[`
		var want []byte
		for i, n := range order {
			if i > 0 {
				schema += ","
			}
			schema += fieldSchema[n]
			want = append(want, enc[n]...)
		}
		schema += `]}`
		desc := map[string]any{"schema": schema, "value": fmt.Sprintf("%+v", v)}
		r.Count("padding")
		s, err := avro.SchemaFromString(schema)
		if err != nil {
			panic(err)
		}
		codec, err := s.Codec(padded{})
		if err != nil {
			r.Fail(-1, "build-refused", "a struct that covers every field of the schema is refused: "+err.Error(), desc)
			continue
		}
		func() {
			defer func() {
				if p := recover(); p != nil {
					r.Fail(-1, "write-panic", fmt.Sprintf("panic %v", p), desc)
				}
			}()
			w := avro.NewWriteBuf(nil)
			codec.Write(w, unsafe.Pointer(&v))
			if !bytes.Equal(w.Bytes(), want) {
				r.Fail(-1, "wrong-encoding", fmt.Sprintf("fixed-width fields separated by padding: written %x, the specification's encoding of the values in schema order is %x", w.Bytes(), want), desc)
				return
			}
			var back padded
			rb := avro.NewReadBuf(w.Bytes())
			if err := codec.Read(rb, unsafe.Pointer(&back)); err != nil || rb.Len() != 0 || back != v {
				r.Fail(-1, "invert-value", fmt.Sprintf("decoding the written bytes gives %+v (error %v, %d bytes left), written %+v", back, err, rb.Len(), v), desc)
			}
		}()
	}
}

// c04WrapperSkips: for the wrapper and time types under every schema they accept, in nullable
// unions of both orders, Skip of the built codec consumes exactly the bytes Read consumes - for
// null and for non-null values - and a record holding such a field in front of another field is
// projected correctly.
func c04WrapperSkips(r *Run) {
	type wf struct {
		F null.Float `json:"f"`
		T int64      `json:"tail"`
	}
	type wi struct {
		F null.Int `json:"f"`
		T int64    `json:"tail"`
	}
	type ws struct {
		F null.String `json:"f"`
		T int64       `json:"tail"`
	}
	type wb struct {
		F null.Bool `json:"f"`
		T int64     `json:"tail"`
	}
	type wt struct {
		F time.Time `json:"f"`
		T int64     `json:"tail"`
	}
	type wnt struct {
		F null.Time `json:"f"`
		T int64     `json:"tail"`
	}
	type none struct {
		T int64 `json:"tail"`
	}
	f32 := binary.LittleEndian.AppendUint32(nil, math.Float32bits(2.5))
	f64 := binary.LittleEndian.AppendUint64(nil, math.Float64bits(2.5))
	ts := "2021-03-04T05:06:07.123456789+05:45"
	tsb := append(specVarint(int64(len(ts))), ts...)
	cases := []struct {
		name   string
		target any
		ftype  string
		value  []byte // encoding of one non-null value under ftype
	}{
		{"null.Float under float", wf{}, `"float"`, f32}, {"null.Float under double", wf{}, `"double"`, f64},
		{"null.Int under long", wi{}, `"long"`, specVarint(-77)}, {"null.Int under int", wi{}, `"int"`, specVarint(300)},
		{"null.String under string", ws{}, `"string"`, []byte{6, 'a', 'b', 'c'}},
		{"null.Bool under boolean", wb{}, `"boolean"`, []byte{1}},
		{"time.Time under string", wt{}, `"string"`, tsb},
		{"time.Time under timestamp-micros", wt{}, `{"type":"long","logicalType":"timestamp-micros"}`, specVarint(1614812767123456)},
		{"time.Time under timestamp-millis", wt{}, `{"type":"long","logicalType":"timestamp-millis"}`, specVarint(1614812767123)},
		{"time.Time under date", wt{}, `{"type":"int","logicalType":"date"}`, specVarint(18690)},
		{"null.Time under string", wnt{}, `"string"`, tsb},
	}
	for _, c := range cases {
		for _, shape := range []struct {
			name  string
			ftype string
			vals  [][]byte
		}{
			{"plain", c.ftype, [][]byte{c.value}},
			{"[null,T]", `["null",` + c.ftype + `]`, [][]byte{append([]byte{2}, c.value...), {0}}},
			{"[T,null]", `[` + c.ftype + `,"null"]`, [][]byte{append([]byte{0}, c.value...), {2}}},
		} {
			schema := `{"type":"record","name":"r","fields":[{"name":"f","type":` + shape.ftype + `},{"name":"tail","type":"long"}]}`
			s, err := avro.SchemaFromString(schema)
			if err != nil {
				panic(err)
			}
			codec, err := s.Codec(c.target)
			if err != nil {
				continue // a pairing this tree does not accept: nothing to compare
			}
			proj, err := s.Codec(none{})
			if err != nil {
				continue
			}
			for _, val := range shape.vals {
				data := append(append([]byte{}, val...), specVarint(41)...)
				desc := map[string]any{"case": c.name, "shape": shape.name, "schema": schema, "bytes": hexs(data)}
				r.Count("wrapper-skips")
				func() {
					defer func() {
						if p := recover(); p != nil {
							r.Fail(-1, "read-panic", fmt.Sprintf("%s, %s: panic %v", c.name, shape.name, p), desc)
						}
					}()
					full := reflectNewOf(c.target)
					rb := avro.NewReadBuf(data)
					rerr := codec.Read(rb, full)
					rs := avro.NewReadBuf(data)
					serr := codec.Skip(rs)
					var pv none
					rp := avro.NewReadBuf(data)
					perr := proj.Read(rp, unsafe.Pointer(&pv))
					switch {
					case rerr != nil || rb.Len() != 0:
						r.Fail(-1, "legal-rejected", fmt.Sprintf("%s, %s: Read fails or leaves bytes: %v, %d left", c.name, shape.name, rerr, rb.Len()), desc)
					case serr != nil || rs.Len() != rb.Len():
						r.Fail(-1, "skip-read-differ", fmt.Sprintf("%s, %s: Read consumes %d bytes, Skip of the same codec %d (error %v)", c.name, shape.name, len(data)-rb.Len(), len(data)-rs.Len(), serr), desc)
					case perr != nil || rp.Len() != 0 || pv.T != 41:
						r.Fail(-1, "projection-differs", fmt.Sprintf("%s, %s: a target without the field reads the field behind it as %d (written 41), error %v, %d bytes left", c.name, shape.name, pv.T, perr, rp.Len()), desc)
					}
					rb.ExtractResourceBank().Close()
				}()
			}
		}
	}
}

// reflectNewOf: a pointer to a fresh zero value of v's type.
func reflectNewOf(v any) unsafe.Pointer {
	return reflect.New(reflect.TypeOf(v)).UnsafePointer()
}
