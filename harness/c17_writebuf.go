package main

import (
	"bytes"
	"fmt"

	"github.com/philpearl/avro"
)

// c17WriteBuf: the append-only WriteBuf against a plain byte slice, over random sequences of
// Varint / Byte / Write / Reset, starting from buffers that already hold something and have
// spare capacity: what Bytes returns is always what was there plus what was appended, in order,
// Len is its length, Reset empties it, and every varint appended is the specification's.
func c17WriteBuf(r *Run) {
	n := r.N(200, 3000)
	for it := 0; it < n; it++ {
		prefix := make([]byte, r.Rng.Intn(20), 20+r.Rng.Intn(200))
		r.Rng.Read(prefix)
		model := append([]byte{}, prefix...)
		w := avro.NewWriteBuf(prefix)
		var ops, terms []string
		start := append([]byte{}, prefix...)
		ok := true
		for k, steps := 0, 1+r.Rng.Intn(40); k < steps && ok; k++ {
			switch r.Rng.Intn(8) {
			case 0, 1, 2:
				vs := interestingInt64s(r, 1)
				v := vs[r.Rng.Intn(len(vs))]
				w.Varint(v)
				model = append(model, specVarint(v)...)
				ops = append(ops, fmt.Sprintf("Varint(%d)", v))
				terms = append(terms, cApp("WbVarint", cZ(v)))
			case 3, 4:
				b := byte(r.Rng.Intn(256))
				w.Byte(b)
				model = append(model, b)
				ops = append(ops, fmt.Sprintf("Byte(%#x)", b))
				terms = append(terms, cApp("WbByte", cZ(int64(b))))
			case 5, 6:
				val := make([]byte, []int{0, 1, 7, 64, 300, 5000}[r.Rng.Intn(6)])
				r.Rng.Read(val)
				w.Write(val)
				model = append(model, val...)
				ops = append(ops, fmt.Sprintf("Write(%d bytes)", len(val)))
				terms = append(terms, cApp("WbWrite", cBytes(val)))
			default:
				w.Reset()
				model = model[:0]
				ops = append(ops, "Reset()")
				terms = append(terms, "WbReset")
			}
			if w.Len() != len(model) || !bytes.Equal(w.Bytes(), model) {
				r.Fail(-1, "writebuf", fmt.Sprintf("after %v on a WriteBuf over %d bytes (capacity %d): Len %d and Bytes of %d bytes, a plain append gives %d bytes (first difference at %d)",
					ops, len(prefix), cap(prefix), w.Len(), len(w.Bytes()), len(model), firstDiff(w.Bytes(), model)), map[string]any{"ops": ops})
				ok = false
			}
		}
		r.Count("writebuf-sequences")
		if ok && len(w.Bytes()) < 3000 {
			// the same history through the model (Model/Buffers.v wb_run)
			r.Add(cApp("KWb", cBytes(start), cList(terms), cBytes(w.Bytes())), map[string]any{"ops": ops}, fmt.Sprintf("wb/%x/%v", start, ops))
		}
	}
}

func firstDiff(a, b []byte) int {
	for i := 0; i < len(a) && i < len(b); i++ {
		if a[i] != b[i] {
			return i
		}
	}
	return min(len(a), len(b))
}

// c17WriteBufEdges: every amount of spare capacity from 0 to 24 bytes against every varint
// length, a single byte and short writes: whatever the buffer does differently when "it still
// fits" shows at one particular fill level only.
func c17WriteBufEdges(r *Run) {
	values := []int64{0, -1, 63, 64, -64, -65, 8191, 8192, 1 << 20, 1 << 27, 1 << 34, 1 << 41, 1 << 48, 1 << 55, 1<<62 - 1, 1 << 62, -(1 << 62), -(1 << 62) - 1, 1<<63 - 1, -1 << 63}
	for spare := 0; spare <= 24; spare++ {
		for _, filled := range []int{0, 1, 7} {
			for _, v := range values {
				func() {
					buf := make([]byte, filled, filled+spare)
					for i := range buf {
						buf[i] = byte(0xA0 + i)
					}
					want := append(append([]byte{}, buf...), specVarint(v)...)
					defer func() {
						if p := recover(); p != nil {
							r.Fail(-1, "writebuf", fmt.Sprintf("Varint(%d) on a WriteBuf holding %d bytes with %d bytes of spare capacity panics: %v", v, filled, spare, p), map[string]any{"value": v, "spare": spare, "filled": filled})
						}
					}()
					w := avro.NewWriteBuf(buf)
					w.Varint(v)
					w.Byte(0x5A)
					w.Write([]byte{1, 2, 3})
					want = append(want, 0x5A, 1, 2, 3)
					r.Count("writebuf-edges")
					if !bytes.Equal(w.Bytes(), want) || w.Len() != len(want) {
						r.Fail(-1, "writebuf", fmt.Sprintf("Varint(%d), Byte, Write(3 bytes) on a WriteBuf holding %d bytes with %d bytes of spare capacity: Bytes is %x, a plain append gives %x", v, filled, spare, w.Bytes(), want), map[string]any{"value": v, "spare": spare, "filled": filled})
					}
				}()
			}
		}
	}
}
