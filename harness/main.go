// Command impl is the implementation side of the correspondence check.
// For one property it generates cases from a single seeded PRNG, runs the real
// library (built from /repo's working tree) on them, evaluates the property's
// direct oracle on the implementation's behaviour, and writes
//
//	<out>/cases_<k>.v   the cases together with the implementation's observables
//	                    as Coq terms, to be evaluated against the model by coqc
//	<out>/result.json   counts, input distribution, samples, oracle failures
package main

import (
	"encoding/json"
	"flag"
	"fmt"
	"math/rand"
	"os"
	"path/filepath"
	"sort"
	"strings"
)

// Case is one generated input together with what the implementation did.
type Case struct {
	ID   int
	Coq  string // Coq term of type <Corr module>.case
	Desc any    // human/JSON description used for samples and replay
	Key  string // distinctness key; "" = trivial case
}

// Failure is a direct-oracle failure on the implementation.
type Failure struct {
	CaseID int    `json:"case_id"`
	Key    string `json:"key"`  // classifier key matched against known_findings.txt
	What   string `json:"what"` // what failed
	Replay any    `json:"replay"`
}

type Run struct {
	Prop     string
	Seed     int64
	Tier     string
	Rng      *rand.Rand
	Module   string // Coq correspondence module, e.g. Avro.Corr.C17
	Cases    []Case
	Failures []Failure
	Dist     map[string]int
	Notes    []string
	Extra    map[string]any
	replay   *json.RawMessage
}

func (r *Run) Thorough() bool { return r.Tier == "thorough" }

// N picks the case budget for the tier.
func (r *Run) N(quick, thorough int) int {
	if r.Thorough() {
		return thorough
	}
	return quick
}

func (r *Run) Add(coq string, desc any, key string) int {
	id := len(r.Cases)
	r.Cases = append(r.Cases, Case{ID: id, Coq: coq, Desc: desc, Key: key})
	return id
}

func (r *Run) Count(k string) { r.Dist[k]++ }

func (r *Run) Fail(caseID int, key, what string, replay any) {
	r.Failures = append(r.Failures, Failure{CaseID: caseID, Key: key, What: what, Replay: replay})
}

type propFn func(r *Run)

var props = map[string]struct {
	module string
	fn     propFn
}{}

func register(id, module string, fn propFn) {
	props[id] = struct {
		module string
		fn     propFn
	}{module, fn}
}

func main() {
	if len(os.Args) > 1 && os.Args[1] == "-worker" {
		workerMain()
		return
	}
	prop := flag.String("prop", "", "property id")
	seed := flag.Int64("seed", 1, "PRNG seed")
	tier := flag.String("tier", "quick", "quick|thorough")
	out := flag.String("out", "", "output directory")
	replay := flag.String("replay", "", "replay file (JSON) to run instead of generating")
	flag.Parse()
	p, ok := props[*prop]
	if !ok {
		fmt.Fprintf(os.Stderr, "unknown property %q\n", *prop)
		os.Exit(2)
	}
	r := &Run{Prop: *prop, Seed: *seed, Tier: *tier, Rng: rand.New(rand.NewSource(*seed)),
		Module: p.module, Dist: map[string]int{}, Extra: map[string]any{}, Failures: []Failure{}, Notes: []string{}}
	if *replay != "" {
		b, err := os.ReadFile(*replay)
		if err != nil {
			fmt.Fprintln(os.Stderr, err)
			os.Exit(2)
		}
		var doc struct {
			Replay json.RawMessage `json:"replay"`
		}
		if err := json.Unmarshal(b, &doc); err != nil {
			fmt.Fprintln(os.Stderr, err)
			os.Exit(2)
		}
		r.replay = &doc.Replay
	}
	p.fn(r)
	stopWorkers()
	if err := r.write(*out); err != nil {
		fmt.Fprintln(os.Stderr, err)
		os.Exit(2)
	}
}

const chunk = 40

func (r *Run) write(dir string) error {
	if err := os.MkdirAll(dir, 0o755); err != nil {
		return err
	}
	old, _ := filepath.Glob(filepath.Join(dir, "cases_*.v"))
	for _, f := range old {
		os.Remove(f)
	}
	// chunks of at most 40 cases and about 300 KB of terms (one Definition each); the chunks
	// are spread over the shards (one coqc process each) so that the shards carry about the
	// same number of bytes: the slowest shard decides how long the evaluation takes
	type chunkT struct {
		text string
	}
	var chunks []chunkT
	for c := 0; c < len(r.Cases); {
		var sb strings.Builder
		fmt.Fprintf(&sb, "Definition bad_%d := Eval vm_compute in bad_ids [\n", c)
		size, first := 0, c
		for c < len(r.Cases) && c-first < chunk && (size < 300000 || c == first) {
			if c > first {
				sb.WriteString(";\n")
			}
			fmt.Fprintf(&sb, " (%d, %s)", r.Cases[c].ID, r.Cases[c].Coq)
			size += len(r.Cases[c].Coq)
			c++
		}
		fmt.Fprintf(&sb, "\n].\nPrint bad_%d.\n", first)
		chunks = append(chunks, chunkT{sb.String()})
	}
	total := 0
	for _, ch := range chunks {
		total += len(ch.text)
	}
	// the model is evaluated on at most a budget of term text (every case still went through
	// the direct oracle): beyond it, chunks are taken at a regular stride
	budget := 60 << 20
	if r.Thorough() {
		budget = 250 << 20
	}
	r.Extra["model_term_bytes_generated"] = total
	if total > budget {
		stride := total/budget + 1
		var kept []chunkT
		keptBytes := 0
		for i, ch := range chunks {
			if i%stride == 0 {
				kept = append(kept, ch)
				keptBytes += len(ch.text)
			}
		}
		r.Extra["model_evaluated_chunks"] = fmt.Sprintf("%d of %d (every %d-th chunk of at most %d cases)", len(kept), len(chunks), stride, chunk)
		chunks, total = kept, keptBytes
	}
	r.Extra["model_term_bytes_evaluated"] = total
	nshards := 16
	if n := total/1500000 + 1; n > nshards {
		nshards = min(n, 64)
	}
	if len(chunks) < nshards {
		nshards = max(len(chunks), 1)
	}
	order := make([]int, len(chunks))
	for i := range order {
		order[i] = i
	}
	sort.SliceStable(order, func(a, b int) bool { return len(chunks[order[a]].text) > len(chunks[order[b]].text) })
	load := make([]int, nshards)
	parts := make([][]int, nshards)
	for _, ci := range order {
		best := 0
		for k := range load {
			if load[k] < load[best] {
				best = k
			}
		}
		load[best] += len(chunks[ci].text)
		parts[best] = append(parts[best], ci)
	}
	for k := 0; k < nshards; k++ {
		sort.Ints(parts[k])
		var sb strings.Builder
		fmt.Fprintf(&sb, "Require Import %s.\nOpen Scope Z_scope.\n", r.Module)
		for _, ci := range parts[k] {
			sb.WriteString(chunks[ci].text)
		}
		if err := os.WriteFile(filepath.Join(dir, fmt.Sprintf("cases_%d.v", k)), []byte(sb.String()), 0o644); err != nil {
			return err
		}
	}
	keys := map[string]bool{}
	for _, c := range r.Cases {
		if c.Key != "" {
			keys[c.Key] = true
		}
	}
	// samples: first, a few spread over the run
	var samples []any
	if n := len(r.Cases); n > 0 {
		for _, i := range []int{0, n / 5, 2 * n / 5, 3 * n / 5, 4 * n / 5, n - 1} {
			samples = append(samples, map[string]any{"id": r.Cases[i].ID, "case": r.Cases[i].Desc})
		}
	}
	descs := map[int]any{}
	for _, f := range r.Failures {
		if f.CaseID >= 0 && f.CaseID < len(r.Cases) {
			descs[f.CaseID] = r.Cases[f.CaseID].Desc
		}
	}
	dk := make([]string, 0, len(r.Dist))
	for k := range r.Dist {
		dk = append(dk, k)
	}
	sort.Strings(dk)
	res := map[string]any{
		"property": r.Prop, "seed": r.Seed, "tier": r.Tier, "module": r.Module,
		"evaluations": len(r.Cases), "distinct_nontrivial": len(keys),
		"shards": nshards, "distribution": r.Dist, "samples": samples,
		"failures": r.Failures, "notes": r.Notes, "extra": r.Extra,
	}
	b, err := json.MarshalIndent(res, "", " ")
	if err != nil {
		return err
	}
	if err := os.WriteFile(filepath.Join(dir, "result.json"), b, 0o644); err != nil {
		return err
	}
	// all case descriptions, for replay lookup by id when the model disagrees
	f, err := os.Create(filepath.Join(dir, "cases.jsonl"))
	if err != nil {
		return err
	}
	defer f.Close()
	enc := json.NewEncoder(f)
	for _, c := range r.Cases {
		if err := enc.Encode(map[string]any{"id": c.ID, "case": c.Desc, "coq": c.Coq}); err != nil {
			return err
		}
	}
	return nil
}
