package main

// Goroutine-private defined types for C12: registry keys (avro.Register /
// avro.RegisterSchema) that only one goroutine of a round ever registers.

import "reflect"

type (
	C12T00 int64
	C12T01 int64
	C12T02 int64
	C12T03 int64
	C12T04 int64
	C12T05 int64
	C12T06 int64
	C12T07 int64
	C12T08 int64
	C12T09 int64
	C12T10 int64
	C12T11 int64
	C12T12 int64
	C12T13 int64
	C12T14 int64
	C12T15 int64
	C12T16 int64
	C12T17 int64
	C12T18 int64
	C12T19 int64
	C12T20 int64
	C12T21 int64
	C12T22 int64
	C12T23 int64
	C12T24 int64
	C12T25 int64
	C12T26 int64
	C12T27 int64
	C12T28 int64
	C12T29 int64
	C12T30 int64
	C12T31 int64
)

var c12PrivTypes = []reflect.Type{
	reflect.TypeOf(C12T00(0)),
	reflect.TypeOf(C12T01(0)),
	reflect.TypeOf(C12T02(0)),
	reflect.TypeOf(C12T03(0)),
	reflect.TypeOf(C12T04(0)),
	reflect.TypeOf(C12T05(0)),
	reflect.TypeOf(C12T06(0)),
	reflect.TypeOf(C12T07(0)),
	reflect.TypeOf(C12T08(0)),
	reflect.TypeOf(C12T09(0)),
	reflect.TypeOf(C12T10(0)),
	reflect.TypeOf(C12T11(0)),
	reflect.TypeOf(C12T12(0)),
	reflect.TypeOf(C12T13(0)),
	reflect.TypeOf(C12T14(0)),
	reflect.TypeOf(C12T15(0)),
	reflect.TypeOf(C12T16(0)),
	reflect.TypeOf(C12T17(0)),
	reflect.TypeOf(C12T18(0)),
	reflect.TypeOf(C12T19(0)),
	reflect.TypeOf(C12T20(0)),
	reflect.TypeOf(C12T21(0)),
	reflect.TypeOf(C12T22(0)),
	reflect.TypeOf(C12T23(0)),
	reflect.TypeOf(C12T24(0)),
	reflect.TypeOf(C12T25(0)),
	reflect.TypeOf(C12T26(0)),
	reflect.TypeOf(C12T27(0)),
	reflect.TypeOf(C12T28(0)),
	reflect.TypeOf(C12T29(0)),
	reflect.TypeOf(C12T30(0)),
	reflect.TypeOf(C12T31(0)),
}
