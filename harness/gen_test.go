package main

import (
	"bytes"
	"encoding/json"
	"fmt"
	"math"
	"math/rand"
	"os"
	"os/exec"
	"path/filepath"
	"reflect"
	"sort"
	"strings"
	"testing"

	"github.com/philpearl/avro"
	avronull "github.com/philpearl/avro/null"
	avrotime "github.com/philpearl/avro/time"
)

func init() {
	avrotime.RegisterCodecs()
	avronull.RegisterCodecs()
}

// ---- every printed term is a well-typed Coq term ---------------------------------

func TestCoqTerms(t *testing.T) {
	if _, err := exec.LookPath("coqc"); err != nil {
		t.Skip("coqc not found")
	}
	rng := rand.New(rand.NewSource(20260930))
	var sb strings.Builder
	sb.WriteString("Require Import Avro.Model.Base Avro.Model.Schema Avro.Model.GoType Avro.Model.Spec.\nOpen Scope Z_scope.\n")
	check := func(term, ty string) { fmt.Fprintf(&sb, "Check (%s : %s).\n", term, ty) }

	for _, e := range pool {
		check(e.GT.Coq(), "gtype")
		check(coqVal(e.GT, reflect.ValueOf(e.Zero)), "gval")
		for i := 0; i < 3; i++ {
			check(coqVal(e.GT, genValue(rng, e.GT)), "gval")
		}
	}
	// a recursive type: gtOf terminates with a back reference
	rec := gtOf(reflect.TypeOf(recT{}))
	check(rec.Coq(), "gtype")
	check(coqVal(rec, reflect.ValueOf(recT{Next: &recT{}})), "gval")
	if !strings.Contains(rec.Coq(), "TSelf") {
		t.Errorf("recursive type printed without TSelf: %s", rec.Coq())
	}
	for _, g := range namedLeafTypes {
		check(g.Coq(), "gtype")
		check(coqVal(g, genValue(rng, g)), "gval")
	}
	cfgs := []TypeGenCfg{
		{MaxDepth: 0, Dynamic: true},
		{MaxDepth: 2, Dynamic: true},
		{MaxDepth: 3, Dynamic: true},
		{MaxDepth: 2, Dynamic: false},
		{MaxDepth: 3, AllowUnsupported: true, Dynamic: true},
		{MaxDepth: 3, AllowUnsupported: true, Dynamic: false},
	}
	for i := 0; i < 240; i++ {
		g := genStructType(rng, cfgs[i%len(cfgs)])
		check(g.Coq(), "gtype")
		check(coqVal(g, genValue(rng, g)), "gval")
		check(coqVal(g, zeroVal(g)), "gval")
	}
	for i := 0; i < 240; i++ {
		s := genSchema(rng, SchemaGenCfg{MaxDepth: i % 4})
		d := genDatum(rng, s)
		ch := genChoice(rng, s, d)
		check(coqSchema(s), "gschema")
		check(coqDatum(d), "datum")
		check(coqChoice(ch), "choice")
		g := compatTarget(rng, s)
		check(g.Coq(), "gtype")
		v, _ := convDatum(s, g, d)
		check(coqVal(g, v), "gval")
	}
	// schemas the library itself derives
	for _, e := range pool {
		s, err := avro.SchemaForType(e.Zero)
		if err != nil {
			t.Fatalf("SchemaForType(%s): %v", e.Name, err)
		}
		check(coqSchema(s), "gschema")
	}

	dir := t.TempDir()
	file := filepath.Join(dir, "Terms.v")
	if err := os.WriteFile(file, []byte(sb.String()), 0o644); err != nil {
		t.Fatal(err)
	}
	cmd := exec.Command("coqc", "-Q", "/verif/coq", "Avro", file)
	cmd.Dir = dir
	out, err := cmd.CombinedOutput()
	if err != nil {
		keep := filepath.Join(os.TempDir(), "Terms_failed.v")
		_ = os.WriteFile(keep, []byte(sb.String()), 0o644)
		tail := string(out)
		if len(tail) > 3000 {
			tail = tail[len(tail)-3000:]
		}
		t.Fatalf("coqc failed (%v); file kept at %s\n%s", err, keep, tail)
	}
	t.Logf("coqc accepted %d Check lines", strings.Count(sb.String(), "Check ("))
}

type recT struct {
	V    int64
	Next *recT
	Kids []recT
}

// ---- GT <-> reflect ------------------------------------------------------------------

func TestTypeRoundTrip(t *testing.T) {
	rng := rand.New(rand.NewSource(7))
	for _, e := range pool {
		if e.GT.RType() != reflect.TypeOf(e.Zero) {
			t.Errorf("%s: RType is not the original type", e.Name)
		}
		// a description without its reflect.Type finds the named type again
		c := *e.GT
		c.rt = nil
		if c.RType() != reflect.TypeOf(e.Zero) {
			t.Errorf("%s: RType by name failed", e.Name)
		}
	}
	for i := 0; i < 500; i++ {
		cfg := TypeGenCfg{MaxDepth: i % 4, AllowUnsupported: i%3 == 0, Dynamic: i%2 == 0}
		g := genStructType(rng, cfg)
		rt := g.RType()
		if rt.Kind() != reflect.Struct {
			t.Fatalf("case %d: RType kind %s for %s", i, rt.Kind(), g.Coq())
		}
		back := gtOf(rt)
		if back.Coq() != g.Coq() {
			t.Fatalf("case %d: gtOf(RType) differs\n%s\n%s", i, g.Coq(), back.Coq())
		}
		// a description survives JSON (the way arguments reach a worker process)
		js, err := json.Marshal(g)
		if err != nil {
			t.Fatalf("case %d: marshal: %v", i, err)
		}
		var g2 GT
		if err := json.Unmarshal(js, &g2); err != nil {
			t.Fatalf("case %d: unmarshal: %v", i, err)
		}
		if g2.Coq() != g.Coq() || g2.RType() != rt {
			t.Fatalf("case %d: JSON round trip changes the type\n%s\n%s", i, g.Coq(), g2.Coq())
		}
		if len(g.Fields) < 1 || len(g.Fields) > 8 {
			t.Fatalf("case %d: %d fields", i, len(g.Fields))
		}
		if !cfg.AllowUnsupported {
			bad := g.contains(func(x *GT) bool {
				if x.Kind == "ptr" {
					switch x.Elem.under().Kind {
					case "ptr", "slice", "map":
						return true
					}
				}
				if x.Kind == "uint8" || x.Kind == "slice" && x.Elem.isU8() {
					return false
				}
				return isUintKind(x.Kind) || x.Kind == "int8" || x.Kind == "complex" || x.Kind == "chan" ||
					x.Kind == "func" || x.Kind == "iface" || x.Kind == "array" ||
					x.Kind == "map" && x.Key.under().Kind != "string"
			})
			if bad {
				t.Fatalf("case %d: unsupported shape without AllowUnsupported: %s", i, g.Coq())
			}
			// the library accepts it
			zero := reflect.New(rt).Interface()
			s, err := avro.SchemaForType(zero)
			if err != nil {
				t.Fatalf("case %d: SchemaForType: %v\n%s", i, err, g.Coq())
			}
			if _, err := s.Codec(zero); err != nil {
				t.Fatalf("case %d: Codec: %v\n%s", i, err, g.Coq())
			}
		}
		if cfg.Dynamic {
			if g.contains(func(x *GT) bool {
				return x.Kind == "named" || x.Kind == "struct" && x.Name != ""
			}) {
				t.Fatalf("case %d: named type in a dynamic description", i)
			}
			for _, f := range g.Fields {
				if !f.Exported || f.Embedded {
					t.Fatalf("case %d: dynamic type with unexported or embedded field", i)
				}
			}
		}
	}
}

// ---- the reference decoder inverts the reference encoder ---------------------------------

func TestEncodeDecode(t *testing.T) {
	rng := rand.New(rand.NewSource(42))
	multi, sized := 0, 0
	for i := 0; i < 3000; i++ {
		s := genSchema(rng, SchemaGenCfg{MaxDepth: i % 4})
		d := genDatum(rng, s)
		ch := genChoice(rng, s, d)
		bs := encodeDatum(s, d, ch)
		got, rest, err := decodeDatum(s, bs)
		if err != nil {
			t.Fatalf("case %d: decode error %v\nschema %s\ndatum %s\nchoice %s\nbytes %x", i, err, coqSchema(s), coqDatum(d), coqChoice(ch), bs)
		}
		if len(rest) != 0 {
			t.Fatalf("case %d: %d bytes left", i, len(rest))
		}
		if !datumEq(d, got, false) {
			t.Fatalf("case %d: datum differs\nwant %s\ngot  %s", i, coqDatum(d), coqDatum(got))
		}
		canon := encodeDatum(s, d, nil)
		if !bytes.Equal(canon, bs) {
			multi++
		}
		if d2, rest2, err := decodeDatum(s, canon); err != nil || len(rest2) != 0 || !datumEq(d, d2, false) {
			t.Fatalf("case %d: canonical encoding does not decode", i)
		}
		if bytes.Contains([]byte(coqChoice(ch)), []byte("true")) {
			sized++
		}
		// strictness: truncation is an error or leaves a different datum
		if len(bs) > 0 {
			cut := bs[:rng.Intn(len(bs))]
			if d3, rest3, err := decodeDatum(s, cut); err == nil && len(rest3) == 0 && datumEq(d, d3, false) {
				t.Fatalf("case %d: truncated input decodes to the same datum", i)
			}
		}
	}
	if multi < 300 || sized < 300 {
		t.Fatalf("weak generator: %d non-canonical encodings, %d with sized blocks", multi, sized)
	}
	// asm_blocks corner cases, by hand
	arr := avro.Schema{Type: "array", Object: &avro.SchemaObject{Items: avro.Schema{Type: "long"}}}
	d := &Datum{K: "array", Items: []*Datum{{K: "long", I: 1}, {K: "long", I: 2}, {K: "long", I: 3}}}
	cases := []struct {
		ch   *Choice
		want string
	}{
		{nil, "06 02 04 06 00"},
		{&Choice{Cuts: []Cut{{N: 0}}}, "02 02 04 04 06 00"},
		{&Choice{Cuts: []Cut{{N: 1, Sized: true}}}, "03 04 02 04 02 06 00"},
		{&Choice{Cuts: []Cut{{N: 9, Sized: true}, {N: 0}}}, "05 06 02 04 06 00"},
		{&Choice{Cuts: []Cut{{N: 0}, {N: 0}, {N: 0}, {N: 0}}}, "02 02 02 04 02 06 00"},
	}
	for i, c := range cases {
		got := fmt.Sprintf("% x", encodeDatum(arr, d, c.ch))
		if got != c.want {
			t.Errorf("asm case %d: got %s want %s", i, got, c.want)
		}
	}
	if got := fmt.Sprintf("% x", encodeDatum(arr, &Datum{K: "array"}, &Choice{Cuts: []Cut{{N: 1, Sized: true}}})); got != "00" {
		t.Errorf("empty array encodes to %s", got)
	}
}

// ---- the library round trip validates genValue / normEq / datumOfValue ------------------------

// knownDeviation: shapes on which the pinned library is known (or was found
// here) to deviate from what the value denotes; the self-test does not judge
// them.  Reported in the harness report rather than worked around elsewhere.
func knownDeviation(g *GT, v reflect.Value, omit bool) string {
	g = g.under()
	switch g.Kind {
	case "int16":
		return "int16"
	case "string":
		if omit && v.Len() == 0 {
			return "omitempty-empty-string"
		}
	case "float32", "float64":
		if omit && v.Float() == 0 && math.Signbit(v.Float()) {
			return "omitempty-negative-zero"
		}
	case "map":
		if omit && !v.IsNil() && v.Len() == 0 {
			return "omitempty-empty-non-nil-map"
		}
		it := v.MapRange()
		for it.Next() {
			if r := knownDeviation(g.Elem, it.Value(), false); r != "" {
				return r
			}
		}
	case "slice":
		if g.isBytes() {
			return ""
		}
		for i := 0; i < v.Len(); i++ {
			if r := knownDeviation(g.Elem, v.Index(i), false); r != "" {
				return r
			}
		}
	case "ptr":
		if v.IsNil() {
			return ""
		}
		if e := g.Elem.under(); e.Kind == "wrap" {
			x, _ := expose(v.Elem())
			if e.Wrap == "time" {
				if tm, _ := timeOf(x); tm.IsZero() {
					return "pointer-to-zero-time"
				}
			} else if valid, _, ok := wrapParts(e.Wrap, x); ok && !valid {
				return "pointer-to-invalid-wrapper"
			}
		}
		return knownDeviation(g.Elem, v.Elem(), false)
	case "struct":
		for i, f := range g.Fields {
			if fieldName(f) == "-" {
				continue
			}
			fv, ok := expose(v.Field(i))
			if !ok {
				continue
			}
			if r := knownDeviation(f.T, fv, fieldOmitEmpty(f)); r != "" {
				return r
			}
		}
	}
	return ""
}

type rtStats struct {
	cases, judged, readSkipped int
	deviations                 map[string]int
}

func libRoundTrip(t *testing.T, name string, g *GT, rng *rand.Rand, n int, st *rtStats) {
	t.Helper()
	rt := g.RType()
	zero := reflect.New(rt).Interface()
	s, err := avro.SchemaForType(zero)
	if err != nil {
		t.Errorf("%s: SchemaForType: %v", name, err)
		return
	}
	codec, err := s.Codec(zero)
	if err != nil {
		t.Errorf("%s: Codec: %v", name, err)
		return
	}
	readBroken := nilNewMapValue(s, g)
	for i := 0; i < n; i++ {
		v := genValue(rng, g)
		st.cases++
		if r := knownDeviation(g, v, false); r != "" {
			st.deviations[r]++
			continue
		}
		st.judged++
		var bs []byte
		if p := catch(func() {
			w := avro.NewWriteBuf(nil)
			codec.Write(w, v.Addr().UnsafePointer())
			bs = append([]byte{}, w.Bytes()...)
		}); p != nil {
			t.Errorf("%s: Write panicked: %v\nvalue %v", name, p, descVal(g, v))
			return
		}
		want, ok := datumOfValue(s, g, v)
		if !ok {
			t.Errorf("%s: datumOfValue does not understand the pair\nschema %s", name, coqSchema(s))
			return
		}
		got, rest, err := decodeDatum(s, bs)
		if err != nil || len(rest) != 0 {
			t.Errorf("%s: written bytes do not decode: err=%v rest=%d\nvalue %v\nbytes %x", name, err, len(rest), descVal(g, v), bs)
			return
		}
		if !datumEq(want, got, true) {
			t.Errorf("%s: written datum differs from the denoted one\nvalue %v\nwant %s\ngot  %s", name, descVal(g, v), coqDatum(want), coqDatum(got))
			return
		}
		// the reference encoder agrees with the library byte for byte when the
		// map entries are put in the order the library iterated
		if re := encodeDatum(s, got, nil); !bytes.Equal(re, bs) {
			t.Errorf("%s: reference encoding differs from the library's\nlib %x\nref %x", name, bs, re)
			return
		}
		if readBroken {
			st.readSkipped++
			continue
		}
		out := reflect.New(rt)
		var rerr error
		var left int
		if p := catch(func() {
			r := avro.NewReadBuf(bs)
			rerr = codec.Read(r, out.UnsafePointer())
			left = r.Len()
		}); p != nil {
			t.Errorf("%s: Read panicked: %v\nvalue %v", name, p, descVal(g, v))
			return
		}
		if rerr != nil || left != 0 {
			t.Errorf("%s: Read: err=%v left=%d\nvalue %v", name, rerr, left, descVal(g, v))
			return
		}
		zeroExcluded(g, v)
		if eq, where := normEq(g, v, out.Elem()); !eq {
			t.Errorf("%s: round trip differs at %s\nin  %v\nout %v", name, where, descVal(g, v), descVal(g, out.Elem()))
			return
		}
		// and convDatum agrees with what the library read
		cv, fits := convDatum(s, g, got)
		if !fits {
			t.Errorf("%s: convDatum says the datum does not fit", name)
			return
		}
		if eq, where := normEq(g, cv, out.Elem()); !eq {
			t.Errorf("%s: convDatum differs from the library at %s\nconv %v\nlib  %v", name, where, descVal(g, cv), descVal(g, out.Elem()))
			return
		}
	}
}

func catch(f func()) (p any) {
	defer func() { p = recover() }()
	f()
	return nil
}

func (st *rtStats) log(t *testing.T) {
	keys := make([]string, 0, len(st.deviations))
	for k := range st.deviations {
		keys = append(keys, k)
	}
	sort.Strings(keys)
	var sb strings.Builder
	for _, k := range keys {
		fmt.Fprintf(&sb, " %s=%d", k, st.deviations[k])
	}
	t.Logf("cases=%d judged=%d read-skipped(map with nil-New values)=%d not judged:%s", st.cases, st.judged, st.readSkipped, sb.String())
}

func TestLibRoundTripPool(t *testing.T) {
	rng := rand.New(rand.NewSource(11))
	st := &rtStats{deviations: map[string]int{}}
	for _, e := range pool {
		libRoundTrip(t, e.Name, e.GT, rng, 150, st)
	}
	st.log(t)
	if st.judged < st.cases/3 {
		t.Errorf("too few judged cases")
	}
}

func TestLibRoundTripDynamic(t *testing.T) {
	rng := rand.New(rand.NewSource(12))
	st := &rtStats{deviations: map[string]int{}}
	for i := 0; i < 400; i++ {
		g := genStructType(rng, TypeGenCfg{MaxDepth: i % 4, Dynamic: i%4 != 3})
		libRoundTrip(t, fmt.Sprintf("dyn%d %s", i, g.Coq()), g, rng, 12, st)
		if t.Failed() {
			break
		}
	}
	st.log(t)
	if st.judged < st.cases/4 {
		t.Errorf("too few judged cases")
	}
}

// ---- decoding spec-encoded datums into compatible targets validates compatTarget / convDatum ----

func TestCompatDecode(t *testing.T) {
	rng := rand.New(rand.NewSource(13))
	var n, int16s, nilNew, misfit, judged int
	for i := 0; i < 3000 && !t.Failed(); i++ {
		s := genSchema(rng, SchemaGenCfg{MaxDepth: i % 4})
		d := genDatum(rng, s)
		ch := genChoice(rng, s, d)
		bs := encodeDatum(s, d, ch)
		g := compatTarget(rng, s)
		n++
		rt := g.RType()
		if rt.Kind() != reflect.Struct {
			t.Fatalf("case %d: target is not a struct: %s", i, g.Coq())
		}
		zero := reflect.New(rt).Interface()
		codec, err := s.Codec(zero)
		if err != nil {
			t.Fatalf("case %d: the library refuses the target: %v\nschema %s\ntype %s", i, err, coqSchema(s), g.Coq())
		}
		if g.contains(func(x *GT) bool { return x.Kind == "int16" }) {
			int16s++ // known defect: int16 gets the int32 codec (writes 4 bytes into 2)
			continue
		}
		if nilNewMapValue(s, g) {
			nilNew++
			continue
		}
		want, fits := convDatum(s, g, d)
		out := reflect.New(rt)
		var rerr error
		var left int
		if p := catch(func() {
			r := avro.NewReadBuf(bs)
			rerr = codec.Read(r, out.UnsafePointer())
			left = r.Len()
		}); p != nil {
			t.Fatalf("case %d: Read panicked: %v\nschema %s\ntype %s\ndatum %s", i, p, coqSchema(s), g.Coq(), coqDatum(d))
		}
		if !fits {
			misfit++
			if rerr == nil {
				t.Fatalf("case %d: an integer does not fit but Read succeeded\ntype %s\ndatum %s", i, g.Coq(), coqDatum(d))
			}
			continue
		}
		judged++
		if rerr != nil || left != 0 {
			t.Fatalf("case %d: Read err=%v left=%d\nschema %s\ntype %s\ndatum %s\nchoice %s\nbytes %x", i, rerr, left, coqSchema(s), g.Coq(), coqDatum(d), coqChoice(ch), bs)
		}
		if eq, where := normEq(g, want, out.Elem()); !eq {
			t.Fatalf("case %d: differs at %s\nwant %v\ngot  %v\nschema %s\ntype %s\ndatum %s", i, where, descVal(g, want), descVal(g, out.Elem()), coqSchema(s), g.Coq(), coqDatum(d))
		}
	}
	t.Logf("cases=%d judged=%d int16-skipped=%d nil-New-map-skipped=%d misfit=%d", n, judged, int16s, nilNew, misfit)
	if judged < n/3 {
		t.Errorf("too few judged cases")
	}
}

// ---- determinism -------------------------------------------------------------------------------

func TestDeterministic(t *testing.T) {
	run := func() string {
		rng := rand.New(rand.NewSource(99))
		var sb strings.Builder
		for i := 0; i < 40; i++ {
			g := genStructType(rng, TypeGenCfg{MaxDepth: 3, AllowUnsupported: i%2 == 0, Dynamic: i%3 == 0})
			v := genValue(rng, g)
			sb.WriteString(g.Coq())
			sb.WriteString(coqVal(g, v))
			fmt.Fprint(&sb, descVal(g, v))
			s := genSchema(rng, SchemaGenCfg{MaxDepth: 3})
			d := genDatum(rng, s)
			sb.WriteString(coqSchema(s) + coqDatum(d) + coqChoice(genChoice(rng, s, d)) + compatTarget(rng, s).Coq())
		}
		return sb.String()
	}
	if run() != run() {
		t.Fatal("generators are not deterministic for a fixed seed")
	}
}
