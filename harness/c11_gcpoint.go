package main

import (
	"bytes"
	"encoding/json"
	"fmt"
	"reflect"
	"runtime"
	"time"
	"unsafe"

	"github.com/philpearl/avro"
)

// c11GCDuringDecode: a collection forced at a chosen point INSIDE a decode.  A registered codec
// for the type c11GCMark runs runtime.GC() twice and then fills the heap with blocks of every
// small size class while it reads its own field; the fields decoded before it (byte slices,
// slices of longs, nested maps: memory obtained straight from the Go allocator) must still hold
// what was written when the record is complete - wherever the enclosing value lives while it
// is being decoded: the top-level record, a slice element, a map value, behind a pointer.  Runs
// in a child process (a lost object is a crash as often as a wrong byte).
type c11GCMark int64

type c11GCMarkCodec struct{}

var c11Ballast [][]byte

func (c11GCMarkCodec) Read(r *avro.ReadBuf, p unsafe.Pointer) error {
	v, err := r.Varint()
	if err != nil {
		return err
	}
	runtime.GC()
	runtime.GC()
	c11Ballast = c11Ballast[:0]
	for _, size := range []int{8, 16, 24, 32, 48, 64, 80, 96, 112, 128, 144, 192, 256} {
		for k := 0; k < 400; k++ {
			c11Ballast = append(c11Ballast, bytes.Repeat([]byte{0xEE}, size))
		}
	}
	*(*int64)(p) = v
	return nil
}
func (c c11GCMarkCodec) Skip(r *avro.ReadBuf) error { _, err := r.Varint(); return err }
func (c c11GCMarkCodec) New(r *avro.ReadBuf) unsafe.Pointer {
	return r.Alloc(reflect.TypeOf(c11GCMark(0)))
}
func (c c11GCMarkCodec) Omit(p unsafe.Pointer) bool { return false }
func (c c11GCMarkCodec) Write(w *avro.WriteBuf, p unsafe.Pointer) {
	w.Varint(*(*int64)(p))
}

type c11GCValue struct {
	Data  []byte            `json:"data"`
	Items []int64           `json:"items"`
	Sub   map[string][]byte `json:"sub"`
	Mark  c11GCMark         `json:"mark"`
	Tail  []byte            `json:"tail"`
}
type c11GCSmall struct { // at most 128 bytes: what a map stores in place
	Data []byte    `json:"data"`
	Mark c11GCMark `json:"mark"`
	Tail []byte    `json:"tail"`
}
type c11GCHolder struct {
	V   c11GCValue             `json:"v"`
	SV  []c11GCValue           `json:"sv"`
	MV  map[string]c11GCValue  `json:"mv"`
	MS  map[string]c11GCSmall  `json:"ms"`
	PV  *c11GCValue            `json:"pv"`
	MPV map[string]*c11GCSmall `json:"mpv"`
	SS  []c11GCSmall           `json:"ss"`
}

type c11GCRes struct {
	Bad string `json:"bad"`
}

func init() {
	workerFns["c11gcpoint"] = func(arg json.RawMessage) (any, error) { return c11GCRes{Bad: c11GCPointRun()}, nil }
}

func c11GCPointRun() (bad string) {
	defer func() {
		if p := recover(); p != nil {
			bad = fmt.Sprintf("panic: %v", p)
		}
	}()
	avro.Register(reflect.TypeOf(c11GCMark(0)), func(s avro.Schema, t reflect.Type, omit bool) (avro.Codec, error) {
		return c11GCMarkCodec{}, nil
	})
	avro.RegisterSchema(reflect.TypeOf(c11GCMark(0)), avro.Schema{Type: "long"})
	pat := func(tag byte, n int) []byte {
		b := make([]byte, n)
		for i := range b {
			b[i] = tag ^ byte(i*7)
		}
		return b
	}
	val := func(k int) c11GCValue {
		return c11GCValue{Data: pat(byte(k), 40+k), Items: []int64{int64(k), int64(k) + 1, 1 << 40}, Sub: map[string][]byte{"s": pat(byte(k+1), 24)}, Mark: c11GCMark(k), Tail: pat(byte(k+2), 64)}
	}
	small := func(k int) c11GCSmall {
		return c11GCSmall{Data: pat(byte(k), 48), Mark: c11GCMark(k), Tail: pat(byte(k+3), 16)}
	}
	pv := val(9)
	s1, s2 := small(21), small(22)
	want := c11GCHolder{
		V: val(1), SV: []c11GCValue{val(2), val(3), val(4)},
		MV:  map[string]c11GCValue{"a": val(5), "b": val(6)},
		MS:  map[string]c11GCSmall{"a": small(11), "b": small(12), "c": small(13)},
		PV:  &pv,
		MPV: map[string]*c11GCSmall{"x": &s1, "y": &s2},
		SS:  []c11GCSmall{small(31), small(32)},
	}
	s, err := avro.SchemaForType(c11GCHolder{})
	if err != nil {
		return "SchemaForType(c11GCHolder): " + err.Error()
	}
	codec, err := s.Codec(c11GCHolder{})
	if err != nil {
		return "Schema.Codec(c11GCHolder): " + err.Error()
	}
	w := avro.NewWriteBuf(nil)
	codec.Write(w, unsafe.Pointer(&want))
	data := append([]byte{}, w.Bytes()...)
	for round := 0; round < 3; round++ {
		var got c11GCHolder
		rb := avro.NewReadBuf(data)
		if err := codec.Read(rb, unsafe.Pointer(&got)); err != nil {
			return "decode fails: " + err.Error()
		}
		runtime.GC()
		if !reflect.DeepEqual(got, want) {
			where := "?"
			switch {
			case !reflect.DeepEqual(got.V, want.V):
				where = "the top-level value"
			case !reflect.DeepEqual(got.SV, want.SV):
				where = "a slice element"
			case !reflect.DeepEqual(got.MV, want.MV):
				where = "a map value of 100+ bytes"
			case !reflect.DeepEqual(got.MS, want.MS):
				where = "a map value of at most 128 bytes"
			case !reflect.DeepEqual(got.PV, want.PV):
				where = "a value behind a pointer"
			case !reflect.DeepEqual(got.MPV, want.MPV):
				where = "a map value behind a pointer"
			case !reflect.DeepEqual(got.SS, want.SS):
				where = "a small slice element"
			}
			return fmt.Sprintf("round %d: with a collection and heap churn forced while a later field of the same value is decoded, %s no longer holds what was written (a field decoded earlier was lost to the collector)", round, where)
		}
		rb.ExtractResourceBank().Close()
	}
	return ""
}

func c11GCDuringDecode(r *Run) {
	var res c11GCRes
	outcome, msg := isolated("c11gcpoint", nil, &res, 120*time.Second)
	stopWorkers()
	r.Count("gc-during-decode")
	switch {
	case outcome != "ok":
		r.Fail(-1, "collected-during-decode", "decoding with a collection forced inside the decode did not complete: "+outcome+" "+msg, nil)
	case res.Bad != "":
		r.Fail(-1, "collected-during-decode", res.Bad, map[string]any{"how": "a registered codec runs runtime.GC() twice and allocates 5200 blocks of every small size class while it reads its field; the fields decoded before it are compared with what was written"})
	}
}
