package main

import (
	"bytes"
	"errors"
	"fmt"
	"io"

	"github.com/philpearl/avro"
)

// c09FileWriterDirect: the FileWriter used on its own, the way a caller with its own record
// encoder uses it: NewFileWriter, WriteHeader / AppendHeader, WriteBlock with caller-made blocks.
// What reaches the writer is a container whose blocks hold exactly the bytes and counts handed
// over, each closed by the header's sync marker; AppendHeader appends (what was in the buffer
// stays) the same header WriteHeader writes; and with a writer refusing its k-th Write the call
// that issued it returns an error wrapping the writer's, having left a prefix of the fault-free
// output (C16).
func c09FileWriterDirect(r *Run, faults bool) {
	schema := []byte(`{"type":"record","name":"Row","fields":[{"name":"v","type":"long"}]}`)
	nh := r.N(8, 60)
	for it := 0; it < nh; it++ {
		codec := codecNames[it%3]
		// blocks: (row count, bytes); the rows are one-byte longs, plus an empty block and a large one
		type blk struct {
			n    int
			data []byte
		}
		var blocks []blk
		for b, nb := 0, 1+r.Rng.Intn(5); b < nb; b++ {
			n := []int{0, 1, 2, 63, 64, 65, 300, 5000}[r.Rng.Intn(8)]
			data := make([]byte, n)
			for i := range data {
				data[i] = byte(r.Rng.Intn(64) * 2) // longs 0..63, one byte each
			}
			if r.Rng.Intn(6) == 0 {
				n, data = 1, append(bytes.Repeat([]byte{0xfe}, 8), 0x01, 0x00)[:9] // one nine-byte long
			}
			blocks = append(blocks, blk{n, data})
		}
		if it < 6 {
			// every codec, twice: a block of no rows and no bytes (a timer-driven flush with nothing
			// pending, rows of a field-less record), first or between others
			empty := blk{[]int{0, 3}[it/3%2], []byte{}}
			if it%2 == 0 {
				blocks = append([]blk{empty}, blocks...)
			} else {
				blocks = append(blocks, empty, blk{1, []byte{2}})
			}
		}
		desc := map[string]any{"codec": codec, "blocks": func() (o []string) {
			for _, b := range blocks {
				o = append(o, fmt.Sprintf("%d rows / %d bytes", b.n, len(b.data)))
			}
			return
		}()}
		run := func(w io.Writer) (errs []error, panicked any, hdr []byte) {
			defer func() {
				if p := recover(); p != nil {
					panicked = p
				}
			}()
			fw, err := avro.NewFileWriter(schema, avro.Compression(codec))
			if err != nil {
				return []error{err}, nil, nil
			}
			prefix := []byte("prefix-kept:")
			hdr = fw.AppendHeader(append([]byte{}, prefix...))
			if !bytes.HasPrefix(hdr, prefix) {
				errs = append(errs, errors.New("AppendHeader did not keep what the buffer held"))
			}
			hdr = hdr[len(prefix):]
			if again := fw.AppendHeader(nil); !bytes.Equal(again, hdr) {
				errs = append(errs, errors.New("two AppendHeader calls on one FileWriter give different headers"))
			}
			// the caller owns the buffers it handed over and got back: it reuses them for other data
			keep := append([]byte{}, hdr...)
			for i := range hdr {
				hdr[i] = 0x2c
			}
			hdr = keep
			if third := fw.AppendHeader(make([]byte, 0, 16)); !bytes.Equal(third, keep) {
				errs = append(errs, errors.New("AppendHeader after the caller reused the buffer of an earlier call gives a different header"))
			}
			if err := fw.WriteHeader(w); err != nil {
				return append(errs, err), nil, hdr
			}
			for _, b := range blocks {
				if err := fw.WriteBlock(w, b.n, b.data); err != nil {
					return append(errs, err), nil, hdr
				}
			}
			return errs, nil, hdr
		}
		ff := &w9RecWriter{failAt: -1}
		errs, pn, hdr := run(ff)
		r.Count("filewriter-direct/" + codec)
		if pn != nil || len(errs) > 0 {
			r.Fail(-1, "call-failed", fmt.Sprintf("FileWriter used directly on a working writer: errors %v panic %v", errs, pn), desc)
			continue
		}
		c, err := parseContainer(ff.acc)
		switch {
		case err != nil:
			r.Fail(-1, "length-mismatch", fmt.Sprintf("what the FileWriter wrote does not parse as a container: %v", err), desc)
			continue
		case !bytes.HasPrefix(ff.acc, hdr):
			r.Fail(-1, "header", "WriteHeader wrote something else than AppendHeader returns", desc)
		case c.Codec != codec || !bytes.Equal(c.SchemaJSON, schema):
			r.Fail(-1, "header-codec", fmt.Sprintf("header carries codec %q and schema %q", c.Codec, c.SchemaJSON), desc)
		case len(c.Blocks) != len(blocks):
			r.Fail(-1, "early-or-late-block", fmt.Sprintf("%d WriteBlock calls, %d blocks in the output", len(blocks), len(c.Blocks)), desc)
		default:
			for i, b := range blocks {
				if c.Blocks[i].Count != int64(b.n) {
					r.Fail(-1, "count-mismatch", fmt.Sprintf("block %d: count %d, WriteBlock was given %d", i, c.Blocks[i].Count, b.n), desc)
				} else if !bytes.Equal(c.Blocks[i].Payload, b.data) {
					r.Fail(-1, "lost-record", fmt.Sprintf("block %d holds %d bytes that are not the %d bytes handed to WriteBlock", i, len(c.Blocks[i].Payload), len(b.data)), desc)
				}
			}
		}
		if !faults {
			continue
		}
		// the same calls over a writer refusing Write k; every other history over a writer that
		// also offers WriteByte, WriteString and ReadFrom (bufio.Writer, bytes.Buffer and many
		// network writers do), each of which may be the call that is refused, once
		rich := it%2 == 1
		if rich {
			ffr := &w9RecWriter{failAt: -1}
			if errs, pn, _ := run(w9RichWriter{ffr}); pn != nil || len(errs) > 0 {
				r.Fail(-1, "call-failed", fmt.Sprintf("FileWriter used directly on a working writer with WriteByte/WriteString/ReadFrom: errors %v panic %v", errs, pn), desc)
				continue
			}
			if len(ffr.acc) != len(ff.acc) {
				r.Fail(-1, "length-mismatch", fmt.Sprintf("%d bytes reach a writer that also has WriteByte/WriteString/ReadFrom, %d a plain one", len(ffr.acc), len(ff.acc)), desc)
				continue
			}
			ff = ffr
			r.Count("filewriter-direct/rich-writer")
		}
		for k := 0; k < len(ff.chunks); k++ {
			partial := 0
			if len(ff.chunks[k]) > 1 && r.Rng.Intn(2) == 0 {
				partial = 1 + r.Rng.Intn(len(ff.chunks[k])-1)
			}
			w := &w9RecWriter{failAt: k, partial: partial}
			var errs []error
			var pn any
			if rich {
				errs, pn, _ = run(w9RichWriter{w})
			} else {
				errs, pn, _ = run(w)
			}
			d2 := withKV(withKV(desc, "fail_at_write", k), "writer_has_WriteByte_WriteString_ReadFrom", rich)
			r.Count("filewriter-direct/fault-runs")
			wantLen := partial
			for _, ch := range ff.chunks[:k] {
				wantLen += len(ch)
			}
			switch {
			case pn != nil:
				r.Fail(-1, "fault-panic", fmt.Sprintf("FileWriter call panicked when Write %d was refused: %v", k, pn), d2)
			case len(errs) == 0:
				r.Fail(-1, "fault-not-reported", fmt.Sprintf("Write %d was refused and every FileWriter call returned nil", k), d2)
			case !errors.Is(errs[len(errs)-1], w9ErrWriterSentinel):
				r.Fail(-1, "fault-not-wrapped", fmt.Sprintf("the FileWriter call returned %q, which does not wrap the writer's error", errs[len(errs)-1]), d2)
			case w.afterFault > 0:
				r.Fail(-1, "fault-not-prefix", fmt.Sprintf("%d Write calls were issued after the refused one", w.afterFault), d2)
			case len(w.acc) != wantLen:
				// (the sync marker differs from run to run: lengths compare, contents are C16's main driver's)
				r.Fail(-1, "fault-not-prefix", fmt.Sprintf("%d bytes accepted, the first %d Write calls and the partial one amount to %d", len(w.acc), k, wantLen), d2)
			}
		}
	}
}

// w9RichWriter: a recording / failing writer that also has the optional methods libraries
// look for.  Each of them is one call of the underlying writer, so each can be the refused one.
type w9RichWriter struct{ w *w9RecWriter }

func (x w9RichWriter) Write(p []byte) (int, error) { return x.w.Write(p) }
func (x w9RichWriter) WriteByte(c byte) error {
	_, err := x.w.Write([]byte{c})
	return err
}
func (x w9RichWriter) WriteString(s string) (int, error) { return x.w.Write([]byte(s)) }
func (x w9RichWriter) ReadFrom(rd io.Reader) (int64, error) {
	data, err := io.ReadAll(rd)
	if err != nil {
		return 0, err
	}
	n, err := x.w.Write(data)
	return int64(n), err
}

// c16RichEncoder: the generic Encoder over a writer that also has WriteByte, WriteString and
// ReadFrom, each of which may be the call that is refused once (the writer works again
// afterwards).  Judged as the property states it, whatever calls the library chooses to make:
// the library call during which the refusal happened returns an error wrapping the writer's,
// nothing is written after it, and what was accepted is as long as the corresponding prefix of
// the fault-free output (same calls, same history; the sync marker differs from run to run, so
// the contents are compared up to the end of the header's metadata only).
func c16RichEncoder(r *Run) {
	nh := r.N(10, 40)
	for it := 0; it < nh; it++ {
		h := w9GenHistory(r, r.N(12, 30), r.N(200, 400), false)
		if it%3 == 0 {
			// blocks of 64+ records and of 64+ bytes: counts and lengths of two bytes and more
			h.Size = 300 + r.Rng.Intn(2000)
		}
		desc := w9DescribeHist(h)
		run := func(w *w9RecWriter) (errAt int, errs []error, pn any) {
			errAt = -2
			enc, err, p := w9NewWenc(h.Kind, w9RichWriter{w}, h.Codec, h.Size)
			if p != nil || err != nil {
				if err != nil {
					errs = append(errs, err)
				}
				return -1, errs, p
			}
			for i, o := range h.Ops {
				err, p := w9CallOp(enc, o)
				if p != nil || err != nil {
					if err != nil {
						errs = append(errs, err)
					}
					return i, errs, p
				}
			}
			return
		}
		ff := &w9RecWriter{failAt: -1}
		if at, errs, pn := run(ff); pn != nil || len(errs) > 0 {
			r.Fail(-1, "call-failed", fmt.Sprintf("Encoder over a working writer with WriteByte/WriteString/ReadFrom: call %d: errors %v panic %v", at, errs, pn), map[string]any{"history": desc})
			continue
		}
		r.Count("rich-encoder/histories")
		for k := 0; k < len(ff.chunks); k++ {
			partial := 0
			if len(ff.chunks[k]) > 1 && r.Rng.Intn(2) == 0 {
				partial = 1 + r.Rng.Intn(len(ff.chunks[k])-1)
			}
			w := &w9RecWriter{failAt: k, partial: partial}
			at, errs, pn := run(w)
			d2 := map[string]any{"history": desc, "fail_at_write": k, "partial": partial, "writer_has_WriteByte_WriteString_ReadFrom": true}
			r.Count("rich-encoder/fault-runs")
			wantLen := partial
			for _, ch := range ff.chunks[:k] {
				wantLen += len(ch)
			}
			switch {
			case pn != nil:
				r.Fail(-1, "fault-panic", fmt.Sprintf("call %d panicked when write %d was refused: %v", at, k, pn), d2)
			case len(errs) == 0:
				r.Fail(-1, "fault-not-reported", fmt.Sprintf("write %d was refused and every Encoder call returned nil", k), d2)
			case !errors.Is(errs[len(errs)-1], w9ErrWriterSentinel):
				r.Fail(-1, "fault-not-wrapped", fmt.Sprintf("call %d returned %q, which does not wrap the writer's error", at, errs[len(errs)-1]), d2)
			case w.afterFault > 0:
				r.Fail(-1, "fault-not-prefix", fmt.Sprintf("%d writes were issued after the refused one (before call %d returned)", w.afterFault, at), d2)
			case len(w.acc) != wantLen:
				r.Fail(-1, "fault-not-prefix", fmt.Sprintf("%d bytes accepted, the first %d writes and the partial one amount to %d", len(w.acc), k, wantLen), d2)
			}
		}
	}
}

// c09FileWriterInterleaved: one FileWriter serving up to three files whose calls are interleaved
// (a sharding exporter, a mirror, a header rendered ahead with AppendHeader).  Each file must be
// a container of its own: its header, then exactly the blocks handed over for it, each closed
// by the marker its header carries.  The whole history is also evaluated by the model
// (Model/Writer.v fw_written / fw_append; theorem C09_filewriter_any_interleaving).
func c09FileWriterInterleaved(r *Run) {
	schema := []byte(`{"type":"record","name":"Row","fields":[{"name":"v","type":"long"}]}`)
	nh := r.N(12, 80)
	for it := 0; it < nh; it++ {
		codec := codecNames[it%3]
		nw := 1 + r.Rng.Intn(3)
		fw, err := avro.NewFileWriter(schema, avro.Compression(codec))
		if err != nil {
			r.Fail(-1, "call-failed", "NewFileWriter: "+err.Error(), nil)
			return
		}
		writers := make([]*w9RecWriter, nw)
		for i := range writers {
			writers[i] = &w9RecWriter{failAt: -1}
		}
		type blk struct {
			n    int
			data []byte
		}
		given := make([][]blk, nw)
		headed := make([]bool, nw)
		var ops, appended, hist []string
		call := func(f func() error) (err error) {
			defer func() {
				if p := recover(); p != nil {
					err = fmt.Errorf("PANIC: %v", p)
				}
			}()
			return f()
		}
		bad := ""
		header := func(w int) {
			if e := call(func() error { return fw.WriteHeader(writers[w]) }); e != nil {
				bad = fmt.Sprintf("WriteHeader on a working writer: %v", e)
			}
			headed[w] = true
			ops = append(ops, cApp("FwHeader", w9CNat(w)))
			hist = append(hist, fmt.Sprintf("WriteHeader(file %d)", w))
		}
		header(0)
		for step, steps := 0, 4+r.Rng.Intn(16); step < steps && bad == ""; step++ {
			w := r.Rng.Intn(nw)
			switch x := r.Rng.Intn(10); {
			case !headed[w]:
				header(w)
			case x == 0:
				buf := make([]byte, r.Rng.Intn(6), 64)
				r.Rng.Read(buf)
				var out []byte
				if e := call(func() error { out = fw.AppendHeader(append([]byte{}, buf...)); return nil }); e != nil {
					bad = fmt.Sprintf("AppendHeader: %v", e)
				}
				ops = append(ops, cApp("FwAppend", w9CUB(buf)))
				appended = append(appended, w9CUB(out))
				hist = append(hist, fmt.Sprintf("AppendHeader(%d bytes)", len(buf)))
			default:
				n := []int{0, 0, 1, 2, 5, 63, 64, 65, 300}[r.Rng.Intn(9)] // 0: a block of no rows and no bytes
				data := make([]byte, n)
				for i := range data {
					data[i] = byte(r.Rng.Intn(64) * 2)
				}
				if e := call(func() error { return fw.WriteBlock(writers[w], n, data) }); e != nil {
					bad = fmt.Sprintf("WriteBlock on a working writer: %v", e)
				}
				given[w] = append(given[w], blk{n, data})
				ops = append(ops, cApp("FwBlock", w9CNat(w), cZ(int64(n)), w9CUB(data)))
				hist = append(hist, fmt.Sprintf("WriteBlock(file %d, %d rows)", w, n))
			}
		}
		desc := map[string]any{"codec": codec, "files": nw, "history": hist}
		r.Count(fmt.Sprintf("filewriter-interleaved/files-%d", nw))
		if bad != "" {
			r.Fail(-1, "call-failed", bad, desc)
			continue
		}
		var stored [][]byte
		var outs []string
		ok := true
		for w := 0; w < nw && ok; w++ {
			outs = append(outs, w9CUB(writers[w].acc))
			if !headed[w] {
				if len(writers[w].acc) != 0 {
					r.Fail(-1, "early-or-late-block", fmt.Sprintf("file %d was never written to and holds %d bytes", w, len(writers[w].acc)), desc)
					ok = false
				}
				continue
			}
			c, err := parseContainer(writers[w].acc)
			switch {
			case err != nil:
				r.Fail(-1, "length-mismatch", fmt.Sprintf("file %d of %d written through one FileWriter is not a container: %v", w, nw, err), desc)
				ok = false
			case c.Codec != codec || !bytes.Equal(c.SchemaJSON, schema):
				r.Fail(-1, "header-codec", fmt.Sprintf("file %d: header carries codec %q and schema %q", w, c.Codec, c.SchemaJSON), desc)
				ok = false
			case len(c.Blocks) != len(given[w]):
				r.Fail(-1, "early-or-late-block", fmt.Sprintf("file %d: %d WriteBlock calls, %d blocks", w, len(given[w]), len(c.Blocks)), desc)
				ok = false
			default:
				for i, b := range given[w] {
					if c.Blocks[i].Count != int64(b.n) || !bytes.Equal(c.Blocks[i].Payload, b.data) {
						r.Fail(-1, "lost-record", fmt.Sprintf("file %d block %d: %d rows / %d bytes, handed over %d rows / %d bytes", w, i, c.Blocks[i].Count, len(c.Blocks[i].Payload), b.n, len(b.data)), desc)
						ok = false
						break
					}
					stored = append(stored, c.Blocks[i].Raw)
				}
			}
		}
		if ok {
			r.Add(cApp("KFw", w9CUB(schema), w9CUB([]byte(codec)), w9CCompStored(codec, stored), cList(ops), cList(outs), cList(appended)), desc, fmt.Sprintf("fw/%d/%v", it, hist))
		}
	}
}
