package main

import (
	"bytes"
	"errors"
	"fmt"
	"io"

	"github.com/philpearl/avro"
)

// c09FileWriterDirect: the FileWriter used on its own, the way a caller with its own record
// encoder uses it: NewFileWriter, WriteHeader / AppendHeader, WriteBlock with caller-made blocks.
// What reaches the writer is a container whose blocks hold exactly the bytes and counts handed
// over, each closed by the header's sync marker; AppendHeader appends (what was in the buffer
// stays) the same header WriteHeader writes; and with a writer refusing its k-th Write the call
// that issued it returns an error wrapping the writer's, having left a prefix of the fault-free
// output (C16).
func c09FileWriterDirect(r *Run, faults bool) {
	schema := []byte(`{"type":"record","name":"Row","fields":[{"name":"v","type":"long"}]}`)
	nh := r.N(8, 60)
	for it := 0; it < nh; it++ {
		codec := codecNames[it%3]
		// blocks: (row count, bytes); the rows are one-byte longs, plus an empty block and a large one
		type blk struct {
			n    int
			data []byte
		}
		var blocks []blk
		for b, nb := 0, 1+r.Rng.Intn(5); b < nb; b++ {
			n := []int{0, 1, 2, 63, 64, 65, 300, 5000}[r.Rng.Intn(8)]
			data := make([]byte, n)
			for i := range data {
				data[i] = byte(r.Rng.Intn(64) * 2) // longs 0..63, one byte each
			}
			if r.Rng.Intn(6) == 0 {
				n, data = 1, append(bytes.Repeat([]byte{0xfe}, 8), 0x01, 0x00)[:9] // one nine-byte long
			}
			blocks = append(blocks, blk{n, data})
		}
		desc := map[string]any{"codec": codec, "blocks": func() (o []string) {
			for _, b := range blocks {
				o = append(o, fmt.Sprintf("%d rows / %d bytes", b.n, len(b.data)))
			}
			return
		}()}
		run := func(w io.Writer) (errs []error, panicked any, hdr []byte) {
			defer func() {
				if p := recover(); p != nil {
					panicked = p
				}
			}()
			fw, err := avro.NewFileWriter(schema, avro.Compression(codec))
			if err != nil {
				return []error{err}, nil, nil
			}
			prefix := []byte("prefix-kept:")
			hdr = fw.AppendHeader(append([]byte{}, prefix...))
			if !bytes.HasPrefix(hdr, prefix) {
				errs = append(errs, errors.New("AppendHeader did not keep what the buffer held"))
			}
			hdr = hdr[len(prefix):]
			if again := fw.AppendHeader(nil); !bytes.Equal(again, hdr) {
				errs = append(errs, errors.New("two AppendHeader calls on one FileWriter give different headers"))
			}
			if err := fw.WriteHeader(w); err != nil {
				return append(errs, err), nil, hdr
			}
			for _, b := range blocks {
				if err := fw.WriteBlock(w, b.n, b.data); err != nil {
					return append(errs, err), nil, hdr
				}
			}
			return errs, nil, hdr
		}
		ff := &w9RecWriter{failAt: -1}
		errs, pn, hdr := run(ff)
		r.Count("filewriter-direct/" + codec)
		if pn != nil || len(errs) > 0 {
			r.Fail(-1, "call-failed", fmt.Sprintf("FileWriter used directly on a working writer: errors %v panic %v", errs, pn), desc)
			continue
		}
		c, err := parseContainer(ff.acc)
		switch {
		case err != nil:
			r.Fail(-1, "length-mismatch", fmt.Sprintf("what the FileWriter wrote does not parse as a container: %v", err), desc)
			continue
		case !bytes.HasPrefix(ff.acc, hdr):
			r.Fail(-1, "header", "WriteHeader wrote something else than AppendHeader returns", desc)
		case c.Codec != codec || !bytes.Equal(c.SchemaJSON, schema):
			r.Fail(-1, "header-codec", fmt.Sprintf("header carries codec %q and schema %q", c.Codec, c.SchemaJSON), desc)
		case len(c.Blocks) != len(blocks):
			r.Fail(-1, "early-or-late-block", fmt.Sprintf("%d WriteBlock calls, %d blocks in the output", len(blocks), len(c.Blocks)), desc)
		default:
			for i, b := range blocks {
				if c.Blocks[i].Count != int64(b.n) {
					r.Fail(-1, "count-mismatch", fmt.Sprintf("block %d: count %d, WriteBlock was given %d", i, c.Blocks[i].Count, b.n), desc)
				} else if !bytes.Equal(c.Blocks[i].Payload, b.data) {
					r.Fail(-1, "lost-record", fmt.Sprintf("block %d holds %d bytes that are not the %d bytes handed to WriteBlock", i, len(c.Blocks[i].Payload), len(b.data)), desc)
				}
			}
		}
		if !faults {
			continue
		}
		// the same calls over a writer refusing Write k; every other history over a writer that
		// also offers WriteByte, WriteString and ReadFrom (bufio.Writer, bytes.Buffer and many
		// network writers do), each of which may be the call that is refused, once
		rich := it%2 == 1
		if rich {
			ffr := &w9RecWriter{failAt: -1}
			if errs, pn, _ := run(w9RichWriter{ffr}); pn != nil || len(errs) > 0 {
				r.Fail(-1, "call-failed", fmt.Sprintf("FileWriter used directly on a working writer with WriteByte/WriteString/ReadFrom: errors %v panic %v", errs, pn), desc)
				continue
			}
			if len(ffr.acc) != len(ff.acc) {
				r.Fail(-1, "length-mismatch", fmt.Sprintf("%d bytes reach a writer that also has WriteByte/WriteString/ReadFrom, %d a plain one", len(ffr.acc), len(ff.acc)), desc)
				continue
			}
			ff = ffr
			r.Count("filewriter-direct/rich-writer")
		}
		for k := 0; k < len(ff.chunks); k++ {
			partial := 0
			if len(ff.chunks[k]) > 1 && r.Rng.Intn(2) == 0 {
				partial = 1 + r.Rng.Intn(len(ff.chunks[k])-1)
			}
			w := &w9RecWriter{failAt: k, partial: partial}
			var errs []error
			var pn any
			if rich {
				errs, pn, _ = run(w9RichWriter{w})
			} else {
				errs, pn, _ = run(w)
			}
			d2 := withKV(withKV(desc, "fail_at_write", k), "writer_has_WriteByte_WriteString_ReadFrom", rich)
			r.Count("filewriter-direct/fault-runs")
			wantLen := partial
			for _, ch := range ff.chunks[:k] {
				wantLen += len(ch)
			}
			switch {
			case pn != nil:
				r.Fail(-1, "fault-panic", fmt.Sprintf("FileWriter call panicked when Write %d was refused: %v", k, pn), d2)
			case len(errs) == 0:
				r.Fail(-1, "fault-not-reported", fmt.Sprintf("Write %d was refused and every FileWriter call returned nil", k), d2)
			case !errors.Is(errs[len(errs)-1], w9ErrWriterSentinel):
				r.Fail(-1, "fault-not-wrapped", fmt.Sprintf("the FileWriter call returned %q, which does not wrap the writer's error", errs[len(errs)-1]), d2)
			case w.afterFault > 0:
				r.Fail(-1, "fault-not-prefix", fmt.Sprintf("%d Write calls were issued after the refused one", w.afterFault), d2)
			case len(w.acc) != wantLen:
				// (the sync marker differs from run to run: lengths compare, contents are C16's main driver's)
				r.Fail(-1, "fault-not-prefix", fmt.Sprintf("%d bytes accepted, the first %d Write calls and the partial one amount to %d", len(w.acc), k, wantLen), d2)
			}
		}
	}
}

// w9RichWriter: a recording / failing writer that also has the optional methods libraries
// look for.  Each of them is one call of the underlying writer, so each can be the refused one.
type w9RichWriter struct{ w *w9RecWriter }

func (x w9RichWriter) Write(p []byte) (int, error) { return x.w.Write(p) }
func (x w9RichWriter) WriteByte(c byte) error {
	_, err := x.w.Write([]byte{c})
	return err
}
func (x w9RichWriter) WriteString(s string) (int, error) { return x.w.Write([]byte(s)) }
func (x w9RichWriter) ReadFrom(rd io.Reader) (int64, error) {
	data, err := io.ReadAll(rd)
	if err != nil {
		return 0, err
	}
	n, err := x.w.Write(data)
	return int64(n), err
}

// c16RichEncoder: the generic Encoder over a writer that also has WriteByte, WriteString and
// ReadFrom, each of which may be the call that is refused once (the writer works again
// afterwards).  Judged as the property states it, whatever calls the library chooses to make:
// the library call during which the refusal happened returns an error wrapping the writer's,
// nothing is written after it, and what was accepted is as long as the corresponding prefix of
// the fault-free output (same calls, same history; the sync marker differs from run to run, so
// the contents are compared up to the end of the header's metadata only).
func c16RichEncoder(r *Run) {
	nh := r.N(10, 40)
	for it := 0; it < nh; it++ {
		h := w9GenHistory(r, r.N(12, 30), r.N(200, 400), false)
		if it%3 == 0 {
			// blocks of 64+ records and of 64+ bytes: counts and lengths of two bytes and more
			h.Size = 300 + r.Rng.Intn(2000)
		}
		desc := w9DescribeHist(h)
		run := func(w *w9RecWriter) (errAt int, errs []error, pn any) {
			errAt = -2
			enc, err, p := w9NewWenc(h.Kind, w9RichWriter{w}, h.Codec, h.Size)
			if p != nil || err != nil {
				if err != nil {
					errs = append(errs, err)
				}
				return -1, errs, p
			}
			for i, o := range h.Ops {
				err, p := w9CallOp(enc, o)
				if p != nil || err != nil {
					if err != nil {
						errs = append(errs, err)
					}
					return i, errs, p
				}
			}
			return
		}
		ff := &w9RecWriter{failAt: -1}
		if at, errs, pn := run(ff); pn != nil || len(errs) > 0 {
			r.Fail(-1, "call-failed", fmt.Sprintf("Encoder over a working writer with WriteByte/WriteString/ReadFrom: call %d: errors %v panic %v", at, errs, pn), map[string]any{"history": desc})
			continue
		}
		r.Count("rich-encoder/histories")
		for k := 0; k < len(ff.chunks); k++ {
			partial := 0
			if len(ff.chunks[k]) > 1 && r.Rng.Intn(2) == 0 {
				partial = 1 + r.Rng.Intn(len(ff.chunks[k])-1)
			}
			w := &w9RecWriter{failAt: k, partial: partial}
			at, errs, pn := run(w)
			d2 := map[string]any{"history": desc, "fail_at_write": k, "partial": partial, "writer_has_WriteByte_WriteString_ReadFrom": true}
			r.Count("rich-encoder/fault-runs")
			wantLen := partial
			for _, ch := range ff.chunks[:k] {
				wantLen += len(ch)
			}
			switch {
			case pn != nil:
				r.Fail(-1, "fault-panic", fmt.Sprintf("call %d panicked when write %d was refused: %v", at, k, pn), d2)
			case len(errs) == 0:
				r.Fail(-1, "fault-not-reported", fmt.Sprintf("write %d was refused and every Encoder call returned nil", k), d2)
			case !errors.Is(errs[len(errs)-1], w9ErrWriterSentinel):
				r.Fail(-1, "fault-not-wrapped", fmt.Sprintf("call %d returned %q, which does not wrap the writer's error", at, errs[len(errs)-1]), d2)
			case w.afterFault > 0:
				r.Fail(-1, "fault-not-prefix", fmt.Sprintf("%d writes were issued after the refused one (before call %d returned)", w.afterFault, at), d2)
			case len(w.acc) != wantLen:
				r.Fail(-1, "fault-not-prefix", fmt.Sprintf("%d bytes accepted, the first %d writes and the partial one amount to %d", len(w.acc), k, wantLen), d2)
			}
		}
	}
}
