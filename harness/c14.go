package main

// C14 — schema JSON parsing and serialisation are faithful inverses.
//
// The driver owns a JSON tree type with ordered members (c14J), a printer to text
// with random layout and escapes, a printer to the Coq type [json] of
// Model/Json.v, and a converter text -> tree built on the STANDARD library
// (encoding/json token stream, UseNumber), which shares no code with
// github.com/go-json-experiment/json that /repo/schema.go uses.
//
// Direct oracles (on the implementation, independent of the Coq model):
//   structure          SchemaFromString(doc) equals the Schema the generator built
//                      alongside the document
//   key-order          shuffling the members of every object changes nothing
//   unknown-attr       removing / adding unknown members changes nothing
//   (whitespace and escapes are folded into key-order's variants: "layout")
//   roundtrip          Marshal gives valid JSON; SchemaFromString(Marshal(s)) equals s
//                      on the attributes that belong to each node's type, and exactly
//                      when s carries no stray attribute; also for SchemaForType values
//   malformed-accepted a malformed document is accepted
//   panic              any call panics

import (
	"bytes"
	"encoding/json"
	"fmt"
	"io"
	"math/big"
	"math/rand"
	"reflect"
	"regexp"
	"runtime"
	"strings"
	"time"
	"unicode/utf8"

	"github.com/philpearl/avro"
)

func init() {
	register("C14", "Avro.Corr.Json", runC14)
	workerFns["c14parse"] = func(arg json.RawMessage) (any, error) {
		var doc string
		if err := json.Unmarshal(arg, &doc); err != nil {
			return nil, err
		}
		var m0, m1 runtime.MemStats
		runtime.GC()
		runtime.ReadMemStats(&m0)
		t0 := time.Now()
		_, err := avro.SchemaFromString(doc)
		ms := time.Since(t0).Milliseconds()
		runtime.ReadMemStats(&m1)
		return map[string]any{"err": err != nil, "alloc": m1.TotalAlloc - m0.TotalAlloc, "ms": ms}, nil
	}
}

// ---- JSON tree ---------------------------------------------------------------

type c14J struct {
	K   byte // 'n' null, 'b' bool, '0' number, '"' string, '[' array, '{' object
	B   bool
	Num string
	S   string
	Arr []*c14J
	Mem []c14M
}

type c14M struct {
	K string
	V *c14J
}

func c14Null() *c14J                { return &c14J{K: 'n'} }
func c14Bool(b bool) *c14J          { return &c14J{K: 'b', B: b} }
func c14Num(t string) *c14J         { return &c14J{K: '0', Num: t} }
func c14Str(s string) *c14J         { return &c14J{K: '"', S: s} }
func c14Arr(a ...*c14J) *c14J       { return &c14J{K: '[', Arr: a} }
func c14Obj(m ...c14M) *c14J        { return &c14J{K: '{', Mem: m} }
func c14Mem(k string, v *c14J) c14M { return c14M{K: k, V: v} }

func (j *c14J) clone() *c14J {
	c := *j
	if j.Arr != nil {
		c.Arr = make([]*c14J, len(j.Arr))
		for i, x := range j.Arr {
			c.Arr[i] = x.clone()
		}
	}
	if j.Mem != nil {
		c.Mem = make([]c14M, len(j.Mem))
		for i, m := range j.Mem {
			c.Mem[i] = c14M{m.K, m.V.clone()}
		}
	}
	return &c
}

func (j *c14J) size() int {
	n := 1
	for _, x := range j.Arr {
		n += x.size()
	}
	for _, m := range j.Mem {
		n += 1 + m.V.size()
	}
	return n
}

var c14IntRe = regexp.MustCompile(`^-?(0|[1-9][0-9]*)$`)

// Coq term of type json.
func (j *c14J) coq() string {
	switch j.K {
	case 'n':
		return "JNull"
	case 'b':
		return cApp("JBool", cBool(j.B))
	case '0':
		iv := "None"
		if c14IntRe.MatchString(j.Num) {
			z, _ := new(big.Int).SetString(j.Num, 10)
			t := z.String()
			if z.Sign() < 0 {
				t = "(" + t + ")"
			}
			iv = "(Some " + t + ")"
		}
		return cApp("JNum", cBytes([]byte(j.Num)), iv)
	case '"':
		return cApp("JStr", cBytes([]byte(j.S)))
	case '[':
		xs := make([]string, len(j.Arr))
		for i, x := range j.Arr {
			xs[i] = x.coq()
		}
		return cApp("JArr", cList(xs))
	default:
		xs := make([]string, len(j.Mem))
		for i, m := range j.Mem {
			xs[i] = cPair(cBytes([]byte(m.K)), m.V.coq())
		}
		return cApp("JObj", cList(xs))
	}
}

// ---- tree -> text ----------------------------------------------------------------

type c14Style struct {
	rng *rand.Rand
	ws  int // 0 compact, 1 random whitespace, 2 indented
	esc int // percent of characters written as an escape although they need none
}

func (st *c14Style) gap(sb *bytes.Buffer, depth int) {
	switch st.ws {
	case 1:
		for n := st.rng.Intn(4); n > 0; n-- {
			sb.WriteByte(" \t\n\r"[st.rng.Intn(4)])
		}
	case 2:
		sb.WriteByte('\n')
		for i := 0; i < depth; i++ {
			sb.WriteString("  ")
		}
	}
}

func (st *c14Style) str(sb *bytes.Buffer, s string) {
	sb.WriteByte('"')
	for i := 0; i < len(s); {
		r, n := utf8.DecodeRuneInString(s[i:])
		if r == utf8.RuneError && n <= 1 {
			sb.WriteByte(s[i]) // invalid UTF-8 is written raw (malformed stream only)
			i++
			continue
		}
		i += n
		must := r == '"' || r == '\\' || r < 0x20
		if !must && (st.esc == 0 || st.rng.Intn(100) >= st.esc) {
			sb.WriteRune(r)
			continue
		}
		short := map[rune]string{'"': `\"`, '\\': `\\`, '/': `\/`, '\b': `\b`, '\f': `\f`, '\n': `\n`, '\r': `\r`, '\t': `\t`}
		if e, ok := short[r]; ok && (st.rng == nil || st.rng.Intn(3) != 0) {
			sb.WriteString(e)
			continue
		}
		hex := "%04x"
		if st.rng != nil && st.rng.Intn(2) == 0 {
			hex = "%04X"
		}
		if r >= 0x10000 {
			r -= 0x10000
			fmt.Fprintf(sb, `\u`+hex+`\u`+hex, 0xd800+(r>>10), 0xdc00+(r&0x3ff))
		} else {
			fmt.Fprintf(sb, `\u`+hex, r)
		}
	}
	sb.WriteByte('"')
}

func (st *c14Style) val(sb *bytes.Buffer, j *c14J, depth int) {
	switch j.K {
	case 'n':
		sb.WriteString("null")
	case 'b':
		if j.B {
			sb.WriteString("true")
		} else {
			sb.WriteString("false")
		}
	case '0':
		sb.WriteString(j.Num)
	case '"':
		st.str(sb, j.S)
	case '[':
		sb.WriteByte('[')
		for i, x := range j.Arr {
			if i > 0 {
				sb.WriteByte(',')
			}
			st.gap(sb, depth+1)
			st.val(sb, x, depth+1)
			if st.ws == 1 {
				st.gap(sb, depth+1)
			}
		}
		if len(j.Arr) > 0 || st.ws == 1 {
			st.gap(sb, depth)
		}
		sb.WriteByte(']')
	default:
		sb.WriteByte('{')
		for i, m := range j.Mem {
			if i > 0 {
				sb.WriteByte(',')
			}
			st.gap(sb, depth+1)
			st.str(sb, m.K)
			if st.ws == 1 {
				st.gap(sb, depth+1)
			}
			sb.WriteByte(':')
			if st.ws != 0 {
				sb.WriteByte(' ')
			}
			st.val(sb, m.V, depth+1)
			if st.ws == 1 {
				st.gap(sb, depth+1)
			}
		}
		if len(j.Mem) > 0 || st.ws == 1 {
			st.gap(sb, depth)
		}
		sb.WriteByte('}')
	}
}

func c14Render(j *c14J, rng *rand.Rand, ws, esc int) string {
	var sb bytes.Buffer
	st := &c14Style{rng: rng, ws: ws, esc: esc}
	if ws == 1 {
		st.gap(&sb, 0)
	}
	st.val(&sb, j, 0)
	if ws == 1 {
		st.gap(&sb, 0)
	}
	return sb.String()
}

func c14RandRender(j *c14J, rng *rand.Rand) string {
	esc := 0
	if rng.Intn(3) == 0 {
		esc = []int{5, 30, 100}[rng.Intn(3)]
	}
	return c14Render(j, rng, rng.Intn(3), esc)
}

// ---- text -> tree, standard library ------------------------------------------------

func c14ParseStd(data []byte) (*c14J, error) {
	dec := json.NewDecoder(bytes.NewReader(data))
	dec.UseNumber()
	v, err := c14ReadStd(dec)
	if err != nil {
		return nil, err
	}
	if _, err := dec.Token(); err != io.EOF {
		return nil, fmt.Errorf("trailing data")
	}
	return v, nil
}

func c14ReadStd(dec *json.Decoder) (*c14J, error) {
	tok, err := dec.Token()
	if err != nil {
		return nil, err
	}
	switch t := tok.(type) {
	case json.Delim:
		switch t {
		case '[':
			out := &c14J{K: '['}
			for dec.More() {
				v, err := c14ReadStd(dec)
				if err != nil {
					return nil, err
				}
				out.Arr = append(out.Arr, v)
			}
			_, err := dec.Token()
			return out, err
		case '{':
			out := &c14J{K: '{'}
			for dec.More() {
				kt, err := dec.Token()
				if err != nil {
					return nil, err
				}
				k, ok := kt.(string)
				if !ok {
					return nil, fmt.Errorf("member name is not a string")
				}
				v, err := c14ReadStd(dec)
				if err != nil {
					return nil, err
				}
				out.Mem = append(out.Mem, c14M{k, v})
			}
			_, err := dec.Token()
			return out, err
		}
		return nil, fmt.Errorf("unexpected delimiter %v", t)
	case string:
		return c14Str(t), nil
	case json.Number:
		return c14Num(string(t)), nil
	case bool:
		return c14Bool(t), nil
	case nil:
		return c14Null(), nil
	}
	return nil, fmt.Errorf("unexpected token %T", tok)
}

// ---- implementation calls ---------------------------------------------------------

type c14Parse struct {
	S     avro.Schema
	Err   error
	Panic string
}

func c14Impl(doc string) (res c14Parse) {
	defer func() {
		if p := recover(); p != nil {
			res = c14Parse{Panic: fmt.Sprint(p)}
		}
	}()
	s, err := avro.SchemaFromString(doc)
	return c14Parse{S: s, Err: err}
}

func (p c14Parse) ok() bool { return p.Err == nil && p.Panic == "" }

func (p c14Parse) coq() string {
	if !p.ok() {
		return "None"
	}
	return cApp("Some", coqSchema(p.S))
}

type c14Marsh struct {
	B     []byte
	Err   error
	Panic string
}

func c14Marshal(s avro.Schema) (res c14Marsh) {
	defer func() {
		if p := recover(); p != nil {
			res = c14Marsh{Panic: fmt.Sprint(p)}
		}
	}()
	b, err := s.Marshal()
	// the bytes an earlier call returned belong to its caller: a later Marshal must not change them
	if c14PrevBytes != nil && string(c14PrevBytes) != c14PrevSnap && c14Clobbered == "" {
		c14Clobbered = fmt.Sprintf("the document returned by an earlier Marshal call (%s) reads %s after a later call", trunc200(c14PrevSnap), trunc200(string(c14PrevBytes)))
	}
	c14PrevBytes, c14PrevSnap = b, string(b)
	return c14Marsh{B: b, Err: err}
}

var (
	c14PrevBytes []byte
	c14PrevSnap  string
	c14Clobbered string
)

// canonical form for comparisons: nil and empty slices are identified
func c14Canon(s avro.Schema) string { return coqSchema(s) }

// ---- wf / meaning / normal on Go values (mirrors of the Coq definitions, written
// independently so that the direct oracle does not depend on coqc) ------------------

func c14Wf(s avro.Schema) bool {
	if s.Object == nil {
		if len(s.Union) == 0 {
			return true
		}
		if s.Type != "union" {
			return false
		}
		for _, u := range s.Union {
			if !c14Wf(u) {
				return false
			}
		}
		return true
	}
	if len(s.Union) != 0 {
		return false
	}
	o := s.Object
	switch s.Type {
	case "record":
		for _, f := range o.Fields {
			if !c14Wf(f.Type) {
				return false
			}
		}
	case "array":
		return c14Wf(o.Items)
	case "map":
		return c14Wf(o.Values)
	}
	return true
}

func c14Meaning(s avro.Schema) avro.Schema {
	out := avro.Schema{Type: s.Type}
	if s.Object == nil {
		for _, u := range s.Union {
			out.Union = append(out.Union, c14Meaning(u))
		}
		return out
	}
	out.Union = s.Union
	o := s.Object
	no := &avro.SchemaObject{LogicalType: o.LogicalType, Name: o.Name, Namespace: o.Namespace}
	switch s.Type {
	case "record":
		for _, f := range o.Fields {
			no.Fields = append(no.Fields, avro.SchemaRecordField{Name: f.Name, Type: c14Meaning(f.Type)})
		}
	case "enum":
		no.Symbols = o.Symbols
	case "array":
		no.Items = c14Meaning(o.Items)
	case "map":
		no.Values = c14Meaning(o.Values)
	case "fixed":
		no.Size = o.Size
	}
	out.Object = no
	return out
}

func c14Normal(s avro.Schema) bool { return c14Wf(s) && c14Canon(c14Meaning(s)) == c14Canon(s) }

func c14ValidUTF8(s avro.Schema) bool {
	if !utf8.ValidString(s.Type) {
		return false
	}
	if s.Object == nil {
		for _, u := range s.Union {
			if !c14ValidUTF8(u) {
				return false
			}
		}
		return true
	}
	o := s.Object
	if !utf8.ValidString(o.LogicalType) || !utf8.ValidString(o.Name) || !utf8.ValidString(o.Namespace) {
		return false
	}
	switch s.Type {
	case "record":
		for _, f := range o.Fields {
			if !utf8.ValidString(f.Name) || !c14ValidUTF8(f.Type) {
				return false
			}
		}
	case "enum":
		for _, sy := range o.Symbols {
			if !utf8.ValidString(sy) {
				return false
			}
		}
	case "array":
		return c14ValidUTF8(o.Items)
	case "map":
		return c14ValidUTF8(o.Values)
	}
	return true
}

// ---- document generator -------------------------------------------------------------

type c14Gen struct {
	rng      *rand.Rand
	maxDepth int
	budget   int // remaining nodes
	nameCtr  int
	tidy     bool // no stray known attribute, no null-valued attribute generated so far
	kinds    map[string]int
}

var c14Prims = []string{"null", "boolean", "int", "long", "float", "double", "bytes", "string"}

var c14OddStrings = []string{"é", "日本語", "😀", "a\"b", "back\\slash", "line\nbreak", "tab\there", "\u0000nul", "a/b", " sep",
	"\u007fdel", "x y", "com.example.Über", "", "Ω≈ç√", "\U0001F600\U0001F601", "type", "fields", "\\u0041", "nul\u0001ctl"}

func (g *c14Gen) ident() string {
	g.nameCtr++
	switch g.rng.Intn(8) {
	case 0:
		return c14OddStrings[g.rng.Intn(len(c14OddStrings))]
	case 1:
		return fmt.Sprintf("com.example.N%d", g.nameCtr)
	}
	return fmt.Sprintf("n%d", g.nameCtr)
}

// arbitrary JSON value for an unknown attribute (unique names in every object)
func (g *c14Gen) anyJSON(depth int) *c14J {
	k := g.rng.Intn(8)
	if depth <= 0 && k >= 6 {
		k = g.rng.Intn(6)
	}
	switch k {
	case 0:
		return c14Null()
	case 1:
		return c14Bool(g.rng.Intn(2) == 0)
	case 2:
		return c14Num([]string{"0", "-0", "1", "42", "-7", "1.5", "1e3", "1E+2", "-1.25e-3", "99999999999999999999", "0.0", "123456789012", "1e400"}[g.rng.Intn(13)])
	case 3, 4, 5:
		if g.rng.Intn(3) == 0 {
			return c14Str(c14OddStrings[g.rng.Intn(len(c14OddStrings))])
		}
		return c14Str([]string{"ascending", "descending", "ignore", "some doc", "x", "int"}[g.rng.Intn(6)])
	case 6:
		n := g.rng.Intn(4)
		out := &c14J{K: '['}
		for i := 0; i < n; i++ {
			out.Arr = append(out.Arr, g.anyJSON(depth-1))
		}
		return out
	default:
		n := g.rng.Intn(4)
		out := &c14J{K: '{'}
		seen := map[string]bool{}
		for i := 0; i < n; i++ {
			k := []string{"type", "name", "a", "b", "size", "é", "", "fields", "x\"y"}[g.rng.Intn(9)]
			if seen[k] {
				continue
			}
			seen[k] = true
			out.Mem = append(out.Mem, c14M{k, g.anyJSON(depth - 1)})
		}
		return out
	}
}

var c14SchemaAttrs = map[string]bool{"type": true, "logicalType": true, "name": true, "namespace": true, "fields": true,
	"items": true, "values": true, "size": true, "symbols": true}
var c14FieldAttrs = map[string]bool{"name": true, "type": true}

// names of unknown attributes; several are near misses of the known names
var c14ExtraNames = []string{"doc", "default", "aliases", "order", "precision", "scale", "Type", "TYPE", "Name", "logicaltype",
	"LogicalType", "nameSpace", "Fields", "item", "value", "Size", "symbol", "", "é", "x-custom", " type", "type "}

// in a record field the schema attributes other than name/type are unknown, too
var c14FieldExtraNames = append([]string{"items", "values", "size", "symbols", "fields", "namespace", "logicalType"}, c14ExtraNames...)

// addExtras inserts unknown members at random positions.
func (g *c14Gen) addExtras(mem []c14M, known map[string]bool, names []string, max int) []c14M {
	n := 0
	switch g.rng.Intn(4) {
	case 0:
		n = 1
	case 1:
		n = 1 + g.rng.Intn(max)
	}
	have := map[string]bool{}
	for _, m := range mem {
		have[m.K] = true
	}
	for i := 0; i < n; i++ {
		k := names[g.rng.Intn(len(names))]
		if known[k] || have[k] {
			continue
		}
		have[k] = true
		g.kinds["extra"]++
		pos := g.rng.Intn(len(mem) + 1)
		mem = append(mem[:pos:pos], append([]c14M{{k, g.anyJSON(2)}}, mem[pos:]...)...)
	}
	return mem
}

func (g *c14Gen) shuffle(mem []c14M) []c14M {
	if g.rng.Intn(4) != 0 {
		g.rng.Shuffle(len(mem), func(i, j int) { mem[i], mem[j] = mem[j], mem[i] })
	}
	return mem
}

// optional string attribute: absent, present, or (rarely) null
func (g *c14Gen) optStr(mem []c14M, key string, val func() string, p int) ([]c14M, string) {
	switch x := g.rng.Intn(100); {
	case x < p:
		v := val()
		return append(mem, c14M{key, c14Str(v)}), v
	case x < p+3:
		g.tidy = false
		g.kinds["null-attr"]++
		return append(mem, c14M{key, c14Null()}), ""
	}
	return mem, ""
}

// schema returns a document together with the Schema it must parse to.
func (g *c14Gen) schema(depth int) (*c14J, avro.Schema) {
	g.budget--
	k := g.rng.Intn(16)
	if depth >= g.maxDepth || g.budget <= 0 {
		k = g.rng.Intn(4)
	}
	switch {
	case k <= 1: // primitive or named reference, as a string
		g.kinds["prim-string"]++
		t := c14Prims[g.rng.Intn(len(c14Prims))]
		if g.rng.Intn(6) == 0 {
			t = g.ident()
		}
		return c14Str(t), avro.Schema{Type: t}
	case k <= 3: // primitive as an object, possibly with a logical type
		g.kinds["prim-object"]++
		t := c14Prims[g.rng.Intn(len(c14Prims))]
		o := &avro.SchemaObject{}
		mem := []c14M{{"type", c14Str(t)}}
		mem, o.LogicalType = g.optStr(mem, "logicalType", func() string {
			return []string{"date", "timestamp-millis", "timestamp-micros", "decimal", "uuid", "time-millis", g.ident()}[g.rng.Intn(7)]
		}, 60)
		if o.LogicalType == "decimal" {
			mem = append(mem, c14M{"precision", c14Num("9")}, c14M{"scale", c14Num("2")})
		}
		mem = g.stray(mem, o, "")
		mem = g.addExtras(g.shuffle(mem), c14SchemaAttrs, c14ExtraNames, 3)
		return c14Obj(mem...), avro.Schema{Type: t, Object: o}
	case k <= 7:
		g.kinds["record"]++
		o := &avro.SchemaObject{}
		mem := []c14M{{"type", c14Str("record")}}
		mem, o.Name = g.optStr(mem, "name", g.ident, 90)
		mem, o.Namespace = g.optStr(mem, "namespace", func() string { return "com.example" + g.ident() }, 40)
		mem, o.LogicalType = g.optStr(mem, "logicalType", g.ident, 5)
		nf := g.rng.Intn(5)
		if depth+1 >= g.maxDepth {
			nf = g.rng.Intn(7)
		}
		fields := &c14J{K: '['}
		o.Fields = []avro.SchemaRecordField{}
		for i := 0; i < nf; i++ {
			fd, ft := g.schema(depth + 1)
			fm := []c14M{}
			var fname string
			fm, fname = g.optStr(fm, "name", g.ident, 97)
			fm = append(fm, c14M{"type", fd})
			fm = g.addExtras(g.shuffle(fm), c14FieldAttrs, c14FieldExtraNames, 4)
			fields.Arr = append(fields.Arr, c14Obj(fm...))
			o.Fields = append(o.Fields, avro.SchemaRecordField{Name: fname, Type: ft})
		}
		if g.rng.Intn(40) == 0 {
			// a null element of fields decodes to the zero SchemaRecordField
			g.tidy = false
			g.kinds["null-attr"]++
			fields.Arr = append(fields.Arr, c14Null())
			o.Fields = append(o.Fields, avro.SchemaRecordField{})
		}
		mem = append(mem, c14M{"fields", fields})
		mem = g.stray(mem, o, "fields")
		mem = g.addExtras(g.shuffle(mem), c14SchemaAttrs, c14ExtraNames, 3)
		return c14Obj(mem...), avro.Schema{Type: "record", Object: o}
	case k == 8:
		g.kinds["enum"]++
		o := &avro.SchemaObject{}
		mem := []c14M{{"type", c14Str("enum")}}
		mem, o.Name = g.optStr(mem, "name", g.ident, 90)
		mem, o.Namespace = g.optStr(mem, "namespace", g.ident, 20)
		syms := &c14J{K: '['}
		o.Symbols = []string{}
		for i, n := 0, g.rng.Intn(5); i < n; i++ {
			sy := g.ident()
			if g.rng.Intn(30) == 0 {
				g.tidy = false
				g.kinds["null-attr"]++
				syms.Arr = append(syms.Arr, c14Null())
				sy = ""
			} else {
				syms.Arr = append(syms.Arr, c14Str(sy))
			}
			o.Symbols = append(o.Symbols, sy)
		}
		mem = append(mem, c14M{"symbols", syms})
		mem = g.stray(mem, o, "symbols")
		mem = g.addExtras(g.shuffle(mem), c14SchemaAttrs, c14ExtraNames, 3)
		return c14Obj(mem...), avro.Schema{Type: "enum", Object: o}
	case k <= 10:
		g.kinds["array"]++
		o := &avro.SchemaObject{}
		d, it := g.schema(depth + 1)
		o.Items = it
		mem := []c14M{{"type", c14Str("array")}, {"items", d}}
		mem = g.stray(mem, o, "items")
		mem = g.addExtras(g.shuffle(mem), c14SchemaAttrs, c14ExtraNames, 3)
		return c14Obj(mem...), avro.Schema{Type: "array", Object: o}
	case k <= 12:
		g.kinds["map"]++
		o := &avro.SchemaObject{}
		d, vt := g.schema(depth + 1)
		o.Values = vt
		mem := []c14M{{"type", c14Str("map")}, {"values", d}}
		mem = g.stray(mem, o, "values")
		mem = g.addExtras(g.shuffle(mem), c14SchemaAttrs, c14ExtraNames, 3)
		return c14Obj(mem...), avro.Schema{Type: "map", Object: o}
	case k == 13:
		g.kinds["fixed"]++
		o := &avro.SchemaObject{}
		mem := []c14M{{"type", c14Str("fixed")}}
		mem, o.Name = g.optStr(mem, "name", g.ident, 90)
		mem, o.Namespace = g.optStr(mem, "namespace", g.ident, 20)
		mem, o.LogicalType = g.optStr(mem, "logicalType", func() string { return "decimal" }, 15)
		sizes := []int{0, 1, 4, 12, 16, 255, 65536, 1 << 31, 1<<63 - 1, -1, -(1 << 63)}
		o.Size = sizes[g.rng.Intn(len(sizes))]
		if g.rng.Intn(3) != 0 {
			o.Size = g.rng.Intn(64)
		}
		txt := fmt.Sprint(o.Size)
		if o.Size == 0 && g.rng.Intn(4) == 0 {
			txt = "-0"
		}
		mem = append(mem, c14M{"size", c14Num(txt)})
		mem = g.stray(mem, o, "size")
		mem = g.addExtras(g.shuffle(mem), c14SchemaAttrs, c14ExtraNames, 3)
		return c14Obj(mem...), avro.Schema{Type: "fixed", Object: o}
	default:
		g.kinds["union"]++
		n := g.rng.Intn(5)
		if g.rng.Intn(3) == 0 {
			n = 2
		}
		d := &c14J{K: '['}
		s := avro.Schema{Type: "union", Union: []avro.Schema{}}
		for i := 0; i < n; i++ {
			if i == 0 && g.rng.Intn(2) == 0 {
				d.Arr = append(d.Arr, c14Str("null"))
				s.Union = append(s.Union, avro.Schema{Type: "null"})
				continue
			}
			bd, bs := g.schema(depth + 1)
			d.Arr = append(d.Arr, bd)
			s.Union = append(s.Union, bs)
		}
		return d, s
	}
}

// stray adds, rarely, a known attribute that does not belong to the node's type
// (the parser keeps it, the writer drops it).
func (g *c14Gen) stray(mem []c14M, o *avro.SchemaObject, own string) []c14M {
	if g.rng.Intn(25) != 0 {
		return mem
	}
	cands := []string{"fields", "items", "values", "size", "symbols"}
	k := cands[g.rng.Intn(len(cands))]
	if k == own {
		return mem
	}
	g.tidy = false
	g.kinds["stray-attr"]++
	switch k {
	case "fields":
		o.Fields = []avro.SchemaRecordField{{Name: "s", Type: avro.Schema{Type: "int"}}}
		mem = append(mem, c14M{k, c14Arr(c14Obj(c14M{"name", c14Str("s")}, c14M{"type", c14Str("int")}))})
	case "items":
		o.Items = avro.Schema{Type: "long"}
		mem = append(mem, c14M{k, c14Str("long")})
	case "values":
		o.Values = avro.Schema{Type: "union", Union: []avro.Schema{{Type: "null"}, {Type: "string"}}}
		mem = append(mem, c14M{k, c14Arr(c14Str("null"), c14Str("string"))})
	case "size":
		o.Size = 7
		mem = append(mem, c14M{k, c14Num("7")})
	case "symbols":
		o.Symbols = []string{"X"}
		mem = append(mem, c14M{k, c14Arr(c14Str("X"))})
	}
	return mem
}

// ---- document transformations -------------------------------------------------------

// deep shuffle: every object's members, at every depth
func c14Shuffle(j *c14J, rng *rand.Rand) *c14J {
	c := *j
	if j.Arr != nil {
		c.Arr = make([]*c14J, len(j.Arr))
		for i, x := range j.Arr {
			c.Arr[i] = c14Shuffle(x, rng)
		}
	}
	if j.Mem != nil {
		c.Mem = make([]c14M, len(j.Mem))
		for i, m := range j.Mem {
			c.Mem[i] = c14M{m.K, c14Shuffle(m.V, rng)}
		}
		rng.Shuffle(len(c.Mem), func(a, b int) { c.Mem[a], c.Mem[b] = c.Mem[b], c.Mem[a] })
	}
	return &c
}

// c14Walk rewrites the member list of every schema object (field=false) and of
// every record-field object (field=true), following fields/items/values/type/union.
func c14Walk(j *c14J, f func(mem []c14M, field bool) []c14M) *c14J {
	switch j.K {
	case '[':
		out := &c14J{K: '['}
		for _, x := range j.Arr {
			out.Arr = append(out.Arr, c14Walk(x, f))
		}
		return out
	case '{':
		mem := make([]c14M, 0, len(j.Mem))
		for _, m := range j.Mem {
			switch {
			case m.K == "items" || m.K == "values":
				mem = append(mem, c14M{m.K, c14Walk(m.V, f)})
			case m.K == "fields" && m.V.K == '[':
				fs := &c14J{K: '['}
				for _, fo := range m.V.Arr {
					if fo.K != '{' {
						fs.Arr = append(fs.Arr, fo)
						continue
					}
					fm := make([]c14M, 0, len(fo.Mem))
					for _, x := range fo.Mem {
						if x.K == "type" {
							fm = append(fm, c14M{x.K, c14Walk(x.V, f)})
						} else {
							fm = append(fm, x)
						}
					}
					fs.Arr = append(fs.Arr, &c14J{K: '{', Mem: f(fm, true)})
				}
				mem = append(mem, c14M{m.K, fs})
			default:
				mem = append(mem, m)
			}
		}
		return &c14J{K: '{', Mem: f(mem, false)}
	}
	return j
}

func c14Strip(j *c14J) *c14J {
	return c14Walk(j, func(mem []c14M, field bool) []c14M {
		known := c14SchemaAttrs
		if field {
			known = c14FieldAttrs
		}
		out := []c14M{}
		for _, m := range mem {
			if known[m.K] {
				out = append(out, m)
			}
		}
		return out
	})
}

func c14AddUnknown(j *c14J, g *c14Gen) *c14J {
	return c14Walk(j, func(mem []c14M, field bool) []c14M {
		if field {
			return g.addExtras(mem, c14FieldAttrs, c14FieldExtraNames, 3)
		}
		return g.addExtras(mem, c14SchemaAttrs, c14ExtraNames, 3)
	})
}

// ---- random Schema values (not produced by parsing) ---------------------------------

func (g *c14Gen) value(depth int, wild bool) avro.Schema {
	str := func() string {
		if wild && g.rng.Intn(12) == 0 {
			return []string{"a\xffb", "\xc0\x80", "\xed\xa0\x80", "\xf4\x90\x80\x80", "\xe2\x82"}[g.rng.Intn(5)]
		}
		if g.rng.Intn(3) == 0 {
			return ""
		}
		return g.ident()
	}
	k := g.rng.Intn(12)
	if depth >= g.maxDepth {
		k = g.rng.Intn(3)
	}
	var s avro.Schema
	types := []string{"record", "enum", "array", "map", "fixed", "int", "string", "union", "", "other"}
	switch {
	case k <= 1:
		s = avro.Schema{Type: c14Prims[g.rng.Intn(len(c14Prims))]}
		if g.rng.Intn(5) == 0 {
			s.Type = str()
		}
	case k == 2:
		s = avro.Schema{Type: c14Prims[g.rng.Intn(len(c14Prims))], Object: &avro.SchemaObject{LogicalType: str()}}
	case k <= 4:
		s = avro.Schema{Type: "union"}
		for i, n := 0, g.rng.Intn(4); i < n; i++ {
			s.Union = append(s.Union, g.value(depth+1, wild))
		}
	default:
		t := types[g.rng.Intn(5)]
		o := &avro.SchemaObject{Name: str(), Namespace: str()}
		if g.rng.Intn(4) == 0 {
			o.LogicalType = str()
		}
		fill := func(k string) {
			switch k {
			case "record":
				for i, n := 0, g.rng.Intn(4); i < n; i++ {
					f := avro.SchemaRecordField{Name: str(), Type: g.value(depth+1, wild)}
					if g.rng.Intn(10) == 0 {
						f.Type = avro.Schema{}
					}
					o.Fields = append(o.Fields, f)
				}
			case "enum":
				for i, n := 0, g.rng.Intn(4); i < n; i++ {
					o.Symbols = append(o.Symbols, str())
				}
			case "array":
				o.Items = g.value(depth+1, wild)
			case "map":
				o.Values = g.value(depth+1, wild)
			case "fixed":
				o.Size = []int{0, 1, 16, -3, 1<<63 - 1, -(1 << 63)}[g.rng.Intn(6)]
			}
		}
		fill(t)
		s = avro.Schema{Type: t, Object: o}
	}
	if wild {
		// ill-formed combinations: the model must still predict what Marshal writes
		switch g.rng.Intn(10) {
		case 0:
			s.Type = types[g.rng.Intn(len(types))]
		case 1:
			if s.Object != nil {
				s.Union = []avro.Schema{g.value(depth+1, wild)}
			}
		case 2:
			if s.Object != nil {
				o := s.Object
				o.Size = 5
				o.Symbols = append(o.Symbols, "stray")
				o.Items = avro.Schema{Type: "int"}
				o.Fields = append(o.Fields, avro.SchemaRecordField{Name: "stray", Type: avro.Schema{Type: "long"}})
			}
		case 3:
			if s.Object != nil {
				s.Object.Type = "ignored" // SchemaObject.Type is never read by MarshalJSONTo
			}
		}
	}
	return s
}

// coqSchema cannot show SchemaObject.Type; clear it where the generator set it so that
// printed value and Go value agree (MarshalJSONTo does not read it).
func c14ClearObjType(s *avro.Schema) {
	if s.Object != nil {
		s.Object.Type = ""
		c14ClearObjType(&s.Object.Items)
		c14ClearObjType(&s.Object.Values)
		for i := range s.Object.Fields {
			c14ClearObjType(&s.Object.Fields[i].Type)
		}
	}
	for i := range s.Union {
		c14ClearObjType(&s.Union[i])
	}
}

// ---- the run --------------------------------------------------------------------------

func c14Short(s string) string {
	if len(s) > 600 {
		return s[:600] + "…"
	}
	return s
}

type c14Run struct {
	r    *Run
	seen map[string]bool
}

// parseCase: one KUnmarshal case.
func (c *c14Run) parseCase(doc *c14J, text string, class string) (int, c14Parse) {
	got := c14Impl(text)
	desc := map[string]any{"kind": "unmarshal", "class": class, "text": c14Short(text), "impl_ok": got.ok()}
	key := "u/" + text
	if c.seen[key] {
		key = ""
	}
	c.seen["u/"+text] = true
	id := c.r.Add(cApp("KUnmarshal", doc.coq(), got.coq()), desc, key)
	if got.Panic != "" {
		c.r.Fail(id, "panic", "SchemaFromString panics: "+got.Panic, desc)
	}
	return id, got
}

// valueCases: KMarshal + KReparse on a Schema value, with the round-trip oracle.
func (c *c14Run) valueCases(s avro.Schema, origin string, exact bool) {
	r := c.r
	desc := map[string]any{"kind": "marshal", "origin": origin, "schema": c14Short(coqSchema(s))}
	m := c14Marshal(s)
	implTree := "None"
	var tree *c14J
	stdOK := false
	if m.Panic == "" && m.Err == nil {
		t, err := c14ParseStd(m.B)
		if err == nil && json.Valid(m.B) {
			stdOK = true
			tree = t
			implTree = cApp("Some", t.coq())
		}
		desc["marshal"] = c14Short(string(m.B))
	}
	key := "m/" + coqSchema(s)
	if c.seen[key] {
		key = ""
	}
	c.seen["m/"+coqSchema(s)] = true
	id := r.Add(cApp("KMarshal", coqSchema(s), implTree), desc, key)
	wf := c14Wf(s) && c14ValidUTF8(s)
	switch {
	case m.Panic != "":
		r.Fail(id, "panic", "Marshal panics: "+m.Panic, desc)
	case m.Err != nil && wf:
		r.Fail(id, "roundtrip", "Marshal fails on a well-formed schema: "+m.Err.Error(), desc)
	case m.Err == nil && !stdOK:
		r.Fail(id, "roundtrip", "Marshal output is not valid JSON for encoding/json: "+c14Short(string(m.B)), desc)
	}
	_ = tree
	// reparse
	var back c14Parse
	back.Err = fmt.Errorf("marshal failed")
	if m.Panic == "" && m.Err == nil {
		back = c14Impl(string(m.B))
	}
	rkey := ""
	if key != "" {
		rkey = "r/" + coqSchema(s)
	}
	id2 := r.Add(cApp("KReparse", coqSchema(s), back.coq()), desc, rkey)
	if m.Panic != "" || m.Err != nil {
		return
	}
	switch {
	case back.Panic != "":
		r.Fail(id2, "panic", "SchemaFromString(Marshal(s)) panics: "+back.Panic, desc)
	case !wf:
		r.Count("roundtrip/ill-formed-value")
	case back.Err != nil:
		r.Fail(id2, "roundtrip", "Marshal output is rejected by SchemaFromString: "+back.Err.Error(), desc)
	case c14Canon(back.S) != c14Canon(c14Meaning(s)):
		r.Fail(id2, "roundtrip", "SchemaFromString(Marshal(s)) differs from s on an attribute of the node's type: got "+c14Short(c14Canon(back.S)), desc)
	case (exact || c14Normal(s)) && c14Canon(back.S) != c14Canon(s):
		r.Fail(id2, "roundtrip", "SchemaFromString(Marshal(s)) is not identical to s: got "+c14Short(c14Canon(back.S)), desc)
	default:
		if c14Canon(back.S) == c14Canon(s) {
			r.Count("roundtrip/exact")
		} else {
			r.Count("roundtrip/equivalent")
		}
		// stability: a second round trip is exact
		m2 := c14Marshal(back.S)
		if m2.Err != nil || m2.Panic != "" || !bytes.Equal(m2.B, m.B) {
			r.Fail(id2, "roundtrip", "Marshal(SchemaFromString(Marshal(s))) differs from Marshal(s)", desc)
		}
	}
}

func runC14(r *Run) {
	if r.replay != nil {
		r.Notes = append(r.Notes, "replay mode: re-running the generator with the recorded seed is the replay for C14 (cases are derived from the seed)")
		r.replay = nil
	}
	c14FileSchema(r)
	c := &c14Run{r: r, seen: map[string]bool{}}
	kinds := map[string]int{}

	// (A) valid documents -------------------------------------------------------------
	ndocs := r.N(260, 5000)
	var keep []*c14J // a few documents for the truncation sweep
	for i := 0; i < ndocs; i++ {
		maxDepth := 1 + r.Rng.Intn(5)
		if r.Thorough() && r.Rng.Intn(10) == 0 {
			maxDepth = 6 + r.Rng.Intn(3)
		}
		g := &c14Gen{rng: r.Rng, maxDepth: maxDepth, budget: 40 + r.Rng.Intn(80), tidy: true, kinds: kinds}
		doc, want := g.schema(0)
		text := c14RandRender(doc, r.Rng)
		r.Count(fmt.Sprintf("doc/depth<=%d", maxDepth))
		r.Count(fmt.Sprintf("doc/nodes<=%d", bucket(doc.size())))
		if g.tidy {
			r.Count("doc/tidy")
		} else {
			r.Count("doc/untidy(stray or null attribute)")
		}
		if i < 8 || (len(keep) < 14 && doc.size() > 20 && doc.size() < 120) {
			keep = append(keep, doc)
		}
		id, got := c.parseCase(doc, text, "valid")
		rdesc := map[string]any{"kind": "unmarshal", "text": text}
		if got.Panic != "" {
			continue
		}
		if got.Err != nil {
			r.Fail(id, "structure", "a valid schema document is rejected: "+got.Err.Error(), rdesc)
			continue
		}
		if c14Canon(got.S) != c14Canon(want) {
			r.Fail(id, "structure", "parsed schema differs from the document: got "+c14Short(c14Canon(got.S))+" want "+c14Short(c14Canon(want)), rdesc)
		}
		// our own tree printer agrees with the standard library's reading of the text
		if t, err := c14ParseStd([]byte(text)); err != nil || t.coq() != doc.coq() {
			r.Fail(id, "harness", "the driver's JSON printer and encoding/json disagree on the document", rdesc)
		}

		// layout: other whitespace and escapes
		for v := 0; v < 2; v++ {
			t2 := c14RandRender(doc, r.Rng)
			g2 := c14Impl(t2)
			if g2.Panic != "" {
				r.Fail(id, "panic", "SchemaFromString panics: "+g2.Panic, map[string]any{"kind": "unmarshal", "text": t2})
			} else if g2.Err != nil || !reflect.DeepEqual(g2.S, got.S) {
				r.Fail(id, "key-order", "the same document in another layout (whitespace, escapes) parses differently", map[string]any{"kind": "layout", "text": text, "variant": t2})
			}
		}
		// key order at every depth
		for v := 0; v < 2; v++ {
			sh := c14Shuffle(doc, r.Rng)
			t2 := c14RandRender(sh, r.Rng)
			var g2 c14Parse
			if v == 0 {
				_, g2 = c.parseCase(sh, t2, "shuffled")
			} else {
				g2 = c14Impl(t2)
			}
			if g2.Panic == "" && (g2.Err != nil || !reflect.DeepEqual(g2.S, got.S)) {
				r.Fail(id, "key-order", "the same document with members in another order parses differently", map[string]any{"kind": "key-order", "text": text, "variant": t2})
			}
		}
		// unknown attributes: removed, and more added
		{
			st := c14Strip(doc)
			t2 := c14RandRender(st, r.Rng)
			_, g2 := c.parseCase(st, t2, "stripped")
			if g2.Panic == "" && (g2.Err != nil || !reflect.DeepEqual(g2.S, got.S)) {
				r.Fail(id, "unknown-attr", "removing the unknown attributes changes the parsed schema", map[string]any{"kind": "unknown-attr", "text": text, "variant": t2})
			}
			more := c14AddUnknown(doc, g)
			t3 := c14RandRender(more, r.Rng)
			var g3 c14Parse
			if i%2 == 0 {
				_, g3 = c.parseCase(more, t3, "extended")
			} else {
				g3 = c14Impl(t3)
			}
			if g3.Panic == "" && (g3.Err != nil || !reflect.DeepEqual(g3.S, got.S)) {
				r.Fail(id, "unknown-attr", "adding unknown attributes changes the parsed schema", map[string]any{"kind": "unknown-attr", "text": text, "variant": t3})
			}
		}
		// round trip of the parsed value
		c.valueCases(got.S, "parsed", g.tidy)
	}
	for k, v := range kinds {
		r.Dist["node/"+k] += v
	}

	// (B) Schema values that did not come from parsing ----------------------------------
	for i, n := 0, r.N(150, 3000); i < n; i++ {
		wild := i%3 == 2
		g := &c14Gen{rng: r.Rng, maxDepth: 1 + r.Rng.Intn(4), kinds: map[string]int{}}
		s := g.value(0, wild)
		gs := s // Go value passed to Marshal keeps SchemaObject.Type when set
		m1 := c14Marshal(gs)
		c14ClearObjType(&s)
		m2 := c14Marshal(s)
		if string(m1.B) != string(m2.B) || (m1.Err == nil) != (m2.Err == nil) {
			r.Fail(-1, "roundtrip", "SchemaObject.Type influences Marshal", map[string]any{"kind": "marshal", "schema": coqSchema(s)})
		}
		if wild {
			r.Count("value/wild")
		} else {
			r.Count("value/plain")
		}
		c.valueCases(s, "constructed", false)
	}

	// (C) schemas produced by schema generation -------------------------------------------
	for _, e := range pool {
		s, err := func() (s avro.Schema, err error) {
			defer func() {
				if p := recover(); p != nil {
					err = fmt.Errorf("panic: %v", p)
				}
			}()
			return avro.SchemaForType(reflect.New(reflect.TypeOf(e.Zero)).Interface())
		}()
		if err != nil {
			r.Count("pool/schema-error")
			continue
		}
		r.Count("pool/ok")
		if !c14Normal(s) {
			r.Fail(-1, "roundtrip", "SchemaForType("+e.Name+") is not in normal form: "+c14Short(coqSchema(s)), map[string]any{"kind": "pool", "type": e.Name})
		}
		c.valueCases(s, "SchemaForType/"+e.Name, true)
	}

	// (D) malformed, tree level: valid JSON text, wrong for a schema ------------------------
	c.malformedTrees()

	// (E) malformed, text level -----------------------------------------------------------------
	c.malformedText(keep)
	if c14Clobbered != "" {
		r.Fail(-1, "marshal-result-clobbered", c14Clobbered, map[string]any{"kind": "marshal-twice"})
	}
}

// c14Skeleton returns a small valid document in which the value of one attribute can be
// replaced: path is one of the names below.
func c14Skeleton(attr string, v *c14J) *c14J {
	str := c14Str
	switch attr {
	case "top":
		return v
	case "type", "logicalType", "name", "namespace":
		mem := []c14M{}
		if attr != "type" {
			mem = append(mem, c14M{"type", str("int")})
		}
		return c14Obj(append(mem, c14M{attr, v})...)
	case "fields":
		return c14Obj(c14M{"type", str("record")}, c14M{"name", str("r")}, c14M{"fields", v})
	case "field":
		return c14Obj(c14M{"type", str("record")}, c14M{"name", str("r")}, c14M{"fields", c14Arr(c14Obj(c14M{"name", str("a")}, c14M{"type", str("int")}), v)})
	case "field.name":
		return c14Obj(c14M{"type", str("record")}, c14M{"name", str("r")}, c14M{"fields", c14Arr(c14Obj(c14M{"name", v}, c14M{"type", str("int")}))})
	case "field.type":
		return c14Obj(c14M{"type", str("record")}, c14M{"name", str("r")}, c14M{"fields", c14Arr(c14Obj(c14M{"name", str("a")}, c14M{"type", v}))})
	case "items":
		return c14Obj(c14M{"type", str("array")}, c14M{"items", v})
	case "values":
		return c14Obj(c14M{"type", str("map")}, c14M{"values", v})
	case "size":
		return c14Obj(c14M{"type", str("fixed")}, c14M{"name", str("f")}, c14M{"size", v})
	case "symbols":
		return c14Obj(c14M{"type", str("enum")}, c14M{"name", str("e")}, c14M{"symbols", v})
	case "symbol":
		return c14Obj(c14M{"type", str("enum")}, c14M{"name", str("e")}, c14M{"symbols", c14Arr(str("A"), v)})
	case "branch":
		return c14Arr(str("null"), v)
	}
	panic("c14Skeleton: " + attr)
}

// c14Embed puts a document at a random schema position of a valid wrapper.
func c14Embed(rng *rand.Rand, d *c14J) *c14J {
	for n := rng.Intn(4); n > 0; n-- {
		d = c14Skeleton([]string{"items", "values", "field.type", "branch"}[rng.Intn(4)], d)
	}
	return d
}

func (c *c14Run) malformedTrees() {
	r := c.r
	num, str, arr, obj := c14Num, c14Str, c14Arr, c14Obj
	type mal struct {
		attr  string
		v     *c14J
		class string
	}
	var ms []mal
	wrong := func(attr string, class string, vs ...*c14J) {
		for _, v := range vs {
			ms = append(ms, mal{attr, v, class})
		}
	}
	anObj := func() *c14J { return obj(c14M{"type", str("int")}) }
	// wrong kinds, one attribute at a time
	wrong("top", "wrong-kind", num("12"), c14Bool(true), c14Bool(false), c14Null(), num("1.5"))
	for _, a := range []string{"type", "logicalType", "name", "namespace", "field.name", "symbol"} {
		wrong(a, "wrong-kind", num("5"), c14Bool(true), arr(str("x")), anObj(), arr())
	}
	wrong("fields", "wrong-kind", str("x"), num("1"), c14Bool(false), anObj(), obj())
	wrong("field", "wrong-kind", str("x"), num("1"), c14Bool(true), arr(str("x")), arr())
	wrong("field.type", "wrong-kind", num("1"), c14Bool(true), c14Null())
	wrong("items", "wrong-kind", num("0"), c14Bool(false), c14Null(), num("1e2"))
	wrong("values", "wrong-kind", num("0"), c14Bool(true), c14Null())
	wrong("branch", "wrong-kind", num("3"), c14Bool(true), c14Null())
	wrong("symbols", "wrong-kind", str("A"), num("1"), anObj(), c14Bool(true), arr(num("1")), arr(arr(str("a"))), arr(anObj()))
	wrong("size", "wrong-kind", str("4"), c14Bool(true), arr(num("4")), obj(), str(""))
	wrong("size", "bad-integer", num("1.5"), num("1e3"), num("1.0"), num("4.0"), num("1E0"), num("-1.5"), num("0.0"), num("0e0"),
		num("99999999999999999999"), num("9223372036854775808"), num("-9223372036854775809"), num("18446744073709551616"),
		num("-99999999999999999999999999"))
	for _, m := range ms {
		d := c14Embed(r.Rng, c14Skeleton(m.attr, m.v))
		text := c14RandRender(d, r.Rng)
		id, got := c.parseCase(d, text, m.class)
		r.Count("malformed-tree/" + m.class + "/" + m.attr)
		if got.ok() {
			r.Fail(id, "malformed-accepted", fmt.Sprintf("%s: %s with a value of the wrong kind is accepted", m.class, m.attr), map[string]any{"kind": "unmarshal", "text": text})
		}
	}
	// integer boundary and null: accepted by the library's rules; correspondence only
	for _, m := range []mal{
		{"size", num("9223372036854775807"), ""}, {"size", num("-9223372036854775808"), ""}, {"size", num("-0"), ""}, {"size", num("0"), ""},
		{"size", c14Null(), ""}, {"type", c14Null(), ""}, {"logicalType", c14Null(), ""}, {"name", c14Null(), ""}, {"namespace", c14Null(), ""},
		{"fields", c14Null(), ""}, {"field", c14Null(), ""}, {"field.name", c14Null(), ""}, {"symbols", c14Null(), ""}, {"symbol", c14Null(), ""},
		{"fields", arr(), ""}, {"symbols", arr(), ""}, {"top", arr(), ""}, {"top", obj(), ""}, {"field", obj(), ""}, {"top", str(""), ""},
	} {
		d := c14Embed(r.Rng, c14Skeleton(m.attr, m.v))
		text := c14RandRender(d, r.Rng)
		_, got := c.parseCase(d, text, "lenient")
		r.Count(fmt.Sprintf("lenient/%s=%s/accepted=%v", m.attr, c14Short(m.v.coq()), got.ok()))
		if got.ok() {
			c.valueCases(got.S, "parsed-lenient", false)
		}
	}
	// duplicate member names
	dup := func(class string, d *c14J) {
		d = c14Embed(r.Rng, d)
		text := c14Render(d, r.Rng, r.Rng.Intn(3), 0)
		id, got := c.parseCase(d, text, class)
		r.Count("malformed-tree/" + class)
		if got.ok() {
			r.Fail(id, "malformed-accepted", class+": a document with a duplicate member name is accepted", map[string]any{"kind": "unmarshal", "text": text})
		}
	}
	full := func() []c14M {
		return []c14M{{"type", str("record")}, {"logicalType", str("l")}, {"name", str("r")}, {"namespace", str("ns")},
			{"fields", arr(obj(c14M{"name", str("a")}, c14M{"type", str("int")}))}, {"items", str("int")}, {"values", str("long")},
			{"size", num("3")}, {"symbols", arr(str("A"))}, {"doc", str("d")}}
	}
	for i := range full() {
		for _, same := range []bool{true, false} {
			mem := full()
			m := mem[i]
			if !same {
				m = c14M{m.K, c14Null()}
				if m.K == "items" || m.K == "values" {
					m.V = str("string")
				}
			}
			pos := r.Rng.Intn(len(mem) + 1)
			mem = append(mem[:pos:pos], append([]c14M{m}, mem[pos:]...)...)
			dup("duplicate/"+m.K, obj(mem...))
		}
	}
	dup("duplicate/field.name", c14Skeleton("field", obj(c14M{"name", str("b")}, c14M{"type", str("int")}, c14M{"name", str("b")})))
	dup("duplicate/field.type", c14Skeleton("field", obj(c14M{"type", str("int")}, c14M{"name", str("b")}, c14M{"type", str("int")})))
	dup("duplicate/field.unknown", c14Skeleton("field", obj(c14M{"name", str("b")}, c14M{"doc", num("1")}, c14M{"type", str("int")}, c14M{"doc", num("2")})))
	dup("duplicate/nested-in-unknown", obj(c14M{"type", str("int")}, c14M{"default", obj(c14M{"a", num("1")}, c14M{"b", num("2")}, c14M{"a", num("1")})}))
	dup("duplicate/nested-in-unknown", obj(c14M{"type", str("int")}, c14M{"default", arr(num("1"), arr(obj(c14M{"", num("1")}, c14M{"", num("2")})))}))
	dup("duplicate/nested-in-field-unknown", c14Skeleton("field", obj(c14M{"name", str("b")}, c14M{"type", str("int")}, c14M{"default", obj(c14M{"k", c14Null()}, c14M{"k", c14Null()})})))
	dup("duplicate/unicode-name", obj(c14M{"type", str("int")}, c14M{"é", num("1")}, c14M{"é", num("2")}))
	// the same name written once plainly and once with escapes
	{
		d := obj(c14M{"type", str("int")}, c14M{"type", str("long")})
		text := `{"type":"int","type":"long"}`
		id, got := c.parseCase(d, text, "duplicate/escaped-name")
		r.Count("malformed-tree/duplicate/escaped-name")
		if got.ok() {
			r.Fail(id, "malformed-accepted", "a duplicate member name written with an escape is accepted", map[string]any{"kind": "unmarshal", "text": text})
		}
	}
	// near misses are NOT duplicates and not known names
	for _, d := range []*c14J{
		obj(c14M{"type", str("int")}, c14M{"Type", str("long")}, c14M{"TYPE", num("1")}),
		obj(c14M{"Type", str("record")}),
		obj(c14M{"type", str("fixed")}, c14M{"Size", num("4")}, c14M{"size", num("5")}, c14M{"SIZE", str("x")}),
		c14Skeleton("field", obj(c14M{"Name", str("x")}, c14M{"name", str("y")}, c14M{"type", str("int")}, c14M{"TYPE", c14Null()})),
	} {
		text := c14RandRender(d, r.Rng)
		c.parseCase(d, text, "near-miss-names")
		r.Count("lenient/near-miss-names")
	}
}

func (c *c14Run) malformedText(keep []*c14J) {
	r := c.r
	expectErr := func(class, text string) {
		got := c14Impl(text)
		r.Count("malformed-text/" + class)
		desc := map[string]any{"kind": "text", "class": class, "text": c14Short(text), "hex": c14Short(hexs([]byte(text)))}
		if got.Panic != "" {
			r.Fail(-1, "panic", "SchemaFromString panics on malformed text ("+class+"): "+got.Panic, desc)
		} else if got.Err == nil {
			r.Fail(-1, "malformed-accepted", "malformed text is accepted ("+class+"): "+c14Short(fmt.Sprintf("%q", text)), desc)
		}
	}
	// truncation at every offset
	ntr := 0
	for i, d := range keep {
		if !r.Thorough() && i >= 10 {
			break
		}
		text := c14Render(d, r.Rng, i%3, 0)
		if len(text) > 3000 && !r.Thorough() {
			continue
		}
		body := strings.TrimRight(text, " \t\r\n")
		for cut := 0; cut < len(body); cut++ {
			expectErr("truncated", text[:cut])
			ntr++
		}
	}
	r.Extra["truncations"] = ntr
	valid := `{"type":"record","name":"r","fields":[{"name":"a","type":["null",{"type":"array","items":"int"}]}]}`
	if got := c14Impl(valid); !got.ok() {
		r.Fail(-1, "structure", "reference document rejected", map[string]any{"text": valid})
	}
	for _, g := range []string{"x", "{}", `"int"`, "]", "}", ",", "0", "null", "\x00", "//c", `{"type":"int"}`, "\xef\xbb\xbf"} {
		expectErr("trailing-garbage", valid+g)
		expectErr("trailing-garbage", valid+" \n"+g)
	}
	bad := map[string][]string{
		"empty":               {"", " ", "\n\t ", "\xef\xbb\xbf" + valid, "\xef\xbb\xbf"},
		"invalid-utf8":        {"\"a\xffb\"", "{\"type\":\"in\xfft\"}", "{\"type\":\"int\",\"do\xffc\":1}", "{\"type\":\"int\",\"doc\":\"\xc0\x80\"}", "\"\xed\xa0\x80\"", "\"\xf4\x90\x80\x80\"", "\"\xe2\x82\"", "[\"null\",\"\x80\"]", "{\"type\":\"enum\",\"symbols\":[\"\xfe\"]}"},
		"bad-escape":          {`"\x41"`, `"\u12"`, `"\u12G4"`, `"\ud800"`, `"\udc00\ud800"`, `"\ud800A"`, `{"type":"\ud800"}`, `{"type":"int","doc":"\q"}`, `"\U00000041"`, `"\`, `{"ty\pe":"int"}`},
		"control-char":        {"\"a\nb\"", "\"a\tb\"", "{\"type\":\"i\x00nt\"}", "\"\x1f\""},
		"bad-number":          {`{"type":"fixed","size":01}`, `{"type":"fixed","size":+1}`, `{"type":"fixed","size":.5}`, `{"type":"fixed","size":1.}`, `{"type":"fixed","size":1e}`, `{"type":"fixed","size":0x10}`, `{"type":"fixed","size":NaN}`, `{"type":"fixed","size":Infinity}`, `{"type":"fixed","size":-}`, `{"type":"int","doc":01}`, `{"type":"int","doc":1.e3}`, `{"type":"fixed","size":1_000}`, `{"type":"fixed","size":--1}`},
		"bad-literal":         {`{"type":"int","doc":nul}`, `{"type":"int","doc":True}`, `{"type":"int","doc":NULL}`, `{"type":"int","doc":undefined}`, `nul`, `tru`, `{"type":int}`},
		"bad-punctuation":     {`{"type":"int",}`, `{"type" "int"}`, `{"type":"int" "name":"x"}`, `{type:"int"}`, `{'type':'int'}`, `["null","int",]`, `["null" "int"]`, `[,"int"]`, `{"type":"int"};`, `{"type"::"int"}`, `{,}`, `[}`, `{]`, `{"type":"int"]`, `["int"}`, `{"type":}`, `{:"int"}`, `{"type":"int",,"name":"x"}`, `/* c */ "int"`, `// c` + "\n" + `"int"`, `{"type":"int" /*c*/}`, `{"a":1 "type":"int"}`},
		"unterminated":        {`"int`, `{"type":"int"`, `["null"`, `{"type":"record","fields":[{"name":"a"`, `{"type":"int","doc":"abc`, `{"type":"int","doc":{"a":[1,2`, `{`, `[`, `"`},
		"not-json-whitespace": {"\v\"int\"", "\f\"int\"", "{\"type\":\u3000\"int\"}", "\u00a0\"int\"", "{\"type\":\"int\"\u2028}"},
	}
	for class, docs := range bad {
		for _, d := range docs {
			expectErr(class, d)
			// also nested inside a valid wrapper where that keeps the defect
			if class != "empty" && class != "not-json-whitespace" && class != "unterminated" {
				expectErr(class+"/nested", `{"type":"array","items":`+d+`}`)
				expectErr(class+"/in-unknown", `{"type":"int","default":[`+d+`]}`)
			}
		}
	}
	// deep nesting: an error deep inside a nested document (here: beyond the JSON
	// library's depth limit, or simply unterminated) must come back as an error,
	// quickly and with memory proportional to the input, never as a crash.
	depths := []int{3000, 10001}
	if r.Thorough() {
		depths = append(depths, 100000, 1000000)
	}
	for _, n := range depths {
		for _, open := range []string{"[", `{"type":"array","items":`, `{"type":"record","fields":[{"name":"a","type":`, `{"type":"int","default":[`} {
			doc := strings.Repeat(open, n)
			if open == "[" && n%2 == 1 {
				doc += strings.Repeat("]", n)
			}
			var res struct {
				Err   bool   `json:"err"`
				Alloc uint64 `json:"alloc"`
				Ms    int64  `json:"ms"`
			}
			outcome, msg := isolated("c14parse", doc, &res, 120*time.Second)
			r.Count("malformed-text/deep-nesting/" + outcome)
			desc := map[string]any{"kind": "deep", "open": open, "depth": n, "bytes": len(doc)}
			limit := uint64(64*len(doc) + 1<<20)
			switch {
			case outcome != "ok":
				r.Fail(-1, "deep-nesting-oom", fmt.Sprintf("SchemaFromString on %d nested %q (%d bytes): %s %s", n, open, len(doc), outcome, msg), desc)
			case !res.Err:
				r.Fail(-1, "malformed-accepted", fmt.Sprintf("%d nested %q accepted", n, open), desc)
			case res.Alloc > limit || res.Ms >= 2000:
				r.Fail(-1, "deep-nesting-oom", fmt.Sprintf("SchemaFromString on %d nested %q (%d bytes) allocates %d bytes in %d ms before failing (limit %d bytes, 2000 ms)", n, open, len(doc), res.Alloc, res.Ms, limit), desc)
			}
		}
	}
	// nesting below the limit is fine and round-trips
	for _, n := range []int{100, 2000, 9000} {
		doc := strings.Repeat(`{"type":"array","items":`, n) + `"int"` + strings.Repeat("}", n)
		got := c14Impl(doc)
		r.Count("deep-valid")
		if !got.ok() {
			r.Fail(-1, "structure", fmt.Sprintf("valid document of depth %d rejected", n), map[string]any{"kind": "deep-valid", "depth": n})
			continue
		}
		m := c14Marshal(got.S)
		if m.Err != nil || m.Panic != "" || string(m.B) != doc {
			r.Fail(-1, "roundtrip", fmt.Sprintf("document of depth %d does not round-trip", n), map[string]any{"kind": "deep-valid", "depth": n})
		}
	}
}
