package main

// C10 — delivered values stay intact until their resource bank is closed.
//
// (A) random histories of bank operations on the real ResourceBank / ReadBuf /
//     resourceBankPool, with the runtime's choices (which bank sync.Pool returned, the
//     capacity append chose) observed and handed to the Coq model as oracle inputs.
//     Direct oracle: returned memory is zeroed, live allocations never overlap, the
//     content of every live allocation is what was last stored through it.
// (B) multi-block container files of every codec read with avro.ReadFile; the callback
//     retains every record and its bank, closes banks at random later times, and
//     re-checks every retained record against a deep snapshot taken at delivery.

import (
	"bytes"
	"errors"
	"fmt"
	"math/rand"
	"reflect"
	"runtime"
	"sort"
	"strings"
	"sync"
	"time"
	"unsafe"

	"github.com/philpearl/avro"
)

func init() { register("C10", "Avro.Corr.Bank", runC10) }

// ---- element types used for Alloc -------------------------------------------------------

type c10T1 [3]byte
type c10T3 struct {
	P *byte
	A [8]byte
	Q *byte
}
type c10T4 struct {
	X [5]uint64
	P *byte
}

type c10Type struct {
	rt      reflect.Type
	ptrOffs []int // byte offsets of pointer words
}

var c10Types = []c10Type{
	{reflect.TypeOf(uint8(0)), nil},
	{reflect.TypeOf(c10T1{}), nil},
	{reflect.TypeOf(int64(0)), nil},
	{reflect.TypeOf(c10T3{}), []int{0, 16}},
	{reflect.TypeOf(c10T4{}), []int{40}},
}

var c10Sent [4]byte // pointer words hold nil or &c10Sent[k]; logical value k+1

func (t c10Type) isPtrOff(o int) bool {
	for _, p := range t.ptrOffs {
		if o >= p && o < p+8 {
			return true
		}
	}
	return false
}

// logical content: raw bytes, pointer words canonicalised to [k+1,0,0,0,0,0,0,0].
func c10Read(t *c10Type, p unsafe.Pointer, size int) []byte {
	out := make([]byte, size)
	copy(out, unsafe.Slice((*byte)(p), size))
	if t != nil {
		for _, o := range t.ptrOffs {
			q := *(*unsafe.Pointer)(unsafe.Add(p, o))
			w := [8]byte{}
			if q != nil {
				w = [8]byte{255, 255, 255, 255, 255, 255, 255, 255}
				for k := range c10Sent {
					if q == unsafe.Pointer(&c10Sent[k]) {
						w = [8]byte{byte(k + 1)}
					}
				}
			}
			copy(out[o:], w[:])
		}
	}
	return out
}

// c10Write stores logical bytes vs at offset off; pointer words are written as pointers.
func c10Write(t *c10Type, p unsafe.Pointer, off int, vs []byte) {
	for i := 0; i < len(vs); {
		o := off + i
		if t.isPtrOff(o) { // only whole, aligned pointer words are generated
			var q unsafe.Pointer
			if vs[i] != 0 {
				q = unsafe.Pointer(&c10Sent[int(vs[i])-1])
			}
			*(*unsafe.Pointer)(unsafe.Add(p, o)) = q
			i += 8
			continue
		}
		*(*byte)(unsafe.Add(p, o)) = vs[i]
		i++
	}
}

func c10Pattern(rng *rand.Rand, t *c10Type, size int) []byte {
	vs := make([]byte, size)
	for i := range vs {
		vs[i] = byte(1 + rng.Intn(255))
	}
	for _, o := range t.ptrOffs {
		w := [8]byte{byte(rng.Intn(5))}
		if rng.Intn(4) != 0 && w[0] == 0 {
			w[0] = 1
		}
		copy(vs[o:], w[:])
	}
	return vs
}

// ---- looking inside a bank (unexported fields, read only) ------------------------------------

type c10Arena struct {
	ptyp, array    uintptr
	cap, len, size int
}

// The layout of the bank is discovered, not assumed: which field of ResourceBank holds the
// per-type arrays and which the string store is decided by the fields' types, and which field
// of an array's descriptor is the type, the memory, the capacity, the length in use and the
// element size is decided by what they hold after two allocations of a 40-byte probe type from
// a fresh bank.  Renaming or reordering unexported fields, or adding new ones, therefore does
// not disturb the correspondence; the field names of the pinned tree are only the fallback.
type c10LayoutT struct {
	ok                             bool
	why                            string
	arenas, sdata                  int // field indices in ResourceBank
	ptyp, array, capI, lenI, sizeI int // field indices in the element of the arenas slice
	rb                             int // field index of the bank pointer in ReadBuf
}

var (
	c10LayoutOnce sync.Once
	c10Layout     c10LayoutT
)

type c10Probe struct{ a, b, c, d, e uint64 }

func c10FieldInt(v reflect.Value) (int64, bool) {
	switch v.Kind() {
	case reflect.Int, reflect.Int64, reflect.Int32, reflect.Int16:
		return v.Int(), true
	case reflect.Uint, reflect.Uint64, reflect.Uint32, reflect.Uint16, reflect.Uintptr:
		return int64(v.Uint()), true
	}
	return 0, false
}

func c10FieldPtr(v reflect.Value) (uintptr, bool) {
	switch v.Kind() {
	case reflect.UnsafePointer, reflect.Pointer:
		return v.Pointer(), true
	}
	return 0, false
}

func c10Discover() (l c10LayoutT) {
	defer func() {
		if p := recover(); p != nil {
			l.ok, l.why = false, fmt.Sprint(p)
		}
	}()
	l.arenas, l.sdata, l.rb = -1, -1, -1
	l.ptyp, l.array, l.capI, l.lenI, l.sizeI = -1, -1, -1, -1, -1
	bt := reflect.TypeOf(avro.ResourceBank{})
	for i := 0; i < bt.NumField(); i++ {
		ft := bt.Field(i).Type
		if ft.Kind() == reflect.Slice && ft.Elem().Kind() == reflect.Struct {
			if l.arenas >= 0 && bt.Field(i).Name != "types" {
				continue
			}
			l.arenas = i
		}
		if ft.Kind() == reflect.Slice && ft.Elem().Kind() == reflect.Uint8 {
			if l.sdata >= 0 && bt.Field(i).Name != "sData" {
				continue
			}
			l.sdata = i
		}
	}
	rt := reflect.TypeOf(avro.ReadBuf{})
	for i := 0; i < rt.NumField(); i++ {
		if rt.Field(i).Type == reflect.TypeOf(&avro.ResourceBank{}) {
			l.rb = i
		}
	}
	switch {
	case l.arenas < 0:
		l.why = "ResourceBank has no field that is a slice of per-type array descriptors"
		return
	case l.sdata < 0:
		l.why = "ResourceBank has no []byte field for string data"
		return
	case l.rb < 0:
		l.why = "ReadBuf has no *ResourceBank field"
		return
	}
	// two allocations of a 40-byte type from a fresh bank
	bank := &avro.ResourceBank{}
	pt := reflect.TypeOf(c10Probe{})
	first := uintptr(bank.Alloc(pt))
	second := uintptr(bank.Alloc(pt))
	av := reflect.ValueOf(bank).Elem().Field(l.arenas)
	if av.Len() != 1 || second-first != 40 {
		l.why = fmt.Sprintf("after two allocations of one type a fresh bank describes %d arrays, the objects are %d bytes apart", av.Len(), second-first)
		return
	}
	e := av.Index(0)
	for i := 0; i < e.NumField(); i++ {
		f := e.Field(i)
		if pv, ok := c10FieldPtr(f); ok {
			switch pv {
			case rtypePtr(pt):
				l.ptyp = i
			case first:
				l.array = i
			}
			continue
		}
		if iv, ok := c10FieldInt(f); ok {
			switch {
			case iv == 2 && l.lenI < 0:
				l.lenI = i
			case iv == 40 && l.sizeI < 0:
				l.sizeI = i
			case iv > 2 && iv != 40 && l.capI < 0:
				l.capI = i
			}
		}
	}
	if l.ptyp < 0 || l.array < 0 || l.capI < 0 || l.lenI < 0 || l.sizeI < 0 {
		// fall back to the names of the pinned tree
		et := e.Type()
		idx := func(n string) int {
			if f, ok := et.FieldByName(n); ok {
				return f.Index[0]
			}
			return -1
		}
		l.ptyp, l.array, l.capI, l.lenI, l.sizeI = idx("ptyp"), idx("array"), idx("cap"), idx("len"), idx("size")
		if l.ptyp < 0 || l.array < 0 || l.capI < 0 || l.lenI < 0 || l.sizeI < 0 {
			l.why = "the descriptor of a per-type array does not show type, memory, capacity, length in use and element size"
			return
		}
	}
	l.ok = true
	return
}

func c10GetLayout() *c10LayoutT {
	c10LayoutOnce.Do(func() { c10Layout = c10Discover() })
	return &c10Layout
}

func c10Arenas(rb *avro.ResourceBank) []c10Arena {
	l := c10GetLayout()
	v := reflect.ValueOf(rb).Elem().Field(l.arenas)
	out := make([]c10Arena, v.Len())
	for i := range out {
		e := v.Index(i)
		pt, _ := c10FieldPtr(e.Field(l.ptyp))
		ar, _ := c10FieldPtr(e.Field(l.array))
		cp, _ := c10FieldInt(e.Field(l.capI))
		ln, _ := c10FieldInt(e.Field(l.lenI))
		sz, _ := c10FieldInt(e.Field(l.sizeI))
		out[i] = c10Arena{pt, ar, int(cp), int(ln), int(sz)}
	}
	return out
}

func c10SData(rb *avro.ResourceBank) (base uintptr, l, c int) {
	v := reflect.ValueOf(rb).Elem().Field(c10GetLayout().sdata)
	return v.Pointer(), v.Len(), v.Cap()
}

func c10BankOf(b *avro.ReadBuf) *avro.ResourceBank {
	return (*avro.ResourceBank)(reflect.ValueOf(b).Elem().Field(c10GetLayout().rb).UnsafePointer())
}

func rtypePtr(t reflect.Type) uintptr {
	return uintptr((*[2]unsafe.Pointer)(unsafe.Pointer(&t))[1])
}

// c10Drain empties resourceBankPool (banks closed by earlier cases): sync.Pool drops its
// items after two garbage collections (primary -> victim -> gone).
func c10Drain() {
	runtime.GC()
	runtime.GC()
}

// a bank straight from Pool.New / &ResourceBank{} has no arenas and no string store
func c10IsNew(rb *avro.ResourceBank) bool {
	base, _, c := c10SData(rb)
	return len(c10Arenas(rb)) == 0 && base == 0 && c == 0
}

func c10Sum(h uint64, content []byte) uint64 {
	const p = 2147483647
	for _, c := range content {
		h = (h*257 + uint64(c) + 1) % p
	}
	return h * 257 % p
}

// ---- (A) bank histories --------------------------------------------------------------------

type c10Live struct {
	bank, arr, off, size int
	ptr                  unsafe.Pointer
	ty                   *c10Type // nil for strings
	str                  string   // the returned string (strings only)
	expect               []byte   // logical content
}

type c10Bank struct {
	rb     *avro.ResourceBank
	state  int // 0 held directly, 1 held by a ReadBuf, 2 closed (pooled)
	holder int
}

type c10Hist struct {
	r       *Run
	rng     *rand.Rand
	banks   []*c10Bank
	bankID  map[*avro.ResourceBank]int
	holders []*avro.ReadBuf
	hbank   []int
	live    []*c10Live
	labels  map[uintptr]int
	steps   []string
	desc    []string
	failed  bool
	id      int
	keep    []unsafe.Pointer
}

func (h *c10Hist) label(base uintptr) int {
	if l, ok := h.labels[base]; ok {
		return l
	}
	l := len(h.labels)
	h.labels[base] = l
	h.keep = append(h.keep, unsafe.Pointer(base)) // keeps a dropped array alive: its address is not reused within the case
	return l
}

// observeBank registers the bank the pool (or Pool.New) produced and returns the oracle choice.
func (h *c10Hist) observeBank(rb *avro.ResourceBank) (choice string, id int, ok bool) {
	if id, known := h.bankID[rb]; known {
		if h.banks[id].state != 2 {
			h.fail("overlap", fmt.Sprintf("the pool handed out bank %d which is still held", id))
			return "", 0, false
		}
		return cApp("Some", cZ(int64(id))), id, true
	}
	if !c10IsNew(rb) {
		h.r.Count("A/foreign-bank")
		return "", 0, false
	}
	id = len(h.banks)
	h.bankID[rb] = id
	h.banks = append(h.banks, &c10Bank{rb: rb})
	return "None", id, true
}

func (h *c10Hist) fail(key, what string) {
	if !h.failed {
		h.failed = true
		h.r.Fail(h.id, key, what, map[string]any{"kind": "bank-history", "ops": append([]string{}, h.desc...)})
	}
}

func (h *c10Hist) actual(l *c10Live) []byte { return c10Read(l.ty, l.ptr, l.size) }

// verify is the direct oracle after every step.
func (h *c10Hist) verify(step string) uint64 {
	var sum uint64
	type rg struct {
		lo, hi uintptr
		i      int
	}
	var rs []rg
	for i := len(h.live) - 1; i >= 0; i-- {
		l := h.live[i]
		got := h.actual(l)
		sum = c10Sum(sum, got)
		if !bytes.Equal(got, l.expect) {
			h.fail("mutated-before-close", fmt.Sprintf("after %s: live allocation #%d of bank %d (array %d offset %d size %d) changed from %x to %x",
				step, i, l.bank, l.arr, l.off, l.size, l.expect, got))
		}
		if l.ty == nil && l.str != string(l.expect) {
			h.fail("mutated-before-close", fmt.Sprintf("after %s: live string of bank %d reads %q, was %q", step, l.bank, l.str, l.expect))
		}
		if l.size > 0 {
			rs = append(rs, rg{uintptr(l.ptr), uintptr(l.ptr) + uintptr(l.size), i})
		}
	}
	sort.Slice(rs, func(a, b int) bool { return rs[a].lo < rs[b].lo })
	for i := 1; i < len(rs); i++ {
		if rs[i].lo < rs[i-1].hi {
			a, b := h.live[rs[i-1].i], h.live[rs[i].i]
			h.fail("overlap", fmt.Sprintf("after %s: live allocations overlap: bank %d array %d [%d,+%d) and bank %d array %d [%d,+%d)",
				step, a.bank, a.arr, a.off, a.size, b.bank, b.arr, b.off, b.size))
			break
		}
	}
	return sum
}

func (h *c10Hist) push(cop, obs, desc string) {
	h.desc = append(h.desc, desc)
	sum := h.verify(desc)
	h.steps = append(h.steps, fmt.Sprintf("(%s, %s, %d)", cop, obs, sum))
}

func (h *c10Hist) usable() (refs []int) { // bank ids that may be used
	for i, b := range h.banks {
		if b.state != 2 {
			refs = append(refs, i)
		}
	}
	return
}

func (h *c10Hist) cref(b int) string {
	if h.banks[b].state == 1 {
		return cApp("CVia", cZ(int64(h.banks[b].holder)))
	}
	return cApp("CDirect", cZ(int64(b)))
}

func (h *c10Hist) opGet() bool {
	switch k := h.rng.Intn(10); {
	case k < 2: // a bank that never saw the pool
		rb := &avro.ResourceBank{}
		ch, id, ok := h.observeBank(rb)
		if !ok {
			return false
		}
		h.push(cApp("CGet", ch), cApp("OBank", cZ(int64(id))), fmt.Sprintf("bank %d := &ResourceBank{}", id))
		h.r.Count("A/op/fresh")
	case k < 6 || len(h.holders) == 0:
		b := avro.NewReadBuf(nil)
		ch, id, ok := h.observeBank(c10BankOf(b))
		if !ok {
			return false
		}
		hid := len(h.holders)
		h.holders = append(h.holders, b)
		h.hbank = append(h.hbank, id)
		h.banks[id].state, h.banks[id].holder = 1, hid
		h.push(cApp("CNewBuf", ch), cApp("OBank", cZ(int64(id))), fmt.Sprintf("readbuf %d := NewReadBuf (pool gave %s => bank %d)", hid, ch, id))
		h.r.Count("A/op/newbuf/" + ch[:4])
	default:
		hid := h.rng.Intn(len(h.holders))
		old := h.hbank[hid]
		got := h.holders[hid].ExtractResourceBank()
		if got != h.banks[old].rb {
			h.fail("aliasing-model", "ExtractResourceBank returned a bank other than the ReadBuf's current one")
			return false
		}
		h.banks[old].state = 0
		ch, id, ok := h.observeBank(c10BankOf(h.holders[hid]))
		if !ok {
			return false
		}
		h.hbank[hid] = id
		h.banks[id].state, h.banks[id].holder = 1, hid
		h.push(cApp("CExtract", cZ(int64(hid)), ch), cApp("OBank", cZ(int64(id))),
			fmt.Sprintf("bank %d := readbuf %d.ExtractResourceBank() (pool gave %s => bank %d)", old, hid, ch, id))
		h.r.Count("A/op/extract/" + ch[:4])
	}
	return true
}

func (h *c10Hist) opAlloc(b, ti int) {
	if ti < 0 {
		ti = h.rng.Intn(len(c10Types))
	}
	t := &c10Types[ti]
	bk := h.banks[b]
	var p unsafe.Pointer
	if bk.state == 1 {
		p = h.holders[bk.holder].Alloc(t.rt)
	} else {
		p = bk.rb.Alloc(t.rt)
	}
	size := int(t.rt.Size())
	var ar *c10Arena
	for _, a := range c10Arenas(bk.rb) {
		if a.ptyp == rtypePtr(t.rt) {
			a := a
			ar = &a
		}
	}
	desc := fmt.Sprintf("bank %d Alloc(type %d, %d bytes)", b, ti, size)
	if ar == nil || uintptr(p) < ar.array || uintptr(p)+uintptr(size) > ar.array+uintptr(ar.cap*ar.size) {
		h.desc = append(h.desc, desc)
		h.fail("aliasing-model", "Alloc returned memory outside the arena of its type")
		return
	}
	off := int(uintptr(p) - ar.array)
	raw := unsafe.Slice((*byte)(p), size)
	zero := true
	for _, c := range raw {
		if c != 0 {
			zero = false
		}
	}
	l := &c10Live{bank: b, arr: h.label(ar.array), off: off, size: size, ptr: p, ty: t}
	l.expect = h.actual(l)
	if !zero {
		h.desc = append(h.desc, desc)
		h.fail("not-zeroed", fmt.Sprintf("bank %d Alloc(type %d) returned non-zero memory %x (array %d offset %d)", b, ti, raw, l.arr, off))
		h.desc = h.desc[:len(h.desc)-1]
	}
	cref := h.cref(b)
	h.live = append(h.live, l)
	h.push(cApp("CAlloc", cref, cZ(int64(ti)), cZ(int64(size))),
		cApp("OAlloc", cZ(int64(l.arr)), cZ(int64(off)), cZ(int64(size)), cBool(zero)), desc+fmt.Sprintf(" -> array %d offset %d", l.arr, off))
	h.r.Count(fmt.Sprintf("A/op/alloc/type%d", ti))
	if ar.len == 1 && ar.cap >= 16 && off == 0 {
		h.r.Count("A/alloc/first-slot")
	}
	if off > 0 && off == (ar.cap/2)*ar.size && ar.len-1 == ar.cap/2 {
		h.r.Count("A/alloc/after-growth")
	}
}

func (h *c10Hist) opStore(l *c10Live) {
	t := l.ty
	off, n := 0, l.size
	if len(t.ptrOffs) == 0 && l.size > 1 && h.rng.Intn(3) == 0 {
		off = h.rng.Intn(l.size)
		n = 1 + h.rng.Intn(l.size-off)
	}
	vs := c10Pattern(h.rng, t, l.size)[off : off+n]
	c10Write(t, l.ptr, off, vs)
	copy(l.expect[off:], vs)
	h.push(cApp("CStore", cZ(int64(l.bank)), cZ(int64(l.arr)), cZ(int64(l.off)), cZ(int64(l.size)), cZ(int64(off)), cBytes(vs)),
		"ONone", fmt.Sprintf("store %x at +%d through bank %d array %d offset %d", vs, off, l.bank, l.arr, l.off))
	h.r.Count("A/op/store")
}

func (h *c10Hist) opToString(b int) {
	bk := h.banks[b]
	_, sl0, sc0 := c10SData(bk.rb)
	var n int
	switch h.rng.Intn(8) {
	case 0:
		n = 0
	case 1, 2, 5, 6:
		n = 1 + h.rng.Intn(8)
	case 3:
		n = sc0 - sl0 // exactly fills the capacity
	case 4:
		n = sc0 - sl0 + 1 + h.rng.Intn(20) // must grow
	default:
		n = 1 + h.rng.Intn(70)
	}
	if n < 0 {
		n = 0
	}
	data := make([]byte, n)
	for i := range data {
		data[i] = byte(1 + h.rng.Intn(255))
	}
	var s string
	if bk.state == 1 {
		rbuf := h.holders[bk.holder]
		rbuf.Reset(append([]byte{}, data...))
		var err error
		if s, err = rbuf.NextAsString(n); err != nil {
			h.fail("aliasing-model", "NextAsString failed: "+err.Error())
			return
		}
	} else {
		s = bk.rb.ToString(append([]byte{}, data...))
	}
	base, sl, sc := c10SData(bk.rb)
	desc := fmt.Sprintf("bank %d ToString(%d bytes) (len %d cap %d -> len %d cap %d)", b, n, sl0, sc0, sl, sc)
	l := &c10Live{bank: b, off: sl0, size: n, str: s, expect: data}
	if n > 0 {
		l.ptr = unsafe.Pointer(unsafe.StringData(s))
		if base == 0 || uintptr(l.ptr) != base+uintptr(sl0) || sl != sl0+n {
			h.desc = append(h.desc, desc)
			h.fail("aliasing-model", "ToString returned a string that is not the appended tail of the bank's string store")
			return
		}
		l.arr = h.label(base)
	}
	switch {
	case sc != sc0:
		h.r.Count("A/op/tostring/realloc")
	case n == 0:
		h.r.Count("A/op/tostring/empty")
	default:
		h.r.Count("A/op/tostring/inplace")
	}
	cref := h.cref(b)
	h.live = append(h.live, l)
	h.push(cApp("CToString", cref, cBytes(data), cZ(int64(sc))),
		cApp("OAlloc", cZ(int64(l.arr)), cZ(int64(sl0)), cZ(int64(n)), cBool(s == string(data))), desc)
}

func (h *c10Hist) opClose(b int) {
	h.banks[b].rb.Close()
	h.banks[b].state = 2
	var keep []*c10Live
	for _, l := range h.live {
		if l.bank != b {
			keep = append(keep, l)
		}
	}
	h.r.Count(fmt.Sprintf("A/op/close/dropping-%d", bucket(len(h.live)-len(keep))))
	h.live = keep
	h.push(cApp("CClose", cZ(int64(b))), "ONone", fmt.Sprintf("bank %d Close", b))
}

func c10History(r *Run) {
	c10Drain()
	h := &c10Hist{r: r, rng: r.Rng, bankID: map[*avro.ResourceBank]int{}, labels: map[uintptr]int{}, id: len(r.Cases)}
	nops := 12 + r.Rng.Intn(50)
	storm := r.Rng.Intn(4) == 0 // many allocations of one type in one bank: arena growth
	stormType := r.Rng.Intn(len(c10Types))
	if storm {
		nops += 40
	}
	for len(h.steps) < nops && !h.failed {
		us := h.usable()
		k := h.rng.Intn(100)
		switch {
		case len(us) == 0 || (k < 12 && len(h.banks) < 7):
			if !h.opGet() {
				nops = 0 // foreign bank or failure: stop this history
			}
		case k < 50 || storm && k < 75:
			b, ti := us[h.rng.Intn(len(us))], -1
			if storm && h.rng.Intn(5) != 0 {
				b, ti = us[0], stormType
			}
			h.opAlloc(b, ti)
			if !h.failed && h.rng.Intn(10) != 0 {
				h.opStore(h.live[len(h.live)-1])
			}
		case k < 75:
			h.opToString(us[h.rng.Intn(len(us))])
		case k < 85:
			var cands []*c10Live
			for _, l := range h.live {
				if l.ty != nil {
					cands = append(cands, l)
				}
			}
			if len(cands) > 0 {
				h.opStore(cands[h.rng.Intn(len(cands))])
			}
		default:
			var direct []int
			for _, b := range us {
				if h.banks[b].state == 0 {
					direct = append(direct, b)
				}
			}
			if len(direct) > 0 {
				h.opClose(direct[h.rng.Intn(len(direct))])
			} else if !h.opGet() {
				nops = 0
			}
		}
	}
	var final []string
	for i := len(h.live) - 1; i >= 0; i-- {
		final = append(final, cBytes(h.actual(h.live[i])))
	}
	key := fmt.Sprintf("hist/%d/%s", len(h.steps), strings.Join(h.steps, ""))
	if len(h.steps) < 4 {
		key = ""
	}
	id := r.Add(cApp("KHist", cList(h.steps), cList(final)), map[string]any{"kind": "bank-history", "ops": h.desc}, key)
	if id != h.id {
		panic("c10: case id bookkeeping")
	}
	r.Count(fmt.Sprintf("A/history/banks-%d", len(h.banks)))
	r.Count(fmt.Sprintf("A/history/arrays-%d", bucket(len(h.labels))))
	runtime.KeepAlive(h)
}

// ---- (B) files -----------------------------------------------------------------------------

// c10Snap: a deep, address-free rendering of a value (strings and bytes copied out).
func c10Snap(sb *strings.Builder, v reflect.Value) {
	switch v.Kind() {
	case reflect.Bool:
		fmt.Fprintf(sb, "%v", v.Bool())
	case reflect.Int, reflect.Int8, reflect.Int16, reflect.Int32, reflect.Int64:
		fmt.Fprintf(sb, "%d", v.Int())
	case reflect.Uint, reflect.Uint8, reflect.Uint16, reflect.Uint32, reflect.Uint64, reflect.Uintptr:
		fmt.Fprintf(sb, "%d", v.Uint())
	case reflect.Float32, reflect.Float64:
		fmt.Fprintf(sb, "f%x", mathBits(v))
	case reflect.String:
		fmt.Fprintf(sb, "%q", strings.Clone(v.String()))
	case reflect.Slice:
		if v.IsNil() {
			sb.WriteString("nil")
			return
		}
		fallthrough
	case reflect.Array:
		if v.Type().Elem().Kind() == reflect.Uint8 {
			sb.WriteString("x")
			for i := 0; i < v.Len(); i++ {
				fmt.Fprintf(sb, "%02x", v.Index(i).Uint())
			}
			return
		}
		sb.WriteString("[")
		for i := 0; i < v.Len(); i++ {
			c10Snap(sb, v.Index(i))
			sb.WriteString(",")
		}
		sb.WriteString("]")
	case reflect.Map:
		if v.IsNil() {
			sb.WriteString("nilmap")
			return
		}
		var items []string
		it := v.MapRange()
		for it.Next() {
			var e strings.Builder
			c10Snap(&e, it.Key())
			e.WriteString(":")
			c10Snap(&e, it.Value())
			items = append(items, e.String())
		}
		sort.Strings(items)
		sb.WriteString("{" + strings.Join(items, ",") + "}")
	case reflect.Pointer:
		if v.IsNil() {
			sb.WriteString("nilptr")
			return
		}
		sb.WriteString("&")
		c10Snap(sb, v.Elem())
	case reflect.Struct:
		if v.Type() == rtTime && v.CanInterface() {
			t := v.Interface().(time.Time)
			_, off := t.Zone()
			fmt.Fprintf(sb, "T%d/%d/%d", t.Unix(), t.Nanosecond(), off)
			return
		}
		sb.WriteString("(")
		for i := 0; i < v.NumField(); i++ {
			c10Snap(sb, v.Field(i))
			sb.WriteString(";")
		}
		sb.WriteString(")")
	default:
		sb.WriteString("?")
	}
}

func mathBits(v reflect.Value) uint64 {
	if v.Kind() == reflect.Float32 {
		return uint64(f32BitsOf(v))
	}
	return f64BitsOf(v)
}

func c10SnapOf(v reflect.Value) string {
	var sb strings.Builder
	c10Snap(&sb, v)
	return sb.String()
}

type c10Range struct {
	lo, hi uintptr
	rec    int
	what   string
}

// c10Ranges collects the memory reachable from a record: string data, pointer targets,
// slice backing arrays.
func c10Ranges(v reflect.Value, rec int, path string, out *[]c10Range) {
	switch v.Kind() {
	case reflect.String:
		if v.Len() > 0 {
			p := uintptr(unsafe.Pointer(unsafe.StringData(v.String())))
			*out = append(*out, c10Range{p, p + uintptr(v.Len()), rec, path + " string"})
		}
	case reflect.Slice:
		if v.IsNil() {
			return
		}
		// the whole capacity: an append within it writes there without reallocating, so
		// spare capacity that covers somebody else's data is an overlap too
		if n := uintptr(v.Cap()) * v.Type().Elem().Size(); n > 0 {
			*out = append(*out, c10Range{v.Pointer(), v.Pointer() + n, rec, path + " slice (to its capacity)"})
		}
		fallthrough
	case reflect.Array:
		if k := v.Type().Elem().Kind(); k == reflect.Uint8 {
			return
		}
		for i := 0; i < v.Len(); i++ {
			c10Ranges(v.Index(i), rec, fmt.Sprintf("%s[%d]", path, i), out)
		}
	case reflect.Map:
		it := v.MapRange()
		for it.Next() {
			c10Ranges(it.Key(), rec, path+" key", out)
			c10Ranges(it.Value(), rec, path+" value", out)
		}
	case reflect.Pointer:
		if v.IsNil() {
			return
		}
		if n := v.Type().Elem().Size(); n > 0 {
			*out = append(*out, c10Range{v.Pointer(), v.Pointer() + n, rec, path + " pointee"})
		}
		c10Ranges(v.Elem(), rec, path+"*", out)
	case reflect.Struct:
		if v.Type().PkgPath() == "time" {
			return
		}
		for i := 0; i < v.NumField(); i++ {
			c10Ranges(v.Field(i), rec, path+"."+v.Type().Field(i).Name, out)
		}
	}
}

type c10Rec struct {
	val    reflect.Value
	snap   string
	rb     *avro.ResourceBank
	bank   int
	closed bool
}

func c10File(r *Run) {
	rng := r.Rng
	c10Drain()
	var s avro.Schema
	var g *GT
	for tries := 0; ; tries++ { // prefer record types that make the decoder use the bank
		s = genSchema(rng, SchemaGenCfg{MaxDepth: 1 + rng.Intn(3)})
		g = compatTarget(rng, s)
		usesBank := g.contains(func(x *GT) bool { return x.Kind == "string" || x.Kind == "ptr" || x.Kind == "map" })
		if usesBank || tries > 20 {
			break
		}
	}
	codecIface, err := schemaCodec(s, g)
	_ = codecIface
	if err != nil {
		r.Count("B/skipped-build")
		return
	}
	nrec := 4 + rng.Intn(30)
	// one file in four carries strings of 4 to 70 KiB (a few records only: the file is printed as a term)
	long := rng.Intn(4) == 0 && g.contains(func(x *GT) bool { return x.Kind == "string" })
	if long {
		nrec = 4 + rng.Intn(4)
		r.Count("B/very-long-strings")
	}
	var recs [][]byte
	var wants []reflect.Value
	var prev *Datum
	for k := 0; k < nrec; k++ {
		veryLongStrings = long
		d := genDatum(rng, s)
		veryLongStrings = false
		if prev != nil && rng.Intn(3) == 0 {
			d = prev // the same values again: consecutive records that repeat each other's strings
			r.Count("B/repeated-record")
		}
		w, fits := convDatum(s, g, d)
		if !fits {
			k--
			if rng.Intn(50) == 0 {
				r.Count("B/skipped-unfit")
				return
			}
			continue
		}
		prev = d
		wants = append(wants, w)
		recs = append(recs, encodeDatum(s, d, genChoice(rng, s, d)))
	}
	codec := codecNames[rng.Intn(3)]
	if long && rng.Intn(2) == 0 {
		codec = "null" // the stored bytes are the record bytes: nothing is decompressed into a buffer of its own
	}
	ct := &Container{SchemaJSON: []byte(schemaJSON(s)), Codec: codec, Sync: randSync(rng)}
	for k := 0; k < nrec; {
		m := 1 + rng.Intn(min(nrec-k, 6))
		if long {
			m = min(1+rng.Intn(2), nrec-k) // several blocks: a later block reuses what an earlier one was read into
		}
		if rng.Intn(8) == 0 {
			m = 0
		}
		var payload []byte
		for _, rec := range recs[k : k+m] {
			payload = append(payload, rec...)
		}
		ct.Blocks = append(ct.Blocks, CBlock{Count: int64(m), Payload: payload})
		k += m
	}
	file := ct.Bytes(false)
	closeSeed := rng.Int63()
	crng := rand.New(rand.NewSource(closeSeed))
	desc := map[string]any{"kind": "file", "schema": schemaJSON(s), "codec": codec, "blocks": len(ct.Blocks), "records": nrec,
		"file": hexs(file), "target": g.Coq(), "close_seed": closeSeed}
	caseID := len(r.Cases)
	failed := false
	fail := func(key, what string) {
		if !failed {
			failed = true
			r.Fail(caseID, key, what, desc)
		}
	}

	var retained []*c10Rec
	bankID := map[*avro.ResourceBank]int{}
	var bankClosed []bool
	var events []string // the pool history: Get at delivery (see below), Close
	var pendingCloses [][]int
	var delivered []*avro.ResourceBank
	bankBytes := 0

	checkAll := func(when string) {
		var rs []c10Range
		for k, rc := range retained {
			if rc.closed {
				continue
			}
			if now := c10SnapOf(rc.val); now != rc.snap {
				fail("mutated-before-close", fmt.Sprintf("%s: record %d (bank %d not closed) changed from %s to %s", when, k, rc.bank, trunc(rc.snap), trunc(now)))
			}
			c10Ranges(rc.val, k, "", &rs)
		}
		sort.Slice(rs, func(a, b int) bool { return rs[a].lo < rs[b].lo })
		for i := 1; i < len(rs); i++ {
			if rs[i].lo < rs[i-1].hi {
				fail("overlap", fmt.Sprintf("%s: memory of retained record %d (%s) overlaps record %d (%s)", when, rs[i-1].rec, rs[i-1].what, rs[i].rec, rs[i].what))
				break
			}
		}
	}
	closeRec := func(k int) {
		rc := retained[k]
		rc.closed = true
		rc.rb.Close()
		bankClosed[rc.bank] = true
	}

	// sometimes the callback stops the read with an error at some record, having
	// closed (or not) the bank it was just given
	errAt, closeOwn := -1, rng.Intn(2) == 0
	if rng.Intn(3) == 0 {
		errAt = rng.Intn(nrec)
	}
	desc["callback_error_at"], desc["callback_closes_own_bank"] = errAt, closeOwn
	errStop := errors.New("callback stops the read")

	var rerr error
	func() {
		defer func() {
			if p := recover(); p != nil {
				rerr = fmt.Errorf("PANIC: %v", p)
			}
		}()
		out := reflect.New(g.RType()).Elem().Interface()
		rerr = avro.ReadFile(bytes.NewReader(file), out, func(val unsafe.Pointer, rb *avro.ResourceBank) error {
			k := len(retained)
			v := reflect.New(g.RType()).Elem()
			v.Set(reflect.NewAt(g.RType(), val).Elem())
			// the bank
			id, known := bankID[rb]
			switch {
			case known && !bankClosed[id]:
				fail("overlap", fmt.Sprintf("record %d was decoded into bank %d, which still belongs to a retained record", k, id))
			case known:
				bankClosed[id] = false
				r.Count("B/bank/recycled")
			default:
				r.Count("B/bank/fresh")
				id = len(bankClosed)
				bankID[rb] = id
				bankClosed = append(bankClosed, false)
			}
			delivered = append(delivered, rb)
			rc := &c10Rec{val: v, snap: c10SnapOf(v), rb: rb, bank: id}
			retained = append(retained, rc)
			if k >= len(wants) {
				fail("not-zeroed", fmt.Sprintf("ReadFile delivered a record %d that is not in the file", k))
			} else if eq, where := normEq(g, wants[k], v); !eq {
				fail("not-zeroed", fmt.Sprintf("record %d as delivered differs from its datum at %s (stale or inherited memory?)", k, where))
			}
			var rs []c10Range
			c10Ranges(v, k, "", &rs)
			for _, x := range rs {
				bankBytes += int(x.hi - x.lo)
			}
			checkAll(fmt.Sprintf("at delivery of record %d", k))
			// close some retained banks now
			var cl []int
			for j, o := range retained {
				if !o.closed && crng.Intn(6) == 0 {
					closeRec(j)
					cl = append(cl, o.bank)
				}
			}
			if k == errAt {
				if closeOwn && !rc.closed {
					closeRec(k)
					cl = append(cl, rc.bank)
				}
				pendingCloses = append(pendingCloses, cl)
				r.Count(fmt.Sprintf("B/callback-error/closes-own=%v", closeOwn))
				return errStop
			}
			pendingCloses = append(pendingCloses, cl)
			return nil
		})
	}()
	if errAt >= 0 && rerr == errStop {
		rerr = nil
	}
	r.Count("B/file/" + codec)
	if rerr != nil {
		r.Count("B/read-error")
		if isPanicErr(rerr) {
			fail("mutated-before-close", "ReadFile panicked: "+rerr.Error())
		}
	} else if len(retained) != nrec {
		r.Count("B/record-count-differs")
	}
	checkAll("after the whole file was read")
	// close the rest in random order, some never
	order := crng.Perm(len(retained))
	var tail []int
	for _, k := range order {
		if retained[k].closed || crng.Intn(4) == 0 {
			continue
		}
		closeRec(k)
		tail = append(tail, retained[k].bank)
		checkAll(fmt.Sprintf("after closing the bank of record %d", k))
	}
	// afterwards: banks handed out now are held by nobody else.  Four ReadBufs taken
	// at the same time must hold four different banks, none of them the bank of a
	// retained record that is still open.
	var later []*avro.ReadBuf
	heldNow := map[*avro.ResourceBank]bool{}
	for i := 0; i < 4; i++ {
		b := avro.NewReadBuf(nil)
		later = append(later, b)
		rb := c10BankOf(b)
		if heldNow[rb] {
			fail("overlap", fmt.Sprintf("after the read: two ReadBufs taken at the same time hold the same bank (the pool holds it twice)"))
		}
		heldNow[rb] = true
		if id, known := bankID[rb]; known && !bankClosed[id] {
			fail("overlap", fmt.Sprintf("after the read: a new ReadBuf holds bank %d, which still belongs to a retained record", id))
		}
	}
	runtime.KeepAlive(later)
	// The pool history.  The bank delivered with record k+1 was taken from the pool by
	// ExtractResourceBank just BEFORE the callback of record k ran.
	seen := map[*avro.ResourceBank]bool{}
	pooled := map[int]bool{}
	get := func(rb *avro.ResourceBank) {
		id := bankID[rb]
		if seen[rb] && pooled[id] {
			events = append(events, cApp("CGet", cApp("Some", cZ(int64(id)))))
		} else if seen[rb] {
			events = append(events, cApp("CGet", cApp("Some", cZ(int64(id))))) // illegal: the model rejects it
		} else {
			events = append(events, "(CGet None)")
		}
		seen[rb] = true
		pooled[id] = false
	}
	for k, rb := range delivered {
		if k == 0 {
			get(rb)
		}
		if k+1 < len(delivered) {
			get(delivered[k+1])
		}
		for _, b := range pendingCloses[k] {
			events = append(events, cApp("CClose", cZ(int64(b))))
			pooled[b] = true
		}
	}
	for _, b := range tail {
		events = append(events, cApp("CClose", cZ(int64(b))))
	}
	key := fmt.Sprintf("file/%x", file)
	if len(delivered) < 2 {
		key = ""
	}
	desc["pool_history"] = strings.Join(events, " ")
	id := r.Add(cApp("KPool", cList(events)), desc, key)
	if id != caseID {
		panic("c10: case id bookkeeping")
	}
	r.Count(fmt.Sprintf("B/bank-bytes-per-file/%d", bucket(bankBytes)))
	r.Count(fmt.Sprintf("B/records/%d", bucket(len(retained))))
	runtime.KeepAlive(retained)
}

// c10Introspect: the bank-level correspondence reads unexported fields of ResourceBank
// and ReadBuf (read only).  When a rewrite of the library renames them the correspondence
// can no longer observe the implementation: that is reported as such, not as a crash.
func c10Introspect() (missing string) {
	if l := c10GetLayout(); !l.ok {
		return l.why
	}
	return ""
}

func runC10(r *Run) {
	if m := c10Introspect(); m != "" {
		r.Fail(-1, "correspondence-broken", "the bank-level correspondence (Corr/Bank.v, harness/c10.go) looks inside ResourceBank (read only) and cannot find its way in this version of the library: "+m+
			": the model can no longer be compared with the implementation", map[string]any{"missing": m})
		return
	}
	old := runtime.GOMAXPROCS(1) // one P: every pooled bank is visible to Pool.Get
	defer runtime.GOMAXPROCS(old)
	c10LargePointee(r)
	c10FlatThenStrings(r)
	nA, nB := r.N(220, 2500), r.N(160, 2000)
	for i := 0; i < nA; i++ {
		c10History(r)
	}
	if len(r.Failures) > 0 {
		// a broken allocator (e.g. memory that is not zeroed) makes the decoders follow garbage
		// slice headers and can kill the process; the bank-level failures are the finding
		r.Notes = append(r.Notes, "file-level part skipped: the bank-level oracle already failed")
		return
	}
	for i := 0; i < nB; i++ {
		c10File(r)
	}
	c10SelfPointer(r)
	c10ManyZones(r)
}

// c10SelfPointer: map values (and slice items) of a struct type that holds a pointer to its own
// Go type — a category with a parent.  The value the map decoder works in and the pointee are
// allocations of the same type from the same bank; all of them stay what they were decoded as
// while the bank is open.
type c10Cat struct {
	Name   string  `json:"name"`
	Parent *c10Cat `json:"parent"`
}
type c10Cats struct {
	ByKey map[string]c10Cat `json:"by_key"`
	List  []c10Cat          `json:"list"`
	One   *c10Cat           `json:"one"`
}

func c10SelfPointer(r *Run) {
	leaf := `{"type":"record","name":"Top","fields":[{"name":"name","type":"string"},{"name":"parent","type":"null"}]}`
	cat := func(n string) string {
		return `{"type":"record","name":"` + n + `","fields":[{"name":"name","type":"string"},{"name":"parent","type":["null",` + leaf + `]}]}`
	}
	schema := `{"type":"record","name":"Cats","fields":[{"name":"by_key","type":{"type":"map","values":` + cat("CatM") + `}},{"name":"list","type":{"type":"array","items":` + cat("CatL") + `}},{"name":"one","type":["null",` + cat("CatO") + `]}]}`
	str := func(x string) []byte { return append(specVarint(int64(len(x))), x...) }
	catBytes := func(name, parent string) []byte {
		b := str(name)
		if parent == "" {
			return append(b, 0)
		}
		return append(append(b, 2), str(parent)...) // Top{name, parent: null (no bytes)}
	}
	var recs [][]byte
	type want struct{ name, parent string }
	var wants [][]want // per record: map entries by key order, then list, then one
	for k := 0; k < 6; k++ {
		var rec []byte
		var w []want
		n := 3 + k
		rec = append(rec, specVarint(int64(n))...)
		for e := 0; e < n; e++ {
			nm, par := fmt.Sprintf("r%d-m%d", k, e), fmt.Sprintf("parent of r%d-m%d", k, e)
			if e%4 == 3 {
				par = ""
			}
			rec = append(append(rec, str(fmt.Sprintf("key%02d", e))...), catBytes(nm, par)...)
			w = append(w, want{nm, par})
		}
		rec = append(rec, 0)
		rec = append(rec, specVarint(int64(n))...)
		for e := 0; e < n; e++ {
			nm, par := fmt.Sprintf("r%d-l%d", k, e), fmt.Sprintf("parent of r%d-l%d", k, e)
			rec = append(rec, catBytes(nm, par)...)
			w = append(w, want{nm, par})
		}
		rec = append(rec, 0)
		rec = append(append(rec, 2), catBytes(fmt.Sprintf("r%d-one", k), fmt.Sprintf("parent of r%d-one", k))...)
		w = append(w, want{fmt.Sprintf("r%d-one", k), fmt.Sprintf("parent of r%d-one", k)})
		recs = append(recs, rec)
		wants = append(wants, w)
	}
	ct := &Container{SchemaJSON: []byte(schema), Codec: codecNames[r.Rng.Intn(3)], Sync: randSync(r.Rng)}
	ct.Blocks = []CBlock{{Count: 2, Payload: append(append([]byte{}, recs[0]...), recs[1]...)}, {Count: 3, Payload: bytes.Join(recs[2:5], nil)}, {Count: 1, Payload: recs[5]}}
	file := ct.Bytes(false)
	desc := map[string]any{"schema": schema, "codec": ct.Codec, "file": hexs(file), "go_type": "struct{ByKey map[string]Cat; List []Cat; One *Cat} with Cat struct{Name string; Parent *Cat}"}
	r.Count("B/self-pointer")
	var kept []*c10Cats
	var banks []*avro.ResourceBank
	check := func(when string) bool {
		for k, v := range kept {
			w := wants[k]
			n := (len(w) - 1) / 2
			bad := func(what string, c *c10Cat, x want) bool {
				if c == nil || c.Name != x.name || (x.parent == "") != (c.Parent == nil) || (c.Parent != nil && c.Parent.Name != x.parent) {
					got := "<nil>"
					if c != nil {
						got = fmt.Sprintf("{%q parent %v}", c.Name, c.Parent)
						if c.Parent != nil {
							got = fmt.Sprintf("{%q parent %q}", c.Name, c.Parent.Name)
						}
					}
					r.Fail(-1, "mutated-before-close", fmt.Sprintf("%s: record %d %s is %s, decoded from {%q parent %q} (its bank is still open)", when, k, what, got, x.name, x.parent), desc)
					return true
				}
				return false
			}
			if len(v.ByKey) != n || len(v.List) != n {
				r.Fail(-1, "mutated-before-close", fmt.Sprintf("%s: record %d has %d map entries and %d items, written %d each", when, k, len(v.ByKey), len(v.List), n), desc)
				return false
			}
			for e := 0; e < n; e++ {
				c := v.ByKey[fmt.Sprintf("key%02d", e)]
				if bad(fmt.Sprintf("map entry key%02d", e), &c, w[e]) || bad(fmt.Sprintf("list item %d", e), &v.List[e], w[n+e]) {
					return false
				}
			}
			if bad("field one", v.One, w[2*n]) {
				return false
			}
		}
		return true
	}
	err := func() (err error) {
		defer func() {
			if p := recover(); p != nil {
				err = fmt.Errorf("PANIC: %v", p)
			}
		}()
		return avro.ReadFile(bytes.NewReader(file), c10Cats{}, func(val unsafe.Pointer, rb *avro.ResourceBank) error {
			v := *(*c10Cats)(val) // a shallow copy: maps, slices and pointers still point into the bank
			kept = append(kept, &v)
			banks = append(banks, rb)
			if !check(fmt.Sprintf("at delivery of record %d", len(kept)-1)) {
				return errors.New("stop")
			}
			return nil
		})
	}()
	if err != nil && err.Error() != "stop" {
		r.Fail(-1, "legal-file-rejected", "ReadFile of a file with map values holding pointers to their own Go type: "+err.Error(), desc)
	} else if err == nil {
		if len(kept) != 6 {
			r.Fail(-1, "valid-records", fmt.Sprintf("%d records delivered, 6 written", len(kept)), desc)
		}
		check("after the read")
	}
	for _, b := range banks {
		b.Close()
	}
}

// c10ManyZones: more distinct UTC offsets in one process than any small cache holds, every
// decoded time retained: a time keeps the instant and the offset it was delivered with.
func c10ManyZones(r *Run) {
	type row struct {
		At time.Time `json:"at"`
		ID int64     `json:"id"`
	}
	schema := `{"type":"record","name":"Row","fields":[{"name":"at","type":"string"},{"name":"id","type":"long"}]}`
	var payload []byte
	var texts []string
	n := 0
	for off := -14 * 60; off <= 14*60; off += 13 {
		sign, a := "+", off
		if off < 0 {
			sign, a = "-", -off
		}
		text := fmt.Sprintf("2021-03-04T05:06:07.25%s%02d:%02d", sign, a/60, a%60)
		texts = append(texts, text)
		payload = append(append(append(payload, specVarint(int64(len(text)))...), text...), specVarint(int64(n))...)
		n++
	}
	ct := &Container{SchemaJSON: []byte(schema), Codec: "null", Sync: randSync(r.Rng), Blocks: []CBlock{{Count: int64(n), Payload: payload}}}
	file := ct.Bytes(false)
	r.Count("B/many-zones")
	var kept []row
	var banks []*avro.ResourceBank
	err := avro.ReadFile(bytes.NewReader(file), row{}, func(val unsafe.Pointer, rb *avro.ResourceBank) error {
		kept = append(kept, *(*row)(val))
		banks = append(banks, rb)
		return nil
	})
	desc := map[string]any{"schema": schema, "rows": n, "how": "one row per UTC offset from -14:00 to +14:00 in steps of 13 minutes, every row retained, no bank closed"}
	if err != nil || len(kept) != n {
		r.Fail(-1, "legal-file-rejected", fmt.Sprintf("ReadFile of %d timestamps with distinct offsets: %d rows, error %v", n, len(kept), err), desc)
	} else {
		for k, v := range kept {
			want, perr := time.Parse(time.RFC3339Nano, texts[k])
			_, wo := want.Zone()
			_, go_ := v.At.Zone()
			if perr != nil || !v.At.Equal(want) || wo != go_ {
				r.Fail(-1, "mutated-before-close", fmt.Sprintf("row %d was decoded from %q and now reads %s (its bank is still open, %d rows with other offsets were decoded after it)", k, texts[k], v.At.Format(time.RFC3339Nano), n-k-1), desc)
				break
			}
		}
	}
	for _, b := range banks {
		b.Close()
	}
}

// c10LargePointee: records that point to values above 64 KiB (sixteen of them make an array of
// more than a megabyte in the bank), read with every bank closed in the callback, so that each
// record after the first is decoded into a recycled bank; and the same with every second bank
// kept.  Whatever a bank does with very large arrays when it is closed, the next record's
// pointee is there, zeroed outside the decoded fields, and the kept ones stay what they were.
type c10Page struct {
	Pad   [96 << 10]byte `json:"-"`
	ID    int64          `json:"id"`
	Title string         `json:"title"`
	Tail  [8]byte        `json:"-"`
}
type c10PageRow struct {
	N    int64    `json:"n"`
	Page *c10Page `json:"page"`
}

func c10LargePointee(r *Run) {
	for _, codec := range codecNames {
		var buf bytes.Buffer
		enc, err := avro.NewEncoderFor[c10PageRow](&buf, avro.Compression(codec), 64)
		if err != nil {
			r.Fail(-1, "call-failed", "NewEncoderFor[c10PageRow]: "+err.Error(), nil)
			return
		}
		const rows = 9
		for i := 0; i < rows; i++ {
			row := c10PageRow{N: int64(i)}
			if i%4 != 3 {
				row.Page = &c10Page{ID: int64(100 + i), Title: fmt.Sprintf("page-%d", i)}
			}
			if err := enc.Encode(&row); err != nil {
				r.Fail(-1, "call-failed", "Encode: "+err.Error(), nil)
				return
			}
		}
		if err := enc.Flush(); err != nil {
			r.Fail(-1, "call-failed", "Flush: "+err.Error(), nil)
			return
		}
		for _, keepEvery := range []int{0, 2} {
			desc := map[string]any{"codec": codec, "rows": rows, "pointee_bytes": int(unsafe.Sizeof(c10Page{})), "banks": map[int]string{0: "every bank closed in the callback", 2: "every second bank kept"}[keepEvery]}
			type kept struct {
				row  c10PageRow
				bank *avro.ResourceBank
			}
			var keptRows []kept
			n := 0
			err := func() (err error) {
				defer func() {
					if p := recover(); p != nil {
						err = fmt.Errorf("PANIC: %v", p)
					}
				}()
				return avro.ReadFile(bytes.NewReader(buf.Bytes()), c10PageRow{}, func(val unsafe.Pointer, rb *avro.ResourceBank) error {
					row := *(*c10PageRow)(val)
					i := n
					n++
					wantPage := i%4 != 3
					switch {
					case row.N != int64(i) || (row.Page != nil) != wantPage:
						return fmt.Errorf("record %d decodes to n=%d page=%v", i, row.N, row.Page != nil)
					case wantPage && (row.Page.ID != int64(100+i) || row.Page.Title != fmt.Sprintf("page-%d", i)):
						return fmt.Errorf("record %d: page id %d title %q", i, row.Page.ID, row.Page.Title)
					case wantPage && (row.Page.Pad[0] != 0 || row.Page.Pad[len(row.Page.Pad)-1] != 0 || row.Page.Tail != [8]byte{}):
						return fmt.Errorf("record %d: the part of the pointee the schema does not name is not zero", i)
					}
					if wantPage {
						row.Page.Pad[0], row.Page.Pad[len(row.Page.Pad)-1], row.Page.Tail[7] = 0xAA, 0xBB, 0xCC // what an application may do with its value
					}
					if keepEvery > 0 && i%keepEvery == 0 {
						keptRows = append(keptRows, kept{row, rb})
					} else {
						rb.Close()
					}
					return nil
				})
			}()
			r.Count("B/large-pointee/" + codec)
			if err != nil || n != rows {
				r.Fail(-1, "large-pointee", fmt.Sprintf("records pointing to a %d-byte value, %s: %d of %d records, then %v", unsafe.Sizeof(c10Page{}), desc["banks"], n, rows, err), desc)
				continue
			}
			for _, k := range keptRows {
				i := int(k.row.N)
				if k.row.Page != nil && (k.row.Page.ID != int64(100+i) || k.row.Page.Title != fmt.Sprintf("page-%d", i) || k.row.Page.Pad[0] != 0xAA || k.row.Page.Tail[7] != 0xCC) {
					r.Fail(-1, "mutated-before-close", fmt.Sprintf("record %d was kept with its bank open; after the read its page reads id %d title %q", i, k.row.Page.ID, k.row.Page.Title), desc)
					break
				}
			}
			for _, k := range keptRows {
				k.bank.Close()
			}
		}
	}
}

// c10FlatThenStrings: a history across two files.  First a file of flat records (no pointers,
// no strings: nothing a bank would hold) whose callback closes every bank it is given - several
// times over; then a file of records with strings and pointers, of which every third is kept
// with its bank open and the others are closed in the callback.  Whatever the first read did
// with the banks it handed out, the second read's kept records stay what they were when
// delivered, and no two live records share memory.
type c10Flat struct {
	A int64   `json:"a"`
	B float64 `json:"b"`
	C bool    `json:"c"`
}
type c10Named struct {
	ID   int64   `json:"id"`
	Name string  `json:"name"`
	Note *string `json:"note"`
}

func c10FlatThenStrings(r *Run) {
	for _, codec := range codecNames {
		var flat, named bytes.Buffer
		ef, err := avro.NewEncoderFor[c10Flat](&flat, avro.Compression(codec), 50)
		if err != nil {
			r.Fail(-1, "call-failed", "NewEncoderFor[c10Flat]: "+err.Error(), nil)
			return
		}
		for i := 0; i < 12; i++ {
			v := c10Flat{A: int64(i), B: float64(i) / 2, C: i%2 == 0}
			ef.Encode(&v)
		}
		ef.Flush()
		en, err := avro.NewEncoderFor[c10Named](&named, avro.Compression(codec), 200)
		if err != nil {
			r.Fail(-1, "call-failed", "NewEncoderFor[c10Named]: "+err.Error(), nil)
			return
		}
		const rows = 64
		name := func(i int) string {
			return fmt.Sprintf("name-of-record-%03d-%s", i, string(bytes.Repeat([]byte{'a' + byte(i%26)}, i%40)))
		}
		for i := 0; i < rows; i++ {
			note := fmt.Sprintf("note-%d", i)
			v := c10Named{ID: int64(i), Name: name(i)}
			if i%2 == 0 {
				v.Note = &note
			}
			en.Encode(&v)
		}
		en.Flush()
		desc := map[string]any{"codec": codec, "history": "ReadFile(flat records, every bank closed in the callback) x2; ReadFile(records with strings: every third kept with its bank open, the others closed)"}
		r.Count("B/flat-then-strings/" + codec)
		bad := func() (bad string) {
			defer func() {
				if p := recover(); p != nil {
					bad = fmt.Sprintf("panic: %v", p)
				}
			}()
			for pass := 0; pass < 2; pass++ {
				n := 0
				err := avro.ReadFile(bytes.NewReader(flat.Bytes()), c10Flat{}, func(val unsafe.Pointer, rb *avro.ResourceBank) error {
					if v := *(*c10Flat)(val); v.A != int64(n) || v.B != float64(n)/2 {
						return fmt.Errorf("flat record %d decodes to %+v", n, v)
					}
					n++
					rb.Close()
					return nil
				})
				if err != nil || n != 12 {
					return fmt.Sprintf("the file of flat records: %d of 12 records, %v", n, err)
				}
			}
			type kept struct {
				v    c10Named
				bank *avro.ResourceBank
			}
			var keep []kept
			n := 0
			err := avro.ReadFile(bytes.NewReader(named.Bytes()), c10Named{}, func(val unsafe.Pointer, rb *avro.ResourceBank) error {
				v := *(*c10Named)(val)
				if v.ID != int64(n) || v.Name != name(n) || (v.Note != nil) != (n%2 == 0) {
					return fmt.Errorf("record %d decodes to id %d name %q", n, v.ID, v.Name)
				}
				if n%3 == 0 {
					keep = append(keep, kept{v, rb})
				} else {
					rb.Close()
				}
				n++
				return nil
			})
			if err != nil || n != rows {
				return fmt.Sprintf("the file of records with strings: %d of %d records, %v", n, rows, err)
			}
			for _, k := range keep {
				i := int(k.v.ID)
				if k.v.Name != name(i) || (k.v.Note != nil && *k.v.Note != fmt.Sprintf("note-%d", i)) {
					return fmt.Sprintf("record %d was kept with its bank open; after the read its name reads %q, written %q", i, k.v.Name, name(i))
				}
			}
			for _, k := range keep {
				k.bank.Close()
			}
			return ""
		}()
		if bad != "" {
			r.Fail(-1, "mutated-before-close", bad, desc)
		}
	}
}
