package main

import "runtime"

func totalAlloc() uint64 {
	var m runtime.MemStats
	runtime.ReadMemStats(&m)
	return m.TotalAlloc
}
