package main

// Avro object container files, written and parsed from the Avro 1.8
// specification only (independent of /repo/file.go and /repo/filewriter.go).

import (
	"bytes"
	"compress/flate"
	"encoding/binary"
	"errors"
	"fmt"
	"hash/crc32"
	"io"
	"math/rand"
	"sort"

	"github.com/golang/snappy"
)

type CBlock struct {
	Count   int64
	Payload []byte // uncompressed record encodings, concatenated
	Raw     []byte // as stored (compressed), filled by parse / build
}

type Container struct {
	SchemaJSON []byte
	Codec      string // "null", "deflate", "snappy"; "" = no avro.codec entry
	Sync       [16]byte
	Blocks     []CBlock
	HeaderLen  int
	BlockEnds  []int // offset just after each block's sync marker
	ExtraMeta  map[string][]byte
}

func compressBlock(codec string, payload []byte) []byte {
	switch codec {
	case "deflate":
		var buf bytes.Buffer
		w, _ := flate.NewWriter(&buf, flate.DefaultCompression)
		w.Write(payload)
		w.Close()
		return buf.Bytes()
	case "snappy":
		out := snappy.Encode(nil, payload)
		return binary.BigEndian.AppendUint32(out, crc32.ChecksumIEEE(payload))
	}
	return append([]byte{}, payload...)
}

var errRefContainer = errors.New("reference container reader: malformed file")

func decompressBlock(codec string, raw []byte) ([]byte, error) {
	switch codec {
	case "deflate":
		out, err := io.ReadAll(flate.NewReader(bytes.NewReader(raw)))
		if err != nil {
			return nil, fmt.Errorf("%w: deflate: %v", errRefContainer, err)
		}
		return out, nil
	case "snappy":
		if len(raw) < 4 {
			return nil, fmt.Errorf("%w: snappy block too short", errRefContainer)
		}
		out, err := snappy.Decode(nil, raw[:len(raw)-4])
		if err != nil {
			return nil, fmt.Errorf("%w: snappy: %v", errRefContainer, err)
		}
		if crc32.ChecksumIEEE(out) != binary.BigEndian.Uint32(raw[len(raw)-4:]) {
			return nil, fmt.Errorf("%w: snappy crc", errRefContainer)
		}
		return out, nil
	case "", "null":
		return raw, nil
	}
	return nil, fmt.Errorf("%w: unknown codec %q", errRefContainer, codec)
}

func appendLP(b []byte, s []byte) []byte {
	b = append(b, specVarint(int64(len(s)))...)
	return append(b, s...)
}

// Bytes serialises the container.  metaSplit > 0 writes the metadata map in two blocks.
func (c *Container) Bytes(metaSplit bool) []byte {
	out := []byte{'O', 'b', 'j', 1}
	type kv struct {
		k string
		v []byte
	}
	var entries []kv
	entries = append(entries, kv{"avro.schema", c.SchemaJSON})
	if c.Codec != "" {
		entries = append(entries, kv{"avro.codec", []byte(c.Codec)})
	}
	extra := make([]string, 0, len(c.ExtraMeta))
	for k := range c.ExtraMeta {
		extra = append(extra, k)
	}
	sort.Strings(extra)
	for _, k := range extra {
		entries = append(entries, kv{k, c.ExtraMeta[k]})
	}
	if metaSplit && len(entries) > 1 {
		out = append(out, specVarint(1)...)
		out = appendLP(out, []byte(entries[0].k))
		out = appendLP(out, entries[0].v)
		entries = entries[1:]
	}
	out = append(out, specVarint(int64(len(entries)))...)
	for _, e := range entries {
		out = appendLP(out, []byte(e.k))
		out = appendLP(out, e.v)
	}
	out = append(out, 0)
	out = append(out, c.Sync[:]...)
	c.HeaderLen = len(out)
	c.BlockEnds = nil
	for i := range c.Blocks {
		b := &c.Blocks[i]
		b.Raw = compressBlock(c.Codec, b.Payload)
		out = append(out, specVarint(b.Count)...)
		out = append(out, specVarint(int64(len(b.Raw)))...)
		out = append(out, b.Raw...)
		out = append(out, c.Sync[:]...)
		c.BlockEnds = append(c.BlockEnds, len(out))
	}
	return out
}

// parseContainer: strict reference reader.
func parseContainer(bs []byte) (*Container, error) {
	bad := func(f string, a ...any) error { return fmt.Errorf("%w: "+f, append([]any{errRefContainer}, a...)...) }
	if len(bs) < 4 || string(bs[:4]) != "Obj\x01" {
		return nil, bad("magic")
	}
	rest := bs[4:]
	c := &Container{ExtraMeta: map[string][]byte{}}
	meta := map[string][]byte{}
	for {
		n, r, err := readVarint(rest)
		if err != nil {
			return nil, bad("meta count")
		}
		rest = r
		if n == 0 {
			break
		}
		if n < 0 {
			n = -n
			if _, r, err = readVarint(rest); err != nil {
				return nil, bad("meta block size")
			}
			rest = r
		}
		for ; n > 0; n-- {
			k, r, err := readLenPrefixed(rest)
			if err != nil {
				return nil, bad("meta key")
			}
			v, r2, err := readLenPrefixed(r)
			if err != nil {
				return nil, bad("meta value")
			}
			rest = r2
			meta[string(k)] = v
		}
	}
	sj, ok := meta["avro.schema"]
	if !ok {
		return nil, bad("no schema")
	}
	c.SchemaJSON = sj
	if cd, ok := meta["avro.codec"]; ok {
		c.Codec = string(cd)
	}
	for k, v := range meta {
		if k != "avro.schema" && k != "avro.codec" {
			c.ExtraMeta[k] = v
		}
	}
	if len(rest) < 16 {
		return nil, bad("sync")
	}
	copy(c.Sync[:], rest[:16])
	rest = rest[16:]
	c.HeaderLen = len(bs) - len(rest)
	for len(rest) > 0 {
		cnt, r, err := readVarint(rest)
		if err != nil {
			return nil, bad("block count")
		}
		sz, r2, err := readVarint(r)
		if err != nil || sz < 0 || int64(len(r2)) < sz+16 {
			return nil, bad("block size")
		}
		raw := r2[:sz]
		if !bytes.Equal(r2[sz:sz+16], c.Sync[:]) {
			return nil, bad("block sync")
		}
		payload, err := decompressBlock(c.Codec, raw)
		if err != nil {
			return nil, err
		}
		c.Blocks = append(c.Blocks, CBlock{Count: cnt, Payload: payload, Raw: raw})
		rest = r2[sz+16:]
		c.BlockEnds = append(c.BlockEnds, len(bs)-len(rest))
	}
	return c, nil
}

func randSync(rng *rand.Rand) (s [16]byte) {
	rng.Read(s[:])
	return
}

var codecNames = []string{"null", "deflate", "snappy"}
