package main

import (
	"bufio"
	"bytes"
	"fmt"
	"io"
	"unsafe"

	"github.com/philpearl/avro"
)

// c07PausingReader hands out data the way a socket or pipe may: every third Read returns
// (0, nil) (never twice in a row, which io.Reader allows and discourages), reads are short,
// and ReadByte works whatever Read does.
type c07PausingReader struct {
	r     *bytes.Reader
	calls int
	short int // at most this many bytes per Read (0: no limit)
}

func (p *c07PausingReader) Read(b []byte) (int, error) {
	p.calls++
	if p.calls%3 == 0 && len(b) > 0 {
		return 0, nil
	}
	if p.short > 0 && len(b) > p.short {
		b = b[:p.short]
	}
	return p.r.Read(b)
}
func (p *c07PausingReader) ReadByte() (byte, error) { return p.r.ReadByte() }

// c07ManyBlocks: files of several hundred small blocks, read through every kind of reader.
// What a per-file budget, a counter that is never reset, or a buffer that is re-used after a
// refill would break shows only when the number of blocks (and of Read calls) is large.
func c07ManyBlocks(r *Run) {
	type row struct {
		V int64  `json:"v"`
		S string `json:"s"`
	}
	schema := `{"type":"record","name":"Row","fields":[{"name":"v","type":"long"},{"name":"s","type":"string"}]}`
	for _, codec := range []string{"null", "deflate", "snappy"} {
		nblocks := r.N(450, 1500) + r.Rng.Intn(50)
		ct := &Container{SchemaJSON: []byte(schema), Codec: codec, Sync: randSync(r.Rng)}
		var want []row
		for b := 0; b < nblocks; b++ {
			cnt := 1
			if r.Rng.Intn(10) == 0 {
				cnt = 2 + r.Rng.Intn(3)
			}
			var payload []byte
			for k := 0; k < cnt; k++ {
				v := row{V: int64(len(want)), S: fmt.Sprintf("row-%d", len(want)%97)}
				want = append(want, v)
				payload = append(payload, specVarint(v.V)...)
				payload = append(payload, specVarint(int64(len(v.S)))...)
				payload = append(payload, v.S...)
			}
			ct.Blocks = append(ct.Blocks, CBlock{Count: int64(cnt), Payload: payload})
		}
		file := ct.Bytes(false)
		readers := map[string]func() avro.Reader{
			"bytes.Reader":                     func() avro.Reader { return bytes.NewReader(file) },
			"pausing reader":                   func() avro.Reader { return &c07PausingReader{r: bytes.NewReader(file)} },
			"pausing reader, 7 bytes per Read": func() avro.Reader { return &c07PausingReader{r: bytes.NewReader(file), short: 7} },
			"bufio(16) over pausing reader": func() avro.Reader {
				return bufio.NewReaderSize(&c07PausingReader{r: bytes.NewReader(file), short: 5}, 16)
			},
			"bufio(4096) over pausing reader": func() avro.Reader { return bufio.NewReaderSize(&c07PausingReader{r: bytes.NewReader(file)}, 4096) },
			"bufio over one-byte source": func() avro.Reader {
				return bufio.NewReaderSize(io.LimitReader(&c07PausingReader{r: bytes.NewReader(file), short: 1}, int64(len(file))), 64)
			},
		}
		for name, mk := range readers {
			var got []row
			err := func() (err error) {
				defer func() {
					if p := recover(); p != nil {
						err = fmt.Errorf("PANIC: %v", p)
					}
				}()
				return avro.ReadFile(mk(), row{}, func(val unsafe.Pointer, rb *avro.ResourceBank) error {
					got = append(got, *(*row)(val))
					return nil
				})
			}()
			r.Count("many-blocks/" + codec)
			desc := map[string]any{"codec": codec, "blocks": nblocks, "records": len(want), "reader": name}
			if err != nil {
				r.Fail(-1, "valid-rejected", fmt.Sprintf("valid file of %d blocks read through a %s: %d of %d records delivered, then %v", nblocks, name, len(got), len(want), err), desc)
				continue
			}
			if len(got) != len(want) {
				r.Fail(-1, "valid-records", fmt.Sprintf("valid file of %d blocks read through a %s: %d records delivered, %d written", nblocks, name, len(got), len(want)), desc)
				continue
			}
			for i := range want {
				if got[i] != want[i] {
					r.Fail(-1, "valid-records", fmt.Sprintf("valid file of %d blocks read through a %s: record %d is %+v, written %+v", nblocks, name, i, got[i], want[i]), desc)
					break
				}
			}
		}
	}
}
