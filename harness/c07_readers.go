package main

import (
	"bufio"
	"bytes"
	"fmt"
	"io"
	"unsafe"

	"github.com/philpearl/avro"
)

// c07PausingReader hands out data the way a socket or pipe may: every third Read returns
// (0, nil) (never twice in a row, which io.Reader allows and discourages), reads are short,
// and ReadByte works whatever Read does.
type c07PausingReader struct {
	r     *bytes.Reader
	calls int
	short int // at most this many bytes per Read (0: no limit)
}

func (p *c07PausingReader) Read(b []byte) (int, error) {
	p.calls++
	if p.calls%3 == 0 && len(b) > 0 {
		return 0, nil
	}
	if p.short > 0 && len(b) > p.short {
		b = b[:p.short]
	}
	return p.r.Read(b)
}
func (p *c07PausingReader) ReadByte() (byte, error) { return p.r.ReadByte() }

// c07ManyBlocks: files of several hundred small blocks, read through every kind of reader.
// What a per-file budget, a counter that is never reset, or a buffer that is re-used after a
// refill would break shows only when the number of blocks (and of Read calls) is large.
func c07ManyBlocks(r *Run) {
	type row struct {
		V int64  `json:"v"`
		S string `json:"s"`
	}
	schema := `{"type":"record","name":"Row","fields":[{"name":"v","type":"long"},{"name":"s","type":"string"}]}`
	for _, codec := range []string{"null", "deflate", "snappy"} {
		nblocks := r.N(450, 1500) + r.Rng.Intn(50)
		ct := &Container{SchemaJSON: []byte(schema), Codec: codec, Sync: randSync(r.Rng)}
		var want []row
		for b := 0; b < nblocks; b++ {
			cnt := 1
			if r.Rng.Intn(10) == 0 {
				cnt = 2 + r.Rng.Intn(3)
			}
			var payload []byte
			for k := 0; k < cnt; k++ {
				v := row{V: int64(len(want)), S: fmt.Sprintf("row-%d", len(want)%97)}
				want = append(want, v)
				payload = append(payload, specVarint(v.V)...)
				payload = append(payload, specVarint(int64(len(v.S)))...)
				payload = append(payload, v.S...)
			}
			ct.Blocks = append(ct.Blocks, CBlock{Count: int64(cnt), Payload: payload})
		}
		file := ct.Bytes(false)
		readers := map[string]func() avro.Reader{
			"bytes.Reader":                     func() avro.Reader { return bytes.NewReader(file) },
			"reader whose Len() is its window": func() avro.Reader { return &c07LenReader{r: bytes.NewReader(file), window: 64} },
			"reader returning data with EOF":   func() avro.Reader { return &c07DataEOFReader{data: file, chunk: 1} },
			"pausing reader":                   func() avro.Reader { return &c07PausingReader{r: bytes.NewReader(file)} },
			"pausing reader, 7 bytes per Read": func() avro.Reader { return &c07PausingReader{r: bytes.NewReader(file), short: 7} },
			"bufio(16) over pausing reader": func() avro.Reader {
				return bufio.NewReaderSize(&c07PausingReader{r: bytes.NewReader(file), short: 5}, 16)
			},
			"bufio(4096) over pausing reader": func() avro.Reader { return bufio.NewReaderSize(&c07PausingReader{r: bytes.NewReader(file)}, 4096) },
			"bufio over one-byte source": func() avro.Reader {
				return bufio.NewReaderSize(io.LimitReader(&c07PausingReader{r: bytes.NewReader(file), short: 1}, int64(len(file))), 64)
			},
		}
		for name, mk := range readers {
			var got []row
			err := func() (err error) {
				defer func() {
					if p := recover(); p != nil {
						err = fmt.Errorf("PANIC: %v", p)
					}
				}()
				return avro.ReadFile(mk(), row{}, func(val unsafe.Pointer, rb *avro.ResourceBank) error {
					got = append(got, *(*row)(val))
					return nil
				})
			}()
			r.Count("many-blocks/" + codec)
			desc := map[string]any{"codec": codec, "blocks": nblocks, "records": len(want), "reader": name}
			if err != nil {
				r.Fail(-1, "valid-rejected", fmt.Sprintf("valid file of %d blocks read through a %s: %d of %d records delivered, then %v", nblocks, name, len(got), len(want), err), desc)
				continue
			}
			if len(got) != len(want) {
				r.Fail(-1, "valid-records", fmt.Sprintf("valid file of %d blocks read through a %s: %d records delivered, %d written", nblocks, name, len(got), len(want)), desc)
				continue
			}
			for i := range want {
				if got[i] != want[i] {
					r.Fail(-1, "valid-records", fmt.Sprintf("valid file of %d blocks read through a %s: record %d is %+v, written %+v", nblocks, name, i, got[i], want[i]), desc)
					break
				}
			}
		}
	}
}

// c07PanickingCallback: a callback that panics at record k; the caller recovers (as an HTTP
// handler or a worker pool does) and carries on reading other files and the same file again.
// Every later read delivers exactly its file's records: nothing the interrupted read held
// (pooled banks and buffers, decompressor state, locks) leaks into them.
func c07PanickingCallback(r *Run) {
	type row struct {
		V int64   `json:"v"`
		S string  `json:"s"`
		P *string `json:"p"`
	}
	schema := `{"type":"record","name":"Row","fields":[{"name":"v","type":"long"},{"name":"s","type":"string"},{"name":"p","type":["null","string"]}]}`
	mk := func(codec string, n, base int) ([]byte, []row) {
		ct := &Container{SchemaJSON: []byte(schema), Codec: codec, Sync: randSync(r.Rng)}
		var want []row
		for len(want) < n {
			cnt := 1 + r.Rng.Intn(4)
			var payload []byte
			for k := 0; k < cnt; k++ {
				v := row{V: int64(base + len(want)), S: fmt.Sprintf("s-%d-%d", base, len(want))}
				payload = append(payload, specVarint(v.V)...)
				payload = append(payload, specVarint(int64(len(v.S)))...)
				payload = append(payload, v.S...)
				if len(want)%2 == 0 {
					p := fmt.Sprintf("p-%d", base+len(want))
					v.P = &p
					payload = append(payload, 2)
					payload = append(payload, specVarint(int64(len(p)))...)
					payload = append(payload, p...)
				} else {
					payload = append(payload, 0)
				}
				want = append(want, v)
			}
			ct.Blocks = append(ct.Blocks, CBlock{Count: int64(cnt), Payload: payload})
		}
		return ct.Bytes(false), want
	}
	read := func(file []byte, panicAt int) (got []row, err error, recovered any) {
		defer func() { recovered = recover() }()
		err = avro.ReadFile(bufio.NewReaderSize(bytes.NewReader(file), 64), &row{}, func(val unsafe.Pointer, rb *avro.ResourceBank) error {
			if len(got) == panicAt {
				panic("callback gives up")
			}
			v := *(*row)(val)
			if v.P != nil {
				p := string(append([]byte{}, *v.P...)) // the text, not a view of the bank's string store
				v.P = &p
			}
			v.S = string(append([]byte{}, v.S...))
			got = append(got, v)
			rb.Close()
			return nil
		})
		return
	}
	same := func(a, b []row) int {
		if len(a) != len(b) {
			return min(len(a), len(b))
		}
		for i := range a {
			if a[i].V != b[i].V || a[i].S != b[i].S || (a[i].P == nil) != (b[i].P == nil) || (a[i].P != nil && *a[i].P != *b[i].P) {
				return i
			}
		}
		return -1
	}
	n := r.N(12, 60)
	for it := 0; it < n; it++ {
		codecA, codecB := codecNames[it%3], codecNames[(it/3)%3]
		fa, wa := mk(codecA, 8+r.Rng.Intn(20), 1000*it)
		fb, wb := mk(codecB, 8+r.Rng.Intn(20), 1000*it+500)
		k := r.Rng.Intn(len(wa))
		desc := map[string]any{"history": fmt.Sprintf("ReadFile(A, %s) whose callback panics at record %d and is recovered; ReadFile(B, %s); ReadFile(A) again", codecA, k, codecB), "A": hexs(fa), "B": hexs(fb)}
		got, _, rec := read(fa, k)
		r.Count("panicking-callback/histories")
		if rec == nil {
			r.Fail(-1, "callback-panic-swallowed", fmt.Sprintf("the callback panicked at record %d and ReadFile returned normally", k), desc)
			continue
		}
		if d := same(got, wa[:k]); d >= 0 {
			r.Fail(-1, "valid-records", fmt.Sprintf("records delivered before the callback panicked differ from the file at %d (%d delivered, panic at %d): %+v vs %+v", d, len(got), k, got[min(d, len(got)-1)], wa[d]), desc)
		}
		for step, f := range []struct {
			file []byte
			want []row
			name string
		}{{fb, wb, "B"}, {fa, wa, "A again"}} {
			got, err, rec := read(f.file, -1)
			if rec != nil || err != nil {
				r.Fail(-1, "valid-rejected", fmt.Sprintf("step %d (%s) after a recovered callback panic: error %v panic %v", step+2, f.name, err, rec), desc)
				break
			}
			if d := same(got, f.want); d >= 0 {
				r.Fail(-1, "valid-records", fmt.Sprintf("step %d (%s) after a recovered callback panic: %d records, written %d, first difference at %d", step+2, f.name, len(got), len(f.want), d), desc)
				break
			}
		}
	}
}

// c07DataEOFReader returns io.EOF together with the last bytes it has (never an empty read
// followed by EOF), in reads of at most chunk bytes; ReadByte reports EOF only when empty.
type c07DataEOFReader struct {
	data  []byte
	chunk int
}

func (d *c07DataEOFReader) Read(p []byte) (int, error) {
	if len(d.data) == 0 {
		return 0, io.EOF
	}
	n := min(len(p), len(d.data))
	if d.chunk > 0 && n > d.chunk*64 {
		n = d.chunk * 64
	}
	copy(p, d.data[:n])
	d.data = d.data[n:]
	if len(d.data) == 0 {
		return n, io.EOF
	}
	return n, nil
}

func (d *c07DataEOFReader) ReadByte() (byte, error) {
	if len(d.data) == 0 {
		return 0, io.EOF
	}
	b := d.data[0]
	d.data = d.data[1:]
	return b, nil
}
