//go:build race

package main

// the harness was built with the race detector
const c12Race = true
