package main

import (
	"bufio"
	"bytes"
	"errors"
	"fmt"
	"github.com/golang/snappy"
	"io"
	"os"
	"reflect"
	"sort"
	"strings"
	"testing/iotest"
	"unsafe"

	"github.com/philpearl/avro"
)

func init() {
	register("C07", "Avro.Corr.Container", runC07)
	register("C08", "Avro.Corr.Container", runC08)
}

// genFile: a valid container file written by the harness's spec writer, with the
// target type, the expected values per block and block boundaries.
type genFileT struct {
	s      avro.Schema
	g      *GT
	ct     *Container
	file   []byte
	datums []*Datum
	wants  []reflect.Value
	perBlk []int // records per block
}

func genFile(r *Run, maxRecs int) *genFileT { return genFileOpt(r, maxRecs, false) }

// hugePayload: when > 0, genFileOpt(bigBlock) keeps adding records until the first
// block's payload reaches that many bytes (reads of such a block span several of
// any reader's internal steps).
var hugePayload int

// genFileOpt with bigBlock: the first block holds 64 or more records, so that its
// count is a multi-byte varint (a cut can fall inside it).
func genFileOpt(r *Run, maxRecs int, bigBlock bool) *genFileT {
	huge := hugePayload
	hugePayload = 0
	for {
		depth := 1 + r.Rng.Intn(3)
		if bigBlock {
			depth = 1
		}
		s := genSchema(r.Rng, SchemaGenCfg{MaxDepth: depth})
		g := compatTarget(r.Rng, s)
		if _, err := schemaCodec(s, g); err != nil {
			continue
		}
		nrec := r.Rng.Intn(maxRecs + 1)
		if bigBlock {
			nrec = 64 + r.Rng.Intn(24)
		}
		gf := &genFileT{s: s, g: g}
		var recs [][]byte
		ok := true
		size := 0
		for k := 0; k < nrec; k++ {
			d := genDatum(r.Rng, s)
			w, fits := convDatum(s, g, d)
			if !fits {
				ok = false
				break
			}
			gf.datums = append(gf.datums, d)
			gf.wants = append(gf.wants, w)
			recs = append(recs, encodeDatum(s, d, genChoice(r.Rng, s, d)))
			size += len(recs[k])
			if huge > 0 && k == nrec-1 && size < huge && nrec < 4000 {
				nrec++
			}
		}
		if !ok || size < huge {
			continue
		}
		codec := codecNames[r.Rng.Intn(3)]
		if huge > 0 && r.Rng.Intn(3) != 0 {
			codec = "null"
		}
		ct := &Container{SchemaJSON: []byte(schemaJSON(s)), Codec: codec, Sync: randSync(r.Rng)}
		if codec == "null" && r.Rng.Intn(3) == 0 {
			ct.Codec = ""
		}
		if r.Rng.Intn(2) == 0 {
			// application metadata after the two standard entries: short and long values
			ct.ExtraMeta = map[string][]byte{}
			for n := 1 + r.Rng.Intn(3); n > 0; n-- {
				v := make([]byte, []int{0, 1, 4, 7, 16, 17, 40}[r.Rng.Intn(7)])
				for i := range v {
					v[i] = "0123456789abcdefghij"[r.Rng.Intn(20)]
				}
				ct.ExtraMeta[fmt.Sprintf("app.%c%d", 'a'+rune(r.Rng.Intn(26)), n)] = v
			}
		}
		for k := 0; k < nrec; {
			m := 1 + r.Rng.Intn(nrec-k)
			if r.Rng.Intn(6) == 0 {
				m = 0
			}
			if bigBlock && k == 0 {
				m = 64 + r.Rng.Intn(nrec-63)
				if huge > 0 {
					m = nrec - r.Rng.Intn(3)
				}
			}
			var payload []byte
			for _, rec := range recs[k : k+m] {
				payload = append(payload, rec...)
			}
			ct.Blocks = append(ct.Blocks, CBlock{Count: int64(m), Payload: payload})
			gf.perBlk = append(gf.perBlk, m)
			k += m
		}
		gf.ct = ct
		gf.file = ct.Bytes(r.Rng.Intn(5) == 0)
		return gf
	}
}

type fileRes struct {
	N     int
	Class string // ok | err | cb | panic
	Err   error
	Vals  []reflect.Value
}

func (f fileRes) coqClass() string {
	return map[string]string{"ok": "CkOk", "err": "CkErr", "cb": "CkCb", "panic": "CkPanic"}[f.Class]
}

// the error a failing callback returns: its own sentinel, or one of the values the
// library itself treats specially elsewhere (end of input), bare or wrapped
var errCallback error = errors.New("callback refuses this record")

var callbackErrors = []error{
	errors.New("callback refuses this record"), io.EOF, io.ErrUnexpectedEOF,
	fmt.Errorf("callback gives up: %w", io.EOF), io.ErrShortBuffer, errors.New(""),
}

// dirtyDest: a value of the target type left over from an earlier read (pointer-form out).
var dirtyDest reflect.Value

// nestedRead: when set, the callback reads this other valid container file to
// its end before it returns (a callback that follows a reference into another
// file). What the outer read delivers must not depend on it.
var nestedRead *genFileT

var readerRotation int

func readFileImpl(g *GT, file []byte, cbFail int, buffered bool) (res fileRes) {
	inner := nestedRead
	nestedRead = nil
	if cbFail >= 0 {
		errCallback = callbackErrors[(cbFail+len(file))%len(callbackErrors)]
	}
	defer func() {
		if p := recover(); p != nil {
			res.Class, res.Err = "panic", fmt.Errorf("%v", p)
		}
	}()
	rt := g.RType()
	// the kinds of reader a caller hands over, in rotation: a bytes.Reader, a bytes.Buffer (which
	// hands out what it has without complaint), bufio readers of several sizes over a source that
	// returns its last bytes together with io.EOF, or one byte per call
	readerRotation++
	var rd avro.Reader
	if buffered {
		switch readerRotation % 4 {
		case 0, 1:
			rd = bufio.NewReaderSize(bytes.NewReader(file), 16)
		case 2:
			rd = bufio.NewReaderSize(iotest.DataErrReader(bytes.NewReader(file)), 64)
		default:
			rd = bufio.NewReaderSize(iotest.OneByteReader(bytes.NewReader(file)), 4096)
		}
	} else {
		switch readerRotation % 4 {
		case 0:
			rd = bytes.NewReader(file)
		case 1:
			rd = bytes.NewBuffer(append([]byte{}, file...))
		case 2:
			// a reader that hands out its last bytes together with io.EOF (the contract allows it)
			rd = &c07DataEOFReader{data: file, chunk: 1 + readerRotation%7}
		default:
			// a seekable reader the caller has already advanced past an envelope of its own
			// (another container file, as it happens): ReadFile starts where the reader stands
			prefix := append([]byte("envelope:"), file[:len(file)/2]...)
			br := bytes.NewReader(append(prefix, file...))
			br.Seek(int64(len(prefix)), io.SeekStart)
			rd = br
		}
	}
	// out is a struct value or (with the buffered reader) a pointer to one: the pointer
	// form decodes into the caller's own variable
	var out any = reflect.New(rt).Elem().Interface()
	if buffered {
		// the caller's own variable, holding whatever an earlier use left in it: every
		// record is decoded into a cleared destination all the same
		dst := reflect.New(rt)
		if dirtyDest.IsValid() && dirtyDest.Type() == rt {
			dst.Elem().Set(dirtyDest)
		}
		out = dst.Interface()
	}
	err := avro.ReadFile(rd, out, func(val unsafe.Pointer, rb *avro.ResourceBank) error {
		v := reflect.New(rt).Elem()
		v.Set(reflect.NewAt(rt, val).Elem())
		res.Vals = append(res.Vals, v)
		res.N++
		if inner != nil {
			it := inner.g.RType()
			_ = avro.ReadFile(bytes.NewReader(inner.file), reflect.New(it).Elem().Interface(), func(unsafe.Pointer, *avro.ResourceBank) error { return nil })
		}
		if res.N-1 == cbFail {
			return errCallback
		}
		return nil
	})
	res.Err = err
	switch {
	case err == nil:
		res.Class = "ok"
	case err == errCallback: // returned unchanged: identity, not merely wrapped
		res.Class = "cb"
	default:
		res.Class = "err"
	}
	return res
}

// decompTable: the real decompressor (called by the harness, independently of the
// library) on every stored block the strict framing finds in the file.
func decompTable(file []byte) (string, string) {
	// lenient scan of the framing: stop at the first inconsistency
	var entries []string
	codec := ""
	hdrLen := 0
	if ct, err := parseHeaderOnly(file); err == nil {
		codec, hdrLen = ct.Codec, ct.HeaderLen
	} else {
		return "[]", ""
	}
	rest := file[hdrLen:]
	for len(rest) > 0 {
		_, r1, err := readVarint(rest)
		if err != nil {
			break
		}
		sz, r2, err := readVarint(r1)
		if err != nil || sz < 0 || int64(len(r2)) < sz {
			break
		}
		raw := r2[:sz]
		out, derr := decompressBlock(codec, raw)
		v := "None"
		if derr == nil {
			v = cApp("Some", cBytes(out))
		}
		entries = append(entries, cPair(cBytes(raw), v))
		if int64(len(r2)) < sz+16 {
			break
		}
		rest = r2[sz+16:]
	}
	return cList(entries), codec
}

// parseHeaderOnly: header of a container (lenient about what follows).
func parseHeaderOnly(bs []byte) (*Container, error) {
	if len(bs) < 4 || string(bs[:4]) != "Obj\x01" {
		return nil, errRefContainer
	}
	rest := bs[4:]
	c := &Container{}
	for {
		n, r, err := readVarint(rest)
		if err != nil {
			return nil, errRefContainer
		}
		rest = r
		if n == 0 {
			break
		}
		if n < 0 {
			return nil, errRefContainer
		}
		for ; n > 0; n-- {
			k, r, err := readLenPrefixed(rest)
			if err != nil {
				return nil, errRefContainer
			}
			v, r2, err := readLenPrefixed(r)
			if err != nil {
				return nil, errRefContainer
			}
			rest = r2
			switch string(k) {
			case "avro.schema":
				c.SchemaJSON = v
			case "avro.codec":
				c.Codec = string(v)
			}
		}
	}
	if len(rest) < 16 {
		return nil, errRefContainer
	}
	copy(c.Sync[:], rest[:16])
	c.HeaderLen = len(bs) - len(rest) + 16
	return c, nil
}

func addFileCase(r *Run, gf *genFileT, file []byte, cbFail int, res fileRes, desc map[string]any, key string) int {
	schemaTerm := "None"
	if hc, err := parseHeaderOnly(file); err == nil && hc.SchemaJSON != nil {
		if s, err := schemaFromJSONStd(hc.SchemaJSON); err == nil {
			schemaTerm = cApp("Some", coqSchema(s))
		}
	}
	table, codec := decompTable(file)
	if codec == "snappy" && len(file) <= snappyModelLimit {
		// the model does the framing, the length guard and the CRC-32 itself (Model/Compress.v):
		// it is given only what golang/snappy says about each block's body.  (Files above 24 KiB
		// keep the decompressor as a table: the bit-by-bit CRC-32 of the model costs about a
		// millisecond per hundred bytes inside coqc.)
		return r.Add(cApp("KFileSn", schemaTerm, gf.g.Coq(), cBytes(file), snappyRawTable(file), cZ(int64(cbFail)), cZ(int64(res.N)), res.coqClass()), desc, key)
	}
	return r.Add(cApp("KFile", schemaTerm, gf.g.Coq(), cBytes(file), table, cZ(int64(cbFail)), cZ(int64(res.N)), res.coqClass()), desc, key)
}

const snappyModelLimit = 24 << 10

// snappyRawTable: for every stored block the strict framing finds in a snappy file, the body
// (the block without its four checksum bytes) with snappy.DecodedLen and snappy.Decode of it.
// Decode is not attempted on a body that declares more than 64 times its size (the library
// refuses those before decoding; the harness must not allocate gigabytes either).
func snappyRawTable(file []byte) string {
	var entries []string
	ct, err := parseHeaderOnly(file)
	if err != nil {
		return "[]"
	}
	rest := file[ct.HeaderLen:]
	seen := map[string]bool{}
	for len(rest) > 0 {
		_, r1, err := readVarint(rest)
		if err != nil {
			break
		}
		sz, r2, err := readVarint(r1)
		if err != nil || sz < 0 || int64(len(r2)) < sz {
			break
		}
		raw := r2[:sz]
		if len(raw) >= 4 {
			body := raw[:len(raw)-4]
			if !seen[string(body)] {
				seen[string(body)] = true
				ln, dec := "None", "None"
				if n, err := snappy.DecodedLen(body); err == nil {
					ln = cApp("Some", cZ(int64(n)))
					if n <= 64*len(raw)+1024 {
						if out, err := snappy.Decode(nil, body); err == nil {
							dec = cApp("Some", cBytes(out))
						}
					}
				}
				entries = append(entries, cPair(cBytes(body), cPair(ln, dec)))
			}
		}
		if int64(len(r2)) < sz+16 {
			break
		}
		rest = r2[sz+16:]
	}
	return cList(entries)
}

func checkValues(r *Run, id int, gf *genFileT, res fileRes, n int, desc map[string]any, key string) {
	if res.N != n {
		r.Fail(id, key, fmt.Sprintf("%d records delivered, %d expected", res.N, n), desc)
		return
	}
	for k := 0; k < n && k < len(res.Vals); k++ {
		if eq, where := normEq(gf.g, gf.wants[k], res.Vals[k]); !eq {
			r.Fail(id, key, fmt.Sprintf("record %d differs at %s", k, where), desc)
			return
		}
	}
}

// c07FieldlessRecords: a record type without fields (an event that carries nothing but its
// occurrence): the blocks declare their counts over zero bytes of data, and exactly that many
// records are delivered.  And histories of two reads: a file torn inside its header, then a
// valid file lacking the codec entry or (refused) the schema entry — a reader carries nothing
// over from one file to the next.
func c07FieldlessRecords(r *Run) {
	type tick struct {
		X int64 `json:"not_in_the_schema"`
	}
	read := func(file []byte) (n int, err error) {
		defer func() {
			if p := recover(); p != nil {
				err = fmt.Errorf("PANIC: %v", p)
			}
		}()
		readerRotation++
		var rd avro.Reader = bytes.NewReader(file)
		if readerRotation%2 == 0 {
			rd = bufio.NewReaderSize(bytes.NewReader(file), 16)
		}
		err = avro.ReadFile(rd, tick{}, func(val unsafe.Pointer, rb *avro.ResourceBank) error {
			n++
			return nil
		})
		return
	}
	for _, schema := range []string{`{"type":"record","name":"Tick","fields":[]}`, `{"type":"record","name":"Tick","fields":[{"name":"nothing","type":"null"}]}`} {
		for _, codec := range []string{"null", "deflate", "snappy", ""} {
			ct := &Container{SchemaJSON: []byte(schema), Codec: codec, Sync: randSync(r.Rng)}
			counts := []int64{3, 2, 1}
			total := 0
			for _, c := range counts {
				ct.Blocks = append(ct.Blocks, CBlock{Count: c})
				total += int(c)
			}
			file := ct.Bytes(false)
			n, err := read(file)
			r.Count("fieldless-records")
			if err != nil || n != total {
				r.Fail(-1, "valid-records", fmt.Sprintf("a file of a record type without fields, blocks declaring %v records: ReadFile delivered %d records, error %v", counts, n, err),
					map[string]any{"schema": schema, "codec": codec, "file": hexs(file)})
			}
		}
	}
	// two reads in a row
	rec := `{"type":"record","name":"Row","fields":[{"name":"not_in_the_schema","type":"long"}]}`
	row := func(v int64) []byte { return specVarint(v) }
	for _, tornCodec := range []string{"deflate", "snappy", "null"} {
		other := `{"type":"record","name":"Other","fields":[{"name":"a","type":"string"},{"name":"b","type":"string"}]}`
		torn := (&Container{SchemaJSON: []byte(other), Codec: tornCodec, Sync: randSync(r.Rng), Blocks: []CBlock{{Count: 1, Payload: []byte{2, 'x', 2, 'y'}}}})
		tb := torn.Bytes(false)
		for _, cutBack := range []int{1, 5, 16, 17} { // inside the header's sync marker, or just before it
			good := &Container{SchemaJSON: []byte(rec), Codec: "", Sync: randSync(r.Rng), Blocks: []CBlock{{Count: 2, Payload: append(row(5), row(6)...)}, {Count: 1, Payload: row(7)}}}
			gb := good.Bytes(false)
			noSchema := containerWithMeta(good, map[string][]byte{"avro.codec": []byte("null")})
			desc := map[string]any{"history": fmt.Sprintf("ReadFile(file with codec %s cut %d bytes before the end of its header) then ReadFile(valid file without avro.codec) then ReadFile(file without avro.schema)", tornCodec, cutBack),
				"first_file": hexs(tb[:torn.HeaderLen-cutBack]), "second_file": hexs(gb), "third_file": hexs(noSchema)}
			if _, err := read(tb[:torn.HeaderLen-cutBack]); err == nil {
				r.Fail(-1, "header-torn-accepted", "a file cut inside its header was read without error", desc)
			}
			n, err := read(gb)
			r.Count("two-reads")
			if err != nil || n != 3 {
				r.Fail(-1, "header-no-codec-entry", fmt.Sprintf("after a torn file, a valid file without a codec entry (uncompressed) delivered %d of 3 records, error %v", n, err), desc)
			}
			if _, err := read(tb[:torn.HeaderLen-cutBack]); err == nil {
				r.Fail(-1, "header-torn-accepted", "a file cut inside its header was read without error", desc)
			}
			if n, err := read(noSchema); err == nil {
				r.Fail(-1, "header-missing-schema", fmt.Sprintf("after a torn file, a file without a schema entry was read without error (%d records)", n), desc)
			}
		}
	}
}

func runC07(r *Run) {
	c07FieldlessRecords(r)
	c07Crc(r)
	c07ManyBlocks(r)
	c01EveryBlockLength(r, false)
	c03HugeSchema(r)
	c07PanickingCallback(r)
	nfiles := r.N(60, 500)
	for i := 0; i < nfiles; i++ {
		gf := genFile(r, 8)
		total := len(gf.wants)
		desc := map[string]any{"schema": schemaJSON(gf.s), "target": gf.g.Coq(), "codec": gf.ct.Codec, "blocks": gf.perBlk, "file": hexs(gf.file)}
		r.Count("codec/" + gf.ct.Codec)
		r.Count(fmt.Sprintf("blocks/%d", len(gf.perBlk)))

		// (1) valid file: every record, in order
		dirtyDest = reflect.Value{}
		if total > 0 {
			dirtyDest = gf.wants[total-1]
		}
		res := readFileImpl(gf.g, gf.file, -1, i%2 == 0)
		id := addFileCase(r, gf, gf.file, -1, res, desc, fmt.Sprintf("valid/%x", gf.file))
		if res.Class != "ok" {
			r.Fail(id, "valid-rejected", fmt.Sprintf("valid file: %s %v", res.Class, res.Err), desc)
		} else {
			checkValues(r, id, gf, res, total, desc, "valid-records")
		}

		// (1a) FileSchema on the same file (from disk): the schema the header carries
		if i%5 == 0 {
			c07FileSchema(r, gf, desc)
		}

		// (1b) the same file while the callback reads another valid file to its end at every record
		if total > 0 && i%3 == 0 {
			other := genFile(r, 8)
			for tries := 0; len(other.wants) == 0 || (tries < 40 && i%2 == 0 && other.ct.Codec != gf.ct.Codec); tries++ {
				other = genFile(r, 8)
			}
			nestedRead = other
			res := readFileImpl(gf.g, gf.file, -1, false)
			d2 := withKV(withKV(desc, "callback_reads_file", hexs(other.file)), "callback_reads_target", other.g.Coq())
			id := addFileCase(r, gf, gf.file, -1, res, d2, fmt.Sprintf("nested/%x", gf.file))
			r.Count("nested/" + gf.ct.Codec + "+" + other.ct.Codec)
			if res.Class != "ok" {
				r.Fail(id, "nested-read-rejected", fmt.Sprintf("valid file, callback reads another file: %s %v", res.Class, res.Err), d2)
			} else {
				checkValues(r, id, gf, res, total, d2, "nested-read-records")
			}
		}

		// (2) the callback fails at every record index
		for k := 0; k < total; k++ {
			res := readFileImpl(gf.g, gf.file, k, false)
			d2 := withKV(desc, "callback_fails_at", k)
			id := addFileCase(r, gf, gf.file, k, res, d2, fmt.Sprintf("cb/%d/%x", k, gf.file))
			if res.Class != "cb" {
				r.Fail(id, "callback-error-identity", fmt.Sprintf("callback error at record %d: ReadFile returned class %s (%v), not the callback's own error", k, res.Class, res.Err), d2)
			} else {
				checkValues(r, id, gf, res, k+1, d2, "callback-stop")
			}
			// ... whatever follows the block the record is in: the callback's error ends the read
			// before the block's sync marker is looked at
			if k%2 == 0 {
				bi, acc := 0, 0
				for bi = range gf.perBlk {
					acc += gf.perBlk[bi]
					if k < acc {
						break
					}
				}
				end := gf.ct.BlockEnds[bi]
				flipped := append([]byte{}, gf.file...)
				flipped[end-3] ^= 0x10
				for vi, damaged := range [][]byte{gf.file[:end-16], gf.file[:end-9], flipped} {
					res := readFileImpl(gf.g, damaged, k, false)
					d3 := withKV(d2, "after_the_block", []string{"file ends after the payload", "file ends inside the sync marker", "sync marker damaged"}[vi])
					id := addFileCase(r, gf, damaged, k, res, d3, fmt.Sprintf("cb-damaged/%d/%d/%x", vi, k, gf.file))
					if res.Class != "cb" {
						r.Fail(id, "callback-error-identity", fmt.Sprintf("callback error at record %d, %s: ReadFile returned class %s (%v), not the callback's own error", k, d3["after_the_block"], res.Class, res.Err), d3)
					} else {
						checkValues(r, id, gf, res, k+1, d3, "callback-stop")
					}
				}
			}
		}

		// (3) corruption sites
		c := gf.ct
		start := c.HeaderLen
		for bi, end := range c.BlockEnds {
			rawLen := len(c.Blocks[bi].Raw)
			syncOff := end - 16
			rawOff := syncOff - rawLen
			before := 0
			for _, m := range gf.perBlk[:bi] {
				before += m
			}
			// every bit of the sync marker (quick: 6 random bits)
			for _, bit := range pickBits(r, 16*8, r.N(6, 128)) {
				mut := flipBit(gf.file, syncOff*8+bit)
				res := readFileImpl(gf.g, mut, -1, false)
				d2 := withKV(desc, "flipped_sync_bit", fmt.Sprintf("block %d bit %d", bi, bit))
				id := addFileCase(r, gf, mut, -1, res, d2, fmt.Sprintf("sync/%d/%d/%x", bi, bit, gf.file))
				r.Count("damage/sync")
				if res.Class != "err" {
					r.Fail(id, "sync-mismatch-accepted", fmt.Sprintf("block %d sync marker bit %d flipped: ReadFile returned %s", bi, bit, res.Class), d2)
				} else if res.N != before+gf.perBlk[bi] {
					r.Fail(id, "sync-mismatch-records", fmt.Sprintf("sync damage in block %d: %d records delivered, expected %d", bi, res.N, before+gf.perBlk[bi]), d2)
				}
			}
			// the declared record count raised: the block holds fewer records than it declares. Unless the
			// records can occupy zero bytes, that is damage: an error after the records that are there
			if !zeroWidth(gf.s) && gf.perBlk[bi] > 0 {
				for _, add := range []int64{1, 2, int64(gf.perBlk[bi])} {
					c2 := *c
					c2.Blocks = append([]CBlock{}, c.Blocks...)
					c2.Blocks[bi].Count += add
					mut := c2.Bytes(false)
					res := readFileImpl(gf.g, mut, -1, add == 2)
					d2 := withKV(desc, "declared_count_raised", fmt.Sprintf("block %d declares %d records, holds %d", bi, c2.Blocks[bi].Count, gf.perBlk[bi]))
					d2["file"] = hexs(mut)
					id := addFileCase(r, gf, mut, -1, res, d2, fmt.Sprintf("count/%d/%d/%x", bi, add, gf.file))
					r.Count("damage/count-raised")
					switch {
					case res.Class == "panic":
						r.Fail(id, "damage-panic", fmt.Sprintf("a block declaring more records than it holds panics: %v", res.Err), d2)
					case res.Class != "err":
						r.Fail(id, "count-mismatch-accepted", fmt.Sprintf("block %d declares %d records and holds %d: ReadFile returned %s with %d records", bi, c2.Blocks[bi].Count, gf.perBlk[bi], res.Class, res.N), d2)
					}
				}
			}
			// the snappy checksum replaced as a whole: zeros (a field "not filled in"), ones, the
			// checksum of the empty block, the bytes in reverse order
			if c.Codec == "snappy" && rawLen >= 4 {
				tr := gf.file[rawOff+rawLen-4 : rawOff+rawLen]
				for _, repl := range [][]byte{{0, 0, 0, 0}, {0xff, 0xff, 0xff, 0xff}, {tr[3], tr[2], tr[1], tr[0]}, {0, 0, 0, 1}} {
					if bytes.Equal(repl, tr) {
						continue
					}
					mut := append([]byte{}, gf.file...)
					copy(mut[rawOff+rawLen-4:], repl)
					res := readFileImpl(gf.g, mut, -1, false)
					d2 := withKV(desc, "checksum_replaced", fmt.Sprintf("block %d: %x instead of %x", bi, repl, tr))
					id := addFileCase(r, gf, mut, -1, res, d2, fmt.Sprintf("crcrepl/%d/%x/%x", bi, repl, gf.file))
					r.Count("damage/checksum-replaced")
					if res.Class != "err" {
						r.Fail(id, "checksum-mismatch-accepted", fmt.Sprintf("block %d: the four checksum bytes replaced by %x (the data's checksum is %x): ReadFile returned %s with %d records", bi, repl, tr, res.Class, res.N), d2)
					} else if res.N != before {
						r.Fail(id, "damage-records", fmt.Sprintf("block %d with a replaced checksum: %d records delivered, expected %d", bi, res.N, before), d2)
					}
				}
			}
			// stored bytes (compressed payload incl. snappy checksum)
			if rawLen > 0 {
				for _, bit := range pickBits(r, rawLen*8, r.N(8, 400)) {
					mut := flipBit(gf.file, rawOff*8+bit)
					_, derr := decompressBlock(c.Codec, mut[rawOff:rawOff+rawLen])
					if derr == nil {
						// the decompressor accepts the damaged bytes: the records are then arbitrary
						// data (C06's business, in an isolated process), nothing for C07 to say
						r.Count("damage/decompressor-accepts")
						continue
					}
					res := readFileImpl(gf.g, mut, -1, false)
					d2 := withKV(desc, "flipped_payload_bit", fmt.Sprintf("block %d bit %d", bi, bit))
					id := addFileCase(r, gf, mut, -1, res, d2, fmt.Sprintf("raw/%d/%d/%x", bi, bit, gf.file))
					inCRC := c.Codec == "snappy" && bit >= (rawLen-4)*8
					switch {
					case res.Class == "panic":
						r.Fail(id, "damage-panic", fmt.Sprintf("payload damage panics: %v", res.Err), d2)
					case derr != nil:
						r.Count("damage/decompressor-rejects")
						if res.Class != "err" {
							key := "decompress-error-ignored"
							if inCRC {
								key = "checksum-mismatch-accepted"
							}
							r.Fail(id, key, fmt.Sprintf("block %d: the decompressor rejects the damaged block (%v) but ReadFile returned %s with %d records", bi, derr, res.Class, res.N), d2)
						} else if res.N != before {
							r.Fail(id, "damage-records", fmt.Sprintf("rejected block %d: %d records delivered, expected %d", bi, res.N, before), d2)
						}
					default:
						r.Count("damage/decompressor-accepts")
					}
				}
			}
			start = end
		}
		_ = start

		// (4) header damage
		if i%3 == 0 {
			headerDamage(r, gf, desc)
		}
	}
}

func withKV(m map[string]any, k string, v any) map[string]any {
	out := map[string]any{}
	for a, b := range m {
		out[a] = b
	}
	out[k] = v
	return out
}

func pickBits(r *Run, n, want int) []int {
	if want >= n {
		out := make([]int, n)
		for i := range out {
			out[i] = i
		}
		return out
	}
	seen := map[int]bool{}
	var out []int
	for len(out) < want {
		b := r.Rng.Intn(n)
		if !seen[b] {
			seen[b] = true
			out = append(out, b)
		}
	}
	return out
}

func flipBit(file []byte, bit int) []byte {
	out := append([]byte{}, file...)
	out[bit/8] ^= 1 << uint(bit%8)
	return out
}

func headerDamage(r *Run, gf *genFileT, desc map[string]any) {
	c := gf.ct
	try := func(name string, file []byte, wantClass string, wantN int) {
		res := readFileImpl(gf.g, file, -1, false)
		d2 := withKV(desc, "header_damage", name)
		d2["file"] = hexs(file)
		id := addFileCase(r, gf, file, -1, res, d2, "hdr/"+name+"/"+hexs(file))
		r.Count("header/" + name)
		if res.Class != wantClass || (wantClass == "ok" && res.N != wantN) {
			r.Fail(id, "header-"+name, fmt.Sprintf("%s: ReadFile returned %s (%v) with %d records, expected %s", name, res.Class, res.Err, res.N, wantClass), d2)
		}
	}
	// wrong magic: every byte of the magic
	for k := 0; k < 4; k++ {
		mut := append([]byte{}, gf.file...)
		mut[k] ^= byte(1 + r.Rng.Intn(255))
		try("wrong-magic", mut, "err", 0)
	}
	// ... and every single-bit flip of the magic, other version bytes, other letter cases
	var magics [][4]byte
	for bit := 0; bit < 32; bit++ {
		m := [4]byte{'O', 'b', 'j', 1}
		m[bit/8] ^= 1 << uint(bit%8)
		magics = append(magics, m)
	}
	magics = append(magics, [4]byte{'O', 'b', 'j', 0}, [4]byte{'O', 'b', 'j', 2}, [4]byte{'O', 'b', 'j', 0xff}, [4]byte{'o', 'b', 'j', 1},
		[4]byte{'O', 'B', 'J', 1}, [4]byte{0, 0, 0, 0}, [4]byte{'O', 'b', 'j', '1'}, [4]byte{1, 'j', 'b', 'O'})
	pick := r.Rng.Perm(len(magics))[:6]
	if r.Thorough() || len(gf.file) < 400 {
		pick = r.Rng.Perm(len(magics))
	}
	for _, pi := range pick {
		mut := append([]byte{}, gf.file...)
		copy(mut, magics[pi][:])
		try(fmt.Sprintf("wrong-magic:%x", magics[pi]), mut, "err", 0)
	}
	// missing schema
	noSchema := &Container{Codec: c.Codec, Sync: c.Sync, Blocks: c.Blocks}
	try("missing-schema", containerWithMeta(noSchema, map[string][]byte{"avro.codec": []byte(c.Codec)}), "err", 0)
	// unknown codec: a name no decompressor answers to, the empty name (an entry that is present
	// is not a missing entry), and near misses of the three supported names
	names := []string{"zstandard", ""}
	near := []string{"Null", "NULL", "nul", "null ", " null", "null\x00", "deflate ", "Deflate", "deflat", "snapp", "snappyy", "Snappy", "bzip2", "xz", "n", "\x00"}
	for k := 0; k < 2; k++ {
		names = append(names, near[r.Rng.Intn(len(near))])
	}
	for _, nm := range names {
		try(fmt.Sprintf("unknown-codec:%q", nm), containerWithMeta(c, map[string][]byte{"avro.schema": c.SchemaJSON, "avro.codec": []byte(nm)}), "err", 0)
	}
	// schema that is not JSON
	try("schema-not-json", containerWithMeta(c, map[string][]byte{"avro.schema": []byte(`{"type":"record","fields":[`), "avro.codec": []byte(c.Codec)}), "err", 0)
	// no codec entry: uncompressed
	if c.Codec == "null" || c.Codec == "" {
		try("no-codec-entry", containerWithMeta(c, map[string][]byte{"avro.schema": c.SchemaJSON}), "ok", len(gf.wants))
		// application metadata whose names resemble the reserved ones (only names starting with
		// "avro." are reserved): no codec entry still means uncompressed, and an entry called
		// "schema" is not the schema
		for _, nm := range []string{"codec", "Avro.codec", "avro_codec", "avro.codec "} {
			for _, val := range []string{"deflate", "h264"} {
				try(fmt.Sprintf("lookalike-entry:%s=%s", nm, val), containerWithMeta(c, map[string][]byte{"avro.schema": c.SchemaJSON, nm: []byte(val), "schema": []byte(`"long"`)}), "ok", len(gf.wants))
			}
		}
		for _, nm := range []string{"schema", "Avro.schema", "avro.schema ", "avro_schema"} {
			try("missing-schema:lookalike-"+nm, containerWithMeta(noSchema, map[string][]byte{"avro.codec": []byte("null"), nm: c.SchemaJSON}), "err", 0)
		}
	}
}

// containerWithMeta serialises c's blocks under the given metadata (codec for compression taken from c).
func containerWithMeta(c *Container, meta map[string][]byte) []byte {
	out := []byte{'O', 'b', 'j', 1}
	out = append(out, specVarint(int64(len(meta)))...)
	for _, k := range []string{"avro.schema", "avro.codec"} {
		if v, ok := meta[k]; ok {
			out = appendLP(out, []byte(k))
			out = appendLP(out, v)
		}
	}
	var others []string
	for k := range meta {
		if k != "avro.schema" && k != "avro.codec" {
			others = append(others, k)
		}
	}
	sort.Strings(others)
	for _, k := range others {
		out = appendLP(out, []byte(k))
		out = appendLP(out, meta[k])
	}
	if len(meta) > 0 {
		out = append(out, 0)
	}
	out = append(out, c.Sync[:]...)
	for _, b := range c.Blocks {
		raw := compressBlock(c.Codec, b.Payload)
		out = append(out, specVarint(b.Count)...)
		out = append(out, specVarint(int64(len(raw)))...)
		out = append(out, raw...)
		out = append(out, c.Sync[:]...)
	}
	return out
}

// C08: every cut position of every generated file.
// c08Oversize: blocks of one to eight MiB (thorough: up to 65 MiB) — sizes at which a reader may
// switch to another way of fetching the payload — cut inside the big block, judged by the
// property's own rule (the records of the blocks whose payload is wholly present, then an
// error); the whole file must read back complete.  No model case: the file is too large to
// print as a term; the model's block loop is the same at every size (C08_cut_in_block).
type c08Row struct {
	ID  int64  `json:"id"`
	Pad []byte `json:"pad"`
}

func c08Oversize(r *Run) {
	sizes := []int{1<<20 + 4321, 4<<20 + 70001, 8<<20 + 12345}
	if r.Thorough() {
		sizes = append(sizes, 16<<20+999, 33<<20+77, 65<<20+5)
	}
	schema := `{"type":"record","name":"Row","fields":[{"name":"id","type":"long"},{"name":"pad","type":"bytes"}]}`
	rec := func(id int64, pad []byte) []byte {
		out := specVarint(id)
		out = append(out, specVarint(int64(len(pad)))...)
		return append(out, pad...)
	}
	for si, size := range sizes {
		for _, codec := range []string{"null", codecNames[1+(si+int(r.Seed))%2]} {
			ct := &Container{SchemaJSON: []byte(schema), Codec: codec, Sync: randSync(r.Rng)}
			var pads [][]byte
			id := int64(0)
			small := func(n int) CBlock {
				var b CBlock
				for k := 0; k < n; k++ {
					pad := []byte(fmt.Sprintf("small-%d", id))
					pads = append(pads, pad)
					b.Payload = append(b.Payload, rec(id, pad)...)
					b.Count++
					id++
				}
				return b
			}
			b0 := small(2)
			var b1 CBlock
			for k := 0; k < 8; k++ {
				pad := make([]byte, size/8)
				r.Rng.Read(pad) // incompressible: the stored length is what a reader's threshold looks at
				pads = append(pads, pad)
				b1.Payload = append(b1.Payload, rec(id, pad)...)
				b1.Count++
				id++
			}
			b2 := small(1)
			ct.Blocks = []CBlock{b0, b1, b2}
			file := ct.Bytes(false)
			perBlk := []int{2, 8, 1}
			read := func(in []byte) (ids []int64, bad string, err error) {
				defer func() {
					if p := recover(); p != nil {
						err = fmt.Errorf("PANIC: %v", p)
					}
				}()
				err = avro.ReadFile(bytes.NewReader(in), c08Row{}, func(val unsafe.Pointer, rb *avro.ResourceBank) error {
					row := (*c08Row)(val)
					if row.ID >= 0 && row.ID < int64(len(pads)) && !bytes.Equal(row.Pad, pads[row.ID]) && bad == "" {
						bad = fmt.Sprintf("record %d delivered with a payload that was not written", row.ID)
					}
					ids = append(ids, row.ID)
					return nil
				})
				return
			}
			desc := map[string]any{"schema": schema, "codec": codec, "blocks": perBlk, "big_block_stored_bytes": len(ct.Blocks[1].Raw), "file_bytes": len(file),
				"how": "blocks of 2, 8 and 1 records {id long, pad bytes}; the 8 pads are size/8 random bytes from the run's generator"}
			r.Count(fmt.Sprintf("oversize/%s/%dMiB", codec, size>>20))
			check := func(p int, want int, wantOK bool) {
				ids, bad, err := read(file[:p])
				d2 := withKV(desc, "cut", p)
				okIDs := len(ids) == want
				for k := range ids {
					if k < want && ids[k] != int64(k) {
						okIDs = false
					}
				}
				switch {
				case err != nil && strings.HasPrefix(err.Error(), "PANIC"):
					r.Fail(-1, "truncation-panic", fmt.Sprintf("big block (%d stored bytes, %s) cut at %d panics: %v", len(ct.Blocks[1].Raw), codec, p, err), d2)
				case wantOK && err != nil:
					r.Fail(-1, "boundary-cut-rejected", fmt.Sprintf("big block (%d stored bytes, %s): cut at the boundary %d refused: %v", len(ct.Blocks[1].Raw), codec, p, err), d2)
				case !wantOK && err == nil:
					r.Fail(-1, "truncation-accepted", fmt.Sprintf("big block (%d stored bytes, %s) cut at %d (not a boundary) reported success with %d records", len(ct.Blocks[1].Raw), codec, p, len(ids)), d2)
				case !okIDs || bad != "":
					r.Fail(-1, "truncation-records", fmt.Sprintf("big block (%d stored bytes, %s) cut at %d: delivered %d records %v, expected the %d of the complete blocks %s", len(ct.Blocks[1].Raw), codec, p, len(ids), headIDs(ids), want, bad), d2)
				}
				r.Count("oversize/cuts")
			}
			check(len(file), 11, true)
			check(ct.BlockEnds[0], 2, true)
			check(ct.BlockEnds[1], 10, true)
			start := ct.BlockEnds[1] - 16 - len(ct.Blocks[1].Raw)
			raw := len(ct.Blocks[1].Raw)
			for _, off := range []int{1, 9, raw/8 + 7, raw / 2, raw - raw/8 - 3, raw - 1, raw, raw + 7} {
				// off <= raw-1: inside the stored payload; raw .. raw+15: payload complete, sync marker cut
				want := 2
				if off >= raw {
					want = 10
				}
				check(start+off, want, false)
			}
			check(ct.BlockEnds[1]+1, 10, false)
			check(len(file)-3, 11, false)
		}
	}
}

func headIDs(ids []int64) []int64 {
	if len(ids) > 14 {
		return ids[:14]
	}
	return ids
}

func runC08(r *Run) {
	c08Oversize(r)
	nfiles := r.N(25, 200)
	for i := 0; i < nfiles; i++ {
		isHuge := i%12 == 11
		if isHuge {
			hugePayload = 8192 + 600 + r.Rng.Intn(3000)
			if r.Thorough() && i%24 == 23 {
				hugePayload = 2*32768 + 100 + r.Rng.Intn(5000)
			}
		}
		gf := genFileOpt(r, 6, i%6 == 5)
		c := gf.ct
		desc := map[string]any{"schema": schemaJSON(gf.s), "target": gf.g.Coq(), "codec": c.Codec, "blocks": gf.perBlk, "file": hexs(gf.file)}
		r.Count("codec/" + c.Codec)
		if i%6 == 5 {
			r.Count("multi-byte-count")
		}
		// boundaries: end of header and of every block
		okCut := map[int]int{c.HeaderLen: 0}
		acc := 0
		for bi, end := range c.BlockEnds {
			acc += gf.perBlk[bi]
			okCut[end] = acc
		}
		cuts := make([]int, 0, len(gf.file)+1)
		if len(gf.file) <= r.N(400, 100000) && i%6 != 5 {
			for p := 0; p <= len(gf.file); p++ {
				cuts = append(cuts, p)
			}
		} else {
			seen := map[int]bool{}
			add := func(p int) {
				if p >= 0 && p <= len(gf.file) && !seen[p] {
					seen[p] = true
					cuts = append(cuts, p)
				}
			}
			for b := range okCut {
				for d := -3; d <= 3; d++ {
					add(b + d)
				}
			}
			for _, end := range c.BlockEnds {
				for d := -18; d <= -14; d++ {
					add(end + d)
				}
			}
			nrand := 300
			if i%6 == 5 {
				nrand = 25
			}
			if isHuge {
				// inside the first block's stored bytes: every multiple of 512 from their start
				nrand = 4
				start := c.BlockEnds[0] - 16 - len(c.Blocks[0].Raw)
				step := 512
				if len(c.Blocks[0].Raw) > 40000 {
					step = 4096
				}
				for q := start + step; q < c.BlockEnds[0]-16; q += step {
					add(q)
				}
				r.Count("huge-block")
			}
			for k := 0; k < nrand; k++ {
				add(r.Rng.Intn(len(gf.file) + 1))
			}
		}
		for _, p := range cuts {
			cut := gf.file[:p]
			res := readFileImpl(gf.g, cut, -1, p%2 == 0)
			d2 := withKV(desc, "cut", p)
			id := addFileCase(r, gf, cut, -1, res, d2, fmt.Sprintf("cut/%d/%x", p, gf.file))
			// expected: records of the blocks whose stored payload lies inside the cut
			want := 0
			for bi, end := range c.BlockEnds {
				if p >= end-16 {
					want += gf.perBlk[bi]
				}
			}
			n, isOK := okCut[p]
			switch {
			case res.Class == "panic":
				r.Fail(id, "truncation-panic", fmt.Sprintf("cut at %d panics: %v", p, res.Err), d2)
			case isOK && res.Class != "ok":
				r.Fail(id, "boundary-cut-rejected", fmt.Sprintf("cut at the boundary %d: %s (%v)", p, res.Class, res.Err), d2)
			case isOK:
				r.Count("cut/boundary")
				checkValues(r, id, gf, res, n, d2, "truncation-records")
			case res.Class == "ok":
				r.Fail(id, "truncation-accepted", fmt.Sprintf("cut at %d (not a boundary) reported success with %d records", p, res.N), d2)
			default:
				r.Count("cut/inside")
				checkValues(r, id, gf, res, want, d2, "truncation-records")
			}
		}
	}
}

// c07FileSchema: avro.FileSchema(path) returns the schema of the header (compared as
// parsed schemas with what SchemaFromString gives for the header's avro.schema entry);
// a file cut inside its header is an error.
func c07FileSchema(r *Run, gf *genFileT, desc map[string]any) {
	f, err := os.CreateTemp("", "avro-c07-*.avro")
	if err != nil {
		return
	}
	defer os.Remove(f.Name())
	f.Write(gf.file)
	f.Close()
	call := func(path string) (s avro.Schema, err error) {
		defer func() {
			if p := recover(); p != nil {
				err = fmt.Errorf("PANIC: %v", p)
			}
		}()
		return avro.FileSchema(path)
	}
	got, err := call(f.Name())
	want, werr := avro.SchemaFromString(string(gf.ct.SchemaJSON))
	r.Count("fileschema")
	switch {
	case isPanicErr(err):
		r.Fail(-1, "fileschema", "FileSchema panics on a valid file: "+err.Error(), desc)
	case err != nil:
		r.Fail(-1, "fileschema", "FileSchema fails on a valid file: "+err.Error(), desc)
	case werr == nil && schemaJSON(got) != schemaJSON(want):
		r.Fail(-1, "fileschema", "FileSchema returns "+schemaJSON(got)+", the header carries "+schemaJSON(want), desc)
	}
	// cut inside the header
	cut := gf.file[:r.Rng.Intn(gf.ct.HeaderLen)]
	os.WriteFile(f.Name(), cut, 0o600)
	if _, err := call(f.Name()); err == nil || isPanicErr(err) {
		r.Fail(-1, "fileschema", fmt.Sprintf("FileSchema on a file cut %d bytes into its header: err=%v", len(cut), err), desc)
	}
	if _, err := call(f.Name() + ".does-not-exist"); err == nil || isPanicErr(err) {
		r.Fail(-1, "fileschema", fmt.Sprintf("FileSchema on a missing file: err=%v", err), desc)
	}
}
