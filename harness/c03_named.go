package main

import (
	"bytes"
	"fmt"
	"unsafe"

	"github.com/philpearl/avro"
)

// c03NamedTargets: a file written by NewEncoderFor[T] carries T's own name and the dotted path
// of T's package as namespace.  It is read into OTHER named struct types of the same package -
// a projection type, a variant with other integer / float / pointer widths, a type with extra
// fields - and into T itself.  The reader selects fields by name; what the record is called, and
// what the Go type is called, plays no part.
type c03Account struct {
	ID      int64    `json:"id"`
	Owner   string   `json:"owner"`
	Balance float64  `json:"balance"`
	Tags    []string `json:"tags"`
	Limit   *int64   `json:"limit"`
}
type c03AccountCompact struct {
	ID    int32  `json:"id"`
	Owner string `json:"owner"`
}
type c03AccountWide struct {
	Note    string   `json:"note"`
	Limit   *int64   `json:"limit"`
	ID      *int64   `json:"id"`
	Balance float32  `json:"balance"`
	Tags    []string `json:"tags"`
	Owner   string   `json:"owner"`
	Extra   []int64  `json:"extra"`
}
type c03AccountNone struct {
	Other int64 `json:"other"`
}

func c03NamedTargets(r *Run) {
	lim := int64(500)
	rows := []c03Account{
		{ID: 1, Owner: "ann", Balance: 12.5, Tags: []string{"a", "b"}, Limit: &lim},
		{ID: -2, Owner: "", Balance: -0.25, Tags: nil, Limit: nil},
		{ID: 2147483647, Owner: "zed", Balance: 1024, Tags: []string{"x"}, Limit: &lim},
	}
	for _, codec := range codecNames {
		var buf bytes.Buffer
		enc, err := avro.NewEncoderFor[c03Account](&buf, avro.Compression(codec), 40)
		if err != nil {
			r.Fail(-1, "compat-build", "NewEncoderFor[c03Account]: "+err.Error(), nil)
			return
		}
		for i := range rows {
			if err := enc.Encode(&rows[i]); err != nil {
				r.Fail(-1, "compat-build", "Encode: "+err.Error(), nil)
				return
			}
		}
		enc.Flush()
		file := buf.Bytes()
		read := func(out any, cb func(p unsafe.Pointer) string) (n int, bad string, err error) {
			defer func() {
				if p := recover(); p != nil {
					err = fmt.Errorf("PANIC: %v", p)
				}
			}()
			err = avro.ReadFile(&c07LenReader{r: bytes.NewReader(file), window: 16}, out, func(val unsafe.Pointer, rb *avro.ResourceBank) error {
				if m := cb(val); m != "" && bad == "" {
					bad = fmt.Sprintf("record %d: %s", n, m)
				}
				n++
				return nil
			})
			return
		}
		type tc struct {
			name string
			out  any
			cb   func(i int, p unsafe.Pointer) string
		}
		i := 0
		cases := []tc{
			{"the written type itself", c03Account{}, func(i int, p unsafe.Pointer) string {
				v := (*c03Account)(p)
				if v.ID != rows[i].ID || v.Owner != rows[i].Owner || v.Balance != rows[i].Balance || len(v.Tags) != len(rows[i].Tags) || (v.Limit == nil) != (rows[i].Limit == nil) {
					return fmt.Sprintf("decoded %+v, written %+v", *v, rows[i])
				}
				return ""
			}},
			{"a projection type of the same package with a narrower integer (c03AccountCompact)", c03AccountCompact{}, func(i int, p unsafe.Pointer) string {
				v := (*c03AccountCompact)(p)
				if int64(v.ID) != rows[i].ID || v.Owner != rows[i].Owner {
					return fmt.Sprintf("decoded %+v, written id %d owner %q", *v, rows[i].ID, rows[i].Owner)
				}
				return ""
			}},
			{"a reordered type of the same package with other widths and extra fields (c03AccountWide)", &c03AccountWide{}, func(i int, p unsafe.Pointer) string {
				v := (*c03AccountWide)(p)
				if v.ID == nil || *v.ID != rows[i].ID || v.Owner != rows[i].Owner || float64(v.Balance) != rows[i].Balance || v.Note != "" || v.Extra != nil ||
					len(v.Tags) != len(rows[i].Tags) || (v.Limit == nil) != (rows[i].Limit == nil) || (v.Limit != nil && *v.Limit != *rows[i].Limit) {
					return fmt.Sprintf("decoded %+v, written %+v", *v, rows[i])
				}
				return ""
			}},
			{"a type of the same package that keeps no field (c03AccountNone)", c03AccountNone{}, func(i int, p unsafe.Pointer) string {
				if v := (*c03AccountNone)(p); v.Other != 0 {
					return fmt.Sprintf("decoded %+v into a struct none of whose fields is in the file", *v)
				}
				return ""
			}},
		}
		for _, c := range cases {
			i = 0
			n, bad, err := read(c.out, func(p unsafe.Pointer) string { m := c.cb(i, p); i++; return m })
			r.Count("named-targets/" + codec)
			desc := map[string]any{"codec": codec, "target": c.name, "file": hexs(file)}
			switch {
			case err != nil:
				r.Fail(-1, "legal-rejected", fmt.Sprintf("a file written by NewEncoderFor[c03Account] read into %s: %v", c.name, err), desc)
			case n != len(rows):
				r.Fail(-1, "legal-rejected", fmt.Sprintf("a file of %d records read into %s: %d delivered", len(rows), c.name, n), desc)
			case bad != "":
				r.Fail(-1, "wrong-value", fmt.Sprintf("a file written by NewEncoderFor[c03Account] read into %s: %s", c.name, bad), desc)
			}
		}
	}
}

// c04Aliases: attributes of the writer's schema that the reader does not use - aliases, doc,
// default, order - leave the selection of fields by name alone: a target without the field
// `net` does not receive its value under another name, and a field the file does not contain
// stays zero even when some field of the file lists its name as an alias.
func c04Aliases(r *Run) {
	schema := `{"type":"record","name":"Sale","aliases":["Order"],"fields":[` +
		`{"name":"id","type":"long","doc":"key","order":"descending"},` +
		`{"name":"amount","type":"long","default":0},` +
		`{"name":"net","type":"long","aliases":["amount","total"],"default":0},` +
		`{"name":"label","type":"string","aliases":["name","id"]},` +
		`{"name":"tail","type":"long"}]}`
	type full struct {
		ID     int64  `json:"id"`
		Amount int64  `json:"amount"`
		Net    int64  `json:"net"`
		Label  string `json:"label"`
		Tail   int64  `json:"tail"`
	}
	type noNet struct {
		ID     int64 `json:"id"`
		Amount int64 `json:"amount"`
		Tail   int64 `json:"tail"`
	}
	type absent struct {
		Tail  int64  `json:"tail"`
		Total int64  `json:"total"`
		Name  string `json:"name"`
	}
	type onlyAlias struct {
		Total int64 `json:"total"`
	}
	var payload []byte
	vals := [][3]int64{{1, 120, 100}, {2, 60, 50}, {3, 0, -7}}
	for _, v := range vals {
		payload = append(payload, specVarint(v[0])...)
		payload = append(payload, specVarint(v[1])...)
		payload = append(payload, specVarint(v[2])...)
		l := fmt.Sprintf("row-%d", v[0])
		payload = append(payload, specVarint(int64(len(l)))...)
		payload = append(payload, l...)
		payload = append(payload, specVarint(77)...)
	}
	for _, codec := range codecNames {
		ct := &Container{SchemaJSON: []byte(schema), Codec: codec, Sync: randSync(r.Rng), Blocks: []CBlock{{Count: int64(len(vals)), Payload: payload}}}
		file := ct.Bytes(false)
		read := func(out any, check func(i int, p unsafe.Pointer) string) (bad string) {
			defer func() {
				if p := recover(); p != nil {
					bad = fmt.Sprintf("PANIC: %v", p)
				}
			}()
			n := 0
			err := avro.ReadFile(bytes.NewReader(file), out, func(val unsafe.Pointer, rb *avro.ResourceBank) error {
				if m := check(n, val); m != "" && bad == "" {
					bad = fmt.Sprintf("record %d: %s", n, m)
				}
				n++
				return nil
			})
			if err != nil {
				return err.Error()
			}
			if n != len(vals) && bad == "" {
				bad = fmt.Sprintf("%d of %d records", n, len(vals))
			}
			return
		}
		checks := []struct {
			name string
			out  any
			f    func(i int, p unsafe.Pointer) string
		}{
			{"the full target", full{}, func(i int, p unsafe.Pointer) string {
				v := (*full)(p)
				if v.ID != vals[i][0] || v.Amount != vals[i][1] || v.Net != vals[i][2] || v.Tail != 77 {
					return fmt.Sprintf("%+v", *v)
				}
				return ""
			}},
			{"a target without the field net (which lists amount as an alias)", noNet{}, func(i int, p unsafe.Pointer) string {
				v := (*noNet)(p)
				if v.ID != vals[i][0] || v.Amount != vals[i][1] || v.Tail != 77 {
					return fmt.Sprintf("%+v, the full decode has id %d amount %d tail 77", *v, vals[i][0], vals[i][1])
				}
				return ""
			}},
			{"a target with fields total and name, which the file does not contain (fields of the file list them as aliases)", absent{}, func(i int, p unsafe.Pointer) string {
				v := (*absent)(p)
				if v.Tail != 77 || v.Total != 0 || v.Name != "" {
					return fmt.Sprintf("%+v, fields the file does not contain must stay zero", *v)
				}
				return ""
			}},
			{"a target with the field total alone", onlyAlias{}, func(i int, p unsafe.Pointer) string {
				if v := (*onlyAlias)(p); v.Total != 0 {
					return fmt.Sprintf("%+v, the file has no field total", *v)
				}
				return ""
			}},
		}
		for _, c := range checks {
			r.Count("aliases/" + codec)
			if bad := read(c.out, c.f); bad != "" {
				r.Fail(-1, "projection-differs", fmt.Sprintf("schema with aliases / doc / default / order attributes, %s: %s", c.name, bad), map[string]any{"schema": schema, "codec": codec, "target": c.name})
			}
		}
	}
}
