module verifharness

go 1.24

toolchain go1.24.0

require (
	github.com/golang/snappy v1.0.0
	github.com/philpearl/avro v0.0.0
	github.com/unravelin/null/v5 v5.0.1
)

require (
	github.com/go-json-experiment/json v0.0.0-20250213060926-925ba3f173fa // indirect
	github.com/josharian/intern v1.0.0 // indirect
	github.com/mailru/easyjson v0.7.7 // indirect
)

replace github.com/philpearl/avro => /repo
