package main

import (
	"bytes"
	"fmt"
	"unsafe"

	"github.com/philpearl/avro"
)

// c03SlotReuse: files of several blocks in which the record at position i of one block is rich
// (pointer set, slice, map and bytes filled) and the record at the same position of the next
// block is empty (null, empty array, empty map, empty bytes), and the reverse; read with out by
// value and as a pointer.  Whatever storage the reader keeps from block to block, a record never
// shows what another record held.
type c03Slot struct {
	ID   int64            `json:"id"`
	Note *string          `json:"note"`
	Tags []string         `json:"tags"`
	M    map[string]int64 `json:"m"`
	B    []byte           `json:"b"`
}

func c03SlotReuse(r *Run) {
	for _, codec := range codecNames {
		for _, per := range []int{1, 3, 4} {
			var buf bytes.Buffer
			enc, err := avro.NewEncoderFor[c03Slot](&buf, avro.Compression(codec), 1<<20)
			if err != nil {
				r.Fail(-1, "compat-build", "NewEncoderFor[c03Slot]: "+err.Error(), nil)
				return
			}
			var want []c03Slot
			for blk := 0; blk < 5; blk++ {
				for i := 0; i < per; i++ {
					v := c03Slot{ID: int64(blk*100 + i)}
					if (blk+i/2)%2 == 0 {
						n := fmt.Sprintf("note-%d-%d", blk, i)
						v.Note, v.Tags, v.M, v.B = &n, []string{"x", n}, map[string]int64{n: int64(i)}, []byte(n)
					}
					want = append(want, v)
					enc.Encode(&v)
				}
				enc.Flush()
			}
			for _, byPointer := range []bool{false, true} {
				var out any = c03Slot{}
				if byPointer {
					out = &c03Slot{}
				}
				n, bad := 0, ""
				err := func() (err error) {
					defer func() {
						if p := recover(); p != nil {
							err = fmt.Errorf("PANIC: %v", p)
						}
					}()
					return avro.ReadFile(bytes.NewReader(buf.Bytes()), out, func(val unsafe.Pointer, rb *avro.ResourceBank) error {
						v := (*c03Slot)(val)
						if n < len(want) && bad == "" {
							w := want[n]
							switch {
							case v.ID != w.ID:
								bad = fmt.Sprintf("record %d has id %d, written %d", n, v.ID, w.ID)
							case (v.Note == nil) != (w.Note == nil) || (v.Note != nil && *v.Note != *w.Note):
								bad = fmt.Sprintf("record %d: note differs (written nil: %v, read nil: %v)", n, w.Note == nil, v.Note == nil)
							case len(v.Tags) != len(w.Tags) || len(v.M) != len(w.M) || string(v.B) != string(w.B):
								bad = fmt.Sprintf("record %d: %d tags, %d map entries, %d bytes; written %d, %d, %d", n, len(v.Tags), len(v.M), len(v.B), len(w.Tags), len(w.M), len(w.B))
							}
						}
						n++
						return nil
					})
				}()
				r.Count("slot-reuse/" + codec)
				if err != nil || n != len(want) || bad != "" {
					r.Fail(-1, "wrong-value", fmt.Sprintf("five blocks of %d records, rich and empty records alternating at every position of consecutive blocks (%s, out by pointer: %v): %d of %d records, error %v; %s", per, codec, byPointer, n, len(want), err, bad), map[string]any{"codec": codec, "per_block": per, "out_by_pointer": byPointer})
				}
			}
		}
	}
}

// c01AdjacentFloats: float32 and float64 fields next to each other (a float32 is carried as a
// double: eight bytes on the wire, four in memory), through the Encoder and ReadFile.
type c01Floats struct {
	Lat    float64 `json:"lat"`
	Weight float32 `json:"weight"`
	Height float32 `json:"height"`
	Lon    float64 `json:"lon"`
	Scale  float32 `json:"scale"`
	Name   string  `json:"name"`
	Last   float32 `json:"last"`
}

func c01AdjacentFloats(r *Run) {
	rows := []c01Floats{{1.5, 2.25, -3.5, 4.125, 0.1, "a", 7}, {-0.0, 3.4e38, 1e-45, 1e300, -1, "", 0}, {2, 2, 2, 2, 2, "zz", 2}}
	for _, codec := range codecNames {
		var buf bytes.Buffer
		enc, err := avro.NewEncoderFor[c01Floats](&buf, avro.Compression(codec), 30)
		if err != nil {
			r.Fail(-1, "roundtrip-write-error", "NewEncoderFor[c01Floats]: "+err.Error(), nil)
			return
		}
		for i := range rows {
			enc.Encode(&rows[i])
		}
		enc.Flush()
		n, bad := 0, ""
		err = func() (err error) {
			defer func() {
				if p := recover(); p != nil {
					err = fmt.Errorf("PANIC: %v", p)
				}
			}()
			return avro.ReadFile(bytes.NewReader(buf.Bytes()), c01Floats{}, func(val unsafe.Pointer, rb *avro.ResourceBank) error {
				if v := *(*c01Floats)(val); n < len(rows) && v != rows[n] && bad == "" {
					bad = fmt.Sprintf("record %d reads %+v, written %+v", n, v, rows[n])
				}
				n++
				return nil
			})
		}()
		r.Count("adjacent-floats/" + codec)
		if err != nil || n != len(rows) || bad != "" {
			r.Fail(-1, "roundtrip-value", fmt.Sprintf("float32 and float64 fields next to each other (%s): %d of %d records, error %v; %s", codec, n, len(rows), err, bad), map[string]any{"codec": codec})
		}
	}
}

// c05ReadFileIntoField: ReadFile with out pointing INTO a larger value - a pointer-free struct of
// twelve bytes between two canaries, and the same with a string field.  ReadFile clears and
// fills the record it was pointed at and nothing around it.
func c05ReadFileIntoField(r *Run) {
	type small struct {
		A int32 `json:"a"`
		B int32 `json:"b"`
		C int32 `json:"c"`
	}
	type odd struct {
		S string `json:"s"`
		A int16  `json:"a"`
	}
	type frame1 struct {
		Before uint64
		Rec    small
		After  [3]uint32
	}
	type frame2 struct {
		Before uint64
		Rec    odd
		After  [7]uint16
	}
	mk := func(schema string, rows [][]byte) []byte {
		ct := &Container{SchemaJSON: []byte(schema), Codec: "null", Sync: randSync(r.Rng)}
		var payload []byte
		for _, row := range rows {
			payload = append(payload, row...)
		}
		ct.Blocks = []CBlock{{Count: int64(len(rows)), Payload: payload}}
		return ct.Bytes(false)
	}
	f1 := mk(`{"type":"record","name":"s","fields":[{"name":"a","type":"int"},{"name":"b","type":"int"},{"name":"c","type":"int"}]}`, [][]byte{{2, 4, 6}, {8, 10, 12}})
	f2 := mk(`{"type":"record","name":"o","fields":[{"name":"s","type":"string"},{"name":"a","type":"int"}]}`, [][]byte{{2, 'x', 4}, {0, 6}})
	x := frame1{Before: 0xA1A2A3A4A5A6A7A8, After: [3]uint32{0xB1B2B3B4, 0xC1C2C3C4, 0xD1D2D3D4}}
	y := frame2{Before: 0xA1A2A3A4A5A6A7A8}
	for i := range y.After {
		y.After[i] = 0xE0E0 + uint16(i)
	}
	wantY := y.After
	call := func(file []byte, out any) (err error) {
		defer func() {
			if p := recover(); p != nil {
				err = fmt.Errorf("PANIC: %v", p)
			}
		}()
		return avro.ReadFile(bytes.NewReader(file), out, func(unsafe.Pointer, *avro.ResourceBank) error { return nil })
	}
	r.Count("readfile-into-field")
	if err := call(f1, &x.Rec); err != nil {
		r.Fail(-1, "store-outside-destination", "ReadFile into a field of a larger struct: "+err.Error(), nil)
	} else if x.Before != 0xA1A2A3A4A5A6A7A8 || x.After != [3]uint32{0xB1B2B3B4, 0xC1C2C3C4, 0xD1D2D3D4} || x.Rec != (small{4, 5, 6}) {
		r.Fail(-1, "store-outside-destination", fmt.Sprintf("ReadFile with out pointing at a 12-byte struct inside a larger one: the memory around it reads %#x / %#x (was a1a2... / b1b2b3b4 c1c2c3c4 d1d2d3d4), the record %+v", x.Before, x.After, x.Rec), map[string]any{"out": "pointer to struct{A,B,C int32} between two canaries"})
	}
	if err := call(f2, &y.Rec); err != nil {
		r.Fail(-1, "store-outside-destination", "ReadFile into a field of a larger struct: "+err.Error(), nil)
	} else if y.Before != 0xA1A2A3A4A5A6A7A8 || y.After != wantY || y.Rec.A != 3 {
		r.Fail(-1, "store-outside-destination", fmt.Sprintf("ReadFile with out pointing at struct{string; int16} inside a larger one: the memory around it changed (%#x / %#x), the record %+v", y.Before, y.After, y.Rec), nil)
	}
}

// c07LenReader has a Len method that reports what it holds buffered at the moment - a window of
// 64 bytes over the data - not what is left of the input.
type c07LenReader struct {
	r      *bytes.Reader
	window int
}

func (l *c07LenReader) Read(p []byte) (int, error) {
	if len(p) > l.window {
		p = p[:l.window]
	}
	return l.r.Read(p)
}
func (l *c07LenReader) ReadByte() (byte, error) { return l.r.ReadByte() }
func (l *c07LenReader) Len() int                { return min(l.window, l.r.Len()) }

// c03HugeSchema: a wide table - three thousand columns, a schema document of about 150 KB (the
// specification sets no limit on a header entry), and a 1.2 MB one - read into a two-field
// projection; the values of the kept columns come back.
func c03HugeSchema(r *Run) {
	for _, cols := range []int{3000, 20000} {
		if cols > 3000 && !r.Thorough() && r.Seed%2 == 0 {
			continue
		}
		var sb bytes.Buffer
		sb.WriteString(`{"type":"record","name":"Wide","fields":[`)
		var row []byte
		for i := 0; i < cols; i++ {
			if i > 0 {
				sb.WriteByte(',')
			}
			fmt.Fprintf(&sb, `{"name":"column_number_%05d","type":["null","long"],"doc":"c%d"}`, i, i)
			row = append(row, 2)
			row = append(row, specVarint(int64(i*3))...)
		}
		sb.WriteString(`]}`)
		type proj struct {
			First *int64 `json:"column_number_00000"`
			Mid   *int64 `json:"column_number_01500"`
		}
		for _, codec := range []string{"null", "snappy"} {
			ct := &Container{SchemaJSON: sb.Bytes(), Codec: codec, Sync: randSync(r.Rng), Blocks: []CBlock{{Count: 2, Payload: append(append([]byte{}, row...), row...)}}}
			file := ct.Bytes(false)
			n, bad := 0, ""
			err := func() (err error) {
				defer func() {
					if p := recover(); p != nil {
						err = fmt.Errorf("PANIC: %v", p)
					}
				}()
				return avro.ReadFile(bytes.NewReader(file), proj{}, func(val unsafe.Pointer, rb *avro.ResourceBank) error {
					v := (*proj)(val)
					if v.First == nil || *v.First != 0 || v.Mid == nil || *v.Mid != 4500 {
						bad = "the kept columns do not hold what was written"
					}
					n++
					return nil
				})
			}()
			r.Count("huge-schema")
			if err != nil || n != 2 || bad != "" {
				r.Fail(-1, "legal-rejected", fmt.Sprintf("a valid file of %d columns (schema document of %d bytes, %s): %d of 2 records, error %v %s", cols, sb.Len(), codec, n, err, bad), map[string]any{"columns": cols, "schema_bytes": sb.Len(), "codec": codec})
			}
		}
	}
}
