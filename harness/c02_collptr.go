package main

import (
	"bytes"
	"encoding/json"
	"fmt"
	"time"
	"unsafe"

	"github.com/philpearl/avro"
)

// c02NilCollectionPointers: pointers to slices and maps, plain (schema: the array / map itself,
// a nil pointer is written as the empty collection) and behind omitempty (schema: [null, array]
// / [null, map]: a nil pointer is the null branch, a pointer to an empty collection the empty
// collection, so null stays distinguishable).  The bytes are compared with the specification's
// encoding written out by hand, and the records are read back.
type c02CollPtr struct {
	ID int64             `json:"id"`
	P  *[]int64          `json:"p,omitempty"`
	M  *map[string]int64 `json:"m,omitempty"`
	Q  *[]int64          `json:"q"`
	S  string            `json:"s"`
}

// c01WideMap: map values wider than 128 bytes (the runtime stores those indirectly).
type c01Wide struct {
	A0, A1, A2, A3, A4, A5, A6, A7, A8, A9, A10, A11, A12, A13, A14, A15, A16 int64
	N                                                                         string `json:"n"`
}

func (w *c01Wide) set(j int, v int64) {
	*(*int64)(unsafe.Add(unsafe.Pointer(w), j*8)) = v // seventeen int64 fields in a row
}

type c01WideMap struct {
	M  map[string]c01Wide  `json:"m"`
	MP map[string]*c01Wide `json:"mp"`
	T  int64               `json:"t"`
}

func c02NilCollectionPointers(r *Run) {
	empty, one := []int64{}, []int64{7}
	em, m1 := map[string]int64{}, map[string]int64{"k": 7}
	rows := []struct {
		v    c02CollPtr
		want []byte
	}{
		{c02CollPtr{ID: 1, S: "x"}, []byte{2, 0, 0, 0, 2, 'x'}},
		{c02CollPtr{ID: 2, P: &empty, M: &em, Q: &empty, S: "y"}, []byte{4, 2, 0, 2, 0, 0, 2, 'y'}},
		{c02CollPtr{ID: 3, P: &one, M: &m1, Q: &one, S: ""}, []byte{6, 2, 2, 14, 0, 2, 2, 2, 'k', 14, 0, 2, 14, 0, 0}},
		{c02CollPtr{ID: 4, P: nil, M: &m1, Q: nil, S: "z"}, []byte{8, 0, 2, 2, 2, 'k', 14, 0, 0, 2, 'z'}},
	}
	s, err := avro.SchemaForType(c02CollPtr{})
	if err != nil {
		r.Fail(-1, "roundtrip-write-error", "SchemaForType(c02CollPtr): "+err.Error(), nil)
		return
	}
	codec, err := s.Codec(c02CollPtr{})
	if err != nil {
		r.Fail(-1, "roundtrip-write-error", "Schema.Codec(c02CollPtr): "+err.Error(), nil)
		return
	}
	for i := range rows {
		row := &rows[i]
		desc := map[string]any{"schema": schemaJSON(s), "record": i}
		r.Count("nil-collection-pointers")
		func() {
			defer func() {
				if p := recover(); p != nil {
					r.Fail(-1, "roundtrip-write-error", fmt.Sprintf("record %d: panic %v", i, p), desc)
				}
			}()
			w := avro.NewWriteBuf(nil)
			codec.Write(w, unsafe.Pointer(&row.v))
			if !bytes.Equal(w.Bytes(), row.want) {
				r.Fail(-1, "wrong-datum", fmt.Sprintf("record %d (pointers to collections: nil / empty / filled, with and without omitempty) is written as %x, the specification's encoding under the generated schema is %x", i, w.Bytes(), row.want), desc)
				return
			}
			var back c02CollPtr
			rb := avro.NewReadBuf(w.Bytes())
			if err := codec.Read(rb, unsafe.Pointer(&back)); err != nil || rb.Len() != 0 {
				r.Fail(-1, "roundtrip-read-error", fmt.Sprintf("record %d does not read back: %v, %d bytes left", i, err, rb.Len()), desc)
				return
			}
			if (back.P == nil) != (row.v.P == nil) || (back.M == nil) != (row.v.M == nil) || back.ID != row.v.ID || back.S != row.v.S ||
				(back.P != nil && len(*back.P) != len(*row.v.P)) || (back.M != nil && len(*back.M) != len(*row.v.M)) {
				r.Fail(-1, "roundtrip-value", fmt.Sprintf("record %d reads back with P nil=%v M nil=%v, written P nil=%v M nil=%v", i, back.P == nil, back.M == nil, row.v.P == nil, row.v.M == nil), desc)
			}
		}()
	}
}

type c01WideRes struct {
	Bad string `json:"bad"`
}

func init() {
	workerFns["c01wide"] = func(arg json.RawMessage) (any, error) {
		var codec string
		if err := json.Unmarshal(arg, &codec); err != nil {
			return nil, err
		}
		return c01WideRes{Bad: c01WideMapOne(codec)}, nil
	}
}

// c01WideMapValues runs in a child process: a map whose memory was damaged takes the whole
// process with it (or hangs it) as soon as it is looked at.
func c01WideMapValues(r *Run) {
	for _, codec := range codecNames {
		var res c01WideRes
		outcome, msg := isolated("c01wide", codec, &res, 30*time.Second)
		r.Count("wide-map-values/" + codec)
		switch {
		case outcome != "ok":
			r.Fail(-1, "roundtrip-read-error", fmt.Sprintf("maps whose values are 144 bytes wide (%s), written by the Encoder and read back: the process %s (%s)", codec, outcome, msg), map[string]any{"codec": codec})
		case res.Bad != "":
			r.Fail(-1, "roundtrip-value", fmt.Sprintf("maps whose values are 144 bytes wide (%s): %s", codec, res.Bad), map[string]any{"codec": codec})
		}
	}
}

func c01WideMapOne(codec string) string {
	{
		var buf bytes.Buffer
		enc, err := avro.NewEncoderFor[c01WideMap](&buf, avro.Compression(codec), 300)
		if err != nil {
			return "NewEncoderFor[c01WideMap]: " + err.Error()
		}
		mk := func(i, k int) c01Wide {
			var w c01Wide
			for j := 0; j < 17; j++ {
				w.set(j, int64(i*1000+k*100+j))
			}
			w.N = fmt.Sprintf("n-%d-%d", i, k)
			return w
		}
		const rows = 6
		for i := 0; i < rows; i++ {
			v := c01WideMap{M: map[string]c01Wide{}, MP: map[string]*c01Wide{}, T: int64(i)}
			for k := 0; k < 1+i*3; k++ {
				w := mk(i, k)
				v.M[fmt.Sprintf("key%d", k)] = w
				if k%2 == 0 {
					v.MP[fmt.Sprintf("key%d", k)] = &w
				} else {
					v.MP[fmt.Sprintf("key%d", k)] = nil
				}
			}
			if err := enc.Encode(&v); err != nil {
				return "Encode: " + err.Error()
			}
		}
		enc.Flush()
		n, bad := 0, ""
		err = func() (err error) {
			defer func() {
				if p := recover(); p != nil {
					err = fmt.Errorf("PANIC: %v", p)
				}
			}()
			return avro.ReadFile(bytes.NewReader(buf.Bytes()), c01WideMap{}, func(val unsafe.Pointer, rb *avro.ResourceBank) error {
				defer func() {
					if p := recover(); p != nil && bad == "" {
						bad = fmt.Sprintf("record %d: looking at the decoded map panics: %v", n, p)
					}
				}()
				v := (*c01WideMap)(val)
				i := n
				n++
				if v.T != int64(i) || len(v.M) != 1+i*3 || len(v.MP) != 1+i*3 {
					bad = fmt.Sprintf("record %d: t=%d, %d and %d entries (written %d)", i, v.T, len(v.M), len(v.MP), 1+i*3)
					return nil
				}
				for k := 0; k < 1+i*3; k++ {
					key := fmt.Sprintf("key%d", k)
					if got, want := v.M[key], mk(i, k); got != want && bad == "" {
						bad = fmt.Sprintf("record %d: m[%s] = %+v, written %+v", i, key, got, want)
					}
					p := v.MP[key]
					if (p == nil) != (k%2 != 0) || (p != nil && *p != mk(i, k)) {
						if bad == "" {
							bad = fmt.Sprintf("record %d: mp[%s] differs from what was written", i, key)
						}
					}
				}
				return nil
			})
		}()
		if err != nil || n != rows || bad != "" {
			return fmt.Sprintf("%d of %d records, error %v; %s", n, rows, err, bad)
		}
	}
	return ""
}
