package main

// Hand-written named struct types used as fixed test shapes.  None of them
// contains a pointer to a slice or map, a double pointer, an unsigned integer
// kind (other than the uint8 of []byte) or int8: those shapes are exercised
// separately.

import (
	"reflect"
	"time"

	"github.com/unravelin/null/v5"
)

// ---- helper types -----------------------------------------------------------

// Leaf is used in several positions of several pool types.
type Leaf struct {
	A int64  `json:"a"`
	B string `json:"b,omitempty"`
}

// Emb is embedded (anonymous field) in P07.
type Emb struct {
	E1 int64
	E2 string `json:"e2"`
}

// emb is an unexported embedded type: its field is unexported.
type emb struct {
	Z int64
}

// Empty has no fields.
type Empty struct{}

// defined non-struct types
type (
	NInt    int64
	NInt32  int32
	NStr    string
	NBool   bool
	NF64    float64
	NBytes  []byte
	NInts   []int64
	NStrMap map[string]string
)

// ---- the pool ---------------------------------------------------------------

// P01: every basic kind (int16 lives in P02).
type P01 struct {
	B   bool
	I   int
	I32 int32
	I64 int64
	F32 float32
	F64 float64
	S   string
	Bs  []byte
}

// P02: int16 in every position.
type P02 struct {
	A int16
	B int16 `json:"b,omitempty"`
	C []int16
	D *int16
	E map[string]int16
}

// P03: omitempty on every kind.
type P03 struct {
	B   bool              `json:"b,omitempty"`
	I   int               `json:"i,omitempty"`
	I32 int32             `json:"i32,omitempty"`
	I64 int64             `json:"i64,omitempty"`
	F32 float32           `json:"f32,omitempty"`
	F64 float64           `json:"f64,omitempty"`
	S   string            `json:"s,omitempty"`
	Bs  []byte            `json:"bs,omitempty"`
	Sl  []int64           `json:"sl,omitempty"`
	M   map[string]string `json:"m,omitempty"`
	P   *int64            `json:"p,omitempty"`
	PS  *Leaf             `json:"ps,omitempty"`
	St  Leaf              `json:"st,omitempty"`
	T   time.Time         `json:"t,omitempty"`
	NI  null.Int          `json:"ni,omitempty"`
	NS  null.String       `json:"ns,omitempty"`
}

// P04: json renames and option lists.
type P04 struct {
	A int64   `json:"alpha"`
	B int64   `json:"beta,string"`
	C string  `json:",omitempty"`
	D float64 `json:"gamma,omitempty,string"`
	E bool    `json:"delta,string,omitempty"`
	F string  `json:"eps,omitemptyx"`
	G int32   `json:"zeta,"`
	H string  `json:"with space"`
	I string  `json:"ünï"`
}

// P05: excluded fields.
type P05 struct {
	Keep  int64  `json:"keep"`
	Skip1 string `json:"-"`
	Skip2 int64  `bq:"-"`
	Skip3 bool   `json:"named" bq:"-"`
	Skip4 string `json:"-,"`
	Other string `json:"other" bq:"renamed"`
	Last  []byte
}

// P06: unexported fields between exported ones.
type P06 struct {
	a int64
	B string
	c []byte
	D bool
	e *Leaf
	F int32 `json:"f"`
	g time.Time
}

// P07: embedded structs.
type P07 struct {
	Emb
	emb
	X int64 `json:"x"`
}

// P08: the same struct type in several positions.
type P08 struct {
	A Leaf
	B Leaf
	C *Leaf
	D []Leaf
	E map[string]Leaf
}

// P09: nested three deep.
type P09c struct {
	V int64  `json:"v"`
	W string `json:"w,omitempty"`
}
type P09b struct {
	C P09c
	N int32
}
type P09a struct {
	B P09b `json:"b"`
	S string
}
type P09 struct {
	A P09a
	Z bool
}

// P10: pointers to structs and to basic types.
type P10 struct {
	PL   *Leaf
	PI   *int64
	PI32 *int32
	PInt *int
	PS   *string
	PB   *bool
	PF64 *float64
	PF32 *float32
	PN   *P09c `json:"pn"`
}

// P11: slices of structs, pointers and slices.
type P11 struct {
	SL   []Leaf
	SPL  []*Leaf
	SS   [][]int64
	SPI  []*int64
	Str  []string
	SBs  [][]byte
	SSS  [][]string
	SSPL [][]*Leaf
}

// P12: maps of structs and basic types.
type P12 struct {
	ML map[string]Leaf
	MI map[string]int64
	MS map[string]string
	MB map[string]bool
	MF map[string]float64
}

// P13: maps of pointers.
type P13 struct {
	MPL map[string]*Leaf
	MPI map[string]*int64
	MPS map[string]*string
}

// P14: maps of slices, maps and byte slices.
type P14 struct {
	MSl map[string][]int64
	MM  map[string]map[string]int64
	MBs map[string][]byte
	MSL map[string][]Leaf
}

// P15: maps of wrappers.
type P15 struct {
	MNI map[string]null.Int
	MNS map[string]null.String
	MT  map[string]time.Time
}

// P16: time.Time and []time.Time.
type P16 struct {
	T  time.Time
	Ts []time.Time
	U  time.Time `json:"u,omitempty"`
}

// P17: every null.* wrapper.
type P17 struct {
	I null.Int
	B null.Bool
	F null.Float
	S null.String
	T null.Time
}

// P18: pointer to time.Time.
type P18 struct {
	PT *time.Time
	N  int64
}

// P19: a single field.
type P19 struct {
	Only string
}

// P20: empty struct fields.
type P20 struct {
	E struct{}
	X int64
	N Empty
	P *Empty
}

// P21: collections of collections.
type P21 struct {
	SM  []map[string]string
	MSL map[string][]Leaf
	SMS []map[string][]int64
	MMS map[string]map[string][]string
}

// P22: omitempty on composite kinds.
type P22 struct {
	SL []Leaf          `json:"sl,omitempty"`
	ML map[string]Leaf `json:"ml,omitempty"`
	PL *Leaf           `json:"pl,omitempty"`
	L  Leaf            `json:"l,omitempty"`
	SS [][]string      `json:"ss,omitempty"`
	SP []*int64        `json:"sp,omitempty"`
}

// P23: float32 everywhere (float32 travels as double).
type P23 struct {
	F  float32
	O  float32 `json:"o,omitempty"`
	SF []float32
	MF map[string]float32
	PF *float32
}

// P24: strings and bytes.
type P24 struct {
	S   string  `json:"s,omitempty"`
	PS  *string `json:"ps,omitempty"`
	SS  []string
	SBs [][]byte
	Bs  []byte `json:"bs,omitempty"`
	B2  []byte
}

// P25: a deep mix.
type P25d struct {
	V  int64
	PV *string
}
type P25c struct {
	P *P25d
	M map[string]P25d
}
type P25b struct {
	M map[string]P25c
}
type P25 struct {
	S []P25b
	T null.Time `json:"t"`
}

// P26: defined non-struct types.
type P26 struct {
	A NInt
	B NStr   `json:"b,omitempty"`
	C []NInt `json:"c"`
	D NBytes
	E NInts
	F NStrMap
	G NBool
	H NF64
	I NInt32
	J *NInt
}

// P27: a table row of plain columns (no union, array or map anywhere in its schema).
type P27 struct {
	Key   string  `json:"key"`
	Seq   int64   `json:"seq"`
	Value []byte  `json:"value"`
	F     float64 `json:"f"`
	B     bool    `json:"b"`
	N     int32   `json:"n"`
	Note  string  `json:"note"`
}

// P28: scalars only.
type P28 struct {
	A int64
	B float64
	C int32
	D bool
	E float32
	F int16
}

// P29: narrow omitempty fields, each directly followed in memory by a narrow field of its own:
// whether a field is empty is decided by its own bytes.
type P29 struct {
	F32 float32 `json:"f32,omitempty"`
	N32 int32   `json:"n32"`
	I16 int16   `json:"i16,omitempty"`
	J16 int16   `json:"j16"`
	B   bool    `json:"b,omitempty"`
	C   bool    `json:"c"`
	D   int16   `json:"d"`
	I32 int32   `json:"i32,omitempty"`
	K32 int32   `json:"k32"`
	G32 float32 `json:"g32,omitempty"`
	H32 float32 `json:"h32"`
}

type poolEntry struct {
	Name string
	GT   *GT
	Zero any
}

func mkPool(zs ...any) []poolEntry {
	_ = namedLeafTypes // initialise the defined leaf types (and their identities) first
	out := make([]poolEntry, 0, len(zs))
	for _, z := range zs {
		t := reflect.TypeOf(z)
		out = append(out, poolEntry{Name: t.Name(), GT: gtOf(t), Zero: z})
	}
	return out
}

// namedLeafTypes: defined non-struct types the random generator may use as
// field types (only when TypeGenCfg.Dynamic is false).  Built before pool so
// that their identities 100.. do not depend on the pool's contents.
var namedLeafTypes = []*GT{
	gtOf(reflect.TypeOf(NInt(0))),
	gtOf(reflect.TypeOf(NInt32(0))),
	gtOf(reflect.TypeOf(NStr(""))),
	gtOf(reflect.TypeOf(NBool(false))),
	gtOf(reflect.TypeOf(NF64(0))),
	gtOf(reflect.TypeOf(NBytes(nil))),
	gtOf(reflect.TypeOf(NInts(nil))),
	gtOf(reflect.TypeOf(NStrMap(nil))),
}

// embedTypes: named struct types the random generator may embed or nest
// (only when TypeGenCfg.Dynamic is false).
var embedTypes = []*GT{
	gtOf(reflect.TypeOf(Leaf{})),
	gtOf(reflect.TypeOf(Emb{})),
	gtOf(reflect.TypeOf(P09c{})),
	gtOf(reflect.TypeOf(Empty{})),
}

var pool = mkPool(
	P01{}, P02{}, P03{}, P04{}, P05{}, P06{}, P07{}, P08{}, P09{}, P10{},
	P11{}, P12{}, P13{}, P14{}, P15{}, P16{}, P17{}, P18{}, P19{}, P20{},
	P21{}, P22{}, P23{}, P24{}, P25{}, P26{}, P27{}, P28{}, P29{},
)
