package main

import (
	"fmt"
	"unsafe"

	"github.com/philpearl/avro"
)

// c17OverlongInPositions: a varint that is longer than ten bytes or overflows 64 bits is an
// error WHEREVER a codec reads one - an array or map block count, a block byte size, a string or
// bytes length, a union selector, a long value - whatever its partial value is (odd, even, large)
// and whatever follows it.  Well-formed data follows every bad varint, so that a reader which
// carries on has something to decode.
func c17OverlongInPositions(r *Run) {
	bad := [][]byte{
		{0x83, 0x80, 0x80, 0x80, 0x80, 0x80, 0x80, 0x80, 0x80, 0x02},                   // tenth byte above 1, partial value odd
		{0x84, 0x80, 0x80, 0x80, 0x80, 0x80, 0x80, 0x80, 0x80, 0x02},                   // the same, even
		{0x83, 0x80, 0x80, 0x80, 0x80, 0x80, 0x80, 0x80, 0x80, 0x80, 0x01},             // eleven bytes
		{0x81, 0x80, 0x80, 0x80, 0x80, 0x80, 0x80, 0x80, 0x80, 0x80, 0x80, 0x80, 0x00}, // thirteen
		{0xff, 0xff, 0xff, 0xff, 0xff, 0xff, 0xff, 0xff, 0xff, 0x03},
		{0x85, 0x80, 0x80, 0x80, 0x80, 0x80, 0x80, 0x80, 0x80, 0x7f},
	}
	type target struct {
		A []int64          `json:"a"`
		M map[string]int64 `json:"m"`
		S string           `json:"s"`
		B []byte           `json:"b"`
		U int64            `json:"u"`
		L int64            `json:"l"`
	}
	type pos struct {
		name, ftype string
		build       func(v []byte) []byte
	}
	positions := []pos{
		{"an array block count", `{"type":"array","items":"long"}`, func(v []byte) []byte { return append(append([]byte{}, v...), 0x04, 0x0e, 0x10, 0x00) }},
		{"the byte size of a sized array block", `{"type":"array","items":"long"}`, func(v []byte) []byte { return append(append([]byte{0x03}, v...), 0x0e, 0x10, 0x00) }},
		{"a map block count", `{"type":"map","values":"long"}`, func(v []byte) []byte { return append(append([]byte{}, v...), 0x02, 'k', 0x0e, 0x00) }},
		{"a map key length", `{"type":"map","values":"long"}`, func(v []byte) []byte { return append(append([]byte{0x02}, v...), 'k', 0x0e, 0x00) }},
		{"a string length", `"string"`, func(v []byte) []byte { return append(append([]byte{}, v...), 'a', 'b', 'c', 'd') }},
		{"a bytes length", `"bytes"`, func(v []byte) []byte { return append(append([]byte{}, v...), 1, 2, 3, 4) }},
		{"a long", `"long"`, func(v []byte) []byte { return append([]byte{}, v...) }},
		{"the selector of a three-branch union", `["null","int","long"]`, func(v []byte) []byte { return append(append([]byte{}, v...), 0x0e) }},
	}
	fieldFor := map[string]string{`{"type":"array","items":"long"}`: "a", `{"type":"map","values":"long"}`: "m", `"string"`: "s", `"bytes"`: "b", `["null","int","long"]`: "u", `"long"`: "l"}
	for _, p := range positions {
		schema := `{"type":"record","name":"r","fields":[{"name":"` + fieldFor[p.ftype] + `","type":` + p.ftype + `},{"name":"tail","type":"long"}]}`
		s, err := avro.SchemaFromString(schema)
		if err != nil {
			panic(err)
		}
		kept, err1 := s.Codec(target{})
		type none struct {
			Tail int64 `json:"tail"`
		}
		skipped, err2 := s.Codec(none{})
		if err1 != nil || err2 != nil {
			r.Fail(-1, "varint-position", fmt.Sprintf("no codec for %s: %v / %v", p.ftype, err1, err2), nil)
			continue
		}
		for _, v := range bad {
			data := append(p.build(v), 0x0e) // and the tail field
			desc := map[string]any{"position": p.name, "varint": hexs(v), "bytes": hexs(data)}
			for _, mode := range []string{"decoded", "skipped"} {
				r.Count("overlong-position/" + mode)
				func() {
					defer func() {
						if x := recover(); x != nil {
							r.Fail(-1, "varint-position", fmt.Sprintf("%s written as the varint %x (%s): panic %v", p.name, v, mode, x), desc)
						}
					}()
					var err error
					if mode == "decoded" {
						var t target
						rb := avro.NewReadBuf(data)
						err = kept.Read(rb, unsafe.Pointer(&t))
						rb.ExtractResourceBank().Close()
					} else {
						var t none
						rb := avro.NewReadBuf(data)
						err = skipped.Read(rb, unsafe.Pointer(&t))
						rb.ExtractResourceBank().Close()
					}
					if err == nil {
						r.Fail(-1, "varint-position", fmt.Sprintf("%s written as the varint %x, which is longer than ten bytes or overflows 64 bits: the field is %s without an error", p.name, v, mode), desc)
					}
				}()
			}
		}
	}
}
