package main

// Spec side: Avro schemas (as avro.Schema values, printed as the Coq mirror
// gschema), datums, writer choices, the Avro 1.8 binary encoding and a strict
// reference decoder -- all written from the specification and independent of
// the codecs of /repo -- plus the relation between datums and Go values
// (compatTarget / convDatum for reading, datumOfValue for writing).

import (
	"bytes"
	"database/sql"
	"errors"
	"fmt"
	"math"
	"math/rand"
	"reflect"
	"sort"
	"strconv"
	"strings"
	"time"

	"github.com/philpearl/avro"
	"github.com/unravelin/null/v5"
)

// ---- schema printer -----------------------------------------------------------

func coqSchema(s avro.Schema) string {
	obj := "None"
	if o := s.Object; o != nil {
		fields := make([]string, len(o.Fields))
		for i, f := range o.Fields {
			fields[i] = cPair(cBytes([]byte(f.Name)), coqSchema(f.Type))
		}
		syms := make([]string, len(o.Symbols))
		for i, sy := range o.Symbols {
			syms[i] = cBytes([]byte(sy))
		}
		obj = cApp("Some", cApp("GO",
			cBytes([]byte(o.LogicalType)), cBytes([]byte(o.Name)), cBytes([]byte(o.Namespace)),
			cList(fields), coqSchema(o.Items), coqSchema(o.Values), cZ(int64(o.Size)), cList(syms)))
	}
	un := make([]string, len(s.Union))
	for i, u := range s.Union {
		un[i] = coqSchema(u)
	}
	return cApp("GS", cBytes([]byte(s.Type)), obj, cList(un))
}

// ---- datums ------------------------------------------------------------------------

// Datum is an Avro value.  K is one of null,bool,int,long,float,double,bytes,
// string,fixed,enum,record,array,map,union.  F holds the float32 bits (float)
// or float64 bits (double); I the int / long / enum value; Items the record
// fields, array items or map values (Keys alongside); Branch/Inner the union.
type Datum struct {
	K      string
	B      bool
	I      int64
	F      uint64
	Bytes  []byte
	Items  []*Datum
	Keys   [][]byte
	Branch int
	Inner  *Datum
}

func coqDatum(d *Datum) string {
	if d == nil {
		return "DNull"
	}
	switch d.K {
	case "null":
		return "DNull"
	case "bool":
		return cApp("DBool", cBool(d.B))
	case "int":
		return cApp("DInt", cZ(d.I))
	case "long":
		return cApp("DLong", cZ(d.I))
	case "float":
		return cApp("DFloat", cU(d.F))
	case "double":
		return cApp("DDouble", cU(d.F))
	case "bytes":
		return cApp("DBytes", cBytes(d.Bytes))
	case "string":
		return cApp("DString", cBytes(d.Bytes))
	case "fixed":
		return cApp("DFixed", cBytes(d.Bytes))
	case "enum":
		return cApp("DEnum", cZ(d.I))
	case "record", "array":
		items := make([]string, len(d.Items))
		for i, x := range d.Items {
			items[i] = coqDatum(x)
		}
		if d.K == "record" {
			return cApp("DRecord", cList(items))
		}
		return cApp("DArray", cList(items))
	case "map":
		items := make([]string, len(d.Items))
		for i, x := range d.Items {
			var k []byte
			if i < len(d.Keys) {
				k = d.Keys[i]
			}
			items[i] = cPair(cBytes(k), coqDatum(x))
		}
		return cApp("DMap", cList(items))
	case "union":
		return cApp("DUnion", cZ(int64(d.Branch)), coqDatum(d.Inner))
	}
	return "DNull"
}

// datumEq: structural equality; with sortMaps the order of map entries is ignored.
func datumEq(a, b *Datum, sortMaps bool) bool {
	if a == nil || b == nil {
		return a == b
	}
	if a.K != b.K {
		return false
	}
	switch a.K {
	case "null":
		return true
	case "bool":
		return a.B == b.B
	case "int", "long", "enum":
		return a.I == b.I
	case "float", "double":
		return a.F == b.F
	case "bytes", "string", "fixed":
		return bytes.Equal(a.Bytes, b.Bytes)
	case "record", "array":
		if len(a.Items) != len(b.Items) {
			return false
		}
		for i := range a.Items {
			if !datumEq(a.Items[i], b.Items[i], sortMaps) {
				return false
			}
		}
		return true
	case "map":
		if len(a.Items) != len(b.Items) || len(a.Keys) != len(b.Keys) || len(a.Keys) != len(a.Items) {
			return false
		}
		ia, ib := mapOrder(a, sortMaps), mapOrder(b, sortMaps)
		for i := range ia {
			if !bytes.Equal(a.Keys[ia[i]], b.Keys[ib[i]]) || !datumEq(a.Items[ia[i]], b.Items[ib[i]], sortMaps) {
				return false
			}
		}
		return true
	case "union":
		return a.Branch == b.Branch && datumEq(a.Inner, b.Inner, sortMaps)
	}
	return false
}

func mapOrder(d *Datum, sorted bool) []int {
	idx := make([]int, len(d.Keys))
	for i := range idx {
		idx[i] = i
	}
	if sorted {
		sort.SliceStable(idx, func(i, j int) bool { return bytes.Compare(d.Keys[idx[i]], d.Keys[idx[j]]) < 0 })
	}
	return idx
}

// ---- random schemas ---------------------------------------------------------------------

type SchemaGenCfg struct{ MaxDepth int }

type schemaGen struct {
	rng   *rand.Rand
	cfg   SchemaGenCfg
	names int
}

func (sg *schemaGen) name() string {
	sg.names++
	return "R" + strconv.Itoa(sg.names)
}

// genSchema: a random record schema.
func genSchema(rng *rand.Rand, cfg SchemaGenCfg) avro.Schema {
	sg := &schemaGen{rng: rng, cfg: cfg}
	return sg.record(0, 1+rng.Intn(7))
}

func (sg *schemaGen) record(depth, nfields int) avro.Schema {
	fields := make([]avro.SchemaRecordField, nfields)
	name := sg.name()
	for i := range fields {
		fields[i] = avro.SchemaRecordField{Name: "n" + strconv.Itoa(i), Type: sg.any(depth + 1)}
	}
	// sometimes the field names are less tidy: names that are also the Go identifiers the
	// generated targets use for OTHER fields (F0, F1, ...), and names with '-' and '.'
	if sg.rng.Intn(4) == 0 {
		used := map[string]bool{}
		for i := range fields {
			var n string
			switch sg.rng.Intn(4) {
			case 0:
				n = "F" + strconv.Itoa(sg.rng.Intn(nfields+2))
			case 1:
				n = "x-req-" + strconv.Itoa(i)
			case 2:
				n = "geo.lat" + strconv.Itoa(i)
			default:
				n = fields[i].Name
			}
			if used[n] {
				n = fields[i].Name
			}
			used[n] = true
			fields[i].Name = n
		}
	}
	o := &avro.SchemaObject{Name: name, Fields: fields}
	if sg.rng.Intn(3) == 0 {
		o.Namespace = "ns.test"
	}
	return avro.Schema{Type: "record", Object: o}
}

var primNames = []string{"boolean", "int", "long", "float", "double", "bytes", "string"}

// nonUnion: any type except a union; null only when allowNull.
func (sg *schemaGen) nonUnion(depth int, allowNull bool) avro.Schema {
	rng := sg.rng
	composite := depth <= sg.cfg.MaxDepth
	r := rng.Intn(100)
	switch {
	case allowNull && r < 4:
		return avro.Schema{Type: "null"}
	case r < 55 || (!composite && r < 92):
		return avro.Schema{Type: primNames[rng.Intn(len(primNames))]}
	case r < 63 || !composite:
		return avro.Schema{Type: "fixed", Object: &avro.SchemaObject{Name: sg.name(), Size: rng.Intn(21)}}
	case r < 75:
		return sg.record(depth, rng.Intn(5)) // nested records may be empty
	case r < 88:
		return avro.Schema{Type: "array", Object: &avro.SchemaObject{Items: sg.any(depth + 1)}}
	default:
		return avro.Schema{Type: "map", Object: &avro.SchemaObject{Values: sg.any(depth + 1)}}
	}
}

func (sg *schemaGen) any(depth int) avro.Schema {
	rng := sg.rng
	r := rng.Intn(100)
	switch {
	case r < 60:
		return sg.nonUnion(depth, true)
	case r < 75:
		return avro.Schema{Type: "union", Union: []avro.Schema{{Type: "null"}, sg.nonUnion(depth, false)}}
	case r < 86:
		return avro.Schema{Type: "union", Union: []avro.Schema{sg.nonUnion(depth, false), {Type: "null"}}}
	case r < 93:
		return avro.Schema{Type: "union", Union: []avro.Schema{sg.nonUnion(depth, rng.Intn(8) == 0)}}
	default:
		// three branches of distinct types (named types count by name)
		var bs []avro.Schema
		seen := map[string]bool{}
		for tries := 0; len(bs) < 3 && tries < 50; tries++ {
			b := sg.nonUnion(depth, true)
			k := b.Type // one branch per type name (also for the named types)
			if seen[k] {
				continue
			}
			seen[k] = true
			bs = append(bs, b)
		}
		return avro.Schema{Type: "union", Union: bs}
	}
}

// ---- random datums ---------------------------------------------------------------------------

func genDatum(rng *rand.Rand, s avro.Schema) *Datum {
	switch s.Type {
	case "null":
		return &Datum{K: "null"}
	case "boolean":
		return &Datum{K: "bool", B: rng.Intn(2) == 0}
	case "int":
		return &Datum{K: "int", I: genInt(rng, 32)}
	case "long":
		return &Datum{K: "long", I: genInt(rng, 64)}
	case "float":
		return &Datum{K: "float", F: uint64(genF32Bits(rng))}
	case "double":
		return &Datum{K: "double", F: genF64Bits(rng)}
	case "bytes":
		return &Datum{K: "bytes", Bytes: genStrBytes(rng)}
	case "string":
		return &Datum{K: "string", Bytes: genStrBytes(rng)}
	case "fixed":
		n := 0
		if s.Object != nil && s.Object.Size > 0 {
			n = s.Object.Size
		}
		b := make([]byte, n)
		for i := range b {
			b[i] = byte(rng.Intn(256))
		}
		return &Datum{K: "fixed", Bytes: b}
	case "enum":
		n := 1
		if s.Object != nil && len(s.Object.Symbols) > 0 {
			n = len(s.Object.Symbols)
		}
		return &Datum{K: "enum", I: int64(rng.Intn(n))}
	case "record":
		d := &Datum{K: "record", Items: []*Datum{}}
		if s.Object != nil {
			for _, f := range s.Object.Fields {
				d.Items = append(d.Items, genDatum(rng, f.Type))
			}
		}
		return d
	case "array":
		d := &Datum{K: "array", Items: []*Datum{}}
		if s.Object != nil {
			n := genCount(rng)
			for i := 0; i < n; i++ {
				d.Items = append(d.Items, genDatum(rng, s.Object.Items))
			}
		}
		return d
	case "map":
		d := &Datum{K: "map", Items: []*Datum{}, Keys: [][]byte{}}
		if s.Object != nil {
			n := genCount(rng)
			seen := map[string]bool{}
			for i := 0; i < n; i++ {
				k := genStrBytes(rng)
				if len(k) > 30 {
					k = k[:30]
				}
				for seen[string(k)] {
					k = append(k, byte('0'+i))
				}
				seen[string(k)] = true
				d.Keys = append(d.Keys, k)
				d.Items = append(d.Items, genDatum(rng, s.Object.Values))
			}
		}
		return d
	case "union":
		if len(s.Union) == 0 {
			return &Datum{K: "null"}
		}
		b := rng.Intn(len(s.Union))
		return &Datum{K: "union", Branch: b, Inner: genDatum(rng, s.Union[b])}
	}
	return &Datum{K: "null"}
}

func genCount(rng *rand.Rand) int {
	switch rng.Intn(5) {
	case 0:
		return 0
	case 1:
		return 1
	}
	return rng.Intn(7)
}

// ---- writer choices -----------------------------------------------------------------------------

// Choice mirrors the Coq type choice: Cuts/Items for a collection, Fields for
// a record, Inner for a union.  nil, or a Choice with nothing set, is ChLeaf.
type Choice struct {
	Cuts   []Cut
	Items  []*Choice
	Fields []*Choice
	Inner  *Choice
}

// Cut: the block takes N further items beyond its first; Sized: it carries a
// byte-size prefix.
type Cut struct {
	N     int
	Sized bool
}

func coqChoice(c *Choice) string {
	if c == nil {
		return "ChLeaf"
	}
	list := func(cs []*Choice) string {
		items := make([]string, len(cs))
		for i, x := range cs {
			items[i] = coqChoice(x)
		}
		return cList(items)
	}
	switch {
	case c.Inner != nil:
		return cApp("ChUnion", coqChoice(c.Inner))
	case len(c.Fields) > 0:
		return cApp("ChRec", list(c.Fields))
	case len(c.Cuts) > 0 || len(c.Items) > 0:
		cuts := make([]string, len(c.Cuts))
		for i, ct := range c.Cuts {
			n := ct.N
			if n < 0 {
				n = 0
			}
			cuts[i] = cPair(fmt.Sprintf("%d%%nat", n), cBool(ct.Sized))
		}
		return cApp("ChColl", cList(cuts), list(c.Items))
	}
	return "ChLeaf"
}

func genChoice(rng *rand.Rand, s avro.Schema, d *Datum) *Choice {
	if d == nil {
		return nil
	}
	switch s.Type {
	case "record":
		if s.Object == nil || d.K != "record" {
			return nil
		}
		if rng.Intn(8) == 0 {
			return nil // canonical below here
		}
		c := &Choice{}
		for i, f := range s.Object.Fields {
			if i >= len(d.Items) {
				break
			}
			c.Fields = append(c.Fields, genChoice(rng, f.Type, d.Items[i]))
		}
		if rng.Intn(6) == 0 && len(c.Fields) > 0 { // a short list: the rest default to ChLeaf
			c.Fields = c.Fields[:rng.Intn(len(c.Fields))]
		}
		return c
	case "array", "map":
		if s.Object == nil || (d.K != "array" && d.K != "map") {
			return nil
		}
		if rng.Intn(6) == 0 {
			return nil
		}
		item := s.Object.Items
		if s.Type == "map" {
			item = s.Object.Values
		}
		c := &Choice{}
		n := len(d.Items)
		switch rng.Intn(6) {
		case 0: // no cuts: one unsized block
		case 1: // one block per item
			for i := 0; i < n; i++ {
				c.Cuts = append(c.Cuts, Cut{N: 0, Sized: rng.Intn(2) == 0})
			}
		case 2: // a single sized block with everything (and a surplus cut)
			c.Cuts = []Cut{{N: n + rng.Intn(3), Sized: true}, {N: 1, Sized: false}}
		default:
			k := rng.Intn(n + 2)
			for i := 0; i < k; i++ {
				c.Cuts = append(c.Cuts, Cut{N: rng.Intn(3), Sized: rng.Intn(2) == 0})
			}
		}
		for i := 0; i < n; i++ {
			c.Items = append(c.Items, genChoice(rng, item, d.Items[i]))
		}
		if rng.Intn(6) == 0 && len(c.Items) > 0 {
			c.Items = c.Items[:rng.Intn(len(c.Items))]
		}
		return c
	case "union":
		if d.K != "union" || d.Branch < 0 || d.Branch >= len(s.Union) {
			return nil
		}
		in := genChoice(rng, s.Union[d.Branch], d.Inner)
		if in == nil {
			return nil
		}
		return &Choice{Inner: in}
	}
	return nil
}

func chItem(cs []*Choice, i int) *Choice {
	if i < len(cs) {
		return cs[i]
	}
	return nil
}

// ---- the Avro binary encoding (specification, with every writer freedom) ---------------------------

// le (little-endian words) and specVarint (zig-zag base-128) are in c17.go.

// asmBlocks mirrors asm_blocks of Spec.v.
// ---- structural sites of an encoding (for hostile mutation, C06) ----
// When hostile is set, the site-th structural varint written by encodeDatum (a block
// count, a sized block's count and size together, a union selector, a length) is
// replaced by hostile bytes; Seen counts the sites.
type hostilePlan struct {
	Site, Seen int
	Single     []byte // replacement for a single varint site
	Pair       []byte // replacement for a (count, size) site
	Hit        string // kind of the site that was replaced
}

var hostile *hostilePlan

func structVarint(kind string, v int64) []byte {
	if hostile != nil {
		hostile.Seen++
		if hostile.Seen-1 == hostile.Site {
			hostile.Hit = kind
			if kind == "count" && hostile.Pair != nil {
				return hostile.Pair // an unsized block turned into a sized one with hostile fields
			}
			if hostile.Single != nil {
				return hostile.Single
			}
		}
	}
	return specVarint(v)
}

func structPair(k, size int64) []byte {
	if hostile != nil {
		hostile.Seen++
		if hostile.Seen-1 == hostile.Site {
			hostile.Hit = "sized"
			if hostile.Pair != nil {
				return hostile.Pair
			}
			if hostile.Single != nil {
				return append(append([]byte{}, hostile.Single...), specVarint(size)...)
			}
		}
	}
	return nil
}

func asmBlocks(cuts []Cut, items [][]byte) []byte {
	var out []byte
	for {
		if len(items) == 0 {
			return append(out, 0)
		}
		if len(cuts) == 0 {
			out = append(out, structVarint("count", int64(len(items)))...)
			for _, it := range items {
				out = append(out, it...)
			}
			return append(out, 0)
		}
		n := cuts[0].N
		if n < 0 {
			n = 0
		}
		k := 1 + min(n, len(items)-1)
		var body []byte
		for _, it := range items[:k] {
			body = append(body, it...)
		}
		if cuts[0].Sized {
			if h := structPair(int64(k), int64(len(body))); h != nil {
				out = append(out, h...)
			} else {
				out = append(out, specVarint(-int64(k))...)
				out = append(out, specVarint(int64(len(body)))...)
			}
		} else {
			out = append(out, structVarint("count", int64(k))...)
		}
		out = append(out, body...)
		cuts, items = cuts[1:], items[k:]
	}
}

// encodeDatum mirrors spec_encode of Spec.v: a datum that does not fit the
// schema encodes to nothing.
func encodeDatum(s avro.Schema, d *Datum, ch *Choice) []byte {
	if d == nil {
		return nil
	}
	if ch == nil {
		ch = &Choice{}
	}
	switch {
	case s.Type == "null" && d.K == "null":
		return nil
	case s.Type == "boolean" && d.K == "bool":
		if d.B {
			return []byte{1}
		}
		return []byte{0}
	case s.Type == "int" && d.K == "int", s.Type == "long" && d.K == "long", s.Type == "enum" && d.K == "enum":
		return specVarint(d.I)
	case s.Type == "float" && d.K == "float":
		return le(4, d.F)
	case s.Type == "double" && d.K == "double":
		return le(8, d.F)
	case s.Type == "bytes" && d.K == "bytes", s.Type == "string" && d.K == "string":
		return append(structVarint("len", int64(len(d.Bytes))), d.Bytes...)
	case s.Type == "fixed" && d.K == "fixed":
		return append([]byte(nil), d.Bytes...)
	case s.Type == "record" && d.K == "record":
		if s.Object == nil {
			return nil
		}
		var out []byte
		for i, f := range s.Object.Fields {
			if i >= len(d.Items) {
				break
			}
			out = append(out, encodeDatum(f.Type, d.Items[i], chItem(ch.Fields, i))...)
		}
		return out
	case s.Type == "array" && d.K == "array":
		if s.Object == nil {
			return nil
		}
		items := make([][]byte, len(d.Items))
		for i, x := range d.Items {
			items[i] = encodeDatum(s.Object.Items, x, chItem(ch.Items, i))
		}
		return asmBlocks(ch.Cuts, items)
	case s.Type == "map" && d.K == "map":
		if s.Object == nil {
			return nil
		}
		items := make([][]byte, len(d.Items))
		for i, x := range d.Items {
			var k []byte
			if i < len(d.Keys) {
				k = d.Keys[i]
			}
			e := append(structVarint("len", int64(len(k))), k...)
			items[i] = append(e, encodeDatum(s.Object.Values, x, chItem(ch.Items, i))...)
		}
		return asmBlocks(ch.Cuts, items)
	case s.Type == "union" && d.K == "union":
		out := structVarint("sel", int64(d.Branch))
		if d.Branch >= 0 && d.Branch < len(s.Union) {
			out = append(out, encodeDatum(s.Union[d.Branch], d.Inner, ch.Inner)...)
		}
		return out
	}
	return nil
}

// ---- strict reference decoder ------------------------------------------------------------------------

var errDecode = errors.New("reference decoder: malformed input")

func decodeErr(what string) error { return fmt.Errorf("%w: %s", errDecode, what) }

func readVarint(bs []byte) (int64, []byte, error) {
	class, v, used := refDecode(bs)
	if class != 0 {
		return 0, nil, decodeErr("varint")
	}
	return v, bs[used:], nil
}

func readLenPrefixed(bs []byte) ([]byte, []byte, error) {
	l, r, err := readVarint(bs)
	if err != nil {
		return nil, nil, err
	}
	if l < 0 || l > int64(len(r)) {
		return nil, nil, decodeErr("length")
	}
	return append([]byte{}, r[:l]...), r[l:], nil
}

// decodeBlocks runs the block loop of arrays and maps; item decodes one item.
func decodeBlocks(bs []byte, item func([]byte) ([]byte, error)) ([]byte, error) {
	for {
		cnt, r, err := readVarint(bs)
		if err != nil {
			return nil, err
		}
		if cnt == 0 {
			return r, nil
		}
		expect := -1
		if cnt < 0 {
			var sz int64
			sz, r, err = readVarint(r)
			if err != nil {
				return nil, err
			}
			if cnt == math.MinInt64 || sz < 0 || sz > int64(len(r)) {
				return nil, decodeErr("block header")
			}
			cnt = -cnt
			expect = len(r) - int(sz)
		}
		for ; cnt > 0; cnt-- {
			if len(r) == 0 && cnt > 1<<20 {
				// zero-width items: the count is only bounded by the input otherwise
				return nil, decodeErr("absurd count of empty items")
			}
			r, err = item(r)
			if err != nil {
				return nil, err
			}
		}
		if expect >= 0 && len(r) != expect {
			return nil, decodeErr("block size mismatch")
		}
		bs = r
	}
}

// decodeDatum: the datum at the head of bs and the unread rest.
func decodeDatum(s avro.Schema, bs []byte) (*Datum, []byte, error) {
	switch s.Type {
	case "null":
		return &Datum{K: "null"}, bs, nil
	case "boolean":
		if len(bs) < 1 || bs[0] > 1 {
			return nil, nil, decodeErr("boolean")
		}
		return &Datum{K: "bool", B: bs[0] == 1}, bs[1:], nil
	case "int":
		v, r, err := readVarint(bs)
		if err != nil {
			return nil, nil, err
		}
		if v < math.MinInt32 || v > math.MaxInt32 {
			return nil, nil, decodeErr("int out of range")
		}
		return &Datum{K: "int", I: v}, r, nil
	case "long":
		v, r, err := readVarint(bs)
		if err != nil {
			return nil, nil, err
		}
		return &Datum{K: "long", I: v}, r, nil
	case "float":
		if len(bs) < 4 {
			return nil, nil, decodeErr("float")
		}
		return &Datum{K: "float", F: uint64(bs[0]) | uint64(bs[1])<<8 | uint64(bs[2])<<16 | uint64(bs[3])<<24}, bs[4:], nil
	case "double":
		if len(bs) < 8 {
			return nil, nil, decodeErr("double")
		}
		var x uint64
		for i := 7; i >= 0; i-- {
			x = x<<8 | uint64(bs[i])
		}
		return &Datum{K: "double", F: x}, bs[8:], nil
	case "bytes", "string":
		b, r, err := readLenPrefixed(bs)
		if err != nil {
			return nil, nil, err
		}
		return &Datum{K: s.Type, Bytes: b}, r, nil
	case "fixed":
		if s.Object == nil || s.Object.Size < 0 || s.Object.Size > len(bs) {
			return nil, nil, decodeErr("fixed")
		}
		n := s.Object.Size
		return &Datum{K: "fixed", Bytes: append([]byte{}, bs[:n]...)}, bs[n:], nil
	case "enum":
		if s.Object == nil {
			return nil, nil, decodeErr("enum")
		}
		v, r, err := readVarint(bs)
		if err != nil {
			return nil, nil, err
		}
		if v < 0 || v >= int64(len(s.Object.Symbols)) {
			return nil, nil, decodeErr("enum index")
		}
		return &Datum{K: "enum", I: v}, r, nil
	case "record":
		if s.Object == nil {
			return nil, nil, decodeErr("record")
		}
		d := &Datum{K: "record", Items: []*Datum{}}
		for _, f := range s.Object.Fields {
			x, r, err := decodeDatum(f.Type, bs)
			if err != nil {
				return nil, nil, err
			}
			d.Items = append(d.Items, x)
			bs = r
		}
		return d, bs, nil
	case "array":
		if s.Object == nil {
			return nil, nil, decodeErr("array")
		}
		d := &Datum{K: "array", Items: []*Datum{}}
		r, err := decodeBlocks(bs, func(b []byte) ([]byte, error) {
			x, r, err := decodeDatum(s.Object.Items, b)
			if err != nil {
				return nil, err
			}
			d.Items = append(d.Items, x)
			return r, nil
		})
		if err != nil {
			return nil, nil, err
		}
		return d, r, nil
	case "map":
		if s.Object == nil {
			return nil, nil, decodeErr("map")
		}
		d := &Datum{K: "map", Items: []*Datum{}, Keys: [][]byte{}}
		r, err := decodeBlocks(bs, func(b []byte) ([]byte, error) {
			k, r, err := readLenPrefixed(b)
			if err != nil {
				return nil, err
			}
			x, r, err := decodeDatum(s.Object.Values, r)
			if err != nil {
				return nil, err
			}
			d.Keys = append(d.Keys, k)
			d.Items = append(d.Items, x)
			return r, nil
		})
		if err != nil {
			return nil, nil, err
		}
		return d, r, nil
	case "union":
		idx, r, err := readVarint(bs)
		if err != nil {
			return nil, nil, err
		}
		if idx < 0 || idx >= int64(len(s.Union)) {
			return nil, nil, decodeErr("union branch")
		}
		x, r, err := decodeDatum(s.Union[idx], r)
		if err != nil {
			return nil, nil, err
		}
		return &Datum{K: "union", Branch: int(idx), Inner: x}, r, nil
	}
	return nil, nil, decodeErr("unknown type " + s.Type)
}

// ---- schema -> a Go type the library can decode it into ----------------------------------------------------

// nullIndex: for a two-branch union with exactly one null branch, the index of
// null and of the other branch.
func nullIndex(s avro.Schema) (ni, oi int, ok bool) {
	if s.Type != "union" || len(s.Union) != 2 {
		return 0, 0, false
	}
	switch {
	case s.Union[0].Type == "null" && s.Union[1].Type != "null":
		return 0, 1, true
	case s.Union[1].Type == "null" && s.Union[0].Type != "null":
		return 1, 0, true
	}
	return 0, 0, false
}

var basicTargetKinds = []string{"bool", "int64", "int", "int32", "float32", "float64", "string"}

func wrapGT(w string) *GT { return &GT{Kind: "wrap", Wrap: w} }

func ptrTo(g *GT, levels int) *GT {
	for ; levels > 0; levels-- {
		g = &GT{Kind: "ptr", Elem: g}
	}
	return g
}

// pointable: may a pointer point directly at g?  (never at a slice or map;
// wrappers are not pointed at either)
func pointable(g *GT) bool {
	switch g.Kind {
	case "slice", "map", "ptr", "wrap":
		return false
	}
	return true
}

// compatTarget: a random struct type into which the library can decode s.
func compatTarget(rng *rand.Rand, s avro.Schema) *GT {
	g, ok := compatRecord(rng, s, true)
	if !ok {
		return &GT{Kind: "struct"}
	}
	return g
}

// compatDropOneIn: a compatible target leaves out each schema field with probability 1/compatDropOneIn
var compatDropOneIn = 7

// compatPlain: nullable columns get the plain Go type (no pointer, no null.* wrapper), no extra
// fields are added: the target of a table of numbers is a struct of numbers
var compatPlain = false

// genTableSchema: a table row as database exports have them: a flat record of scalar, string,
// bytes and fixed columns, about half of them nullable (null first or second).
func genTableSchema(rng *rand.Rand, name string) avro.Schema {
	n := 3 + rng.Intn(8)
	o := &avro.SchemaObject{Name: name}
	kinds := 10
	if rng.Intn(3) == 0 {
		kinds = 5 // numbers and booleans only
	}
	for k := 0; k < n; k++ {
		var t avro.Schema
		switch rng.Intn(kinds) {
		case 0:
			t = avro.Schema{Type: "boolean"}
		case 1:
			t = avro.Schema{Type: "float"}
		case 2:
			t = avro.Schema{Type: "double"}
		case 3:
			t = avro.Schema{Type: "long"}
		case 4:
			t = avro.Schema{Type: "int"}
		case 5:
			t = avro.Schema{Type: "fixed", Object: &avro.SchemaObject{Name: fmt.Sprintf("%sFx%d", name, k), Size: 1 + rng.Intn(9)}}
		case 6:
			t = avro.Schema{Type: "boolean"}
		case 7:
			t = avro.Schema{Type: "double"}
		case 8:
			t = avro.Schema{Type: "string"}
		default:
			t = avro.Schema{Type: "bytes"}
		}
		switch rng.Intn(4) {
		case 0:
			t = avro.Schema{Type: "union", Union: []avro.Schema{{Type: "null"}, t}}
		case 1:
			t = avro.Schema{Type: "union", Union: []avro.Schema{t, {Type: "null"}}}
		}
		o.Fields = append(o.Fields, avro.SchemaRecordField{Name: fmt.Sprintf("c%d", k), Type: t})
	}
	return avro.Schema{Type: "record", Object: o}
}

func compatRecord(rng *rand.Rand, s avro.Schema, top bool) (*GT, bool) {
	if s.Type != "record" || s.Object == nil {
		return nil, false
	}
	type fld struct {
		json string
		t    *GT
	}
	var fs, dropped []fld
	for _, f := range s.Object.Fields {
		if rng.Intn(compatDropOneIn) == 0 {
			// dropped: the reader skips it
			if t, ok := compatType(rng, f.Type, true); ok {
				dropped = append(dropped, fld{f.Name, t})
			}
			continue
		}
		t, ok := compatType(rng, f.Type, true)
		if !ok {
			continue
		}
		fs = append(fs, fld{f.Name, t})
	}
	// sometimes the dropped fields live on in an embedded struct: the library selects
	// the outer struct's own fields by name, promoted fields are not targets
	var emb *GT
	if len(dropped) > 0 && rng.Intn(2) == 0 {
		emb = &GT{Kind: "struct"}
		for i, f := range dropped {
			emb.Fields = append(emb.Fields, GF{Name: "E" + strconv.Itoa(i), Exported: true, JSON: f.json, T: f.t})
		}
	}
	for i, n := 0, rng.Intn(6)-3; i < n && !compatPlain; i++ { // extras not in the schema
		k := basicTargetKinds[rng.Intn(len(basicTargetKinds))]
		t := mkGT(k)
		if rng.Intn(5) == 0 {
			t = ptrTo(t, 1)
		}
		fs = append(fs, fld{"x" + strconv.Itoa(i), t})
	}
	if rng.Intn(2) == 0 {
		rng.Shuffle(len(fs), func(i, j int) { fs[i], fs[j] = fs[j], fs[i] })
	}
	g := &GT{Kind: "struct"}
	for i, f := range fs {
		g.Fields = append(g.Fields, GF{Name: "F" + strconv.Itoa(i), Exported: true, JSON: f.json, T: f.t})
	}
	// sometimes a field the codec must ignore (json:"-") sits among the others, often in front
	if !compatPlain && rng.Intn(4) == 0 {
		at := 0
		if len(g.Fields) > 0 && rng.Intn(2) == 0 {
			at = rng.Intn(len(g.Fields) + 1)
		}
		ig := GF{Name: "Ign", Exported: true, JSON: "-", T: mkGT(basicTargetKinds[rng.Intn(len(basicTargetKinds))])}
		g.Fields = append(g.Fields[:at:at], append([]GF{ig}, g.Fields[at:]...)...)
	}
	if emb != nil {
		at := len(g.Fields)
		if at > 1 {
			at = 1 + rng.Intn(at)
		}
		ef := GF{Name: "Emb", Exported: true, Embedded: true, T: emb}
		g.Fields = append(g.Fields[:at:at], append([]GF{ef}, g.Fields[at:]...)...)
	}
	return g, true
}

// compatType: a Go type for one schema position.  field: directly a record
// field (possibly through a nullable or single-branch union) -- the only place
// where the null.* wrappers are used.
func compatType(rng *rand.Rand, s avro.Schema, field bool) (*GT, bool) {
	if s.Type == "union" {
		if len(s.Union) == 1 {
			return compatType(rng, s.Union[0], field)
		}
		_, oi, ok := nullIndex(s)
		if !ok || s.Union[oi].Type == "union" {
			return nil, false // multi-branch: no Go type; the field is left out
		}
		t, ok := compatBase(rng, s.Union[oi], field)
		if !ok {
			return nil, false
		}
		if pointable(t) && !compatPlain {
			switch r := rng.Intn(10); {
			case r < 5:
				t = ptrTo(t, 1)
			case r < 6:
				t = ptrTo(t, 2)
			}
		}
		return t, true
	}
	t, ok := compatBase(rng, s, field)
	if !ok {
		return nil, false
	}
	if pointable(t) && !compatPlain && rng.Intn(6) == 0 {
		t = ptrTo(t, 1)
	}
	return t, true
}

func compatBase(rng *rand.Rand, s avro.Schema, field bool) (*GT, bool) {
	pick := func(opts ...string) string { return opts[rng.Intn(len(opts))] }
	switch s.Type {
	case "null":
		return mkGT(basicTargetKinds[rng.Intn(len(basicTargetKinds))]), true
	case "boolean":
		return mkGT("bool"), true
	case "int", "long":
		if field && !compatPlain && rng.Intn(6) == 0 {
			return wrapGT("nullint"), true
		}
		return mkGT(pick("int64", "int64", "int64", "int", "int", "int32", "int32", "int16")), true
	case "float":
		return mkGT("float32"), true
	case "double":
		if field && !compatPlain && rng.Intn(6) == 0 {
			return wrapGT("nullfloat"), true
		}
		return mkGT(pick("float64", "float64", "float32")), true
	case "bytes":
		return &GT{Kind: "slice", Elem: mkGT("uint8")}, true
	case "string":
		if field && !compatPlain && rng.Intn(6) == 0 {
			return wrapGT("nullstring"), true
		}
		return mkGT("string"), true
	case "fixed":
		if s.Object == nil || s.Object.Size < 0 {
			return nil, false
		}
		return &GT{Kind: "array", Len: s.Object.Size, Elem: mkGT("uint8")}, true
	case "record":
		return compatRecord(rng, s, false)
	case "array":
		if s.Object == nil {
			return nil, false
		}
		e, ok := compatType(rng, s.Object.Items, false)
		if !ok {
			return nil, false
		}
		return &GT{Kind: "slice", Elem: e}, true
	case "map":
		if s.Object == nil {
			return nil, false
		}
		e, ok := compatType(rng, s.Object.Values, false)
		if !ok {
			return nil, false
		}
		return &GT{Kind: "map", Key: mkGT("string"), Elem: e}, true
	}
	return nil, false
}

// nilNewMapValue reports whether decoding s into g meets a map whose value
// codec cannot allocate (values of union or null schema): on the pinned tree a
// non-empty such map makes MapCodec.Read fail with a nil dereference.  Fields
// that are skipped (absent from g) do not count.
func nilNewMapValue(s avro.Schema, g *GT) bool {
	g = g.under()
	if g == nil {
		return false
	}
	for g.Kind == "ptr" {
		g = g.Elem.under()
	}
	switch s.Type {
	case "union":
		for _, b := range s.Union {
			if nilNewMapValue(b, g) {
				return true
			}
		}
	case "record":
		if s.Object == nil || g.Kind != "struct" {
			return false
		}
		for _, f := range s.Object.Fields {
			if gf, ok := findField(g, f.Name); ok && nilNewMapValue(f.Type, gf.T) {
				return true
			}
		}
	case "array":
		if s.Object != nil && g.Kind == "slice" {
			return nilNewMapValue(s.Object.Items, g.Elem)
		}
	case "map":
		if s.Object != nil && g.Kind == "map" {
			v := s.Object.Values
			if v.Type == "union" || v.Type == "null" {
				return true
			}
			return nilNewMapValue(v, g.Elem)
		}
	}
	return false
}

// ---- struct-tag functions (from the documented behaviour: json names, "-", bq:"-") ----------------------------

func fieldName(f GF) string {
	if !f.Exported || f.BQ == "-" {
		return "-"
	}
	name, _, _ := strings.Cut(f.JSON, ",")
	if name == "" {
		return f.Name
	}
	return name
}

func fieldOmitEmpty(f GF) bool {
	_, opts, _ := strings.Cut(f.JSON, ",")
	for _, o := range strings.Split(opts, ",") {
		if o == "omitempty" {
			return true
		}
	}
	return false
}

// findField: the struct field a schema field name binds to (the last one when
// several carry the name).
func findField(g *GT, name string) (GF, bool) {
	var out GF
	found := false
	for _, f := range g.Fields {
		if n := fieldName(f); n != "-" && n == name {
			out, found = f, true
		}
	}
	return out, found
}

func fieldIndex(g *GT, name string) int {
	idx := -1
	for i, f := range g.Fields {
		if n := fieldName(f); n != "-" && n == name {
			idx = i
		}
	}
	return idx
}

// ---- datum -> the Go value decoding must produce ------------------------------------------------------------

// convDatum: the value that decoding d (a datum of s) into a zero value of g
// must produce.  fits=false when some integer does not fit its Go type (the
// library must then report an error) or when (s, g, d) do not go together.
func convDatum(s avro.Schema, g *GT, d *Datum) (v reflect.Value, fits bool) {
	v = zeroVal(g)
	defer func() {
		if p := recover(); p != nil {
			fits = false
		}
	}()
	fits = convInto(s, g, d, v)
	return v, fits
}

func convInto(s avro.Schema, g *GT, d *Datum, dst reflect.Value) bool {
	if d == nil || g == nil {
		return false
	}
	if g.Kind == "named" {
		return convInto(s, g.Elem, d, dst)
	}
	// unions select a branch; the null branch leaves the destination alone
	if s.Type == "union" {
		if d.K != "union" || d.Branch < 0 || d.Branch >= len(s.Union) {
			return false
		}
		return convInto(s.Union[d.Branch], g, d.Inner, dst)
	}
	if s.Type == "null" {
		return d.K == "null"
	}
	if g.Kind == "ptr" {
		if dst.IsNil() {
			dst.Set(reflect.New(dst.Type().Elem()))
		}
		return convInto(s, g.Elem, d, dst.Elem())
	}
	switch s.Type {
	case "boolean":
		if d.K != "bool" {
			return false
		}
		switch {
		case g.Kind == "bool":
			dst.SetBool(d.B)
		case g.Kind == "wrap" && g.Wrap == "nullbool":
			dst.Set(reflect.ValueOf(null.Bool{NullBool: sql.NullBool{Bool: d.B, Valid: true}}))
		default:
			return false
		}
		return true
	case "int", "long":
		if d.K != s.Type {
			return false
		}
		switch {
		case g.Kind == "wrap" && g.Wrap == "nullint":
			dst.Set(reflect.ValueOf(null.Int{NullInt64: sql.NullInt64{Int64: d.I, Valid: true}}))
			return true
		case g.Kind == "int64" || g.Kind == "int" || g.Kind == "int32" || g.Kind == "int16":
			bits := intBits(g.Kind)
			if bits < 64 {
				lim := int64(1) << (bits - 1)
				if d.I < -lim || d.I >= lim {
					return false
				}
			}
			dst.SetInt(d.I)
			return true
		}
		return false
	case "float":
		if d.K != "float" || g.Kind != "float32" {
			return false
		}
		setF32Bits(dst, uint32(d.F))
		return true
	case "double":
		if d.K != "double" {
			return false
		}
		switch {
		case g.Kind == "float64":
			setF64Bits(dst, d.F)
		case g.Kind == "float32":
			setF32Bits(dst, math.Float32bits(float32(math.Float64frombits(d.F))))
		case g.Kind == "wrap" && g.Wrap == "nullfloat":
			x := null.Float{NullFloat64: sql.NullFloat64{Float64: math.Float64frombits(d.F), Valid: true}}
			dst.Set(reflect.ValueOf(x))
		default:
			return false
		}
		return true
	case "bytes":
		if d.K != "bytes" || !g.isBytes() {
			return false
		}
		if len(d.Bytes) > 0 {
			b := reflect.MakeSlice(dst.Type(), len(d.Bytes), len(d.Bytes))
			for i, x := range d.Bytes {
				b.Index(i).SetUint(uint64(x))
			}
			dst.Set(b)
		}
		return true
	case "string":
		if d.K != "string" {
			return false
		}
		switch {
		case g.Kind == "string":
			dst.SetString(string(d.Bytes))
		case g.Kind == "wrap" && g.Wrap == "nullstring":
			dst.Set(reflect.ValueOf(null.String{NullString: sql.NullString{String: string(d.Bytes), Valid: true}}))
		case g.Kind == "wrap" && (g.Wrap == "time" || g.Wrap == "nulltime"):
			// RFC 3339 text; an empty string leaves the time as it is
			var nt null.Time
			if g.Wrap == "nulltime" {
				nt, _ = dst.Interface().(null.Time)
			} else {
				nt.Time, _ = dst.Interface().(time.Time)
			}
			nt.Valid = true
			if len(d.Bytes) > 0 {
				t, err := time.Parse(time.RFC3339Nano, string(d.Bytes))
				if err != nil {
					return false
				}
				nt.Time = t
			}
			if g.Wrap == "nulltime" {
				dst.Set(reflect.ValueOf(nt))
			} else {
				dst.Set(reflect.ValueOf(nt.Time))
			}
		default:
			return false
		}
		return true
	case "fixed":
		if d.K != "fixed" || g.Kind != "array" || !g.Elem.isU8() || dst.Len() != len(d.Bytes) {
			return false
		}
		for i, x := range d.Bytes {
			dst.Index(i).SetUint(uint64(x))
		}
		return true
	case "record":
		if d.K != "record" || g.Kind != "struct" || s.Object == nil || len(d.Items) != len(s.Object.Fields) {
			return false
		}
		for i, f := range s.Object.Fields {
			j := fieldIndex(g, f.Name)
			if j < 0 {
				continue
			}
			if !convInto(f.Type, g.Fields[j].T, d.Items[i], dst.Field(j)) {
				return false
			}
		}
		return true
	case "array":
		if d.K != "array" || g.Kind != "slice" || s.Object == nil {
			return false
		}
		for _, x := range d.Items {
			e := reflect.New(dst.Type().Elem()).Elem()
			if !convInto(s.Object.Items, g.Elem, x, e) {
				return false
			}
			dst.Set(reflect.Append(dst, e))
		}
		return true
	case "map":
		if d.K != "map" || g.Kind != "map" || s.Object == nil || g.Key.under().Kind != "string" || len(d.Keys) != len(d.Items) {
			return false
		}
		if dst.IsNil() {
			dst.Set(reflect.MakeMap(dst.Type()))
		}
		for i, x := range d.Items {
			e := reflect.New(dst.Type().Elem()).Elem()
			if !convInto(s.Object.Values, g.Elem, x, e) {
				return false
			}
			k := reflect.New(dst.Type().Key()).Elem()
			k.SetString(string(d.Keys[i]))
			dst.SetMapIndex(k, e) // last write wins
		}
		return true
	}
	return false
}

// ---- Go value -> the datum it denotes --------------------------------------------------------------------------

// isEmptyValue: "empty" in the sense of an omitempty tag: false, 0 (including
// -0), "", nil pointer, and slices / maps without entries.  Structs, wrappers
// and arrays with elements are never empty.
func isEmptyValue(g *GT, v reflect.Value) bool {
	g = g.under()
	switch g.Kind {
	case "bool":
		return !v.Bool()
	case "int8", "int16", "int32", "int64", "int":
		return v.Int() == 0
	case "uint8", "uint16", "uint32", "uint64", "uint", "uintptr":
		return v.Uint() == 0
	case "float32", "float64":
		return v.Float() == 0
	case "string", "slice", "map", "array":
		return v.Len() == 0
	case "ptr":
		return v.IsNil()
	}
	return false
}

// datumOfValue: the datum of schema s that the Go value v of type g denotes,
// for schemas of the shape SchemaForType produces.  A nil pointer, a zero
// time.Time, an invalid null.* wrapper and an empty omitempty field denote the
// null branch of their union; map entries are sorted by key.  ok=false when the
// (schema, type) pair is not understood.
func datumOfValue(s avro.Schema, g *GT, v reflect.Value) (d *Datum, ok bool) {
	defer func() {
		if p := recover(); p != nil {
			d, ok = nil, false
		}
	}()
	return dov(s, g, v, false)
}

func dov(s avro.Schema, g *GT, v reflect.Value, omit bool) (*Datum, bool) {
	if g == nil || !v.IsValid() {
		return nil, false
	}
	if g.Kind == "named" {
		return dov(s, g.Elem, v, omit)
	}
	if s.Type == "union" {
		ni, oi, ok := nullIndex(s)
		if !ok {
			return nil, false
		}
		nullD := &Datum{K: "union", Branch: ni, Inner: &Datum{K: "null"}}
		some := func(in *Datum, ok bool) (*Datum, bool) {
			if !ok {
				return nil, false
			}
			return &Datum{K: "union", Branch: oi, Inner: in}, true
		}
		switch g.Kind {
		case "ptr":
			if v.IsNil() {
				return nullD, true
			}
			if pe := g.Elem.under(); pe != nil && pe.Kind == "wrap" && pe.Wrap == "time" {
				// a non-nil pointer is "everything else": even a pointer to the zero
				// time is written as the non-null branch (and reads back as such)
				if e, ok := expose(v.Elem()); ok {
					t, _ := timeOf(e)
					return some(dovTime(s.Union[oi], t))
				}
			}
			return dov(s, g.Elem, v.Elem(), false)
		case "wrap":
			e, ok := expose(v)
			if !ok {
				return nil, false
			}
			if g.Wrap == "time" {
				t, _ := timeOf(e)
				if t.IsZero() {
					return nullD, true
				}
				return some(dovTime(s.Union[oi], t))
			}
			valid, payload, ok := wrapParts(g.Wrap, e)
			if !ok {
				return nil, false
			}
			if !valid {
				return nullD, true
			}
			switch g.Wrap {
			case "nullint":
				return some(dov(s.Union[oi], mkGT("int64"), payload, false))
			case "nullbool":
				return some(dov(s.Union[oi], mkGT("bool"), payload, false))
			case "nullfloat":
				if s.Union[oi].Type == "float" {
					return some(&Datum{K: "float", F: uint64(math.Float32bits(float32(payload.Float())))}, true)
				}
				return some(dov(s.Union[oi], mkGT("float64"), payload, false))
			case "nullstring":
				return some(dov(s.Union[oi], mkGT("string"), payload, false))
			case "nulltime":
				t, _ := timeOf(payload)
				return some(dovTime(s.Union[oi], t))
			}
			return nil, false
		}
		if omit && isEmptyValue(g, v) && !(g.under() != nil && g.under().Kind == "map" && !v.IsNil()) {
			// the zero value of a map is the nil map; an empty non-nil map is not omitted
			return nullD, true
		}
		return some(dov(s.Union[oi], g, v, false))
	}
	if g.Kind == "ptr" {
		// a pointer without a union around it (pointer to slice or map): nil
		// denotes what the zero value denotes
		if v.IsNil() {
			return dov(s, g.Elem, reflect.Zero(v.Type().Elem()), false)
		}
		return dov(s, g.Elem, v.Elem(), false)
	}
	if g.Kind == "wrap" {
		// a wrapper under a schema that is not a union: the payload is written as it is
		e, ok := expose(v)
		if !ok {
			return nil, false
		}
		if g.Wrap == "time" {
			t, _ := timeOf(e)
			return dovTime(s, t)
		}
		_, payload, ok := wrapParts(g.Wrap, e)
		if !ok {
			return nil, false
		}
		switch g.Wrap {
		case "nullint":
			return dov(s, mkGT("int64"), payload, false)
		case "nullbool":
			return dov(s, mkGT("bool"), payload, false)
		case "nullfloat":
			if s.Type == "float" {
				return &Datum{K: "float", F: uint64(math.Float32bits(float32(payload.Float())))}, true
			}
			return dov(s, mkGT("float64"), payload, false)
		case "nullstring":
			return dov(s, mkGT("string"), payload, false)
		case "nulltime":
			t, _ := timeOf(payload)
			return dovTime(s, t)
		}
		return nil, false
	}
	switch s.Type {
	case "null":
		return &Datum{K: "null"}, true
	case "boolean":
		if g.Kind != "bool" {
			return nil, false
		}
		return &Datum{K: "bool", B: v.Bool()}, true
	case "int", "long":
		if !isIntKind(g.Kind) {
			return nil, false
		}
		if s.Type == "int" && (v.Int() < math.MinInt32 || v.Int() > math.MaxInt32) {
			return nil, false
		}
		return &Datum{K: s.Type, I: v.Int()}, true
	case "float":
		if g.Kind != "float32" {
			return nil, false
		}
		return &Datum{K: "float", F: uint64(f32BitsOf(v))}, true
	case "double":
		switch g.Kind {
		case "float64":
			return &Datum{K: "double", F: f64BitsOf(v)}, true
		case "float32":
			return &Datum{K: "double", F: math.Float64bits(float64(math.Float32frombits(f32BitsOf(v))))}, true
		}
		return nil, false
	case "string":
		if g.Kind != "string" {
			return nil, false
		}
		return &Datum{K: "string", Bytes: []byte(v.String())}, true
	case "bytes":
		if !g.isBytes() {
			return nil, false
		}
		return &Datum{K: "bytes", Bytes: bytesOf(v)}, true
	case "fixed":
		if g.Kind != "array" || !g.Elem.isU8() || s.Object == nil || s.Object.Size != v.Len() {
			return nil, false
		}
		return &Datum{K: "fixed", Bytes: bytesOf(v)}, true
	case "record":
		if g.Kind != "struct" || s.Object == nil {
			return nil, false
		}
		d := &Datum{K: "record", Items: []*Datum{}}
		for _, f := range s.Object.Fields {
			j := fieldIndex(g, f.Name)
			if j < 0 || j >= v.NumField() {
				return nil, false // a writer needs every field
			}
			fv, ok := expose(v.Field(j))
			if !ok {
				return nil, false
			}
			x, ok := dov(f.Type, g.Fields[j].T, fv, fieldOmitEmpty(g.Fields[j]))
			if !ok {
				return nil, false
			}
			d.Items = append(d.Items, x)
		}
		return d, true
	case "array":
		if g.Kind != "slice" || s.Object == nil {
			return nil, false
		}
		d := &Datum{K: "array", Items: []*Datum{}}
		for i := 0; i < v.Len(); i++ {
			x, ok := dov(s.Object.Items, g.Elem, v.Index(i), false)
			if !ok {
				return nil, false
			}
			d.Items = append(d.Items, x)
		}
		return d, true
	case "map":
		if g.Kind != "map" || s.Object == nil || g.Key.under().Kind != "string" {
			return nil, false
		}
		d := &Datum{K: "map", Items: []*Datum{}, Keys: [][]byte{}}
		keys := v.MapKeys()
		sort.Slice(keys, func(i, j int) bool { return keys[i].String() < keys[j].String() })
		for _, k := range keys {
			x, ok := dov(s.Object.Values, g.Elem, v.MapIndex(k), false)
			if !ok {
				return nil, false
			}
			d.Keys = append(d.Keys, []byte(k.String()))
			d.Items = append(d.Items, x)
		}
		return d, true
	}
	return nil, false
}

func floorDiv(a, b int64) int64 {
	q := a / b
	if a%b != 0 && (a%b < 0) != (b < 0) {
		q--
	}
	return q
}

// dovTime: the datum a time denotes under string, long (plain = nanoseconds,
// timestamp-millis, timestamp-micros) and int/date schemas.
func dovTime(s avro.Schema, t time.Time) (*Datum, bool) {
	lt := ""
	if s.Object != nil {
		lt = s.Object.LogicalType
	}
	switch s.Type {
	case "string":
		return &Datum{K: "string", Bytes: []byte(t.Format(time.RFC3339Nano))}, true
	case "long":
		sec, ns := t.Unix(), int64(t.Nanosecond())
		switch lt {
		case "timestamp-millis":
			return &Datum{K: "long", I: sec*1000 + ns/1000000}, true
		case "timestamp-micros":
			return &Datum{K: "long", I: sec*1000000 + ns/1000}, true
		}
		return &Datum{K: "long", I: sec*1000000000 + ns}, true
	case "int":
		if lt == "date" {
			return &Datum{K: "int", I: floorDiv(t.Unix(), 86400)}, true
		}
	}
	return nil, false
}
