package main

import (
	"fmt"
	"strconv"
	"strings"
)

// Printers for Coq terms.

func cZ(v int64) string {
	if v < 0 {
		return "(" + strconv.FormatInt(v, 10) + ")"
	}
	return strconv.FormatInt(v, 10)
}

func cU(v uint64) string { return strconv.FormatUint(v, 10) }

func cBool(b bool) string {
	if b {
		return "true"
	}
	return "false"
}

func cBytes(b []byte) string {
	if len(b) == 0 {
		return "[]"
	}
	var sb strings.Builder
	sb.WriteByte('[')
	for i, x := range b {
		if i > 0 {
			sb.WriteByte(';')
		}
		sb.WriteString(strconv.Itoa(int(x)))
	}
	sb.WriteByte(']')
	return sb.String()
}

func cList(items []string) string {
	if len(items) == 0 {
		return "[]"
	}
	return "[" + strings.Join(items, "; ") + "]"
}

func cApp(f string, args ...string) string {
	if len(args) == 0 {
		return f
	}
	return "(" + f + " " + strings.Join(args, " ") + ")"
}

func cOpt(s *string) string {
	if s == nil {
		return "None"
	}
	return "(Some " + *s + ")"
}

func cPair(a, b string) string { return fmt.Sprintf("(%s, %s)", a, b) }

func hexs(b []byte) string { return fmt.Sprintf("%x", b) }
