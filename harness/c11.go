package main

// C11 — decoded values are fully visible to the garbage collector.
//
// What the Coq side proves is bitmaps per allocation site (coq/Model/GcTyping.v);
// the collector itself cannot be modelled, so this driver EXERCISES it:
//
//   for pool types and random struct types biased to the notable shapes (slices and
//   maps behind pointers, maps of maps / slices / pointers, pointers to fixed arrays,
//   slices of pointers) values are decoded with Codec.Read and with ReadFile (null,
//   deflate, snappy), while and after which collections are forced
//   (debug.SetGCPercent(1) plus a goroutine calling runtime.GC() in a loop during
//   decoding, runtime.GC() inside the ReadFile callback, then GC x2, heap churn with
//   same-typed garbage and raw scan / noscan objects of every small size class, GC,
//   debug.FreeOSMemory()), and the decoded values are deep-compared with values built
//   from the datums by ordinary Go code before any collection.  The values are then
//   encoded under the same pressure (map iteration with the hand-rolled iterator) and
//   the encodings compared, up to map order, with those produced with the collector
//   off.
//
// All of it runs in the worker child: a mis-tracked pointer kills the process
// ("found bad pointer in Go heap", SIGSEGV).  crash => gc-crash, value difference =>
// gc-value-lost, encoding difference => gc-encode-differs (map-new-header when the
// type has a map behind a pointer or a map of maps: the shape of the repaired defect).
//
// Model correspondence (Avro.Corr.Gc): the values as they are AFTER the collections
// against c_read (KRead), the encodings written under pressure against c_write
// (KWrite), the runtime's type bitmaps against ptrmap (KPtrmap), the arenas the
// decoder left in its bank against bank_sites (KAllocs).

import (
	"bytes"
	"encoding/json"
	"fmt"
	"math/rand"
	"reflect"
	"runtime"
	"runtime/debug"
	"sort"
	"strconv"
	"strings"
	"time"
	"unsafe"

	"github.com/philpearl/avro"
)

func init() {
	register("C11", "Avro.Corr.Gc", runC11)
	workerFns["c11"] = func(arg json.RawMessage) (any, error) {
		var req c11Req
		if err := json.Unmarshal(arg, &req); err != nil {
			return nil, err
		}
		return c11Run(&req), nil
	}
	workerFns["c11alloc"] = func(arg json.RawMessage) (any, error) { return c11AllocProbe(), nil }
}

// c11AllocProbe (child process): memory handed out by a bank for a type must be memory the
// collector scans as that type — whatever the type looks like to a record codec (pointers in
// unexported fields, in arrays, in wrapper structs).  For each type: many ReadBuf.Alloc calls;
// every pointer word of every allocation (the type descriptor's own bitmap says which) is
// pointed at a fresh object holding a pattern, and no other reference to that object is
// kept; collections and churn; then every object is read back through its slot.
type c11Sealed struct {
	raw  []byte
	note string
	next *int64
	n    int64
}
type c11HalfSealed struct {
	N   int64 `json:"n"`
	F   float64
	raw []byte
}
type c11ArrOfPtr struct {
	n  int32
	ps [3]*int64
}

type c11AllocRes struct {
	Failures []string `json:"failures"`
	Types    int      `json:"types"`
	Slots    int      `json:"slots"`
}

func c11AllocProbe() c11AllocRes {
	var res c11AllocRes
	types := []reflect.Type{
		reflect.TypeOf(c11Sealed{}), reflect.TypeOf(c11HalfSealed{}), reflect.TypeOf(c11ArrOfPtr{}),
		reflect.TypeOf(time.Time{}), reflect.TypeOf(struct{ P *int64 }{}), reflect.TypeOf([2]string{}),
		reflect.TypeOf(struct {
			A int64
			m map[string]int
		}{}), reflect.TypeOf(""), reflect.TypeOf([]byte(nil)), reflect.TypeOf(struct {
			a, b int64
			i    any
		}{}),
	}
	type slot struct {
		at   unsafe.Pointer // the pointer word inside the bank's memory
		want byte
	}
	for _, t := range types {
		mask, _, ok := c11GCMask(t)
		if !ok {
			continue
		}
		res.Types++
		rb := avro.NewReadBuf(nil)
		var slots []slot
		for i := 0; i < 1500; i++ {
			p := rb.Alloc(t)
			for w, isPtr := range mask {
				if !isPtr {
					continue
				}
				obj := new([64]byte)
				pat := byte(0x10 + (i+w)%0x70)
				for k := range obj {
					obj[k] = pat
				}
				at := unsafe.Add(p, w*8)
				*(*unsafe.Pointer)(at) = unsafe.Pointer(obj)
				slots = append(slots, slot{at, pat})
			}
		}
		res.Slots += len(slots)
		runtime.GC()
		runtime.GC()
		var keep [][]byte
		for k := 0; k < 120000; k++ {
			b := make([]byte, 64)
			for j := range b {
				b[j] = 0xEE
			}
			if k%1000 == 0 {
				keep = append(keep, b)
			}
		}
		runtime.GC()
		bad := 0
		for _, sl := range slots {
			obj := (*[64]byte)(*(*unsafe.Pointer)(sl.at))
			if obj[0] != sl.want || obj[63] != sl.want {
				bad++
			}
		}
		runtime.KeepAlive(rb)
		runtime.KeepAlive(keep)
		if bad > 0 {
			res.Failures = append(res.Failures, fmt.Sprintf("%s: %d of %d objects referenced only from bank memory allocated for this type were reclaimed and reused after a collection", t, bad, len(slots)))
		}
	}
	return res
}

// ---- types with the notable shapes ------------------------------------------------------------

type c11Gen struct {
	rng *rand.Rand
}

func c11Bytes() *GT        { return &GT{Kind: "slice", Elem: mkGT("uint8")} }
func c11Fixed(n int) *GT   { return &GT{Kind: "array", Len: n, Elem: mkGT("uint8")} }
func c11Slice(e *GT) *GT   { return &GT{Kind: "slice", Elem: e} }
func c11Map(e *GT) *GT     { return &GT{Kind: "map", Key: mkGT("string"), Elem: e} }
func c11Ptr(e *GT) *GT     { return &GT{Kind: "ptr", Elem: e} }
func c11Wrap(w string) *GT { return &GT{Kind: "wrap", Wrap: w} }

// leaf: basic kinds, []byte, the wrappers
func (cg *c11Gen) leaf() *GT {
	r := cg.rng.Intn(100)
	switch {
	case r < 50:
		return mkGT([]string{"int64", "int32", "int16", "int", "string", "string", "float64", "float32", "bool"}[cg.rng.Intn(9)])
	case r < 62:
		return c11Bytes()
	case r < 72:
		return c11Wrap("time")
	case r < 90:
		return c11Wrap(wrapNames[1+cg.rng.Intn(5)])
	default:
		return c11Fixed(cg.rng.Intn(20))
	}
}

// pointee: what a pointer may point at directly besides collections (no wrapper but
// time.Time: a pointer to an invalid null.X is a recorded writer finding)
func (cg *c11Gen) pointee(depth int) *GT {
	switch r := cg.rng.Intn(10); {
	case r < 4:
		return mkGT([]string{"int64", "int32", "int16", "string", "float64", "bool"}[cg.rng.Intn(6)])
	case r < 5:
		return c11Wrap("time")
	case r < 7:
		return c11Fixed(1 + cg.rng.Intn(33))
	default:
		return cg.strct(depth+1, 1+cg.rng.Intn(3))
	}
}

func (cg *c11Gen) elem(depth int) *GT {
	if depth >= 3 || cg.rng.Intn(3) != 0 {
		return cg.leaf()
	}
	return cg.shape(depth + 1)
}

func (cg *c11Gen) strct(depth, nfields int) *GT {
	g := &GT{Kind: "struct"}
	for i := 0; i < nfields; i++ {
		var t *GT
		if depth >= 3 || cg.rng.Intn(2) == 0 {
			t = cg.leaf()
		} else {
			t = cg.shape(depth + 1)
		}
		g.Fields = append(g.Fields, GF{Name: "F" + strconv.Itoa(i), Exported: true, JSON: "f" + strconv.Itoa(i), T: t})
	}
	return g
}

// shape: one of the notable constructors
func (cg *c11Gen) shape(depth int) *GT {
	e := func() *GT { return cg.elem(depth + 1) }
	switch cg.rng.Intn(20) {
	case 0:
		return c11Ptr(c11Slice(e())) // *[]E
	case 1:
		return c11Ptr(c11Map(e())) // *map[string]E
	case 2:
		return c11Map(c11Map(e())) // map of maps
	case 3:
		return c11Map(c11Slice(e())) // map of slices
	case 4:
		return c11Map(c11Ptr(cg.pointee(depth))) // map of pointers
	case 5:
		return c11Ptr(c11Fixed(1 + cg.rng.Intn(40))) // *[N]byte
	case 6:
		return c11Slice(c11Ptr(cg.pointee(depth))) // slice of pointers
	case 7:
		return c11Slice(c11Slice(e()))
	case 8:
		return c11Slice(c11Map(e()))
	case 9:
		return c11Ptr(cg.strct(depth+1, 1+cg.rng.Intn(3)))
	case 10:
		return c11Map(cg.strct(depth+1, 1+cg.rng.Intn(3)))
	case 11:
		return c11Ptr(c11Slice(c11Ptr(cg.pointee(depth)))) // *[]*E
	case 12:
		return c11Ptr(c11Map(c11Slice(e()))) // *map[string][]E
	case 13:
		return c11Map(c11Ptr(c11Fixed(1 + cg.rng.Intn(20)))) // map[string]*[N]byte
	case 14:
		return c11Ptr(c11Map(c11Map(e()))) // *map[string]map[string]E
	case 15:
		return c11Map(c11Ptr(c11Slice(e()))) // map[string]*[]E
	case 16:
		return c11Map(c11Ptr(c11Map(e()))) // map[string]*map[string]E
	case 17:
		return c11Slice(cg.strct(depth+1, 1+cg.rng.Intn(3)))
	case 18:
		return c11Slice(c11Ptr(c11Map(e()))) // []*map[string]E
	default:
		return c11Ptr(cg.pointee(depth))
	}
}

func c11GenType(rng *rand.Rand) *GT {
	cg := &c11Gen{rng: rng}
	g := &GT{Kind: "struct"}
	n := 1 + rng.Intn(5)
	for i := 0; i < n; i++ {
		var t *GT
		if rng.Intn(5) == 0 {
			t = cg.leaf()
		} else {
			t = cg.shape(1)
		}
		g.Fields = append(g.Fields, GF{Name: "F" + strconv.Itoa(i), Exported: true, JSON: "f" + strconv.Itoa(i), T: t})
	}
	return g
}

// c11SchemaFor: the schema a caller would write for g, following the library's own
// conventions (pointer => [null, T] unless T is an array or map; wrappers nullable),
// with fixed for byte arrays (SchemaForType says bytes there, which the codec builder
// refuses: fixed arrays are reachable through caller schemas only).
func c11SchemaFor(g *GT, names *int) avro.Schema {
	nullable := func(s avro.Schema) avro.Schema {
		return avro.Schema{Type: "union", Union: []avro.Schema{{Type: "null"}, s}}
	}
	name := func(p string) string { *names++; return p + strconv.Itoa(*names) }
	switch g.Kind {
	case "named":
		return c11SchemaFor(g.Elem, names)
	case "bool":
		return avro.Schema{Type: "boolean"}
	case "int", "int64", "int32", "int16":
		return avro.Schema{Type: "long"}
	case "float64", "float32":
		return avro.Schema{Type: "double"}
	case "string":
		return avro.Schema{Type: "string"}
	case "slice":
		if g.isBytes() {
			return avro.Schema{Type: "bytes"}
		}
		return avro.Schema{Type: "array", Object: &avro.SchemaObject{Items: c11SchemaFor(g.Elem, names)}}
	case "array":
		return avro.Schema{Type: "fixed", Object: &avro.SchemaObject{Name: name("Fx"), Size: g.Len}}
	case "map":
		return avro.Schema{Type: "map", Object: &avro.SchemaObject{Values: c11SchemaFor(g.Elem, names)}}
	case "ptr":
		in := c11SchemaFor(g.Elem, names)
		if in.Type == "array" || in.Type == "map" || in.Type == "union" {
			return in
		}
		return nullable(in)
	case "struct":
		o := &avro.SchemaObject{Name: name("R")}
		for _, f := range g.Fields {
			o.Fields = append(o.Fields, avro.SchemaRecordField{Name: fieldName(f), Type: c11SchemaFor(f.T, names)})
		}
		return avro.Schema{Type: "record", Object: o}
	case "wrap":
		switch g.Wrap {
		case "time":
			return avro.Schema{Type: "string"}
		case "nullint":
			return nullable(avro.Schema{Type: "long"})
		case "nullbool":
			return nullable(avro.Schema{Type: "boolean"})
		case "nullfloat":
			return nullable(avro.Schema{Type: "double"})
		case "nullstring", "nulltime":
			return nullable(avro.Schema{Type: "string"})
		}
	}
	return avro.Schema{Type: "null"}
}

// c11Shapes: which notable shapes occur in g (input distribution).
func c11Shapes(g *GT) []string {
	set := map[string]bool{}
	var walk func(x *GT)
	walk = func(x *GT) {
		if x == nil {
			return
		}
		u := x.under()
		if u == nil {
			return
		}
		e := u.Elem.under()
		switch u.Kind {
		case "ptr":
			if e != nil {
				switch {
				case e.Kind == "slice" && !e.isBytes():
					set["ptr-slice"] = true
				case e.Kind == "map":
					set["ptr-map"] = true
				case e.Kind == "array":
					set["ptr-fixed"] = true
				case e.Kind == "struct":
					set["ptr-struct"] = true
				default:
					set["ptr-basic"] = true
				}
			}
		case "map":
			if e != nil {
				switch {
				case e.Kind == "map":
					set["map-map"] = true
				case e.Kind == "slice" && !e.isBytes():
					set["map-slice"] = true
				case e.Kind == "ptr":
					set["map-ptr"] = true
				case e.Kind == "struct":
					set["map-struct"] = true
				case e.Kind == "wrap":
					set["map-wrapper"] = true
				default:
					set["map-basic"] = true
				}
			}
		case "slice":
			if e != nil && !u.isBytes() {
				switch {
				case e.Kind == "ptr":
					set["slice-ptr"] = true
				case e.Kind == "map":
					set["slice-map"] = true
				case e.Kind == "slice" && !e.isBytes():
					set["slice-slice"] = true
				case e.Kind == "struct":
					set["slice-struct"] = true
				}
			}
		}
		walk(u.Elem)
		for _, f := range u.Fields {
			walk(f.T)
		}
	}
	walk(g)
	out := make([]string, 0, len(set))
	for k := range set {
		out = append(out, k)
	}
	sort.Strings(out)
	return out
}

// the shape of the repaired MapCodec.New defect: a map behind a pointer or as a map value
func c11MapNewShape(g *GT) bool {
	return g.contains(func(x *GT) bool {
		u := x.under()
		if u == nil || (u.Kind != "ptr" && u.Kind != "map") {
			return false
		}
		e := u.Elem.under()
		return e != nil && e.Kind == "map"
	})
}

func c11Classify(g *GT, key string) string {
	if (key == "gc-value-lost" || key == "gc-crash") && c11MapNewShape(g) {
		return "map-new-header"
	}
	return key
}

// c11FixNil: a nil pointer to a slice or map cannot be expressed by the schema (it
// reads back as a pointer to the empty collection: a recorded finding of the round
// trip properties); make such pointers non-nil so that the value is expressible.
func c11FixNil(g *GT, v reflect.Value) {
	g = g.under()
	if g == nil || !v.IsValid() {
		return
	}
	switch g.Kind {
	case "ptr":
		e := g.Elem.under()
		if v.IsNil() && e != nil && (e.Kind == "map" || (e.Kind == "slice" && !e.isBytes())) && v.CanSet() {
			v.Set(reflect.New(v.Type().Elem()))
		}
		if !v.IsNil() {
			c11FixNil(g.Elem, v.Elem())
		}
	case "slice":
		if !g.isBytes() {
			for i := 0; i < v.Len(); i++ {
				c11FixNil(g.Elem, v.Index(i))
			}
		}
	case "map":
		it := v.MapRange()
		for it.Next() {
			e := reflect.New(v.Type().Elem()).Elem()
			e.Set(it.Value())
			c11FixNil(g.Elem, e)
			v.SetMapIndex(it.Key(), e)
		}
	case "struct":
		for i, f := range g.Fields {
			if i < v.NumField() && f.Exported {
				c11FixNil(f.T, v.Field(i))
			}
		}
	}
}

// c11Inflate adds entries to every map of v (up to n per map): maps large enough to
// have a directory and several tables, so that iteration overlaps collections.
func c11Inflate(rng *rand.Rand, g *GT, v reflect.Value, n int) {
	g = g.under()
	if g == nil || !v.IsValid() {
		return
	}
	switch g.Kind {
	case "ptr":
		if !v.IsNil() {
			c11Inflate(rng, g.Elem, v.Elem(), n)
		}
	case "slice":
		if !g.isBytes() {
			for i := 0; i < v.Len(); i++ {
				c11Inflate(rng, g.Elem, v.Index(i), n/4)
			}
		}
	case "map":
		if v.IsNil() {
			if !v.CanSet() {
				return
			}
			v.Set(reflect.MakeMap(v.Type()))
		}
		for i := 0; i < n; i++ {
			k := reflect.New(v.Type().Key()).Elem()
			k.SetString("k" + strconv.Itoa(i) + "-" + strconv.Itoa(rng.Intn(1000)))
			e := reflect.New(v.Type().Elem()).Elem()
			fillValue(rng, g.Elem, e, 4)
			c11FixNil(g.Elem, e)
			v.SetMapIndex(k, e)
		}
	case "struct":
		for i, f := range g.Fields {
			if i < v.NumField() && f.Exported {
				c11Inflate(rng, f.T, v.Field(i), n)
			}
		}
	}
}

// ---- the runtime's pointer bitmap of a type ---------------------------------------------------

// go1.24 internal/abi.Type, the head of every runtime type descriptor
type c11AbiType struct {
	Size, PtrBytes uintptr
	Hash           uint32
	TFlag          uint8
	Align          uint8
	FieldAlign     uint8
	Kind           uint8
	Equal          unsafe.Pointer
	GCData         *byte
}

const c11TFlagGCMaskOnDemand = 1 << 4

// c11GCMask: one flag per word of t, read from the type descriptor the allocator and
// the collector use (ok=false when the mask of a large type has not been built yet).
func c11GCMask(t reflect.Type) (mask []bool, size int, ok bool) {
	at := (*c11AbiType)(unsafe.Pointer(rtypePtr(t)))
	if uintptr(at.Size) != t.Size() { // the descriptor does not have the assumed layout
		return nil, 0, false
	}
	data := at.GCData
	if at.TFlag&c11TFlagGCMaskOnDemand != 0 {
		if data == nil {
			return nil, 0, false
		}
		data = *(**byte)(unsafe.Pointer(data))
	}
	nw := (int(at.Size) + 7) / 8
	pw := int(at.PtrBytes) / 8
	if pw > 0 && data == nil {
		return nil, 0, false
	}
	mask = make([]bool, nw)
	for i := 0; i < pw && i < nw; i++ {
		b := *(*byte)(unsafe.Add(unsafe.Pointer(data), i/8))
		mask[i] = (b>>(uint(i)%8))&1 == 1
	}
	return mask, int(at.Size), true
}

type c11Probe struct {
	A uintptr
	B *int
	C [3]uint16
	D string
}

// the reading is validated on a type whose bitmap is known
func c11MaskSelfTest() bool {
	m, size, ok := c11GCMask(reflect.TypeOf(c11Probe{}))
	want := []bool{false, true, false, true, false}
	if !ok || size != 40 || len(m) != len(want) {
		return false
	}
	for i := range want {
		if m[i] != want[i] {
			return false
		}
	}
	return true
}

func c11RTypeOfPtr(p uintptr) reflect.Type {
	t := reflect.TypeOf(0)
	(*[2]uintptr)(unsafe.Pointer(&t))[1] = p
	return t
}

var c11UnsafePtrType = reflect.TypeOf(unsafe.Pointer(nil))

// unsafe.Pointer has a name and a package, which gtOf takes for a defined type; it is
// the predeclared kind TUnsafePtr.
func c11Canon(g *GT) *GT {
	if g == nil {
		return nil
	}
	if g.Kind == "named" && g.Pkg == "unsafe" && g.Name == "Pointer" {
		return mkGT("unsafeptr")
	}
	c := *g
	c.Elem, c.Key = c11Canon(g.Elem), c11Canon(g.Key)
	if len(g.Fields) > 0 {
		c.Fields = make([]GF, len(g.Fields))
		for i, f := range g.Fields {
			f.T = c11Canon(f.T)
			c.Fields[i] = f
		}
	}
	return &c
}

func c11CoqOfRType(t reflect.Type) string {
	if t == c11UnsafePtrType {
		return "TUnsafePtr"
	}
	return c11Canon(gtOf(t)).Coq()
}

func cBools(bs []bool) string {
	items := make([]string, len(bs))
	for i, b := range bs {
		items[i] = cBool(b)
	}
	return cList(items)
}

// component types of t (the positions a decoder allocates for), outermost first
func c11Components(t reflect.Type, seen map[reflect.Type]bool, out *[]reflect.Type) {
	if t == nil || seen[t] {
		return
	}
	seen[t] = true
	*out = append(*out, t)
	switch t.Kind() {
	case reflect.Pointer, reflect.Slice, reflect.Array:
		c11Components(t.Elem(), seen, out)
	case reflect.Map:
		c11Components(t.Key(), seen, out)
		c11Components(t.Elem(), seen, out)
	case reflect.Struct:
		if wrapOfRType(t) != "" {
			return
		}
		for i := 0; i < t.NumField(); i++ {
			c11Components(t.Field(i).Type, seen, out)
		}
	}
}

// ---- the worker side --------------------------------------------------------------------------

type c11Req struct {
	Schema string   `json:"schema"`
	Type   *GT      `json:"type"`
	Encs   [][]byte `json:"encs"`
	Mode   string   `json:"mode"` // after | during | file-null | file-deflate | file-snappy
	Seed   int64    `json:"seed"`
	NCoq   int      `json:"ncoq"` // how many records to report as Coq terms
}

type c11Resp struct {
	Class    string   `json:"class"` // ok | skip | gc-value-lost | gc-encode-differs | error
	Where    string   `json:"where"`
	Msg      string   `json:"msg"`
	Coq      []string `json:"coq"`    // decoded values after all collections
	Rem      []int    `json:"rem"`    // bytes left by Codec.Read
	Wrote    [][]byte `json:"wrote"`  // encodings of those values written under pressure
	WroteP   []bool   `json:"wrotep"` // Write panicked
	Want     []string `json:"want"`   // Coq datum each value denotes ("" = not expressible)
	Arenas   []string `json:"arenas"` // element types of the bank arenas in use after the first record
	GCDecode int      `json:"gc_decode"`
	GCCallbk int      `json:"gc_callback"`
	GCEncode int      `json:"gc_encode"`
	Decodes  int      `json:"decodes"`
	Encodes  int      `json:"encodes"`
}

func c11NumGC() int {
	var m runtime.MemStats
	runtime.ReadMemStats(&m)
	return int(m.NumGC)
}

// pressure: collections run continuously (and at every 1% of heap growth) until stop()
func c11Pressure() (stop func()) {
	old := debug.SetGCPercent(1)
	quit := make(chan struct{})
	done := make(chan struct{})
	go func() {
		defer close(done)
		for {
			select {
			case <-quit:
				return
			default:
				runtime.GC()
			}
		}
	}()
	return func() {
		close(quit)
		<-done
		debug.SetGCPercent(old)
	}
}

var (
	c11Ring     [256]any
	c11RingPos  int
	c11Sentinel = new([64]byte)
)

func c11Keep(x any) {
	c11Ring[c11RingPos%len(c11Ring)] = x
	c11RingPos++
}

var c11SizeClasses = []int{8, 16, 24, 32, 48, 64, 80, 96, 112, 128, 144, 160, 176, 192, 208, 224, 240, 256, 288, 320, 352, 384, 416, 448, 480, 512, 576, 640, 704, 768, 896, 1024, 1152, 1280, 1408, 1536, 1792, 2048}

// c11Churn: garbage that reuses the memory a collection may have freed: values of the
// same type as the decoded ones (same size classes, same scan-ness), plus raw objects
// of every small size class, pointer-free ones filled with a pattern and
// pointer-carrying ones full of valid pointers.  Almost all of it is dropped at once.
func c11Churn(rng *rand.Rand, g *GT, n int) {
	for i := 0; i < n; i++ {
		v := genValue(rng, g)
		if i%4 == 0 {
			c11Keep(v.Interface())
		}
	}
	for rep := 0; rep < 1+n/8; rep++ {
		for _, sz := range c11SizeClasses {
			b := make([]byte, sz)
			for i := range b {
				b[i] = 0xA5
			}
			p := make([]unsafe.Pointer, sz/8)
			for i := range p {
				p[i] = unsafe.Pointer(&c11Sentinel[i%64])
			}
			s := strings.Repeat("\xee", sz)
			m := map[string]string{s[:sz%7+1]: s}
			if rng.Intn(16) == 0 {
				c11Keep(b)
				c11Keep(p)
				c11Keep(m)
			}
		}
	}
}

// c11AfterDecode: the collections and allocations between decoding and looking
func c11AfterDecode(rng *rand.Rand, g *GT) {
	runtime.GC()
	runtime.GC()
	c11Churn(rng, g, 24)
	runtime.GC()
	debug.FreeOSMemory()
	c11Churn(rng, g, 8)
}

func c11ArenasInUse(rb *avro.ResourceBank) []string {
	var out []string
	for _, a := range c10Arenas(rb) {
		if a.len > 0 {
			out = append(out, c11CoqOfRType(c11RTypeOfPtr(a.ptyp)))
		}
	}
	return out
}

func c11Run(req *c11Req) (resp c11Resp) {
	debug.SetGCPercent(-1) // phase 1 runs without the collector
	defer debug.SetGCPercent(100)
	rng := rand.New(rand.NewSource(req.Seed))
	g := req.Type
	rt := g.RType()
	s, err := avro.SchemaFromString(req.Schema)
	if err != nil {
		return c11Resp{Class: "skip", Msg: "schema: " + err.Error()}
	}
	codec, err := schemaCodec(s, g)
	if err != nil {
		return c11Resp{Class: "skip", Msg: "build: " + err.Error()}
	}
	n := len(req.Encs)

	// phase 1, collector off: expected values through ordinary Go code, a baseline
	// decode (which must agree: value correctness is not this property's business),
	// baseline encodings
	wants := make([]reflect.Value, n)
	encOff := make([][]byte, n)
	datums := make([]*Datum, n)
	for i, enc := range req.Encs {
		d, rest, derr := decodeDatum(s, enc)
		if derr != nil || len(rest) != 0 {
			return c11Resp{Class: "skip", Msg: "reference decoder rejects the generated encoding"}
		}
		w, fits := convDatum(s, g, d)
		if !fits {
			return c11Resp{Class: "skip", Msg: "datum does not fit the type"}
		}
		datums[i] = d
		wants[i] = w
		rb := avro.NewReadBuf(enc)
		dst := reflect.New(rt)
		if rerr := codec.Read(rb, dst.UnsafePointer()); rerr != nil {
			return c11Resp{Class: "skip", Msg: "baseline read fails: " + rerr.Error()}
		}
		if eq, where := normEq(g, w, dst.Elem()); !eq {
			return c11Resp{Class: "skip", Msg: "baseline read differs (not a GC matter) at " + where}
		}
		if i == 0 {
			resp.Arenas = c11ArenasInUse(c10BankOf(rb))
		}
		out, panicked := implWrite(codec, w)
		if panicked {
			return c11Resp{Class: "skip", Msg: "baseline write panics"}
		}
		encOff[i] = out
	}

	// phase 2: decode with collections running
	var got []reflect.Value // got[k] decodes Encs[k%n]
	var rems []int
	gc0 := c11NumGC()
	fail := func(class, where string) c11Resp {
		resp.Class, resp.Where = class, where
		return resp
	}
	switch {
	case req.Mode == "after":
		for _, enc := range req.Encs {
			r := implRead(codec, g, enc)
			if r.Class != "ok" {
				return fail("gc-value-lost", "Codec.Read outcome "+r.Class+" "+r.Msg)
			}
			got = append(got, r.Val)
			rems = append(rems, r.Rem)
		}
		resp.Decodes = n
	case req.Mode == "during":
		stop := c11Pressure()
		for rep := 0; rep < 40 && (rep < 2 || c11NumGC()-gc0 < 4); rep++ {
			for _, enc := range req.Encs {
				r := implRead(codec, g, enc)
				if r.Class != "ok" {
					stop()
					return fail("gc-value-lost", "Codec.Read under collection: outcome "+r.Class+" "+r.Msg)
				}
				got = append(got, r.Val)
				rems = append(rems, r.Rem)
				resp.Decodes++
			}
		}
		stop()
	case strings.HasPrefix(req.Mode, "file-"):
		ct := &Container{SchemaJSON: []byte(req.Schema), Codec: strings.TrimPrefix(req.Mode, "file-"), Sync: randSync(rng)}
		for k := 0; k < n; {
			m := 1 + rng.Intn(n-k)
			var payload []byte
			for _, rec := range req.Encs[k : k+m] {
				payload = append(payload, rec...)
			}
			ct.Blocks = append(ct.Blocks, CBlock{Count: int64(m), Payload: payload})
			k += m
		}
		file := ct.Bytes(false)
		var banks []*avro.ResourceBank
		stop := c11Pressure()
		cbWhere := ""
		rerr := func() (err error) {
			defer func() {
				if p := recover(); p != nil {
					err = fmt.Errorf("PANIC: %v", p)
				}
			}()
			return avro.ReadFile(bytes.NewReader(file), reflect.New(rt).Elem().Interface(), func(val unsafe.Pointer, rb *avro.ResourceBank) error {
				k := len(got)
				before := c11NumGC()
				// a collection and unrelated allocations inside the callback, before the record is even looked at
				runtime.GC()
				c11Churn(rng, g, 4)
				inPlace := reflect.NewAt(rt, val).Elem()
				if k < n && cbWhere == "" {
					if eq, where := normEq(g, wants[k], inPlace); !eq {
						cbWhere = fmt.Sprintf("record %d inside the callback: %s", k, where)
					}
				}
				v := reflect.New(rt).Elem()
				v.Set(inPlace)
				got = append(got, v)
				rems = append(rems, 0)
				banks = append(banks, rb)
				resp.GCCallbk += c11NumGC() - before
				return nil
			})
		}()
		stop()
		resp.Decodes = len(got)
		if rerr != nil {
			return fail("gc-value-lost", "ReadFile under collection: "+rerr.Error())
		}
		if len(got) != n {
			return fail("gc-value-lost", fmt.Sprintf("ReadFile delivered %d of %d records", len(got), n))
		}
		if cbWhere != "" {
			return fail("gc-value-lost", cbWhere)
		}
		defer func() {
			// the records are done with: recycle half of the banks, so that later requests
			// decode into recycled arenas
			for i, b := range banks {
				if i%2 == 0 {
					b.Close()
				}
			}
		}()
	default:
		return c11Resp{Class: "skip", Msg: "unknown mode " + req.Mode}
	}
	resp.GCDecode = c11NumGC() - gc0

	// phase 3: collections and unrelated allocations, then look
	c11AfterDecode(rng, g)
	for k, v := range got {
		if eq, where := normEq(g, wants[k%n], v); !eq {
			return fail("gc-value-lost", fmt.Sprintf("record %d (decode %d) after collections: %s", k%n, k, where))
		}
	}

	// phase 4: encode the decoded values under pressure; the hand-rolled map iterator
	// runs while the collector marks and sweeps
	gc1 := c11NumGC()
	stop := c11Pressure()
	last := make([][]byte, n)
	lastP := make([]bool, n)
	encWhere := ""
	for rep := 0; rep < 30 && (rep < 2 || c11NumGC()-gc1 < 3) && encWhere == ""; rep++ {
		for k := len(got) - n; k < len(got) && encWhere == ""; k++ {
			i := k % n
			for _, v := range []reflect.Value{got[k], wants[i]} {
				out, panicked := implWrite(codec, v)
				resp.Encodes++
				if panicked {
					encWhere = fmt.Sprintf("record %d: Write panics under collection", i)
					break
				}
				dOn, restOn, errOn := decodeDatum(s, out)
				dOff, _, _ := decodeDatum(s, encOff[i])
				if errOn != nil || len(restOn) != 0 || !datumEq(dOn, dOff, true) {
					encWhere = fmt.Sprintf("record %d: encoding under collection %x, with the collector off %x", i, out, encOff[i])
					break
				}
				if len(out) != len(encOff[i]) {
					encWhere = fmt.Sprintf("record %d: encoding under collection has %d bytes, with the collector off %d", i, len(out), len(encOff[i]))
					break
				}
			}
			if encWhere == "" {
				last[i], lastP[i] = implWrite(codec, got[k])
			}
		}
	}
	stop()
	resp.GCEncode = c11NumGC() - gc1
	if encWhere != "" {
		return fail("gc-encode-differs", encWhere)
	}

	// once more after the encoders ran, then report
	runtime.GC()
	for k, v := range got {
		if eq, where := normEq(g, wants[k%n], v); !eq {
			return fail("gc-value-lost", fmt.Sprintf("record %d (decode %d) after encoding under collection: %s", k%n, k, where))
		}
	}
	base := len(got) - n
	for i := 0; i < n && i < req.NCoq; i++ {
		v := got[base+i]
		resp.Coq = append(resp.Coq, coqVal(g, v))
		resp.Rem = append(resp.Rem, rems[base+i])
		resp.Wrote = append(resp.Wrote, last[i])
		resp.WroteP = append(resp.WroteP, lastP[i])
		want := ""
		if findingShape(g, v) == "" {
			if d, ok := datumOfValue(s, g, v); ok {
				want = coqDatum(d)
			}
		}
		resp.Want = append(resp.Want, want)
	}
	resp.Class = "ok"
	return resp
}

// ---- the driver -----------------------------------------------------------------------------------

type c11Target struct {
	name string
	g    *GT
	s    avro.Schema
}

func runC11(r *Run) {
	{
		var ar c11AllocRes
		outcome, msg := isolated("c11alloc", nil, &ar, 120*time.Second)
		stopWorkers()
		r.Count("bank-alloc-probe")
		switch {
		case outcome != "ok":
			r.Fail(-1, "bank-memory-not-scanned", "the bank allocation probe did not complete: "+outcome+" "+msg, nil)
		default:
			r.Extra["bank_alloc_probe"] = map[string]any{"types": ar.Types, "pointer_slots": ar.Slots}
			for _, f := range ar.Failures {
				r.Fail(-1, "bank-memory-not-scanned", f, map[string]any{"how": "ReadBuf.Alloc(type) x1500; every pointer word set to a fresh object; runtime.GC x2; 120000 64-byte allocations; runtime.GC; objects read back"})
			}
		}
	}
	c11GCDuringDecode(r)
	rng := r.Rng
	maskOK := c11MaskSelfTest()
	if !maskOK {
		r.Notes = append(r.Notes, "runtime type descriptor does not have the go1.24 layout: KPtrmap cases skipped")
	}

	// ---- (1) the runtime's bitmaps against ptrmap --------------------------------------------
	seenT := map[reflect.Type]bool{}
	var comps []reflect.Type
	for _, e := range pool {
		c11Components(reflect.TypeOf(e.Zero), seenT, &comps)
	}
	// the types New allocates as
	for _, t := range []reflect.Type{reflect.TypeOf(int64(0)), reflect.TypeOf(int32(0)), reflect.TypeOf(int16(0)),
		reflect.TypeOf(float32(0)), reflect.TypeOf(float64(0)), reflect.TypeOf(false), reflect.TypeOf(""), reflect.TypeOf([]byte{}),
		c11UnsafePtrType, rtTime, rtNullInt, rtNullBool, rtNullFloat, rtNullString, rtNullTime, rtEmptyIface,
		reflect.TypeOf((chan int)(nil)), reflect.TypeOf((func())(nil)), reflect.TypeOf(c11Probe{})} {
		c11Components(t, seenT, &comps)
	}
	maskKeys := map[string]bool{}
	addMask := func(t reflect.Type) {
		if !maskOK || len(maskKeys) >= r.N(900, 6000) {
			return
		}
		coq := c11CoqOfRType(t)
		if maskKeys[coq] || strings.Contains(coq, "TSelf") {
			return
		}
		m, size, ok := c11GCMask(t)
		if !ok {
			r.Count("ptrmap/mask-not-built")
			return
		}
		maskKeys[coq] = true
		r.Add(cApp("KPtrmap", coq, cZ(int64(size)), cBools(m)), map[string]any{"kind": "ptrmap", "type": t.String(), "size": size, "mask": fmt.Sprint(m)}, "ptrmap/"+coq)
		r.Count("ptrmap/words/" + strconv.Itoa(bucket(len(m))))
	}
	for _, t := range comps {
		addMask(t)
	}

	// ---- (2) decode / collect / compare / encode -----------------------------------------------
	var targets []c11Target
	for _, e := range pool {
		s, err := avro.SchemaForType(reflect.New(reflect.TypeOf(e.Zero)).Interface())
		if err != nil {
			continue
		}
		targets = append(targets, c11Target{e.Name, e.GT, s})
	}
	modes := []string{"after", "during", "file-null", "file-deflate", "file-snappy"}
	ncases := r.N(700, 6000)
	gcTotals := map[string]int{}
	for i := 0; i < ncases; i++ {
		var tg c11Target
		if i < len(targets) {
			tg = targets[i]
		} else if rng.Intn(4) == 0 {
			tg = targets[rng.Intn(len(targets))]
		} else {
			g := c11GenType(rng)
			names := 0
			tg = c11Target{"gen", g, c11SchemaFor(g, &names)}
		}
		g, s := tg.g, tg.s
		mode := modes[i%len(modes)]
		if i >= 2*len(modes)*len(targets)/3 {
			mode = modes[rng.Intn(len(modes))]
		}
		nrec := 1 + rng.Intn(6)
		big := rng.Intn(6) == 0 && g.contains(func(x *GT) bool { return x.Kind == "map" })
		var encs [][]byte
		for k := 0; k < nrec; k++ {
			v := genValue(rng, g)
			zeroExcluded(g, v)
			normaliseOmitZero(g, v, false)
			c11FixNil(g, v)
			if big && k == 0 {
				c11Inflate(rng, g, v, 40+rng.Intn(400))
			}
			if findingShape(g, v) != "" {
				continue
			}
			d, ok := datumOfValue(s, g, v)
			if !ok {
				continue
			}
			enc := encodeDatum(s, d, genChoice(rng, s, d))
			if len(enc) == 0 && len(s.Object.Fields) > 0 && !c11AllNullish(d) {
				continue
			}
			encs = append(encs, enc)
		}
		if len(encs) == 0 {
			r.Count("skipped/no-expressible-value")
			continue
		}
		for _, sh := range c11Shapes(g) {
			r.Count("shape/" + sh)
		}
		r.Count("mode/" + mode)
		r.Count("target/" + tg.name)
		if big {
			r.Count("maps/inflated")
		}
		var comps2 []reflect.Type
		c11Components(g.RType(), seenT, &comps2)
		for _, t := range comps2 {
			addMask(t)
		}

		ncoq := 2
		req := c11Req{Schema: schemaJSON(s), Type: g, Encs: encs, Mode: mode, Seed: rng.Int63(), NCoq: ncoq}
		encHex := make([]string, len(encs))
		total := 0
		for k, e := range encs {
			total += len(e)
			if len(e) <= 400 {
				encHex[k] = hexs(e)
			} else {
				encHex[k] = hexs(e[:400]) + fmt.Sprintf("...(%d bytes)", len(e))
			}
		}
		desc := map[string]any{"kind": "gc", "target": tg.name, "type": g.Coq(), "schema": req.Schema, "mode": mode, "records": encHex, "worker_seed": req.Seed}
		var resp c11Resp
		outcome, msg := isolated("c11", req, &resp, 60*time.Second)
		replay := map[string]any{"schema": req.Schema, "type": g.Coq(), "mode": mode, "records": encHex, "worker_seed": req.Seed, "shapes": c11Shapes(g)}
		switch {
		case outcome == "crash" || outcome == "timeout":
			r.Count("outcome/" + outcome)
			key := "gc-crash"
			if outcome == "timeout" {
				key = "gc-timeout"
			}
			r.Fail(-1, c11Classify(g, key), "the process running decode / collect / encode died ("+msg+"): the collector met memory it was not told about", replay)
			continue
		case outcome == "panic":
			r.Count("outcome/panic")
			r.Fail(-1, c11Classify(g, "gc-crash"), "panic while decoding / encoding under collection: "+msg, replay)
			continue
		}
		r.Count("outcome/" + resp.Class)
		gcTotals["decode"] += resp.GCDecode
		gcTotals["callback"] += resp.GCCallbk
		gcTotals["encode"] += resp.GCEncode
		gcTotals["decodes"] += resp.Decodes
		gcTotals["encodes"] += resp.Encodes
		switch resp.Class {
		case "skip":
			r.Count("skip/" + strings.SplitN(resp.Msg, ":", 2)[0])
			continue
		case "gc-value-lost", "gc-encode-differs":
			r.Fail(-1, c11Classify(g, resp.Class), resp.Where, replay)
			continue
		}
		// model correspondence on what the implementation holds after the collections
		if len(resp.Arenas) > 0 || true {
			r.Add(cApp("KAllocs", coqSchema(s), g.Coq(), cList(resp.Arenas)), map[string]any{"kind": "allocs", "type": g.Coq(), "schema": req.Schema, "arenas": resp.Arenas}, "allocs/"+g.Coq()+"/"+hexs(encs[0][:min(len(encs[0]), 64)]))
			r.Count("arenas/" + strconv.Itoa(len(resp.Arenas)))
		}
		for k := range resp.Coq {
			if len(encs[k]) > 300 {
				continue // large values are compared by the direct oracle only
			}
			impl := cApp("ROk", resp.Coq[k], cZ(int64(resp.Rem[k])))
			r.Add(cApp("KC", cApp("KRead", coqSchema(s), g.Coq(), cBytes(encs[k]), impl)), desc, fmt.Sprintf("read/%s/%x", g.Coq(), encs[k]))
			if resp.Want[k] != "" {
				r.Add(cApp("KC", cApp("KWrite", coqSchema(s), g.Coq(), resp.Coq[k], cOptBytes(resp.Wrote[k], resp.WroteP[k]), resp.Want[k])),
					desc, fmt.Sprintf("write/%s/%x", g.Coq(), resp.Wrote[k]))
			}
		}
	}
	r.Extra["gc_cycles_during_decode"] = gcTotals["decode"]
	r.Extra["gc_cycles_inside_callbacks"] = gcTotals["callback"]
	r.Extra["gc_cycles_during_encode"] = gcTotals["encode"]
	r.Extra["decodes"] = gcTotals["decodes"]
	r.Extra["encodes_under_pressure"] = gcTotals["encodes"]
	r.Extra["ptrmap_types"] = len(maskKeys)
}

// c11AllNullish: an encoding of zero bytes is legitimate only when every field is null
func c11AllNullish(d *Datum) bool {
	if d == nil {
		return true
	}
	switch d.K {
	case "null":
		return true
	case "record":
		for _, x := range d.Items {
			if !c11AllNullish(x) {
				return false
			}
		}
		return true
	case "fixed":
		return len(d.Bytes) == 0
	}
	return false
}
