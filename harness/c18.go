package main

// C18 (timestamp parsing agrees with the standard library on RFC 3339) and
// C19 (logical date / timestamp types decode to the instant the spec defines).
// Both use the correspondence module Avro.Corr.Time.
//
// The library's parseTime is unexported; it is reached through the public
// avrotime.StringCodec{}.Read on varint(len)+string, in-process under recover().
// A zero length leaves the destination untouched, so the empty string is never
// fed that way.

import (
	"fmt"
	"math"
	"math/big"
	"regexp"
	"strings"
	"time"
	_ "time/tzdata"
	"unsafe"

	"github.com/philpearl/avro"
	avrotime "github.com/philpearl/avro/time"
)

func init() {
	register("C18", "Avro.Corr.Time", runC18)
	register("C19", "Avro.Corr.Time", runC19)
}

// ---- observables ---------------------------------------------------------

type tmRes struct {
	Class string // ok | err | panic
	S     int64  // Unix()
	N     int64  // Nanosecond()
	Off   int64  // zone offset, seconds east of UTC
	Msg   string `json:",omitempty"`
}

func (r tmRes) coq() string {
	switch r.Class {
	case "ok":
		return cApp("TOk", cZ(r.S), cZ(r.N), cZ(r.Off))
	case "err":
		return "TErr"
	}
	return "TPanic"
}

func (r tmRes) same(o tmRes) bool {
	return r.Class == o.Class && r.S == o.S && r.N == o.N && r.Off == o.Off
}

func tmOf(t time.Time) tmRes {
	_, off := t.Zone()
	return tmRes{Class: "ok", S: t.Unix(), N: int64(t.Nanosecond()), Off: int64(off)}
}

func coqTV(t time.Time) string {
	_, off := t.Zone()
	return cApp("TV", cZ(t.Unix()), cZ(int64(t.Nanosecond())), cZ(int64(off)))
}

var c18Arena [512]byte

// codecReadTime runs c.Read on bs into a time.Time placed between canaries.
func codecReadTime(c avro.Codec, bs []byte) (res tmRes) {
	defer func() {
		if p := recover(); p != nil {
			res = tmRes{Class: "panic", Msg: fmt.Sprint(p)}
		}
	}()
	var cell struct {
		pre  uint64
		t    time.Time
		post uint64
	}
	cell.pre, cell.post = 0xA5A5A5A5A5A5A5A5, 0x5A5A5A5A5A5A5A5A
	cell.t = time.Unix(77, 77).UTC() // sentinel
	// every decode reads from the same recycled storage, as ReadFile's block buffer is:
	// nothing the codec keeps from an earlier call may still refer to it
	in := bs
	if len(bs) <= len(c18Arena) {
		in = c18Arena[:len(bs):len(bs)]
		copy(in, bs)
	}
	r := avro.NewReadBuf(in)
	err := c.Read(r, unsafe.Pointer(&cell.t))
	if cell.pre != 0xA5A5A5A5A5A5A5A5 || cell.post != 0x5A5A5A5A5A5A5A5A {
		return tmRes{Class: "panic", Msg: "stored outside the destination"}
	}
	if err != nil {
		return tmRes{Class: "err"}
	}
	if r.Len() != 0 {
		return tmRes{Class: "panic", Msg: fmt.Sprintf("%d bytes left unread", r.Len())}
	}
	return tmOf(cell.t)
}

func codecWriteTime(c avro.Codec, t time.Time) (out []byte, panicked bool) {
	defer func() {
		if p := recover(); p != nil {
			out, panicked = nil, true
		}
	}()
	w := avro.NewWriteBuf(nil)
	c.Write(w, unsafe.Pointer(&t))
	return append([]byte(nil), w.Bytes()...), false
}

// implParseTime: the library's timestamp parser on a non-empty string.
func implParseTime(s string) tmRes {
	if len(s) == 0 {
		panic("implParseTime: empty string")
	}
	bs := append(specVarint(int64(len(s))), s...)
	return codecReadTime(avrotime.StringCodec{}, bs)
}

// fraction digits of a string shaped like a timestamp (after position 19)
func fracLenOf(s string) int {
	if len(s) < 21 || (s[19] != '.' && s[19] != ',') {
		return 0
	}
	n := 0
	for i := 20; i < len(s) && s[i] >= '0' && s[i] <= '9'; i++ {
		n++
	}
	return n
}

// ---- C18 -----------------------------------------------------------------

// The RFC 3339 date-time grammar of the property (with ',' admitted next to '.'
// as the fraction separator).  time.Parse is more lenient than the grammar in
// places (it accepts a one-digit hour, "2006-01-02T3:04:05Z"); such strings are
// outside the property's quantifier and only have to be handled without a panic.
var rfc3339Grammar = regexp.MustCompile(`^[0-9]{4}-[0-9]{2}-[0-9]{2}T[0-9]{2}:[0-9]{2}:[0-9]{2}([.,][0-9]+)?(Z|[+-][0-9]{2}:[0-9]{2})$`)

type c18state struct {
	r    *Run
	seen map[string]bool
}

// one string through the parser: model case + direct oracle against time.Parse
func (st *c18state) parseCase(s, bucket string) {
	r := st.r
	if len(s) == 0 {
		r.Count("skipped/empty")
		return
	}
	if st.seen[s] {
		return
	}
	st.seen[s] = true
	got := implParseTime(s)
	replay := map[string]any{"kind": "parse", "string": s, "hex": hexs([]byte(s))}
	desc := map[string]any{"kind": "parse", "string": s, "impl": got}
	id := -1
	if len(s) <= 6000 {
		id = r.Add(cApp("KParse", cBytes([]byte(s)), got.coq()), desc, "parse/"+hexs([]byte(s)))
	} else {
		r.Count("oracle-only/long-string")
	}
	want, perr := time.Parse(time.RFC3339Nano, s)
	inGrammar := rfc3339Grammar.MatchString(s)
	switch {
	case perr == nil && inGrammar:
		r.Count(bucket + "/rfc3339-std-accepts")
	case perr == nil:
		// lenient standard library, not RFC 3339: no-panic clause only
		r.Count(bucket + "/not-rfc3339-but-std-accepts(no-panic only)/lib-" + got.Class)
		perr = fmt.Errorf("outside the grammar")
	case inGrammar:
		r.Count(bucket + "/rfc3339-shape-std-rejects")
	default:
		r.Count(bucket + "/not-rfc3339")
	}
	switch {
	case got.Class == "panic":
		key := "other-parse-panic"
		if last := s[len(s)-1]; last == '.' || last == ',' {
			key = "parse-trailing-separator"
		}
		r.Fail(id, key, fmt.Sprintf("parsing %q panics: %s", s, got.Msg), replay)
	case perr == nil && !got.same(tmOf(want)):
		w := tmOf(want)
		key := "other-parse-mismatch"
		if got.Class == "err" {
			key = "other-parse-rejects-valid"
		} else if fracLenOf(s) > 9 && got.S == w.S && got.Off == w.Off {
			key = "parse-long-fraction"
		}
		r.Fail(id, key, fmt.Sprintf("parsing %q gives %+v, time.Parse(RFC3339Nano) gives %+v", s, got, w), replay)
	}
}

func tsString(y, mo, d, h, mi, s int, sep byte, frac string, zone string) string {
	out := fmt.Sprintf("%04d-%02d-%02dT%02d:%02d:%02d", y, mo, d, h, mi, s)
	if frac != "" {
		out += string(sep) + frac
	}
	return out + zone
}

func zoneString(offMin int) string {
	sign := byte('+')
	if offMin < 0 {
		sign = '-'
		offMin = -offMin
	}
	return fmt.Sprintf("%c%02d:%02d", sign, offMin/60, offMin%60)
}

func isLeap(y int) bool { return y%4 == 0 && (y%100 != 0 || y%400 == 0) }

func daysIn(y, m int) int {
	switch m {
	case 2:
		if isLeap(y) {
			return 29
		}
		return 28
	case 4, 6, 9, 11:
		return 30
	}
	return 31
}

func (st *c18state) randDigits(n int) string {
	b := make([]byte, n)
	for i := range b {
		b[i] = '0' + byte(st.r.Rng.Intn(10))
	}
	return string(b)
}

var c18Years = []int{0, 1, 4, 100, 400, 1582, 1600, 1677, 1678, 1900, 1969, 1970, 1999, 2000, 2023, 2024, 2038, 2100, 2262, 2263, 9999}

func (st *c18state) randYear() int {
	if st.r.Rng.Intn(3) == 0 {
		return c18Years[st.r.Rng.Intn(len(c18Years))]
	}
	return st.r.Rng.Intn(10000)
}

func (st *c18state) randZone() string {
	rng := st.r.Rng
	switch rng.Intn(8) {
	case 0, 1:
		return "Z"
	case 2:
		return []string{"+00:00", "-00:00", "+23:59", "-23:59", "+00:01", "-00:01", "+14:00", "-12:00", "+05:30", "+05:45", "-03:30"}[rng.Intn(11)]
	}
	return zoneString(rng.Intn(2*(23*60+59)+1) - (23*60 + 59))
}

// a random valid RFC 3339 date-time with the given fraction length
func (st *c18state) randValid(fracLen int) string {
	rng := st.r.Rng
	y := st.randYear()
	mo := 1 + rng.Intn(12)
	d := 1 + rng.Intn(daysIn(y, mo))
	if rng.Intn(4) == 0 {
		d = []int{1, daysIn(y, mo)}[rng.Intn(2)]
	}
	h, mi, s := rng.Intn(24), rng.Intn(60), rng.Intn(60)
	if rng.Intn(5) == 0 {
		h, mi, s = []int{0, 23}[rng.Intn(2)], []int{0, 59}[rng.Intn(2)], []int{0, 59}[rng.Intn(2)]
	}
	sep := []byte{'.', ','}[rng.Intn(2)]
	frac := st.randDigits(fracLen)
	if fracLen > 0 && rng.Intn(4) == 0 { // trailing zeros / all zeros / nines
		switch rng.Intn(3) {
		case 0:
			frac = strings.Repeat("0", fracLen)
		case 1:
			frac = strings.Repeat("9", fracLen)
		default:
			k := rng.Intn(fracLen + 1)
			frac = frac[:k] + strings.Repeat("0", fracLen-k)
		}
	}
	return tsString(y, mo, d, h, mi, s, sep, frac, st.randZone())
}

func runC18(r *Run) {
	if r.replay != nil {
		r.Notes = append(r.Notes, "replay mode: re-running the generator with the recorded seed is the replay for C18 (cases are derived from the seed)")
		r.replay = nil
	}
	st := &c18state{r: r, seen: map[string]bool{}}
	rng := r.Rng
	c18LocalZones(r)

	// (1) grammar-directed: every fraction length 0..25 x both separators x zone shapes
	zones := []string{"Z", "+00:00", "-00:00", "+23:59", "-23:59", "+05:30", "-07:00", "+14:00"}
	for fl := 0; fl <= 25; fl++ {
		for _, sep := range []byte{'.', ','} {
			for zi, z := range zones {
				if fl == 0 && sep == ',' {
					continue
				}
				if !r.Thorough() && zi >= 3 && (fl+zi)%3 != 0 {
					continue
				}
				y := st.randYear()
				mo := 1 + rng.Intn(12)
				d := 1 + rng.Intn(daysIn(y, mo))
				frac := st.randDigits(fl)
				if fl > 0 && frac[0] == '0' && rng.Intn(2) == 0 {
					frac = "1" + frac[1:]
				}
				st.parseCase(tsString(y, mo, d, rng.Intn(24), rng.Intn(60), rng.Intn(60), sep, frac, z), fmt.Sprintf("grammar/frac%02d", fl))
			}
		}
	}
	// fixed fraction patterns at every length: all nines (carry must not happen), all zeros, 1 then zeros
	for fl := 1; fl <= 25; fl++ {
		for _, pat := range []string{strings.Repeat("9", fl), strings.Repeat("0", fl), "1" + strings.Repeat("0", fl-1), strings.Repeat("0", fl-1) + "1"} {
			st.parseCase(tsString(2006, 1, 2, 13, 37, 42, '.', pat, "Z"), "grammar/frac-pattern")
			if r.Thorough() {
				st.parseCase(tsString(1969, 12, 31, 23, 59, 59, ',', pat, "-23:59"), "grammar/frac-pattern")
			}
		}
	}
	// extremes: years, leap days, month/day/hour/minute/second extremes, every offset sign
	for _, y := range c18Years {
		for _, md := range [][2]int{{1, 1}, {2, 28}, {2, 29}, {3, 1}, {12, 31}, {6, 30}} {
			for _, hms := range [][3]int{{0, 0, 0}, {23, 59, 59}} {
				for _, z := range []string{"Z", "+23:59", "-23:59"} {
					if !r.Thorough() && z != "Z" && (y+md[0])%2 == 0 {
						continue
					}
					st.parseCase(tsString(y, md[0], md[1], hms[0], hms[1], hms[2], '.', "", z), "grammar/extremes")
				}
			}
		}
	}
	// all offsets -23:59 .. +23:59 (thorough: every minute; quick: a stride plus the ends)
	stride := 37
	if r.Thorough() {
		stride = 1
	}
	for off := -(23*60 + 59); off <= 23*60+59; off += stride {
		st.parseCase(tsString(2020, 2, 29, 12, 0, 0, '.', "", zoneString(off)), "grammar/offsets")
	}
	st.parseCase(tsString(2020, 2, 29, 12, 0, 0, '.', "", zoneString(23*60+59)), "grammar/offsets")
	// random valid strings, fraction length distribution biased to 0..12
	for i := 0; i < r.N(500, 20000); i++ {
		fl := rng.Intn(13)
		if rng.Intn(6) == 0 {
			fl = rng.Intn(26)
		}
		if rng.Intn(4) == 0 {
			fl = 0
		}
		st.parseCase(st.randValid(fl), "grammar/random")
	}
	// grammar-shaped but out of range fields (time.Parse rejects; the parser hands them to time.Date)
	for _, f := range [][6]int{{2023, 0, 10, 1, 1, 1}, {2023, 13, 10, 1, 1, 1}, {2023, 99, 10, 1, 1, 1}, {2023, 5, 0, 1, 1, 1}, {2023, 5, 32, 1, 1, 1},
		{2023, 2, 29, 1, 1, 1}, {2023, 2, 30, 1, 1, 1}, {1900, 2, 29, 1, 1, 1}, {2023, 4, 31, 1, 1, 1}, {2023, 5, 99, 1, 1, 1}, {2023, 5, 10, 24, 0, 0},
		{2023, 5, 10, 99, 1, 1}, {2023, 5, 10, 1, 60, 1}, {2023, 5, 10, 1, 99, 1}, {2023, 5, 10, 23, 59, 60}, {2023, 5, 10, 1, 1, 99}, {0, 0, 0, 0, 0, 0},
		{9999, 99, 99, 99, 99, 99}, {0, 1, 0, 0, 0, 0}, {9999, 12, 31, 23, 59, 60}} {
		for _, z := range []string{"Z", "+01:00"} {
			st.parseCase(tsString(f[0], f[1], f[2], f[3], f[4], f[5], '.', "", z), "grammar/out-of-range-fields")
			st.parseCase(tsString(f[0], f[1], f[2], f[3], f[4], f[5], ',', "25", z), "grammar/out-of-range-fields")
		}
	}
	for _, z := range []string{"+24:00", "-24:00", "+23:60", "+99:99", "-99:99", "+00:60", "+24:01", "+25:00"} {
		st.parseCase(tsString(2023, 5, 10, 1, 2, 3, '.', "", z), "grammar/out-of-range-zone")
		st.parseCase(tsString(2023, 5, 10, 1, 2, 3, '.', "123456789012", z), "grammar/out-of-range-zone")
	}

	// (2) date-only strings against time.Date(..., UTC)
	dateCase := func(y, mo, d int, bucket string) {
		s := fmt.Sprintf("%04d-%02d-%02d", y, mo, d)
		if st.seen[s] {
			return
		}
		st.seen[s] = true
		got := implParseTime(s)
		id := r.Add(cApp("KParse", cBytes([]byte(s)), got.coq()), map[string]any{"kind": "date-only", "string": s, "impl": got}, "parse/"+hexs([]byte(s)))
		r.Count(bucket)
		replay := map[string]any{"kind": "date-only", "string": s}
		if got.Class == "panic" {
			r.Fail(id, "other-parse-panic", fmt.Sprintf("parsing %q panics: %s", s, got.Msg), replay)
			return
		}
		if mo >= 1 && mo <= 12 && d >= 1 && d <= daysIn(y, mo) {
			want := tmOf(time.Date(y, time.Month(mo), d, 0, 0, 0, 0, time.UTC))
			if !got.same(want) {
				r.Fail(id, "other-date-only", fmt.Sprintf("parsing %q gives %+v, midnight UTC of that day is %+v", s, got, want), replay)
			}
			if p, err := time.Parse("2006-01-02", s); err != nil || !tmOf(p).same(want) {
				r.Fail(id, "other-harness-date", fmt.Sprintf("time.Parse(2006-01-02, %q) disagrees with time.Date", s), replay)
			}
		}
	}
	fullYears := []int{0, 1900, 2000, 2023}
	if r.Thorough() {
		fullYears = append(fullYears, 1, 4, 100, 400, 1969, 1970, 2024, 2100, 9999)
	}
	for _, y := range fullYears {
		for mo := 1; mo <= 12; mo++ {
			for d := 1; d <= daysIn(y, mo); d++ {
				dateCase(y, mo, d, "date-only/full-year")
			}
		}
	}
	for _, y := range c18Years {
		for _, md := range [][2]int{{1, 1}, {2, 28}, {2, 29}, {3, 1}, {12, 31}} {
			dateCase(y, md[0], md[1], "date-only/extremes")
		}
	}
	for i := 0; i < r.N(300, 20000); i++ {
		y := st.randYear()
		mo := 1 + rng.Intn(12)
		dateCase(y, mo, 1+rng.Intn(daysIn(y, mo)), "date-only/random")
	}
	for _, f := range [][3]int{{2023, 0, 1}, {2023, 13, 1}, {2023, 2, 30}, {2023, 1, 0}, {2023, 1, 32}, {0, 0, 0}, {9999, 99, 99}, {2023, 99, 1}, {2023, 1, 99}} {
		dateCase(f[0], f[1], f[2], "date-only/out-of-range-fields")
	}

	// (3) Format(RFC3339Nano) / parse round trip, and the same through StringCodec.Write + Read
	const minLocal, maxLocal = int64(-62167219200), int64(253402300799) // 0000-01-01T00:00:00 .. 9999-12-31T23:59:59 local
	roundTrip := func(t time.Time, bucket string) {
		s := t.Format(time.RFC3339Nano)
		key := "fmt/" + s
		if st.seen[key] {
			return
		}
		st.seen[key] = true
		r.Count(bucket)
		want := tmOf(t)
		replay := map[string]any{"kind": "roundtrip", "unix": t.Unix(), "ns": t.Nanosecond(), "off": want.Off, "formatted": s}
		// the standard library's rendering against the model's render_time
		r.Add(cApp("KRender", coqTV(t), cBytes([]byte(s))), map[string]any{"kind": "render", "time": replay, "std": s}, "render/"+s)
		got := implParseTime(s)
		if !st.seen[s] {
			st.seen[s] = true
			id := r.Add(cApp("KParse", cBytes([]byte(s)), got.coq()), map[string]any{"kind": "parse-formatted", "string": s, "impl": got}, "parse/"+hexs([]byte(s)))
			if !got.same(want) {
				key := "other-roundtrip"
				if got.Class == "panic" {
					key = "other-parse-panic"
				}
				r.Fail(id, key, fmt.Sprintf("Format gives %q, parsing it gives %+v, the time was %+v", s, got, want), replay)
			}
		}
		wrote, pw := codecWriteTime(avrotime.StringCodec{}, t)
		var back tmRes
		if pw {
			back = tmRes{Class: "panic", Msg: "Write panicked"}
		} else {
			back = codecReadTime(avrotime.StringCodec{}, wrote)
		}
		id := r.Add(cApp("KStringCodec", coqTV(t), cBytes(wrote), back.coq()), map[string]any{"kind": "stringcodec", "time": replay, "wrote": hexs(wrote), "read": back}, "stringcodec/"+s)
		if pw || string(wrote) != string(append(specVarint(int64(len(s))), s...)) {
			r.Fail(id, "other-stringcodec-write", fmt.Sprintf("StringCodec.Write(%s) wrote %x", s, wrote), replay)
		} else if !back.same(want) {
			r.Fail(id, "other-stringcodec-roundtrip", fmt.Sprintf("StringCodec write/read of %s gives %+v, want %+v", s, back, want), replay)
		}
	}
	mkTime := func(local int64, ns int64, offMin int) time.Time {
		return time.Unix(local-int64(offMin)*60, ns).In(time.FixedZone("", offMin*60))
	}
	// the same instant shown in two zones, written one after the other: each keeps its own offset
	for i := 0; i < r.N(60, 600); i++ {
		base := time.Unix(rng.Int63n(4e9)-1e9, rng.Int63n(1e9))
		offs := []int{0, 330, -300, 60, 845, -720}
		a := base.In(time.FixedZone("", 60*offs[rng.Intn(len(offs))]))
		b0 := base.In(time.FixedZone("", 60*offs[rng.Intn(len(offs))]))
		for _, t := range []time.Time{a, b0, a.UTC(), b0} {
			s := t.Format(time.RFC3339Nano)
			wrote, pw := codecWriteTime(avrotime.StringCodec{}, t)
			r.Count("same-instant-two-zones")
			if pw || string(wrote) != string(append(specVarint(int64(len(s))), s...)) {
				r.Fail(-1, "other-stringcodec-write", fmt.Sprintf("StringCodec.Write(%s), written right after the same instant in another zone, wrote %x", s, wrote),
					map[string]any{"kind": "same-instant", "first": a.Format(time.RFC3339Nano), "second": b0.Format(time.RFC3339Nano)})
				break
			}
		}
	}
	nsShapes := func() int64 {
		switch rng.Intn(6) {
		case 0:
			return 0
		case 1: // one significant digit at each position
			return int64(1+rng.Intn(9)) * int64(math.Pow10(rng.Intn(9)))
		case 2: // k significant digits then zeros
			k := 1 + rng.Intn(9)
			p := int64(math.Pow10(9 - k))
			return rng.Int63n(1000000000) / p * p
		case 3:
			return []int64{1, 999999999, 999999990, 100000000, 1000, 1000000, 999000000, 10, 123456789}[rng.Intn(9)]
		}
		return rng.Int63n(1000000000)
	}
	offShapes := func() int {
		switch rng.Intn(5) {
		case 0:
			return 0
		case 1:
			return []int{1, -1, 60, -60, 330, -210, 14 * 60, -12 * 60, 23*60 + 59, -(23*60 + 59), 345}[rng.Intn(11)]
		}
		return rng.Intn(2*(23*60+59)+1) - (23*60 + 59)
	}
	for _, loc := range []int64{minLocal, minLocal + 1, maxLocal, maxLocal - 1, 0, -1, 1, 86399, -86400, 951782400, 951868799, -2208988800, 4107542399, -62135596800, -62135596801} {
		for _, ns := range []int64{0, 1, 999999999, 500000000} {
			for _, off := range []int{0, 23*60 + 59, -(23*60 + 59)} {
				roundTrip(mkTime(loc, ns, off), "roundtrip/boundaries")
			}
		}
	}
	for i := 0; i < r.N(400, 20000); i++ {
		var loc int64
		switch rng.Intn(4) {
		case 0:
			loc = minLocal + rng.Int63n(maxLocal-minLocal+1)
		case 1:
			loc = -rng.Int63n(300 * 366 * 86400)
		case 2: // a random day boundary +-1 s
			loc = (minLocal/86400+rng.Int63n((maxLocal-minLocal)/86400))*86400 + int64(rng.Intn(3)-1)
		default:
			loc = rng.Int63n(200 * 366 * 86400)
		}
		if loc < minLocal || loc > maxLocal {
			loc = 0
		}
		roundTrip(mkTime(loc, nsShapes(), offShapes()), "roundtrip/random")
	}

	// (4) malformed stream: no panic on anything; where time.Parse accepts, same result
	bases := []string{
		"2006-01-02T13:37:42.123456789+07:30",
		"1969-12-31T23:59:59Z",
		"2006-01-02",
		"2024-02-29T00:00:00,5-00:01",
		"0000-01-01T00:00:00.000000000000Z",
		"9999-12-31T23:59:59+23:59",
	}
	alphabet := []byte{'0', '9', '-', '+', ':', '.', ',', 'T', 'Z', 'z', ' ', '/', 0x00, 0x80, 0xff, 'a'}
	nb, na := len(bases), len(alphabet)
	if !r.Thorough() {
		nb, na = 3, 12
	}
	for bi, b := range bases {
		for k := 1; k <= len(b); k++ {
			st.parseCase(b[:k], "malformed/prefix")
		}
		if bi >= nb {
			continue
		}
		for pos := 0; pos < len(b); pos++ {
			for _, c := range alphabet[:na] {
				if b[pos] == c {
					continue
				}
				m := []byte(b)
				m[pos] = c
				st.parseCase(string(m), "malformed/substitution")
			}
		}
		for pos := 0; pos <= len(b); pos++ { // one byte deleted / inserted
			if pos < len(b) {
				st.parseCase(b[:pos]+b[pos+1:], "malformed/deletion")
			}
			st.parseCase(b[:pos]+string(alphabet[rng.Intn(na)])+b[pos:], "malformed/insertion")
		}
	}
	for _, s := range []string{
		"2006-01-02T13:37:42.", "2006-01-02T13:37:42,", "2006-01-02T13:37:42.5", "2006-01-02T13:37:42.Z", "2006-01-02T13:37:42,+01:00",
		"2006-01-02T13:37:42..5Z", "2006-01-02T13:37:42.5.Z", "2006-01-02T13:37:42.5Z ", "2006-01-02T13:37:42Z.", "2006-01-02T13:37:42+", "2006-01-02T13:37:42-",
		"2006-01-02T13:37:42+0", "2006-01-02T13:37:42+07", "2006-01-02T13:37:42+07:", "2006-01-02T13:37:42+07:3", "2006-01-02T13:37:42+0730", "2006-01-02T13:37:42+07:300",
		"2006-01-02T13:37:42.5+07:30Z", "2006-01-02t13:37:42z", "2006-01-02 13:37:42Z", "2006-01-02T13:37:42", "2006-01-02T13:37", "2006-01-02T",
		"2006-01-02T13:37:42.5éZ", "2006-01-02T13:37:42.é5Z", "2006-01-02T13:37:42.5é", "2006-01-02T13:37:42.5\xffZ", "2006-01-02T13:37:42.\xff",
		"2006-01-02T13:37:42.5\xc3", "2006-01-02T13:37:42é", "2006-01-02T13:37:42.12€+01:00", "é006-01-02T13:37:42Z", "2006-01-02T13:37:42.5ééZ",
		"2006-01-02T13:37:42.\U0001F600", "2006-01-02T13:37:42.1\U0001F600Z", "\xff\xff\xff\xff-\xff\xff-\xff\xff", "٢٠٠٦-٠١-٠٢", "2006-01-02T13:37:42.٥Z",
		"-006-01-02T13:37:42Z", "+006-01-02", "20060102T133742Z", "2006-1-2T3:4:5Z", "0", "Z", ".", ",", "T", " ", "\x00", "2006-01-02\x00", "2006-01-02Z", "2006-01-02T13:37:42.5z",
	} {
		st.parseCase(s, "malformed/handwritten")
	}
	// very long digit runs (fraction with and without zone, other positions)
	for _, n := range []int{26, 100, 1000, 5000, 200000} {
		if n > 5000 && !r.Thorough() {
			n = 20000
		}
		d := st.randDigits(n)
		st.parseCase("2006-01-02T13:37:42."+d+"Z", "malformed/long-digits")
		st.parseCase("2006-01-02T13:37:42,"+d+"-01:00", "malformed/long-digits")
		st.parseCase("2006-01-02T13:37:42."+d, "malformed/long-digits")
		st.parseCase(d, "malformed/long-digits")
		st.parseCase("2006-01-02T13:37:42"+d, "malformed/long-digits")
		st.parseCase("2006-01-02T13:37:42+"+d, "malformed/long-digits")
	}
	// random strings over a timestamp-flavoured alphabet
	rchars := []byte("0123456789-+:.,TZ \x00\x80\xffz")
	for i := 0; i < r.N(300, 20000); i++ {
		n := 1 + rng.Intn(40)
		switch rng.Intn(4) {
		case 0:
			n = 10
		case 1:
			n = 20 + rng.Intn(16)
		}
		b := make([]byte, n)
		for j := range b {
			b[j] = rchars[rng.Intn(len(rchars))]
		}
		if rng.Intn(2) == 0 { // put the fixed punctuation in place so that deeper paths are reached
			tmpl := "0000-00-00T00:00:00"
			for j := 0; j < n && j < len(tmpl); j++ {
				if tmpl[j] != '0' || rng.Intn(8) != 0 {
					if tmpl[j] == '0' {
						b[j] = '0' + byte(rng.Intn(10))
					} else {
						b[j] = tmpl[j]
					}
				}
			}
		}
		st.parseCase(string(b), "malformed/random")
	}
	// mutated valid strings (two random substitutions)
	for i := 0; i < r.N(300, 20000); i++ {
		m := []byte(st.randValid(rng.Intn(13)))
		for k := 0; k < 1+rng.Intn(2); k++ {
			m[rng.Intn(len(m))] = rchars[rng.Intn(len(rchars))]
		}
		st.parseCase(string(m), "malformed/mutated")
	}
}

// ---- C19 -----------------------------------------------------------------

func timeCodecFor(schemaJSON string) (avro.Codec, error) {
	s, err := avro.SchemaFromString(schemaJSON)
	if err != nil {
		return nil, err
	}
	return s.Codec(time.Time{})
}

var bigE9 = big.NewInt(1000000000)

// instant of x nanoseconds since the epoch as (seconds, nanoseconds) with floor division
func floorSecNs(x *big.Int) (sec, ns *big.Int) {
	sec, ns = new(big.Int), new(big.Int)
	sec.DivMod(x, bigE9, ns) // Euclidean: 0 <= ns < 1e9
	return
}

func floorDiv64(a, b int64) int64 {
	q := a / b
	if a%b != 0 && (a < 0) != (b < 0) {
		q--
	}
	return q
}

func runC19(r *Run) {
	if r.replay != nil {
		r.Notes = append(r.Notes, "replay mode: re-running the generator with the recorded seed is the replay for C19 (cases are derived from the seed)")
		r.replay = nil
	}
	rng := r.Rng
	dateCodec, err := timeCodecFor(`{"type":"int","logicalType":"date"}`)
	if err != nil {
		r.Fail(-1, "other-build-date", "no codec for time.Time under {int, date}: "+err.Error(), nil)
		return
	}
	if _, ok := dateCodec.(avrotime.DateCodec); !ok {
		r.Fail(-1, "other-build-date", fmt.Sprintf("codec for {int, date} is %T", dateCodec), nil)
	}
	type unit struct {
		name   string
		schema string
		mult   int64
		codec  avro.Codec
	}
	units := []*unit{
		{"long", `"long"`, 1, nil},
		{"long/object", `{"type":"long"}`, 1, nil},
		{"long/unknown-logical", `{"type":"long","logicalType":"no-such-logical-type"}`, 1, nil},
		{"timestamp-micros", `{"type":"long","logicalType":"timestamp-micros"}`, 1000, nil},
		{"timestamp-millis", `{"type":"long","logicalType":"timestamp-millis"}`, 1000000, nil},
	}
	for _, u := range units {
		c, err := timeCodecFor(u.schema)
		if err != nil {
			r.Fail(-1, "other-build-long", "no codec for time.Time under "+u.schema+": "+err.Error(), nil)
			return
		}
		if _, ok := c.(avrotime.LongCodec); !ok {
			r.Fail(-1, "other-build-long", fmt.Sprintf("codec for %s is %T", u.schema, c), nil)
		}
		u.codec = c
	}

	// (0) input that ends inside the value: an error from every time codec, the destination untouched
	for _, tc := range []struct {
		name string
		c    avro.Codec
	}{{"date", dateCodec}, {"long", units[0].codec}, {"micros", units[3].codec}, {"millis", units[4].codec}, {"string", avrotime.StringCodec{}}} {
		for _, in := range [][]byte{{}, {0x80}, {0x80, 0x80, 0x80}, {0xff, 0xff, 0xff, 0xff, 0xff, 0xff, 0xff, 0xff, 0xff}, {0x28, '2', '0', '2', '1'}, {0x06, 'a'}} {
			if tc.name != "string" && len(in) > 0 && in[0] < 0x80 {
				continue // a complete varint for the integer codecs
			}
			got := codecReadTime(tc.c, in)
			r.Count("truncated/" + tc.name)
			if got.Class != "err" {
				r.Fail(-1, "other-truncated-input", fmt.Sprintf("%s codec on input %x that ends inside the value: %+v", tc.name, in, got), map[string]any{"kind": "truncated", "codec": tc.name, "input": hexs(in)})
			}
		}
	}

	// (1) date read: every interesting int32 day count; int64 values outside int32 must be rejected
	seenDay := map[int64]bool{}
	dateRead := func(n int64, bucket string) {
		if seenDay[n] {
			return
		}
		seenDay[n] = true
		got := codecReadTime(dateCodec, specVarint(n))
		id := r.Add(cApp("KDateRead", cZ(n), got.coq()), map[string]any{"kind": "date-read", "n": n, "impl": got}, fmt.Sprintf("date-read/%d", n))
		r.Count(bucket)
		replay := map[string]any{"kind": "date-read", "n": n}
		if n < math.MinInt32 || n > math.MaxInt32 {
			if got.Class != "err" {
				r.Fail(id, "other-date-read-width", fmt.Sprintf("date %d does not fit int32 but decodes to %+v", n, got), replay)
			}
			return
		}
		want := tmRes{Class: "ok", S: 86400 * n, N: 0, Off: 0}
		if w2 := tmOf(time.Unix(86400*n, 0).UTC()); !w2.same(want) {
			r.Fail(id, "other-harness-date", "time.Unix disagrees with the harness", replay)
		}
		if !got.same(want) {
			key := "other-date-read"
			if n < 0 && got.Class == "ok" {
				key = "date-read-int64"
			}
			if got.Class == "panic" {
				key = "other-date-read-panic"
			}
			r.Fail(id, key, fmt.Sprintf("date %d decodes to %+v, the spec says %d days from the epoch = %+v", n, got, n, want), replay)
		}
	}
	for _, n := range []int64{0, 1, -1, 2, -2, 30, 31, 59, 60, 365, 366, -365, -366, 10957, 11016, 19000, 20000, 47482, -25567, -141427, -719162, -719528, 2932896,
		math.MaxInt32, math.MinInt32, math.MaxInt32 - 1, math.MinInt32 + 1, 1 << 16, -(1 << 16), 1<<24 - 1, -(1 << 24)} {
		dateRead(n, "date-read/boundaries")
	}
	for k := 0; k < 31; k++ {
		dateRead(int64(1)<<uint(k), "date-read/powers")
		dateRead(-(int64(1) << uint(k)), "date-read/powers")
	}
	for i := 0; i < r.N(300, 20000); i++ {
		var n int64
		switch rng.Intn(3) {
		case 0:
			n = int64(int32(rng.Uint32()))
		case 1:
			n = int64(rng.Intn(2*60000) - 60000) // around the epoch: 1805..2134
		default:
			n = int64(int32(rng.Uint32())) >> uint(rng.Intn(32))
		}
		dateRead(n, "date-read/random")
	}
	for _, n := range []int64{math.MaxInt32 + 1, math.MinInt32 - 1, 1 << 32, -(1 << 32), 1<<32 - 1, math.MaxInt64, math.MinInt64, 1 << 40} {
		dateRead(n, "date-read/outside-int32")
	}

	// (2) long read under the three interpretations
	for _, u := range units {
		seenL := map[int64]bool{}
		longRead := func(l int64, bucket string) {
			if seenL[l] {
				return
			}
			seenL[l] = true
			got := codecReadTime(u.codec, specVarint(l))
			id := r.Add(cApp("KLongRead", cZ(u.mult), cZ(l), got.coq()), map[string]any{"kind": "long-read", "unit": u.name, "l": l, "impl": got}, fmt.Sprintf("long-read/%s/%d", u.name, l))
			replay := map[string]any{"kind": "long-read", "unit": u.name, "l": l}
			x := new(big.Int).Mul(big.NewInt(l), big.NewInt(u.mult))
			if !x.IsInt64() {
				r.Count("long-read/" + u.name + "/not-representable(model only)")
				if got.Class == "panic" {
					r.Fail(id, "other-long-read-panic", fmt.Sprintf("%s %d panics", u.name, l), replay)
				}
				return
			}
			r.Count("long-read/" + u.name + "/" + bucket)
			sec, ns := floorSecNs(x)
			want := tmRes{Class: "ok", S: sec.Int64(), N: ns.Int64(), Off: 0}
			if !got.same(want) {
				key := "other-long-read"
				if got.Class == "panic" {
					key = "other-long-read-panic"
				}
				r.Fail(id, key, fmt.Sprintf("%s %d decodes to %+v, the spec says %s ns from the epoch = %+v", u.name, l, got, x, want), replay)
			}
		}
		lim := math.MaxInt64 / u.mult
		lmin := math.MinInt64 / u.mult
		for _, l := range []int64{0, 1, -1, 999, -999, 1000, -1000, 1001, -1001, 999999, -999999, 1000000, -1000000, 999999999, -999999999, 1000000000, -1000000000,
			1000000001, -1000000001, -1500001, 1136209062123, -2208988800000, lim, lim - 1, lim + 1, lmin, lmin + 1, lmin - 1, math.MaxInt64, math.MinInt64,
			math.MaxInt64 / 1000, math.MinInt64 / 1000, math.MaxInt64 / 1000000, math.MinInt64 / 1000000} {
			longRead(l, "boundaries")
		}
		for i := 0; i < r.N(250, 20000); i++ {
			var l int64
			switch rng.Intn(4) {
			case 0: // uniform over bit lengths, both signs
				l = int64(rng.Uint64() >> uint(rng.Intn(64)))
				if rng.Intn(2) == 0 {
					l = -l
				}
			case 1: // representable range of this unit
				l = rng.Int63n(lim)
				if rng.Intn(2) == 0 {
					l = -l
				}
			case 2: // before 1970, within three centuries
				l = -rng.Int63n(int64(290*366*86400) * (1000000000 / u.mult))
			default: // 1970..2100
				l = rng.Int63n(int64(130*366*86400) * (1000000000 / u.mult))
			}
			longRead(l, "random")
		}
	}

	// (3) writes and write/read round trips, including pre-1970 non-midnight instants
	genT := func() time.Time {
		var sec int64
		switch rng.Intn(8) {
		case 0:
			sec = []int64{0, -1, 1, 86399, 86400, 86401, -86399, -86400, -86401, -43200, 951782400, -2208988800, -62135596800, 253402300799, -62167219200,
				-9223372036, -9223372037, 9223372036, 9223372035, -9223372035}[rng.Intn(20)]
		case 1, 2, 3: // before 1970, within the int64-nanosecond range (1678..1970)
			sec = -rng.Int63n(9223372036)
		case 4: // years 0..9999
			sec = -62167219200 + rng.Int63n(253402300799+62167219200)
		case 5: // far out: beyond the nanosecond range, still fine for micros/millis/days
			sec = rng.Int63n(1<<44) - 1<<43
		default: // 1970..2262
			sec = rng.Int63n(9223372036)
		}
		var ns int64
		switch rng.Intn(4) {
		case 0:
			ns = 0
		case 1:
			ns = []int64{1, 999, 1000, 1001, 999999, 1000000, 1000001, 999999999, 999999500, 500000000, 999000000, 999999000}[rng.Intn(12)]
		default:
			ns = rng.Int63n(1000000000)
		}
		t := time.Unix(sec, ns).UTC()
		if rng.Intn(3) == 0 {
			t = t.In(time.FixedZone("", 60*(rng.Intn(2*14*60+1)-14*60)))
		}
		return t
	}
	var times []time.Time
	for _, sec := range []int64{0, -1, 1, -86400, -86401, -86399, 86399, 86400, -43200, -9223372036, -9223372037, 9223372036} {
		for _, ns := range []int64{0, 1, 999999999, 854775807, 854775808, 145224192, 145224191, 500000} {
			times = append(times, time.Unix(sec, ns).UTC())
		}
	}
	for i := 0; i < r.N(350, 20000); i++ {
		times = append(times, genT())
	}
	seenT := map[string]bool{}
	for _, t := range times {
		k := fmt.Sprintf("%d/%d", t.Unix(), t.Nanosecond())
		if seenT[k] {
			continue
		}
		seenT[k] = true
		desc := map[string]any{"unix": t.Unix(), "ns": t.Nanosecond(), "rfc3339": descTime(t)}
		pre := "post1970"
		if t.Unix() < 0 {
			pre = "pre1970"
		}

		// date
		day := floorDiv64(t.Unix(), 86400)
		wrote, pw := codecWriteTime(dateCodec, t)
		id := r.Add(cApp("KDateWrite", coqTV(t), cBytes(wrote)), map[string]any{"kind": "date-write", "time": desc, "impl": hexs(wrote)}, "date-write/"+k)
		replay := map[string]any{"kind": "date-write", "time": desc}
		if day < math.MinInt32 || day > math.MaxInt32 {
			r.Count("date-write/day-outside-int32(model only)")
		} else {
			mid := "midnight"
			if t.Unix()%86400 != 0 || t.Nanosecond() != 0 {
				mid = "non-midnight"
			}
			r.Count("date-write/" + pre + "/" + mid)
			if pw || string(wrote) != string(specVarint(day)) {
				key := "other-date-write"
				if t.Unix() < 0 && t.Unix()%86400 != 0 && !pw {
					key = "date-write-truncation"
				}
				_, v, _ := refDecode(wrote)
				r.Fail(id, key, fmt.Sprintf("date of %s written as %d (%x), floor(unix/86400) is %d", descTime(t), v, wrote, day), replay)
			} else {
				back := codecReadTime(dateCodec, wrote)
				want := tmRes{Class: "ok", S: 86400 * day}
				if !seenDay[day] {
					seenDay[day] = true
					r.Add(cApp("KDateRead", cZ(day), back.coq()), map[string]any{"kind": "date-read", "n": day, "impl": back}, fmt.Sprintf("date-read/%d", day))
				}
				if !back.same(want) {
					key := "other-date-roundtrip"
					if day < 0 && back.Class == "ok" {
						key = "date-read-int64"
					}
					r.Fail(id, key, fmt.Sprintf("date of %s written as day %d reads back as %+v, want midnight UTC of that day %+v", descTime(t), day, back, want), replay)
				}
			}
		}

		// the three long interpretations
		x := new(big.Int).Add(new(big.Int).Mul(big.NewInt(t.Unix()), bigE9), big.NewInt(int64(t.Nanosecond())))
		for _, u := range units {
			wrote, pw := codecWriteTime(u.codec, t)
			id := r.Add(cApp("KLongWrite", cZ(u.mult), coqTV(t), cBytes(wrote)), map[string]any{"kind": "long-write", "unit": u.name, "time": desc, "impl": hexs(wrote)}, "long-write/"+u.name+"/"+k)
			replay := map[string]any{"kind": "long-write", "unit": u.name, "time": desc}
			bm := big.NewInt(u.mult)
			q, m := new(big.Int), new(big.Int)
			q.DivMod(x, bm, m) // floor, since the divisor is positive
			floored := new(big.Int).Mul(q, bm)
			if !floored.IsInt64() || !x.IsInt64() {
				// outside "every time.Time whose instant is representable in int64 nanoseconds"
				r.Count("long-write/" + u.name + "/not-representable(model only)")
				continue
			}
			exact := "exact"
			if m.Sign() != 0 {
				exact = "floored"
			}
			r.Count("long-write/" + u.name + "/" + pre + "/" + exact)
			if pw || string(wrote) != string(specVarint(q.Int64())) {
				key := "other-long-write"
				if u.mult != 1000 && !pw {
					key = "long-write-unit"
				}
				_, v, _ := refDecode(wrote)
				r.Fail(id, key, fmt.Sprintf("%s of %s written as %d, floor(instant/%d ns) is %s", u.name, descTime(t), v, u.mult, q), replay)
				continue
			}
			back := codecReadTime(u.codec, wrote)
			sec, ns := floorSecNs(floored)
			want := tmRes{Class: "ok", S: sec.Int64(), N: ns.Int64(), Off: 0}
			r.Add(cApp("KLongRead", cZ(u.mult), cZ(q.Int64()), back.coq()), map[string]any{"kind": "long-read", "unit": u.name, "l": q.Int64(), "impl": back}, fmt.Sprintf("long-read/%s/%d", u.name, q.Int64()))
			if !back.same(want) {
				r.Fail(id, "other-long-roundtrip", fmt.Sprintf("%s of %s written as %s reads back as %+v, want the instant floored to the unit %+v", u.name, descTime(t), q, back, want), replay)
			}
		}
	}
}

// c18LocalZones: the result does not depend on the process's local time zone.  With
// time.Local set to zones that have daylight saving, timestamps carrying the zone's
// offsets of either season, on dates of both seasons, decode to the instant and offset
// the text states (what time.Parse gives).
func c18LocalZones(r *Run) {
	saved := time.Local
	defer func() { time.Local = saved }()
	for _, name := range []string{"America/New_York", "Europe/Berlin", "Australia/Sydney", "Asia/Kolkata"} {
		loc, err := time.LoadLocation(name)
		if err != nil {
			r.Notes = append(r.Notes, "zone database not available ("+err.Error()+"): local-zone cases skipped")
			return
		}
		time.Local = loc
		offs := map[int]bool{}
		for _, m := range []time.Month{time.January, time.July} {
			_, o := time.Date(time.Now().Year(), m, 15, 12, 0, 0, 0, loc).Zone()
			offs[o] = true
		}
		_, now := time.Now().In(loc).Zone()
		offs[now] = true
		for o := range offs {
			for _, date := range []string{"2026-01-15", "2026-07-15", "2026-11-30", "2021-03-14", "1999-10-31", "2038-04-04"} {
				sign, a := '+', o
				if a < 0 {
					sign, a = '-', -a
				}
				text := fmt.Sprintf("%sT12:00:00.5%c%02d:%02d", date, sign, a/3600, a%3600/60)
				got := implParseTime(text)
				ref, perr := time.Parse(time.RFC3339Nano, text)
				r.Count("local-zone/" + name)
				if perr != nil {
					continue
				}
				want := tmRes{Class: "ok", S: ref.Unix(), N: int64(ref.Nanosecond()), Off: int64(o)}
				if !got.same(want) {
					r.Fail(-1, "other-local-zone", fmt.Sprintf("with time.Local = %s, %q decodes to %+v; the text says %+v", name, text, got, want),
						map[string]any{"kind": "local-zone", "zone": name, "text": text})
				}
			}
		}
	}
}
