package main

import (
	"bytes"
	"fmt"
	"math"
	"reflect"
	"strings"
	"unsafe"

	"github.com/philpearl/avro"
)

func init() { register("C05", "Avro.Corr.Codec", runC05) }

type c05Schema struct {
	name string
	s    avro.Schema
	// inRange / outOfRange encodings of one value of this schema, by Go kind of the target
	enc func(goKind string, out bool) []byte
}

func fixedSchema(n int) avro.Schema {
	return avro.Schema{Type: "fixed", Object: &avro.SchemaObject{Name: fmt.Sprintf("F%d", n), Size: n}}
}

func c05Schemas() []c05Schema {
	vint := func(goKind string, out bool) []byte {
		v := int64(-3)
		if out {
			switch goKind {
			case "int16":
				v = math.MaxInt16 + 1
			case "int32":
				v = math.MinInt32 - 1
			default:
				return nil // nothing is out of range for a 64-bit target
			}
		}
		return specVarint(v)
	}
	simple := func(b []byte) func(string, bool) []byte {
		return func(_ string, out bool) []byte {
			if out {
				return nil
			}
			return b
		}
	}
	un := func(names ...string) avro.Schema {
		u := avro.Schema{Type: "union"}
		for _, n := range names {
			u.Union = append(u.Union, prim(n))
		}
		return u
	}
	sel := func(branch int64, f func(string, bool) []byte) func(string, bool) []byte {
		return func(k string, out bool) []byte {
			b := f(k, out)
			if b == nil {
				return nil
			}
			return append(specVarint(branch), b...)
		}
	}
	rec := avro.Schema{Type: "record", Object: &avro.SchemaObject{Name: "Inner", Fields: []avro.SchemaRecordField{{Name: "a", Type: prim("long")}}}}
	return []c05Schema{
		{"null", prim("null"), simple([]byte{})},
		{"boolean", prim("boolean"), simple([]byte{1})},
		{"int", prim("int"), vint},
		{"long", prim("long"), vint},
		{"float", prim("float"), simple([]byte{0, 0, 128, 63})},
		{"double", prim("double"), simple([]byte{0, 0, 0, 0, 0, 0, 240, 63})},
		{"bytes", prim("bytes"), simple([]byte{4, 9, 8})},
		{"string", prim("string"), simple([]byte{4, 'h', 'i'})},
		{"fixed4", fixedSchema(4), simple([]byte{1, 2, 3, 4})},
		{"fixed0", fixedSchema(0), simple([]byte{})},
		{"fixed-neg", fixedSchema(-1), simple(nil)},
		{"record", rec, simple([]byte{6})},
		{"enum", avro.Schema{Type: "enum", Object: &avro.SchemaObject{Name: "E", Symbols: []string{"A", "B"}}}, simple([]byte{2})},
		{"array<long>", avro.Schema{Type: "array", Object: &avro.SchemaObject{Items: prim("long")}}, simple([]byte{4, 2, 4, 0})},
		{"map<long>", avro.Schema{Type: "map", Object: &avro.SchemaObject{Values: prim("long")}}, simple([]byte{2, 2, 'k', 6, 0})},
		{"union[null,long]", avro.Schema{Type: "union", Union: []avro.Schema{prim("null"), prim("long")}}, simple([]byte{2, 10})},
		{"union[string,null]", avro.Schema{Type: "union", Union: []avro.Schema{prim("string"), prim("null")}}, simple([]byte{0, 2, 'z'})},
		// a boolean whose wire byte is neither 0 nor 1 (other writers emit 0xFF for true): what is
		// stored is a Go bool, i.e. the byte 0 or 1
		{"boolean/0xff", prim("boolean"), simple([]byte{0xff})},
		{"boolean/0x02", prim("boolean"), simple([]byte{2})},
		{"union[null,boolean]/0x02", un("null", "boolean"), simple([]byte{2, 2})},
		{"union[boolean,null]/0x80", un("boolean", "null"), simple([]byte{0, 0x80})},
		// the null branch of a nullable union over narrow fields: nothing may be stored
		{"union[null,long]/null", un("null", "long"), simple([]byte{0})},
		{"union[long,null]/null", un("long", "null"), simple([]byte{2})},
		{"union[null,boolean]/null", un("null", "boolean"), simple([]byte{0})},
		{"union[null,float]/null", un("null", "float"), simple([]byte{0})},
		{"union[null,int]/null", un("null", "int"), simple([]byte{0})},
		{"union[null,fixed4]/null", avro.Schema{Type: "union", Union: []avro.Schema{prim("null"), fixedSchema(4)}}, simple([]byte{0})},
		{"union[null,bytes]/null", un("null", "bytes"), simple([]byte{0})},
		{"union[null,string]/null", un("null", "string"), simple([]byte{0})},
		// general unions (three branches, or two non-null ones): every branch must fit the Go type
		{"union[null,int,long]/long", un("null", "int", "long"), sel(2, vint)},
		{"union[null,int,long]/int", un("null", "int", "long"), sel(1, vint)},
		{"union[null,int,long]/null", un("null", "int", "long"), simple([]byte{0})},
		{"union[int,long]/long", un("int", "long"), sel(1, vint)},
		{"union[null,long,string]/long", un("null", "long", "string"), sel(1, vint)},
		{"union[null,long,string]/string", un("null", "long", "string"), simple([]byte{4, 4, 'h', 'i'})},
		{"union[long,string]/string", un("long", "string"), simple([]byte{2, 4, 'h', 'i'})},
		{"union[int,double]/double", un("int", "double"), simple([]byte{2, 0, 0, 0, 0, 0, 0, 240, 63})},
		{"union[int,double]/int", un("int", "double"), sel(0, vint)},
		{"union[float,double]/double", un("float", "double"), simple([]byte{2, 0, 0, 0, 0, 0, 0, 240, 63})},
		{"union[string,bytes]/bytes", un("string", "bytes"), simple([]byte{2, 4, 9, 8})},
		{"union[null,string,fixed4]/fixed", avro.Schema{Type: "union", Union: []avro.Schema{prim("null"), prim("string"), fixedSchema(4)}}, simple([]byte{4, 1, 2, 3, 4})},
		{"bare-array", prim("array"), simple(nil)},
		{"bare-map", prim("map"), simple(nil)},
		{"bare-fixed", prim("fixed"), simple(nil)},
		{"bare-record", prim("record"), simple(nil)},
		{"unknown-type", prim("decimal"), simple(nil)},
	}
}

func c05GoTypes() []reflect.Type {
	type inner struct {
		A int64 `json:"a"`
	}
	return []reflect.Type{
		reflect.TypeOf(false), reflect.TypeOf(int8(0)), reflect.TypeOf(int16(0)), reflect.TypeOf(int32(0)), reflect.TypeOf(int64(0)), reflect.TypeOf(int(0)),
		reflect.TypeOf(uint8(0)), reflect.TypeOf(uint16(0)), reflect.TypeOf(uint32(0)), reflect.TypeOf(uint64(0)), reflect.TypeOf(uint(0)), reflect.TypeOf(uintptr(0)),
		reflect.TypeOf(float32(0)), reflect.TypeOf(float64(0)), reflect.TypeOf(complex64(0)), reflect.TypeOf(complex128(0)),
		reflect.TypeOf(""), reflect.TypeOf([]byte(nil)), reflect.TypeOf([4]byte{}), reflect.TypeOf([5]byte{}), reflect.TypeOf([0]byte{}), reflect.TypeOf([4]int8{}),
		reflect.TypeOf([]int64(nil)), reflect.TypeOf([]int16(nil)), reflect.TypeOf([3]int64{}), reflect.TypeOf([]string(nil)),
		reflect.TypeOf(map[string]int64(nil)), reflect.TypeOf(map[int]int64(nil)), reflect.TypeOf(map[string]int32(nil)),
		reflect.TypeOf(inner{}), reflect.TypeOf(struct{}{}),
		reflect.TypeOf((*any)(nil)).Elem(), reflect.TypeOf((chan int)(nil)), reflect.TypeOf((func())(nil)), reflect.TypeOf(unsafe.Pointer(nil)),
		// the registered wrapper types: their builders accept some schemas and refuse the rest
		rtTime, rtNullInt, rtNullBool, rtNullFloat, rtNullString, rtNullTime,
	}
}

// positions: the Go type alone, behind pointers, inside collections
func c05Positions(t reflect.Type) []struct {
	name string
	t    reflect.Type
	wrap func(s avro.Schema) avro.Schema
} {
	id := func(s avro.Schema) avro.Schema { return s }
	arr := func(s avro.Schema) avro.Schema {
		return avro.Schema{Type: "array", Object: &avro.SchemaObject{Items: s}}
	}
	mp := func(s avro.Schema) avro.Schema {
		return avro.Schema{Type: "map", Object: &avro.SchemaObject{Values: s}}
	}
	return []struct {
		name string
		t    reflect.Type
		wrap func(s avro.Schema) avro.Schema
	}{
		{"alone", t, id},
		{"ptr", reflect.PointerTo(t), id},
		{"ptrptr", reflect.PointerTo(reflect.PointerTo(t)), id},
		{"slice-elem", reflect.SliceOf(t), arr},
		{"map-value", reflect.MapOf(reflect.TypeOf(""), t), mp},
	}
}

var canary = []byte{0xA5, 0x5A, 0xC3, 0x3C}

func pointerFree(t reflect.Type) bool {
	switch t.Kind() {
	case reflect.Bool, reflect.Int8, reflect.Int16, reflect.Int32, reflect.Int64, reflect.Int,
		reflect.Uint8, reflect.Uint16, reflect.Uint32, reflect.Uint64, reflect.Uint, reflect.Uintptr,
		reflect.Float32, reflect.Float64, reflect.Complex64, reflect.Complex128:
		return true
	case reflect.Array:
		return pointerFree(t.Elem())
	case reflect.Struct:
		for i := 0; i < t.NumField(); i++ {
			if !pointerFree(t.Field(i).Type) {
				return false
			}
		}
		return true
	}
	return false
}

func runC05(r *Run) {
	c05ReadFileIntoField(r)
	schemas := c05Schemas()
	types := c05GoTypes()
	nbuilt, nrej := 0, 0
	for _, sc := range schemas {
		for _, bt := range types {
			for _, pos := range c05Positions(bt) {
				if !r.Thorough() && pos.name != "alone" && r.Rng.Intn(3) != 0 {
					continue
				}
				fs := pos.wrap(sc.s)
				// struct{ Pre [64]byte; S0 int64; F T; S1 int16; Post [64]byte }: only "f" is in the schema
				st := reflect.StructOf([]reflect.StructField{
					{Name: "Pre", Type: reflect.TypeOf([64]byte{}), Tag: `json:"pre"`},
					{Name: "S0", Type: reflect.TypeOf(int64(0)), Tag: `json:"s0"`},
					{Name: "F", Type: pos.t, Tag: `json:"f"`},
					{Name: "S1", Type: reflect.TypeOf(int16(0)), Tag: `json:"s1"`},
					{Name: "Post", Type: reflect.TypeOf([64]byte{}), Tag: `json:"post"`},
				})
				g := gtOf(st)
				s := avro.Schema{Type: "record", Object: &avro.SchemaObject{Name: "W", Fields: []avro.SchemaRecordField{{Name: "f", Type: fs}}}}
				desc := map[string]any{"schema": sc.name, "go_type": pos.t.String(), "position": pos.name}
				c, err := schemaCodec(s, g)
				if isPanicErr(err) {
					id := r.Add(cApp("KBuild", coqSchema(s), g.Coq(), "false"), desc, "build/"+sc.name+"/"+pos.t.String())
					r.Fail(id, "build-panic", "Schema.Codec panics: "+err.Error(), desc)
					continue
				}
				r.Add(cApp("KBuild", coqSchema(s), g.Coq(), cBool(err == nil)), desc, "build/"+sc.name+"/"+pos.t.String())
				if err != nil {
					nrej++
					r.Count("rejected/" + sc.name)
					continue
				}
				nbuilt++
				r.Count("built/" + sc.name)
				if c15IsWrapper(bt) && !(bt == rtNullBool && strings.Contains(sc.name, "boolean")) {
					// build decision and layout only: what these decode (timestamps, validity flags) is C13/C18/C19's
					r.Count("built-wrapper/" + sc.name)
					continue
				}
				// layout of the wrapper struct and of the field type against the model
				offs := make([]string, st.NumField())
				for i := range offs {
					offs[i] = cZ(int64(st.Field(i).Offset))
				}
				if bt.Kind() != reflect.Complex64 { // the model has one complex kind, laid out as complex128
					r.Add(cApp("KLayout", g.Coq(), cZ(int64(st.Size())), cZ(int64(st.Align())), cList(offs)), desc, "layout/"+pos.t.String())
				}

				// decode an in-range and (where one exists) an out-of-range value into a struct full of canaries
				kind := bt.Kind().String()
				for _, out := range []bool{false, true} {
					one := sc.enc(kind, out)
					if one == nil {
						continue
					}
					var bs []byte
					switch pos.name {
					case "slice-elem":
						bs = append(append([]byte{2}, one...), 0)
					case "map-value":
						bs = append(append([]byte{2, 2, 'k'}, one...), 0)
					default:
						bs = one
					}
					dst := reflect.New(st)
					fill := func(f reflect.Value) {
						b := unsafe.Slice((*byte)(f.Addr().UnsafePointer()), f.Type().Size())
						for i := range b {
							b[i] = canary[i%4]
						}
					}
					fill(dst.Elem().Field(0))
					fill(dst.Elem().Field(4))
					// a null branch stores nothing at all (the model returns the destination
					// unchanged): pointer-free destinations are pre-filled and must stay so
					nullInto := strings.HasSuffix(sc.name, "/null") && pos.name == "alone" && pointerFree(pos.t)
					if nullInto {
						fill(dst.Elem().Field(2))
					}
					dst.Elem().Field(1).SetInt(0x1122334455667788)
					dst.Elem().Field(3).SetInt(0x5566)
					// padding included: every byte of the struct outside the field F is compared afterwards
					whole := unsafe.Slice((*byte)(dst.UnsafePointer()), st.Size())
					fOff, fEnd := st.Field(2).Offset, st.Field(2).Offset+pos.t.Size()
					for i := uintptr(0); i < st.Size(); i++ {
						inField := false
						for k := 0; k < st.NumField(); k++ {
							if i >= st.Field(k).Offset && i < st.Field(k).Offset+st.Field(k).Type.Size() {
								inField = true
							}
						}
						if !inField {
							whole[i] = canary[i%4] // padding
						}
					}
					before := append([]byte{}, whole...)
					res := func() (cls string) {
						defer func() {
							if p := recover(); p != nil {
								cls = "panic"
							}
						}()
						rb := avro.NewReadBuf(bs)
						if err := c.Read(rb, dst.UnsafePointer()); err != nil {
							return "err"
						}
						return "ok"
					}()
					d2 := withKV(desc, "input", hexs(bs))
					d2["out_of_range"] = out
					// the same decode into a zero value, compared with the model
					zr := implRead(c, g, bs)
					id := -1
					id = r.Add(cApp("KRead", coqSchema(s), g.Coq(), cBytes(bs), zr.coq()), d2, fmt.Sprintf("read/%s/%s/%s/%v", sc.name, pos.t, pos.name, out))
					intact := true
					chk := func(f reflect.Value) {
						b := unsafe.Slice((*byte)(f.Addr().UnsafePointer()), f.Type().Size())
						for i := range b {
							if b[i] != canary[i%4] {
								intact = false
							}
						}
					}
					chk(dst.Elem().Field(0))
					chk(dst.Elem().Field(4))
					if nullInto && res == "ok" {
						chk(dst.Elem().Field(2))
					}
					if dst.Elem().Field(1).Int() != 0x1122334455667788 || dst.Elem().Field(3).Int() != 0x5566 {
						intact = false
					}
					for i := uintptr(0); i < st.Size(); i++ {
						if (i < fOff || i >= fEnd) && whole[i] != before[i] {
							intact = false // a byte outside the field (a sibling or padding) changed
						}
					}
					// a Go bool holds 0 or 1, whatever byte the data carried
					improper := ""
					if res == "ok" && !nullInto { // (a null branch stores nothing: the pre-filled pattern stays)
						f := dst.Elem().Field(2)
						for f.Kind() == reflect.Pointer && !f.IsNil() {
							f = f.Elem()
						}
						check := func(b reflect.Value) {
							if b.Kind() == reflect.Bool && b.CanAddr() {
								if raw := *(*byte)(b.Addr().UnsafePointer()); raw > 1 {
									improper = fmt.Sprintf("a Go bool holding the raw byte %#x", raw)
								}
							}
						}
						switch f.Kind() {
						case reflect.Bool:
							check(f)
						case reflect.Slice:
							for i := 0; i < f.Len(); i++ {
								check(f.Index(i))
							}
						case reflect.Struct:
							if vf := f.FieldByName("Bool"); vf.IsValid() {
								check(vf)
							}
						}
					}
					switch {
					case res == "panic":
						r.Fail(id, "decode-panic", "decoding into a type-checked destination panics", d2)
					case improper != "":
						r.Fail(id, "improper-value", "the decoded value is not a value of its Go type: "+improper, d2)
					case !intact:
						r.Fail(id, "store-outside-destination", "memory around the destination field was modified", d2)
					case out && res == "ok":
						r.Fail(id, "out-of-range-accepted", "a value outside the destination's range was stored", d2)
					case !out && res != "ok":
						r.Fail(id, "in-range-rejected", "an in-range value was rejected by a built decoder: "+res, d2)
					}
				}
			}
		}
	}
	r.Extra["built"], r.Extra["rejected"] = nbuilt, nrej
	c05Entry(r)
	c05SameName(r)
	c05FarFields(r)
	// layouts of random struct types against the model (sizeof / alignof / offsets)
	for i := 0; i < r.N(150, 3000); i++ {
		g := genStructType(r.Rng, TypeGenCfg{MaxDepth: 1 + r.Rng.Intn(3), Dynamic: true, AllowUnsupported: i%3 == 0})
		rt := g.RType()
		offs := make([]string, rt.NumField())
		for k := range offs {
			offs[k] = cZ(int64(rt.Field(k).Offset))
		}
		r.Add(cApp("KLayout", g.Coq(), cZ(int64(rt.Size())), cZ(int64(rt.Align())), cList(offs)), map[string]any{"type": g.Coq()}, "layout/"+g.Coq())
		r.Count("layout/random")
	}
}

// c05FarFields: destination structs whose fields sit at offsets beyond what 8, 16 or 24 bits
// hold (a large array field in front of them): every store lands in its own field, the array
// (not named in the schema) and the guard behind the last field stay as they were.  Layout
// against the model for every size; the decode is judged directly (the value of a 16 MiB array
// is not printed as a term).
func c05FarFields(r *Run) {
	sizes := []int{200, 65536 - 8, 65536, 70000, 1<<24 + 8}
	if r.Thorough() {
		sizes = append(sizes, 1<<26+24)
	}
	s := avro.Schema{Type: "record", Object: &avro.SchemaObject{Name: "Far", Fields: []avro.SchemaRecordField{
		{Name: "head", Type: avro.Schema{Type: "long"}}, {Name: "tail", Type: avro.Schema{Type: "long"}},
		{Name: "str", Type: avro.Schema{Type: "string"}}, {Name: "small", Type: avro.Schema{Type: "int"}}}}}
	for _, n := range sizes {
		st := reflect.StructOf([]reflect.StructField{
			{Name: "Head", Type: reflect.TypeOf(int64(0)), Tag: `json:"head"`},
			{Name: "Pad", Type: reflect.ArrayOf(n, reflect.TypeOf(byte(0))), Tag: `json:"pad"`},
			{Name: "Tail", Type: reflect.TypeOf(int64(0)), Tag: `json:"tail"`},
			{Name: "Str", Type: reflect.TypeOf(""), Tag: `json:"str"`},
			{Name: "Small", Type: reflect.TypeOf(int16(0)), Tag: `json:"small"`},
			{Name: "Post", Type: reflect.TypeOf([64]byte{}), Tag: `json:"post"`},
		})
		g := gtOf(st)
		desc := map[string]any{"go_type": fmt.Sprintf("struct{Head int64; Pad [%d]byte; Tail int64; Str string; Small int16; Post [64]byte}", n), "schema": schemaJSON(s)}
		r.Count("far-fields")
		offs := make([]string, st.NumField())
		for i := range offs {
			offs[i] = cZ(int64(st.Field(i).Offset))
		}
		r.Add(cApp("KLayout", g.Coq(), cZ(int64(st.Size())), cZ(int64(st.Align())), cList(offs)), desc, fmt.Sprintf("layout/far/%d", n))
		c, err := schemaCodec(s, g)
		if err != nil {
			r.Fail(-1, "compat-build", fmt.Sprintf("Schema.Codec refuses a struct with a %d-byte array field in front of the decoded fields: %v", n, err), desc)
			continue
		}
		dst := reflect.New(st)
		fill := func(f reflect.Value) {
			b := unsafe.Slice((*byte)(f.Addr().UnsafePointer()), f.Type().Size())
			for i := range b {
				b[i] = canary[i%4]
			}
		}
		fill(dst.Elem().Field(1))
		fill(dst.Elem().Field(5))
		bs := append(append(append(specVarint(0x1122334455), specVarint(-0x66778899aa)...), 6, 'x', 'y', 'z'), specVarint(-12345)...)
		res := func() (cls string) {
			defer func() {
				if p := recover(); p != nil {
					cls = fmt.Sprintf("panic: %v", p)
				}
			}()
			if err := c.Read(avro.NewReadBuf(bs), dst.UnsafePointer()); err != nil {
				return "err: " + err.Error()
			}
			return "ok"
		}()
		firstBad := func(f reflect.Value) int {
			b := unsafe.Slice((*byte)(f.Addr().UnsafePointer()), f.Type().Size())
			for i := range b {
				if b[i] != canary[i%4] {
					return i
				}
			}
			return -1
		}
		e := dst.Elem()
		switch {
		case res != "ok":
			r.Fail(-1, "in-range-rejected", "decoding into a struct with far-away fields: "+res, desc)
		case firstBad(e.Field(1)) >= 0:
			r.Fail(-1, "store-outside-destination", fmt.Sprintf("the array field in front of the decoded fields (not in the schema) was modified at byte %d", firstBad(e.Field(1))), desc)
		case firstBad(e.Field(5)) >= 0:
			r.Fail(-1, "store-outside-destination", fmt.Sprintf("the guard behind the last field was modified at byte %d", firstBad(e.Field(5))), desc)
		case e.Field(0).Int() != 0x1122334455 || e.Field(2).Int() != -0x66778899aa || e.Field(3).String() != "xyz" || e.Field(4).Int() != -12345:
			r.Fail(-1, "store-outside-destination", fmt.Sprintf("decoded {Head:%#x Tail:%#x Str:%q Small:%d}, the record holds {0x1122334455, -0x66778899aa, \"xyz\", -12345}: a store went elsewhere",
				e.Field(0).Int(), e.Field(2).Int(), e.Field(3).String(), e.Field(4).Int()), desc)
		}
	}
}

// c05Entry: the value handed to Schema.Codec / ReadFile as "out" must be a struct or a
// pointer to one; every other kind (in particular a pointer to a pointer variable) is
// refused when the decoder is built, and nothing around it is written.
func c05Entry(r *Run) {
	type rec struct {
		A int64 `json:"a"`
		B int64 `json:"b"`
		C int64 `json:"c"`
	}
	s := avro.Schema{Type: "record", Object: &avro.SchemaObject{Name: "rec", Fields: []avro.SchemaRecordField{
		{Name: "a", Type: prim("long")}, {Name: "b", Type: prim("long")}, {Name: "c", Type: prim("long")}}}}
	type holder struct {
		Before [4]uint64
		P      *rec
		After  [4]uint64
	}
	newHolder := func() *holder {
		return &holder{Before: [4]uint64{0xA5A5, 0x5A5A, 0xC3C3, 0x3C3C}, After: [4]uint64{0x1111, 0x2222, 0x3333, 0x4444}}
	}
	intact := func(h *holder) bool {
		return h.Before == [4]uint64{0xA5A5, 0x5A5A, 0xC3C3, 0x3C3C} && h.After == [4]uint64{0x1111, 0x2222, 0x3333, 0x4444}
	}
	body := append(append(specVarint(11), specVarint(22)...), specVarint(33)...)
	ct := &Container{SchemaJSON: []byte(schemaJSON(s)), Codec: "null", Sync: randSync(r.Rng),
		Blocks: []CBlock{{Count: 2, Payload: append(append([]byte{}, body...), body...)}}}
	file := ct.Bytes(false)
	var pr *rec
	ppr := &pr
	i64 := int64(0)
	outs := []struct {
		name string
		out  any
		ok   bool
	}{
		{"struct", rec{}, true}, {"*struct", &rec{}, true}, {"**struct", &pr, false}, {"***struct", &ppr, false},
		{"[]struct", []rec{}, false}, {"map[string]struct", map[string]rec{}, false}, {"[1]struct", [1]rec{}, false},
		{"int64", int64(0), false}, {"*int64", &i64, false}, {"string", "x", false}, {"*[]struct", &[]rec{}, false},
	}
	for _, o := range outs {
		desc := map[string]any{"entry": "Schema.Codec", "out": o.name}
		c, err := func() (c avro.Codec, err error) {
			defer func() {
				if p := recover(); p != nil {
					err = fmt.Errorf("PANIC: %v", p)
				}
			}()
			return s.Codec(o.out)
		}()
		r.Count("entry/" + o.name)
		switch {
		case isPanicErr(err):
			r.Fail(-1, "build-panic", "Schema.Codec panics for out of kind "+o.name+": "+err.Error(), desc)
		case o.ok && err != nil:
			r.Fail(-1, "entry-refused", "Schema.Codec refuses out of kind "+o.name+": "+err.Error(), desc)
		case !o.ok && err == nil && c != nil:
			r.Fail(-1, "entry-accepted-wrong-kind", "Schema.Codec builds a decoder for out of kind "+o.name+" (neither a struct nor a pointer to one)", desc)
		}
	}
	// ReadFile with a pointer to a pointer variable that sits between canaries
	h := newHolder()
	err := func() (err error) {
		defer func() {
			if p := recover(); p != nil {
				err = fmt.Errorf("PANIC: %v", p)
			}
		}()
		return avro.ReadFile(bytes.NewReader(file), &h.P, func(unsafe.Pointer, *avro.ResourceBank) error { return nil })
	}()
	desc := map[string]any{"entry": "ReadFile", "out": "**struct", "file": hexs(file)}
	switch {
	case !intact(h):
		r.Fail(-1, "store-outside-destination", "ReadFile with out = pointer to a pointer variable wrote over the words around that variable", desc)
	case isPanicErr(err):
		r.Fail(-1, "decode-panic", "ReadFile with out = **struct panics: "+err.Error(), desc)
	case err == nil:
		r.Fail(-1, "entry-accepted-wrong-kind", "ReadFile accepts out = **struct", desc)
	}
}

// c05SameName: decoders are built per (schema, Go type); two distinct struct types that
// print the same (local types of the same name in different functions) must not share one.
func c05SameName(r *Run) {
	s := avro.Schema{Type: "record", Object: &avro.SchemaObject{Name: "row", Fields: []avro.SchemaRecordField{
		{Name: "id", Type: prim("long")}, {Name: "score", Type: prim("long")}}}}
	body := append(specVarint(0x1111), specVarint(0x2222)...)
	tA, tB, tC := c05RowA(), c05RowB(), c05RowC()
	desc := map[string]any{"types": []string{tA.String(), tB.String(), tC.String()}}
	for i, t := range []reflect.Type{tA, tB, tC, tA} {
		st := reflect.StructOf([]reflect.StructField{
			{Name: "Pre", Type: reflect.TypeOf([4]uint64{})}, {Name: "F", Type: t}, {Name: "Post", Type: reflect.TypeOf([4]uint64{})}})
		dst := reflect.New(st).Elem()
		for k := 0; k < 4; k++ {
			dst.Field(0).Index(k).SetUint(0xA5A5A5A5)
			dst.Field(2).Index(k).SetUint(0x5A5A5A5A)
		}
		c, err := func() (c avro.Codec, err error) {
			defer func() {
				if p := recover(); p != nil {
					err = fmt.Errorf("PANIC: %v", p)
				}
			}()
			return s.Codec(reflect.New(t).Elem().Interface())
		}()
		if err != nil {
			r.Fail(-1, "in-range-rejected", fmt.Sprintf("same-named type %d: Schema.Codec fails: %v", i, err), desc)
			continue
		}
		rerr := func() (err error) {
			defer func() {
				if p := recover(); p != nil {
					err = fmt.Errorf("PANIC: %v", p)
				}
			}()
			return c.Read(avro.NewReadBuf(body), dst.Field(1).Addr().UnsafePointer())
		}()
		ok := rerr == nil
		for k := 0; k < 4; k++ {
			ok = ok && dst.Field(0).Index(k).Uint() == 0xA5A5A5A5 && dst.Field(2).Index(k).Uint() == 0x5A5A5A5A
		}
		// every field named in the schema holds its value, every other field stays zero
		f := dst.Field(1)
		for k := 0; k < t.NumField(); k++ {
			want := int64(0)
			switch fieldJSONName(t.Field(k)) {
			case "id":
				want = 0x1111
			case "score":
				want = 0x2222
			}
			if f.Field(k).Int() != want {
				ok = false
			}
		}
		r.Count("same-name/decoded")
		if !ok {
			r.Fail(-1, "store-outside-destination", fmt.Sprintf("struct types that print alike (%s): decoding into type %d of the sequence stored %v (err %v)", t, i, f.Interface(), rerr), desc)
		}
	}
}

func fieldJSONName(sf reflect.StructField) string {
	n := sf.Tag.Get("json")
	if i := strings.Index(n, ","); i >= 0 {
		n = n[:i]
	}
	if n == "" {
		return sf.Name
	}
	return n
}

func c05RowA() reflect.Type {
	type row struct {
		ID    int64 `json:"id"`
		Score int64 `json:"score"`
	}
	return reflect.TypeOf(row{})
}

func c05RowB() reflect.Type {
	type row struct {
		Score int64 `json:"score"`
	}
	return reflect.TypeOf(row{})
}

func c05RowC() reflect.Type {
	type row struct {
		ID      int64 `json:"id"`
		Private int64 `json:"-"`
		Narrow  int16 `json:"score"`
	}
	return reflect.TypeOf(row{})
}

func c15IsWrapper(t reflect.Type) bool {
	switch t {
	case rtTime, rtNullInt, rtNullBool, rtNullFloat, rtNullString, rtNullTime:
		return true
	}
	return false
}
