package main

import (
	"fmt"
	"math"
	"math/rand"
	"reflect"
	"time"

	"github.com/philpearl/avro"
	"github.com/unravelin/null/v5"
)

func init() { register("C13", "Avro.Corr.Codec", runC13) }

// callerSchema writes a schema for struct type g the way a caller might: null
// first or second, int or long, float or double, logical time types, fields in
// another order, some struct fields left out.  cons records, per Go type node,
// the constraints values must satisfy to be "within the schema type's range".
type callerGen struct {
	rng  *rand.Rand
	nrec int
}

func prim(t string) avro.Schema { return avro.Schema{Type: t} }

func (cg *callerGen) nullable(s avro.Schema) avro.Schema {
	if cg.rng.Intn(2) == 0 {
		return avro.Schema{Type: "union", Union: []avro.Schema{prim("null"), s}}
	}
	return avro.Schema{Type: "union", Union: []avro.Schema{s, prim("null")}}
}

// schemaFor returns the schema for Go type g at a field position (omit = the
// field has omitempty) and whether the pair is supported by this generator.
func (cg *callerGen) schemaFor(g *GT, omit bool) (avro.Schema, bool) {
	u := g.under()
	if u == nil {
		return avro.Schema{}, false
	}
	switch u.Kind {
	case "ptr":
		e := u.Elem.under()
		if e == nil || e.Kind == "ptr" {
			return avro.Schema{}, false
		}
		inner, ok := cg.schemaFor(u.Elem, false)
		if !ok {
			return avro.Schema{}, false
		}
		if inner.Type == "union" {
			return inner, true // pointer to a wrapper: already nullable
		}
		if e.Kind == "slice" && !e.isBytes() || e.Kind == "map" {
			return avro.Schema{}, false // nil has no encoding under a plain schema
		}
		return cg.nullable(inner), true
	case "wrap":
		var base avro.Schema
		switch u.Wrap {
		case "time":
			switch cg.rng.Intn(5) {
			case 0:
				base = prim("string")
			case 1:
				base = prim("long")
			case 2:
				base = avro.Schema{Type: "long", Object: &avro.SchemaObject{LogicalType: "timestamp-millis"}}
			case 3:
				base = avro.Schema{Type: "long", Object: &avro.SchemaObject{LogicalType: "timestamp-micros"}}
			default:
				base = avro.Schema{Type: "int", Object: &avro.SchemaObject{LogicalType: "date"}}
			}
		case "nullint":
			base = prim([]string{"long", "int"}[cg.rng.Intn(2)])
		case "nullbool":
			base = prim("boolean")
		case "nullfloat":
			base = prim([]string{"double", "float"}[cg.rng.Intn(2)])
		case "nullstring", "nulltime":
			base = prim("string")
		}
		if cg.rng.Intn(3) == 0 {
			// a plain schema over a wrapper type: every value written is a valid wrapper / a
			// non-zero time (fitValue sees to it), on the wire as the bare base type
			return base, true
		}
		return cg.nullable(base), true // zero time / invalid wrapper need a null branch
	}
	var base avro.Schema
	switch u.Kind {
	case "bool":
		base = prim("boolean")
	case "int", "int16", "int32", "int64":
		base = prim([]string{"long", "int"}[cg.rng.Intn(2)])
	case "float32":
		base = prim([]string{"float", "double"}[cg.rng.Intn(2)])
	case "float64":
		base = prim("double")
	case "string":
		base = prim("string")
	case "slice":
		if u.isBytes() {
			base = prim("bytes")
		} else {
			it, ok := cg.schemaFor(u.Elem, false)
			if !ok {
				return avro.Schema{}, false
			}
			if it.Type != "union" && cg.rng.Intn(4) == 0 {
				it = cg.nullable(it)
			}
			base = avro.Schema{Type: "array", Object: &avro.SchemaObject{Items: it}}
		}
	case "array":
		if !u.Elem.isU8() {
			return avro.Schema{}, false
		}
		cg.nrec++
		base = avro.Schema{Type: "fixed", Object: &avro.SchemaObject{Name: fmt.Sprintf("Fx%d", cg.nrec), Size: u.Len}}
	case "map":
		if u.Key.under() == nil || u.Key.under().Kind != "string" {
			return avro.Schema{}, false
		}
		vs, ok := cg.schemaFor(u.Elem, false)
		if !ok {
			return avro.Schema{}, false
		}
		if vs.Type != "union" && cg.rng.Intn(3) == 0 {
			vs = cg.nullable(vs) // a nullable value schema over a plain Go value type: every entry is the non-null branch
		}
		base = avro.Schema{Type: "map", Object: &avro.SchemaObject{Values: vs}}
	case "struct":
		rec, ok := cg.record(u, false)
		if !ok {
			return avro.Schema{}, false
		}
		base = rec
	default:
		return avro.Schema{}, false
	}
	if omit && cg.rng.Intn(4) != 0 {
		return cg.nullable(base), true
	}
	if !omit && cg.rng.Intn(5) == 0 {
		// a nullable column over a plain field without omitempty: every value, zero included, is
		// written as the non-null branch
		return cg.nullable(base), true
	}
	return base, true
}

func (cg *callerGen) record(u *GT, top bool) (avro.Schema, bool) {
	cg.nrec++
	o := &avro.SchemaObject{Name: fmt.Sprintf("Rec%d", cg.nrec)}
	for _, f := range u.Fields {
		n := fieldName(f)
		if n == "-" {
			continue
		}
		if cg.rng.Intn(8) == 0 {
			continue // the struct covers more than the schema asks for
		}
		fs, ok := cg.schemaFor(f.T, fieldOmitEmpty(f))
		if !ok {
			return avro.Schema{}, false
		}
		o.Fields = append(o.Fields, avro.SchemaRecordField{Name: n, Type: fs})
	}
	if cg.rng.Intn(3) == 0 {
		cg.rng.Shuffle(len(o.Fields), func(i, j int) { o.Fields[i], o.Fields[j] = o.Fields[j], o.Fields[i] })
	}
	return avro.Schema{Type: "record", Object: o}, true
}

func unwrapNull(s avro.Schema) avro.Schema {
	if _, oi, ok := nullIndex(s); ok {
		return s.Union[oi]
	}
	return s
}

// fitValue adjusts v (of type g) so that it is within the range of schema s and
// representable at its resolution; fields the schema leaves out are zeroed.
func fitValue(rng *rand.Rand, s avro.Schema, g *GT, v reflect.Value) {
	u := g.under()
	if u == nil || !v.IsValid() {
		return
	}
	if u.Kind == "ptr" {
		if !v.IsNil() {
			fitValue(rng, s, u.Elem, v.Elem())
			// a non-nil pointer is written as the non-null branch; the zero time.Time is
			// outside the range of the long and date encodings (year 1)
			if e := u.Elem.under(); e != nil && e.Kind == "wrap" && e.Wrap == "time" && unwrapNull(s).Type != "string" {
				if x, ok := expose(v.Elem()); ok && x.CanSet() {
					if t, _ := timeOf(x); t.IsZero() {
						x.Set(reflect.ValueOf(fitTime(rng, unwrapNull(s).Type, "timestamp-millis", time.Unix(rng.Int63n(4e9)-2e9, 0).UTC())))
					}
				}
			}
		}
		return
	}
	plain := s.Type != "union"
	s = unwrapNull(s)
	lt := ""
	if s.Object != nil {
		lt = s.Object.LogicalType
	}
	switch u.Kind {
	case "int", "int16", "int32", "int64":
		if s.Type == "int" && (v.Int() > math.MaxInt32 || v.Int() < math.MinInt32) {
			v.SetInt(int64(int32(v.Int())))
		}
	case "wrap":
		x, ok := expose(v)
		if !ok || !x.CanSet() {
			return
		}
		if plain && u.Wrap != "time" {
			// no null branch to write an invalid wrapper as
			if f := x.FieldByName("Valid"); f.IsValid() && f.CanSet() {
				f.SetBool(true)
			}
		}
		switch u.Wrap {
		case "time":
			t, _ := timeOf(x)
			if plain && t.IsZero() {
				t = time.Unix(rng.Int63n(4e9)-2e9, int64(rng.Intn(1e9))).UTC()
			}
			x.Set(reflect.ValueOf(fitTime(rng, s.Type, lt, t)))
		case "nulltime":
			nt := x.Interface().(null.Time)
			if plain && nt.Time.IsZero() {
				nt.Time = time.Unix(rng.Int63n(4e9)-2e9, int64(rng.Intn(1e9))).UTC()
			}
			nt.Time = fitTime(rng, s.Type, lt, nt.Time)
			if !nt.Valid {
				nt.Time = time.Time{}
			}
			x.Set(reflect.ValueOf(nt))
		case "nullint":
			ni := x.Interface().(null.Int)
			if s.Type == "int" {
				ni.Int64 = int64(int32(ni.Int64))
			}
			x.Set(reflect.ValueOf(ni))
		case "nullfloat":
			nf := x.Interface().(null.Float)
			if s.Type == "float" {
				nf.Float64 = float64(float32(nf.Float64))
			}
			x.Set(reflect.ValueOf(nf))
		}
	case "slice":
		if !u.isBytes() && s.Object != nil {
			for i := 0; i < v.Len(); i++ {
				fitValue(rng, s.Object.Items, u.Elem, v.Index(i))
			}
		}
	case "map":
		if s.Object != nil && !v.IsNil() {
			it := v.MapRange()
			for it.Next() {
				e := reflect.New(v.Type().Elem()).Elem()
				e.Set(it.Value())
				if k := e.Kind(); rng.Intn(4) == 0 && (k == reflect.Bool || k == reflect.String || (k >= reflect.Int && k <= reflect.Float64)) {
					e.Set(reflect.Zero(e.Type())) // a zero entry is still an entry
				} else {
					fitValue(rng, unwrapNull(s.Object.Values), u.Elem, e)
				}
				v.SetMapIndex(it.Key(), e)
			}
		}
	case "struct":
		if s.Object == nil {
			return
		}
		in := map[string]avro.Schema{}
		for _, f := range s.Object.Fields {
			in[f.Name] = f.Type
		}
		for i, f := range u.Fields {
			fs, ok := in[fieldName(f)]
			if !f.Exported {
				continue
			}
			if !ok || fieldName(f) == "-" {
				v.Field(i).Set(reflect.Zero(v.Field(i).Type())) // not covered by the schema
				continue
			}
			if fieldOmitEmpty(f) && v.Field(i).CanSet() && rng.Intn(3) == 0 {
				// the empty value of an omitempty field: written as the null branch wherever null sits
				v.Field(i).Set(reflect.Zero(v.Field(i).Type()))
				// a zero struct is not empty and a zero value under a plain schema is written as
				// it is: wrappers inside still have to be valid where their schema has no null
			}
			if k := v.Field(i).Kind(); !fieldOmitEmpty(f) && fs.Type == "union" && v.Field(i).CanSet() && rng.Intn(3) == 0 &&
				(k == reflect.Bool || k == reflect.String || (k >= reflect.Int && k <= reflect.Int64) || k == reflect.Float32 || k == reflect.Float64) {
				// the zero value of a field without omitempty under a nullable column: a value, not null
				v.Field(i).Set(reflect.Zero(v.Field(i).Type()))
				continue
			}
			fitValue(rng, fs, f.T, v.Field(i))
		}
	}
}

func fitTime(rng *rand.Rand, st, lt string, t time.Time) time.Time {
	if t.IsZero() {
		return t
	}
	switch st {
	case "long":
		// plain long: representable as int64 nanoseconds; the timestamp types hold any
		// instant a time.Time can (the whole range of the stored long is in the
		// property's domain). UTC (the long codecs decode to UTC), at the type's resolution
		wide := lt == "timestamp-millis" || lt == "timestamp-micros"
		if !wide && (t.Year() < 1700 || t.Year() > 2250) {
			t = time.Unix(rng.Int63n(4e9)-2e9, int64(t.Nanosecond())).UTC()
		}
		t = t.UTC()
		switch lt {
		case "timestamp-millis":
			t = t.Truncate(time.Millisecond)
		case "timestamp-micros":
			t = t.Truncate(time.Microsecond)
		}
		if t.IsZero() {
			t = t.Add(time.Hour)
		}
		return t
	case "int":
		d := time.Date(t.Year(), t.Month(), t.Day(), 0, 0, 0, 0, time.UTC)
		if d.IsZero() {
			d = d.AddDate(0, 0, 1)
		}
		return d
	}
	return t
}

func runC13(r *Run) {
	c13Padding(r)
	n := r.N(220, 6000)
	tried := 0
	for i := 0; i < n && tried < 20*n; tried++ {
		g := genStructType(r.Rng, TypeGenCfg{MaxDepth: 1 + r.Rng.Intn(3), Dynamic: true})
		cg := &callerGen{rng: r.Rng}
		s, ok := cg.record(g.under(), true)
		if !ok {
			r.Count("skipped/unsupported-shape")
			continue
		}
		i++
		desc := map[string]any{"schema": schemaJSON(s), "type": g.Coq()}
		codec, err := schemaCodec(s, g)
		if err != nil {
			id := r.Add(cApp("KBuild", coqSchema(s), g.Coq(), "false"), desc, "build/"+schemaJSON(s)+g.Coq())
			if isPanicErr(err) {
				r.Fail(id, "build-panic", err.Error(), desc)
			} else {
				r.Count("build/refused")
			}
			continue
		}
		r.Add(cApp("KBuild", coqSchema(s), g.Coq(), "true"), desc, "build/"+schemaJSON(s)+g.Coq())
		r.Count("build/ok")
		for k := 0; k < 4; k++ {
			v := genValue(r.Rng, g)
			zeroExcluded(g, v)
			normaliseOmitZero(g, v, false)
			fitValue(r.Rng, s, g, v)
			shape := findingShape(g, v)
			bs, panicked := implWrite(codec, v)
			want, okd := datumOfValue(s, g, v)
			if !okd {
				want = &Datum{K: "null"}
				r.Count("want/unknown")
			}
			vd := map[string]any{"schema": desc["schema"], "type": desc["type"], "value": descVal(g, v), "bytes": hexs(bs)}
			id := r.Add(cApp("KWrite", coqSchema(s), g.Coq(), coqVal(g, v), cOptBytes(bs, panicked), coqDatum(want)), vd, fmt.Sprintf("write/%x/%s", bs, schemaJSON(s)))
			if panicked {
				r.Fail(id, classifyKF(shape, "write-panic"), "Codec.Write panics", vd)
				continue
			}
			checkWrittenDatum(r, id, s, g, v, bs, want, okd)
			got := implRead(codec, g, bs)
			idr := r.Add(cApp("KRead", coqSchema(s), g.Coq(), cBytes(bs), got.coq()), vd, fmt.Sprintf("read/%x/%s", bs, schemaJSON(s)))
			switch {
			case got.Class != "ok":
				r.Fail(idr, classifyKF(shape, "invert-read-error"), "decoding the written bytes fails: "+got.Class+" "+got.Msg, vd)
			case got.Rem != 0:
				r.Fail(idr, classifyKF(shape, "invert-leftover"), fmt.Sprintf("%d bytes left", got.Rem), vd)
			default:
				if eq, where := normEq(g, v, got.Val); !eq {
					r.Fail(idr, classifyKF(shape, "invert-value"), "decoding the written bytes gives a different value at "+where, vd)
				}
			}
		}
	}
}
