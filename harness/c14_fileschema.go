package main

import (
	"bytes"
	"fmt"
	"os"
	"unsafe"

	"github.com/philpearl/avro"
)

// c14FileSchema: the schema document of a container file's header is parsed by the same parser
// whatever its spelling: a bare string ("long"), a bare string with leading white space, an
// object, a union, a record.  FileSchema on the file returns what SchemaFromString returns on
// the document.
func c14FileSchema(r *Run) {
	docs := []string{`"long"`, `"string"`, ` "bytes"`, "\n\t\"double\" ", `"null"`, `{"type":"long"}`, `{"type":"long","logicalType":"timestamp-micros"}`,
		`["null","long"]`, `[]`, `{"type":"array","items":"string"}`, `{"type":"map","values":["null","string"]}`,
		`{"type":"fixed","name":"F","size":4}`, `{"type":"enum","name":"E","symbols":["A","B"]}`,
		`{"type":"record","name":"R","fields":[{"name":"a","type":"long"}]}`,
		` { "type" : "record" , "name" : "R" , "fields" : [ ] } `}
	call := func(path string) (s avro.Schema, err error) {
		defer func() {
			if p := recover(); p != nil {
				err = fmt.Errorf("PANIC: %v", p)
			}
		}()
		return avro.FileSchema(path)
	}
	for i, doc := range docs {
		want, werr := avro.SchemaFromString(doc)
		if werr != nil {
			continue // not a schema for this parser: nothing to compare
		}
		codec := codecNames[i%3]
		fw, err := avro.NewFileWriter([]byte(doc), avro.Compression(codec))
		if err != nil {
			r.Fail(-1, "fileschema", "NewFileWriter: "+err.Error(), nil)
			return
		}
		var buf bytes.Buffer
		if err := fw.WriteHeader(&buf); err != nil {
			r.Fail(-1, "fileschema", "WriteHeader: "+err.Error(), nil)
			return
		}
		f, err := os.CreateTemp("", "avro-c14-*.avro")
		if err != nil {
			return
		}
		f.Write(buf.Bytes())
		f.Close()
		got, gerr := call(f.Name())
		os.Remove(f.Name())
		r.Count("fileschema-documents")
		desc := map[string]any{"document": doc, "codec": codec}
		switch {
		case gerr != nil:
			r.Fail(-1, "fileschema", fmt.Sprintf("FileSchema fails on a file whose header carries the schema document %s (SchemaFromString accepts it): %v", doc, gerr), desc)
		case schemaJSON(got) != schemaJSON(want):
			r.Fail(-1, "fileschema", fmt.Sprintf("the schema document %s: FileSchema returns %s, SchemaFromString %s", doc, schemaJSON(got), schemaJSON(want)), desc)
		}
	}
}

// c03WideUnion: a general union of seventy branches (distinct fixed types of two bytes, which
// one Go array holds), the datum in the first, the last and the branches around 63/64, read
// into a target that keeps the field and into one that skips it; a long follows.
func c03WideUnion(r *Run) {
	const nb = 70
	var branches string
	for i := 0; i < nb; i++ {
		if i > 0 {
			branches += ","
		}
		branches += fmt.Sprintf(`{"type":"fixed","name":"F%d","size":2}`, i)
	}
	schema := `{"type":"record","name":"r","fields":[{"name":"u","type":[` + branches + `]},{"name":"tail","type":"long"}]}`
	type keep struct {
		U    [2]byte `json:"u"`
		Tail int64   `json:"tail"`
	}
	type drop struct {
		Tail int64 `json:"tail"`
	}
	s, err := avro.SchemaFromString(schema)
	if err != nil {
		r.Fail(-1, "compat-build", "schema with a union of 70 fixed types does not parse: "+err.Error(), nil)
		return
	}
	ck, err1 := s.Codec(keep{})
	cd, err2 := s.Codec(drop{})
	if err1 != nil || err2 != nil {
		r.Notes = append(r.Notes, fmt.Sprintf("wide union: no codec (%v / %v); scenario not applicable", err1, err2))
		return
	}
	for _, b := range []int{0, 1, 31, 62, 63, 64, 65, 68, 69} {
		data := append(specVarint(int64(b)), byte(b), 0xEE)
		data = append(data, specVarint(int64(1000+b))...)
		desc := map[string]any{"kind": "wide-union", "branches": nb, "branch": b, "bytes": hexs(data)}
		r.Count("wide-union")
		func() {
			defer func() {
				if p := recover(); p != nil {
					r.Fail(-1, "read-panic", fmt.Sprintf("union of %d branches, datum in branch %d: panic %v", nb, b, p), desc)
				}
			}()
			var k keep
			rb := avro.NewReadBuf(data)
			if err := ck.Read(rb, unsafe.Pointer(&k)); err != nil || rb.Len() != 0 || k.U != [2]byte{byte(b), 0xEE} || k.Tail != int64(1000+b) {
				r.Fail(-1, "legal-rejected", fmt.Sprintf("union of %d branches, datum in branch %d: decoded %+v with %d bytes left, error %v", nb, b, k, rb.Len(), err), desc)
			}
			var d drop
			rb2 := avro.NewReadBuf(data)
			if err := cd.Read(rb2, unsafe.Pointer(&d)); err != nil || rb2.Len() != 0 || d.Tail != int64(1000+b) {
				r.Fail(-1, "projection-differs", fmt.Sprintf("union of %d branches skipped, datum in branch %d: the field behind it decodes to %d (written %d) with %d bytes left, error %v", nb, b, d.Tail, 1000+b, rb2.Len(), err), desc)
			}
			rb3 := avro.NewReadBuf(data)
			if err := ck.Skip(rb3); err != nil || rb3.Len() != 0 {
				r.Fail(-1, "projection-differs", fmt.Sprintf("union of %d branches, datum in branch %d: Skip of the record leaves %d bytes, error %v", nb, b, rb3.Len(), err), desc)
			}
		}()
	}
}
