package main

import (
	"fmt"
	"math"
	"math/bits"
	"runtime"
	"sync"
	"sync/atomic"
	"unsafe"

	"github.com/philpearl/avro"
)

func init() { register("C17", "Avro.Corr.C17", runC17) }

// ---- independent reference (written from the Avro spec text) -------------

func specVarint(v int64) []byte {
	u := uint64((v << 1) ^ (v >> 63))
	var out []byte
	for u>>7 != 0 {
		out = append(out, byte(u&0x7f)|0x80)
		u >>= 7
	}
	return append(out, byte(u))
}

// refDecode: class 0 ok, 1 eof/truncated, 2 overflow / too long.
func refDecode(bs []byte) (class int, v int64, used int) {
	var u uint64
	for i := 0; i < len(bs); i++ {
		b := bs[i]
		if b < 0x80 {
			if i > 9 || (i == 9 && b > 1) {
				return 2, 0, i + 1
			}
			u |= uint64(b) << (7 * uint(i))
			return 0, int64(u>>1) ^ -int64(u&1), i + 1
		}
		if i < 10 {
			u |= uint64(b&0x7f) << (7 * uint(i))
		}
	}
	return 1, 0, len(bs)
}

// ---- implementation drivers ---------------------------------------------

func implVarintEnc(v int64) []byte {
	w := avro.NewWriteBuf(nil)
	w.Varint(v)
	return append([]byte(nil), w.Bytes()...)
}

type ires struct {
	Class string // ok | err | panic
	V     int64
	Rem   int
}

func (r ires) coq() string {
	switch r.Class {
	case "ok":
		return cApp("IOk", cZ(r.V), cZ(int64(r.Rem)))
	case "err":
		return "IErr"
	}
	return "IPanic"
}

func guard(f func() ires) (r ires) {
	defer func() {
		if p := recover(); p != nil {
			r = ires{Class: "panic"}
		}
	}()
	return f()
}

func implVarintDec(bs []byte) ires {
	return guard(func() ires {
		r := avro.NewReadBuf(bs)
		v, err := r.Varint()
		if err != nil {
			return ires{Class: "err"}
		}
		return ires{"ok", v, r.Len()}
	})
}

func implIntRead(w int, bs []byte) ires {
	return guard(func() ires {
		r := avro.NewReadBuf(bs)
		// canaries around the destination: the store must have the width of the type
		var cell struct {
			pre  uint64
			v    [8]byte
			post uint64
		}
		cell.pre, cell.post = 0xA5A5A5A5A5A5A5A5, 0x5A5A5A5A5A5A5A5A
		for i := range cell.v {
			cell.v[i] = 0xEE
		}
		var err error
		var v int64
		p := unsafe.Pointer(&cell.v[0])
		switch w {
		case 16:
			err = avro.Int16Codec{}.Read(r, p)
			v = int64(*(*int16)(p))
		case 32:
			err = avro.Int32Codec{}.Read(r, p)
			v = int64(*(*int32)(p))
		default:
			err = avro.Int64Codec{}.Read(r, p)
			v = *(*int64)(p)
		}
		if cell.pre != 0xA5A5A5A5A5A5A5A5 || cell.post != 0x5A5A5A5A5A5A5A5A {
			return ires{Class: "panic"}
		}
		for i := w / 8; i < 8; i++ {
			if cell.v[i] != 0xEE {
				return ires{Class: "panic"} // stored wider than the type
			}
		}
		if err != nil {
			return ires{Class: "err"}
		}
		return ires{"ok", v, r.Len()}
	})
}

// implBuiltIntRead: the same strings through the codec the builder makes for a record field
// of schema "int" or "long" over a Go field of the given width — the pairing a caller's own
// schema produces (the exported Int16/32/64Codec values above are only one way to get a reader).
type c17Dest16 struct {
	Pre  uint64  `json:"-"`
	V    int16   `json:"v"`
	Pad  [6]byte `json:"-"`
	Post uint64  `json:"-"`
}
type c17Dest32 struct {
	Pre  uint64  `json:"-"`
	V    int32   `json:"v"`
	Pad  [4]byte `json:"-"`
	Post uint64  `json:"-"`
}
type c17Dest64 struct {
	Pre  uint64 `json:"-"`
	V    int64  `json:"v"`
	Post uint64 `json:"-"`
}
type c17DestInt struct {
	Pre  uint64 `json:"-"`
	V    int    `json:"v"`
	Post uint64 `json:"-"`
}

var c17Built = map[string]avro.Codec{}

func implBuiltIntRead(schema string, kind string, bs []byte) ires {
	return guard(func() ires {
		key := schema + "/" + kind
		codec, ok := c17Built[key]
		if !ok {
			s := avro.Schema{Type: "record", Object: &avro.SchemaObject{Name: "R", Fields: []avro.SchemaRecordField{{Name: "v", Type: avro.Schema{Type: schema}}}}}
			var out any
			switch kind {
			case "int16":
				out = c17Dest16{}
			case "int32":
				out = c17Dest32{}
			case "int64":
				out = c17Dest64{}
			default:
				out = c17DestInt{}
			}
			var err error
			codec, err = s.Codec(out)
			if err != nil {
				return ires{Class: "panic"}
			}
			c17Built[key] = codec
		}
		r := avro.NewReadBuf(bs)
		const pre, post = 0xA5A5A5A5A5A5A5A5, 0x5A5A5A5A5A5A5A5A
		var v int64
		var err error
		intact := true
		switch kind {
		case "int16":
			d := c17Dest16{Pre: pre, Post: post, Pad: [6]byte{0xEE, 0xEE, 0xEE, 0xEE, 0xEE, 0xEE}}
			err = codec.Read(r, unsafe.Pointer(&d))
			v, intact = int64(d.V), d.Pre == pre && d.Post == post && d.Pad == [6]byte{0xEE, 0xEE, 0xEE, 0xEE, 0xEE, 0xEE}
		case "int32":
			d := c17Dest32{Pre: pre, Post: post, Pad: [4]byte{0xEE, 0xEE, 0xEE, 0xEE}}
			err = codec.Read(r, unsafe.Pointer(&d))
			v, intact = int64(d.V), d.Pre == pre && d.Post == post && d.Pad == [4]byte{0xEE, 0xEE, 0xEE, 0xEE}
		case "int64":
			d := c17Dest64{Pre: pre, Post: post}
			err = codec.Read(r, unsafe.Pointer(&d))
			v, intact = d.V, d.Pre == pre && d.Post == post
		default:
			d := c17DestInt{Pre: pre, Post: post}
			err = codec.Read(r, unsafe.Pointer(&d))
			v, intact = int64(d.V), d.Pre == pre && d.Post == post
		}
		if !intact {
			return ires{Class: "panic"}
		}
		if err != nil {
			return ires{Class: "err"}
		}
		return ires{"ok", v, r.Len()}
	})
}

func implIntWrite(w int, v int64) []byte {
	wb := avro.NewWriteBuf(nil)
	switch w {
	case 16:
		x := int16(v)
		avro.Int16Codec{}.Write(wb, unsafe.Pointer(&x))
	case 32:
		x := int32(v)
		avro.Int32Codec{}.Write(wb, unsafe.Pointer(&x))
	default:
		avro.Int64Codec{}.Write(wb, unsafe.Pointer(&v))
	}
	return append([]byte(nil), wb.Bytes()...)
}

func implIntSkip(bs []byte) ires {
	return guard(func() ires {
		r := avro.NewReadBuf(bs)
		if err := (avro.Int64Codec{}).Skip(r); err != nil {
			return ires{Class: "err"}
		}
		return ires{"ok", 0, r.Len()}
	})
}

func implFloatWrite(n int, b uint64) []byte {
	wb := avro.NewWriteBuf(nil)
	if n == 4 {
		x := math.Float32frombits(uint32(b))
		avro.FloatCodec{}.Write(wb, unsafe.Pointer(&x))
	} else {
		x := math.Float64frombits(b)
		avro.DoubleCodec{}.Write(wb, unsafe.Pointer(&x))
	}
	return append([]byte(nil), wb.Bytes()...)
}

// returns bits as non-negative int64 carrier: use uint64 printed separately
type fres struct {
	Class string
	Bits  uint64
	Rem   int
}

func (r fres) coq() string {
	switch r.Class {
	case "ok":
		return cApp("IOk", cU(r.Bits), cZ(int64(r.Rem)))
	case "err":
		return "IErr"
	}
	return "IPanic"
}

func guardF(f func() fres) (r fres) {
	defer func() {
		if p := recover(); p != nil {
			r = fres{Class: "panic"}
		}
	}()
	return f()
}

func implFloatRead(n int, bs []byte) fres {
	return guardF(func() fres {
		r := avro.NewReadBuf(bs)
		if n == 4 {
			var x float32
			if err := (avro.FloatCodec{}).Read(r, unsafe.Pointer(&x)); err != nil {
				return fres{Class: "err"}
			}
			return fres{"ok", uint64(math.Float32bits(x)), r.Len()}
		}
		var x float64
		if err := (avro.DoubleCodec{}).Read(r, unsafe.Pointer(&x)); err != nil {
			return fres{Class: "err"}
		}
		return fres{"ok", math.Float64bits(x), r.Len()}
	})
}

func implF32DWrite(b uint32) []byte {
	wb := avro.NewWriteBuf(nil)
	x := math.Float32frombits(b)
	avro.Float32DoubleCodec{}.Write(wb, unsafe.Pointer(&x))
	return append([]byte(nil), wb.Bytes()...)
}

func implF32DRead(bs []byte) fres {
	return guardF(func() fres {
		r := avro.NewReadBuf(bs)
		var x float32
		if err := (avro.Float32DoubleCodec{}).Read(r, unsafe.Pointer(&x)); err != nil {
			return fres{Class: "err"}
		}
		return fres{"ok", uint64(math.Float32bits(x)), r.Len()}
	})
}

func implBoolRead(bs []byte) ires {
	return guard(func() ires {
		r := avro.NewReadBuf(bs)
		var cell [3]byte
		cell[0], cell[2] = 0xA5, 0x5A
		if err := (avro.BoolCodec{}).Read(r, unsafe.Pointer(&cell[1])); err != nil {
			return ires{Class: "err"}
		}
		if cell[0] != 0xA5 || cell[2] != 0x5A || cell[1] > 1 {
			return ires{Class: "panic"}
		}
		return ires{"ok", int64(cell[1]), r.Len()}
	})
}

func le(n int, b uint64) []byte {
	out := make([]byte, n)
	for i := 0; i < n; i++ {
		out[i] = byte(b >> (8 * uint(i)))
	}
	return out
}

// ---- generation ------------------------------------------------------------

func interestingInt64s(r *Run, nrand int) []int64 {
	seen := map[int64]bool{}
	var out []int64
	add := func(v int64) {
		if !seen[v] {
			seen[v] = true
			out = append(out, v)
		}
	}
	for _, v := range []int64{0, 1, -1, 2, -2, 63, 64, -64, -65, math.MaxInt64, math.MinInt64, math.MaxInt64 - 1, math.MinInt64 + 1,
		math.MaxInt32, math.MinInt32, math.MaxInt32 + 1, math.MinInt32 - 1, math.MaxInt16, math.MinInt16, math.MaxInt16 + 1, math.MinInt16 - 1} {
		add(v)
	}
	// boundaries of every varint length: zig-zag value 2^(7k) -> v = 2^(7k-1)
	for k := 1; k <= 9; k++ {
		b := int64(1) << uint(7*k-1)
		for _, d := range []int64{-2, -1, 0, 1} {
			add(b + d)
			add(-b + d)
		}
	}
	for k := 0; k < 63; k++ {
		add(int64(1) << uint(k))
		add(-(int64(1) << uint(k)))
	}
	for i := 0; i < nrand; i++ {
		// random magnitude: uniform over bit lengths
		sh := uint(r.Rng.Intn(64))
		v := int64(r.Rng.Uint64() >> sh)
		if r.Rng.Intn(2) == 0 {
			v = -v
		}
		add(v)
	}
	return out
}

func lenClass(n int) string { return fmt.Sprintf("len%d", n) }

func runC17(r *Run) {
	c17WriteBuf(r)
	c17WriteBufEdges(r)
	c17OverlongInPositions(r)
	c17ReadBuf(r)
	if r.replay != nil {
		replayC17(r)
		return
	}
	vals := interestingInt64s(r, r.N(150, 3000))

	// (1) encode: WriteBuf.Varint and IntCodec.Write against the spec formula
	for _, v := range vals {
		got := implVarintEnc(v)
		id := r.Add(cApp("KEnc", cZ(v), cBytes(got)), map[string]any{"kind": "enc", "v": v, "impl": hexs(got)}, fmt.Sprintf("enc/%d", v))
		r.Count("enc/" + lenClass(len(got)))
		if want := specVarint(v); string(got) != string(want) {
			r.Fail(id, "varint-enc", fmt.Sprintf("WriteBuf.Varint(%d) = %x, spec says %x", v, got, want), map[string]any{"kind": "enc", "v": v})
		}
		for _, w := range []int{16, 32, 64} {
			if w == 16 && (v > math.MaxInt16 || v < math.MinInt16) || w == 32 && (v > math.MaxInt32 || v < math.MinInt32) {
				continue
			}
			if got := implIntWrite(w, v); string(got) != string(specVarint(v)) {
				r.Fail(id, "int-write", fmt.Sprintf("Int%dCodec.Write(%d) = %x, spec says %x", w, v, got, specVarint(v)), map[string]any{"kind": "enc", "v": v})
			}
		}
	}

	// (2) decode: valid encodings with a tail, truncations, overlong forms, random strings
	var decInputs [][]byte
	for _, v := range vals {
		e := specVarint(v)
		tail := make([]byte, r.Rng.Intn(3))
		r.Rng.Read(tail)
		decInputs = append(decInputs, append(append([]byte{}, e...), tail...))
		if len(e) > 1 && r.Rng.Intn(3) == 0 {
			decInputs = append(decInputs, e[:r.Rng.Intn(len(e))]) // truncated
		}
	}
	// structured malformed: k continuation bytes then a final byte
	for k := 0; k <= 12; k++ {
		for _, last := range []byte{0, 1, 2, 0x7f} {
			for rep := 0; rep < 2; rep++ {
				bs := make([]byte, k+1)
				for i := 0; i < k; i++ {
					bs[i] = 0x80 | byte(r.Rng.Intn(128))
					if rep == 0 {
						bs[i] = 0x80
					}
				}
				bs[k] = last
				decInputs = append(decInputs, bs)
				decInputs = append(decInputs, bs[:k]) // all continuation: truncated
			}
		}
	}
	// every byte string of length <= 1, and (thorough) of length 2
	decInputs = append(decInputs, []byte{})
	for a := 0; a < 256; a++ {
		decInputs = append(decInputs, []byte{byte(a)})
	}
	if r.Thorough() {
		for a := 0; a < 256; a++ {
			for b := 0; b < 256; b += 1 {
				decInputs = append(decInputs, []byte{byte(a), byte(b)})
			}
		}
	} else {
		for i := 0; i < 200; i++ {
			decInputs = append(decInputs, []byte{byte(r.Rng.Intn(256)), byte(r.Rng.Intn(256))})
		}
	}
	for i := 0; i < r.N(300, 6000); i++ {
		n := 1 + r.Rng.Intn(11)
		bs := make([]byte, n)
		r.Rng.Read(bs)
		// bias towards continuation bytes so that long forms occur
		for j := range bs[:n-1] {
			if r.Rng.Intn(4) != 0 {
				bs[j] |= 0x80
			}
		}
		decInputs = append(decInputs, bs)
	}
	seenDec := map[string]bool{}
	for _, bs := range decInputs {
		if seenDec[string(bs)] {
			continue
		}
		seenDec[string(bs)] = true
		got := implVarintDec(bs)
		id := r.Add(cApp("KDec", cBytes(bs), got.coq()), map[string]any{"kind": "dec", "bytes": hexs(bs), "impl": got}, "dec/"+hexs(bs))
		class, v, used := refDecode(bs)
		r.Count(fmt.Sprintf("dec/%s", []string{"ok", "truncated", "overflow"}[class]))
		switch {
		case got.Class == "panic":
			r.Fail(id, "varint-dec-panic", fmt.Sprintf("ReadBuf.Varint panics on %x", bs), map[string]any{"kind": "dec", "bytes": hexs(bs)})
		case class == 0 && (got.Class != "ok" || got.V != v || got.Rem != len(bs)-used):
			r.Fail(id, "varint-dec", fmt.Sprintf("ReadBuf.Varint(%x) = %+v, spec says value %d with %d bytes left", bs, got, v, len(bs)-used), map[string]any{"kind": "dec", "bytes": hexs(bs)})
		case class != 0 && got.Class != "err":
			r.Fail(id, "varint-dec-accepts", fmt.Sprintf("ReadBuf.Varint(%x) = %+v but the encoding is %s", bs, got, []string{"ok", "truncated", "overflowing"}[class]), map[string]any{"kind": "dec", "bytes": hexs(bs)})
		}
		// the same strings through the int codecs (width check) and skip
		for _, w := range []int{16, 32, 64} {
			gi := implIntRead(w, bs)
			idw := r.Add(cApp("KIntRead", cZ(int64(w)), cBytes(bs), gi.coq()), map[string]any{"kind": "intread", "w": w, "bytes": hexs(bs), "impl": gi}, fmt.Sprintf("intread/%d/%s", w, hexs(bs)))
			fits := class == 0 && v >= -(int64(1)<<uint(w-1)) && v <= (int64(1)<<uint(w-1))-1
			switch {
			case gi.Class == "panic":
				r.Fail(idw, "int-read-store", fmt.Sprintf("Int%dCodec.Read(%x) panicked or stored outside its %d-byte destination", w, bs, w/8), map[string]any{"kind": "intread", "w": w, "bytes": hexs(bs)})
			case fits && (gi.Class != "ok" || gi.V != v || gi.Rem != len(bs)-used):
				r.Fail(idw, "int-read", fmt.Sprintf("Int%dCodec.Read(%x) = %+v, want %d", w, bs, gi, v), map[string]any{"kind": "intread", "w": w, "bytes": hexs(bs)})
			case !fits && gi.Class != "err":
				r.Fail(idw, "int-read-truncates", fmt.Sprintf("Int%dCodec.Read(%x) = %+v but the value does not fit / is malformed", w, bs, gi), map[string]any{"kind": "intread", "w": w, "bytes": hexs(bs)})
			}
			if class == 0 {
				if fits {
					r.Count(fmt.Sprintf("intread%d/fits", w))
				} else {
					r.Count(fmt.Sprintf("intread%d/toobig", w))
				}
			}
		}
		// the readers the builder pairs with the schemas "int" and "long" (a caller's own schema may say
		// "int" over any integer field): same width rule, judged directly
		for _, sch := range []string{"int", "long"} {
			for _, kw := range []struct {
				kind string
				w    int
			}{{"int16", 16}, {"int32", 32}, {"int64", 64}, {"int", 64}} {
				gi := implBuiltIntRead(sch, kw.kind, bs)
				w := kw.w
				fits := class == 0 && v >= -(int64(1)<<uint(w-1)) && v <= (int64(1)<<uint(w-1))-1
				what := fmt.Sprintf("schema %q into a Go %s field", sch, kw.kind)
				d := map[string]any{"kind": "built-intread", "schema": sch, "go": kw.kind, "bytes": hexs(bs)}
				switch {
				case gi.Class == "panic":
					r.Fail(-1, "int-read-store", fmt.Sprintf("%s: reading %x panicked, could not be built, or stored outside its %d-byte destination", what, bs, w/8), d)
				case fits && (gi.Class != "ok" || gi.V != v || gi.Rem != len(bs)-used):
					r.Fail(-1, "int-read", fmt.Sprintf("%s: reading %x = %+v, want %d", what, bs, gi, v), d)
				case !fits && gi.Class != "err":
					r.Fail(-1, "int-read-truncates", fmt.Sprintf("%s: reading %x = %+v but the value does not fit / is malformed", what, bs, gi), d)
				}
				r.Count("built-intread/" + sch + "/" + kw.kind)
			}
		}
		gs := implIntSkip(bs)
		ids := r.Add(cApp("KIntSkip", cBytes(bs), gs.coq()), map[string]any{"kind": "intskip", "bytes": hexs(bs), "impl": gs}, "")
		if (class == 0) != (gs.Class == "ok") || class == 0 && gs.Rem != len(bs)-used {
			r.Fail(ids, "int-skip", fmt.Sprintf("IntCodec.Skip(%x) = %+v", bs, gs), map[string]any{"kind": "intskip", "bytes": hexs(bs)})
		}
	}

	// (3) floats and doubles: bit-exact little-endian round trip
	var f32s []uint32
	for _, b := range []uint32{0, 0x80000000, 1, 0x007fffff, 0x00800000, 0x3f800000, 0x7f7fffff, 0x7f800000, 0xff800000, 0x7fc00000, 0x7f800001, 0xffc12345, 0x00000002, 0x00400000, 0x807fffff, 0x33800000} {
		f32s = append(f32s, b)
	}
	for i := 0; i < r.N(120, 3000); i++ {
		b := r.Rng.Uint32()
		switch r.Rng.Intn(6) {
		case 0:
			b &= 0x807fffff // subnormal
		case 1:
			b |= 0x7f800000 // inf/nan
		}
		f32s = append(f32s, b)
	}
	for _, b := range f32s {
		wr := implFloatWrite(4, uint64(b))
		rd := implFloatRead(4, append(append([]byte{}, wr...), 0x77))
		id := r.Add(cApp("KFloat", "4%nat", cU(uint64(b)), cBytes(wr), rd.coq()), map[string]any{"kind": "float", "bits": b, "wrote": hexs(wr), "read": rd}, fmt.Sprintf("f32/%08x", b))
		r.Count("float32/" + f32class(b))
		if string(wr) != string(le(4, uint64(b))) || rd.Class != "ok" || rd.Bits != uint64(b) || rd.Rem != 1 {
			r.Fail(id, "float-le", fmt.Sprintf("float32 bits %08x wrote %x read %+v", b, wr, rd), map[string]any{"kind": "float", "n": 4, "bits": b})
		}
		// float32 carried as double
		wd := implF32DWrite(b)
		rdd := implF32DRead(wd)
		idd := r.Add(cApp("KF32D", cU(uint64(b)), cBytes(wd), rdd.coq()), map[string]any{"kind": "f32d", "bits": b, "wrote": hexs(wd), "read": rdd}, fmt.Sprintf("f32d/%08x", b))
		isNaN := b&0x7f800000 == 0x7f800000 && b&0x007fffff != 0
		okrt := rdd.Class == "ok" && (rdd.Bits == uint64(b) || isNaN && uint32(rdd.Bits)&0x7f800000 == 0x7f800000 && uint32(rdd.Bits)&0x007fffff != 0)
		if !okrt {
			r.Fail(idd, "f32-as-double", fmt.Sprintf("float32 bits %08x carried as double %x read back %+v", b, wd, rdd), map[string]any{"kind": "f32d", "bits": b})
		}
	}
	var f64s []uint64
	for _, b := range []uint64{0, 1 << 63, 1, 0x3ff0000000000000, 0x7ff0000000000000, 0xfff0000000000000, 0x7ff8000000000001, 0x7fefffffffffffff, 0x000fffffffffffff,
		0x3ff0000010000000, 0x3ff0000030000000, 0x3ff0000010000001, 0x47efffffe0000000, 0x47effffff0000000, 0x36a0000000000000, 0x3690000000000000, 0x3690000000000001, 0x380fffffffffffff, 0x3810000000000000, 0x37f0000000000000} {
		f64s = append(f64s, b)
	}
	for i := 0; i < r.N(150, 4000); i++ {
		b := r.Rng.Uint64()
		switch r.Rng.Intn(5) {
		case 0: // near float32 range, random low bits -> exercises rounding
			e := uint64(1023 - 160 + r.Rng.Intn(300))
			b = b&0x800fffffffffffff | e<<52
		case 1: // exactly representable float32
			b = math.Float64bits(float64(math.Float32frombits(r.Rng.Uint32())))
		case 2: // halfway cases
			b = math.Float64bits(float64(math.Float32frombits(r.Rng.Uint32()))) | 1<<28
		}
		f64s = append(f64s, b)
	}
	for _, b := range f64s {
		wr := implFloatWrite(8, b)
		rd := implFloatRead(8, wr)
		id := r.Add(cApp("KFloat", "8%nat", cU(b), cBytes(wr), rd.coq()), map[string]any{"kind": "double", "bits": b, "wrote": hexs(wr), "read": rd}, fmt.Sprintf("f64/%016x", b))
		r.Count("float64")
		if string(wr) != string(le(8, b)) || rd.Class != "ok" || rd.Bits != b || rd.Rem != 0 {
			r.Fail(id, "float-le", fmt.Sprintf("float64 bits %016x wrote %x read %+v", b, wr, rd), map[string]any{"kind": "float", "n": 8, "bits": b})
		}
		// arbitrary double read into a float32 field: Go's conversion (round to nearest even)
		rn := implF32DRead(le(8, b))
		idn := r.Add(cApp("KF32DRead", cU(b), rn.coq()), map[string]any{"kind": "narrow", "bits": b, "read": rn}, fmt.Sprintf("narrow/%016x", b))
		want := math.Float32bits(float32(math.Float64frombits(b)))
		wantNaN := want&0x7f800000 == 0x7f800000 && want&0x007fffff != 0
		if rn.Class != "ok" || !(uint32(rn.Bits) == want || wantNaN && uint32(rn.Bits)&0x7f800000 == 0x7f800000 && uint32(rn.Bits)&0x007fffff != 0) {
			r.Fail(idn, "f32-narrow", fmt.Sprintf("double %016x read into float32 = %+v want %08x", b, rn, want), map[string]any{"kind": "narrow", "bits": b})
		}
	}
	// truncated float input
	for n := 0; n < 8; n++ {
		bs := make([]byte, n)
		r.Rng.Read(bs)
		for _, w := range []int{4, 8} {
			rd := implFloatRead(w, bs)
			id := r.Add(cApp("KFloatRead", fmt.Sprintf("%d%%nat", w), cBytes(bs), rd.coq()), map[string]any{"kind": "floatread", "n": w, "bytes": hexs(bs), "read": rd}, fmt.Sprintf("fread/%d/%d", w, n))
			if (n >= w) != (rd.Class == "ok") {
				r.Fail(id, "float-read-short", fmt.Sprintf("float read of %d bytes from %x = %+v", w, bs, rd), map[string]any{"kind": "floatread", "n": w, "bytes": hexs(bs)})
			}
		}
	}
	// booleans
	for a := 0; a < 256; a++ {
		for _, bs := range [][]byte{{byte(a)}, {byte(a), 9}} {
			g := implBoolRead(bs)
			id := r.Add(cApp("KBool", cBytes(bs), g.coq()), map[string]any{"kind": "bool", "bytes": hexs(bs), "impl": g}, fmt.Sprintf("bool/%d/%d", a, len(bs)))
			want := int64(0)
			if a != 0 {
				want = 1
			}
			if g.Class != "ok" || g.V != want || g.Rem != len(bs)-1 {
				r.Fail(id, "bool", fmt.Sprintf("BoolCodec.Read(%x) = %+v", bs, g), map[string]any{"kind": "bool", "bytes": hexs(bs)})
			}
		}
	}
	g := implBoolRead(nil)
	r.Add(cApp("KBool", "[]", g.coq()), map[string]any{"kind": "bool", "bytes": ""}, "bool/empty")

	if r.Thorough() {
		sweepC17(r)
	}
}

func f32class(b uint32) string {
	e := b >> 23 & 0xff
	m := b & 0x7fffff
	switch {
	case e == 0 && m == 0:
		return "zero"
	case e == 0:
		return "subnormal"
	case e == 255 && m == 0:
		return "inf"
	case e == 255:
		return "nan"
	}
	return "normal"
}

// sweepC17: exhaustive implementation-side sweeps (thorough tier): every int16,
// every int32 and every float32 bit pattern through the real codecs against the
// spec formula.  These are oracle checks on the implementation only.
func sweepC17(r *Run) {
	workers := runtime.NumCPU()
	var bad atomic.Int64
	var firstBad sync.Map
	var wg sync.WaitGroup
	per := (uint64(1) << 32) / uint64(workers)
	for wk := 0; wk < workers; wk++ {
		wg.Add(1)
		go func(wk int) {
			defer wg.Done()
			lo := uint64(wk) * per
			hi := lo + per
			if wk == workers-1 {
				hi = 1 << 32
			}
			wb := avro.NewWriteBuf(make([]byte, 0, 16))
			rb := avro.NewReadBuf(nil)
			for u := lo; u < hi; u++ {
				v := int32(uint32(u))
				wb.Reset()
				avro.Int32Codec{}.Write(wb, unsafe.Pointer(&v))
				enc := wb.Bytes()
				want := specVarint(int64(v))
				ok := string(enc) == string(want)
				var back int32
				rb.Reset(enc)
				if err := (avro.Int32Codec{}).Read(rb, unsafe.Pointer(&back)); err != nil || back != v || rb.Len() != 0 {
					ok = false
				}
				// int16 destination: in range iff fits
				var b16 [2]int16
				b16[1] = 0x5A5A
				rb.Reset(enc)
				err16 := (avro.Int16Codec{}).Read(rb, unsafe.Pointer(&b16[0]))
				fits16 := v >= math.MinInt16 && v <= math.MaxInt16
				if fits16 != (err16 == nil) || fits16 && int32(b16[0]) != v || b16[1] != 0x5A5A {
					ok = false
				}
				// float32 pattern u: LE round trip and carried as double
				f := math.Float32frombits(uint32(u))
				wb.Reset()
				avro.FloatCodec{}.Write(wb, unsafe.Pointer(&f))
				fe := wb.Bytes()
				if len(fe) != 4 || uint32(fe[0])|uint32(fe[1])<<8|uint32(fe[2])<<16|uint32(fe[3])<<24 != uint32(u) {
					ok = false
				}
				var fb float32
				rb.Reset(fe)
				if err := (avro.FloatCodec{}).Read(rb, unsafe.Pointer(&fb)); err != nil || math.Float32bits(fb) != uint32(u) {
					ok = false
				}
				wb.Reset()
				avro.Float32DoubleCodec{}.Write(wb, unsafe.Pointer(&f))
				rb.Reset(wb.Bytes())
				var fd float32
				if err := (avro.Float32DoubleCodec{}).Read(rb, unsafe.Pointer(&fd)); err != nil {
					ok = false
				} else if f != f { // NaN
					if fd == fd {
						ok = false
					}
				} else if math.Float32bits(fd) != uint32(u) {
					ok = false
				}
				if !ok {
					if bad.Add(1) == 1 {
						firstBad.Store("u", u)
					}
				}
			}
		}(wk)
	}
	wg.Wait()
	r.Extra["sweep_int32_float32_patterns"] = uint64(1) << 32
	r.Extra["sweep_bad"] = bad.Load()
	_ = bits.Len
	if bad.Load() != 0 {
		u, _ := firstBad.Load("u")
		r.Fail(-1, "sweep", fmt.Sprintf("exhaustive 32-bit sweep: %d patterns fail, first %#x", bad.Load(), u), map[string]any{"kind": "sweep", "u": u})
	}
}

func replayC17(r *Run) {
	r.Notes = append(r.Notes, "replay mode: re-running the generator with the recorded seed is the replay for C17 (cases are derived from the seed)")
	r.replay = nil
	runC17(r)
}
