package main

// C12 — concurrent independent use is race-free and result-equivalent.
//
// The Coq side (coq/Model/Conc.v) proves non-interference over atomic steps; that the
// steps ARE atomic cannot be modelled and is exercised here under the Go race
// detector: ./check builds this harness a second time with `go build -race` (props.py
// "race": True) and runs that binary.
//
// The concurrent scenarios run in CHILD processes (the same binary, started with
// GORACE="halt_on_error=1 exitcode=66"): a race report kills the child with exit
// code 66 and its text (on stderr) becomes the failure ("data-race"); any other
// abnormal end ("fatal error: concurrent map writes", a crash) is "concurrent-panic";
// a goroutine whose result differs from the sequential oracle is
// "concurrent-result-differs".
//
// A child: computes the sequential oracle (pool types: schema, shared codec, values,
// their encodings, the values read back, container files of every compression and
// what ReadFile delivers -- all alone, on one goroutine), then runs rounds of 16
// goroutines with a random GOMAXPROCS, each performing a random mix of
//   - registry steps on its PRIVATE types (avro.Register, avro.RegisterSchema, and
//     lookups through Schema.Codec / SchemaForType of a struct with a field of the
//     type) and lookups of the commonly read time.Time / null.Int entries,
//   - building codecs and schemas for pool types (Schema.Codec, SchemaForType),
//   - decoding with a SHARED codec into private targets,
//   - encoding with a shared codec into private WriteBufs,
//   - reading whole files (null, deflate, snappy),
//   - handing ResourceBanks to other goroutines through a channel, which Close them,
//   - parsing timestamps with random zone offsets through avrotime.StringCodec.
// What each goroutine observed at its registry / timezone / pool steps is printed as
// a KSteps case and evaluated against the model's solitary run (Corr/Conc.v).

import (
	"bytes"
	"encoding/json"
	"fmt"
	"math/rand"
	"os"
	"os/exec"
	"path/filepath"
	"reflect"
	"runtime"
	"sort"
	"strings"
	"sync"
	"time"
	"unsafe"

	"github.com/philpearl/avro"
	avronull "github.com/philpearl/avro/null"
	avrotime "github.com/philpearl/avro/time"
	"github.com/unravelin/null/v5"
)

func init() {
	register("C12", "Avro.Corr.Conc", runC12)
	// the child side: the same binary, `-prop C12-child`, talks through the file named by C12_RESP
	register("C12-child", "Avro.Corr.Conc", c12ChildMain)
}

const c12Goroutines = 16

// ---- custom codecs for the private types -------------------------------------------------------

// c12Codec decodes an int64 and xors it with k: which builder built a codec is
// visible in what the codec decodes.  New and Skip are the embedded codec's.
type c12Codec struct {
	avro.Int64Codec
	k int64
}

func (c c12Codec) Read(r *avro.ReadBuf, p unsafe.Pointer) error {
	err := c.Int64Codec.Read(r, p)
	*(*int64)(p) ^= c.k
	return err
}

func (c c12Codec) Write(w *avro.WriteBuf, p unsafe.Pointer) {
	v := *(*int64)(p) ^ c.k
	c.Int64Codec.Write(w, unsafe.Pointer(&v))
}

func c12Builder(k int64) avro.CodecBuildFunc {
	return func(s avro.Schema, typ reflect.Type, omit bool) (avro.Codec, error) {
		if k%2 == 1 {
			// a builder may itself construct codecs (delegate to the library for part of its
			// work): codec construction is re-entered while this one is in progress
			if _, err := c12ProbeSchema.Codec(c12Probe{}); err != nil {
				return nil, err
			}
		}
		return c12Codec{k: k}, nil
	}
}

type c12Probe struct {
	X int64  `json:"x"`
	S string `json:"s"`
}

var c12ProbeSchema = avro.Schema{Type: "record", Object: &avro.SchemaObject{Name: "probe", Fields: []avro.SchemaRecordField{
	{Name: "x", Type: avro.Schema{Type: "long"}}, {Name: "s", Type: avro.Schema{Type: "string"}}}}}

func c12RegSchema(id int64) avro.Schema {
	return avro.Schema{Type: "long", Object: &avro.SchemaObject{LogicalType: fmt.Sprintf("c12-%d", id)}}
}

// a struct with one field of type t (the place where the registries are consulted)
func c12Holder(t reflect.Type) reflect.Type {
	return reflect.StructOf([]reflect.StructField{{Name: "F", Type: t, Tag: `json:"f"`}})
}

func c12RecordSchema(field avro.Schema) avro.Schema {
	return avro.Schema{Type: "record", Object: &avro.SchemaObject{Name: "H", Fields: []avro.SchemaRecordField{{Name: "f", Type: field}}}}
}

// ---- steps --------------------------------------------------------------------------------------------

type c12Step struct {
	Kind string // reglookup regset sreglookup sregset tz poolget poolput
	Key  int    // index into c12PrivTypes, or -1 time.Time, -2 null.Int
	Val  int64  // builder id / schema id / zone offset in seconds
}

func c12KeyCoq(key int) string {
	switch key {
	case -1:
		return "(RWrap WTime)"
	case -2:
		return "(RWrap WNullInt)"
	}
	return cApp("RNamed", cZ(int64(namedID(c12PrivTypes[key]))))
}

func (s c12Step) coq() string {
	switch s.Kind {
	case "reglookup":
		return cApp("RegLookup", c12KeyCoq(s.Key))
	case "regset":
		return cApp("RegSet", c12KeyCoq(s.Key), cApp("BCustom", cZ(s.Val)))
	case "sreglookup":
		return cApp("SRegLookup", c12KeyCoq(s.Key))
	case "sregset":
		return cApp("SRegSet", c12KeyCoq(s.Key), cZ(s.Val))
	case "tz":
		return cApp("TzGet", cZ(s.Val))
	case "poolget":
		return "PoolGet"
	}
	return "(PoolPut 0)"
}

// c12Mirror: the registries as the harness knows them (what a solitary run sees)
type c12Mirror struct {
	reg, sreg map[int]int64
}

// expect: the observation of the step in a solitary run, as a Coq obs term
func (m *c12Mirror) expect(s c12Step) string {
	switch s.Kind {
	case "reglookup":
		switch s.Key {
		case -1:
			return "(OReg (Some (BWrap WTime)))"
		case -2:
			return "(OReg (Some (BWrap WNullInt)))"
		}
		if k, ok := m.reg[s.Key]; ok {
			return fmt.Sprintf("(OReg (Some (BCustom %d)))", k)
		}
		return "(OReg None)"
	case "regset":
		m.reg[s.Key] = s.Val
		return "OUnit"
	case "sreglookup":
		if k, ok := m.sreg[s.Key]; ok && s.Key >= 0 {
			return fmt.Sprintf("(OSReg (Some %d))", k)
		}
		return "(OSReg None)"
	case "sregset":
		m.sreg[s.Key] = s.Val
		return "OUnit"
	case "tz":
		return cApp("OTz", cZ(s.Val))
	case "poolget":
		return "OBank"
	}
	return "OUnit"
}

// ---- the child's world -----------------------------------------------------------------------------

type c12Item struct {
	name    string
	g       *GT
	zero    any
	s       avro.Schema
	sJSON   string
	codec   avro.Codec
	vals    []reflect.Value // generated values
	encs    [][]byte        // their encodings by the shared codec, alone
	datums  []*Datum        // reference decoding of encs
	wants   []reflect.Value // encs read back, alone
	files   map[string][]byte
	damaged map[string][]byte // per compressing codec: the file with the first block's stored bytes overwritten (the decompressor refuses it)
	hasMap  bool
}

type c12Failure struct {
	Key   string `json:"key"`
	What  string `json:"what"`
	Round int    `json:"round"`
	G     int    `json:"g"`
}

type c12StepsCase struct {
	Round int    `json:"round"`
	G     int    `json:"g"`
	Regs  string `json:"regs"`
	SRegs string `json:"sregs"`
	Steps string `json:"steps"`
	Seq   bool   `json:"seq"`
	N     int    `json:"n"`
}

type c12ChildResp struct {
	Failures []c12Failure      `json:"failures"`
	Steps    []c12StepsCase    `json:"steps"`
	Indep    []string          `json:"indep"` // per round: Coq list of the goroutines' programs
	Counts   map[string]int    `json:"counts"`
	Procs    []int             `json:"procs"`
	Notes    []string          `json:"notes"`
	Race     bool              `json:"race"`
	Extra    map[string]string `json:"extra"`
}

type c12World struct {
	mu       sync.Mutex
	resp     *c12ChildResp
	items    []*c12Item
	bankCh   chan *avro.ResourceBank
	locMu    sync.Mutex
	locs     map[int]*time.Location
	timeItem *c12Item
}

func (w *c12World) fail(round, g int, key, what string) {
	w.mu.Lock()
	defer w.mu.Unlock()
	if len(w.resp.Failures) < 50 {
		w.resp.Failures = append(w.resp.Failures, c12Failure{key, what, round, g})
	}
}

func (w *c12World) count(k string, n int) {
	w.mu.Lock()
	w.resp.Counts[k] += n
	w.mu.Unlock()
}

func c12Prepare(rng *rand.Rand, nitems int) []*c12Item {
	var items []*c12Item
	perm := rng.Perm(len(pool))
	for _, pi := range perm {
		if len(items) >= nitems {
			break
		}
		e := pool[pi]
		g := e.GT
		rt := reflect.TypeOf(e.Zero)
		s, err := avro.SchemaForType(reflect.New(rt).Interface())
		if err != nil {
			continue
		}
		codec, err := schemaCodec(s, g)
		if err != nil {
			continue
		}
		it := &c12Item{name: e.Name, g: g, zero: e.Zero, s: s, sJSON: schemaJSON(s), codec: codec, files: map[string][]byte{},
			hasMap: g.contains(func(x *GT) bool { return x.Kind == "map" })}
		for tries := 0; tries < 12 && len(it.vals) < 3; tries++ {
			v := genValue(rng, g)
			zeroExcluded(g, v)
			normaliseOmitZero(g, v, false)
			if findingShape(g, v) != "" {
				continue
			}
			enc, panicked := implWrite(codec, v)
			if panicked {
				continue
			}
			d, rest, derr := decodeDatum(s, enc)
			if derr != nil || len(rest) != 0 {
				continue
			}
			r := implRead(codec, g, enc)
			if r.Class != "ok" {
				continue
			}
			it.vals = append(it.vals, v)
			it.encs = append(it.encs, enc)
			it.datums = append(it.datums, d)
			it.wants = append(it.wants, r.Val)
		}
		if len(it.vals) == 0 {
			continue
		}
		for _, cname := range codecNames {
			ct := &Container{SchemaJSON: []byte(it.sJSON), Codec: cname, Sync: randSync(rng)}
			for k := 0; k < len(it.encs); {
				m := 1 + rng.Intn(len(it.encs)-k)
				var payload []byte
				for _, rec := range it.encs[k : k+m] {
					payload = append(payload, rec...)
				}
				ct.Blocks = append(ct.Blocks, CBlock{Count: int64(m), Payload: payload})
				k += m
			}
			it.files[cname] = ct.Bytes(false)
			if cname != "null" && len(ct.Blocks) > 0 {
				dm := append([]byte{}, it.files[cname]...)
				start := ct.BlockEnds[0] - 16 - len(ct.Blocks[0].Raw)
				for j := start; j < ct.BlockEnds[0]-16; j++ {
					dm[j] = 0xFF
				}
				if it.damaged == nil {
					it.damaged = map[string][]byte{}
				}
				it.damaged[cname] = dm
			}
		}
		items = append(items, it)
	}
	return items
}

// ---- the operations of a goroutine -------------------------------------------------------------

type c12Worker struct {
	w      *c12World
	round  int
	g      int
	rng    *rand.Rand
	mirror *c12Mirror
	held   []*avro.ResourceBank
	obs    []string // per model step: (step, observed)
	exp    []string // per model step: expected observation
}

func (cw *c12Worker) fail(key, what string) { cw.w.fail(cw.round, cw.g, key, what) }

func (cw *c12Worker) handOff(b *avro.ResourceBank) {
	// another goroutine closes it; when nobody takes it, close it here
	select {
	case cw.w.bankCh <- b:
		cw.w.count("bank/handed-over", 1)
	default:
		b.Close()
		cw.w.count("bank/closed-by-owner", 1)
	}
}

func (cw *c12Worker) opDecode() {
	it := cw.w.items[cw.rng.Intn(len(cw.w.items))]
	k := cw.rng.Intn(len(it.encs))
	rb := avro.NewReadBuf(it.encs[k])
	dst := reflect.New(it.g.RType())
	if err := it.codec.Read(rb, dst.UnsafePointer()); err != nil {
		cw.fail("concurrent-result-differs", fmt.Sprintf("decode %s with the shared codec fails: %v", it.name, err))
		return
	}
	if eq, where := normEq(it.g, it.wants[k], dst.Elem()); !eq {
		cw.fail("concurrent-result-differs", fmt.Sprintf("decode %s with the shared codec differs from the solitary decode at %s", it.name, where))
	}
	if rb.Len() != 0 {
		cw.fail("concurrent-result-differs", fmt.Sprintf("decode %s left %d bytes", it.name, rb.Len()))
	}
	// the value is done with: its bank goes to another goroutine (or back to the pool)
	cw.handOff(rb.ExtractResourceBank())
	cw.w.count("op/decode", 1)
}

func (cw *c12Worker) checkEncoding(it *c12Item, k int, out []byte, what string) {
	if !it.hasMap {
		if !bytes.Equal(out, it.encs[k]) {
			cw.fail("concurrent-result-differs", fmt.Sprintf("%s %s: %x, alone %x", what, it.name, out, it.encs[k]))
		}
		return
	}
	d, rest, err := decodeDatum(it.s, out)
	if err != nil || len(rest) != 0 || len(out) != len(it.encs[k]) || !datumEq(d, it.datums[k], true) {
		cw.fail("concurrent-result-differs", fmt.Sprintf("%s %s (up to map order): %x, alone %x", what, it.name, out, it.encs[k]))
	}
}

func (cw *c12Worker) opEncode() {
	it := cw.w.items[cw.rng.Intn(len(cw.w.items))]
	k := cw.rng.Intn(len(it.encs))
	v := it.vals[k] // shared, read only
	if cw.rng.Intn(2) == 0 {
		v = it.wants[k]
	}
	wb := avro.NewWriteBuf(make([]byte, 0, cw.rng.Intn(64)))
	func() {
		defer func() {
			if p := recover(); p != nil {
				cw.fail("concurrent-panic", fmt.Sprintf("encode %s panics: %v", it.name, p))
			}
		}()
		it.codec.Write(wb, v.Addr().UnsafePointer())
	}()
	cw.checkEncoding(it, k, wb.Bytes(), "encode with the shared codec")
	cw.w.count("op/encode", 1)
}

func (cw *c12Worker) opBuild() {
	it := cw.w.items[cw.rng.Intn(len(cw.w.items))]
	s2, err := avro.SchemaForType(reflect.New(reflect.TypeOf(it.zero)).Interface())
	if err != nil || schemaJSON(s2) != it.sJSON {
		cw.fail("concurrent-result-differs", fmt.Sprintf("SchemaForType(%s) = %v %s, alone %s", it.name, err, schemaJSON(s2), it.sJSON))
		return
	}
	c2, err := schemaCodec(s2, it.g)
	if err != nil {
		cw.fail("concurrent-result-differs", fmt.Sprintf("Schema.Codec(%s) fails: %v", it.name, err))
		return
	}
	k := cw.rng.Intn(len(it.encs))
	r := implRead(c2, it.g, it.encs[k])
	if r.Class != "ok" {
		cw.fail("concurrent-result-differs", fmt.Sprintf("a codec built concurrently for %s decodes with outcome %s %s", it.name, r.Class, r.Msg))
		return
	}
	if eq, where := normEq(it.g, it.wants[k], r.Val); !eq {
		cw.fail("concurrent-result-differs", fmt.Sprintf("a codec built concurrently for %s decodes differently at %s", it.name, where))
	}
	out, panicked := implWrite(c2, it.wants[k])
	if panicked {
		cw.fail("concurrent-panic", "a codec built concurrently panics in Write")
		return
	}
	cw.checkEncoding(it, k, out, "encode with a codec built concurrently")
	cw.w.count("op/build", 1)
}

var errC12Stop = fmt.Errorf("callback stops the read")

var stormFinal sync.Map // private type key -> builder id last registered by a registry storm

func (cw *c12Worker) opReadFile() {
	it := cw.w.items[cw.rng.Intn(len(cw.w.items))]
	cname := codecNames[cw.rng.Intn(3)]
	rt := it.g.RType()
	// one read in five is preceded by a read of the same file with its first block damaged: refused,
	// and without consequence for this or any other goroutine's reads
	if dm := it.damaged[cname]; dm != nil && cw.rng.Intn(5) == 0 {
		n := 0
		err := func() (err error) {
			defer func() {
				if p := recover(); p != nil {
					err = fmt.Errorf("PANIC: %v", p)
				}
			}()
			return avro.ReadFile(bytes.NewReader(dm), reflect.New(rt).Elem().Interface(), func(val unsafe.Pointer, rb *avro.ResourceBank) error {
				n++
				rb.Close()
				return nil
			})
		}()
		switch {
		case isPanicErr(err):
			cw.fail("concurrent-panic", fmt.Sprintf("ReadFile(%s, %s) with a damaged first block: %v", it.name, cname, err))
		case err == nil || n != 0:
			cw.fail("concurrent-result-differs", fmt.Sprintf("ReadFile(%s, %s) with a damaged first block returned %v after %d records; alone it is refused before any record", it.name, cname, err, n))
		}
		cw.w.count("op/readfile-damaged", 1)
	}
	var got []reflect.Value
	var banks []*avro.ResourceBank
	// one read in four is stopped early by the callback's own error, after the
	// callback closed (or kept) the bank it was given for that record
	stopAt, closeOwn := -1, cw.rng.Intn(2) == 0
	if len(it.wants) > 0 && cw.rng.Intn(4) == 0 {
		stopAt = cw.rng.Intn(len(it.wants))
	}
	err := func() (err error) {
		defer func() {
			if p := recover(); p != nil {
				err = fmt.Errorf("PANIC: %v", p)
			}
		}()
		return avro.ReadFile(bytes.NewReader(it.files[cname]), reflect.New(rt).Elem().Interface(), func(val unsafe.Pointer, rb *avro.ResourceBank) error {
			v := reflect.New(rt).Elem()
			v.Set(reflect.NewAt(rt, val).Elem())
			got = append(got, v)
			if len(got)-1 == stopAt {
				if closeOwn {
					rb.Close()
				} else {
					banks = append(banks, rb)
				}
				return errC12Stop
			}
			banks = append(banks, rb)
			return nil
		})
	}()
	if stopAt >= 0 {
		switch {
		case isPanicErr(err):
			cw.fail("concurrent-panic", fmt.Sprintf("ReadFile(%s, %s) stopped by its callback: %v", it.name, cname, err))
		case err != errC12Stop || len(got) != stopAt+1:
			cw.fail("concurrent-result-differs", fmt.Sprintf("ReadFile(%s, %s) stopped by its callback at record %d returned %v after %d records", it.name, cname, stopAt, err, len(got)))
		}
		for _, b := range banks {
			cw.handOff(b)
		}
		cw.w.count("op/readfile-stopped", 1)
		return
	}
	switch {
	case isPanicErr(err):
		cw.fail("concurrent-panic", fmt.Sprintf("ReadFile(%s, %s): %v", it.name, cname, err))
	case err != nil:
		cw.fail("concurrent-result-differs", fmt.Sprintf("ReadFile(%s, %s) fails: %v", it.name, cname, err))
	case len(got) != len(it.wants):
		cw.fail("concurrent-result-differs", fmt.Sprintf("ReadFile(%s, %s) delivered %d records, alone %d", it.name, cname, len(got), len(it.wants)))
	default:
		for k := range got {
			if eq, where := normEq(it.g, it.wants[k], got[k]); !eq {
				cw.fail("concurrent-result-differs", fmt.Sprintf("ReadFile(%s, %s) record %d differs from the solitary read at %s", it.name, cname, k, where))
				break
			}
		}
	}
	for _, b := range banks {
		cw.handOff(b)
	}
	cw.w.count("op/readfile-"+cname, 1)
}

// opEncoderFile: an Encoder of its own (generic NewEncoderFor, any compression, small
// blocks) into a private buffer; what it wrote is then read back and compared.
func (cw *c12Worker) opEncoderFile() {
	it := cw.w.items[cw.rng.Intn(len(cw.w.items))]
	mk, ok := encTable[it.name]
	if !ok || len(it.vals) == 0 {
		return
	}
	comp := []avro.Compression{avro.CompressionNull, avro.CompressionDeflate, avro.CompressionSnappy}[cw.rng.Intn(3)]
	var buf bytes.Buffer
	var idx []int
	err := func() (err error) {
		defer func() {
			if p := recover(); p != nil {
				err = fmt.Errorf("PANIC: %v", p)
			}
		}()
		enc, err := mk(&buf, comp, 1+cw.rng.Intn(200))
		if err != nil {
			return err
		}
		for n := 2 + cw.rng.Intn(12); n > 0; n-- {
			k := cw.rng.Intn(len(it.vals))
			idx = append(idx, k)
			if err := enc.Encode(it.vals[k]); err != nil {
				return err
			}
			if cw.rng.Intn(4) == 0 {
				if err := enc.Flush(); err != nil {
					return err
				}
			}
		}
		return enc.Flush()
	}()
	if err != nil {
		key := "concurrent-result-differs"
		if isPanicErr(err) {
			key = "concurrent-panic"
		}
		cw.fail(key, fmt.Sprintf("Encoder[%s] (%s) into a private buffer: %v", it.name, comp, err))
		return
	}
	rt := it.g.RType()
	n := 0
	rerr := func() (err error) {
		defer func() {
			if p := recover(); p != nil {
				err = fmt.Errorf("PANIC: %v", p)
			}
		}()
		return avro.ReadFile(bytes.NewReader(buf.Bytes()), reflect.New(rt).Elem().Interface(), func(val unsafe.Pointer, rb *avro.ResourceBank) error {
			v := reflect.NewAt(rt, val).Elem()
			if n < len(idx) {
				if eq, where := normEq(it.g, it.wants[idx[n]], v); !eq {
					cw.fail("concurrent-result-differs", fmt.Sprintf("a file written by a private Encoder[%s] (%s) reads back differently at record %d, %s", it.name, comp, n, where))
				}
			}
			n++
			rb.Close()
			return nil
		})
	}()
	if rerr != nil || n != len(idx) {
		cw.fail("concurrent-result-differs", fmt.Sprintf("a file written by a private Encoder[%s] (%s) does not read back: %v, %d of %d records", it.name, comp, rerr, n, len(idx)))
	}
	cw.w.count("op/encoder-file-"+string(comp), 1)
}

// opForeignLookup: builds a codec that consults the registry for ANOTHER goroutine's
// private type while its owner may be registering it.  Either answer is legitimate
// (the result is not compared); the round's final check is that no registration is lost.
func (cw *c12Worker) opForeignLookup() {
	k := cw.rng.Intn(len(c12PrivTypes))
	if k/2 == cw.g {
		return
	}
	_ = cw.regLookupQuiet(k)
	cw.w.count("op/foreign-lookup", 1)
}

func (cw *c12Worker) regLookupQuiet(key int) (out string) {
	defer func() {
		if p := recover(); p != nil {
			out = "panic"
		}
	}()
	ht := c12Holder(c12PrivTypes[key])
	codec, err := c12RecordSchema(avro.Schema{Type: "long"}).Codec(reflect.New(ht).Elem().Interface())
	if err != nil || codec == nil {
		return "none"
	}
	return "some"
}

// opTzStress: a burst of timestamps over the whole grid of zone offsets (every quarter
// hour from -23:45 to +23:45, and odd minutes), each compared with its arithmetic.
func (cw *c12Worker) opTzStress() {
	for i := 0; i < 600; i++ {
		var offMin int
		if cw.rng.Intn(4) == 0 {
			offMin = cw.rng.Intn(2*1439+1) - 1439
		} else {
			offMin = 15 * (cw.rng.Intn(2*95+1) - 95)
		}
		t, err := cw.parseTime(offMin * 60)
		if err != nil {
			cw.fail("concurrent-result-differs", fmt.Sprintf("timestamp with zone offset %d min: %v", offMin, err))
			return
		}
		if _, o := t.Zone(); o != offMin*60 {
			cw.fail("concurrent-result-differs", fmt.Sprintf("timestamp with zone offset %d min parsed with offset %d s", offMin, o))
			return
		}
	}
	cw.w.count("op/tz-stress", 1)
}

func (cw *c12Worker) opCloseOthers() {
	for i := 0; i < 4; i++ {
		select {
		case b := <-cw.w.bankCh:
			b.Close()
			cw.w.count("bank/closed-by-other-goroutine", 1)
		default:
			return
		}
	}
}

var c12ZoneMinutes = []int{0, 60, -60, 330, 345, -210, 840, -720, 1, -1, 1439, -1439, 570, -570, 765}

func (cw *c12Worker) parseTime(offSec int) (time.Time, error) {
	sign := '+'
	a := offSec
	if a < 0 {
		sign = '-'
		a = -a
	}
	text := fmt.Sprintf("2021-03-04T05:06:07.%09d%c%02d:%02d", cw.rng.Intn(1000000000), sign, a/3600, a%3600/60)
	var t time.Time
	data := append(specVarint(int64(len(text))), text...)
	rb := avro.NewReadBuf(data)
	err := avrotime.StringCodec{}.Read(rb, unsafe.Pointer(&t))
	rb.ExtractResourceBank().Close()
	if err != nil {
		return t, fmt.Errorf("%q: %w", text, err)
	}
	ref, perr := time.Parse(time.RFC3339Nano, text)
	if perr != nil {
		return t, fmt.Errorf("harness: %q does not parse: %v", text, perr)
	}
	_, o := t.Zone()
	if !t.Equal(ref) || o != offSec {
		return t, fmt.Errorf("%q parsed as %s (offset %d)", text, t.Format(time.RFC3339Nano), o)
	}
	// The pinned tree hands out one *time.Location per offset for the life of the process (the
	// model proves that of its cache).  The properties speak of the instant and the offset only,
	// so a cache that evicts and re-creates zones is no violation: counted, not judged.
	cw.w.locMu.Lock()
	if prev, ok := cw.w.locs[offSec]; ok {
		if prev != t.Location() {
			cw.w.locs[offSec] = t.Location()
			cw.w.locMu.Unlock()
			cw.w.count("tz/location-not-shared", 1)
			return t, nil
		}
	} else {
		cw.w.locs[offSec] = t.Location()
	}
	cw.w.locMu.Unlock()
	return t, nil
}

// ---- model steps on the real library -----------------------------------------------------------------

func (cw *c12Worker) doStep(s c12Step) {
	exp := cw.mirror.expect(s)
	got := "OUnit"
	switch s.Kind {
	case "regset":
		avro.Register(c12PrivTypes[s.Key], c12Builder(s.Val))
	case "sregset":
		avro.RegisterSchema(c12PrivTypes[s.Key], c12RegSchema(s.Val))
	case "reglookup":
		got = cw.regLookup(s.Key)
	case "sreglookup":
		got = cw.sregLookup(s.Key)
	case "tz":
		if t, err := cw.parseTime(int(s.Val)); err != nil {
			got = "(OTz 99999999)"
			cw.fail("concurrent-result-differs", "timestamp parsing: "+err.Error())
		} else {
			_, o := t.Zone()
			got = cApp("OTz", cZ(int64(o)))
		}
	case "poolget":
		rb := avro.NewReadBuf(nil)
		b := c10BankOf(rb)
		clean := true
		for _, a := range c10Arenas(b) {
			if a.len != 0 {
				clean = false
			}
		}
		if _, l, _ := c10SData(b); l != 0 {
			clean = false
		}
		if clean {
			got = "OBank"
		} else {
			got = "OUnit"
			cw.fail("concurrent-result-differs", "the pool handed out a bank that is not clean")
		}
		cw.held = append(cw.held, rb.ExtractResourceBank())
	case "poolput":
		if n := len(cw.held); n > 0 {
			cw.handOff(cw.held[n-1])
			cw.held = cw.held[:n-1]
		}
		cw.opCloseOthers()
	}
	if got != exp {
		cw.fail("concurrent-result-differs", fmt.Sprintf("step %s observed %s, alone %s", s.coq(), got, exp))
	}
	cw.obs = append(cw.obs, cPair(s.coq(), got))
	cw.w.count("step/"+s.Kind, 1)
}

func (cw *c12Worker) regLookup(key int) string {
	var ft reflect.Type
	field := avro.Schema{Type: "long"}
	switch key {
	case -1:
		ft, field = rtTime, avro.Schema{Type: "string"}
	case -2:
		ft = rtNullInt
	default:
		ft = c12PrivTypes[key]
	}
	ht := c12Holder(ft)
	var codec avro.Codec
	var err error
	func() {
		defer func() {
			if p := recover(); p != nil {
				err = fmt.Errorf("PANIC: %v", p)
			}
		}()
		codec, err = c12RecordSchema(field).Codec(reflect.New(ht).Elem().Interface())
	}()
	if err != nil {
		if isPanicErr(err) {
			cw.fail("concurrent-panic", "Schema.Codec: "+err.Error())
		}
		return "(OReg None)" // no codec for the type: nothing is registered for it
	}
	dst := reflect.New(ht)
	input := []byte{0} // the long 0 / the empty string
	if key == -1 {
		text := "2001-02-03T04:05:06Z"
		input = append(specVarint(int64(len(text))), text...)
	}
	rb := avro.NewReadBuf(input)
	rerr := codec.Read(rb, dst.UnsafePointer())
	defer rb.ExtractResourceBank().Close()
	if rerr != nil {
		return "(OReg None)"
	}
	f := dst.Elem().Field(0)
	switch key {
	case -1:
		if t, ok := f.Interface().(time.Time); ok && t.Year() == 2001 {
			return "(OReg (Some (BWrap WTime)))"
		}
		return "(OReg None)"
	case -2:
		if n, ok := f.Interface().(null.Int); ok && n.Valid {
			return "(OReg (Some (BWrap WNullInt)))"
		}
		return "(OReg None)"
	}
	if k := f.Int(); k != 0 {
		return fmt.Sprintf("(OReg (Some (BCustom %d)))", k)
	}
	return "(OReg None)"
}

func (cw *c12Worker) sregLookup(key int) string {
	ft := rtEmptyIface
	switch key {
	case -1, -2:
		return "(OSReg None)" // never looked up in the schema registry by the driver
	default:
		ft = c12PrivTypes[key]
	}
	s, err := avro.SchemaForType(reflect.New(c12Holder(ft)).Elem().Interface())
	if err != nil || s.Object == nil || len(s.Object.Fields) != 1 {
		cw.fail("concurrent-result-differs", fmt.Sprintf("SchemaForType of a holder struct: %v", err))
		return "(OSReg None)"
	}
	fs := s.Object.Fields[0].Type
	if fs.Object != nil && strings.HasPrefix(fs.Object.LogicalType, "c12-") {
		var id int64
		fmt.Sscanf(fs.Object.LogicalType, "c12-%d", &id)
		return fmt.Sprintf("(OSReg (Some %d))", id)
	}
	return "(OSReg None)"
}

// genProgram: the model steps of goroutine g in one round.  Goroutine g owns the
// private types 2g and 2g+1; everybody may look up time.Time and null.Int.
func c12GenProgram(rng *rand.Rand, g int, next *int64) []c12Step {
	n := 5 + rng.Intn(10)
	var p []c12Step
	own := func() int { return 2*g + rng.Intn(2) }
	for i := 0; i < n; i++ {
		switch r := rng.Intn(100); {
		case r < 18:
			*next++
			p = append(p, c12Step{"regset", own(), *next})
		case r < 40:
			p = append(p, c12Step{"reglookup", own(), 0})
		case r < 48:
			p = append(p, c12Step{"reglookup", -1 - rng.Intn(2), 0})
		case r < 58:
			*next++
			p = append(p, c12Step{"sregset", own(), *next})
		case r < 72:
			p = append(p, c12Step{"sreglookup", own(), 0})
		case r < 86:
			off := c12ZoneMinutes[rng.Intn(len(c12ZoneMinutes))] * 60
			if rng.Intn(2) == 0 {
				off = (rng.Intn(2*1439+1) - 1439) * 60
			}
			p = append(p, c12Step{"tz", 0, int64(off)})
		case r < 93:
			p = append(p, c12Step{"poolget", 0, 0})
		default:
			p = append(p, c12Step{"poolput", 0, 0})
		}
	}
	return p
}

func c12AssocCoq(m map[int]int64) string {
	keys := make([]int, 0, len(m))
	for k := range m {
		keys = append(keys, k)
	}
	sort.Ints(keys)
	items := make([]string, len(keys))
	for i, k := range keys {
		items[i] = cPair(cZ(int64(namedID(c12PrivTypes[k]))), cZ(m[k]))
	}
	return cList(items)
}

// ---- the child ------------------------------------------------------------------------------------------

func c12ChildMain(r *Run) {
	respPath := os.Getenv("C12_RESP")
	if respPath == "" {
		fmt.Fprintln(os.Stderr, "C12-child is the child side of C12; run ./check C12")
		return
	}
	avrotime.RegisterCodecs()
	avronull.RegisterCodecs()
	rng := r.Rng
	resp := &c12ChildResp{Counts: map[string]int{}, Race: c12Race, Extra: map[string]string{}}
	write := func() {
		b, _ := json.Marshal(resp)
		os.WriteFile(respPath, b, 0o644)
	}
	defer write()
	for _, t := range c12PrivTypes {
		namedID(t) // identities in a fixed order
	}
	w := &c12World{resp: resp, bankCh: make(chan *avro.ResourceBank, 64), locs: map[int]*time.Location{}}
	// before anything else has introduced a type to the process: new types met by several
	// goroutines at the same instant
	c12FreshTypes(w, r.N(25, 120), 8)
	c12BankChurn(w, 48, r.N(300, 3000))
	c12SharedShapes(w, r.N(60, 600))
	w.items = c12Prepare(rng, r.N(8, 26))
	if len(w.items) == 0 {
		resp.Notes = append(resp.Notes, "no pool type could be prepared")
		return
	}
	mirror := &c12Mirror{reg: map[int]int64{}, sreg: map[int]int64{}}
	var nextID int64
	rounds := r.N(12, 60)
	for round := 0; round < rounds; round++ {
		sequential := round == 0
		procs := 1 + rng.Intn(16)
		if sequential {
			procs = 1
		}
		runtime.GOMAXPROCS(procs)
		resp.Procs = append(resp.Procs, procs)
		regs0, sregs0 := c12AssocCoq(mirror.reg), c12AssocCoq(mirror.sreg)
		workers := make([]*c12Worker, c12Goroutines)
		progs := make([][]c12Step, c12Goroutines)
		for g := range workers {
			// each goroutine sees the registries through its own copy of the mirror: only its
			// own keys change under its feet
			m := &c12Mirror{reg: map[int]int64{}, sreg: map[int]int64{}}
			for k, v := range mirror.reg {
				m.reg[k] = v
			}
			for k, v := range mirror.sreg {
				m.sreg[k] = v
			}
			workers[g] = &c12Worker{w: w, round: round, g: g, rng: rand.New(rand.NewSource(rng.Int63())), mirror: m}
			progs[g] = c12GenProgram(rng, g, &nextID)
		}
		start := make(chan struct{})
		var wg sync.WaitGroup
		body := func(cw *c12Worker, prog []c12Step) {
			defer wg.Done()
			defer func() {
				if p := recover(); p != nil {
					cw.fail("concurrent-panic", fmt.Sprintf("goroutine panics: %v", p))
				}
			}()
			<-start
			for _, st := range prog {
				cw.doStep(st)
				// between the registry steps: the other kinds of work
				for k, n := 0, cw.rng.Intn(4); k < n; k++ {
					switch r := cw.rng.Intn(100); {
					case r < 30:
						cw.opDecode()
					case r < 55:
						cw.opEncode()
					case r < 70:
						cw.opBuild()
					case r < 82:
						cw.opReadFile()
					case r < 87:
						cw.opEncoderFile()
					case r < 90:
						cw.opForeignLookup()
					case r < 92:
						cw.opTzStress()
					case r < 96:
						cw.opCloseOthers()
					default:
						runtime.Gosched()
					}
				}
			}
			for _, b := range cw.held {
				cw.handOff(b)
			}
			cw.held = nil
		}
		if sequential {
			close(start)
			for g, cw := range workers {
				wg.Add(1)
				body(cw, progs[g])
			}
		} else {
			for g, cw := range workers {
				wg.Add(1)
				go body(cw, progs[g])
			}
			close(start)
			wg.Wait()
		}
		// drain the channel: whatever was not taken is closed here
		for drained := false; !drained; {
			select {
			case b := <-w.bankCh:
				b.Close()
			default:
				drained = true
			}
		}
		var progCoq []string
		for g, cw := range workers {
			resp.Steps = append(resp.Steps, c12StepsCase{Round: round, G: g, Regs: regs0, SRegs: sregs0, Steps: cList(cw.obs), Seq: sequential, N: len(cw.obs)})
			items := make([]string, len(progs[g]))
			for i, st := range progs[g] {
				items[i] = st.coq()
			}
			progCoq = append(progCoq, cList(items))
			// the registries after the round: every goroutine's own keys
			for _, k := range []int{2 * g, 2*g + 1} {
				if v, ok := cw.mirror.reg[k]; ok {
					mirror.reg[k] = v
				}
				if v, ok := cw.mirror.sreg[k]; ok {
					mirror.sreg[k] = v
				}
			}
		}
		// registry storm: every even goroutine re-registers its own private type again and
		// again and looks it up after each registration (its own program order: it must see
		// what it just registered); its odd neighbour keeps building codecs that mention that
		// very type.  Whatever the neighbour sees is legitimate; the owner's view is not negotiable.
		if !sequential && round%3 == 1 {
			var swg sync.WaitGroup
			for g := 0; g+1 < c12Goroutines; g += 2 {
				key := 2 * g
				owner := &c12Worker{w: w, round: round, g: g, rng: rand.New(rand.NewSource(rng.Int63())), mirror: mirror}
				stop := make(chan struct{})
				swg.Add(2)
				go func() {
					defer swg.Done()
					defer close(stop)
					for i := 0; i < 40; i++ {
						nextVal := int64(1000000 + round*1000 + i)
						avro.Register(c12PrivTypes[key], c12Builder(2*nextVal)) // even id: a builder that does not re-enter
						want := fmt.Sprintf("(OReg (Some (BCustom %d)))", 2*nextVal)
						if got := owner.regLookup(key); got != want {
							owner.fail("concurrent-result-differs", fmt.Sprintf("private type %d: registered builder %d, the next lookup by the same goroutine answers %s", key, 2*nextVal, got))
							return
						}
						stormFinal.Store(int64(key), 2*nextVal)
					}
				}()
				go func() {
					defer swg.Done()
					nb := &c12Worker{w: w, round: round, g: g + 1, rng: rand.New(rand.NewSource(1)), mirror: mirror}
					for {
						select {
						case <-stop:
							return
						default:
							_ = nb.regLookupQuiet(key)
						}
					}
				}()
			}
			swg.Wait()
			stormFinal.Range(func(k, v any) bool {
				mirror.reg[int(k.(int64))] = v.(int64)
				return true
			})
			resp.Counts["registry-storms"]++
		}
		// after the round, alone: every registration made during it is in force (a lookup by
		// another goroutine that overlapped it may have seen the old or the new state, but
		// nothing it did may make the registration disappear)
		{
			cw := &c12Worker{w: w, round: round, g: -1, rng: rand.New(rand.NewSource(1)), mirror: mirror}
			for k := range c12PrivTypes {
				want := mirror.expect(c12Step{Kind: "reglookup", Key: k})
				if got := cw.regLookup(k); got != want {
					cw.fail("concurrent-result-differs", fmt.Sprintf("after the round the codec registry answers %s for private type %d, the last registration says %s", got, k, want))
				}
				wantS := mirror.expect(c12Step{Kind: "sreglookup", Key: k})
				if got := cw.sregLookup(k); got != wantS {
					cw.fail("concurrent-result-differs", fmt.Sprintf("after the round the schema registry answers %s for private type %d, the last registration says %s", got, k, wantS))
				}
			}
			resp.Counts["final-registry-checks"]++
		}
		resp.Indep = append(resp.Indep, cList(progCoq))
		resp.Counts["rounds"]++
	}
	resp.Extra["items"] = fmt.Sprint(len(w.items))
	resp.Extra["zone_offsets_seen"] = fmt.Sprint(len(w.locs))
}

// ---- the parent -----------------------------------------------------------------------------------------

type c12ChildResult struct {
	resp     *c12ChildResp
	exitCode int
	stderr   string
	timedOut bool
	err      error
}

func c12RunChild(seed int64, tier string, deadline time.Duration) c12ChildResult {
	dir, err := os.MkdirTemp("", "c12child")
	if err != nil {
		return c12ChildResult{err: err}
	}
	defer os.RemoveAll(dir)
	respPath := filepath.Join(dir, "resp.json")
	cmd := exec.Command(os.Args[0], "-prop", "C12-child", "-seed", fmt.Sprint(seed), "-tier", tier, "-out", filepath.Join(dir, "out"))
	cmd.Env = append(os.Environ(), "GORACE=halt_on_error=1 exitcode=66", "C12_RESP="+respPath)
	var stderr bytes.Buffer
	cmd.Stderr = &stderr
	cmd.Stdout = &stderr
	if err := cmd.Start(); err != nil {
		return c12ChildResult{err: err}
	}
	done := make(chan error, 1)
	go func() { done <- cmd.Wait() }()
	res := c12ChildResult{}
	select {
	case werr := <-done:
		if werr != nil {
			res.exitCode = -1
			if ee, ok := werr.(*exec.ExitError); ok {
				res.exitCode = ee.ExitCode()
			}
		}
	case <-time.After(deadline):
		cmd.Process.Kill()
		<-done
		res.timedOut = true
	}
	res.stderr = stderr.String()
	if b, rerr := os.ReadFile(respPath); rerr == nil {
		var cr c12ChildResp
		if json.Unmarshal(b, &cr) == nil {
			res.resp = &cr
		}
	}
	return res
}

func c12Head(s string, n int) string {
	lines := strings.Split(s, "\n")
	if len(lines) > n {
		lines = lines[:n]
	}
	return strings.Join(lines, "\n")
}

func runC12(r *Run) {
	children := r.N(14, 40)
	if !c12Race {
		r.Notes = append(r.Notes, "this binary was built WITHOUT -race: data races are not detected in this run (./check C12 builds and runs build/impl-race)")
	}
	r.Extra["race_detector"] = c12Race
	totals := map[string]int{}
	var procs []int
	deadlocks := 0
	for c := 0; c < children; c++ {
		seed := r.Rng.Int63()
		if deadlocks >= 2 {
			r.Notes = append(r.Notes, "stopped after two scenarios that did not finish: the violation is established, further children would each cost a full deadline")
			break
		}
		// a child normally finishes in a few seconds; one that is still running after the
		// deadline is stuck (deadlock or livelock)
		deadline := 60 * time.Second
		if r.Thorough() {
			deadline = 120 * time.Second
		}
		res := c12RunChild(seed, r.Tier, deadline)
		replay := map[string]any{"child_seed": seed, "tier": r.Tier, "goroutines": c12Goroutines,
			"how": "build/impl-race -prop C12-child -seed <child_seed> -tier <tier> with GORACE='halt_on_error=1 exitcode=66' C12_RESP=<file>"}
		r.Count("children")
		switch {
		case res.err != nil:
			r.Fail(-1, "harness-child", "cannot start the child: "+res.err.Error(), replay)
			continue
		case res.timedOut:
			replay["stderr"] = c12Head(res.stderr, 40)
			deadlocks++
			r.Fail(-1, "concurrent-deadlock", fmt.Sprintf("the concurrent scenario did not finish within %v (children finish in seconds)", deadline), replay)
			continue
		case res.exitCode == 66 || strings.Contains(res.stderr, "WARNING: DATA RACE"):
			i := strings.Index(res.stderr, "WARNING: DATA RACE")
			if i < 0 {
				i = 0
			}
			replay["report"] = c12Head(res.stderr[i:], 40)
			r.Count("child/data-race")
			r.Fail(-1, "data-race", "the race detector reports a data race:\n"+c12Head(res.stderr[i:], 40), replay)
			continue
		case res.exitCode != 0 || res.resp == nil:
			replay["stderr"] = c12Head(res.stderr, 40)
			r.Count("child/died")
			r.Fail(-1, "concurrent-panic", fmt.Sprintf("the child running the concurrent scenario died (exit %d): %s", res.exitCode, c12Head(res.stderr, 12)), replay)
			continue
		}
		cr := res.resp
		r.Count("child/ok")
		for _, f := range cr.Failures {
			rp := map[string]any{"child_seed": seed, "tier": r.Tier, "round": f.Round, "goroutine": f.G, "how": replay["how"]}
			r.Fail(-1, f.Key, fmt.Sprintf("round %d goroutine %d: %s", f.Round, f.G, f.What), rp)
		}
		for k, v := range cr.Counts {
			totals[k] += v
		}
		procs = append(procs, cr.Procs...)
		for _, n := range cr.Notes {
			r.Notes = append(r.Notes, n)
		}
		for _, sc := range cr.Steps {
			kind := "concurrent"
			if sc.Seq {
				kind = "sequential"
			}
			r.Add(cApp("KSteps", sc.Regs, sc.SRegs, sc.Steps),
				map[string]any{"child_seed": seed, "round": sc.Round, "goroutine": sc.G, "run": kind, "steps": sc.Steps},
				fmt.Sprintf("steps/%d/%d/%d/%s", seed, sc.Round, sc.G, sc.Steps))
			r.Count("ksteps/" + kind)
			r.Count(fmt.Sprintf("ksteps/len/%d", bucket(sc.N)))
		}
		for i, ind := range cr.Indep {
			r.Add(cApp("KIndep", ind, "true"), map[string]any{"child_seed": seed, "round": i, "kind": "independence of the round's programs"},
				fmt.Sprintf("indep/%d/%d", seed, i))
		}
	}
	for k, v := range totals {
		r.Dist[k] += v
	}
	pc := map[int]int{}
	for _, p := range procs {
		pc[p]++
	}
	for p, n := range pc {
		r.Dist[fmt.Sprintf("gomaxprocs/%02d", p)] += n
	}
}
