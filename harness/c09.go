package main

// C09 (Encoder output is an exact, gap-free sequence of blocks for any call
// history) and C16 (write failures surface as errors and leave a clean prefix).
//
// The real avro.Encoder[T] is driven over a recording io.Writer that keeps every
// Write call as a separate chunk (C09) or fails at a chosen Write index (C16).
// Record encodings are computed here, independently of the library, from the
// Avro rules for long / string / bytes; the expected grouping comes from an
// independent few-line implementation of the abstract specification.

import (
	"bufio"
	"bytes"
	"errors"
	"fmt"
	"hash/fnv"
	"io"
	"strings"

	"github.com/philpearl/avro"
)

func init() {
	register("C09", "Avro.Corr.Writer", runC09)
	register("C16", "Avro.Corr.Writer", runC16)
}

// ---- record types whose encoded size the generator controls ----------------

type EncW0 struct{}           // encodes to zero bytes
type EncW1 struct{ S string } // varint length + bytes: 1 byte and up
type EncW2 struct {           // varint + varint length + bytes: 2 bytes and up
	A int64
	B []byte
}

// w9Wop is one call of a history.
type w9Wop struct {
	Flush bool   `json:"flush,omitempty"`
	S     []byte `json:"s,omitempty"` // EncW1.S / EncW2.B
	A     int64  `json:"a,omitempty"` // EncW2.A
}

// w9SpecRecord: the Avro encoding of the record, written from the specification.
func w9SpecRecord(kind int, o w9Wop) []byte {
	switch kind {
	case 1:
		return append(specVarint(int64(len(o.S))), o.S...)
	case 2:
		out := specVarint(o.A)
		out = append(out, specVarint(int64(len(o.S)))...)
		return append(out, o.S...)
	}
	return []byte{}
}

type w9Whist struct {
	Kind  int     `json:"type"` // 0,1,2 = EncW0, EncW1, EncW2
	Codec string  `json:"codec"`
	Size  int     `json:"block_size"`
	Ops   []w9Wop `json:"ops"`
}

func (h *w9Whist) key() string {
	f := fnv.New64a()
	fmt.Fprintf(f, "%d/%s/%d/", h.Kind, h.Codec, h.Size)
	for _, o := range h.Ops {
		if o.Flush {
			f.Write([]byte{0xff, 0})
		} else {
			f.Write([]byte{0xfe})
			f.Write(w9SpecRecord(h.Kind, o))
			f.Write([]byte{0xfd})
		}
	}
	return fmt.Sprintf("%d/%s/%d/%d/%x", h.Kind, h.Codec, h.Size, len(h.Ops), f.Sum64())
}

// ---- the io.Writer ------------------------------------------------------------

var w9ErrWriterSentinel = errors.New("verif: injected writer failure")

// w9RecWriter records every Write call as its own chunk; with failAt >= 0 the
// Write call of that index (and only that one) takes at most `partial` bytes
// and fails.  Calls issued after the failing one are accepted and counted:
// an encoder that went on writing would show up as a non-prefix.
type w9RecWriter struct {
	chunks     [][]byte
	acc        []byte
	calls      int
	failAt     int
	partial    int
	afterFault int // Write calls issued after the failing one
}

func (w *w9RecWriter) Write(p []byte) (int, error) {
	idx := w.calls
	w.calls++
	if w.failAt >= 0 && idx == w.failAt {
		n := min(w.partial, len(p))
		w.acc = append(w.acc, p[:n]...)
		return n, w9ErrWriterSentinel
	}
	if w.failAt >= 0 && idx > w.failAt {
		w.afterFault++
	}
	w.chunks = append(w.chunks, append([]byte{}, p...)) // copy: the caller reuses its buffers
	w.acc = append(w.acc, p...)
	return len(p), nil
}

// ---- driving the generic Encoder ------------------------------------------------

type w9Wenc interface {
	Encode(o w9Wop) error
	Flush() error
}

type w9WencOf[T any] struct {
	e    *avro.Encoder[T]
	conv func(o w9Wop) T
}

func (x w9WencOf[T]) Encode(o w9Wop) error { v := x.conv(o); return x.e.Encode(&v) }
func (x w9WencOf[T]) Flush() error         { return x.e.Flush() }

func w9NewWenc(kind int, w io.Writer, codec string, size int) (enc w9Wenc, err error, panicked any) {
	defer func() {
		if p := recover(); p != nil {
			panicked = p
		}
	}()
	c := avro.Compression(codec)
	switch kind {
	case 0:
		e, err := avro.NewEncoderFor[EncW0](w, c, size)
		if err != nil {
			return nil, err, nil
		}
		return w9WencOf[EncW0]{e, func(o w9Wop) EncW0 { return EncW0{} }}, nil, nil
	case 1:
		e, err := avro.NewEncoderFor[EncW1](w, c, size)
		if err != nil {
			return nil, err, nil
		}
		return w9WencOf[EncW1]{e, func(o w9Wop) EncW1 { return EncW1{S: string(o.S)} }}, nil, nil
	}
	e, err := avro.NewEncoderFor[EncW2](w, c, size)
	if err != nil {
		return nil, err, nil
	}
	return w9WencOf[EncW2]{e, func(o w9Wop) EncW2 { return EncW2{A: o.A, B: o.S} }}, nil, nil
}

func w9CallOp(e w9Wenc, o w9Wop) (err error, panicked any) {
	defer func() {
		if p := recover(); p != nil {
			panicked = p
		}
	}()
	if o.Flush {
		return e.Flush(), nil
	}
	return e.Encode(o), nil
}

// ---- the abstract specification, independently, in Go ------------------------------

type w9Wgroup struct {
	Recs    [][]byte
	ByFlush bool
	Op      int // index of the call that closed the group
}

func (g w9Wgroup) payload() []byte { return bytes.Join(g.Recs, nil) }

// w9SpecGroups: a group is closed as soon as its byte length reaches size, and at
// Flush if it is non-empty.  Returns closed groups, what is still pending, and
// per call whether it closes a group.
func w9SpecGroups(kind, size int, ops []w9Wop) (closed []w9Wgroup, pending [][]byte, closes []bool) {
	n := 0
	closes = make([]bool, len(ops))
	for i, o := range ops {
		if o.Flush {
			if len(pending) > 0 {
				closed = append(closed, w9Wgroup{pending, true, i})
				pending, n = nil, 0
				closes[i] = true
			}
			continue
		}
		rec := w9SpecRecord(kind, o)
		pending = append(pending, rec)
		n += len(rec)
		if n >= size {
			closed = append(closed, w9Wgroup{pending, false, i})
			pending, n = nil, 0
			closes[i] = true
		}
	}
	return
}

// ---- Coq printing ---------------------------------------------------------------

// w9CUB prints a byte string as (ub [x01;xff]) : a list of Init.Byte constructors,
// converted by Corr/Writer.v; far cheaper for coqc than a list of numerals.
func w9CUB(b []byte) string {
	if len(b) == 0 {
		return "[]"
	}
	var sb strings.Builder
	sb.Grow(4*len(b) + 8)
	sb.WriteString("(ub [")
	const hexd = "0123456789abcdef"
	for i, x := range b {
		if i > 0 {
			sb.WriteByte(';')
		}
		sb.WriteByte('x')
		sb.WriteByte(hexd[x>>4])
		sb.WriteByte(hexd[x&15])
	}
	sb.WriteString("])")
	return sb.String()
}

func w9COps(kind int, ops []w9Wop) string {
	items := make([]string, len(ops))
	for i, o := range ops {
		if o.Flush {
			items[i] = "OpFlush"
		} else {
			items[i] = cApp("OpEncode", w9CUB(w9SpecRecord(kind, o)))
		}
	}
	return cList(items)
}

// w9CComp: the compressor as data for the model: identity for null, else the
// table payload -> stored bytes; the stored bytes are the third Write call of
// every block, the payload is obtained with the reference decompressor.
func w9CComp(codec string, chunks [][]byte) string {
	if codec == "null" {
		return "CNull"
	}
	// the stored bytes of every block the byte stream holds (however many Write calls
	// carried them); a stream that does not parse contributes the blocks before the damage
	var stored [][]byte
	if c, err := parseContainer(bytes.Join(chunks, nil)); err == nil {
		for _, b := range c.Blocks {
			stored = append(stored, b.Raw)
		}
	} else {
		for i := 3; i < len(chunks); i += 4 {
			stored = append(stored, chunks[i])
		}
	}
	return w9CCompStored(codec, stored)
}

// w9CCompStored: the compressor table from the stored blocks themselves.
func w9CCompStored(codec string, stored [][]byte) string {
	if codec == "null" {
		return "CNull"
	}
	type pr struct{ payload, raw []byte }
	var pairs []pr
	seen := map[string]bool{}
	total := 0
	for _, raw := range stored {
		payload, err := decompressBlock(codec, raw)
		if err != nil || seen[string(payload)] {
			continue
		}
		seen[string(payload)] = true
		pairs = append(pairs, pr{payload, raw})
		total += len(payload)
	}
	// small snappy histories: the table holds only golang/snappy's own output, the checksum
	// behind it is the model's to compute (bit by bit: about a millisecond per hundred bytes)
	modelCRC := codec == "snappy" && total <= snappyModelLimit
	var items []string
	for _, p := range pairs {
		if modelCRC {
			items = append(items, cPair(w9CUB(p.payload), w9CUB(p.raw[:len(p.raw)-4])))
		} else {
			items = append(items, cPair(w9CUB(p.payload), w9CUB(p.raw)))
		}
	}
	if modelCRC {
		return cApp("CSnappy", cList(items))
	}
	return cApp("CTable", cList(items))
}

func w9CNat(n int) string { return fmt.Sprintf("%d%%nat", n) }

// ---- fault-free run + the C09 oracle ---------------------------------------------

type w9Wrun struct {
	W           *w9RecWriter
	OpChunks    []int      // chunks written (cumulative, header included) after each call
	Parsed      *Container // the whole output
	Header      *Container // what NewEncoderFor wrote
	HdrWrites   int
	ModelWrites bool // one Write for the header and four per block: the granularity the model's stateful fault run has
	Closed      []w9Wgroup
	Pending     [][]byte
	Closes      []bool
	Broken      bool // the run could not be completed (constructor error, panic, call error) or its output does not parse
	Done        bool // every call of the history returned nil
}

// w9RunFaultFree drives the history over a recording writer and evaluates the
// direct oracle of C09 on it (fail is r.Fail bound to the case, or a no-op).
func w9RunFaultFree(h *w9Whist, fail func(key, what string)) *w9Wrun {
	res := &w9Wrun{W: &w9RecWriter{failAt: -1}}
	res.Closed, res.Pending, res.Closes = w9SpecGroups(h.Kind, h.Size, h.Ops)
	enc, err, pn := w9NewWenc(h.Kind, res.W, h.Codec, h.Size)
	if pn != nil || err != nil {
		fail("constructor", fmt.Sprintf("NewEncoderFor failed on a working writer: err=%v panic=%v", err, pn))
		res.Broken = true
		return res
	}
	// how many Write calls the header takes is the model's business (Corr/Writer.v
	// expects one); the property only needs the bytes to be a header
	res.HdrWrites = len(res.W.chunks)
	if hc, err := parseContainer(res.W.acc); err == nil && len(hc.Blocks) == 0 {
		res.Header = hc
	}
	if res.Header == nil {
		fail("header", fmt.Sprintf("what NewEncoderFor wrote is not a container header: %x", res.W.acc))
		res.Broken = true
		return res
	}
	var recsSoFar [][]byte
	closedSoFar := 0
	for i, o := range h.Ops {
		before := len(res.W.acc)
		err, pn := w9CallOp(enc, o)
		if pn != nil || err != nil {
			fail("call-failed", fmt.Sprintf("call %d (%s) on a working writer: err=%v panic=%v", i, w9OpName(o), err, pn))
			res.Broken = true
			return res
		}
		wrote := len(res.W.acc) - before
		res.OpChunks = append(res.OpChunks, len(res.W.chunks))
		if !o.Flush {
			recsSoFar = append(recsSoFar, w9SpecRecord(h.Kind, o))
		}
		if res.Closes[i] {
			closedSoFar++
		}
		// a block is written by exactly the calls that close a group: at once, not earlier, not later.
		// Judged on the bytes the writer holds after the call, however many Write calls carried them.
		switch {
		case res.Closes[i] && wrote == 0:
			if o.Flush {
				fail("buffered-after-flush", fmt.Sprintf("call %d: Flush with records pending wrote nothing", i))
			} else {
				fail("early-or-late-block", fmt.Sprintf("call %d: Encode reached the block size %d but wrote nothing", i, h.Size))
			}
		case !res.Closes[i] && wrote != 0:
			if o.Flush {
				fail("empty-block", fmt.Sprintf("call %d: Flush with nothing pending wrote %d bytes", i, wrote))
			} else {
				fail("early-or-late-block", fmt.Sprintf("call %d: Encode below the block size %d wrote %d bytes", i, h.Size, wrote))
			}
		case res.Closes[i]:
			if c, err := parseContainer(res.W.acc); err != nil {
				fail("early-or-late-block", fmt.Sprintf("call %d closes a block, but what is written after it is not a whole number of blocks: %v", i, err))
			} else if len(c.Blocks) != closedSoFar {
				fail("early-or-late-block", fmt.Sprintf("call %d: %d blocks written so far, the history has closed %d", i, len(c.Blocks), closedSoFar))
			}
		}
		// after Flush returns nothing remains buffered: what is written is a complete
		// container holding every record encoded so far
		if o.Flush {
			c, err := parseContainer(res.W.acc)
			if err != nil {
				fail("buffered-after-flush", fmt.Sprintf("after Flush (call %d) the output is not a complete container: %v", i, err))
			} else {
				var total int64
				var all []byte
				for _, b := range c.Blocks {
					total += b.Count
					all = append(all, b.Payload...)
				}
				if total != int64(len(recsSoFar)) || !bytes.Equal(all, bytes.Join(recsSoFar, nil)) {
					fail("buffered-after-flush", fmt.Sprintf("after Flush (call %d) the container holds %d records / %d bytes, %d records / %d bytes were encoded (equal numbers: the bytes differ)",
						i, total, len(all), len(recsSoFar), len(bytes.Join(recsSoFar, nil))))
				}
			}
		}
	}
	res.Done = true
	// the whole output against the predicted grouping
	c, err := parseContainer(res.W.acc)
	if err != nil {
		fail("length-mismatch", fmt.Sprintf("the output does not parse as a container (framing broken): %v", err))
		res.Broken = true
		return res
	}
	res.Parsed = c
	if c.Codec != h.Codec {
		fail("header-codec", fmt.Sprintf("header names codec %q, asked for %q", c.Codec, h.Codec))
	}
	w9CompareBlocks(c, res.Closed, fail)
	res.ModelWrites = res.HdrWrites == 1 && len(res.W.chunks)-1 == 4*len(c.Blocks)
	// chunk level: count varint, length varint, stored payload, sync
	if res.ModelWrites {
		for bi := 0; bi < (len(res.W.chunks)-1)/4; bi++ {
			ch := res.W.chunks[1+4*bi : 5+4*bi]
			cnt, rest, err := readVarint(ch[0])
			if err != nil || len(rest) != 0 || (bi < len(res.Closed) && cnt != int64(len(res.Closed[bi].Recs))) {
				fail("count-mismatch", fmt.Sprintf("block %d: count field %x", bi, ch[0]))
			}
			ln, rest, err := readVarint(ch[1])
			if err != nil || len(rest) != 0 || ln != int64(len(ch[2])) {
				fail("length-mismatch", fmt.Sprintf("block %d: length field %x, stored payload has %d bytes", bi, ch[1], len(ch[2])))
			}
			if !bytes.Equal(ch[3], c.Sync[:]) {
				fail("sync-mismatch", fmt.Sprintf("block %d: sync marker %x, header has %x", bi, ch[3], c.Sync))
			}
		}
	}
	return res
}

func w9OpName(o w9Wop) string {
	if o.Flush {
		return "Flush"
	}
	return "Encode"
}

// w9CompareBlocks classifies any difference between the container's blocks and the predicted groups.
func w9CompareBlocks(c *Container, groups []w9Wgroup, fail func(key, what string)) {
	var implAll, specAll []byte
	var implN, specN int64
	for bi, b := range c.Blocks {
		if b.Count == 0 {
			fail("empty-block", fmt.Sprintf("block %d has count 0", bi))
		}
		implAll = append(implAll, b.Payload...)
		implN += b.Count
	}
	for _, g := range groups {
		specAll = append(specAll, g.payload()...)
		specN += int64(len(g.Recs))
	}
	switch {
	case implN < specN || len(implAll) < len(specAll):
		fail("lost-record", fmt.Sprintf("blocks hold %d records / %d bytes, the history closed %d records / %d bytes", implN, len(implAll), specN, len(specAll)))
		return
	case implN > specN || len(implAll) > len(specAll):
		fail("duplicate-record", fmt.Sprintf("blocks hold %d records / %d bytes, the history closed %d records / %d bytes", implN, len(implAll), specN, len(specAll)))
		return
	case !bytes.Equal(implAll, specAll):
		fail("lost-record", "the records in the blocks are not the encoded records in call order (altered or reordered)")
		return
	}
	if len(c.Blocks) != len(groups) {
		fail("early-or-late-block", fmt.Sprintf("%d blocks written, the specification closes %d groups", len(c.Blocks), len(groups)))
		return
	}
	for bi, b := range c.Blocks {
		g := groups[bi]
		if !bytes.Equal(b.Payload, g.payload()) {
			fail("early-or-late-block", fmt.Sprintf("block %d holds %d bytes, the group has %d: a record is split or moved across blocks", bi, len(b.Payload), len(g.payload())))
			return
		}
		if b.Count != int64(len(g.Recs)) {
			fail("count-mismatch", fmt.Sprintf("block %d: count %d, the group has %d records", bi, b.Count, len(g.Recs)))
		}
	}
}

// ---- generation ------------------------------------------------------------------------

var w9WBlockSizes = []int{0, 1, 7, 64, 10000}

func w9VarintLen(v int64) int { return len(specVarint(v)) }

// w9GenRecord makes a record whose encoding has (about) the wanted size.
func w9GenRecord(r *Run, kind, want int) w9Wop {
	fill := func(n int) []byte {
		if n <= 0 {
			return nil
		}
		b := make([]byte, n)
		switch r.Rng.Intn(3) {
		case 0:
			r.Rng.Read(b)
		case 1: // compressible
			x := byte(r.Rng.Intn(256))
			for i := range b {
				b[i] = x
			}
		default:
			for i := range b {
				b[i] = "abcab "[r.Rng.Intn(6)]
			}
		}
		return b
	}
	switch kind {
	case 1:
		n := want - 1
		if n >= 64 {
			n = want - 2
		}
		return w9Wop{S: fill(n)}
	case 2:
		var a int64
		switch r.Rng.Intn(4) {
		case 0:
			a = int64(r.Rng.Intn(128)) - 64 // one byte
		case 1:
			a = int64(r.Rng.Uint64() >> uint(r.Rng.Intn(64)))
		case 2:
			a = -int64(r.Rng.Uint64() >> uint(1+r.Rng.Intn(63)))
		}
		rest := want - w9VarintLen(a) - 1
		if rest >= 64 {
			rest--
		}
		return w9Wop{A: a, S: fill(rest)}
	}
	return w9Wop{}
}

func w9GenHistory(r *Run, maxOps, budget int, bigOK bool) *w9Whist {
	h := &w9Whist{Kind: 1 + r.Rng.Intn(2), Codec: codecNames[r.Rng.Intn(3)], Size: w9WBlockSizes[r.Rng.Intn(len(w9WBlockSizes))]}
	if r.Rng.Intn(5) == 0 {
		h.Kind = 0
	}
	var n int
	switch r.Rng.Intn(6) {
	case 0:
		n = r.Rng.Intn(3) // 0..2
	case 1, 2:
		n = 1 + r.Rng.Intn(min(12, maxOps))
	default:
		n = 1 + r.Rng.Intn(maxOps)
	}
	pFlush := []float64{0, 0.05, 0.2, 0.5}[r.Rng.Intn(4)]
	used := 0
	for i := 0; i < n; i++ {
		if r.Rng.Float64() < pFlush {
			h.Ops = append(h.Ops, w9Wop{Flush: true})
			if r.Rng.Intn(4) == 0 && i+1 < n { // Flush twice in a row
				h.Ops = append(h.Ops, w9Wop{Flush: true})
				i++
			}
			continue
		}
		want := 1
		bs := h.Size
		switch r.Rng.Intn(8) {
		case 0:
			want = 1
		case 1:
			want = 2 + r.Rng.Intn(3)
		case 2, 3: // around the block size
			want = bs - 2 + r.Rng.Intn(5)
		case 4: // a fraction of the block size, so that groups of several records form
			if bs > 4 {
				want = bs/4 + r.Rng.Intn(bs/4+1)
			}
		case 5:
			want = r.Rng.Intn(20)
		case 6:
			want = bs + 1 + r.Rng.Intn(bs+2) // well above
		default:
			want = 1 + r.Rng.Intn(40)
		}
		if want > 200 && (!bigOK || used+want > budget) {
			want = 1 + r.Rng.Intn(30)
		}
		if used+want > budget {
			want = 1 + r.Rng.Intn(2)
		}
		o := w9GenRecord(r, h.Kind, want)
		used += len(w9SpecRecord(h.Kind, o))
		h.Ops = append(h.Ops, o)
	}
	if r.Rng.Intn(3) == 0 {
		h.Ops = append(h.Ops, w9Wop{Flush: true})
	}
	return h
}

// w9FixedHistories: the corner cases named by the property, always run.
func w9FixedHistories() []*w9Whist {
	var hs []*w9Whist
	rec := func(n int) w9Wop { return w9Wop{S: bytes.Repeat([]byte{'a'}, n)} } // EncW1: n+1 bytes for n < 64
	for _, codec := range codecNames {
		for _, size := range w9WBlockSizes {
			// nothing at all; only flushes
			hs = append(hs, &w9Whist{Kind: 1, Codec: codec, Size: size})
			hs = append(hs, &w9Whist{Kind: 1, Codec: codec, Size: size, Ops: []w9Wop{{Flush: true}, {Flush: true}}})
			// empty-struct records: zero bytes each
			hs = append(hs, &w9Whist{Kind: 0, Codec: codec, Size: size, Ops: []w9Wop{{}, {}, {Flush: true}, {Flush: true}, {}, {}, {}, {Flush: true}, {}}})
			// one-byte records, flush in the middle and twice at the end
			hs = append(hs, &w9Whist{Kind: 1, Codec: codec, Size: size, Ops: []w9Wop{rec(0), rec(0), {Flush: true}, rec(0), rec(0), rec(0), rec(0), rec(0), rec(0), rec(0), rec(0), {Flush: true}, {Flush: true}}})
			if size >= 7 && size <= 64 {
				// exactly size-1, size, size+1 bytes; then several records adding up to exactly size
				hs = append(hs, &w9Whist{Kind: 1, Codec: codec, Size: size, Ops: []w9Wop{rec(size - 2), rec(0), rec(size - 1), rec(size), {Flush: true}, rec(size - 3), rec(0), rec(0), rec(0)}})
			}
		}
	}
	return hs
}

func w9DescribeHist(h *w9Whist) map[string]any {
	ops := make([]any, len(h.Ops))
	for i, o := range h.Ops {
		if o.Flush {
			ops[i] = "flush"
		} else {
			ops[i] = map[string]any{"a": o.A, "s": hexs(o.S), "enc_len": len(w9SpecRecord(h.Kind, o))}
		}
	}
	return map[string]any{"type": []string{"EncW0", "EncW1", "EncW2"}[h.Kind], "codec": h.Codec, "block_size": h.Size, "ops": ops}
}

func w9CountHist(r *Run, h *w9Whist, run *w9Wrun) {
	if run.Parsed != nil {
		if run.ModelWrites {
			r.Count("write-granularity/as-modelled")
		} else {
			r.Count("write-granularity/other")
		}
	}
	r.Count("codec/" + h.Codec)
	r.Count(fmt.Sprintf("block_size/%d", h.Size))
	r.Count("type/" + []string{"EncW0", "EncW1", "EncW2"}[h.Kind])
	switch n := len(h.Ops); {
	case n == 0:
		r.Count("ops/0")
	case n <= 10:
		r.Count("ops/1-10")
	case n <= 50:
		r.Count("ops/11-50")
	default:
		r.Count("ops/51+")
	}
	for i, o := range h.Ops {
		if o.Flush {
			if run.Closes[i] {
				r.Count("call/flush-pending")
			} else {
				r.Count("call/flush-nothing-pending")
			}
			continue
		}
		switch n := len(w9SpecRecord(h.Kind, o)); {
		case n == 0:
			r.Count("record/0-bytes")
		case n == 1:
			r.Count("record/1-byte")
		case n == h.Size-1:
			r.Count("record/size-1")
		case n == h.Size:
			r.Count("record/size")
		case n == h.Size+1:
			r.Count("record/size+1")
		case n > h.Size:
			r.Count("record/above-size")
		default:
			r.Count("record/below-size")
		}
	}
	for _, g := range run.Closed {
		if g.ByFlush {
			r.Count("block/closed-by-flush")
		} else if len(g.Recs) > 1 {
			r.Count("block/closed-by-size-multi-record")
		} else {
			r.Count("block/closed-by-size-one-record")
		}
	}
	if len(run.Pending) > 0 {
		r.Count("end/records-pending")
	} else {
		r.Count("end/nothing-pending")
	}
}

// ---- C09 ------------------------------------------------------------------------------

func runC09(r *Run) {
	if r.replay != nil {
		r.Notes = append(r.Notes, "replay mode: the cases are derived from the seed; re-running the generator is the replay")
		r.replay = nil
	}
	hs := w9FixedHistories()
	n := r.N(400, 3000)
	for i := 0; i < n; i++ {
		maxOps, budget := 200, r.N(2500, 8000)
		if i%3 == 0 {
			maxOps = 40
		}
		hs = append(hs, w9GenHistory(r, maxOps, budget, i%8 == 0))
	}
	// a few histories with records around the largest block size
	for i := 0; i < r.N(3, 20); i++ {
		h := &w9Whist{Kind: 1 + r.Rng.Intn(2), Codec: codecNames[i%3], Size: 10000}
		for _, want := range []int{9998 + r.Rng.Intn(5), 3, 4000 + r.Rng.Intn(100)} {
			h.Ops = append(h.Ops, w9GenRecord(r, h.Kind, want))
		}
		h.Ops = append(h.Ops, w9GenRecord(r, h.Kind, 6000), w9Wop{Flush: true})
		hs = append(hs, h)
	}
	// blocks whose stored length, or whose total length with count, length and sync marker, sits
	// just below a power of two (a writer that assembles small blocks in a fixed scratch buffer,
	// or switches paths at such a size, has its boundary there)
	pows := []int{1024, 4096, 8192}
	if r.Thorough() {
		pows = []int{256, 512, 1024, 2048, 4096, 8192, 16384, 32768, 65536}
	}
	for _, pw := range pows {
		for d := -2; d <= 24; d++ {
			h := &w9Whist{Kind: 1, Codec: "null", Size: 1 << 20}
			h.Ops = append(h.Ops, w9GenRecord(r, 1, pw-d), w9Wop{Flush: true}, w9GenRecord(r, 1, 5), w9Wop{Flush: true})
			hs = append(hs, h)
		}
	}
	c09Huge(r)
	c09TwoEncoders(r)
	c09FileWriterDirect(r, false)
	c09FileWriterInterleaved(r)
	seen := map[string]bool{}
	for _, h := range hs {
		k := h.key()
		if seen[k] {
			continue
		}
		seen[k] = true
		c09One(r, h, k)
	}
}

// c09Huge: blocks of tens of MiB — sizes at which a writer may start to split, spill or switch
// buffers — judged by the same oracle as every other history (grouping, counts, lengths, sync
// markers, nothing lost at Flush).  No model case: the history is too large to print as a
// term, and the writer's theorems do not depend on sizes.
func c09Huge(r *Run) {
	type hh struct {
		size  int
		codec string
		recs  []int
	}
	mib := 1 << 20
	plans := []hh{
		{20 * mib, "null", []int{5 * mib / 2, 5 * mib / 2, 5 * mib / 2, 5 * mib / 2, 5 * mib / 2, 5 * mib / 2, 5 * mib / 2, 5 * mib / 2, 5 * mib / 2, 700}},
		{64 * mib, "null", []int{120, 90, 300, 17*mib + 11, 50}},
		{6 * mib, codecNames[1+int(r.Seed)%2], []int{1300000, 1300000, 1300000, 1300000, 1300000, 1300000, 40}},
	}
	if r.Thorough() {
		plans = append(plans,
			hh{70 * mib, "null", []int{9 * mib, 9 * mib, 9 * mib, 9 * mib, 9 * mib, 9 * mib, 9 * mib, 9 * mib, 9 * mib, 33}},
			hh{40 * mib, codecNames[1+int(r.Seed+1)%2], []int{35 * mib, 6 * mib, 100}},
			hh{3 * mib, "null", []int{33*mib + 5, 10, 10}})
	}
	for _, p := range plans {
		h := &w9Whist{Kind: 1 + r.Rng.Intn(2), Codec: p.codec, Size: p.size}
		for _, n := range p.recs {
			h.Ops = append(h.Ops, w9GenRecord(r, h.Kind, n))
		}
		h.Ops = append(h.Ops, w9Wop{Flush: true})
		desc := map[string]any{"type": []string{"EncW0", "EncW1", "EncW2"}[h.Kind], "codec": h.Codec, "block_size": h.Size, "encoded_record_sizes_then_flush": p.recs,
			"how": "record contents from the run's generator (seed and tier reproduce them)"}
		var fails [][2]string
		run := w9RunFaultFree(h, func(k, what string) { fails = append(fails, [2]string{k, what}) })
		r.Count(fmt.Sprintf("huge/%s/%dMiB", h.Codec, p.size/mib))
		if !run.Broken {
			c09FinalFlush(h, func(k, what string) { fails = append(fails, [2]string{k, what}) })
		}
		for _, f := range fails {
			r.Fail(-1, f[0], f[1], map[string]any{"history": desc})
		}
	}
}

// c09TwoEncoders: several Encoders alive at once on one goroutine, created at different moments
// (some after another one's Flush), fed in turn.  Each writer must hold exactly what its own
// history alone gives: an encoder's pending records are its own.
func c09TwoEncoders(r *Run) {
	n := r.N(12, 120)
	for it := 0; it < n; it++ {
		ne := 2 + r.Rng.Intn(2)
		hs := make([]*w9Whist, ne)
		ws := make([]*w9RecWriter, ne)
		encs := make([]w9Wenc, ne)
		kind, size := 1+r.Rng.Intn(2), []int{0, 16, 64, 300, 10000}[r.Rng.Intn(5)]
		for e := range hs {
			hs[e] = &w9Whist{Kind: kind, Codec: codecNames[r.Rng.Intn(3)], Size: size}
			if r.Rng.Intn(2) == 0 {
				hs[e].Codec = hs[0].Codec
			}
		}
		born := 0
		start := func(e int) bool {
			ws[e] = &w9RecWriter{failAt: -1}
			enc, err, pn := w9NewWenc(kind, ws[e], hs[e].Codec, size)
			if err != nil || pn != nil {
				r.Fail(-1, "constructor", fmt.Sprintf("NewEncoderFor failed on a working writer while %d other encoders are alive: err=%v panic=%v", e, err, pn), nil)
				return false
			}
			encs[e] = enc
			return true
		}
		if !start(0) {
			continue
		}
		born = 1
		steps := 6 + r.Rng.Intn(30)
		var order []string
		ok := true
		for st := 0; st < steps && ok; st++ {
			e := r.Rng.Intn(born)
			var o w9Wop
			if r.Rng.Intn(4) == 0 {
				o = w9Wop{Flush: true}
			} else {
				o = w9GenRecord(r, kind, 1+r.Rng.Intn(40))
			}
			err, pn := w9CallOp(encs[e], o)
			hs[e].Ops = append(hs[e].Ops, o)
			order = append(order, fmt.Sprintf("%d:%s", e, w9OpName(o)))
			if err != nil || pn != nil {
				r.Fail(-1, "call-failed", fmt.Sprintf("encoder %d of %d alive, call %s: err=%v panic=%v", e, born, w9OpName(o), err, pn), map[string]any{"order": order})
				ok = false
			}
			// a further encoder is born after this call (often right after a Flush)
			if born < ne && (o.Flush || r.Rng.Intn(5) == 0) {
				if !start(born) {
					ok = false
					break
				}
				order = append(order, fmt.Sprintf("new:%d", born))
				born++
			}
		}
		if !ok {
			continue
		}
		for e := 0; e < born; e++ {
			if err, pn := w9CallOp(encs[e], w9Wop{Flush: true}); err != nil || pn != nil {
				r.Fail(-1, "call-failed", fmt.Sprintf("final Flush of encoder %d: err=%v panic=%v", e, err, pn), map[string]any{"order": order})
			}
			hs[e].Ops = append(hs[e].Ops, w9Wop{Flush: true})
		}
		r.Count(fmt.Sprintf("several-encoders/%d", born))
		for e := 0; e < born; e++ {
			closed, _, _ := w9SpecGroups(kind, size, hs[e].Ops)
			desc := map[string]any{"encoders_alive": born, "this_encoder": e, "interleaving": order, "history_of_this_encoder": w9DescribeHist(hs[e])}
			c, err := parseContainer(ws[e].acc)
			if err != nil {
				r.Fail(-1, "length-mismatch", fmt.Sprintf("with %d encoders alive, the output of encoder %d does not parse as a container: %v", born, e, err), desc)
				continue
			}
			w9CompareBlocks(c, closed, func(k, what string) {
				r.Fail(-1, k, fmt.Sprintf("with %d encoders alive, encoder %d: %s", born, e, what), desc)
			})
		}
	}
}

func c09One(r *Run, h *w9Whist, key string) {
	desc := w9DescribeHist(h)
	var fails [][2]string
	run := w9RunFaultFree(h, func(k, what string) { fails = append(fails, [2]string{k, what}) })
	w9CountHist(r, h, run)
	id := -1
	if run.Header != nil && run.Done {
		chunks := make([]string, len(run.W.chunks))
		for i, c := range run.W.chunks {
			chunks[i] = w9CUB(c)
		}
		trivial := key
		if len(h.Ops) == 0 {
			trivial = ""
		}
		id = r.Add(cApp("KRun", w9CUB(run.Header.SchemaJSON), w9CUB([]byte(run.Header.Codec)), w9CComp(h.Codec, run.W.chunks),
			cZ(int64(h.Size)), w9COps(h.Kind, h.Ops), cList(chunks)), desc, trivial)
		// every record still pending must come out with one more Flush: nothing is lost
		if !run.Broken {
			c09FinalFlush(h, func(k, what string) { fails = append(fails, [2]string{k, what}) })
		}
	}
	for _, f := range fails {
		r.Fail(id, f[0], f[1], map[string]any{"history": desc})
	}
}

// c09FinalFlush: the history followed by Flush yields a container with every record, in order.
func c09FinalFlush(h *w9Whist, fail func(key, what string)) {
	h2 := &w9Whist{Kind: h.Kind, Codec: h.Codec, Size: h.Size, Ops: append(append([]w9Wop{}, h.Ops...), w9Wop{Flush: true})}
	w := &w9RecWriter{failAt: -1}
	enc, err, pn := w9NewWenc(h2.Kind, w, h2.Codec, h2.Size)
	if err != nil || pn != nil {
		return
	}
	var recs [][]byte
	for _, o := range h2.Ops {
		if err, pn := w9CallOp(enc, o); err != nil || pn != nil {
			return // reported by the main run
		}
		if !o.Flush {
			recs = append(recs, w9SpecRecord(h.Kind, o))
		}
	}
	c, err := parseContainer(w.acc)
	if err != nil {
		fail("length-mismatch", fmt.Sprintf("history + Flush does not parse as a container: %v", err))
		return
	}
	var total int64
	var all []byte
	for _, b := range c.Blocks {
		total += b.Count
		all = append(all, b.Payload...)
	}
	switch want := bytes.Join(recs, nil); {
	case total < int64(len(recs)) || len(all) < len(want):
		fail("lost-record", fmt.Sprintf("history + Flush holds %d records / %d bytes, %d / %d were encoded", total, len(all), len(recs), len(want)))
	case total > int64(len(recs)) || len(all) > len(want):
		fail("duplicate-record", fmt.Sprintf("history + Flush holds %d records / %d bytes, %d / %d were encoded", total, len(all), len(recs), len(want)))
	case !bytes.Equal(all, want):
		fail("lost-record", "history + Flush: the records are not the encoded records in call order")
	}
}

// ---- C16 ------------------------------------------------------------------------------

// w9WithSync: the fault-free output with another sync marker substituted
// wherever the fault-free run's own (random, 16-byte) marker stands.
func w9WithSync(out []byte, ffSync, sync []byte) []byte {
	return bytes.ReplaceAll(out, ffSync, sync)
}

func runC16(r *Run) {
	if r.replay != nil {
		r.Notes = append(r.Notes, "replay mode: the cases are derived from the seed; re-running the generator is the replay")
		r.replay = nil
	}
	var hs []*w9Whist
	for _, h := range w9FixedHistories() {
		if h.Size != 10000 || h.Codec == "null" {
			hs = append(hs, h)
		}
	}
	n := r.N(45, 150)
	for i := 0; i < n; i++ {
		hs = append(hs, w9GenHistory(r, r.N(30, 80), r.N(400, 800), false))
	}
	seen := map[string]bool{}
	totalK := 0
	for _, h := range hs {
		k := h.key()
		if seen[k] {
			continue
		}
		seen[k] = true
		totalK += c16One(r, h, k)
	}
	r.Extra["fault_runs"] = totalK
	c16Probe(r)
	c16Constructor(r)
	c16Buffered(r)
	c09FileWriterDirect(r, true)
	c16RichEncoder(r)
}

// c16Buffered: the writer handed to the encoder is itself a buffering writer with a Flush
// method (a *bufio.Writer, or one that holds everything until Flush) in front of a disk that
// refuses its k-th write.  The property as stated: the library call during which the refusal
// happened returns a non-nil error wrapping the writer's error.  Judged per call; no model case
// (which library call meets the refusal depends on the buffering writer, not on the library).
type c16Disk struct {
	calls, failAt int
	refused       bool
}

func (d *c16Disk) Write(p []byte) (int, error) {
	idx := d.calls
	d.calls++
	if d.failAt >= 0 && idx >= d.failAt {
		d.refused = true
		return 0, w9ErrWriterSentinel
	}
	return len(p), nil
}

// c16Holder keeps what it is given until Flush, like a compressing or network writer.
type c16Holder struct {
	d   *c16Disk
	buf []byte
}

func (h *c16Holder) Write(p []byte) (int, error) { h.buf = append(h.buf, p...); return len(p), nil }
func (h *c16Holder) Flush() error {
	if len(h.buf) == 0 {
		return nil
	}
	_, err := h.d.Write(h.buf)
	h.buf = h.buf[:0]
	return err
}

func c16Buffered(r *Run) {
	nh := r.N(10, 60)
	for i := 0; i < nh; i++ {
		h := w9GenHistory(r, r.N(24, 60), r.N(300, 800), false)
		for _, kindW := range []int{16, 64, 512, 4096, -1} {
			mk := func(d *c16Disk) io.Writer {
				if kindW < 0 {
					return &c16Holder{d: d}
				}
				return bufio.NewWriterSize(d, kindW)
			}
			name := "bufio.Writer"
			if kindW < 0 {
				name = "writer holding its data until Flush"
			}
			run := func(failAt int) (diskWrites int, stop bool) {
				d := &c16Disk{failAt: failAt}
				desc := map[string]any{"history": w9DescribeHist(h), "writer": name, "buffer": kindW, "disk_fails_from_write": failAt}
				judge := func(call string, err error, pn any) bool {
					switch {
					case pn != nil:
						r.Fail(-1, "panic-on-write-failure", fmt.Sprintf("%s behind a %s panics: %v", call, name, pn), desc)
						return true
					case d.refused && err == nil:
						r.Fail(-1, "write-failure-unreported", fmt.Sprintf("%s returned nil although the disk behind the %s refused write %d while it ran", call, name, failAt), desc)
						return true
					case err != nil && d.refused && !errors.Is(err, w9ErrWriterSentinel):
						r.Fail(-1, "error-not-wrapped", fmt.Sprintf("%s returned %q, which does not wrap the writer's error", call, err), desc)
						return true
					}
					return d.refused || err != nil
				}
				enc, err, pn := w9NewWenc(h.Kind, mk(d), h.Codec, h.Size)
				if judge("NewEncoderFor", err, pn) || enc == nil {
					return d.calls, true
				}
				for ci, o := range h.Ops {
					err, pn := w9CallOp(enc, o)
					if judge(fmt.Sprintf("call %d (%s)", ci, w9OpName(o)), err, pn) {
						return d.calls, true
					}
				}
				return d.calls, false
			}
			total, _ := run(-1)
			r.Count(fmt.Sprintf("buffered/%d/disk-writes-%d", kindW, bucket(total)))
			step := 1
			if total > 24 {
				step = total / 24
			}
			for k := 0; k < total; k += step {
				run(k)
				r.Count("buffered/fault-runs")
			}
		}
	}
}

// c16Constructor: NewEncoderFor refuses what it cannot encode with an error, before
// anything reaches the writer, and never panics: a non-struct record type, a struct the
// schema generator refuses, a struct the codec builder refuses, an unknown compression.
type c16Chan struct {
	A int64    `json:"a"`
	C chan int `json:"c"`
}
type c16Narrow struct {
	A int64 `json:"a"`
	B int8  `json:"b"`
}
type c16Fine struct {
	A int64  `json:"a"`
	S string `json:"s"`
}

func c16Constructor(r *Run) {
	try := func(name string, f func(w io.Writer) error, wantErr bool) {
		w := &w9RecWriter{failAt: -1}
		var err error
		var pn any
		func() {
			defer func() { pn = recover() }()
			err = f(w)
		}()
		desc := map[string]any{"constructor": name}
		r.Count("constructor/" + name)
		switch {
		case pn != nil:
			r.Fail(-1, "constructor-panic", fmt.Sprintf("NewEncoderFor (%s) panics: %v", name, pn), desc)
		case wantErr && err == nil:
			r.Fail(-1, "constructor", "NewEncoderFor ("+name+") returns no error", desc)
		case wantErr && len(w.acc) > 0:
			r.Fail(-1, "constructor", fmt.Sprintf("NewEncoderFor (%s) fails after writing %d bytes", name, len(w.acc)), desc)
		case !wantErr && err != nil:
			r.Fail(-1, "constructor", "NewEncoderFor ("+name+") fails: "+err.Error(), desc)
		}
	}
	try("non-struct", func(w io.Writer) error { _, err := avro.NewEncoderFor[int64](w, avro.CompressionNull, 100); return err }, true)
	try("chan-field", func(w io.Writer) error {
		_, err := avro.NewEncoderFor[c16Chan](w, avro.CompressionNull, 100)
		return err
	}, true)
	try("int8-field", func(w io.Writer) error {
		_, err := avro.NewEncoderFor[c16Narrow](w, avro.CompressionNull, 100)
		return err
	}, true)
	try("unknown-compression", func(w io.Writer) error {
		_, err := avro.NewEncoderFor[c16Fine](w, avro.Compression("zstd"), 100)
		return err
	}, true)
	try("fine", func(w io.Writer) error {
		_, err := avro.NewEncoderFor[c16Fine](w, avro.CompressionDeflate, 100)
		return err
	}, false)
}

// c16One enumerates every Write index of the history (and one index beyond the
// last) and returns the number of fault runs.
func c16One(r *Run, h *w9Whist, key string) int {
	desc := w9DescribeHist(h)
	var fails [][2]string
	ff := w9RunFaultFree(h, func(k, what string) { fails = append(fails, [2]string{k, what}) })
	if ff.Broken || ff.Parsed == nil || len(fails) > 0 {
		for _, f := range fails {
			r.Fail(-1, f[0], "fault-free run: "+f[1], map[string]any{"history": desc})
		}
		return 0
	}
	w9CountHist(r, h, ff)
	chunks := ff.W.chunks
	nW := len(chunks)
	comp := w9CComp(h.Codec, ff.W.chunks)
	opsTerm := w9COps(h.Kind, h.Ops)
	// which call issues Write index k (k >= 1)
	callOf := func(k int) int {
		for i, c := range ff.OpChunks {
			if k < c {
				return i
			}
		}
		return -1
	}
	partials := 1
	if r.Thorough() {
		partials = 2
	}
	runs := 0
	for k := 0; k <= nW; k++ {
		for rep := 0; rep < partials; rep++ {
			clen := 0
			if k < nW {
				clen = len(chunks[k])
			}
			var partial int
			switch x := r.Rng.Intn(20); {
			case x < 6:
				partial = 0
			case x < 13 && clen > 1:
				partial = 1 + r.Rng.Intn(clen-1) // strictly inside the chunk
			case x < 17:
				partial = clen // everything taken, and still an error
			default:
				partial = clen + 1 + r.Rng.Intn(3)
			}
			if rep == 1 && clen > 1 {
				partial = 1 + r.Rng.Intn(clen-1) // strictly inside the chunk
			}
			runs++
			c16Fault(r, h, ff, desc, key, comp, opsTerm, k, partial, callOf)
		}
	}
	return runs
}

func c16Fault(r *Run, h *w9Whist, ff *w9Wrun, desc map[string]any, key, comp, opsTerm string, k, partial int, callOf func(int) int) {
	chunks := ff.W.chunks
	nW := len(chunks)
	w := &w9RecWriter{failAt: k, partial: partial}
	replay := map[string]any{"history": desc, "fail_at_write": k, "partial": partial}
	var fails [][2]string
	fail := func(key, what string) { fails = append(fails, [2]string{key, what}) }
	failed := false // some call returned an error

	switch {
	case k < nW && k < ff.HdrWrites:
		r.Count("fault/header-write")
	case k < nW:
		r.Count("fault/block-write-" + []string{"sync", "count", "length", "payload"}[k%4])
	default:
		r.Count("fault/beyond-last-write")
	}
	if k < nW {
		switch {
		case partial == 0:
			r.Count("partial/none")
		case partial < len(chunks[k]):
			r.Count("partial/inside")
		default:
			r.Count("partial/whole-chunk")
		}
	}

	checkErr := func(where string, err error, pn any, expectFail bool) {
		switch {
		case pn != nil:
			fail("fault-panic", fmt.Sprintf("%s panicked: %v", where, pn))
			failed = true
		case expectFail && err == nil:
			fail("fault-not-reported", fmt.Sprintf("%s issued the failing Write (index %d) and returned nil", where, k))
		case expectFail && !errors.Is(err, w9ErrWriterSentinel):
			fail("fault-not-wrapped", fmt.Sprintf("%s returned %q, which does not wrap the writer's error", where, err))
			failed = true
		case expectFail:
			failed = true
		case err != nil:
			fail("spurious-error", fmt.Sprintf("%s returned %q although every Write it issued succeeded", where, err))
			failed = true
		}
	}

	enc, err, pn := w9NewWenc(h.Kind, w, h.Codec, h.Size)
	checkErr("NewEncoderFor", err, pn, k < ff.HdrWrites)
	if k < ff.HdrWrites && err != nil && enc != nil {
		fail("fault-not-reported", "NewEncoderFor returned both an encoder and an error")
	}
	if err == nil && pn == nil && enc != nil {
		target := -1
		if k < nW {
			target = callOf(k)
		}
		for i, o := range h.Ops {
			err, pn := w9CallOp(enc, o)
			checkErr(fmt.Sprintf("call %d (%s)", i, w9OpName(o)), err, pn, i == target)
			if err != nil || pn != nil || i == target {
				break // the property covers the history up to the failing call
			}
		}
	}
	// the accepted bytes: a prefix of the fault-free output carrying this run's sync marker
	sync := make([]byte, 16)
	hdrLen := ff.Header.HeaderLen
	if len(w.acc) >= hdrLen {
		copy(sync, w.acc[hdrLen-16:hdrLen])
	} else if len(w.acc) > hdrLen-16 {
		copy(sync, w.acc[hdrLen-16:]) // part of the marker was accepted; the rest is unknown
	}
	want := w9WithSync(ff.W.acc, ff.Header.Sync[:], sync)
	wantLen := len(want)
	if k < nW {
		wantLen = 0
		for _, c := range chunks[:k] {
			wantLen += len(c)
		}
		wantLen += min(partial, len(chunks[k]))
	}
	if len(w.acc) > len(want) || !bytes.Equal(w.acc, want[:len(w.acc)]) {
		fail("fault-not-prefix", fmt.Sprintf("the %d accepted bytes are not a prefix of the fault-free output with the same sync marker (%d Write calls were issued after the failing one)", len(w.acc), w.afterFault))
	} else if len(w.acc) != wantLen {
		fail("fault-not-prefix", fmt.Sprintf("%d bytes accepted, the first %d Write calls and the partial one amount to %d", len(w.acc), k, wantLen))
	}
	if k >= nW && failed {
		fail("spurious-error", "no Write failed but a call returned an error")
	}

	lens := make([]string, len(chunks))
	for i, c := range chunks {
		lens[i] = w9CNat(len(c))
	}
	id := r.Add(cApp("KFault", w9CUB(ff.Header.SchemaJSON), w9CUB([]byte(ff.Header.Codec)), w9CUB(sync), comp, cZ(int64(h.Size)), opsTerm,
		cList(lens), w9CNat(k), w9CNat(partial), w9CUB(w.acc), cBool(failed)),
		map[string]any{"history_key": key, "fail_at_write": k, "partial": partial, "accepted": len(w.acc), "failed": failed, "writes_fault_free": nW},
		fmt.Sprintf("%s/k%d/p%d", key, k, partial))
	for _, f := range fails {
		r.Fail(id, f[0], f[1], replay)
	}
}

// c16Probe records, without judging it, what the encoder does when the caller
// goes on after a failed call (outside the property): the failed Flush keeps
// the buffered records, so a later Flush writes the whole block again after
// the partial one.
func c16Probe(r *Run) {
	w := &w9RecWriter{failAt: 2, partial: 0} // header, count varint, then the length varint fails
	enc, err, pn := w9NewWenc(1, w, "null", 10000)
	if err != nil || pn != nil {
		return
	}
	e1, _ := w9CallOp(enc, w9Wop{S: []byte("ab")})
	e2, _ := w9CallOp(enc, w9Wop{Flush: true})
	before := len(w.acc)
	e3, p3 := w9CallOp(enc, w9Wop{Flush: true})
	after := w.acc[before:]
	_, perr := parseContainer(w.acc)
	r.Extra["after_fault_probe"] = map[string]any{
		"history":                  "Encode(\"ab\"); Flush (the length Write fails, nothing taken); the writer works again; Flush",
		"encode_err":               fmt.Sprint(e1),
		"failed_flush_err":         fmt.Sprint(e2),
		"second_flush_err":         fmt.Sprint(e3),
		"second_flush_panic":       fmt.Sprint(p3),
		"second_flush_wrote_bytes": hexs(after),
		"output_parses_afterwards": perr == nil,
		"records_kept_after_fault": len(after) > 0,
		"remark":                   "not covered by C16: after a failed call the buffered records are kept and written again as a whole block by the next Flush, behind the partial block already in the stream",
	}
}
