package main

// Go values of the types described by GT: random generation, printing as Coq
// terms of type gval (/verif/coq/Model/GoType.v), description, and equality up
// to the identifications the library's round trip is allowed to make.

import (
	"bytes"
	"database/sql"
	"fmt"
	"math"
	"math/rand"
	"reflect"
	"sort"
	"strconv"
	"strings"
	"time"
	"unsafe"

	"github.com/unravelin/null/v5"
)

// ---- scalar generators ------------------------------------------------------

// genInt: a signed integer of the given width with the boundaries over-represented.
func genInt(rng *rand.Rand, bits int) int64 {
	if bits < 2 || bits > 64 {
		bits = 64
	}
	min := int64(-1) << (bits - 1)
	max := -(min + 1)
	switch rng.Intn(14) {
	case 0:
		return 0
	case 1:
		return 1
	case 2:
		return -1
	case 3:
		return min
	case 4:
		return max
	case 5:
		return min + 1
	case 6:
		return max - 1
	case 7:
		v := int64(rng.Intn(256) - 128)
		if v < min {
			v = min
		}
		if v > max {
			v = max
		}
		return v
	case 8: // varint group boundaries
		v := int64(1)<<(uint(7*(1+rng.Intn(9)))-1) - int64(rng.Intn(2))
		if rng.Intn(2) == 0 {
			v = -v
		}
		if v < min || v > max {
			return max
		}
		return v
	default:
		// random magnitude: keep between 1 and bits significant bits
		x := int64(rng.Uint64())
		return x >> uint(64-1-rng.Intn(bits))
	}
}

func genUint(rng *rand.Rand, bits int) uint64 {
	var max uint64 = math.MaxUint64
	if bits < 64 {
		max = uint64(1)<<uint(bits) - 1
	}
	switch rng.Intn(6) {
	case 0:
		return 0
	case 1:
		return 1
	case 2:
		return max
	default:
		return rng.Uint64() & max >> uint(rng.Intn(bits))
	}
}

var f32Specials = []uint32{
	0, 0x80000000, 0x7f800000, 0xff800000, 0x7fc00000, 0x7fa00000, 0xffc12345, 0x7f800001,
	0x00000001, 0x007fffff, 0x00800000, 0x7f7fffff, 0x3f800000, 0xbf800000, 0x80000001, 0x7fffffff,
}

var f64Specials = []uint64{
	0, 0x8000000000000000, 0x7ff0000000000000, 0xfff0000000000000, 0x7ff8000000000000,
	0x7ff4000000000000, 0xfff8000000abcdef, 0x7ff0000000000001, 0x0000000000000001,
	0x000fffffffffffff, 0x0010000000000000, 0x7fefffffffffffff, 0x3ff0000000000000,
	0xbff0000000000000, 0x8000000000000001, 0x7fffffffffffffff,
	0x47efffffe0000000, // MaxFloat32
	0x47f0000000000000, // just above MaxFloat32: overflows float32
	0x36a0000000000000, // smallest float32 subnormal
	0x3690000000000000, // half of it: rounds to zero
}

func genF32Bits(rng *rand.Rand) uint32 {
	switch rng.Intn(4) {
	case 0:
		return f32Specials[rng.Intn(len(f32Specials))]
	case 1:
		return math.Float32bits(float32(rng.NormFloat64() * 1000))
	case 2:
		return math.Float32bits(float32(rng.Intn(2001) - 1000))
	}
	return rng.Uint32()
}

func genF64Bits(rng *rand.Rand) uint64 {
	switch rng.Intn(5) {
	case 0:
		return f64Specials[rng.Intn(len(f64Specials))]
	case 1:
		return math.Float64bits(rng.NormFloat64() * 1e6)
	case 2:
		return math.Float64bits(float64(rng.Intn(2001) - 1000))
	case 3: // exactly representable as float32
		return math.Float64bits(float64(math.Float32frombits(genF32Bits(rng))))
	}
	return rng.Uint64()
}

const asciiAlphabet = "abcdefghijklmnopqrstuvwxyzABCDEFGHIJKLMNOPQRSTUVWXYZ0123456789 _-.,:\"'\\\n\t"

var utf8Samples = []string{"héllo", "✓", "日本語", "naïve ☃", "\u0000", "a\u0000b", "𝄞", "Ωmega"}

// genStrBytes: string contents; empty, ASCII, multi-byte UTF-8, invalid UTF-8, long.
// veryLongStrings: when set, one string in four is 4 KiB to 70 KiB long (the sizes at which a
// reader may stop copying and start pointing into its buffers)
var veryLongStrings = false

func genStrBytes(rng *rand.Rand) []byte {
	if veryLongStrings && rng.Intn(4) == 0 {
		n := []int{4095, 4096, 4097, 5000, 8192, 20000, 65535, 65536, 70000}[rng.Intn(9)]
		b := make([]byte, n)
		x := byte('a' + rng.Intn(26))
		for i := range b {
			b[i] = x
			if i%97 == 0 {
				b[i] = asciiAlphabet[rng.Intn(len(asciiAlphabet))]
			}
		}
		return b
	}
	switch rng.Intn(10) {
	case 0, 1:
		return []byte{}
	case 2, 3, 4:
		n := 1 + rng.Intn(10)
		b := make([]byte, n)
		for i := range b {
			b[i] = asciiAlphabet[rng.Intn(len(asciiAlphabet))]
		}
		return b
	case 5:
		return []byte(utf8Samples[rng.Intn(len(utf8Samples))])
	case 6, 7: // arbitrary bytes, usually not UTF-8
		n := 1 + rng.Intn(10)
		b := make([]byte, n)
		for i := range b {
			switch rng.Intn(4) {
			case 0:
				b[i] = []byte{0xff, 0x80, 0xc0, 0xfe, 0x00, 0xbf, 0xed, 0xf8}[rng.Intn(8)]
			default:
				b[i] = byte(rng.Intn(256))
			}
		}
		return b
	case 8: // long
		n := 200 + rng.Intn(200)
		b := make([]byte, n)
		for i := range b {
			b[i] = asciiAlphabet[rng.Intn(len(asciiAlphabet))]
		}
		if rng.Intn(3) == 0 {
			b[rng.Intn(n)] = 0xff
		}
		return b
	default:
		return []byte(strconv.Itoa(rng.Intn(100000)))
	}
}

// time range in which every zone offset below keeps the year within 1..9999
const (
	zeroTimeUnix = -62135596800
	minTimeUnix  = zeroTimeUnix + 2*86400
	maxTimeUnix  = 253402300799 - 2*86400
)

var nsSpecials = []int64{0, 0, 0, 1, 999999999, 500000000, 123000000, 120000000, 1000, 1000000, 999999000, 100, 10, 987654321}

func genTime(rng *rand.Rand) time.Time {
	r := rng.Intn(100)
	if r < 14 {
		return time.Time{}
	}
	if r < 16 { // the zero instant shown in another zone: IsZero() is still true
		return time.Time{}.In(time.FixedZone("", 60*(1+rng.Intn(14*60))))
	}
	var sec int64
	switch rng.Intn(10) {
	case 0:
		sec = []int64{0, -1, 1, minTimeUnix, maxTimeUnix, 86399, -86400, 951782400 /* 2000-02-29 */, 4107542399}[rng.Intn(9)]
	case 1, 2: // before 1970
		sec = -rng.Int63n(70 * 365 * 86400)
	case 3: // anywhere
		sec = minTimeUnix + rng.Int63n(maxTimeUnix-minTimeUnix)
	case 4: // far past
		sec = minTimeUnix + rng.Int63n(1000*365*86400)
	default: // 1970 .. 2100
		sec = rng.Int63n(130 * 365 * 86400)
	}
	var ns int64
	if rng.Intn(2) == 0 {
		ns = nsSpecials[rng.Intn(len(nsSpecials))]
	} else {
		ns = rng.Int63n(1000000000)
		if rng.Intn(3) == 0 { // trailing zeros
			p := int64(math.Pow10(1 + rng.Intn(8)))
			ns = ns / p * p
		}
	}
	t := time.Unix(sec, ns)
	if rng.Intn(2) == 0 {
		return t.UTC()
	}
	var offMin int
	switch rng.Intn(6) {
	case 0:
		offMin = 0
	case 1:
		offMin = []int{60, -60, 330, 345, -210, 14 * 60, -12 * 60, 1, -1, 23*60 + 59, -(23*60 + 59)}[rng.Intn(11)]
	default:
		offMin = rng.Intn(2*14*60+1) - 14*60
	}
	return t.In(time.FixedZone("", offMin*60))
}

// ---- random values --------------------------------------------------------------

// genValue returns a fresh addressable value of g filled at random.  Only
// unexported fields (and kinds without a meaningful content: chan, func,
// interface) are left zero.
func genValue(rng *rand.Rand, g *GT) reflect.Value {
	v := reflect.New(g.RType()).Elem()
	func() {
		defer func() { _ = recover() }()
		fillValue(rng, g, v, 0)
	}()
	return v
}

func zeroVal(g *GT) reflect.Value { return reflect.New(g.RType()).Elem() }

func collMax(depth, top int) int {
	switch {
	case depth <= 2:
		return top
	case depth <= 4:
		return 3
	}
	return 2
}

func setF32Bits(v reflect.Value, bits uint32) {
	if v.CanAddr() {
		*(*uint32)(v.Addr().UnsafePointer()) = bits
		return
	}
	v.SetFloat(float64(math.Float32frombits(bits)))
}

func setF64Bits(v reflect.Value, bits uint64) {
	if v.CanAddr() {
		*(*uint64)(v.Addr().UnsafePointer()) = bits
		return
	}
	v.SetFloat(math.Float64frombits(bits))
}

func genWrap(rng *rand.Rand, w string) any {
	valid := rng.Intn(3) != 0
	payload := valid || rng.Intn(2) == 0 // an invalid wrapper sometimes keeps a payload
	switch w {
	case "time":
		return genTime(rng)
	case "nullint":
		x := null.Int{NullInt64: sql.NullInt64{Valid: valid}}
		if payload {
			x.Int64 = genInt(rng, 64)
		}
		return x
	case "nullbool":
		x := null.Bool{NullBool: sql.NullBool{Valid: valid}}
		if payload {
			x.Bool = rng.Intn(2) == 0
		}
		return x
	case "nullfloat":
		x := null.Float{NullFloat64: sql.NullFloat64{Valid: valid}}
		if payload {
			x.Float64 = math.Float64frombits(genF64Bits(rng))
		}
		return x
	case "nullstring":
		x := null.String{NullString: sql.NullString{Valid: valid}}
		if payload {
			x.String = string(genStrBytes(rng))
		}
		return x
	case "nulltime":
		x := null.Time{NullTime: sql.NullTime{Valid: valid}}
		if payload {
			x.Time = genTime(rng)
		}
		return x
	}
	return nil
}

func fillValue(rng *rand.Rand, g *GT, v reflect.Value, depth int) {
	if g == nil || !v.CanSet() {
		return
	}
	switch g.Kind {
	case "named":
		fillValue(rng, g.Elem, v, depth)
	case "bool":
		v.SetBool(rng.Intn(2) == 0)
	case "int8", "int16", "int32", "int64", "int":
		v.SetInt(genInt(rng, intBits(g.Kind)))
	case "uint8", "uint16", "uint32", "uint64", "uint", "uintptr":
		v.SetUint(genUint(rng, intBits(g.Kind)))
	case "float32":
		setF32Bits(v, genF32Bits(rng))
	case "float64":
		setF64Bits(v, genF64Bits(rng))
	case "complex":
		v.SetComplex(complex(rng.NormFloat64(), rng.NormFloat64()))
	case "string":
		v.SetString(string(genStrBytes(rng)))
	case "slice":
		if g.isBytes() {
			switch rng.Intn(5) {
			case 0: // nil
			case 1:
				v.Set(reflect.MakeSlice(v.Type(), 0, 0))
			default:
				b := genStrBytes(rng)
				s := reflect.MakeSlice(v.Type(), len(b), len(b))
				for i := range b {
					s.Index(i).SetUint(uint64(b[i]))
				}
				v.Set(s)
			}
			return
		}
		switch rng.Intn(6) {
		case 0: // nil
		case 1:
			v.Set(reflect.MakeSlice(v.Type(), 0, rng.Intn(3)))
		default:
			n := 1 + rng.Intn(collMax(depth, 5))
			s := reflect.MakeSlice(v.Type(), n, n+rng.Intn(2))
			for i := 0; i < n; i++ {
				fillValue(rng, g.Elem, s.Index(i), depth+1)
			}
			v.Set(s)
		}
	case "array":
		for i := 0; i < v.Len(); i++ {
			fillValue(rng, g.Elem, v.Index(i), depth+1)
		}
	case "map":
		switch rng.Intn(6) {
		case 0: // nil
		case 1:
			v.Set(reflect.MakeMap(v.Type()))
		default:
			n := 1 + rng.Intn(collMax(depth, 4))
			m := reflect.MakeMapWithSize(v.Type(), n)
			for i := 0; i < n; i++ {
				k := reflect.New(v.Type().Key()).Elem()
				fillValue(rng, g.Key, k, depth+1)
				if g.Key.under().Kind == "string" && rng.Intn(3) != 0 {
					// mostly short distinct keys
					k.SetString(k.String() + strconv.Itoa(i))
				}
				e := reflect.New(v.Type().Elem()).Elem()
				fillValue(rng, g.Elem, e, depth+1)
				m.SetMapIndex(k, e)
			}
			v.Set(m)
		}
	case "ptr":
		if rng.Intn(3) == 0 {
			return
		}
		p := reflect.New(v.Type().Elem())
		fillValue(rng, g.Elem, p.Elem(), depth+1)
		v.Set(p)
	case "struct":
		for i := 0; i < v.NumField() && i < len(g.Fields); i++ {
			fillValue(rng, g.Fields[i].T, v.Field(i), depth+1)
		}
	case "wrap":
		if x := genWrap(rng, g.Wrap); x != nil {
			v.Set(reflect.ValueOf(x))
		}
	}
}

// ---- access helpers ---------------------------------------------------------------

// expose makes a value read through an unexported field usable (Interface, Set
// as source); ok=false when that is impossible (not addressable).
func expose(v reflect.Value) (reflect.Value, bool) {
	if !v.IsValid() {
		return v, false
	}
	if v.CanInterface() {
		return v, true
	}
	if v.CanAddr() {
		return reflect.NewAt(v.Type(), unsafe.Pointer(v.UnsafeAddr())).Elem(), true
	}
	return v, false
}

func f32BitsOf(v reflect.Value) uint32 {
	if v.CanAddr() {
		return *(*uint32)(v.Addr().UnsafePointer())
	}
	if v.CanInterface() {
		tmp := reflect.New(v.Type()).Elem()
		tmp.Set(v)
		return *(*uint32)(tmp.Addr().UnsafePointer())
	}
	return math.Float32bits(float32(v.Float()))
}

func f64BitsOf(v reflect.Value) uint64 {
	if v.CanAddr() {
		return *(*uint64)(v.Addr().UnsafePointer())
	}
	return math.Float64bits(v.Float())
}

func bytesOf(v reflect.Value) []byte {
	n := v.Len()
	out := make([]byte, n)
	for i := 0; i < n; i++ {
		out[i] = byte(v.Index(i).Uint())
	}
	return out
}

// wrapParts splits a null.* wrapper value into (valid, payload); for
// time.Time it returns (true, the time).
func wrapParts(w string, v reflect.Value) (valid bool, payload reflect.Value, ok bool) {
	if w == "time" {
		return true, v, true
	}
	if v.Kind() != reflect.Struct || v.NumField() != 1 {
		return false, v, false
	}
	in := v.Field(0) // sql.NullXxx{payload, Valid}
	if in.Kind() != reflect.Struct || in.NumField() != 2 {
		return false, v, false
	}
	return in.Field(1).Bool(), in.Field(0), true
}

func timeOf(v reflect.Value) (time.Time, bool) {
	e, ok := expose(v)
	if !ok {
		return time.Time{}, false
	}
	t, ok := e.Interface().(time.Time)
	return t, ok
}

// ---- Coq printer ----------------------------------------------------------------------

func coqTime(t time.Time) string {
	_, off := t.Zone()
	if t.IsZero() && off == 0 {
		return "(VTime (TV (-62135596800) 0 0))"
	}
	return cApp("VTime", cApp("TV", cZ(t.Unix()), cZ(int64(t.Nanosecond())), cZ(int64(off))))
}

// coqVal prints v (a value of type g) as a gval term.
func coqVal(g *GT, v reflect.Value) (out string) {
	defer func() {
		if p := recover(); p != nil {
			out = "VBad"
		}
	}()
	return coqValRec(g, v)
}

func coqValRec(g *GT, v reflect.Value) string {
	if g == nil || !v.IsValid() {
		return "VBad"
	}
	switch g.Kind {
	case "named":
		return coqValRec(g.Elem, v)
	case "bool":
		if raw, ok := rawBool(v); ok && raw > 1 {
			return "VBad" // the byte behind a Go bool is 0 or 1; anything else is not a value of the type
		}
		return cApp("VBool", cBool(v.Bool()))
	case "int8", "int16", "int32", "int64", "int":
		return cApp("VInt", cZ(v.Int()))
	case "uint8", "uint16", "uint32", "uint64", "uint", "uintptr":
		// outside the library's domain; zero_of gives (VInt 0) for every TInt
		return cApp("VInt", cU(v.Uint()))
	case "float32":
		return cApp("VF32", cU(uint64(f32BitsOf(v))))
	case "float64":
		return cApp("VF64", cU(f64BitsOf(v)))
	case "string":
		return cApp("VStr", cBytes([]byte(v.String())))
	case "slice":
		if g.isBytes() {
			return cApp("VBytes", cBytes(bytesOf(v)))
		}
		items := make([]string, v.Len())
		for i := range items {
			items[i] = coqValRec(g.Elem, v.Index(i))
		}
		return cApp("VSlice", cList(items))
	case "array":
		if g.Elem.isU8() {
			return cApp("VFixed", cBytes(bytesOf(v)))
		}
		return "VBad"
	case "map":
		if v.IsNil() {
			return "VMapNil"
		}
		if g.Key.under().Kind != "string" {
			return "VBad"
		}
		type kv struct {
			k []byte
			v string
		}
		kvs := make([]kv, 0, v.Len())
		it := v.MapRange()
		for it.Next() {
			kvs = append(kvs, kv{[]byte(it.Key().String()), coqValRec(g.Elem, it.Value())})
		}
		sort.Slice(kvs, func(i, j int) bool { return bytes.Compare(kvs[i].k, kvs[j].k) < 0 })
		items := make([]string, len(kvs))
		for i, e := range kvs {
			items[i] = cPair(cBytes(e.k), e.v)
		}
		return cApp("VMap", cList(items))
	case "ptr":
		if v.IsNil() {
			return "(VPtr None)"
		}
		return cApp("VPtr", cApp("Some", coqValRec(g.Elem, v.Elem())))
	case "struct":
		items := make([]string, len(g.Fields))
		for i, f := range g.Fields {
			if i >= v.NumField() {
				items[i] = "VBad"
				continue
			}
			fv, ok := expose(v.Field(i))
			if !ok {
				fv = reflect.Zero(v.Field(i).Type())
			}
			items[i] = coqValRec(f.T, fv)
		}
		return cApp("VStruct", cList(items))
	case "wrap":
		e, ok := expose(v)
		if !ok {
			e = reflect.Zero(v.Type())
		}
		if g.Wrap == "time" {
			t, _ := timeOf(e)
			return coqTime(t)
		}
		valid, payload, ok := wrapParts(g.Wrap, e)
		if !ok {
			return "VBad"
		}
		var p string
		switch g.Wrap {
		case "nullint":
			p = cApp("VInt", cZ(payload.Int()))
		case "nullbool":
			p = cApp("VBool", cBool(payload.Bool()))
			if raw, ok := rawBool(payload); ok && raw > 1 {
				p = "VBad"
			}
			if in := e.Field(0); in.Kind() == reflect.Struct && in.NumField() == 2 {
				if raw, ok := rawBool(in.Field(1)); ok && raw > 1 {
					p = "VBad" // the Valid flag
				}
			}
		case "nullfloat":
			p = cApp("VF64", cU(f64BitsOf(payload)))
		case "nullstring":
			p = cApp("VStr", cBytes([]byte(payload.String())))
		case "nulltime":
			t, _ := timeOf(payload)
			p = coqTime(t)
		default:
			return "VBad"
		}
		return cApp("VNullW", cBool(valid), p)
	}
	return "VBad"
}

// ---- description ------------------------------------------------------------------------

// descVal: a compact deterministic description (no addresses), at most 300 characters.
func descVal(g *GT, v reflect.Value) any {
	var sb strings.Builder
	func() {
		defer func() {
			if p := recover(); p != nil {
				sb.WriteString("<?>")
			}
		}()
		descRec(&sb, g, v)
	}()
	s := sb.String()
	if len(s) > 300 {
		s = s[:297] + "..."
	}
	return s
}

func descRec(sb *strings.Builder, g *GT, v reflect.Value) {
	if sb.Len() > 320 {
		return
	}
	if g == nil || !v.IsValid() {
		sb.WriteString("?")
		return
	}
	switch g.Kind {
	case "named":
		descRec(sb, g.Elem, v)
	case "bool":
		fmt.Fprintf(sb, "%v", v.Bool())
	case "int8", "int16", "int32", "int64", "int":
		fmt.Fprintf(sb, "%d", v.Int())
	case "uint8", "uint16", "uint32", "uint64", "uint", "uintptr":
		fmt.Fprintf(sb, "%d", v.Uint())
	case "float32":
		fmt.Fprintf(sb, "f32:%#x", f32BitsOf(v))
	case "float64":
		fmt.Fprintf(sb, "f64:%#x", f64BitsOf(v))
	case "string":
		s := v.String()
		if len(s) > 24 {
			fmt.Fprintf(sb, "%q..(%d)", s[:16], len(s))
		} else {
			fmt.Fprintf(sb, "%q", s)
		}
	case "slice", "array":
		if g.Kind == "slice" && v.IsNil() {
			sb.WriteString("nil")
			return
		}
		if g.Elem.isU8() {
			b := bytesOf(v)
			if len(b) > 16 {
				fmt.Fprintf(sb, "x%x..(%d)", b[:12], len(b))
			} else {
				fmt.Fprintf(sb, "x%x", b)
			}
			return
		}
		sb.WriteByte('[')
		for i := 0; i < v.Len(); i++ {
			if i > 0 {
				sb.WriteByte(' ')
			}
			descRec(sb, g.Elem, v.Index(i))
		}
		sb.WriteByte(']')
	case "map":
		if v.IsNil() {
			sb.WriteString("nil")
			return
		}
		keys := v.MapKeys()
		sort.Slice(keys, func(i, j int) bool { return fmt.Sprint(keys[i]) < fmt.Sprint(keys[j]) })
		sb.WriteString("map[")
		for i, k := range keys {
			if i > 0 {
				sb.WriteByte(' ')
			}
			descRec(sb, g.Key, k)
			sb.WriteByte(':')
			descRec(sb, g.Elem, v.MapIndex(k))
		}
		sb.WriteByte(']')
	case "ptr":
		if v.IsNil() {
			sb.WriteString("nil")
			return
		}
		sb.WriteByte('&')
		descRec(sb, g.Elem, v.Elem())
	case "struct":
		sb.WriteByte('{')
		for i, f := range g.Fields {
			if i >= v.NumField() {
				break
			}
			if i > 0 {
				sb.WriteByte(' ')
			}
			sb.WriteString(f.Name)
			sb.WriteByte(':')
			fv, ok := expose(v.Field(i))
			if !ok {
				sb.WriteString("_")
				continue
			}
			descRec(sb, f.T, fv)
		}
		sb.WriteByte('}')
	case "wrap":
		e, ok := expose(v)
		if !ok {
			sb.WriteString("_")
			return
		}
		if g.Wrap == "time" {
			t, _ := timeOf(e)
			sb.WriteString(descTime(t))
			return
		}
		valid, payload, ok := wrapParts(g.Wrap, e)
		if !ok {
			sb.WriteString("?")
			return
		}
		if valid {
			sb.WriteString("valid(")
		} else {
			sb.WriteString("invalid(")
		}
		switch g.Wrap {
		case "nullint":
			descRec(sb, mkGT("int64"), payload)
		case "nullbool":
			descRec(sb, mkGT("bool"), payload)
		case "nullfloat":
			descRec(sb, mkGT("float64"), payload)
		case "nullstring":
			descRec(sb, mkGT("string"), payload)
		case "nulltime":
			t, _ := timeOf(payload)
			sb.WriteString(descTime(t))
		}
		sb.WriteByte(')')
	default:
		sb.WriteString("<" + g.Kind + ">")
	}
}

func descTime(t time.Time) string {
	_, off := t.Zone()
	return fmt.Sprintf("T(%d,%d,%d)", t.Unix(), t.Nanosecond(), off)
}

// ---- equality up to the allowed identifications ---------------------------------------------

// normEq compares two values of type g: nil and empty slices / maps / []byte
// are the same, floats are compared by bits except that all NaNs are equal,
// times are equal when they denote the same instant with the same zone offset
// (two zero times are equal), invalid null.* wrappers are equal whatever their
// payload, nil and non-nil pointers differ.  It returns the path of the first
// difference.
func normEq(g *GT, a, b reflect.Value) (eq bool, where string) {
	defer func() {
		if p := recover(); p != nil {
			eq, where = false, fmt.Sprintf("panic: %v", p)
		}
	}()
	w := normEqRec(g, a, b, "")
	return w == "", w
}

func timeEq(x, y time.Time) bool {
	if x.IsZero() && y.IsZero() {
		return true
	}
	_, ox := x.Zone()
	_, oy := y.Zone()
	return x.Equal(y) && ox == oy
}

func diffAt(path, what string) string {
	if path == "" {
		path = "."
	}
	return path + ": " + what
}

func normEqRec(g *GT, a, b reflect.Value, path string) string {
	if g == nil {
		return ""
	}
	if !a.IsValid() || !b.IsValid() {
		if a.IsValid() != b.IsValid() {
			return diffAt(path, "invalid value")
		}
		return ""
	}
	switch g.Kind {
	case "named":
		return normEqRec(g.Elem, a, b, path)
	case "bool":
		ra, oka := rawBool(a)
		rb, okb := rawBool(b)
		if a.Bool() != b.Bool() || (oka && ra > 1) || (okb && rb > 1) {
			return diffAt(path, fmt.Sprintf("%v (byte %#x) != %v (byte %#x)", a.Bool(), ra, b.Bool(), rb))
		}
	case "int8", "int16", "int32", "int64", "int":
		if a.Int() != b.Int() {
			return diffAt(path, fmt.Sprintf("%d != %d", a.Int(), b.Int()))
		}
	case "uint8", "uint16", "uint32", "uint64", "uint", "uintptr":
		if a.Uint() != b.Uint() {
			return diffAt(path, fmt.Sprintf("%d != %d", a.Uint(), b.Uint()))
		}
	case "float32":
		x, y := f32BitsOf(a), f32BitsOf(b)
		fx, fy := math.Float32frombits(x), math.Float32frombits(y)
		if x != y && !(fx != fx && fy != fy) {
			return diffAt(path, fmt.Sprintf("f32 %#x != %#x", x, y))
		}
	case "float64":
		x, y := f64BitsOf(a), f64BitsOf(b)
		if x != y && !(math.IsNaN(math.Float64frombits(x)) && math.IsNaN(math.Float64frombits(y))) {
			return diffAt(path, fmt.Sprintf("f64 %#x != %#x", x, y))
		}
	case "complex":
		if a.Complex() != b.Complex() {
			return diffAt(path, "complex differs")
		}
	case "string":
		if a.String() != b.String() {
			return diffAt(path, fmt.Sprintf("%q != %q", trunc(a.String()), trunc(b.String())))
		}
	case "slice", "array":
		if a.Len() != b.Len() {
			return diffAt(path, fmt.Sprintf("len %d != %d", a.Len(), b.Len()))
		}
		if g.Elem.isU8() {
			if !bytes.Equal(bytesOf(a), bytesOf(b)) {
				return diffAt(path, fmt.Sprintf("bytes %x != %x", bytesOf(a), bytesOf(b)))
			}
			return ""
		}
		for i := 0; i < a.Len(); i++ {
			if w := normEqRec(g.Elem, a.Index(i), b.Index(i), fmt.Sprintf("%s[%d]", path, i)); w != "" {
				return w
			}
		}
	case "map":
		if a.Len() != b.Len() {
			return diffAt(path, fmt.Sprintf("map len %d != %d", a.Len(), b.Len()))
		}
		keys := a.MapKeys()
		sort.Slice(keys, func(i, j int) bool { return fmt.Sprint(keys[i]) < fmt.Sprint(keys[j]) })
		for _, k := range keys {
			bv := b.MapIndex(k)
			if !bv.IsValid() {
				return diffAt(path, fmt.Sprintf("key %q missing", trunc(fmt.Sprint(k))))
			}
			if w := normEqRec(g.Elem, a.MapIndex(k), bv, fmt.Sprintf("%s[%q]", path, trunc(fmt.Sprint(k)))); w != "" {
				return w
			}
		}
	case "ptr":
		if a.IsNil() != b.IsNil() {
			return diffAt(path, fmt.Sprintf("nil %v != %v", a.IsNil(), b.IsNil()))
		}
		if !a.IsNil() {
			return normEqRec(g.Elem, a.Elem(), b.Elem(), path+"*")
		}
	case "struct":
		for i, f := range g.Fields {
			if i >= a.NumField() || i >= b.NumField() {
				break
			}
			fa, oka := expose(a.Field(i))
			fb, okb := expose(b.Field(i))
			if !oka || !okb {
				continue
			}
			if w := normEqRec(f.T, fa, fb, path+"."+f.Name); w != "" {
				return w
			}
		}
	case "wrap":
		ea, oka := expose(a)
		eb, okb := expose(b)
		if !oka || !okb {
			return ""
		}
		if g.Wrap == "time" {
			x, _ := timeOf(ea)
			y, _ := timeOf(eb)
			if !timeEq(x, y) {
				return diffAt(path, fmt.Sprintf("time %s != %s", descTime(x), descTime(y)))
			}
			return ""
		}
		va, pa, ok1 := wrapParts(g.Wrap, ea)
		vb, pb, ok2 := wrapParts(g.Wrap, eb)
		if !ok1 || !ok2 {
			return diffAt(path, "not a wrapper")
		}
		if va != vb {
			return diffAt(path, fmt.Sprintf("valid %v != %v", va, vb))
		}
		if !va {
			return ""
		}
		var pg *GT
		switch g.Wrap {
		case "nullint":
			pg = mkGT("int64")
		case "nullbool":
			pg = mkGT("bool")
		case "nullfloat":
			pg = mkGT("float64")
		case "nullstring":
			pg = mkGT("string")
		case "nulltime":
			pg = &GT{Kind: "wrap", Wrap: "time"}
		}
		return normEqRec(pg, pa, pb, path+".payload")
	}
	return ""
}

// zeroExcluded clears, in place, every struct field the library leaves out of
// the record (unexported, json:"-", bq:"-"): such fields are neither written
// nor read, so a round trip returns them zero.  v must be settable.
func zeroExcluded(g *GT, v reflect.Value) {
	defer func() { _ = recover() }()
	zeroExcludedRec(g, v)
}

func zeroExcludedRec(g *GT, v reflect.Value) {
	g = g.under()
	if g == nil || !v.IsValid() {
		return
	}
	switch g.Kind {
	case "struct":
		for i, f := range g.Fields {
			if i >= v.NumField() {
				break
			}
			fv, ok := expose(v.Field(i))
			if !ok || !fv.CanSet() {
				continue
			}
			if fieldName(f) == "-" {
				fv.Set(reflect.Zero(fv.Type()))
				continue
			}
			zeroExcludedRec(f.T, fv)
		}
	case "ptr":
		if !v.IsNil() {
			zeroExcludedRec(g.Elem, v.Elem())
		}
	case "slice", "array":
		if g.Elem.isU8() {
			return
		}
		for i := 0; i < v.Len(); i++ {
			zeroExcludedRec(g.Elem, v.Index(i))
		}
	case "map":
		if !g.Elem.contains(func(x *GT) bool { return x.Kind == "struct" }) {
			return
		}
		it := v.MapRange()
		for it.Next() {
			e := reflect.New(v.Type().Elem()).Elem()
			e.Set(it.Value())
			zeroExcludedRec(g.Elem, e)
			v.SetMapIndex(it.Key(), e)
		}
	}
}

func trunc(s string) string {
	if len(s) > 40 {
		return s[:40] + "..."
	}
	return s
}

// rawBool: the byte stored behind a bool that lives in addressable memory.
func rawBool(v reflect.Value) (byte, bool) {
	if v.Kind() != reflect.Bool || !v.CanAddr() {
		return 0, false
	}
	return *(*byte)(v.Addr().UnsafePointer()), true
}
