package main

import (
	"bytes"
	"fmt"
	"reflect"
	"unsafe"

	"github.com/philpearl/avro"
)

func init() {
	register("C03", "Avro.Corr.Codec", func(r *Run) { runReaderProps(r, "C03") })
	register("C04", "Avro.Corr.Codec", func(r *Run) { runReaderProps(r, "C04") })
}

func copyVal(v reflect.Value) reflect.Value {
	// deep copy through reflection is not needed: the decoded value lives in memory the
	// harness owns (fresh ReadBuf per case); keep the value itself.
	return v
}

// emptyTarget: a struct with no field matching the schema.
func emptyTarget() *GT {
	return &GT{Kind: "struct", Fields: []GF{{Name: "F0", Exported: true, JSON: "no_such_field_anywhere", T: mkGT("int64")}}}
}

// runReaderProps drives C03 (reader completeness on every legal encoding) and
// C04 (projection / skip exactness).  Both use spec-side generated (schema,
// datum, writer choices) triples encoded by the harness's own spec encoder.
func runReaderProps(r *Run, prop string) {
	if prop == "C03" {
		bigRegularBlock(r)
		bigArrayBlocks(r)
		c03NamedTargets(r)
		c03SlotReuse(r)
		c03HugeSchema(r)
	} else {
		c04Aliases(r)
		c04WrapperSkips(r)
	}
	c03WideUnion(r)
	n := r.N(260, 6000)
	fam := readerFamily()
	for i := 0; i < n; i++ {
		s := genSchema(r.Rng, SchemaGenCfg{MaxDepth: 1 + r.Rng.Intn(4)})
		d := genDatum(r.Rng, s)
		table := i >= len(fam) && i%5 == 4
		if table {
			// a flat table row: scalar / string / bytes / fixed columns, half of them nullable
			s = genTableSchema(r.Rng, fmt.Sprintf("Tbl%d", i))
			d = genDatum(r.Rng, s)
			r.Count("table-row")
		}
		if i < len(fam) {
			// fixed shapes first: collections of zero-width items with counts above the
			// bytes that follow, long map keys, values at varint length boundaries
			s, d = fam[i].s, fam[i].d
			r.Count("family")
		}
		ch := genChoice(r.Rng, s, d)
		if i < len(fam) && i%2 == 0 {
			ch = &Choice{} // one unsized block per collection
		}
		enc := encodeDatum(s, d, ch)
		tail := make([]byte, r.Rng.Intn(3))
		r.Rng.Read(tail)
		bs := append(append([]byte{}, enc...), tail...)
		desc := map[string]any{"schema": schemaJSON(s), "datum": coqDatum(d), "choice": coqChoice(ch), "bytes": hexs(bs), "tail": len(tail)}

		// the generator itself is validated against the model's spec_encode / reference decoder
		r.Add(cApp("KSpecEnc", coqSchema(s), coqDatum(d), coqChoice(ch), cBytes(enc)), desc, fmt.Sprintf("enc/%x", enc))
		r.Count(fmt.Sprintf("enc-len/%d", bucket(len(enc))))

		// table rows: in half of the cases the target is the plain struct (numbers for nullable numbers)
		compatPlain = table && r.Rng.Intn(2) == 0
		targets := []*GT{compatTarget(r.Rng, s)}
		compatPlain = false
		if prop == "C04" {
			targets = append(targets, compatTarget(r.Rng, s), emptyTarget())
			// and a sparse projection: about every second field left out
			compatDropOneIn = 2
			targets = append(targets, compatTarget(r.Rng, s))
			compatDropOneIn = 7
		}
		for ti, g := range targets {
			tdesc := map[string]any{"schema": desc["schema"], "datum": desc["datum"], "choice": desc["choice"], "bytes": desc["bytes"], "target": g.Coq()}
			c, err := schemaCodec(s, g)
			if err != nil {
				id := r.Add(cApp("KBuild", coqSchema(s), g.Coq(), "false"), tdesc, "")
				r.Fail(id, "compat-build", fmt.Sprintf("Schema.Codec refuses a compatible target: %v", err), tdesc)
				continue
			}
			got := implRead(c, g, bs)
			id := r.Add(cApp("KRead", coqSchema(s), g.Coq(), cBytes(bs), got.coq()), tdesc, fmt.Sprintf("read/%x/%s", enc, g.Coq()))
			want, fits := convDatum(s, g, d)
			r.Count("read/" + got.Class)
			switch {
			case got.Class == "panic":
				r.Fail(id, classifyReadPanic(s, g), "decoding a legal encoding panics: "+got.Msg, tdesc)
			case fits && got.Class != "ok":
				r.Fail(id, "legal-rejected", "legal encoding rejected: "+got.Msg, tdesc)
			case fits:
				if eq, where := normEq(g, want, got.Val); !eq {
					r.Fail(id, classifyMismatch(g, where), "decoded value differs from the datum at "+where, tdesc)
				} else if got.Rem != len(tail) {
					r.Fail(id, "wrong-consumption", fmt.Sprintf("reader left %d bytes, the encoding ends %d before the end", got.Rem, len(tail)), tdesc)
				}
			case !fits && got.Class == "ok":
				r.Fail(id, "silently-truncated", "a value that does not fit the target field was accepted", tdesc)
			}
			// skipping the whole record consumes exactly the same bytes
			if ti == 0 || prop == "C04" {
				sk := implSkip(c, bs)
				ids := r.Add(cApp("KSkip", coqSchema(s), g.Coq(), cBytes(bs), sk.coq()), tdesc, fmt.Sprintf("skip/%x/%d", enc, ti))
				if sk.Class != "ok" || sk.Rem != len(tail) {
					r.Fail(ids, "skip-differs", fmt.Sprintf("Skip = %+v, the encoding leaves %d", sk, len(tail)), tdesc)
				}
			}
		}
		// file level: the same datum repeated as records of a container, any partition, any codec
		if i%4 == 0 || table {
			readerFileCase(r, s, d, ch, targets[0])
		}
	}
}

func bucket(n int) int {
	b := 1
	for b < n {
		b *= 4
	}
	return b
}

func classifyReadPanic(s avro.Schema, g *GT) string {
	if nilNewMapValue(s, g) {
		return "map-value-new-nil"
	}
	return "read-panic"
}

func classifyMismatch(g *GT, where string) string {
	if g.contains(func(x *GT) bool { return x.Kind == "int16" }) {
		return "int16-field"
	}
	return "value-mismatch"
}

// readerFileCase: C03 at file level.  The oracle is convDatum; the container is
// written by the harness's spec writer.
func readerFileCase(r *Run, s avro.Schema, d *Datum, ch *Choice, g *GT) {
	nrec := 1 + r.Rng.Intn(6)
	// one file in six is highly repetitive: hundreds of copies of one record in a block
	// (a legal file whose blocks compress a hundredfold and more)
	repetitive := r.Rng.Intn(6) == 0
	if repetitive {
		nrec = 300 + r.Rng.Intn(1500)
		r.Count("file/repetitive")
	}
	// in half of the reads the callback follows the documented pattern: use the record, then close its bank
	closeEach := r.Rng.Intn(2) == 0
	var recs [][]byte
	var datums []*Datum
	for k := 0; k < nrec; k++ {
		dk, chk := d, ch
		if k > 0 && !repetitive {
			dk = genDatum(r.Rng, s)
			chk = genChoice(r.Rng, s, dk)
		}
		datums = append(datums, dk)
		recs = append(recs, encodeDatum(s, dk, chk))
	}
	codec := codecNames[r.Rng.Intn(3)]
	ct := &Container{SchemaJSON: []byte(schemaJSON(s)), Codec: codec, Sync: randSync(r.Rng)}
	if codec == "null" && r.Rng.Intn(3) == 0 {
		ct.Codec = "" // no avro.codec entry means uncompressed
	}
	for k := 0; k < nrec; {
		m := 1 + r.Rng.Intn(nrec-k)
		if repetitive && k == 0 {
			m = nrec - r.Rng.Intn(3)
		}
		if r.Rng.Intn(5) == 0 {
			m = 0 // an empty block is legal
		}
		var payload []byte
		for _, rec := range recs[k : k+m] {
			payload = append(payload, rec...)
		}
		ct.Blocks = append(ct.Blocks, CBlock{Count: int64(m), Payload: payload})
		k += m
	}
	file := ct.Bytes(r.Rng.Intn(4) == 0)
	desc := map[string]any{"kind": "file", "schema": schemaJSON(s), "codec": ct.Codec, "blocks": len(ct.Blocks), "records": nrec, "file": hexs(file), "target": g.Coq(),
		"callback_closes_bank": closeEach}
	allFit := true
	var wants []reflect.Value
	for _, dk := range datums {
		w, fits := convDatum(s, g, dk)
		allFit = allFit && fits
		wants = append(wants, w)
	}
	var got []reflect.Value
	var err error
	earlyDiff := ""
	func() {
		defer func() {
			if p := recover(); p != nil {
				err = fmt.Errorf("PANIC: %v", p)
			}
		}()
		var out any = reflect.New(g.RType()).Elem().Interface()
		if repetitive || len(file)%2 == 0 {
			// a pointer to the caller's own struct, still holding what an earlier use left there
			dst := reflect.New(g.RType())
			if allFit && len(wants) > 0 {
				dst.Elem().Set(wants[len(wants)-1])
			}
			out = dst.Interface()
		}
		err = avro.ReadFile(bytes.NewReader(file), out, func(val unsafe.Pointer, rb *avro.ResourceBank) error {
			v := reflect.New(g.RType()).Elem()
			v.Set(reflect.NewAt(g.RType(), val).Elem())
			got = append(got, v)
			if closeEach {
				// compare while the bank is open, then hand it back (a later record reuses it)
				k := len(got) - 1
				if allFit && k < len(wants) && earlyDiff == "" {
					if eq, where := normEq(g, wants[k], v); !eq {
						earlyDiff = fmt.Sprintf("record %d differs at %s", k, where)
					}
				}
				rb.Close()
			}
			return nil
		})
	}()
	r.Count("file/" + ct.Codec)
	switch {
	case isPanicErr(err):
		r.Fail(-1, classifyFilePanic(s, g, ct), "ReadFile panics on a legal file: "+err.Error(), desc)
	case allFit && err != nil:
		r.Fail(-1, "legal-file-rejected", "ReadFile rejects a legal file: "+err.Error(), desc)
	case allFit:
		if len(got) != len(wants) {
			r.Fail(-1, "file-record-count", fmt.Sprintf("ReadFile delivered %d records, the file holds %d", len(got), len(wants)), desc)
			return
		}
		if closeEach {
			if earlyDiff != "" {
				r.Fail(-1, "file-record-differs", earlyDiff+" (the callback closes each record's bank after use)", desc)
			}
			return
		}
		for k := range wants {
			if eq, where := normEq(g, wants[k], got[k]); !eq {
				r.Fail(-1, classifyMismatch(g, where), fmt.Sprintf("record %d differs at %s", k, where), desc)
				return
			}
		}
	case !allFit && err == nil:
		r.Fail(-1, "silently-truncated", "ReadFile accepted a value that does not fit its field", desc)
	}
}

func classifyFilePanic(s avro.Schema, g *GT, ct *Container) string {
	if ct.Codec == "" {
		return "missing-codec-entry"
	}
	if nilNewMapValue(s, g) {
		return "map-value-new-nil"
	}
	return "readfile-panic"
}

type famCase struct {
	s avro.Schema
	d *Datum
}

// readerFamily: record{z: <collection>, tail: long} for collections whose skipping has
// its own code paths.  Targets are chosen by compatTarget as for every other case, which
// drops fields at random; emptyTarget (C04) skips everything.
func readerFamily() []famCase {
	rec := func(name string, fields ...avro.SchemaRecordField) avro.Schema {
		return avro.Schema{Type: "record", Object: &avro.SchemaObject{Name: name, Fields: fields}}
	}
	arr := func(it avro.Schema) avro.Schema {
		return avro.Schema{Type: "array", Object: &avro.SchemaObject{Items: it}}
	}
	mp := func(v avro.Schema) avro.Schema {
		return avro.Schema{Type: "map", Object: &avro.SchemaObject{Values: v}}
	}
	long := func(v int64) *Datum { return &Datum{K: "long", I: v} }
	var out []famCase
	empty := rec("Empty")
	for _, n := range []int{1, 2, 5, 17, 64, 300} {
		for _, it := range []struct {
			s avro.Schema
			d func() *Datum
		}{{prim("null"), func() *Datum { return &Datum{K: "null"} }}, {empty, func() *Datum { return &Datum{K: "record"} }}} {
			items := make([]*Datum, n)
			for k := range items {
				items[k] = it.d()
			}
			s := rec("Fam", avro.SchemaRecordField{Name: "z", Type: arr(it.s)}, avro.SchemaRecordField{Name: "tail", Type: prim("long")})
			out = append(out, famCase{s, &Datum{K: "record", Items: []*Datum{{K: "array", Items: items}, long(int64(n))}}})
		}
	}
	for _, kl := range []int{63, 64, 65, 100, 127, 128, 129, 300, 8191, 8192} {
		key := bytes.Repeat([]byte{'k'}, kl)
		key[0], key[kl-1] = 'a', 'z'
		s := rec("FamM", avro.SchemaRecordField{Name: "m", Type: mp(prim("string"))}, avro.SchemaRecordField{Name: "tail", Type: prim("string")})
		d := &Datum{K: "record", Items: []*Datum{
			{K: "map", Keys: [][]byte{key, []byte("k2")}, Items: []*Datum{{K: "string", Bytes: []byte("v1")}, {K: "string", Bytes: bytes.Repeat([]byte{'v'}, kl)}}},
			{K: "string", Bytes: []byte("good")}}}
		out = append(out, famCase{s, d})
	}
	for _, v := range []int64{63, 64, -64, -65, 8191, 8192, -8192, -8193, 1 << 20, 1<<20 - 1, 1 << 27, 1 << 34, 1 << 41, 1 << 48, 1 << 55, 1 << 62, -(1 << 62)} {
		items := []*Datum{long(v), long(v - 1), long(-v)}
		s := rec("FamV", avro.SchemaRecordField{Name: "a", Type: arr(prim("long"))}, avro.SchemaRecordField{Name: "tail", Type: prim("long")})
		out = append(out, famCase{s, &Datum{K: "record", Items: []*Datum{{K: "array", Items: items}, long(v)}}})
	}
	// nesting "to any depth": chains of nullable repeated nested records (three schema nodes per
	// level), of plain nested records, of arrays of arrays and of maps of maps
	un := func(branch int, inner *Datum) *Datum { return &Datum{K: "union", Branch: branch, Inner: inner} }
	for _, levels := range []int{5, 9, 14, 31} {
		var mk func(k int) (avro.Schema, *Datum)
		mk = func(k int) (avro.Schema, *Datum) {
			if k == levels {
				return rec(fmt.Sprintf("Leaf%d", levels), avro.SchemaRecordField{Name: "v", Type: prim("long")}), &Datum{K: "record", Items: []*Datum{long(int64(1000 + k))}}
			}
			cs, cd := mk(k + 1)
			next := avro.Schema{Type: "union", Union: []avro.Schema{prim("null"), arr(cs)}}
			s := rec(fmt.Sprintf("Node%d_%d", levels, k), avro.SchemaRecordField{Name: "v", Type: prim("long")}, avro.SchemaRecordField{Name: "next", Type: next})
			return s, &Datum{K: "record", Items: []*Datum{long(int64(k)), un(1, &Datum{K: "array", Items: []*Datum{cd}})}}
		}
		cs, cd := mk(0)
		out = append(out, famCase{cs, cd})
	}
	for _, levels := range []int{18, 40} {
		var s avro.Schema = rec(fmt.Sprintf("Plain%d_%d", levels, levels), avro.SchemaRecordField{Name: "v", Type: prim("string")})
		d := &Datum{K: "record", Items: []*Datum{{K: "string", Bytes: []byte("bottom")}}}
		for k := levels - 1; k >= 0; k-- {
			s = rec(fmt.Sprintf("Plain%d_%d", levels, k), avro.SchemaRecordField{Name: "in", Type: s}, avro.SchemaRecordField{Name: "k", Type: prim("long")})
			d = &Datum{K: "record", Items: []*Datum{d, long(int64(k))}}
		}
		out = append(out, famCase{s, d})
		as, ad := prim("long"), long(7)
		ms, md := prim("string"), &Datum{K: "string", Bytes: []byte("x")}
		for k := 0; k < levels; k++ {
			as, ad = arr(as), &Datum{K: "array", Items: []*Datum{ad}}
			ms, md = mp(ms), &Datum{K: "map", Keys: [][]byte{[]byte(fmt.Sprintf("k%d", k))}, Items: []*Datum{md}}
		}
		out = append(out, famCase{rec(fmt.Sprintf("Deep%d", levels), avro.SchemaRecordField{Name: "a", Type: as}, avro.SchemaRecordField{Name: "m", Type: ms}),
			&Datum{K: "record", Items: []*Datum{ad, md}}})
	}
	// wide records: more fields than any machine word has bits (targets drop some of them)
	for _, nf := range []int{64, 65, 70, 130, 300} {
		var fs []avro.SchemaRecordField
		var items []*Datum
		for k := 0; k < nf; k++ {
			if k%3 == 2 {
				fs = append(fs, avro.SchemaRecordField{Name: fmt.Sprintf("s%03d", k), Type: prim("string")})
				items = append(items, &Datum{K: "string", Bytes: []byte(fmt.Sprintf("str-%d", k))})
			} else {
				fs = append(fs, avro.SchemaRecordField{Name: fmt.Sprintf("f%03d", k), Type: prim("long")})
				items = append(items, long(int64(1000+k)))
			}
		}
		out = append(out, famCase{rec(fmt.Sprintf("Wide%d", nf), fs...), &Datum{K: "record", Items: items}})
	}
	return out
}

// bigRegularBlock: one block of more than a million identical one-byte records (a sparse
// table of all-null rows): deflate stores it at about 1030:1, snappy at about 20:1.  A
// legal file whatever the ratio.
func bigRegularBlock(r *Run) {
	type row struct {
		A *int64 `json:"a"`
	}
	s := avro.Schema{Type: "record", Object: &avro.SchemaObject{Name: "row", Fields: []avro.SchemaRecordField{
		{Name: "a", Type: avro.Schema{Type: "union", Union: []avro.Schema{prim("null"), prim("long")}}}}}}
	n := 1100000 + r.Rng.Intn(200000)
	payload := make([]byte, n) // n times the null selector
	for _, codec := range []string{"deflate", "snappy", "null"} {
		ct := &Container{SchemaJSON: []byte(schemaJSON(s)), Codec: codec, Sync: randSync(r.Rng),
			Blocks: []CBlock{{Count: int64(n), Payload: payload}, {Count: 2, Payload: []byte{2, 14, 0}}}}
		file := ct.Bytes(false)
		got, nonNull := 0, 0
		err := func() (err error) {
			defer func() {
				if p := recover(); p != nil {
					err = fmt.Errorf("PANIC: %v", p)
				}
			}()
			return avro.ReadFile(bytes.NewReader(file), row{}, func(val unsafe.Pointer, rb *avro.ResourceBank) error {
				if (*row)(val).A != nil {
					nonNull++
				}
				got++
				rb.Close()
				return nil
			})
		}()
		desc := map[string]any{"kind": "big-regular-block", "codec": codec, "records": n + 2, "stored_bytes": len(file)}
		r.Count("big-regular-block/" + codec)
		switch {
		case isPanicErr(err):
			r.Fail(-1, "readfile-panic", "ReadFile panics on a legal file: "+err.Error(), desc)
		case err != nil:
			r.Fail(-1, "legal-file-rejected", "ReadFile rejects a legal file with one very regular block: "+err.Error(), desc)
		case got != n+2 || nonNull != 1:
			r.Fail(-1, "file-record-count", fmt.Sprintf("ReadFile delivered %d records (%d non-null), the file holds %d (1 non-null)", got, nonNull, n+2), desc)
		}
	}
}

// bigArrayBlocks: a spec-legal array written in several blocks, one of which (not the
// first) holds more than 65536 items; plain and size-prefixed; also a long map.
func bigArrayBlocks(r *Run) {
	type row struct {
		A    []int64          `json:"a"`
		M    map[string]int64 `json:"m"`
		Tail int64            `json:"tail"`
	}
	s := avro.Schema{Type: "record", Object: &avro.SchemaObject{Name: "row", Fields: []avro.SchemaRecordField{
		{Name: "a", Type: avro.Schema{Type: "array", Object: &avro.SchemaObject{Items: prim("long")}}},
		{Name: "m", Type: avro.Schema{Type: "map", Object: &avro.SchemaObject{Values: prim("long")}}},
		{Name: "tail", Type: prim("long")}}}}
	codec, err := s.Codec(row{})
	if err != nil {
		r.Fail(-1, "compat-build", "Schema.Codec: "+err.Error(), nil)
		return
	}
	for _, sized := range []bool{false, true} {
		// a few huge blocks, and very many tiny ones (1500 blocks of one item, 800 of two,
		// 1000 alternating one and three): what is spent per block adds up only then
		many := func(n int, sizes ...int) (l []int) {
			for i := 0; i < n; i++ {
				l = append(l, sizes[i%len(sizes)])
			}
			return
		}
		for li, layout := range [][]int{{5, 66000, 10}, {70000}, {1, 1, 65537, 1}, {65536, 65537}, many(1500, 1), many(800, 2), many(1000, 1, 3)} {
			total := 0
			var enc []byte
			for _, n := range layout {
				var body []byte
				for i := 0; i < n; i++ {
					body = append(body, specVarint(int64(total+i))...)
				}
				if sized {
					enc = append(enc, specVarint(-int64(n))...)
					enc = append(enc, specVarint(int64(len(body)))...)
				} else {
					enc = append(enc, specVarint(int64(n))...)
				}
				enc = append(enc, body...)
				total += n
			}
			enc = append(enc, 0)
			// a map of 3000 entries in two blocks
			mapParts := [][2]int{{0, 2000}, {2000, 3000}}
			if li >= 4 {
				// the same 3000 entries in 1500 blocks of two
				mapParts = nil
				for i := 0; i < 3000; i += 2 {
					mapParts = append(mapParts, [2]int{i, i + 2})
				}
			}
			for _, part := range mapParts {
				enc = append(enc, specVarint(int64(part[1]-part[0]))...)
				for i := part[0]; i < part[1]; i++ {
					k := fmt.Sprintf("key-%05d", i)
					enc = append(enc, specVarint(int64(len(k)))...)
					enc = append(enc, k...)
					enc = append(enc, specVarint(int64(i))...)
				}
			}
			enc = append(enc, 0)
			enc = append(enc, specVarint(-77)...)
			var dst row
			rb := avro.NewReadBuf(enc)
			rerr := func() (err error) {
				defer func() {
					if p := recover(); p != nil {
						err = fmt.Errorf("PANIC: %v", p)
					}
				}()
				return codec.Read(rb, unsafe.Pointer(&dst))
			}()
			desc := map[string]any{"kind": "big-array-blocks", "layout": layout, "sized": sized}
			r.Count("big-array-blocks")
			bad := ""
			switch {
			case rerr != nil:
				bad = "decoding a legal encoding fails: " + rerr.Error()
			case len(dst.A) != total || dst.Tail != -77 || rb.Len() != 0 || len(dst.M) != 3000:
				bad = fmt.Sprintf("decoded %d items (of %d), %d map entries (of 3000), tail %d (of -77), %d bytes left", len(dst.A), total, len(dst.M), dst.Tail, rb.Len())
			default:
				for i, v := range dst.A {
					if v != int64(i) {
						bad = fmt.Sprintf("item %d decoded as %d", i, v)
						break
					}
				}
				for i := 0; i < 3000 && bad == ""; i += 97 {
					if dst.M[fmt.Sprintf("key-%05d", i)] != int64(i) {
						bad = fmt.Sprintf("map entry key-%05d decoded as %d", i, dst.M[fmt.Sprintf("key-%05d", i)])
					}
				}
			}
			if bad != "" {
				r.Fail(-1, "legal-rejected", bad, desc)
			}
			rb.ExtractResourceBank().Close()
		}
	}
}
