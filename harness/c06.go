package main

import (
	"bytes"
	"encoding/binary"
	"encoding/json"
	"fmt"
	"math"
	"math/rand"
	"reflect"
	"strings"
	"time"
	"unsafe"

	"github.com/philpearl/avro"
	avrotime "github.com/philpearl/avro/time"
)

func init() { register("C06", "Avro.Corr.Codec", runC06) }

// ---- batched isolated execution ------------------------------------------------
type mutReq struct {
	Schema string   `json:"schema"`
	Type   *GT      `json:"type"`
	Inputs [][]byte `json:"inputs"`
	Mode   string   `json:"mode"` // read | skip | file | schema | time
}
type mutRes struct {
	Class string `json:"class"` // ok | err | panic
	Rem   int    `json:"rem"`
	Coq   string `json:"coq"`
	Msg   string `json:"msg"`
	Alloc uint64 `json:"alloc"`
	N     int    `json:"n"`
}

func init() {
	workerFns["mut"] = func(arg json.RawMessage) (any, error) {
		var req mutReq
		if err := json.Unmarshal(arg, &req); err != nil {
			return nil, err
		}
		out := make([]mutRes, len(req.Inputs))
		var codec avro.Codec
		if req.Mode == "read" || req.Mode == "skip" {
			s, err := avro.SchemaFromString(req.Schema)
			if err != nil {
				return nil, err
			}
			codec, err = schemaCodec(s, req.Type)
			if err != nil {
				return nil, err
			}
		}
		for i, in := range req.Inputs {
			before := totalAlloc()
			switch req.Mode {
			case "read":
				r := implRead(codec, req.Type, in)
				out[i] = mutRes{Class: r.Class, Rem: r.Rem, Coq: r.Coq, Msg: r.Msg}
			case "skip":
				r := implSkip(codec, in)
				out[i] = mutRes{Class: r.Class, Rem: r.Rem}
			case "file":
				r := readFileImpl(req.Type, in, -1, false)
				out[i] = mutRes{Class: r.Class, N: r.N}
				if r.Err != nil {
					out[i].Msg = r.Err.Error()
				}
			case "schema":
				out[i] = guardMut(func() mutRes {
					s, err := avro.SchemaFromString(string(in))
					if err != nil {
						return mutRes{Class: "err"}
					}
					// decoder construction on whatever parsed: into a struct that has none of the
					// record's fields (every field is skipped) and into one that has them
					if s.Type == "record" {
						type none struct {
							X int64 `json:"no_such_field_anywhere"`
						}
						_, _ = s.Codec(none{})
						var g *GT
						func() {
							defer func() { recover() }() // the harness's own target generator on a schema of any shape
							g = compatTarget(rand.New(rand.NewSource(int64(len(in)))), s)
						}()
						if g != nil {
							func() {
								var rt reflect.Type
								func() {
									defer func() { recover() }()
									rt = g.RType()
								}()
								if rt != nil && rt.Kind() == reflect.Struct {
									_, _ = s.Codec(reflect.New(rt).Elem().Interface())
								}
							}()
						}
					}
					return mutRes{Class: "ok"}
				})
			case "time":
				out[i] = guardMut(func() mutRes {
					rb := avro.NewReadBuf(append(specVarint(int64(len(in))), in...))
					var t time.Time
					if err := (avrotime.StringCodec{}).Read(rb, unsafe.Pointer(&t)); err != nil {
						return mutRes{Class: "err"}
					}
					return mutRes{Class: "ok"}
				})
			}
			out[i].Alloc = totalAlloc() - before
		}
		return out, nil
	}
}

func guardMut(f func() mutRes) (r mutRes) {
	defer func() {
		if p := recover(); p != nil {
			r = mutRes{Class: "panic", Msg: fmt.Sprint(p)}
		}
	}()
	return f()
}

// runBatch runs the inputs in the worker; a crash or timeout of the batch is
// bisected down to the single inputs responsible.
func runBatch(req mutReq) []mutRes {
	var out []mutRes
	outcome, msg := isolated("mut", req, &out, time.Duration(10+len(req.Inputs)/10)*time.Second)
	if outcome == "ok" && len(out) == len(req.Inputs) {
		return out
	}
	if len(req.Inputs) == 1 {
		if outcome == "crash" || outcome == "timeout" {
			slowOutcomes++
		}
		return []mutRes{{Class: outcome, Msg: msg}}
	}
	if slowOutcomes >= 6 {
		out = make([]mutRes, len(req.Inputs))
		for i := range out {
			out[i] = mutRes{Class: "skipped"}
		}
		return out
	}
	mid := len(req.Inputs) / 2
	a, b := req, req
	a.Inputs, b.Inputs = req.Inputs[:mid], req.Inputs[mid:]
	return append(runBatch(a), runBatch(b)...)
}

// runEach runs the inputs one per call with a short deadline: for schemas on which the recorded
// zero-width findings make timeouts expected, so that each costs one short deadline instead of
// a bisection of long ones. Such outcomes are budgeted apart from the unexpected ones.
var zwSlow int

const zwBudget = 4

func runEach(req mutReq) []mutRes {
	out := make([]mutRes, len(req.Inputs))
	for i := range req.Inputs {
		if zwSlow >= zwBudget {
			out[i] = mutRes{Class: "skipped"}
			continue
		}
		one := req
		one.Inputs = req.Inputs[i : i+1]
		var res []mutRes
		outcome, msg := isolated("mut", one, &res, 3*time.Second)
		if outcome == "ok" && len(res) == 1 {
			out[i] = res[0]
			continue
		}
		zwSlow++
		out[i] = mutRes{Class: outcome, Msg: msg}
	}
	return out
}

// ---- mutation of a valid encoding ----------------------------------------------
var hostileVarints = func() [][]byte {
	var out [][]byte
	for _, v := range []int64{-1, 0, 1, math.MinInt64, math.MaxInt64, 1 << 31, 1<<31 - 1, -(1 << 31), 1 << 40, -(1 << 40), 1 << 62, -(1 << 62), 1 << 20, -(1 << 20), 1 << 36} {
		out = append(out, specVarint(v))
	}
	out = append(out, []byte{0xff, 0xff, 0xff, 0xff, 0xff, 0xff, 0xff, 0xff, 0xff, 0x02})       // overflows 64 bits
	out = append(out, []byte{0x80, 0x80, 0x80, 0x80, 0x80, 0x80, 0x80, 0x80, 0x80, 0x80, 0x01}) // eleven bytes
	return out
}()

// structuralMutants re-encodes the datum with one structural site (block count, sized
// block header, union selector, length) replaced by hostile values: values that agree
// with a valid one modulo 2^32, huge counts together with huge sizes, extreme lengths.
func structuralMutants(r *Run, s avro.Schema, d *Datum, ch *Choice, budget int) [][]byte {
	hostile = &hostilePlan{Site: -1}
	encodeDatum(s, d, ch)
	n := hostile.Seen
	hostile = nil
	if n == 0 {
		return nil
	}
	singles := []int64{1 << 32, 1<<32 + 1, 1<<32 + 2, -(1 << 32), 1<<40 + 1, 1 << 33, math.MinInt64, math.MaxInt64, -1, 1 << 31, 1 << 40, 1<<31 - 1, 1 << 22, 3, 2}
	pairs := [][2]int64{{-(1 << 22), 1 << 40}, {-(1 << 30), 1 << 31}, {-(1 << 20), 1 << 20}, {-(1 << 62), 1 << 62}, {math.MinInt64, math.MaxInt64},
		{-5, -3}, {-5, math.MaxInt64}, {-(1 << 26), 1 << 26}, {-(1 << 40), 1 << 40}, {-1, 1 << 40}, {-(1 << 22), 0}}
	var out [][]byte
	for k := 0; k < budget; k++ {
		pl := &hostilePlan{Site: r.Rng.Intn(n)}
		if r.Rng.Intn(2) == 0 {
			pl.Single = specVarint(singles[r.Rng.Intn(len(singles))])
		} else {
			pr := pairs[r.Rng.Intn(len(pairs))]
			pl.Pair = append(specVarint(pr[0]), specVarint(pr[1])...)
			pl.Single = specVarint(singles[r.Rng.Intn(len(singles))])
		}
		hostile = pl
		m := encodeDatum(s, d, ch)
		hostile = nil
		r.Count("structural/" + pl.Hit)
		out = append(out, m)
	}
	return out
}

func mutants(r *Run, enc []byte, budget int) [][]byte {
	var out [][]byte
	add := func(b []byte) { out = append(out, b) }
	// truncation at every offset
	for p := 0; p < len(enc); p++ {
		add(append([]byte{}, enc[:p]...))
	}
	// every position: the byte replaced by each hostile varint
	for p := 0; p < len(enc); p++ {
		for _, hv := range hostileVarints {
			m := append(append(append([]byte{}, enc[:p]...), hv...), enc[p+1:]...)
			add(m)
		}
	}
	// single-byte substitutions and bit flips
	for k := 0; k < 2*len(enc)+8; k++ {
		if len(enc) == 0 {
			break
		}
		m := append([]byte{}, enc...)
		p := r.Rng.Intn(len(m))
		if r.Rng.Intn(2) == 0 {
			m[p] ^= 1 << uint(r.Rng.Intn(8))
		} else {
			m[p] = []byte{0, 1, 2, 3, 0x7f, 0x80, 0xff, 0xfe}[r.Rng.Intn(8)]
		}
		add(m)
	}
	// random bytes
	for k := 0; k < 6; k++ {
		m := make([]byte, r.Rng.Intn(24))
		r.Rng.Read(m)
		add(m)
	}
	if len(out) > budget {
		r.Rng.Shuffle(len(out), func(i, j int) { out[i], out[j] = out[j], out[i] })
		out = out[:budget]
	}
	return out
}

// zeroWidthItems: the schema has a collection whose items can be encoded in zero bytes.
func zeroWidth(s avro.Schema) bool {
	switch s.Type {
	case "null":
		return true
	case "fixed":
		return s.Object != nil && s.Object.Size == 0
	case "record":
		if s.Object == nil {
			return false
		}
		for _, f := range s.Object.Fields {
			if !zeroWidth(f.Type) {
				return false
			}
		}
		return true
	case "union":
		return false
	}
	return false
}
func hasZeroWidthItems(s avro.Schema) bool {
	switch s.Type {
	case "array":
		return s.Object != nil && (zeroWidth(s.Object.Items) || hasZeroWidthItems(s.Object.Items))
	case "map":
		// a map entry always has a key, but its values may contain such collections
		return s.Object != nil && hasZeroWidthItems(s.Object.Values)
	case "record":
		if s.Object != nil {
			for _, f := range s.Object.Fields {
				if hasZeroWidthItems(f.Type) {
					return true
				}
			}
		}
	case "union":
		for _, b := range s.Union {
			if hasZeroWidthItems(b) {
				return true
			}
		}
	}
	return false
}

func zwKeyOf(items, records bool) string {
	switch {
	case records:
		return "zero-width-records"
	case items:
		return "zero-width-items"
	}
	return ""
}

// zeroWidthProbes: the two recorded findings on fixed inputs, so that every run re-establishes
// them (or shows them gone) whatever the generator happened to draw. A short deadline each:
// the declared count is 2^40.
func zeroWidthProbes(r *Run) {
	s, err := avro.SchemaFromString(`{"type":"record","name":"P","fields":[{"name":"a","type":{"type":"array","items":"null"}}]}`)
	if err != nil {
		panic(err)
	}
	rng := rand.New(rand.NewSource(6)) // not the run's generator: the probes leave the drawn cases as they were
	g := compatTarget(rng, s)
	body := append(specVarint(1<<40), 0)
	var out []mutRes
	req := mutReq{Schema: schemaJSON(s), Type: g, Inputs: [][]byte{body}, Mode: "read"}
	outcome, msg := isolated("mut", req, &out, 4*time.Second)
	res := mutRes{Class: outcome, Msg: msg}
	if outcome == "ok" && len(out) == 1 {
		res = out[0]
	}
	r.Count("probe/items/" + res.Class)
	judge(r, -1, "Codec.Read (fixed probe: array of null declaring 2^40 items)", res, len(body), "zero-width-items",
		map[string]any{"schema": schemaJSON(s), "target": g.Coq(), "input": hexs(body), "mode": "read"})

	rs, err := avro.SchemaFromString(`{"type":"record","name":"E","fields":[{"name":"n","type":"null"}]}`)
	if err != nil {
		panic(err)
	}
	rg := compatTarget(rng, rs)
	sync := []byte("0123456789abcdef")
	var f []byte
	f = append(f, 'O', 'b', 'j', 1)
	f = append(f, specVarint(1)...)
	f = append(f, specVarint(int64(len("avro.schema")))...)
	f = append(f, "avro.schema"...)
	f = append(f, specVarint(int64(len(schemaJSON(rs))))...)
	f = append(f, schemaJSON(rs)...)
	f = append(f, 0)
	f = append(f, sync...)
	f = append(f, specVarint(1<<40)...)
	f = append(f, specVarint(0)...)
	f = append(f, sync...)
	out = nil
	outcome, msg = isolated("mut", mutReq{Type: rg, Inputs: [][]byte{f}, Mode: "file"}, &out, 4*time.Second)
	res = mutRes{Class: outcome, Msg: msg}
	if outcome == "ok" && len(out) == 1 {
		res = out[0]
	}
	r.Count("probe/records/" + res.Class)
	judge(r, -1, "ReadFile (fixed probe: block of zero-byte records declaring 2^40 records)", res, len(f), "zero-width-records",
		map[string]any{"schema": schemaJSON(rs), "target": rg.Coq(), "input": hexs(f), "mode": "file"})
}

func allocLimit(n int) uint64 { return uint64(64*n) + 1<<20 }

// slowOutcomes counts crashes and timeouts: each costs a child process and a
// deadline, so after a handful the run stops producing further hostile cases
// (the violation is established; the evidence says where the run stopped).
var slowOutcomes int

func tooSlow(r *Run) bool {
	if slowOutcomes >= 6 {
		if r.Extra["stopped_early"] == nil {
			r.Extra["stopped_early"] = "after 6 crash/timeout outcomes"
		}
		return true
	}
	return false
}

func judge(r *Run, id int, what string, res mutRes, inputLen int, zwKey string, desc map[string]any) {
	key := ""
	switch res.Class {
	case "panic":
		key = "panic"
	case "crash":
		key = "crash"
	case "timeout":
		key = "hang"
	case "skipped":
		return
	default:
		if res.Alloc > allocLimit(inputLen) {
			key = "allocation"
		}
	}
	if key == "" {
		return
	}
	if zwKey != "" && (key == "hang" || key == "allocation" || key == "crash") {
		key = zwKey
	}
	r.Fail(id, key, fmt.Sprintf("%s on %d bytes of input: %s %s (allocated %d bytes)", what, inputLen, res.Class, res.Msg, res.Alloc), desc)
}

// c06FixedFamily: short inputs that end, or carry an impossible selector or count, at each place
// where a reader takes a decision: the selector byte of a nullable string (null first and
// second), the count and the byte size of array and map blocks, the payload of the wrapper
// types, the empty timestamp text.  The same inputs on every run, compared with the model.
func c06FixedFamily(r *Run) {
	field := func(name string, t *GT) GF { return GF{Name: "F0", Exported: true, JSON: name, T: t} }
	one := func(t *GT) *GT { return &GT{Kind: "struct", Fields: []GF{field("v", t)}} }
	rec := func(ft string) string {
		return `{"type":"record","name":"Fam","fields":[{"name":"v","type":` + ft + `}]}`
	}
	type fam struct {
		schema string
		g      *GT
		inputs [][]byte
	}
	sel := [][]byte{{}, {0}, {1}, {2}, {3}, {4}, {5}, {6}, {0xff}, {0x80}, {0x80, 0x01}, {2, 2}, {2, 4, 'a'}, {0, 0}, {2, 0xff, 0xff, 0xff, 0xff, 0x0f}}
	blocks := [][]byte{{}, {1}, {1, 4}, {1, 0x80}, {3}, {3, 2}, {2}, {2, 2}, {2, 2, 'k'}, {2, 2, 'k', 2}, {2, 2, 'k', 2, 1}, {0x7f}, {0xff, 0xff, 0xff, 0xff, 0xff, 0xff, 0xff, 0xff, 0xff, 0x01},
		{1, 0xff, 0xff, 0xff, 0xff, 0xff, 0xff, 0xff, 0xff, 0xff, 0x01}, {2, 2, 0}, {4, 2, 4}}
	fams := []fam{
		{rec(`["null","string"]`), one(mkGT("string")), sel},
		{rec(`["string","null"]`), one(mkGT("string")), sel},
		{rec(`["null","string"]`), one(ptrTo(mkGT("string"), 1)), sel},
		{rec(`["null","string"]`), one(wrapGT("nullstring")), sel},
		{rec(`["null","long"]`), one(wrapGT("nullint")), sel},
		{rec(`["long","null"]`), one(ptrTo(mkGT("int32"), 1)), sel},
		{rec(`{"type":"map","values":"long"}`), one(&GT{Kind: "map", Key: mkGT("string"), Elem: mkGT("int64")}), blocks},
		{rec(`{"type":"map","values":"string"}`), one(&GT{Kind: "map", Key: mkGT("string"), Elem: mkGT("string")}), blocks},
		{rec(`{"type":"array","items":"long"}`), one(&GT{Kind: "slice", Elem: mkGT("int64")}), blocks},
		{rec(`{"type":"array","items":"string"}`), one(&GT{Kind: "slice", Elem: mkGT("string")}), blocks},
		{rec(`"float"`), one(wrapGT("nullfloat")), [][]byte{{}, {0}, {0, 0}, {0, 0, 0}, {0, 0, 0xc0, 0x3f}}},
		{rec(`"double"`), one(wrapGT("nullfloat")), [][]byte{{}, {0, 0, 0, 0}, {0, 0, 0, 0, 0, 0, 0xf8}, {0, 0, 0, 0, 0, 0, 0xf8, 0x3f}}},
		{rec(`"boolean"`), one(wrapGT("nullbool")), [][]byte{{}, {0}, {1}, {2}}},
		{rec(`"string"`), one(wrapGT("time")), [][]byte{{}, {0}, {2}, {2, 'x'}, {40}, {0x28, '2', '0', '0', '6'}}},
		{rec(`"string"`), one(wrapGT("nulltime")), [][]byte{{}, {0}, {2, 'x'}, {40}}},
		{rec(`"long"`), one(wrapGT("time")), [][]byte{{}, {0}, {0x80}, {0xff, 0xff, 0xff, 0xff, 0xff, 0xff, 0xff, 0xff, 0xff, 0x01}}},
		{rec(`{"type":"int","logicalType":"date"}`), one(wrapGT("time")), [][]byte{{}, {0}, {0x80}, {0xff, 0xff, 0xff, 0xff, 0x1f}}},
	}
	// counts whose product with the item width wraps around 2^64 to something small: whatever is
	// computed from count x width must not be trusted (arrays of fixed-width items)
	wrapCounts := func(width uint64, tail []byte) (ins [][]byte) {
		for _, q := range []uint64{1 << 63, 1 << 62, 1 << 61, 1 << 60} {
			for _, c := range []uint64{q/width*2 + 1, q / width * 2, q/width + 1, q / width, (1<<63-1)/width + 1} {
				if c == 0 || c >= 1<<63 {
					continue
				}
				ins = append(ins, append(specVarint(int64(c)), tail...))
				ins = append(ins, append(append(specVarint(-int64(c)), specVarint(int64(len(tail)))...), tail...)) // the same as a sized block
			}
		}
		return
	}
	over := [][]byte{ // overlong and overflowing varints in front of well-formed data: an error, whatever their partial value
		{0x83, 0x80, 0x80, 0x80, 0x80, 0x80, 0x80, 0x80, 0x80, 0x02, 0x04, 0x0e, 0x10, 0x00},
		{0x84, 0x80, 0x80, 0x80, 0x80, 0x80, 0x80, 0x80, 0x80, 0x02, 0x04, 0x0e, 0x10, 0x00},
		{0x83, 0x80, 0x80, 0x80, 0x80, 0x80, 0x80, 0x80, 0x80, 0x80, 0x01, 0x04, 0x0e, 0x10, 0x00},
		{0x81, 0x80, 0x80, 0x80, 0x80, 0x80, 0x80, 0x80, 0x80, 0x80, 0x80, 0x00, 0x02, 0x0e, 0x00},
		{0xff, 0xff, 0xff, 0xff, 0xff, 0xff, 0xff, 0xff, 0xff, 0x03, 0x02, 0x0e, 0x00},
	}
	fixedSl := func(n int) *GT { return &GT{Kind: "slice", Elem: &GT{Kind: "array", Len: n, Elem: mkGT("uint8")}} }
	tail16 := []byte{1, 2, 3, 4, 5, 6, 7, 8, 9, 10, 11, 12, 13, 14, 15, 16, 0}
	fams = append(fams,
		fam{rec(`{"type":"array","items":"double"}`), one(&GT{Kind: "slice", Elem: mkGT("float64")}), wrapCounts(8, tail16)},
		fam{rec(`{"type":"array","items":"float"}`), one(&GT{Kind: "slice", Elem: mkGT("float32")}), wrapCounts(4, tail16)},
		fam{rec(`{"type":"array","items":{"type":"fixed","name":"F4","size":4}}`), one(fixedSl(4)), wrapCounts(4, tail16)},
		fam{rec(`{"type":"array","items":{"type":"fixed","name":"F16","size":16}}`), one(fixedSl(16)), wrapCounts(16, tail16)},
		fam{rec(`{"type":"array","items":{"type":"fixed","name":"F3","size":3}}`), one(fixedSl(3)), wrapCounts(3, tail16)},
		fam{rec(`{"type":"array","items":"long"}`), one(&GT{Kind: "slice", Elem: mkGT("int64")}), over},
		fam{rec(`{"type":"map","values":"long"}`), one(&GT{Kind: "map", Key: mkGT("string"), Elem: mkGT("int64")}), over},
		fam{rec(`"string"`), one(mkGT("string")), over},
		fam{rec(`"bytes"`), one(&GT{Kind: "slice", Elem: mkGT("uint8")}), over},
		fam{rec(`["null","int","long"]`), one(mkGT("int64")), over},
	)
	for _, f := range fams {
		s, err := avro.SchemaFromString(f.schema)
		if err != nil {
			panic(err)
		}
		if _, err := schemaCodec(s, f.g); err != nil {
			r.Fail(-1, "compat-build", "Schema.Codec refuses a compatible target of the fixed family: "+err.Error(), map[string]any{"schema": f.schema, "target": f.g.Coq()})
			continue
		}
		for _, mode := range []string{"read", "skip"} {
			tg := f.g
			if mode == "skip" {
				tg = emptyTarget()
			}
			res := runBatch(mutReq{Schema: f.schema, Type: tg, Inputs: f.inputs, Mode: mode})
			for k, m := range f.inputs {
				desc := map[string]any{"schema": f.schema, "target": tg.Coq(), "input": hexs(m), "mode": mode, "family": "fixed"}
				rr := res[k]
				id := -1
				if rr.Class == "ok" || rr.Class == "err" || rr.Class == "panic" {
					if mode == "read" {
						q := readRes{Class: rr.Class, Rem: rr.Rem, Coq: rr.Coq}
						id = r.Add(cApp("KRead", coqSchema(s), tg.Coq(), cBytes(m), q.coq()), desc, fmt.Sprintf("famread/%x/%s/%s", m, f.schema, tg.Coq()))
					} else {
						q := ires{Class: rr.Class, Rem: rr.Rem}
						id = r.Add(cApp("KSkip", coqSchema(s), tg.Coq(), cBytes(m), q.coq()), desc, fmt.Sprintf("famskip/%x/%s", m, f.schema))
					}
				}
				r.Count("family/" + mode + "/" + rr.Class)
				judge(r, id, "Codec."+strings.Title(mode), rr, len(m), "", desc)
			}
		}
	}
}

func runC06(r *Run) {
	zeroWidthProbes(r)
	c06FixedFamily(r)
	// (a) record bodies: decode and skip paths of built codecs
	nbase := r.N(40, 300)
	per := r.N(70, 200)
	for i := 0; i < nbase && !tooSlow(r); i++ {
		s := genSchema(r.Rng, SchemaGenCfg{MaxDepth: 1 + r.Rng.Intn(3)})
		d := genDatum(r.Rng, s)
		ch := genChoice(r.Rng, s, d)
		enc := encodeDatum(s, d, ch)
		g := compatTarget(r.Rng, s)
		if _, err := schemaCodec(s, g); err != nil {
			continue
		}
		zw := hasZeroWidthItems(s)
		nstruct := r.N(14, 40)
		if zw {
			nstruct = 2 // each hit on a zero-width collection re-establishes the recorded finding at the price of a deadline
		}
		ms := append(structuralMutants(r, s, d, ch, nstruct), mutants(r, enc, per)...)
		if zw && len(ms) > 12 {
			// zero-width items are a recorded finding (count-driven loops): a handful of
			// mutants is enough to show it, every one that hits it costs a full deadline
			ms = ms[:12]
		}
		for _, mode := range []string{"read", "skip"} {
			tg := g
			if mode == "skip" {
				tg = emptyTarget() // every field skipped
			}
			req := mutReq{Schema: schemaJSON(s), Type: tg, Inputs: ms, Mode: mode}
			var res []mutRes
			if zw {
				res = runEach(req)
			} else {
				res = runBatch(req)
			}
			for k, m := range ms {
				desc := map[string]any{"schema": schemaJSON(s), "target": tg.Coq(), "valid": hexs(enc), "input": hexs(m), "mode": mode}
				rr := res[k]
				id := -1
				if rr.Class == "ok" || rr.Class == "err" || rr.Class == "panic" {
					if mode == "read" {
						q := readRes{Class: rr.Class, Rem: rr.Rem, Coq: rr.Coq}
						id = r.Add(cApp("KRead", coqSchema(s), tg.Coq(), cBytes(m), q.coq()), desc, fmt.Sprintf("read/%x/%s", m, schemaJSON(s)))
					} else {
						q := ires{Class: rr.Class, Rem: rr.Rem}
						id = r.Add(cApp("KSkip", coqSchema(s), tg.Coq(), cBytes(m), q.coq()), desc, fmt.Sprintf("skip/%x/%s", m, schemaJSON(s)))
					}
				}
				r.Count(mode + "/" + rr.Class)
				judge(r, id, "Codec."+strings.Title(mode), rr, len(m), zwKeyOf(zw, false), desc)
			}
		}
	}

	// (b) container files
	nfiles := r.N(12, 200)
	for i := 0; i < nfiles && !tooSlow(r); i++ {
		gf := genFile(r, 4)
		for tries := 0; i%3 == 0 && gf.ct.Codec != "snappy" && tries < 40; tries++ {
			gf = genFile(r, 4) // every third file is a snappy file (its blocks carry a length preamble of their own)
		}
		zw := hasZeroWidthItems(gf.s)
		// a block of records that occupy zero bytes is the same count-driven loop one level up
		zwRec := zeroWidth(gf.s)
		ms := mutants(r, gf.file, r.N(120, 600))
		if (zw || zwRec) && len(ms) > 12 {
			ms = ms[:12]
		}
		// damaged length fields of blocks and metadata explicitly
		for _, hv := range hostileVarints {
			m := append(append(append([]byte{}, gf.file[:gf.ct.HeaderLen]...), hv...), gf.file[gf.ct.HeaderLen:]...)
			ms = append(ms, m)
			m2 := append(append(append([]byte{}, gf.file[:5]...), hv...), gf.file[5:]...) // inside the metadata map
			ms = append(ms, m2)
		}
		if gf.ct.Codec == "snappy" {
			// a further block whose snappy preamble declares a huge decoded length, behind the
			// valid blocks (a reader that has decoded one block already has state to get wrong)
			for _, huge := range []uint64{1 << 28, 1 << 30, 1<<31 - 1, 1<<32 - 1} {
				raw := binary.AppendUvarint(nil, huge)
				junk := make([]byte, 9)
				r.Rng.Read(junk)
				raw = append(append(raw, junk...), 1, 2, 3, 4)
				m := append([]byte{}, gf.file...)
				m = append(m, specVarint(1)...)
				m = append(m, specVarint(int64(len(raw)))...)
				m = append(m, raw...)
				m = append(m, gf.ct.Sync[:]...)
				ms = append(ms, m)
				r.Count("file/snappy-preamble-behind-valid-blocks")
			}
		}
		req := mutReq{Type: gf.g, Inputs: ms, Mode: "file"}
		var res []mutRes
		if zw || zwRec {
			res = runEach(req)
		} else {
			res = runBatch(req)
		}
		for k, m := range ms {
			desc := map[string]any{"schema": schemaJSON(gf.s), "target": gf.g.Coq(), "codec": gf.ct.Codec, "input": hexs(m), "mode": "file"}
			rr := res[k]
			id := -1
			if rr.Class == "ok" || rr.Class == "err" {
				fr := fileRes{N: rr.N, Class: rr.Class}
				id = addFileCaseCodec(r, gf, m, fr, desc)
			}
			r.Count("file/" + rr.Class)
			judge(r, id, "ReadFile", rr, len(m), zwKeyOf(zw, zwRec), desc)
		}
	}

	// (c) schema JSON and (d) timestamp text: no panic, bounded work
	var docs [][]byte
	for i := 0; i < r.N(30, 400); i++ {
		s := genSchema(r.Rng, SchemaGenCfg{MaxDepth: 1 + r.Rng.Intn(4)})
		docs = append(docs, mutants(r, []byte(schemaJSON(s)), 40)...)
	}
	// slips a person makes: a complex type named by its bare string, attributes at the wrong level
	for _, bare := range []string{"fixed", "array", "map", "record", "enum", "union", "error"} {
		for _, shape := range []string{
			`{"type":"record","name":"R","fields":[{"name":"a","type":"long"},{"name":"id","type":"%s","size":16},{"name":"b","type":"string"}]}`,
			`{"type":"record","name":"R","fields":[{"name":"id","type":"%s","items":"long","values":"long","symbols":["A"]}]}`,
			`{"type":"record","name":"R","fields":[{"name":"id","type":["null","%s"]}]}`,
			`{"type":"record","name":"R","fields":[{"name":"id","type":{"type":"array","items":"%s"}}]}`,
			`{"type":"record","name":"R","fields":[{"name":"id","type":{"type":"map","values":"%s"}}]}`,
			`{"type":"record","name":"R","fields":[{"name":"in","type":{"type":"record","name":"In","fields":[{"name":"id","type":"%s"}]}}]}`,
			`{"type":"record","name":"R","fields":[{"name":"id","type":{"type":"%s"}}]}`,
			`{"type":"%s","name":"R"}`,
		} {
			docs = append(docs, []byte(fmt.Sprintf(shape, bare)))
		}
	}
	for _, n := range []int{100, 3000, 10001} {
		docs = append(docs, []byte(strings.Repeat("[", n)), []byte(strings.Repeat(`{"type":"array","items":`, n)), []byte(strings.Repeat(`{"type":"map","values":`, n)+`"int"`+strings.Repeat("}", n)))
	}
	for k, rr := range runBatch(mutReq{Inputs: docs, Mode: "schema"}) {
		r.Count("schema/" + rr.Class)
		judge(r, -1, "SchemaFromString, then Schema.Codec on what parsed,", rr, len(docs[k]), "", map[string]any{"mode": "schema", "input": truncBytes(docs[k])})
	}
	var times [][]byte
	for _, base := range []string{"2006-01-02T13:37:42.326876123+08:21", "2006-01-02T13:37:42Z", "1970-01-01", "2006-01-02T13:37:42,5Z"} {
		times = append(times, mutants(r, []byte(base), r.N(150, 1500))...)
	}
	// zone offsets of every size the two-digit grammar admits, both signs, several spellings
	for _, hh := range []int{0, 1, 12, 13, 14, 23, 24, 25, 30, 59, 60, 99} {
		for _, mm := range []int{0, 1, 30, 59, 60, 99} {
			for _, sign := range []string{"+", "-"} {
				times = append(times, []byte(fmt.Sprintf("2006-01-02T13:37:42%s%02d:%02d", sign, hh, mm)),
					[]byte(fmt.Sprintf("2006-01-02T13:37:42.5%s%02d%02d", sign, hh, mm)))
			}
		}
	}
	for k, rr := range runBatch(mutReq{Inputs: times, Mode: "time"}) {
		r.Count("time/" + rr.Class)
		judge(r, -1, "timestamp parsing", rr, len(times[k]), "", map[string]any{"mode": "time", "input": string(times[k])})
	}
	r.Extra["evaluations_without_model_case"] = len(docs) + len(times)
}

func truncBytes(b []byte) string {
	if len(b) > 200 {
		return fmt.Sprintf("%q… (%d bytes)", b[:200], len(b))
	}
	return fmt.Sprintf("%q", b)
}

// The C06 module is Avro.Corr.Codec, which has no file cases: file mutants are
// judged by the direct oracle only (the container correspondence is C07/C08's).
func addFileCaseCodec(r *Run, gf *genFileT, m []byte, fr fileRes, desc map[string]any) int {
	_ = bytes.Equal
	_ = reflect.TypeOf
	return -1
}
