package main

// Go type descriptions: a reflect-independent mirror of the Coq inductive
// gtype / gfield of /verif/coq/Model/GoType.v, with conversions from and to
// reflect.Type, a Coq printer and a random generator of struct types.

import (
	"fmt"
	"math/rand"
	"reflect"
	"strconv"
	"strings"
	"sync"
	"time"
	"unsafe"

	"github.com/unravelin/null/v5"
)

// GT describes a Go type.
//
// Kind is one of bool,int8,int16,int32,int64,int,uint8,uint16,uint32,uint64,
// uint,uintptr,float32,float64,complex,string,slice,array,map,ptr,struct,wrap,
// named,iface,chan,func,unsafeptr (and "self", a back reference to the Len-th
// enclosing struct, innermost = 0, which gtOf emits for recursive types so
// that it is total).
type GT struct {
	Kind      string
	Elem, Key *GT
	Len       int
	Name, Pkg string
	Fields    []GF
	Wrap      string // time,nullint,nullbool,nullfloat,nullstring,nulltime
	ID        int    // registry identity of a "named" type
	rt        reflect.Type
}

// GF describes one struct field.
type GF struct {
	Name     string
	Exported bool
	JSON, BQ string // Tag.Get("json"), Tag.Get("bq")
	Embedded bool
	T        *GT
}

var (
	rtTime       = reflect.TypeOf(time.Time{})
	rtNullInt    = reflect.TypeOf(null.Int{})
	rtNullBool   = reflect.TypeOf(null.Bool{})
	rtNullFloat  = reflect.TypeOf(null.Float{})
	rtNullString = reflect.TypeOf(null.String{})
	rtNullTime   = reflect.TypeOf(null.Time{})
	rtEmptyIface = reflect.TypeOf((*any)(nil)).Elem()
)

var wrapNames = []string{"time", "nullint", "nullbool", "nullfloat", "nullstring", "nulltime"}

func wrapRType(w string) reflect.Type {
	switch w {
	case "time":
		return rtTime
	case "nullint":
		return rtNullInt
	case "nullbool":
		return rtNullBool
	case "nullfloat":
		return rtNullFloat
	case "nullstring":
		return rtNullString
	case "nulltime":
		return rtNullTime
	}
	return nil
}

func wrapOfRType(t reflect.Type) string {
	switch t {
	case rtTime:
		return "time"
	case rtNullInt:
		return "nullint"
	case rtNullBool:
		return "nullbool"
	case rtNullFloat:
		return "nullfloat"
	case rtNullString:
		return "nullstring"
	case rtNullTime:
		return "nulltime"
	}
	return ""
}

// ---- identities of named (defined, non-struct) types ---------------------

var (
	namedMu  sync.Mutex
	namedIDs = map[reflect.Type]int{}
	// every defined type gtOf has seen, by "pkg.Name": lets RType recover the
	// original type of a description that lost its reflect.Type (for instance
	// after a JSON round trip to a worker process)
	typeByName = map[string]reflect.Type{}
)

func rememberType(t reflect.Type) {
	if t.Name() == "" || t.PkgPath() == "" {
		return
	}
	namedMu.Lock()
	typeByName[t.PkgPath()+"."+t.Name()] = t
	namedMu.Unlock()
}

func lookupType(pkg, name string) reflect.Type {
	if name == "" || pkg == "" {
		return nil
	}
	namedMu.Lock()
	defer namedMu.Unlock()
	return typeByName[pkg+"."+name]
}

func namedID(t reflect.Type) int {
	namedMu.Lock()
	defer namedMu.Unlock()
	if id, ok := namedIDs[t]; ok {
		return id
	}
	id := 100 + len(namedIDs)
	namedIDs[t] = id
	return id
}

// ---- reflect -> GT --------------------------------------------------------

func gtOf(t reflect.Type) *GT { return gtOfRec(t, nil) }

func gtOfRec(t reflect.Type, stack []reflect.Type) *GT {
	if t == nil {
		return &GT{Kind: "iface"}
	}
	if w := wrapOfRType(t); w != "" {
		return &GT{Kind: "wrap", Wrap: w, rt: t}
	}
	if t.Kind() != reflect.Struct && t.Name() != "" && t.PkgPath() != "" {
		rememberType(t)
		u := gtUnder(t, stack)
		u.rt = nil
		return &GT{Kind: "named", ID: namedID(t), Elem: u, Name: t.Name(), Pkg: t.PkgPath(), rt: t}
	}
	return gtUnder(t, stack)
}

// gtUnder describes t by its reflect.Kind, ignoring a type name.
func gtUnder(t reflect.Type, stack []reflect.Type) *GT {
	g := &GT{rt: t}
	switch t.Kind() {
	case reflect.Bool:
		g.Kind = "bool"
	case reflect.Int8:
		g.Kind = "int8"
	case reflect.Int16:
		g.Kind = "int16"
	case reflect.Int32:
		g.Kind = "int32"
	case reflect.Int64:
		g.Kind = "int64"
	case reflect.Int:
		g.Kind = "int"
	case reflect.Uint8:
		g.Kind = "uint8"
	case reflect.Uint16:
		g.Kind = "uint16"
	case reflect.Uint32:
		g.Kind = "uint32"
	case reflect.Uint64:
		g.Kind = "uint64"
	case reflect.Uint:
		g.Kind = "uint"
	case reflect.Uintptr:
		g.Kind = "uintptr"
	case reflect.Float32:
		g.Kind = "float32"
	case reflect.Float64:
		g.Kind = "float64"
	case reflect.Complex64, reflect.Complex128:
		g.Kind = "complex"
	case reflect.String:
		g.Kind = "string"
	case reflect.Slice:
		g.Kind = "slice"
		g.Elem = gtOfRec(t.Elem(), stack)
	case reflect.Array:
		g.Kind = "array"
		g.Len = t.Len()
		g.Elem = gtOfRec(t.Elem(), stack)
	case reflect.Map:
		g.Kind = "map"
		g.Key = gtOfRec(t.Key(), stack)
		g.Elem = gtOfRec(t.Elem(), stack)
	case reflect.Pointer:
		g.Kind = "ptr"
		g.Elem = gtOfRec(t.Elem(), stack)
	case reflect.Struct:
		for i := len(stack) - 1; i >= 0; i-- {
			if stack[i] == t {
				return &GT{Kind: "self", Len: len(stack) - 1 - i, rt: t}
			}
		}
		rememberType(t)
		g.Kind = "struct"
		g.Name = t.Name()
		g.Pkg = t.PkgPath()
		inner := append(append([]reflect.Type(nil), stack...), t)
		g.Fields = make([]GF, 0, t.NumField())
		for i := 0; i < t.NumField(); i++ {
			sf := t.Field(i)
			g.Fields = append(g.Fields, GF{
				Name:     sf.Name,
				Exported: sf.IsExported(),
				JSON:     sf.Tag.Get("json"),
				BQ:       sf.Tag.Get("bq"),
				Embedded: sf.Anonymous,
				T:        gtOfRec(sf.Type, inner),
			})
		}
	case reflect.Interface:
		g.Kind = "iface"
	case reflect.Chan:
		g.Kind = "chan"
	case reflect.Func:
		g.Kind = "func"
	case reflect.UnsafePointer:
		g.Kind = "unsafeptr"
	default:
		g.Kind = "iface"
	}
	return g
}

// ---- GT -> reflect --------------------------------------------------------

// structTag rebuilds `json:"..." bq:"..."` (a key is left out when its value
// is empty, which Tag.Get cannot tell from an absent key).
func structTag(f GF) reflect.StructTag {
	var parts []string
	if f.JSON != "" {
		parts = append(parts, "json:"+strconv.Quote(f.JSON))
	}
	if f.BQ != "" {
		parts = append(parts, "bq:"+strconv.Quote(f.BQ))
	}
	return reflect.StructTag(strings.Join(parts, " "))
}

// RType returns the reflect.Type of g.  Types that came from gtOf return the
// original type; everything else is built structurally (reflect.StructOf for
// structs) and cached.  It never panics: a description that reflect cannot
// build yields interface{}.
func (g *GT) RType() (rt reflect.Type) {
	if g == nil {
		return rtEmptyIface
	}
	if g.rt != nil {
		return g.rt
	}
	defer func() {
		if p := recover(); p != nil {
			rt = rtEmptyIface
		}
	}()
	rt = g.buildRType()
	g.rt = rt
	return rt
}

func (g *GT) buildRType() reflect.Type {
	switch g.Kind {
	case "bool":
		return reflect.TypeOf(false)
	case "int8":
		return reflect.TypeOf(int8(0))
	case "int16":
		return reflect.TypeOf(int16(0))
	case "int32":
		return reflect.TypeOf(int32(0))
	case "int64":
		return reflect.TypeOf(int64(0))
	case "int":
		return reflect.TypeOf(int(0))
	case "uint8":
		return reflect.TypeOf(uint8(0))
	case "uint16":
		return reflect.TypeOf(uint16(0))
	case "uint32":
		return reflect.TypeOf(uint32(0))
	case "uint64":
		return reflect.TypeOf(uint64(0))
	case "uint":
		return reflect.TypeOf(uint(0))
	case "uintptr":
		return reflect.TypeOf(uintptr(0))
	case "float32":
		return reflect.TypeOf(float32(0))
	case "float64":
		return reflect.TypeOf(float64(0))
	case "complex":
		return reflect.TypeOf(complex128(0))
	case "string":
		return reflect.TypeOf("")
	case "slice":
		return reflect.SliceOf(g.Elem.RType())
	case "array":
		return reflect.ArrayOf(g.Len, g.Elem.RType())
	case "map":
		return reflect.MapOf(g.Key.RType(), g.Elem.RType())
	case "ptr":
		return reflect.PointerTo(g.Elem.RType())
	case "struct":
		if t := lookupType(g.Pkg, g.Name); t != nil && t.Kind() == reflect.Struct {
			return t
		}
		sfs := make([]reflect.StructField, 0, len(g.Fields))
		for _, f := range g.Fields {
			sf := reflect.StructField{Name: f.Name, Type: f.T.RType(), Tag: structTag(f), Anonymous: f.Embedded}
			if !f.Exported && !f.Embedded {
				sf.PkgPath = "main"
			}
			sfs = append(sfs, sf)
		}
		return reflect.StructOf(sfs)
	case "wrap":
		if t := wrapRType(g.Wrap); t != nil {
			return t
		}
	case "named":
		if t := lookupType(g.Pkg, g.Name); t != nil {
			return t
		}
		// the defined type itself cannot be rebuilt; its underlying type can
		return g.Elem.RType()
	case "chan":
		return reflect.TypeOf((chan int)(nil))
	case "func":
		return reflect.TypeOf((func())(nil))
	case "unsafeptr":
		return reflect.TypeOf(unsafe.Pointer(nil))
	}
	return rtEmptyIface
}

// ---- Coq printer ------------------------------------------------------------

func (g *GT) Coq() string {
	if g == nil {
		return "TIface"
	}
	switch g.Kind {
	case "bool":
		return "TBool"
	case "int8":
		return "(TInt I8)"
	case "int16":
		return "(TInt I16)"
	case "int32":
		return "(TInt I32)"
	case "int64":
		return "(TInt I64)"
	case "int":
		return "(TInt IInt)"
	case "uint8":
		return "(TInt U8)"
	case "uint16":
		return "(TInt U16)"
	case "uint32":
		return "(TInt U32)"
	case "uint64":
		return "(TInt U64)"
	case "uint":
		return "(TInt UInt)"
	case "uintptr":
		return "(TInt UPtr)"
	case "float32":
		return "TFloat32"
	case "float64":
		return "TFloat64"
	case "complex":
		return "TComplex"
	case "string":
		return "TString"
	case "slice":
		return cApp("TSlice", g.Elem.Coq())
	case "array":
		return cApp("TArray", cZ(int64(g.Len)), g.Elem.Coq())
	case "map":
		return cApp("TMap", g.Key.Coq(), g.Elem.Coq())
	case "ptr":
		return cApp("TPtr", g.Elem.Coq())
	case "struct":
		fs := make([]string, len(g.Fields))
		for i, f := range g.Fields {
			fs[i] = cApp("GF", cBytes([]byte(f.Name)), cBool(f.Exported), cBytes([]byte(f.JSON)), cBytes([]byte(f.BQ)), f.T.Coq())
		}
		return cApp("TStruct", cBytes([]byte(g.Name)), cBytes([]byte(g.Pkg)), cList(fs))
	case "wrap":
		switch g.Wrap {
		case "time":
			return "(TWrap WTime)"
		case "nullint":
			return "(TWrap WNullInt)"
		case "nullbool":
			return "(TWrap WNullBool)"
		case "nullfloat":
			return "(TWrap WNullFloat)"
		case "nullstring":
			return "(TWrap WNullString)"
		case "nulltime":
			return "(TWrap WNullTime)"
		}
		return "TIface"
	case "named":
		return cApp("TNamed", cZ(int64(g.ID)), g.Elem.Coq())
	case "self":
		return fmt.Sprintf("(TSelf %d%%nat)", g.Len)
	case "iface":
		return "TIface"
	case "chan":
		return "TChan"
	case "func":
		return "TFunc"
	case "unsafeptr":
		return "TUnsafePtr"
	}
	return "TIface"
}

// under strips "named" layers (reflect.Kind dispatch).
func (g *GT) under() *GT {
	for g != nil && g.Kind == "named" && g.Elem != nil {
		g = g.Elem
	}
	return g
}

func (g *GT) isU8() bool { u := g.under(); return u != nil && u.Kind == "uint8" }

// isBytes: a slice whose element kind is uint8.
func (g *GT) isBytes() bool {
	u := g.under()
	return u != nil && u.Kind == "slice" && u.Elem.isU8()
}

func isIntKind(k string) bool {
	switch k {
	case "int8", "int16", "int32", "int64", "int":
		return true
	}
	return false
}

func isUintKind(k string) bool {
	switch k {
	case "uint8", "uint16", "uint32", "uint64", "uint", "uintptr":
		return true
	}
	return false
}

func intBits(k string) int {
	switch k {
	case "int8", "uint8":
		return 8
	case "int16", "uint16":
		return 16
	case "int32", "uint32":
		return 32
	}
	return 64
}

// contains reports whether some node of the type satisfies pred.
func (g *GT) contains(pred func(*GT) bool) bool {
	if g == nil {
		return false
	}
	if pred(g) {
		return true
	}
	if g.Elem.contains(pred) || g.Key.contains(pred) {
		return true
	}
	for _, f := range g.Fields {
		if f.T.contains(pred) {
			return true
		}
	}
	return false
}

// ---- random struct types --------------------------------------------------

// TypeGenCfg configures genStructType.
//
//	MaxDepth          nesting depth of composite constructors below the top struct
//	AllowUnsupported  also produce shapes the library refuses or mishandles
//	                  (uint*, int8, complex, chan, func, interface, non-string map
//	                  keys, fixed arrays, **T, *[]T, *map)
//	Dynamic           purely structural: only exported, non-embedded fields and no
//	                  defined (named) types anywhere, so the description alone
//	                  determines the type.  (reflect.StructOf can in fact build
//	                  the other shapes too, so RType works either way; with
//	                  Dynamic=false the generator additionally produces
//	                  unexported fields, embedded named structs, nested named
//	                  structs and fields of defined non-struct types.)
type TypeGenCfg struct {
	MaxDepth         int
	AllowUnsupported bool
	Dynamic          bool
}

func mkGT(kind string) *GT { return &GT{Kind: kind} }

var leafKinds = []string{"bool", "int", "int16", "int32", "int64", "float32", "float64", "string"}

var unsupportedKinds = []string{"uint8", "uint16", "uint32", "uint64", "uint", "uintptr", "int8", "complex", "chan", "func", "iface"}

func genStructType(rng *rand.Rand, cfg TypeGenCfg) *GT {
	if cfg.MaxDepth < 0 {
		cfg.MaxDepth = 0
	}
	return genStructAt(rng, cfg, 0, 1+rng.Intn(8))
}

const jsonAlphabet = "abcdefghijklmnopqrstuvwxyz"

func genJSONName(rng *rand.Rand, used map[string]bool) string {
	for {
		n := 1 + rng.Intn(4)
		var sb strings.Builder
		for i := 0; i < n; i++ {
			sb.WriteByte(jsonAlphabet[rng.Intn(len(jsonAlphabet))])
		}
		switch rng.Intn(8) {
		case 0:
			sb.WriteByte('_')
			sb.WriteByte(byte('0' + rng.Intn(10)))
		case 1:
			sb.WriteByte(byte('0' + rng.Intn(10)))
		case 2: // header- and path-like names, and the Go identifiers other fields carry
			sb.WriteString([]string{"-id", ".lat", "-x.y", "-"}[rng.Intn(4)])
			sb.WriteByte(byte('a' + rng.Intn(26)))
		case 3:
			sb.Reset()
			sb.WriteString("F" + strconv.Itoa(rng.Intn(8)))
		}
		s := sb.String()
		if !used[s] {
			used[s] = true
			return s
		}
	}
}

var jsonOptions = []string{
	"", "", "", "", "", "",
	",omitempty", ",omitempty", ",omitempty", ",omitempty", ",omitempty",
	",string", ",omitempty,string", ",string,omitempty", ",omitzero", ",omitemptyx", ",", ",,omitempty",
}

func genStructAt(rng *rand.Rand, cfg TypeGenCfg, depth, nfields int) *GT {
	g := &GT{Kind: "struct"}
	used := map[string]bool{}
	embedded := map[string]bool{}
	for i := 0; i < nfields; i++ {
		f := GF{Name: "F" + strconv.Itoa(i), Exported: true}
		if !cfg.Dynamic {
			switch r := rng.Intn(100); {
			case r < 7:
				f.Name = "u" + strconv.Itoa(i)
				f.Exported = false
			case r < 12 && len(embedTypes) > 0:
				e := embedTypes[rng.Intn(len(embedTypes))]
				if !embedded[e.Name] {
					embedded[e.Name] = true
					f.Name = e.Name
					f.Embedded = true
					f.T = e
				}
			}
		}
		if f.T == nil {
			f.T = genFieldType(rng, cfg, depth+1)
		}
		switch r := rng.Intn(100); {
		case r < 25: // no json tag
		case r < 30:
			f.JSON = "-"
		case r < 32:
			f.JSON = "-,"
		case r < 40: // options without a name
			f.JSON = jsonOptions[6+rng.Intn(len(jsonOptions)-6)]
		default:
			f.JSON = genJSONName(rng, used) + jsonOptions[rng.Intn(len(jsonOptions))]
		}
		switch r := rng.Intn(100); {
		case r < 6:
			f.BQ = "-"
		case r < 10:
			f.BQ = "bq" + strconv.Itoa(rng.Intn(10))
		}
		g.Fields = append(g.Fields, f)
	}
	// a JSON name that is the Go identifier of a sibling is kept only when that sibling
	// answers to a JSON name of its own (otherwise the two fields would share a name)
	jsonName := func(f GF) string {
		n := f.JSON
		if i := strings.IndexByte(n, ','); i >= 0 {
			n = n[:i]
		}
		return n
	}
	for i := range g.Fields {
		n := jsonName(g.Fields[i])
		for j := range g.Fields {
			if i != j && n == g.Fields[j].Name && (jsonName(g.Fields[j]) == "" || g.Fields[j].JSON == "-") {
				g.Fields[i].JSON = "g" + g.Fields[i].JSON
			}
		}
	}
	return g
}

// genFieldType: a type at the given depth (the top struct's fields are depth 1).
func genFieldType(rng *rand.Rand, cfg TypeGenCfg, depth int) *GT {
	if cfg.AllowUnsupported && rng.Intn(100) < 10 {
		return genUnsupported(rng, cfg, depth)
	}
	composite := depth <= cfg.MaxDepth
	r := rng.Intn(100)
	if !composite || r < 45 {
		return genLeaf(rng, cfg)
	}
	switch {
	case r < 58:
		return genNestedStruct(rng, cfg, depth)
	case r < 72:
		return &GT{Kind: "slice", Elem: genFieldType(rng, cfg, depth+1)}
	case r < 86:
		return &GT{Kind: "map", Key: mkGT("string"), Elem: genFieldType(rng, cfg, depth+1)}
	default:
		return genPtr(rng, cfg, depth)
	}
}

func genLeaf(rng *rand.Rand, cfg TypeGenCfg) *GT {
	r := rng.Intn(100)
	switch {
	case r < 55:
		return mkGT(leafKinds[rng.Intn(len(leafKinds))])
	case r < 65:
		return &GT{Kind: "slice", Elem: mkGT("uint8")}
	case r < 75:
		return &GT{Kind: "wrap", Wrap: "time"}
	case r < 95 || cfg.Dynamic || len(namedLeafTypes) == 0:
		return &GT{Kind: "wrap", Wrap: wrapNames[1+rng.Intn(5)]}
	default:
		return namedLeafTypes[rng.Intn(len(namedLeafTypes))]
	}
}

func genNestedStruct(rng *rand.Rand, cfg TypeGenCfg, depth int) *GT {
	if !cfg.Dynamic && rng.Intn(6) == 0 && len(embedTypes) > 0 {
		// a named struct type (so that the same type can occur in several positions)
		return embedTypes[rng.Intn(len(embedTypes))]
	}
	return genStructAt(rng, cfg, depth, 1+rng.Intn(4))
}

// genPtr: a pointer whose pointee is a basic type, a wrapper or a struct;
// pointers to pointers, slices and maps only when AllowUnsupported.
func genPtr(rng *rand.Rand, cfg TypeGenCfg, depth int) *GT {
	if cfg.AllowUnsupported && rng.Intn(5) == 0 {
		switch rng.Intn(3) {
		case 0:
			return &GT{Kind: "ptr", Elem: &GT{Kind: "ptr", Elem: genPointee(rng, cfg, depth+2)}}
		case 1:
			return &GT{Kind: "ptr", Elem: &GT{Kind: "slice", Elem: genFieldType(rng, cfg, depth+2)}}
		default:
			return &GT{Kind: "ptr", Elem: &GT{Kind: "map", Key: mkGT("string"), Elem: genFieldType(rng, cfg, depth+2)}}
		}
	}
	return &GT{Kind: "ptr", Elem: genPointee(rng, cfg, depth+1)}
}

func genPointee(rng *rand.Rand, cfg TypeGenCfg, depth int) *GT {
	if depth <= cfg.MaxDepth && rng.Intn(2) == 0 {
		return genNestedStruct(rng, cfg, depth)
	}
	for {
		l := genLeaf(rng, cfg)
		if k := l.under().Kind; k == "slice" || k == "map" { // no pointer to a slice or map
			continue
		}
		return l
	}
}

func genUnsupported(rng *rand.Rand, cfg TypeGenCfg, depth int) *GT {
	switch rng.Intn(6) {
	case 0: // map with a non-string key
		return &GT{Kind: "map", Key: mkGT([]string{"int", "int64", "int32", "bool"}[rng.Intn(4)]), Elem: genLeaf(rng, cfg)}
	case 1: // fixed array of non-bytes
		return &GT{Kind: "array", Len: rng.Intn(4), Elem: mkGT([]string{"int64", "string", "bool", "float64"}[rng.Intn(4)])}
	case 2: // fixed array of bytes (SchemaForType says bytes, the codec builder refuses)
		return &GT{Kind: "array", Len: rng.Intn(6), Elem: mkGT("uint8")}
	case 3:
		if depth <= cfg.MaxDepth {
			return &GT{Kind: "slice", Elem: mkGT(unsupportedKinds[1+rng.Intn(len(unsupportedKinds)-1)])}
		}
	}
	return mkGT(unsupportedKinds[rng.Intn(len(unsupportedKinds))])
}

// poolTypes: the hand-written named struct types of pool_types.go.
var poolTypes []*GT

func init() {
	for _, e := range pool {
		poolTypes = append(poolTypes, e.GT)
	}
}
