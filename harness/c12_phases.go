package main

import (
	"bytes"
	"fmt"
	"reflect"
	"runtime"
	"sync"
	"sync/atomic"
	"unsafe"

	"github.com/philpearl/avro"
)

// c12FreshTypes: Go types the process has never seen, decoded for the first time by several
// goroutines released at the same instant through one shared codec into private targets.
// What each goroutine must obtain is known by construction (the value the bytes were written
// from), not from a solitary decode: a solitary decode would introduce the types to whatever
// process-wide tables the library keeps, one at a time, before the goroutines meet them.
func c12FreshTypes(w *c12World, rounds, goroutines int) {
	str := reflect.TypeOf("")
	i64 := reflect.TypeOf(int64(0))
	for round := 0; round < rounds; round++ {
		leaf := func(n int) reflect.Type {
			return reflect.StructOf([]reflect.StructField{
				{Name: fmt.Sprintf("F%dx%d", round, n), Type: i64, Tag: `json:"f"`},
				{Name: "G", Type: str, Tag: `json:"g"`},
			})
		}
		t0, t1, t2 := leaf(0), leaf(1), leaf(2)
		// a wide record: building its codec takes long enough for two first builds to overlap
		var wideFields []reflect.StructField
		for i := 0; i < 90; i++ {
			wideFields = append(wideFields, reflect.StructField{Name: fmt.Sprintf("W%dx%d", round, i), Type: i64, Tag: reflect.StructTag(fmt.Sprintf(`json:"w%d"`, i))})
		}
		wide := reflect.StructOf(wideFields)
		holder := reflect.StructOf([]reflect.StructField{
			{Name: "Wide", Type: wide, Tag: `json:"wide"`},
			{Name: "A", Type: reflect.PointerTo(t0), Tag: `json:"a"`},
			{Name: "B", Type: reflect.SliceOf(reflect.PointerTo(t1)), Tag: `json:"b"`},
			{Name: "C", Type: reflect.PointerTo(t2), Tag: `json:"c"`},
			{Name: "D", Type: reflect.MapOf(str, reflect.PointerTo(t0)), Tag: `json:"d"`},
		})
		mk := func(t reflect.Type, k int) reflect.Value {
			p := reflect.New(t)
			p.Elem().Field(0).SetInt(int64(1000000*round + k))
			p.Elem().Field(1).SetString(fmt.Sprintf("r%d-k%d", round, k))
			return p
		}
		want := reflect.New(holder)
		for i := 0; i < 90; i++ {
			want.Elem().Field(0).Field(i).SetInt(int64(round*1000 + i + 1))
		}
		want.Elem().Field(1).Set(mk(t0, 1))
		bs := reflect.MakeSlice(reflect.SliceOf(reflect.PointerTo(t1)), 0, 5)
		for k := 0; k < 5; k++ {
			bs = reflect.Append(bs, mk(t1, 10+k))
		}
		want.Elem().Field(2).Set(bs)
		want.Elem().Field(3).Set(mk(t2, 2))
		m := reflect.MakeMap(reflect.MapOf(str, reflect.PointerTo(t0)))
		m.SetMapIndex(reflect.ValueOf("k"), mk(t0, 3))
		want.Elem().Field(4).Set(m)

		schema, err := avro.SchemaForType(want.Elem().Interface())
		if err != nil {
			w.fail(round, -1, "concurrent-result-differs", fmt.Sprintf("fresh types: SchemaForType refuses %v: %v", holder, err))
			return
		}
		// The bytes are written by hand on odd rounds (so that no codec for these types has been
		// built before the goroutines build theirs, all at once) and by the library on even
		// rounds (one shared codec, built before).
		var codec avro.Codec
		var data []byte
		if round%2 == 0 {
			codec, err = schema.Codec(want.Elem().Interface())
			if err != nil {
				w.fail(round, -1, "concurrent-result-differs", fmt.Sprintf("fresh types: no codec for %v: %v", holder, err))
				return
			}
			wb := avro.NewWriteBuf(nil)
			codec.Write(wb, want.UnsafePointer())
			data = append([]byte{}, wb.Bytes()...)
		} else {
			str := func(s string) []byte { return append(specVarint(int64(len(s))), s...) }
			leafBytes := func(v reflect.Value) (o []byte) { // [null, record{f long, g string}], non-null
				o = append(o, 2)
				o = append(o, specVarint(v.Elem().Field(0).Int())...)
				return append(o, str(v.Elem().Field(1).String())...)
			}
			for i := 0; i < 90; i++ {
				data = append(data, specVarint(want.Elem().Field(0).Field(i).Int())...)
			}
			data = append(data, leafBytes(want.Elem().Field(1))...)
			bsv := want.Elem().Field(2)
			data = append(data, specVarint(int64(bsv.Len()))...)
			for i := 0; i < bsv.Len(); i++ {
				data = append(data, leafBytes(bsv.Index(i))...)
			}
			data = append(data, 0)
			data = append(data, leafBytes(want.Elem().Field(3))...)
			data = append(data, specVarint(1)...)
			data = append(data, str("k")...)
			data = append(data, leafBytes(want.Elem().Field(4).MapIndex(reflect.ValueOf("k")))...)
			data = append(data, 0)
		}

		var ready, wg sync.WaitGroup
		var release atomic.Bool
		for g := 0; g < goroutines; g++ {
			ready.Add(1)
			wg.Add(1)
			go func(g int) {
				defer wg.Done()
				defer func() {
					if p := recover(); p != nil {
						w.fail(round, g, "concurrent-panic", fmt.Sprintf("fresh types: first decode of new types panics: %v", p))
					}
				}()
				rb := avro.NewReadBuf(data)
				got := reflect.New(holder)
				ready.Done()
				for !release.Load() {
				}
				codec := codec
				if codec == nil {
					// every goroutine builds the codec for the never-seen types itself, now
					c, err := schema.Codec(reflect.New(holder).Elem().Interface())
					if err != nil {
						w.fail(round, g, "concurrent-result-differs", fmt.Sprintf("fresh types: Schema.Codec fails when %d goroutines build for the same new type at once: %v", goroutines, err))
						return
					}
					codec = c
				}
				if err := codec.Read(rb, got.UnsafePointer()); err != nil {
					w.fail(round, g, "concurrent-result-differs", fmt.Sprintf("fresh types: decode fails when %d goroutines meet the types at once: %v", goroutines, err))
					return
				}
				// a second record right behind the first, into the same banked memory
				rb2 := avro.NewReadBuf(data)
				got2 := reflect.New(holder)
				if err := codec.Read(rb2, got2.UnsafePointer()); err != nil { //nolint
					w.fail(round, g, "concurrent-result-differs", fmt.Sprintf("fresh types: second decode fails: %v", err))
					return
				}
				runtime.Gosched()
				for i, gv := range []reflect.Value{got, got2} {
					if !reflect.DeepEqual(gv.Elem().Interface(), want.Elem().Interface()) {
						w.fail(round, g, "concurrent-result-differs", fmt.Sprintf("fresh types: decode %d on goroutine %d of %d released together gives %+v, the bytes were written from %+v", i, g, goroutines, c12Show(gv.Elem()), c12Show(want.Elem())))
						return
					}
				}
				rb.ExtractResourceBank().Close()
				rb2.ExtractResourceBank().Close()
			}(g)
		}
		ready.Wait()
		release.Store(true)
		wg.Wait()
		w.count("fresh-types/rounds", 1)
	}
}

func c12Show(v reflect.Value) string {
	var sb bytes.Buffer
	var show func(v reflect.Value)
	show = func(v reflect.Value) {
		switch v.Kind() {
		case reflect.Pointer:
			if v.IsNil() {
				sb.WriteString("nil")
			} else {
				sb.WriteString("&")
				show(v.Elem())
			}
		case reflect.Struct:
			sb.WriteString("{")
			for i := 0; i < v.NumField(); i++ {
				if i > 0 {
					sb.WriteString(" ")
				}
				show(v.Field(i))
			}
			sb.WriteString("}")
		case reflect.Slice:
			sb.WriteString("[")
			for i := 0; i < v.Len(); i++ {
				if i > 0 {
					sb.WriteString(" ")
				}
				show(v.Index(i))
			}
			sb.WriteString("]")
		case reflect.Map:
			sb.WriteString("map[")
			for _, k := range v.MapKeys() {
				fmt.Fprintf(&sb, "%v:", k)
				show(v.MapIndex(k))
			}
			sb.WriteString("]")
		default:
			fmt.Fprintf(&sb, "%v", v.Interface())
		}
	}
	show(v)
	if sb.Len() > 300 {
		return sb.String()[:300] + "..."
	}
	return sb.String()
}

// c12BankChurn: many goroutines, each reading its own small file over and over, keeping every
// record and its bank, checking the kept records once the read is over, then closing the banks
// (its own, and now and then handing some to a neighbour to close).  Nothing but taking and
// returning banks at the highest rate the machine gives: a bank handed to two owners shows as
// a kept record that changed while its bank was open.
func c12BankChurn(w *c12World, goroutines int, iters int) {
	type item struct {
		ID    int64  `json:"id"`
		Label string `json:"label"`
	}
	type rec struct {
		N     int64   `json:"n"`
		Name  string  `json:"name"`
		Items []*item `json:"items"`
		Opt   *string `json:"opt"`
	}
	schema := `{"type":"record","name":"Rec","fields":[{"name":"n","type":"long"},{"name":"name","type":"string"},` +
		`{"name":"items","type":{"type":"array","items":["null",{"type":"record","name":"Item","fields":[{"name":"id","type":"long"},{"name":"label","type":"string"}]}]}},` +
		`{"name":"opt","type":["null","string"]}]}`
	str := func(s string) []byte { return append(specVarint(int64(len(s))), s...) }
	mkFile := func(g int) ([]byte, []rec) {
		ct := &Container{SchemaJSON: []byte(schema), Codec: "null"}
		for i := range ct.Sync {
			ct.Sync[i] = byte(g + i)
		}
		var want []rec
		var payload []byte
		for k := 0; k < 8; k++ {
			v := rec{N: int64(g*1000 + k), Name: fmt.Sprintf("g%d-rec%d-%s", g, k, string(bytes.Repeat([]byte{'a' + byte(k)}, 3+k*5)))}
			payload = append(payload, specVarint(v.N)...)
			payload = append(payload, str(v.Name)...)
			ni := 1 + (g+k)%4
			payload = append(payload, specVarint(int64(ni))...)
			for j := 0; j < ni; j++ {
				it := &item{ID: int64(g*100000 + k*100 + j), Label: fmt.Sprintf("g%d-k%d-item%d", g, k, j)}
				v.Items = append(v.Items, it)
				payload = append(payload, 2)
				payload = append(payload, specVarint(it.ID)...)
				payload = append(payload, str(it.Label)...)
			}
			payload = append(payload, 0)
			if k%2 == 0 {
				o := fmt.Sprintf("opt-%d-%d", g, k)
				v.Opt = &o
				payload = append(payload, 2)
				payload = append(payload, str(o)...)
			} else {
				payload = append(payload, 0)
			}
			want = append(want, v)
		}
		ct.Blocks = []CBlock{{Count: 8, Payload: payload}}
		return ct.Bytes(false), want
	}
	same := func(a *rec, b *rec) bool {
		if a.N != b.N || a.Name != b.Name || len(a.Items) != len(b.Items) || (a.Opt == nil) != (b.Opt == nil) || (a.Opt != nil && *a.Opt != *b.Opt) {
			return false
		}
		for i := range a.Items {
			if a.Items[i] == nil || *a.Items[i] != *b.Items[i] {
				return false
			}
		}
		return true
	}
	neighbours := make([]chan *avro.ResourceBank, goroutines)
	for g := range neighbours {
		neighbours[g] = make(chan *avro.ResourceBank, 64)
	}
	var stop atomic.Bool
	var wg sync.WaitGroup
	for g := 0; g < goroutines; g++ {
		wg.Add(1)
		go func(g int) {
			defer wg.Done()
			defer func() {
				if p := recover(); p != nil {
					w.fail(-1, g, "concurrent-panic", fmt.Sprintf("bank churn: goroutine panics: %v", p))
					stop.Store(true)
				}
			}()
			file, want := mkFile(g)
			for it := 0; it < iters && !stop.Load(); it++ {
				var kept []rec
				var banks []*avro.ResourceBank
				err := avro.ReadFile(bytes.NewReader(file), rec{}, func(val unsafe.Pointer, rb *avro.ResourceBank) error {
					kept = append(kept, *(*rec)(val))
					banks = append(banks, rb)
					return nil
				})
				if err != nil || len(kept) != len(want) {
					w.fail(it, g, "concurrent-result-differs", fmt.Sprintf("bank churn: ReadFile of an 8-record file returned %v after %d records", err, len(kept)))
					stop.Store(true)
					return
				}
				if it%4 == 3 {
					runtime.Gosched()
				}
				for k := range kept {
					if !same(&kept[k], &want[k]) {
						w.fail(it, g, "concurrent-result-differs", fmt.Sprintf("bank churn: record %d kept by goroutine %d (its bank still open) changed after the read: name %q, written %q (iteration %d, %d goroutines)", k, g, kept[k].Name, want[k].Name, it, goroutines))
						stop.Store(true)
						return
					}
				}
				for i, b := range banks {
					if i%3 == 0 {
						select {
						case neighbours[(g+1)%goroutines] <- b:
							continue
						default:
						}
					}
					b.Close()
				}
				for drained := false; !drained; {
					select {
					case b := <-neighbours[g]:
						b.Close()
					default:
						drained = true
					}
				}
			}
		}(g)
	}
	wg.Wait()
	for g := range neighbours {
		for drained := false; !drained; {
			select {
			case b := <-neighbours[g]:
				b.Close()
			default:
				drained = true
			}
		}
	}
	w.count("bank-churn/goroutines", goroutines)
}

// c12SharedShapes: one built codec per shape, shared by eight goroutines that decode (and skip)
// the same bytes over and over into private targets.  The shapes are those whose codecs do
// something lazily or per entry at decode time - allocation through New for map values of every
// union kind, nested maps, records and pointers as elements, fields skipped because the target
// lacks them - so that anything a built codec writes to itself while decoding meets the race
// detector, and anything it gets wrong meets the expected value (known by construction).
func c12SharedShapes(w *c12World, iters int) {
	i64 := func(v int64) *int64 { return &v }
	str := func(v string) *string { return &v }
	type recAS struct {
		A int64  `json:"a"`
		S string `json:"s"`
	}
	type shape struct {
		name   string
		schema string
		target any // pointer to a zero value of the target struct
		data   []byte
		want   any
	}
	type t1 struct {
		M map[string]int64 `json:"m"`
	}
	type t3 struct {
		M map[string]*int64 `json:"m"`
	}
	type t4 struct {
		M map[string]map[string]string `json:"m"`
	}
	type t5 struct {
		L []*recAS `json:"l"`
	}
	type t6 struct {
		M map[string][]int64 `json:"m"`
	}
	type t7 struct {
		M map[string]*string `json:"m"`
	}
	type t8 struct {
		Tail int64 `json:"tail"`
	}
	type t9 struct {
		M map[string]recAS `json:"m"`
	}
	rec := func(ft string) string {
		return `{"type":"record","name":"r","fields":[{"name":"m","type":` + ft + `}]}`
	}
	shapes := []shape{
		{"map of [null,int,long]", rec(`{"type":"map","values":["null","int","long"]}`), &t1{},
			[]byte{6, 2, 'a', 2, 10, 2, 'b', 4, 12, 2, 'c', 0, 0}, &t1{M: map[string]int64{"a": 5, "b": 6, "c": 0}}},
		{"map of [int,long]", rec(`{"type":"map","values":["int","long"]}`), &t1{},
			[]byte{4, 2, 'a', 0, 10, 2, 'b', 2, 12, 0}, &t1{M: map[string]int64{"a": 5, "b": 6}}},
		{"map of [null,long] into pointers", rec(`{"type":"map","values":["null","long"]}`), &t3{},
			[]byte{4, 2, 'a', 2, 10, 2, 'b', 0, 0}, &t3{M: map[string]*int64{"a": i64(5), "b": nil}}},
		{"map of maps", rec(`{"type":"map","values":{"type":"map","values":"string"}}`), &t4{},
			[]byte{2, 2, 'o', 2, 2, 'i', 4, 'x', 'y', 0, 0}, &t4{M: map[string]map[string]string{"o": {"i": "xy"}}}},
		{"array of [null,record]", `{"type":"record","name":"r","fields":[{"name":"l","type":{"type":"array","items":["null",{"type":"record","name":"e","fields":[{"name":"a","type":"long"},{"name":"s","type":"string"}]}]}}]}`, &t5{},
			[]byte{6, 2, 14, 2, 'q', 0, 2, 16, 0, 0}, &t5{L: []*recAS{{7, "q"}, nil, {8, ""}}}},
		{"map of arrays", rec(`{"type":"map","values":{"type":"array","items":"long"}}`), &t6{},
			[]byte{2, 2, 'k', 4, 2, 4, 0, 0}, &t6{M: map[string][]int64{"k": {1, 2}}}},
		{"map of [string,null]", rec(`{"type":"map","values":["string","null"]}`), &t7{},
			[]byte{4, 2, 'a', 0, 2, 'z', 2, 'b', 2, 0}, &t7{M: map[string]*string{"a": str("z"), "b": nil}}},
		{"skipped general-union map and record", `{"type":"record","name":"r","fields":[{"name":"gone","type":{"type":"map","values":["null","int","string"]}},{"name":"also","type":{"type":"array","items":{"type":"record","name":"e","fields":[{"name":"a","type":"long"},{"name":"s","type":"string"}]}}},{"name":"tail","type":"long"}]}`, &t8{},
			[]byte{4, 2, 'a', 2, 10, 2, 'b', 4, 2, 'x', 0, 2, 14, 2, 'q', 0, 18}, &t8{Tail: 9}},
		{"map of records", rec(`{"type":"map","values":{"type":"record","name":"e","fields":[{"name":"a","type":"long"},{"name":"s","type":"string"}]}}`), &t9{},
			[]byte{4, 2, 'a', 14, 2, 'q', 2, 'b', 16, 0, 0}, &t9{M: map[string]recAS{"a": {7, "q"}, "b": {8, ""}}}},
	}
	for _, sh := range shapes {
		s, err := avro.SchemaFromString(sh.schema)
		if err != nil {
			w.fail(-1, -1, "concurrent-result-differs", fmt.Sprintf("shared shapes: schema of %q does not parse: %v", sh.name, err))
			continue
		}
		rt := reflect.TypeOf(sh.target).Elem()
		codec, err := s.Codec(reflect.New(rt).Elem().Interface())
		if err != nil {
			w.fail(-1, -1, "concurrent-result-differs", fmt.Sprintf("shared shapes: no codec for %q: %v", sh.name, err))
			continue
		}
		var wg sync.WaitGroup
		var release atomic.Bool
		for g := 0; g < 8; g++ {
			wg.Add(1)
			go func(g int) {
				defer wg.Done()
				defer func() {
					if p := recover(); p != nil {
						w.fail(-1, g, "concurrent-panic", fmt.Sprintf("shared shapes: %q: %v", sh.name, p))
					}
				}()
				for !release.Load() {
				}
				for it := 0; it < iters; it++ {
					got := reflect.New(rt)
					rb := avro.NewReadBuf(sh.data)
					if err := codec.Read(rb, got.UnsafePointer()); err != nil || rb.Len() != 0 {
						w.fail(it, g, "concurrent-result-differs", fmt.Sprintf("shared shapes: %q through a codec shared by 8 goroutines: error %v, %d bytes left", sh.name, err, rb.Len()))
						return
					}
					if !reflect.DeepEqual(got.Interface(), sh.want) {
						w.fail(it, g, "concurrent-result-differs", fmt.Sprintf("shared shapes: %q through a codec shared by 8 goroutines decodes to %s, alone to %s", sh.name, c12Show(got.Elem()), c12Show(reflect.ValueOf(sh.want).Elem())))
						return
					}
					rb.ExtractResourceBank().Close()
					rs := avro.NewReadBuf(sh.data)
					if err := codec.Skip(rs); err != nil || rs.Len() != 0 {
						w.fail(it, g, "concurrent-result-differs", fmt.Sprintf("shared shapes: skipping %q through a shared codec: error %v, %d bytes left", sh.name, err, rs.Len()))
						return
					}
				}
			}(g)
		}
		release.Store(true)
		wg.Wait()
		w.count("shared-shapes", 1)
	}
}
