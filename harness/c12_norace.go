//go:build !race

package main

// the harness was built without the race detector
const c12Race = false
