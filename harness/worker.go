package main

import (
	"bufio"
	"encoding/json"
	"fmt"
	"io"
	"os"
	"os/exec"
	"runtime/debug"
	"syscall"
	"time"
)

// Child-process isolation.  Hostile inputs can kill the process with an
// unrecoverable runtime error (out of memory, stack overflow), so they are run
// in a worker child with an address-space limit and a per-request deadline.
// The parent sees: ok(result) | panic(message) | crash | timeout.

type workerReq struct {
	Kind string          `json:"kind"`
	Arg  json.RawMessage `json:"arg"`
}

type workerResp struct {
	Outcome string          `json:"outcome"` // ok | panic
	Result  json.RawMessage `json:"result,omitempty"`
	Msg     string          `json:"msg,omitempty"`
}

var workerFns = map[string]func(arg json.RawMessage) (any, error){}

func workerMain() {
	// 4 GiB of address space: an allocation bomb fails fast instead of swapping.
	lim := syscall.Rlimit{Cur: 4 << 30, Max: 4 << 30}
	_ = syscall.Setrlimit(syscall.RLIMIT_AS, &lim)
	debug.SetMaxStack(64 << 20)
	in := bufio.NewReaderSize(os.Stdin, 1<<20)
	out := bufio.NewWriter(os.Stdout)
	for {
		line, err := in.ReadBytes('\n')
		if len(line) > 0 {
			var req workerReq
			if jerr := json.Unmarshal(line, &req); jerr != nil {
				fmt.Fprintf(os.Stderr, "worker: bad request: %v\n", jerr)
				os.Exit(3)
			}
			resp := runWorkerReq(req)
			b, _ := json.Marshal(resp)
			out.Write(b)
			out.WriteByte('\n')
			out.Flush()
		}
		if err != nil {
			return
		}
	}
}

func runWorkerReq(req workerReq) (resp workerResp) {
	defer func() {
		if p := recover(); p != nil {
			resp = workerResp{Outcome: "panic", Msg: fmt.Sprint(p)}
		}
	}()
	fn, ok := workerFns[req.Kind]
	if !ok {
		return workerResp{Outcome: "panic", Msg: "unknown worker kind " + req.Kind}
	}
	v, err := fn(req.Arg)
	if err != nil {
		return workerResp{Outcome: "panic", Msg: "harness error: " + err.Error()}
	}
	b, _ := json.Marshal(v)
	return workerResp{Outcome: "ok", Result: b}
}

type worker struct {
	cmd *exec.Cmd
	in  io.WriteCloser
	out *bufio.Reader
}

var theWorker *worker

func startWorker() *worker {
	cmd := exec.Command(os.Args[0], "-worker")
	cmd.Stderr = io.Discard
	in, _ := cmd.StdinPipe()
	outp, _ := cmd.StdoutPipe()
	if err := cmd.Start(); err != nil {
		panic(err)
	}
	return &worker{cmd: cmd, in: in, out: bufio.NewReaderSize(outp, 1<<20)}
}

func stopWorkers() {
	if theWorker != nil {
		// end of input lets the worker return from main (and flush coverage data when the
		// binary is instrumented); a stuck worker is killed
		theWorker.in.Close()
		done := make(chan struct{})
		cmd := theWorker.cmd
		go func() { cmd.Wait(); close(done) }()
		select {
		case <-done:
		case <-time.After(2 * time.Second):
			cmd.Process.Kill()
			<-done
		}
		theWorker = nil
	}
}

// isolated runs one request in the worker.  outcome is ok, panic, crash or timeout.
func isolated(kind string, arg any, result any, deadline time.Duration) (outcome, msg string) {
	if theWorker == nil {
		theWorker = startWorker()
	}
	w := theWorker
	ab, _ := json.Marshal(arg)
	rb, _ := json.Marshal(workerReq{Kind: kind, Arg: ab})
	rb = append(rb, '\n')
	type rd struct {
		line []byte
		err  error
	}
	ch := make(chan rd, 1)
	go func() {
		if _, err := w.in.Write(rb); err != nil {
			ch <- rd{nil, err}
			return
		}
		line, err := w.out.ReadBytes('\n')
		ch <- rd{line, err}
	}()
	select {
	case r := <-ch:
		if r.err != nil {
			stopWorkers()
			return "crash", "worker died"
		}
		var resp workerResp
		if err := json.Unmarshal(r.line, &resp); err != nil {
			stopWorkers()
			return "crash", "bad worker response"
		}
		if resp.Outcome == "ok" && result != nil {
			if err := json.Unmarshal(resp.Result, result); err != nil {
				return "panic", "harness: cannot decode result: " + err.Error()
			}
		}
		return resp.Outcome, resp.Msg
	case <-time.After(deadline):
		stopWorkers()
		return "timeout", "deadline exceeded"
	}
}
