package main

import (
	"fmt"

	"github.com/philpearl/avro"
)

// c17ReadBuf: the ReadBuf as an application's own codec uses it - random sequences of Next,
// NextAsString, ReadByte, Varint and Reset over data made of varints of every length, strings
// and raw bytes; lengths that fit, that are negative, that run past the end, and at the edges of
// int.  After every call: what it returned and Len().  Compared with the model call by call
// (Model/Buffers.v rb_run), and judged directly: a call that succeeds hands out exactly the
// bytes the cursor stepped over, Next and ReadByte that refuse leave Len() unchanged, Len() never
// grows, nothing panics.
func c17ReadBuf(r *Run) {
	n := r.N(300, 4000)
	for it := 0; it < n; it++ {
		mk := func() []byte {
			var data []byte
			for k, parts := 0, r.Rng.Intn(8); k < parts; k++ {
				switch r.Rng.Intn(5) {
				case 0:
					vs := interestingInt64s(r, 1)
					data = append(data, specVarint(vs[r.Rng.Intn(len(vs))])...)
				case 1:
					s := make([]byte, r.Rng.Intn(12))
					r.Rng.Read(s)
					data = append(data, specVarint(int64(len(s)))...)
					data = append(data, s...)
				case 2:
					for j, m := 0, 1+r.Rng.Intn(12); j < m; j++ {
						data = append(data, byte(0x80|r.Rng.Intn(128))) // continuation bytes only
					}
				case 3:
					data = append(data, 0xff, 0xff, 0xff, 0xff, 0xff, 0xff, 0xff, 0xff, 0xff, byte(r.Rng.Intn(4)))
				default:
					raw := make([]byte, r.Rng.Intn(6))
					r.Rng.Read(raw)
					data = append(data, raw...)
				}
			}
			return data
		}
		data := mk()
		data0 := data
		rb := avro.NewReadBuf(data)
		var ops, terms, obs []string
		bad := ""
		for k, steps := 0, 1+r.Rng.Intn(14); k < steps && bad == ""; k++ {
			func() {
				defer func() {
					if p := recover(); p != nil {
						bad = fmt.Sprintf("panic: %v", p)
					}
				}()
				before := rb.Len()
				switch x := r.Rng.Intn(10); {
				case x < 4:
					l := []int{0, 1, 2, before, before + 1, before - 1, -1, 5, 1 << 40, int(^uint(0) >> 1), -(1 << 62), int(^uint(0)>>1) - before + 1}[r.Rng.Intn(12)]
					asString := r.Rng.Intn(2) == 0
					var got []byte
					var err error
					if asString {
						var s string
						s, err = rb.NextAsString(l)
						got = []byte(s)
						ops, terms = append(ops, fmt.Sprintf("NextAsString(%d)", l)), append(terms, cApp("RbNextAsString", cZ(int64(l))))
					} else {
						var b []byte
						b, err = rb.Next(l)
						got = append([]byte{}, b...)
						ops, terms = append(ops, fmt.Sprintf("Next(%d)", l)), append(terms, cApp("RbNext", cZ(int64(l))))
					}
					if err != nil {
						obs = append(obs, cPair("OErr", cZ(int64(rb.Len()))))
						if rb.Len() != before {
							bad = fmt.Sprintf("%s failed and Len() went from %d to %d", ops[len(ops)-1], before, rb.Len())
						}
						if l >= 0 && l <= before {
							bad = fmt.Sprintf("%s with %d bytes unread fails: %v", ops[len(ops)-1], before, err)
						}
					} else {
						obs = append(obs, cPair(cApp("OBytes", cBytes(got)), cZ(int64(rb.Len()))))
						off := len(data) - before
						if l < 0 || l > before || len(got) != l || string(got) != string(data[off:off+l]) || rb.Len() != before-l {
							bad = fmt.Sprintf("%s with %d bytes unread returned %d bytes and left %d", ops[len(ops)-1], before, len(got), rb.Len())
						}
					}
				case x < 6:
					b, err := rb.ReadByte()
					ops, terms = append(ops, "ReadByte()"), append(terms, "RbByte")
					if err != nil {
						obs = append(obs, cPair("OErr", cZ(int64(rb.Len()))))
						if before != 0 || rb.Len() != 0 {
							bad = fmt.Sprintf("ReadByte fails with %d bytes unread (%d after)", before, rb.Len())
						}
					} else {
						obs = append(obs, cPair(cApp("OByte", cZ(int64(b))), cZ(int64(rb.Len()))))
						if before == 0 || b != data[len(data)-before] || rb.Len() != before-1 {
							bad = fmt.Sprintf("ReadByte with %d bytes unread returned %#x and left %d", before, b, rb.Len())
						}
					}
				case x < 9:
					v, err := rb.Varint()
					ops, terms = append(ops, "Varint()"), append(terms, "RbVarint")
					if err != nil {
						obs = append(obs, cPair("OErr", cZ(int64(rb.Len()))))
					} else {
						obs = append(obs, cPair(cApp("OInt", cZ(v)), cZ(int64(rb.Len()))))
						off := len(data) - before
						if want, wrest, werr := readVarint(data[off:]); werr != nil || want != v || len(wrest) != rb.Len() {
							bad = fmt.Sprintf("Varint with %d bytes unread returned %d and left %d; the specification gives %d and %d (%v)", before, v, rb.Len(), want, len(wrest), werr)
						}
					}
					if rb.Len() > before {
						bad = fmt.Sprintf("Varint: Len() grew from %d to %d", before, rb.Len())
					}
				default:
					data = mk()
					rb.Reset(data)
					ops, terms = append(ops, fmt.Sprintf("Reset(%d bytes)", len(data))), append(terms, cApp("RbReset", cBytes(data)))
					obs = append(obs, cPair("ONone", cZ(int64(rb.Len()))))
					if rb.Len() != len(data) {
						bad = fmt.Sprintf("after Reset(%d bytes) Len() is %d", len(data), rb.Len())
					}
				}
			}()
		}
		r.Count("readbuf-sequences")
		desc := map[string]any{"data": hexs(data), "ops": ops}
		id := r.Add(cApp("KRb", cBytes(data0), cList(terms), cList(obs)), desc, fmt.Sprintf("rb/%d/%v", it, ops))
		if bad != "" {
			r.Fail(id, "readbuf", fmt.Sprintf("ReadBuf over %d bytes, calls %v: %s", len(data), ops, bad), desc)
		}
		rb.ExtractResourceBank().Close()
	}
}
