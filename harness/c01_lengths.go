package main

import (
	"bytes"
	"fmt"
	"unsafe"

	"github.com/philpearl/avro"
)

// c01EveryBlockLength: one block of every uncompressed length from 0 to 1300 bytes (thorough:
// also every length around the powers of two up to 70000), rows of one byte each, under every
// codec, written by the library's Encoder (fromEncoder) or by the harness's spec writer, read
// back with ReadFile.  A defect that needs one particular block length - a sniffed prefix, a
// size class, a boundary of the compressor - cannot hide between the lengths the random
// histories happen to produce.  The leading rows are zeros (as leading nulls would be), the rest
// a short cycle, so the stored form under snappy and deflate is short and starts the same way
// for every length.
type c01Tiny struct {
	V int64 `json:"v"`
}

func c01EveryBlockLength(r *Run, fromEncoder bool) {
	var lengths []int
	for l := 0; l <= 1300; l++ {
		lengths = append(lengths, l)
	}
	if r.Thorough() {
		for p := 2048; p <= 65536; p *= 2 {
			for d := -3; d <= 3; d++ {
				lengths = append(lengths, p+d)
			}
		}
		lengths = append(lengths, 70000)
	}
	schema := `{"type":"record","name":"c01Tiny","namespace":"main","fields":[{"name":"v","type":"long"}]}`
	rowAt := func(i int) int64 {
		if i < 6 {
			return 0
		}
		return int64(i % 5)
	}
	for _, codec := range codecNames {
		for _, l := range lengths {
			var file []byte
			if fromEncoder {
				var buf bytes.Buffer
				enc, err := avro.NewEncoderFor[c01Tiny](&buf, avro.Compression(codec), l+16)
				if err != nil {
					r.Fail(-1, "roundtrip-write-error", "NewEncoderFor[c01Tiny]: "+err.Error(), nil)
					return
				}
				for i := 0; i < l; i++ {
					v := c01Tiny{V: rowAt(i)}
					if err := enc.Encode(&v); err != nil {
						r.Fail(-1, "roundtrip-write-error", "Encode: "+err.Error(), nil)
						return
					}
				}
				if err := enc.Flush(); err != nil {
					r.Fail(-1, "roundtrip-write-error", "Flush: "+err.Error(), nil)
					return
				}
				file = buf.Bytes()
				// what an independent reader makes of the same bytes (C02)
				if c, perr := parseContainer(file); perr != nil {
					r.Fail(-1, "invalid-container", fmt.Sprintf("one block of %d one-byte rows (%s) written by the Encoder is not a well-formed container: %v", l, codec, perr), map[string]any{"codec": codec, "rows": l})
					break
				} else if l > 0 && (len(c.Blocks) != 1 || c.Blocks[0].Count != int64(l) || len(c.Blocks[0].Payload) != l) {
					r.Fail(-1, "invalid-container", fmt.Sprintf("one block of %d one-byte rows (%s) written by the Encoder: an independent reader finds %d blocks", l, codec, len(c.Blocks)), map[string]any{"codec": codec, "rows": l})
					break
				}
			} else {
				payload := make([]byte, l)
				for i := range payload {
					payload[i] = byte(rowAt(i) * 2)
				}
				ct := &Container{SchemaJSON: []byte(schema), Codec: codec, Sync: randSync(r.Rng), Blocks: []CBlock{{Count: int64(l), Payload: payload}}}
				file = ct.Bytes(false)
			}
			n, bad := 0, ""
			err := func() (err error) {
				defer func() {
					if p := recover(); p != nil {
						err = fmt.Errorf("PANIC: %v", p)
					}
				}()
				return avro.ReadFile(bytes.NewReader(file), c01Tiny{}, func(val unsafe.Pointer, rb *avro.ResourceBank) error {
					if v := (*c01Tiny)(val).V; v != rowAt(n) && bad == "" {
						bad = fmt.Sprintf("row %d is %d, written %d", n, v, rowAt(n))
					}
					n++
					rb.Close()
					return nil
				})
			}()
			r.Count("every-block-length/" + codec)
			if err != nil || n != l || bad != "" {
				who := "the harness's spec writer"
				if fromEncoder {
					who = "the Encoder"
				}
				key := "valid-rejected"
				if fromEncoder {
					key = "roundtrip-read-error"
				}
				r.Fail(-1, key, fmt.Sprintf("one block of %d one-byte rows (%s) written by %s: ReadFile delivered %d rows, error %v %s", l, codec, who, n, err, bad),
					map[string]any{"codec": codec, "rows": l, "writer": who})
				break // one length per codec is enough to report
			}
		}
	}
}
