package main

// C15: schema generation (SchemaForType) is total, deterministic and follows
// the documented mapping.  C20: a registered custom codec governs its type
// everywhere and nothing else.

import (
	"bytes"
	"encoding/json"
	"errors"
	"fmt"
	avronull "github.com/philpearl/avro/null"
	avrotime "github.com/philpearl/avro/time"
	"hash/fnv"
	"math/rand"
	"reflect"
	"sort"
	"strings"
	"sync"
	"time"
	"unsafe"

	"github.com/philpearl/avro"
)

func init() {
	register("C15", "Avro.Corr.Codec", runC15)
	register("C20", "Avro.Corr.Registry", runC20)
	workerFns["c15rec"] = c15RecWorker
	workerFns["c20"] = c20Worker
}

// ===========================================================================
// C15
// ===========================================================================

// ---- the documented mapping, restated over reflect types -------------------
// Written from the property's prose, not from buildschema.go.

func c15Prim(t string) avro.Schema { return avro.Schema{Type: t} }
func c15Nullable(s avro.Schema) avro.Schema {
	return avro.Schema{Type: "union", Union: []avro.Schema{{Type: "null"}, s}}
}

// schemas the library registers for its own types (time.RegisterCodecs, null.RegisterCodecs)
func c15Registered(t reflect.Type) (avro.Schema, bool) {
	switch t {
	case rtTime, rtNullString, rtNullTime:
		return c15Nullable(c15Prim("string")), true
	case rtNullInt:
		return c15Nullable(c15Prim("long")), true
	case rtNullBool:
		return c15Nullable(c15Prim("boolean")), true
	case rtNullFloat:
		return c15Nullable(c15Prim("double")), true
	}
	return avro.Schema{}, false
}

// c15FieldName: the record field name of a struct field, "" when the field is left out.
func c15FieldName(sf reflect.StructField) string {
	if sf.PkgPath != "" { // unexported
		return ""
	}
	if sf.Tag.Get("bq") == "-" {
		return ""
	}
	name := sf.Tag.Get("json")
	if i := strings.IndexByte(name, ','); i >= 0 {
		name = name[:i]
	}
	switch name {
	case "-":
		return ""
	case "":
		return sf.Name
	}
	return name
}

func c15OmitEmpty(sf reflect.StructField) bool {
	parts := strings.Split(sf.Tag.Get("json"), ",")
	for _, o := range parts[1:] {
		if o == "omitempty" {
			return true
		}
	}
	return false
}

func c15Expect(t reflect.Type, stack []reflect.Type) (avro.Schema, bool) {
	if s, ok := c15Registered(t); ok {
		return s, true
	}
	switch t.Kind() {
	case reflect.Bool:
		return c15Prim("boolean"), true
	case reflect.Int, reflect.Int8, reflect.Int16, reflect.Int32, reflect.Int64:
		return c15Prim("long"), true
	case reflect.Float32, reflect.Float64:
		return c15Prim("double"), true
	case reflect.String:
		return c15Prim("string"), true
	case reflect.Slice, reflect.Array:
		if t.Elem().Kind() == reflect.Uint8 {
			return c15Prim("bytes"), true
		}
		it, ok := c15Expect(t.Elem(), stack)
		if !ok {
			return it, false
		}
		return avro.Schema{Type: "array", Object: &avro.SchemaObject{Items: it}}, true
	case reflect.Map:
		vs, ok := c15Expect(t.Elem(), stack)
		if !ok {
			return vs, false
		}
		return avro.Schema{Type: "map", Object: &avro.SchemaObject{Values: vs}}, true
	case reflect.Pointer:
		in, ok := c15Expect(t.Elem(), stack)
		if !ok {
			return in, false
		}
		if in.Type == "union" || in.Type == "array" || in.Type == "map" {
			return in, true
		}
		return c15Nullable(in), true
	case reflect.Struct:
		for _, s := range stack {
			if s == t {
				return avro.Schema{}, false // self-referential
			}
		}
		stack = append(stack, t)
		fields := []avro.SchemaRecordField{}
		for i := 0; i < t.NumField(); i++ {
			sf := t.Field(i)
			name := c15FieldName(sf)
			if name == "" {
				continue
			}
			fs, ok := c15Expect(sf.Type, stack)
			if !ok {
				return fs, false
			}
			if c15OmitEmpty(sf) && fs.Type != "union" {
				fs = c15Nullable(fs)
			}
			fields = append(fields, avro.SchemaRecordField{Name: name, Type: fs})
		}
		ns := strings.ReplaceAll(strings.ReplaceAll(t.PkgPath(), "/", "."), "-", "_")
		return avro.Schema{Type: "record", Object: &avro.SchemaObject{Name: t.Name(), Namespace: ns, Fields: fields}}, true
	}
	return avro.Schema{}, false
}

func c15ExpectTop(t reflect.Type) (avro.Schema, bool) {
	if t == nil {
		return avro.Schema{}, false
	}
	if t.Kind() == reflect.Pointer {
		t = t.Elem()
	}
	if t.Kind() != reflect.Struct {
		return avro.Schema{}, false
	}
	return c15Expect(t, nil)
}

// ---- structural validity of a schema ---------------------------------------------------
var c15KnownTypes = map[string]bool{"null": true, "boolean": true, "int": true, "long": true, "float": true,
	"double": true, "bytes": true, "string": true, "record": true, "enum": true, "array": true, "map": true,
	"union": true, "fixed": true}

type c15Validity struct {
	counts map[string]int
	names  map[string]bool
}

func c15BranchKey(s avro.Schema) string {
	switch s.Type {
	case "record", "enum", "fixed":
		if s.Object != nil {
			return s.Type + ":" + s.Object.Namespace + "." + s.Object.Name
		}
	}
	return s.Type
}

func (v *c15Validity) walk(s avro.Schema, inUnion bool) {
	if !c15KnownTypes[s.Type] {
		v.counts["schema:unknown-type"]++
		return
	}
	switch s.Type {
	case "union":
		if inUnion {
			v.counts["union:nested"]++
		}
		seen := map[string]bool{}
		for _, b := range s.Union {
			k := c15BranchKey(b)
			if seen[k] {
				v.counts["union:repeated-branch"]++
			}
			seen[k] = true
			v.walk(b, true)
		}
	case "record":
		if s.Object == nil {
			v.counts["schema:missing-object"]++
			return
		}
		if s.Object.Name == "" {
			v.counts["record:unnamed"]++
		} else {
			full := s.Object.Namespace + "." + s.Object.Name
			if v.names[full] {
				v.counts["named-type:defined-twice"]++
			}
			v.names[full] = true
		}
		fn := map[string]bool{}
		for _, f := range s.Object.Fields {
			if fn[f.Name] {
				v.counts["record:duplicate-field-name"]++
			}
			fn[f.Name] = true
			v.walk(f.Type, false)
		}
	case "array":
		if s.Object == nil {
			v.counts["schema:missing-object"]++
			return
		}
		v.walk(s.Object.Items, false)
	case "map":
		if s.Object == nil {
			v.counts["schema:missing-object"]++
			return
		}
		v.walk(s.Object.Values, false)
	case "enum", "fixed":
		if s.Object == nil {
			v.counts["schema:missing-object"]++
		}
	default:
		if len(s.Union) != 0 {
			v.counts["schema:stray-union"]++
		}
	}
}

func c15CheckValidity(s avro.Schema) map[string]int {
	v := &c15Validity{counts: map[string]int{}, names: map[string]bool{}}
	v.walk(s, false)
	return v.counts
}

// the same three findings predicted from the Go type alone: a named struct met
// at two kept positions, an anonymous struct, two kept fields with one name
func c15PredictFindings(t reflect.Type) map[string]bool {
	out := map[string]bool{}
	names := map[string]bool{}
	var walk func(t reflect.Type)
	walk = func(t reflect.Type) {
		if _, ok := c15Registered(t); ok {
			return
		}
		switch t.Kind() {
		case reflect.Slice, reflect.Array:
			if t.Elem().Kind() != reflect.Uint8 {
				walk(t.Elem())
			}
		case reflect.Map, reflect.Pointer:
			walk(t.Elem())
		case reflect.Struct:
			if t.Name() == "" {
				out["record:unnamed"] = true
			} else {
				full := t.PkgPath() + "." + t.Name()
				if names[full] {
					out["named-type:defined-twice"] = true
				}
				names[full] = true
			}
			fn := map[string]bool{}
			for i := 0; i < t.NumField(); i++ {
				sf := t.Field(i)
				n := c15FieldName(sf)
				if n == "" {
					continue
				}
				if fn[n] {
					out["record:duplicate-field-name"] = true
				}
				fn[n] = true
				walk(sf.Type)
			}
		}
	}
	if t.Kind() == reflect.Pointer {
		t = t.Elem()
	}
	walk(t)
	return out
}

// c15Buildable: the class of types for which the codec builder must accept the
// generated schema (Coq: codec_buildable).
func c15Buildable(t reflect.Type) bool {
	if _, ok := c15Registered(t); ok {
		return true
	}
	switch t.Kind() {
	case reflect.Bool, reflect.Float32, reflect.Float64, reflect.String, reflect.Int, reflect.Int16, reflect.Int32, reflect.Int64:
		return true
	case reflect.Slice:
		return t.Elem().Kind() == reflect.Uint8 || c15Buildable(t.Elem())
	case reflect.Map:
		return t.Key().Kind() == reflect.String && c15Buildable(t.Elem())
	case reflect.Pointer:
		if t.Name() != "" {
			return false // a defined pointer type: outside the model
		}
		return c15Buildable(t.Elem())
	case reflect.Struct:
		fn := map[string]bool{}
		for i := 0; i < t.NumField(); i++ {
			sf := t.Field(i)
			n := c15FieldName(sf)
			if n == "" {
				continue
			}
			if fn[n] || !c15Buildable(sf.Type) {
				return false
			}
			fn[n] = true
		}
		return true
	}
	return false
}

// ---- one subject ------------------------------------------------------------------
type c15Call struct {
	s     avro.Schema
	err   error
	panic string
}

func c15SchemaFor(item any) (c c15Call) {
	defer func() {
		if p := recover(); p != nil {
			c.panic = fmt.Sprint(p)
		}
	}()
	c.s, c.err = avro.SchemaForType(item)
	return c
}

func structOf(t reflect.Type) reflect.Type {
	for t != nil && t.Kind() == reflect.Pointer {
		t = t.Elem()
	}
	return t
}

func (c c15Call) class() string {
	switch {
	case c.panic != "":
		return "panic"
	case c.err != nil:
		return "err"
	}
	return "ok"
}

type c15State struct {
	r        *Run
	reported map[string]bool
}

// failOnce: one failure per classifier key per run (occurrences are counted in the distribution)
func (st *c15State) failOnce(id int, key, what string, replay any) {
	st.r.Count("finding/" + key)
	if st.reported[key] {
		return
	}
	st.reported[key] = true
	st.r.Fail(id, key, what, replay)
}

func (st *c15State) subject(src, name string, item any) {
	r := st.r
	rt := reflect.TypeOf(item)
	g := gtOf(rt)
	desc := map[string]any{"source": src, "name": name, "type": g.Coq()}
	r.Count("src/" + src)

	// determinism: three calls in sequence, eight concurrently
	first := c15SchemaFor(item)
	calls := []c15Call{first, c15SchemaFor(item), c15SchemaFor(item)}
	var wg sync.WaitGroup
	conc := make([]c15Call, 8)
	for i := range conc {
		wg.Add(1)
		go func(i int) {
			defer wg.Done()
			conc[i] = c15SchemaFor(item)
		}(i)
	}
	wg.Wait()
	calls = append(calls, conc...)
	for i, c := range calls[1:] {
		if c.class() != first.class() || (first.class() == "ok" && !reflect.DeepEqual(c.s, first.s)) {
			r.Fail(-1, "determinism", fmt.Sprintf("call %d returned a different result than the first call", i+1), desc)
			break
		}
	}

	// ... and independent of what an earlier caller did with its result: the top-level
	// record of an unregistered struct type is built afresh by every call, so scribbling
	// over one result (its name and the names in its field list) must not show up in the next
	if _, isReg := c15Registered(structOf(rt)); first.class() == "ok" && !isReg && first.s.Type == "record" && first.s.Object != nil {
		snapshot := schemaJSON(first.s)
		scratch := c15SchemaFor(item)
		if scratch.class() == "ok" && scratch.s.Object != nil {
			scratch.s.Object.Name = "scribbled-by-an-earlier-caller"
			for i := range scratch.s.Object.Fields {
				scratch.s.Object.Fields[i].Name = fmt.Sprintf("scribbled%d", i)
			}
		}
		again := c15SchemaFor(item)
		if again.class() != "ok" || schemaJSON(again.s) != snapshot {
			r.Fail(-1, "determinism:shared-result", "a caller that edits the schema it received changes what the next caller gets for the same type", desc)
		}
		first = again
	}

	impl := "None"
	if first.class() == "ok" {
		impl = cApp("Some", coqSchema(first.s))
		desc["schema"] = schemaJSON(first.s)
	}
	id := r.Add(cApp("KSchema", g.Coq(), impl), desc, "schema/"+g.Coq())
	r.Count("schema/" + first.class())

	if first.class() == "panic" {
		r.Fail(id, "schema:panic", "SchemaForType panics: "+first.panic, desc)
		return
	}

	// the mapping
	want, ok := c15ExpectTop(rt)
	switch {
	case ok && first.err != nil:
		r.Fail(id, "totality:refused-expressible-type", "SchemaForType refuses a type the mapping covers: "+first.err.Error(), desc)
	case !ok && first.err == nil:
		r.Fail(id, "totality:accepted-inexpressible-type", "SchemaForType returns a schema for a type the mapping does not cover", desc)
	case ok && !reflect.DeepEqual(want, first.s):
		desc["want"] = schemaJSON(want)
		r.Fail(id, "mapping:mismatch", "the schema differs from the documented mapping", desc)
	}
	if first.err != nil {
		return
	}
	s := first.s

	// structural validity
	found := c15CheckValidity(s)
	pred := c15PredictFindings(rt)
	for k, n := range found {
		for i := 1; i < n; i++ {
			r.Count("finding/" + k)
		}
		st.failOnce(id, k, fmt.Sprintf("generated schema is not structurally valid Avro (%s, %d occurrence(s))", k, n), desc)
	}
	for k := range pred {
		if found[k] == 0 {
			r.Fail(id, "validity:oracle-disagree", "the type predicts "+k+" but the schema walk does not find it", desc)
		}
	}
	for k := range found {
		if !pred[k] {
			r.Fail(id, "validity:unpredicted:"+k, "the schema walk finds "+k+" which the type does not predict", desc)
		}
	}

	// a codec is built or refused with an error
	top := g
	_, cerr := schemaCodec(s, top.topStruct())
	bid := r.Add(cApp("KBuild", coqSchema(s), g.Coq(), cBool(cerr == nil)), desc, "build/"+g.Coq())
	switch {
	case isPanicErr(cerr):
		r.Count("codec/panic")
		r.Fail(bid, "codec:panic", "Schema.Codec on the generated schema panics: "+cerr.Error(), desc)
	case cerr != nil:
		r.Count("codec/refused")
		st2 := rt
		if st2.Kind() == reflect.Pointer {
			st2 = st2.Elem()
		}
		if c15Buildable(st2) {
			r.Fail(bid, "codec:refused-in-domain", "Schema.Codec refuses the generated schema of a type in the encoder's domain: "+cerr.Error(), desc)
		}
	default:
		r.Count("codec/built")
	}
}

// topStruct: Schema.Codec takes a struct or a pointer to one
func (g *GT) topStruct() *GT {
	if g != nil && g.Kind == "ptr" && g.Elem != nil {
		return g.Elem
	}
	return g
}

// ---- recursive types, in a child process ---------------------------------------------
type c15RecRes struct {
	Class string `json:"class"`
	Msg   string `json:"msg"`
}

func c15RecWorker(arg json.RawMessage) (any, error) {
	var name string
	if err := json.Unmarshal(arg, &name); err != nil {
		return nil, err
	}
	item, ok := c15Recursive[name]
	if !ok {
		item, ok = c15RecursiveAnon[name]
	}
	if !ok {
		return nil, fmt.Errorf("unknown recursive type %q", name)
	}
	s, err := avro.SchemaForType(item)
	if err != nil {
		return c15RecRes{Class: "err", Msg: err.Error()}, nil
	}
	return c15RecRes{Class: "ok", Msg: schemaJSON(s)}, nil
}

// c15LateRegistration: generation is a function of the type and of the registrations in force
// when it is called.  A struct refused because a nested field type has no mapping is generated
// once a schema has been registered for that type — also through types never generated before
// that contain the same inner structs.  (The types are used by this scenario only, so the
// registration stays without effect on the rest of the run.)
type c15AccountID uint64
type c15Account struct {
	ID   c15AccountID `json:"id"`
	Name string       `json:"name"`
}
type c15Ledger struct {
	Owner   c15Account            `json:"owner"`
	Entries []c15Account          `json:"entries"`
	ByName  map[string]c15Account `json:"by_name"`
	N       int64                 `json:"n"`
}
type c15Audit struct {
	Who  *c15Account `json:"who"`
	Book c15Ledger   `json:"book"`
}

func c15LateRegistration(r *Run) {
	r.Count("late-registration")
	desc := map[string]any{"scenario": "SchemaForType(c15Ledger) x3 (refused: uint64-based field type without mapping); RegisterSchema(c15AccountID, long); SchemaForType(c15Ledger); SchemaForType(c15Audit)"}
	call := func(v any) (s avro.Schema, err error) {
		defer func() {
			if p := recover(); p != nil {
				err = fmt.Errorf("PANIC: %v", p)
			}
		}()
		return avro.SchemaForType(v)
	}
	for i := 0; i < 3; i++ {
		if _, err := call(c15Ledger{}); err == nil {
			r.Notes = append(r.Notes, "late-registration: a defined uint64 type has a mapping on this tree; scenario not applicable")
			return
		}
	}
	if _, err := call(c15Account{}); err == nil {
		return
	}
	avro.RegisterSchema(reflect.TypeOf(c15AccountID(0)), avro.Schema{Type: "long"})
	acct := `{"type":"record","name":"c15Account","namespace":"main","fields":[{"name":"id","type":"long"},{"name":"name","type":"string"}]}`
	ledger := `{"type":"record","name":"c15Ledger","namespace":"main","fields":[{"name":"owner","type":` + acct + `},{"name":"entries","type":{"type":"array","items":` + acct + `}},{"name":"by_name","type":{"type":"map","values":` + acct + `}},{"name":"n","type":"long"}]}`
	audit := `{"type":"record","name":"c15Audit","namespace":"main","fields":[{"name":"who","type":["null",` + acct + `]},{"name":"book","type":` + ledger + `}]}`
	for _, c := range []struct {
		name string
		v    any
		want string
	}{{"c15Ledger", c15Ledger{}, ledger}, {"c15Audit", c15Audit{}, audit}, {"c15Account", c15Account{}, acct}, {"c15Ledger again", c15Ledger{}, ledger}} {
		s, err := call(c.v)
		if err != nil {
			r.Fail(-1, "late-registration", fmt.Sprintf("SchemaForType(%s) after a schema was registered for the field type that made it fail: %v", c.name, err), desc)
			continue
		}
		var got, want any
		if json.Unmarshal([]byte(schemaJSON(s)), &got) != nil || json.Unmarshal([]byte(c.want), &want) != nil || !reflect.DeepEqual(got, want) {
			r.Fail(-1, "late-registration", fmt.Sprintf("SchemaForType(%s) after the registration is %s, the documented mapping gives %s", c.name, schemaJSON(s), c.want), desc)
		}
	}
}

func runC15(r *Run) {
	st := &c15State{r: r, reported: map[string]bool{}}

	for _, e := range pool {
		st.subject("pool", e.Name, e.Zero)
		st.subject("pool-ptr", e.Name, reflect.New(reflect.TypeOf(e.Zero)).Interface())
	}
	for i, item := range c15Corner {
		st.subject("corner", fmt.Sprintf("corner-%d:%T", i, item), item)
	}

	c15LateRegistration(r)
	// types whose registered schema is itself a union, in a sequence of struct types (the
	// types belong to this scenario alone, like those of the late registration)
	r.Count("registered-union-history")
	if msg := c20UnionHistoryCheck(); msg != "" {
		r.Fail(-1, "registered-union-history", msg, map[string]any{"scenario": "RegisterSchema(c20Code, [string,null]); RegisterSchema(c20Qty, [long,string,null]); SchemaForType(plain); twice: SchemaForType(opt), SchemaForType(elems), SchemaForType(plain)"})
	}

	// self-referential and mutually recursive types: an error, in a child
	// process in case the stack overflow comes back
	names := make([]string, 0, len(c15Recursive))
	for n := range c15Recursive {
		names = append(names, n)
	}
	sort.Strings(names)
	for _, n := range names {
		g := gtOf(reflect.TypeOf(c15Recursive[n]))
		desc := map[string]any{"source": "recursive", "name": n, "type": g.Coq()}
		var res c15RecRes
		outcome, msg := isolated("c15rec", n, &res, 20*time.Second)
		r.Count("src/recursive")
		switch {
		case outcome != "ok":
			r.Count("schema/" + outcome)
			r.Add(cApp("KSchema", g.Coq(), "None"), desc, "schema/"+g.Coq())
			r.Fail(-1, "recursive-type:"+outcome, "SchemaForType on a recursive type does not return: "+msg, desc)
		case res.Class == "ok":
			r.Count("schema/ok")
			r.Add(cApp("KSchema", g.Coq(), "(Some (GS [] None []))"), desc, "schema/"+g.Coq())
			r.Fail(-1, "recursive-type:accepted", "SchemaForType returns a schema for a recursive type: "+res.Msg, desc)
		default:
			r.Count("schema/err")
			r.Add(cApp("KSchema", g.Coq(), "None"), desc, "schema/"+g.Coq())
			if !strings.Contains(res.Msg, "recursive") {
				r.Notes = append(r.Notes, "recursive type "+n+" refused with: "+res.Msg)
			}
		}
	}

	// the same for cycles that run through a defined slice / map type and anonymous structs
	for _, n := range []string{"AnonDir", "AnonForest", "AnonPtr", "AnonTree"} {
		desc := map[string]any{"source": "recursive", "name": n, "type": fmt.Sprintf("%T", c15RecursiveAnon[n])}
		var res c15RecRes
		outcome, msg := isolated("c15rec", n, &res, 20*time.Second)
		r.Count("src/recursive-anonymous")
		switch {
		case outcome != "ok":
			r.Fail(-1, "recursive-type:"+outcome, "SchemaForType on a type that contains itself through a defined collection type and an anonymous struct does not return: "+msg, desc)
		case res.Class == "ok":
			r.Fail(-1, "recursive-type:accepted", "SchemaForType returns a schema for a recursive type: "+res.Msg, desc)
		}
	}

	// random struct types
	n := r.N(450, 9000)
	for i := 0; i < n; i++ {
		cfg := TypeGenCfg{MaxDepth: 1 + r.Rng.Intn(4), Dynamic: i%2 == 0, AllowUnsupported: i%3 == 0}
		g := genStructType(r.Rng, cfg)
		rt := g.RType()
		if rt.Kind() != reflect.Struct {
			r.Count("gen/unbuildable")
			continue
		}
		src := "gen"
		if cfg.Dynamic {
			src += "-dynamic"
		} else {
			src += "-named"
		}
		if cfg.AllowUnsupported {
			src += "-unsupported"
		}
		var item any
		if r.Rng.Intn(4) == 0 {
			item = reflect.New(rt).Interface()
		} else {
			item = reflect.New(rt).Elem().Interface()
		}
		st.subject(src, fmt.Sprintf("gen-%d", i), item)
	}
	r.Notes = append(r.Notes,
		`tag corner cases observed: json:"-" and json:"-," both exclude the field (encoding/json would name the latter "-"); bq:"-" excludes whatever the json tag says; an empty json name keeps the Go name; omitempty is recognised anywhere after the first comma (",omitempty", "x,omitempty,string", "x,string,omitempty", ",,omitempty") but not with surrounding spaces or as a prefix ("omitemptyx"); embedded structs are not flattened (a field named after the type or its tag); unexported fields, including unexported embedded types, are skipped whatever their type`,
		"SchemaForType(nil) panics (nil reflect.Type): outside the quantifier (not a Go struct type), not counted as a failure")
}

// ===========================================================================
// C20
// ===========================================================================

type c20Step struct {
	Op         string            `json:"op"` // reg | regschema | run
	Type       string            `json:"type,omitempty"`
	K          int64             `json:"k,omitempty"`
	Variant    string            `json:"variant,omitempty"`
	Containers []string          `json:"containers,omitempty"`
	Seed       int64             `json:"seed,omitempty"`
	N          int               `json:"n,omitempty"`
	Hold       bool              `json:"hold,omitempty"`  // keep the codecs built in this step
	Reuse      bool              `json:"reuse,omitempty"` // use the codecs kept by an earlier step
	Schemas    map[string]string `json:"schemas,omitempty"`
	BuildOnly  []string          `json:"build_only,omitempty"`
}

type c20ValRes struct {
	ValCoq     string         `json:"val"`
	Desc       string         `json:"desc"`
	Bytes      []byte         `json:"bytes"`
	WritePanic bool           `json:"wpanic"`
	ReadCoq    string         `json:"read"`
	ReadClass  string         `json:"rclass"`
	ReadMsg    string         `json:"rmsg"`
	Rem        int            `json:"rem"`
	RTEq       bool           `json:"rteq"`
	Where      string         `json:"where"`
	Shape      string         `json:"shape"`
	Valid      string         `json:"valid"`  // "" or why the bytes are not an encoding under the schema
	Datum      string         `json:"datum"`  // canonical decoded datum
	Want       string         `json:"want"`   // canonical datum predicted from the transformed value ("" = not predicted)
	Expect     map[string]int `json:"expect"` // occurrences of each custom type that must be written
	WriteCalls map[string]int `json:"wcalls"`
	ReadCalls  map[string]int `json:"rcalls"`
	SkipCalls  map[string]int `json:"scalls"`
}

type c20ContRes struct {
	Container  string         `json:"container"`
	SchemaErr  string         `json:"schema_err"`
	SchemaCoq  string         `json:"schema_coq"`
	SchemaJSON string         `json:"schema_json"`
	Generated  bool           `json:"generated"` // the schema came from SchemaForType
	BuildErr   string         `json:"build_err"`
	BuildCalls map[string]int `json:"bcalls"`
	Vals       []c20ValRes    `json:"vals"`
}

type c20Held struct {
	s     avro.Schema
	codec avro.Codec
	regK  map[string]int64
}

func c20Hash(s string) int64 {
	h := fnv.New64a()
	h.Write([]byte(s))
	return int64(h.Sum64() >> 1)
}

func c20CallDelta(before, after map[string]c20Counter, f func(c20Counter) int) map[string]int {
	out := map[string]int{}
	for _, n := range c20TypeNames {
		if d := f(after[n]) - f(before[n]); d != 0 {
			out[n] = d
		}
	}
	return out
}

// c20Occurrences: how many values of each custom type a Write of v must pass
// to that type's codec (every occurrence reached through non-nil pointers,
// slice elements, map values and kept struct fields, minus the ones an
// omitempty field leaves out).
func c20Occurrences(t reflect.Type, v reflect.Value, omit bool, out map[string]int) {
	switch t {
	case c20CentsT:
		if !(omit && v.Int() == 0) {
			out["Cents"]++
		}
		return
	case c20TagT:
		if !(omit && v.Len() == 0) {
			out["Tag"]++
		}
		return
	case c20IDsT:
		if !(omit && v.Len() == 0) {
			out["IDs"]++
		}
		return
	case c20PairT:
		out["Pair"]++
		return
	}
	if wrapOfRType(t) != "" {
		return
	}
	switch t.Kind() {
	case reflect.Pointer:
		if !v.IsNil() {
			c20Occurrences(t.Elem(), v.Elem(), false, out)
		}
	case reflect.Slice:
		if t.Elem().Kind() == reflect.Uint8 {
			return
		}
		for i := 0; i < v.Len(); i++ {
			c20Occurrences(t.Elem(), v.Index(i), false, out)
		}
	case reflect.Map:
		it := v.MapRange()
		for it.Next() {
			c20Occurrences(t.Elem(), it.Value(), false, out)
		}
	case reflect.Struct:
		for i := 0; i < t.NumField(); i++ {
			sf := t.Field(i)
			if c15FieldName(sf) == "" {
				continue
			}
			c20Occurrences(sf.Type, v.Field(i), c15OmitEmpty(sf), out)
		}
	}
}

func c20Mentions(t reflect.Type, seen map[reflect.Type]bool, out map[string]bool) {
	if seen[t] {
		return
	}
	seen[t] = true
	switch t {
	case c20CentsT:
		out["Cents"] = true
		return
	case c20TagT:
		out["Tag"] = true
		return
	case c20IDsT:
		out["IDs"] = true
		return
	case c20PairT:
		out["Pair"] = true
		return
	}
	if wrapOfRType(t) != "" {
		return
	}
	switch t.Kind() {
	case reflect.Pointer, reflect.Slice, reflect.Map, reflect.Array:
		c20Mentions(t.Elem(), seen, out)
	case reflect.Struct:
		for i := 0; i < t.NumField(); i++ {
			c20Mentions(t.Field(i).Type, seen, out)
		}
	}
}

// c20Clone: a deep copy (pointers, slices, maps, structs of the harness's own types)
func c20Clone(v reflect.Value) reflect.Value {
	out := reflect.New(v.Type()).Elem()
	c20CopyInto(out, v)
	return out
}

func c20CopyInto(dst, src reflect.Value) {
	t := src.Type()
	if wrapOfRType(t) != "" {
		dst.Set(src)
		return
	}
	switch t.Kind() {
	case reflect.Pointer:
		if !src.IsNil() {
			p := reflect.New(t.Elem())
			c20CopyInto(p.Elem(), src.Elem())
			dst.Set(p)
		}
	case reflect.Slice:
		if !src.IsNil() {
			s := reflect.MakeSlice(t, src.Len(), src.Len())
			for i := 0; i < src.Len(); i++ {
				c20CopyInto(s.Index(i), src.Index(i))
			}
			dst.Set(s)
		}
	case reflect.Map:
		if !src.IsNil() {
			m := reflect.MakeMapWithSize(t, src.Len())
			it := src.MapRange()
			for it.Next() {
				e := reflect.New(t.Elem()).Elem()
				c20CopyInto(e, it.Value())
				m.SetMapIndex(it.Key(), e)
			}
			dst.Set(m)
		}
	case reflect.Struct:
		for i := 0; i < t.NumField(); i++ {
			if dst.Field(i).CanSet() {
				c20CopyInto(dst.Field(i), src.Field(i))
			}
		}
	default:
		dst.Set(src)
	}
}

// c20Transform applies, in place, what the registered custom codecs do to the
// values they are given (Cents: xor k; Tag: reversed), so that the plain
// value-to-datum relation predicts the written datum.  collide: a non-zero
// omitempty Cents whose stored form is zero (the prediction would call it null).
func c20Transform(t reflect.Type, v reflect.Value, reg map[string]int64, omit bool, collide *bool) {
	switch t {
	case c20CentsT:
		if k, ok := reg["Cents"]; ok {
			x := v.Int()
			if omit && x == 0 {
				return
			}
			if omit && x^k == 0 {
				*collide = true
			}
			v.SetInt(x ^ k)
		}
		return
	case c20TagT:
		if _, ok := reg["Tag"]; ok {
			v.SetString(c20Reverse(v.String()))
		}
		return
	case c20IDsT, c20PairT:
		return
	}
	if wrapOfRType(t) != "" {
		return
	}
	switch t.Kind() {
	case reflect.Pointer:
		if !v.IsNil() {
			c20Transform(t.Elem(), v.Elem(), reg, false, collide)
		}
	case reflect.Slice:
		if t.Elem().Kind() == reflect.Uint8 {
			return
		}
		for i := 0; i < v.Len(); i++ {
			c20Transform(t.Elem(), v.Index(i), reg, false, collide)
		}
	case reflect.Map:
		it := v.MapRange()
		for it.Next() {
			e := reflect.New(t.Elem()).Elem()
			e.Set(it.Value())
			c20Transform(t.Elem(), e, reg, false, collide)
			v.SetMapIndex(it.Key(), e)
		}
	case reflect.Struct:
		for i := 0; i < t.NumField(); i++ {
			sf := t.Field(i)
			if c15FieldName(sf) == "" || !v.Field(i).CanSet() {
				continue
			}
			c20Transform(sf.Type, v.Field(i), reg, c15OmitEmpty(sf), collide)
		}
	}
}

func c20CanonDatum(d *Datum) *Datum {
	if d == nil {
		return nil
	}
	out := *d
	out.Items = nil
	out.Keys = nil
	switch d.K {
	case "map":
		for _, i := range mapOrder(d, true) {
			out.Keys = append(out.Keys, d.Keys[i])
			out.Items = append(out.Items, c20CanonDatum(d.Items[i]))
		}
	default:
		for _, x := range d.Items {
			out.Items = append(out.Items, c20CanonDatum(x))
		}
		out.Keys = d.Keys
	}
	if d.Inner != nil {
		out.Inner = c20CanonDatum(d.Inner)
	}
	return &out
}

// ---- the child: one scenario per process -----------------------------------------------
func c20Worker(arg json.RawMessage) (any, error) {
	var steps []c20Step
	if err := json.Unmarshal(arg, &steps); err != nil {
		return nil, err
	}
	regK := map[string]int64{} // the current registration of each custom type
	held := map[string]c20Held{}
	var out [][]c20ContRes
	for _, st := range steps {
		switch st.Op {
		case "reg":
			avro.Register(c20TypeOf(st.Type), c20Builder(st.Type, st.K))
			regK[st.Type] = st.K
		case "regschema":
			avro.RegisterSchema(c20TypeOf(st.Type), c20RegSchema(st.Type, st.Variant))
		case "run":
			out = append(out, c20RunStep(st, regK, held))
		case "anon":
			out = append(out, []c20ContRes{{Container: "anon-check", SchemaErr: c20AnonCheck()}})
		case "relib":
			out = append(out, []c20ContRes{{Container: "anon-check", SchemaErr: c20RelibCheck()}})
		case "enumreg":
			out = append(out, []c20ContRes{{Container: "anon-check", SchemaErr: c20EnumCheck()}})
		case "unionhist":
			out = append(out, []c20ContRes{{Container: "anon-check", SchemaErr: c20UnionHistoryCheck()}})
		case "strictrereg":
			out = append(out, []c20ContRes{{Container: "anon-check", SchemaErr: c20StrictReRegistration()}})
		case "codeccontract":
			out = append(out, []c20ContRes{{Container: "anon-check", SchemaErr: c20CodecContract()}})
		default:
			return nil, fmt.Errorf("unknown step %q", st.Op)
		}
	}
	return out, nil
}

func c20CopyReg(m map[string]int64) map[string]int64 {
	out := map[string]int64{}
	for k, v := range m {
		out[k] = v
	}
	return out
}

func c20RunStep(st c20Step, regK map[string]int64, held map[string]c20Held) []c20ContRes {
	buildOnly := map[string]bool{}
	for _, n := range st.BuildOnly {
		buildOnly[n] = true
	}
	var out []c20ContRes
	for _, name := range st.Containers {
		zero := c20Zero(name)
		if zero == nil {
			out = append(out, c20ContRes{Container: name, SchemaErr: "unknown container"})
			continue
		}
		rt := reflect.TypeOf(zero)
		g := gtOf(rt)
		res := c20ContRes{Container: name}
		var s avro.Schema
		var codec avro.Codec
		effective := regK
		if st.Reuse {
			h, ok := held[name]
			if !ok {
				res.SchemaErr = "nothing held"
				out = append(out, res)
				continue
			}
			s, codec, effective = h.s, h.codec, h.regK
			res.SchemaCoq, res.SchemaJSON = coqSchema(s), schemaJSON(s)
		} else {
			before := c20Snapshot()
			if js, ok := st.Schemas[name]; ok {
				var err error
				if s, err = avro.SchemaFromString(js); err != nil {
					res.SchemaErr = "bad caller schema: " + err.Error()
					out = append(out, res)
					continue
				}
			} else {
				c := c15SchemaFor(zero)
				if c.class() != "ok" {
					res.SchemaErr = c.class()
					res.Generated = true
					out = append(out, res)
					continue
				}
				s = c.s
				res.Generated = true
			}
			res.SchemaCoq, res.SchemaJSON = coqSchema(s), schemaJSON(s)
			var err error
			codec, err = schemaCodec(s, g)
			res.BuildCalls = c20CallDelta(before, c20Snapshot(), func(c c20Counter) int { return c.Build })
			if err != nil {
				res.BuildErr = err.Error()
				out = append(out, res)
				continue
			}
			if st.Hold {
				held[name] = c20Held{s: s, codec: codec, regK: c20CopyReg(regK)}
			}
		}
		if buildOnly[name] {
			out = append(out, res)
			continue
		}
		mentions := map[string]bool{}
		c20Mentions(rt, map[reflect.Type]bool{}, mentions)
		rng := rand.New(rand.NewSource(st.Seed ^ c20Hash(name)))
		for i := 0; i < st.N; i++ {
			v := genValue(rng, g)
			if i == 0 {
				v = zeroVal(g) // the zero value first: nil pointers, nil collections, zero omitempty fields
			}
			zeroExcluded(g, v)
			normaliseOmitZero(g, v, false)
			vr := c20ValRes{ValCoq: coqVal(g, v), Desc: fmt.Sprint(descVal(g, v)), Shape: findingShape(g, v), Expect: map[string]int{}}
			c20Occurrences(rt, v, false, vr.Expect)

			before := c20Snapshot()
			bs, panicked := implWrite(codec, v)
			mid := c20Snapshot()
			vr.Bytes, vr.WritePanic = bs, panicked
			vr.WriteCalls = c20CallDelta(before, mid, func(c c20Counter) int { return c.Write })
			if !panicked {
				d, rest, err := decodeDatum(s, bs)
				switch {
				case err != nil:
					vr.Valid = "not an encoding under the schema: " + err.Error()
				case len(rest) != 0:
					vr.Valid = fmt.Sprintf("%d bytes follow the encoding", len(rest))
				default:
					vr.Datum = coqDatum(c20CanonDatum(d))
					if len(mentions) > 0 {
						// predicted from the value the custom codecs hand to the inner codecs
						collide := false
						tv := c20Clone(v)
						c20Transform(rt, tv, effective, false, &collide)
						if want, ok := datumOfValue(s, g, tv); ok && !collide {
							vr.Want = coqDatum(c20CanonDatum(want))
						}
					} else if want, ok := datumOfValue(s, g, v); ok {
						vr.Want = coqDatum(c20CanonDatum(want))
					}
				}
				got := implRead(codec, g, bs)
				after := c20Snapshot()
				vr.ReadCalls = c20CallDelta(mid, after, func(c c20Counter) int { return c.Read })
				vr.SkipCalls = c20CallDelta(mid, after, func(c c20Counter) int { return c.Skip })
				vr.ReadCoq, vr.ReadClass, vr.ReadMsg, vr.Rem = got.coq(), got.Class, got.Msg, got.Rem
				if got.Class == "ok" {
					vr.RTEq, vr.Where = normEq(g, v, got.Val)
				}
			}
			res.Vals = append(res.Vals, vr)
		}
		out = append(out, res)
	}
	return out
}

// ---- the parent ----------------------------------------------------------------------
type c20Parent struct {
	r       *Run
	ids     map[string]int // registry identity of each custom type
	gts     map[string]*GT
	frame   map[string][]string // (container, seed, effective registrations of the types it mentions) -> canonical datums
	sframe  map[string]string   // (container, effective schema registrations) -> schema JSON
	nscen   int
	reports map[string]bool
}

func (p *c20Parent) failOnce(id int, key, what string, replay any) {
	p.r.Count("failure/" + key)
	if p.reports[key] {
		return
	}
	p.reports[key] = true
	p.r.Fail(id, key, what, replay)
}

// c20WrapPair: gtOf describes a named struct type as a struct; a registered one
// needs its identity, so Pair is printed as (TNamed id (TStruct ...)).
func c20WrapPair(g *GT, id int) *GT {
	if g == nil {
		return nil
	}
	if g.Kind == "struct" && g.rt == c20PairT {
		return &GT{Kind: "named", ID: id, Elem: g, Name: "Pair", Pkg: g.Pkg, rt: c20PairT}
	}
	g.Elem = c20WrapPair(g.Elem, id)
	g.Key = c20WrapPair(g.Key, id)
	for i := range g.Fields {
		g.Fields[i].T = c20WrapPair(g.Fields[i].T, id)
	}
	return g
}

func (p *c20Parent) gt(name string) *GT {
	if g, ok := p.gts[name]; ok {
		return g
	}
	g := c20WrapPair(gtOf(reflect.TypeOf(c20Zero(name))), p.ids["Pair"])
	p.gts[name] = g
	return g
}

type c20RegEvent struct {
	Type string
	K    int64
}
type c20SRegEvent struct {
	Type, Variant string
}

func (p *c20Parent) coqRegs(evs []c20RegEvent) string {
	items := make([]string, len(evs))
	for i, e := range evs {
		items[i] = cPair(cZ(int64(p.ids[e.Type])), cZ(e.K))
	}
	return cList(items)
}

func (p *c20Parent) coqSRegs(evs []c20SRegEvent) string {
	items := make([]string, len(evs))
	for i, e := range evs {
		items[i] = cPair(cZ(int64(p.ids[e.Type])), coqSchema(c20RegSchema(e.Type, e.Variant)))
	}
	return cList(items)
}

func c20Effective(evs []c20RegEvent) map[string]int64 {
	out := map[string]int64{}
	for _, e := range evs {
		out[e.Type] = e.K
	}
	return out
}

func c20EffectiveS(evs []c20SRegEvent) map[string]string {
	out := map[string]string{}
	for _, e := range evs {
		out[e.Type] = e.Variant
	}
	return out
}

// scenario runs the steps in a fresh child process and judges every run step.
func (p *c20Parent) scenario(label string, steps []c20Step, noOracle bool) {
	r := p.r
	p.nscen++
	r.Count("scenario/" + label)
	stopWorkers() // the registry of a process is permanent: every scenario gets a new child
	var results [][]c20ContRes
	outcome, msg := isolated("c20", steps, &results, 120*time.Second)
	stopWorkers()
	if outcome != "ok" {
		r.Fail(-1, "scenario:"+outcome, "scenario "+label+" did not complete: "+msg, map[string]any{"scenario": label, "steps": steps})
		return
	}
	var regs []c20RegEvent
	var sregs []c20SRegEvent
	heldRegs := map[string][]c20RegEvent{}
	ri := 0
	for _, st := range steps {
		switch st.Op {
		case "reg":
			regs = append(regs, c20RegEvent{st.Type, st.K})
			continue
		case "regschema":
			sregs = append(sregs, c20SRegEvent{st.Type, st.Variant})
			continue
		}
		if ri >= len(results) {
			r.Fail(-1, "scenario:short", "scenario "+label+" returned too few results", nil)
			return
		}
		conts := results[ri]
		ri++
		if st.Op == "anon" || st.Op == "relib" || st.Op == "enumreg" || st.Op == "unionhist" || st.Op == "strictrereg" || st.Op == "codeccontract" {
			r.Count("anon-registration")
			if len(conts) == 1 && conts[0].SchemaErr != "" {
				p.failOnce(-1, "registration-of-unnamed-type", conts[0].SchemaErr, map[string]any{"scenario": label})
			}
			continue
		}
		for _, c := range conts {
			cregs := regs
			if st.Reuse {
				cregs = heldRegs[c.Container]
			} else if st.Hold {
				heldRegs[c.Container] = append([]c20RegEvent(nil), regs...)
			}
			p.judge(label, st, c, cregs, sregs, noOracle)
		}
	}
}

func (p *c20Parent) judge(label string, st c20Step, c c20ContRes, regs []c20RegEvent, sregs []c20SRegEvent, noOracle bool) {
	r := p.r
	g := p.gt(c.Container)
	rt := reflect.TypeOf(c20Zero(c.Container))
	eff := c20Effective(regs)
	effS := c20EffectiveS(sregs)
	mentions := map[string]bool{}
	c20Mentions(rt, map[reflect.Type]bool{}, mentions)
	base := map[string]any{"scenario": label, "container": c.Container, "registrations": regs, "schema_registrations": sregs,
		"reuse": st.Reuse, "seed": st.Seed}
	r.Count("container/" + c.Container)
	if st.Reuse {
		r.Count("codec/reused-after-reregistration")
	}

	// schema generation
	if c.Generated && !st.Reuse {
		impl := "None"
		if c.SchemaErr == "" {
			impl = cApp("Some", c.SchemaCoq)
		}
		id := r.Add(cApp("KRegSchema", p.coqSRegs(sregs), g.Coq(), impl), base, "schema/"+c.Container+"/"+fmt.Sprint(effS))
		if c.SchemaErr != "" {
			p.failOnce(id, "schema-error", "SchemaForType fails on a container type: "+c.SchemaErr, base)
			return
		}
		// nothing else: the schema depends only on the schema registrations of the types that occur
		sig := c.Container
		for _, n := range c20TypeNames {
			if mentions[n] {
				v, ok := effS[n]
				sig += fmt.Sprintf("|%s=%v:%s", n, ok, v)
			}
		}
		if prev, ok := p.sframe[sig]; ok && prev != c.SchemaJSON {
			p.failOnce(id, "frame:schema-differs", "the generated schema changed although no schema registration of an occurring type did", base)
		}
		p.sframe[sig] = c.SchemaJSON
		// the registered schema is what is emitted at the type: predicted from the mapping with the registry
		if want, ok := c20ExpectSchema(rt, effS); !ok || schemaJSON(want) != c.SchemaJSON {
			d := map[string]any{"got": c.SchemaJSON, "want": schemaJSON(want)}
			for k, v := range base {
				d[k] = v
			}
			p.failOnce(id, "schema:registered-not-emitted", "the generated schema is not the mapping with the registered schemas in place", d)
		}
	} else if c.SchemaErr != "" {
		p.failOnce(-1, "harness:"+c.SchemaErr, "container could not be run", base)
		return
	}

	// the codec
	if !st.Reuse {
		id := r.Add(cApp("KRegBuild", p.coqRegs(regs), c.SchemaCoq, g.Coq(), cBool(c.BuildErr == "")), base,
			"build/"+c.Container+"/"+c.SchemaJSON+"/"+fmt.Sprint(eff))
		if strings.HasPrefix(c.BuildErr, "PANIC") {
			p.failOnce(id, "build-panic", c.BuildErr, base)
		}
		if c.BuildErr != "" {
			r.Count("build/refused")
			if c.Generated {
				p.failOnce(id, "build:refused-generated-schema", "Schema.Codec refuses the generated schema: "+c.BuildErr, base)
			}
			return
		}
		r.Count("build/ok")
		if !noOracle {
			for _, n := range c20TypeNames {
				_, registered := eff[n]
				switch {
				case registered && mentions[n] && c.BuildCalls[n] == 0:
					p.failOnce(id, "custom-builder:not-called", "the builder registered for "+n+" was not called for a type that contains it", base)
				case !registered && c.BuildCalls[n] != 0:
					p.failOnce(id, "custom-builder:called-unregistered", "a builder for "+n+" ran without a registration", base)
				case registered && !mentions[n] && c.BuildCalls[n] != 0:
					p.failOnce(id, "custom-builder:called-elsewhere", "the builder for "+n+" ran for a type that does not contain it", base)
				}
			}
		}
	}

	// values
	sig := fmt.Sprintf("%s|%d|%s", c.Container, st.Seed, c.SchemaJSON)
	for _, n := range c20TypeNames {
		if mentions[n] {
			k, ok := eff[n]
			if n != "Cents" { // only Cents' k is visible on the wire
				k = 0
			}
			sig += fmt.Sprintf("|%s=%v:%d", n, ok, k)
		}
	}
	var datums []string
	comparable := true
	for i, v := range c.Vals {
		vd := map[string]any{"value": v.Desc, "bytes": hexs(v.Bytes), "index": i}
		for k, x := range base {
			vd[k] = x
		}
		// shapes outside the property: the known value-level findings of C01
		_, idsReg := eff["IDs"]
		switch {
		case v.Shape == "ptr-to-collection:nil" && idsReg && mentions["IDs"]:
			// handled below: a registered named slice behind a nil pointer
		case v.Shape != "":
			r.Count("skipped/" + v.Shape)
			comparable = false
			continue
		}
		r.Count("values")
		wid := r.Add(cApp("KRegWrite", p.coqRegs(regs), c.SchemaCoq, g.Coq(), v.ValCoq, cOptBytes(v.Bytes, v.WritePanic)), vd,
			fmt.Sprintf("write/%s/%x/%v", c.Container, v.Bytes, eff))
		if v.WritePanic {
			p.failOnce(wid, "write-panic", "Codec.Write panics", vd)
			comparable = false
			continue
		}
		rid := r.Add(cApp("KRegRead", p.coqRegs(regs), c.SchemaCoq, g.Coq(), cBytes(v.Bytes), v.ReadCoq), vd,
			fmt.Sprintf("read/%s/%x/%v", c.Container, v.Bytes, eff))
		datums = append(datums, v.Datum)
		key := func(other string) string {
			if v.Shape == "ptr-to-collection:nil" {
				return "ptr-to-custom-collection:nil"
			}
			return other
		}
		if v.Valid != "" {
			p.failOnce(wid, key("payload-not-avro"), "written bytes are not a valid encoding under the schema: "+v.Valid, vd)
			continue
		}
		if noOracle {
			continue
		}
		collNil := v.Shape == "ptr-to-collection:nil"
		if v.Want != "" && v.Want != v.Datum && !collNil {
			vd2 := map[string]any{"got": trunc200(v.Datum), "want": trunc200(v.Want)}
			for k, x := range vd {
				vd2[k] = x
			}
			p.failOnce(wid, key("wrong-datum"), "written bytes do not decode to the datum the (custom-transformed) value denotes", vd2)
		}
		if collNil {
			// a nil pointer to a registered slice type: the encoding must be valid (the
			// empty collection); that nil then reads back as a pointer to an empty
			// collection is the value-level finding of C01 (its schema has no null)
			r.Count("validity-only/ptr-to-collection:nil")
			if v.ReadClass != "ok" || v.Rem != 0 {
				p.failOnce(rid, key("roundtrip-read-error"), "reading back fails: "+v.ReadClass+" "+v.ReadMsg, vd)
			}
			continue
		}
		switch {
		case v.ReadClass != "ok":
			p.failOnce(rid, key("roundtrip-read-error"), "reading back fails: "+v.ReadClass+" "+v.ReadMsg, vd)
		case v.Rem != 0:
			p.failOnce(rid, key("roundtrip-leftover"), fmt.Sprintf("%d bytes left after reading back", v.Rem), vd)
		case !v.RTEq:
			p.failOnce(rid, key("roundtrip-value"), "value differs after the round trip at "+v.Where, vd)
		}
		// the custom codec was called exactly where the type occurs, and nowhere without a registration
		for _, n := range c20TypeNames {
			_, registered := eff[n]
			want := 0
			if registered {
				want = v.Expect[n]
			}
			if v.WriteCalls[n] != want {
				p.failOnce(wid, "custom-codec:write-calls", fmt.Sprintf("%s codec: %d Write calls, %d occurrences to write (registered=%v)", n, v.WriteCalls[n], want, registered), vd)
			}
			if v.ReadClass == "ok" && v.ReadCalls[n] != want {
				p.failOnce(rid, "custom-codec:read-calls", fmt.Sprintf("%s codec: %d Read calls, %d occurrences written (registered=%v)", n, v.ReadCalls[n], want, registered), vd)
			}
			if v.SkipCalls[n] != 0 {
				p.failOnce(rid, "custom-codec:skip-calls", n+" codec: Skip called while reading into a type that has every field", vd)
			}
		}
	}
	// nothing else: same container, same values, same effective registrations of the
	// types it mentions => same datums, whatever else was registered, in whatever order
	if comparable && len(datums) > 0 {
		if prev, ok := p.frame[sig]; ok {
			same := len(prev) == len(datums)
			for i := 0; same && i < len(prev); i++ {
				same = prev[i] == datums[i]
			}
			if !same {
				p.failOnce(-1, "frame:bytes-differ", "the same values were written differently although no registration of an occurring type differs", base)
			}
			r.Count("frame/compared")
		} else {
			p.frame[sig] = datums
		}
	}
}

func trunc200(s string) string {
	if len(s) > 200 {
		return s[:200] + "..."
	}
	return s
}

// c20ExpectSchema: the documented mapping with user registrations in place.
func c20ExpectSchema(t reflect.Type, effS map[string]string) (avro.Schema, bool) {
	var rec func(t reflect.Type, stack []reflect.Type) (avro.Schema, bool)
	rec = func(t reflect.Type, stack []reflect.Type) (avro.Schema, bool) {
		for _, n := range c20TypeNames {
			if t == c20TypeOf(n) {
				if v, ok := effS[n]; ok {
					return c20RegSchema(n, v), true
				}
			}
		}
		if s, ok := c15Registered(t); ok {
			return s, true
		}
		switch t.Kind() {
		case reflect.Slice, reflect.Array:
			if t.Elem().Kind() == reflect.Uint8 {
				return c15Prim("bytes"), true
			}
			it, ok := rec(t.Elem(), stack)
			return avro.Schema{Type: "array", Object: &avro.SchemaObject{Items: it}}, ok
		case reflect.Map:
			vs, ok := rec(t.Elem(), stack)
			return avro.Schema{Type: "map", Object: &avro.SchemaObject{Values: vs}}, ok
		case reflect.Pointer:
			in, ok := rec(t.Elem(), stack)
			if !ok || in.Type == "union" || in.Type == "array" || in.Type == "map" {
				return in, ok
			}
			return c15Nullable(in), true
		case reflect.Struct:
			for _, s := range stack {
				if s == t {
					return avro.Schema{}, false
				}
			}
			stack = append(stack, t)
			fields := []avro.SchemaRecordField{}
			for i := 0; i < t.NumField(); i++ {
				sf := t.Field(i)
				name := c15FieldName(sf)
				if name == "" {
					continue
				}
				fs, ok := rec(sf.Type, stack)
				if !ok {
					return fs, false
				}
				if c15OmitEmpty(sf) && fs.Type != "union" {
					fs = c15Nullable(fs)
				}
				fields = append(fields, avro.SchemaRecordField{Name: name, Type: fs})
			}
			ns := strings.ReplaceAll(strings.ReplaceAll(t.PkgPath(), "/", "."), "-", "_")
			return avro.Schema{Type: "record", Object: &avro.SchemaObject{Name: t.Name(), Namespace: ns, Fields: fields}}, true
		}
		return c15Expect(t, stack)
	}
	if t.Kind() == reflect.Pointer {
		t = t.Elem()
	}
	return rec(t, nil)
}

var c20Ks = []int64{6510615555426900570, -5124095576030431, 1099511640121, 81985529216486895}

var c20AllContainers = []string{"C20A", "C20B", "C20PI", "C20PP", "C20OnlyCents", "C20OnlyTag", "C20Plain", "C20W", "C20In", "Pair",
	"P01", "P08", "P15", "P16", "P26"}

func c20RegAll(order []string, k int64) []c20Step {
	var steps []c20Step
	for _, n := range order {
		steps = append(steps, c20Step{Op: "reg", Type: n, K: k}, c20Step{Op: "regschema", Type: n})
	}
	return steps
}

func runC20(r *Run) {
	p := &c20Parent{r: r, ids: map[string]int{}, gts: map[string]*GT{}, frame: map[string][]string{}, sframe: map[string]string{}, reports: map[string]bool{}}
	for _, n := range c20TypeNames {
		p.ids[n] = namedID(c20TypeOf(n))
	}
	nv := r.N(3, 12)
	seed := r.Rng.Int63()
	// every scenario runs the shared seed (so that scenarios can be compared with
	// each other) and a seed of its own (for variety)
	run := func(cs []string) c20Step { return c20Step{Op: "run", Containers: cs, Seed: seed, N: nv} }
	fresh := func(cs []string) c20Step { return c20Step{Op: "run", Containers: cs, Seed: r.Rng.Int63(), N: nv} }
	k1, k2 := c20Ks[0], c20Ks[1]

	// no registration at all: the baseline every other scenario is compared with
	p.scenario("none", []c20Step{run(c20AllContainers), fresh(c20AllContainers)}, false)
	// all four, in both orders: the same codecs
	p.scenario("all:forward", append(c20RegAll([]string{"Cents", "Tag", "Pair", "IDs"}, k1), run(c20AllContainers), fresh(c20AllContainers)), false)
	p.scenario("all:reverse", append(c20RegAll([]string{"IDs", "Pair", "Tag", "Cents"}, k1), run(c20AllContainers), fresh(c20AllContainers)), false)
	// one type only: the others behave as their underlying kinds
	for _, n := range c20TypeNames {
		p.scenario("only:"+n, append(c20RegAll([]string{n}, k1), run(c20AllContainers), fresh(c20AllContainers)), false)
	}
	// the most recent registration wins (codec builder and schema)
	p.scenario("twice:codec", []c20Step{
		{Op: "reg", Type: "Cents", K: k2}, {Op: "regschema", Type: "Cents"}, {Op: "reg", Type: "Cents", K: k1},
		run(c20AllContainers), fresh(c20AllContainers)}, false)
	p.scenario("twice:schema", []c20Step{
		{Op: "reg", Type: "Cents", K: k1}, {Op: "regschema", Type: "Cents", Variant: "alt"}, {Op: "regschema", Type: "Cents"},
		{Op: "reg", Type: "IDs", K: k1}, {Op: "regschema", Type: "IDs"}, {Op: "regschema", Type: "IDs", Variant: "alt"},
		{Op: "reg", Type: "Pair", K: k1}, {Op: "regschema", Type: "Pair", Variant: "alt"},
		run([]string{"C20A", "C20B", "C20OnlyCents", "C20In", "Pair", "C20Plain"})}, false)
	// the two registries are independent: a builder registered after a schema (and replaced again
	// later) leaves the registered schema in force — shown with schemas that differ from what the
	// types would get on their own
	p.scenario("schema-then-codec", []c20Step{
		{Op: "regschema", Type: "Cents", Variant: "alt"}, {Op: "regschema", Type: "Tag", Variant: "nullfirst"},
		{Op: "regschema", Type: "IDs", Variant: "alt"}, {Op: "regschema", Type: "Pair", Variant: "alt"},
		{Op: "reg", Type: "Cents", K: k1}, {Op: "reg", Type: "Tag", K: k1}, {Op: "reg", Type: "IDs", K: k1}, {Op: "reg", Type: "Pair", K: k1},
		run(c20AllContainers),
		{Op: "reg", Type: "Cents", K: k2}, {Op: "reg", Type: "Pair", K: k2},
		run(c20AllContainers), fresh(c20AllContainers)}, false)
	// a codec registered without a schema, a schema registered without a codec
	p.scenario("codec-without-schema", []c20Step{
		{Op: "reg", Type: "Cents", K: k2}, {Op: "reg", Type: "Tag", K: k2}, {Op: "reg", Type: "Pair", K: k2}, {Op: "reg", Type: "IDs", K: k2},
		run(c20AllContainers), fresh(c20AllContainers)}, false)
	p.scenario("schema-without-codec", []c20Step{
		{Op: "regschema", Type: "Cents"}, {Op: "regschema", Type: "Tag"}, {Op: "regschema", Type: "Pair", Variant: "alt"}, {Op: "regschema", Type: "IDs"},
		run(c20AllContainers), fresh(c20AllContainers)}, false)
	// re-registration after a codec was built for a containing type: the codec that
	// exists keeps the builder it was built with; a codec built afterwards gets the new one
	late := []string{"C20A", "C20OnlyCents", "C20In", "C20PP"}
	p.scenario("late-registration", []c20Step{
		{Op: "reg", Type: "Cents", K: k1}, {Op: "regschema", Type: "Cents"},
		{Op: "run", Containers: late, Seed: seed, N: nv, Hold: true},
		{Op: "reg", Type: "Cents", K: k2}, {Op: "reg", Type: "Tag", K: k2},
		{Op: "run", Containers: late, Seed: seed, N: nv, Reuse: true},
		{Op: "run", Containers: late, Seed: seed, N: nv},
	}, false)
	// a schema registered (or replaced) after a schema was already generated for a
	// containing type: generation is a function of the type and the registrations
	// in force when it is called, not of earlier calls
	p.scenario("late-schema-registration", []c20Step{
		{Op: "run", Containers: c20AllContainers, Seed: seed, N: nv},
		{Op: "regschema", Type: "Cents"}, {Op: "regschema", Type: "IDs", Variant: "alt"},
		{Op: "run", Containers: c20AllContainers, Seed: seed, N: nv},
		{Op: "regschema", Type: "Cents", Variant: "alt"}, {Op: "regschema", Type: "Pair", Variant: "alt"}, {Op: "regschema", Type: "Tag"},
		{Op: "run", Containers: c20AllContainers, Seed: seed, N: nv},
		{Op: "reg", Type: "Cents", K: k1}, {Op: "regschema", Type: "Cents"},
		{Op: "run", Containers: c20AllContainers, Seed: seed, N: nv},
	}, false)
	// a registered schema that is itself a nullable union, null first or second: emitted as
	// registered in every position (never wrapped in a second union)
	p.scenario("registered-union-schema", []c20Step{
		{Op: "reg", Type: "Tag", K: k1}, {Op: "regschema", Type: "Tag", Variant: "nullfirst"},
		run(c20AllContainers),
		{Op: "regschema", Type: "Tag", Variant: "nullsecond"},
		run(c20AllContainers), fresh(c20AllContainers)}, false)
	// RegisterSchema takes any reflect.Type: a registration for a type that is not a
	// defined type ([16]byte, map[string]any) governs it like any other
	p.scenario("unnamed-type-registration", []c20Step{{Op: "anon"}}, true)
	// the library's own RegisterCodecs calls are registrations like any other: called again
	// after an application registered something else for time.Time, they are the latest
	p.scenario("library-registration-again", []c20Step{{Op: "relib"}}, true)
	// a registration is the only way to use a schema kind the library has no codec of its own for
	// (enum): the registered builder governs the type in every position, whatever the schema says
	p.scenario("registered-enum-schema", []c20Step{{Op: "enumreg"}}, true)
	// a registered schema that is itself a union (null second, and three branches), used plain,
	// behind omitempty, behind a pointer and as an element, in several struct types one after the
	// other: what generation emits for one struct does not depend on what was generated before
	p.scenario("registered-union-history", []c20Step{{Op: "unionhist"}}, true)
	// the latest registration wins also when it REFUSES what the one it replaced accepted
	p.scenario("stricter-re-registration", []c20Step{{Op: "strictrereg"}}, true)
	// what a reasonable custom codec relies on: it may be a value of any Go type (a struct
	// carrying a slice is not comparable), and Write is called once per encoded value, never for
	// values the caller did not encode
	p.scenario("codec-contract", []c20Step{{Op: "codeccontract"}}, true)
	// registration only after a first codec was built without any
	p.scenario("first-after-build", []c20Step{
		{Op: "run", Containers: late, Seed: seed, N: nv, Hold: true},
		{Op: "reg", Type: "Cents", K: k1}, {Op: "reg", Type: "Tag", K: k1},
		{Op: "run", Containers: late, Seed: seed, N: nv, Reuse: true},
		{Op: "run", Containers: late, Seed: seed, N: nv},
	}, false)

	// caller-supplied schemas: the custom type under right and wrong schemas,
	// nullable unions in both orders, general unions, null
	rec := func(field, ft string) string {
		return `{"type":"record","name":"r","fields":[{"name":"` + field + `","type":` + ft + `}]}`
	}
	pairRec := func(fields string) string { return `{"type":"record","name":"Pair","fields":[` + fields + `]}` }
	matrix := map[string][]string{
		"C20OneC": {`"long"`, `"int"`, `["null","long"]`, `["long","null"]`, `"string"`, `"double"`, `"boolean"`,
			`{"type":"array","items":"long"}`, `["null","string"]`, `["long","string"]`, `"null"`,
			`{"type":"long","logicalType":"timestamp-micros"}`, `["null","int"]`, `"bytes"`},
		"C20OneT": {`"string"`, `"bytes"`, `["null","string"]`, `["string","null"]`, `"long"`, `["string","long"]`, `"null"`},
		"C20OneP": {pairRec(`{"name":"A","type":"long"},{"name":"B","type":"long"}`), pairRec(`{"name":"A","type":"long"}`),
			pairRec(`{"name":"B","type":"int"},{"name":"A","type":["null","long"]}`), `"long"`,
			`["null",` + pairRec(`{"name":"A","type":"long"},{"name":"B","type":"long"}`) + `]`,
			`[` + pairRec(`{"name":"A","type":"long"},{"name":"B","type":"long"}`) + `,"null"]`,
			`{"type":"map","values":"long"}`, pairRec(`{"name":"A","type":"string"}`)},
		"C20OneI": {`{"type":"array","items":"long"}`, `{"type":"array","items":"int"}`, `{"type":"array","items":["null","long"]}`,
			`{"type":"array","items":"string"}`, `"long"`, `{"type":"map","values":"long"}`,
			`["null",{"type":"array","items":"long"}]`, `[{"type":"array","items":"long"},"null"]`, `"array"`},
	}
	fieldOf := map[string]string{"C20OneC": "C", "C20OneT": "T", "C20OneP": "P", "C20OneI": "I"}
	for _, registered := range []bool{true, false} {
		var steps []c20Step
		label := "caller-schemas:unregistered"
		if registered {
			steps = c20RegAll([]string{"Cents", "Tag", "Pair", "IDs"}, k2)
			label = "caller-schemas:registered"
		}
		for i := 0; i < 14; i++ {
			st := c20Step{Op: "run", Seed: seed + int64(i), N: 2, Schemas: map[string]string{}}
			for _, cn := range []string{"C20OneC", "C20OneT", "C20OneP", "C20OneI"} {
				if i < len(matrix[cn]) {
					st.Containers = append(st.Containers, cn)
					st.Schemas[cn] = rec(fieldOf[cn], matrix[cn][i])
					if strings.Contains(matrix[cn][i], `"int"`) {
						// the generated values are 64-bit: an int schema is only built, not written through
						st.BuildOnly = append(st.BuildOnly, cn)
					}
				}
			}
			steps = append(steps, st)
		}
		p.scenario(label, steps, true)
	}

	// random registration histories
	nrand := r.N(6, 60)
	for i := 0; i < nrand; i++ {
		var steps []c20Step
		nsteps := 2 + r.Rng.Intn(7)
		for j := 0; j < nsteps; j++ {
			tn := c20TypeNames[r.Rng.Intn(len(c20TypeNames))]
			switch r.Rng.Intn(5) {
			case 0, 1:
				steps = append(steps, c20Step{Op: "reg", Type: tn, K: c20Ks[r.Rng.Intn(len(c20Ks))]})
			case 2:
				v := ""
				if r.Rng.Intn(3) == 0 {
					v = "alt"
				}
				steps = append(steps, c20Step{Op: "regschema", Type: tn, Variant: v})
			case 3:
				steps = append(steps, c20Step{Op: "reg", Type: tn, K: c20Ks[r.Rng.Intn(len(c20Ks))]}, c20Step{Op: "regschema", Type: tn})
			default:
				cs := make([]string, 0, 4)
				for _, x := range r.Rng.Perm(len(c20AllContainers))[:4] {
					cs = append(cs, c20AllContainers[x])
				}
				hold := r.Rng.Intn(2) == 0
				steps = append(steps, c20Step{Op: "run", Containers: cs, Seed: seed, N: nv, Hold: hold})
				if r.Rng.Intn(2) == 0 { // a schema (re-)registered between two generations for the same containers
					tn3 := c20TypeNames[r.Rng.Intn(len(c20TypeNames))]
					v := ""
					if r.Rng.Intn(2) == 0 {
						v = "alt"
					}
					steps = append(steps, c20Step{Op: "regschema", Type: tn3, Variant: v},
						c20Step{Op: "run", Containers: cs, Seed: seed, N: nv})
				}
				if hold && r.Rng.Intn(2) == 0 {
					tn2 := c20TypeNames[r.Rng.Intn(len(c20TypeNames))]
					steps = append(steps, c20Step{Op: "reg", Type: tn2, K: c20Ks[r.Rng.Intn(len(c20Ks))]},
						c20Step{Op: "run", Containers: cs, Seed: seed, N: nv, Reuse: true})
				}
			}
		}
		cs := make([]string, 0, 6)
		for _, x := range r.Rng.Perm(len(c20AllContainers))[:6] {
			cs = append(cs, c20AllContainers[x])
		}
		steps = append(steps, c20Step{Op: "run", Containers: cs, Seed: seed, N: nv}, fresh(cs))
		p.scenario(fmt.Sprintf("random-%d", i), steps, false)
	}
	r.Extra["scenarios"] = p.nscen
	r.Extra["custom_type_ids"] = p.ids
	r.Notes = append(r.Notes,
		"the registry of a Go process is global and permanent: every scenario runs in a fresh child process",
		"a codec built before a re-registration keeps the builder it was built with (scenario late-registration: reuse steps are compared with the model under the registrations at build time); only codecs built afterwards see the new registration",
		"values of the C01 known-finding shapes (**T with a nil inner pointer, a non-nil pointer to an invalid null.* wrapper, nil *[]T of an unregistered slice type) are not judged here; they are counted under skipped/")
}

// c20AnonCheck (child): schemas registered for types without a name of their own.
func c20AnonCheck() string {
	fixed16 := avro.Schema{Type: "fixed", Object: &avro.SchemaObject{Type: "fixed", Name: "uuid", Size: 16}}
	str := avro.Schema{Type: "string"}
	avro.RegisterSchema(reflect.TypeOf([16]byte{}), fixed16)
	avro.RegisterSchema(reflect.TypeOf(map[string]any(nil)), str)
	type holder struct {
		U [16]byte       `json:"u"`
		P *[16]byte      `json:"p"`
		L [][16]byte     `json:"l"`
		M map[string]any `json:"m"`
		N int64          `json:"n"`
	}
	s, err := avro.SchemaForType(holder{})
	if err != nil {
		return "SchemaForType refuses a struct whose fields are all expressible through registered schemas: " + err.Error()
	}
	if s.Object == nil || len(s.Object.Fields) != 5 {
		return "SchemaForType(holder) is not a five-field record: " + schemaJSON(s)
	}
	want := []avro.Schema{fixed16, {Type: "union", Union: []avro.Schema{{Type: "null"}, fixed16}},
		{Type: "array", Object: &avro.SchemaObject{Type: "array", Items: fixed16}}, str, {Type: "long"}}
	for i, f := range s.Object.Fields {
		if schemaJSON(f.Type) != schemaJSON(want[i]) {
			return fmt.Sprintf("field %s of a struct using a type with a registered schema is generated as %s, registered (in that position): %s", f.Name, schemaJSON(f.Type), schemaJSON(want[i]))
		}
	}
	return ""
}

// c20EnumCheck (child): a string-kind type registered with an enum schema and a builder that
// writes the symbol's index.  The generated schema carries the enum in every position, codecs
// build, values written through the generic Encoder read back through ReadFile.
type c20Color string

var c20Colors = []string{"RED", "GREEN", "BLUE"}

type c20ColorCodec struct{ avro.StringCodec }

func (c20ColorCodec) Read(r *avro.ReadBuf, p unsafe.Pointer) error {
	i, err := r.Varint()
	if err != nil {
		return err
	}
	if i < 0 || int(i) >= len(c20Colors) {
		return fmt.Errorf("enum index %d out of range", i)
	}
	*(*c20Color)(p) = c20Color(c20Colors[i])
	return nil
}
func (c20ColorCodec) Skip(r *avro.ReadBuf) error { _, err := r.Varint(); return err }
func (c20ColorCodec) Write(w *avro.WriteBuf, p unsafe.Pointer) {
	for i, n := range c20Colors {
		if string(*(*c20Color)(p)) == n {
			w.Varint(int64(i))
			return
		}
	}
	w.Varint(0)
}
func (c20ColorCodec) Omit(p unsafe.Pointer) bool { return false }
func (c20ColorCodec) New(r *avro.ReadBuf) unsafe.Pointer {
	return r.Alloc(reflect.TypeOf(c20Color("")))
}

type c20Paint struct {
	Main   c20Color            `json:"main"`
	Opt    *c20Color           `json:"opt"`
	All    []c20Color          `json:"all"`
	ByName map[string]c20Color `json:"by_name"`
	N      int64               `json:"n"`
}

func c20EnumCheck() string {
	enum := avro.Schema{Type: "enum", Object: &avro.SchemaObject{Type: "enum", Name: "Color", Symbols: c20Colors}}
	avro.Register(reflect.TypeOf(c20Color("")), func(s avro.Schema, typ reflect.Type, omit bool) (avro.Codec, error) {
		return c20ColorCodec{}, nil
	})
	avro.RegisterSchema(reflect.TypeOf(c20Color("")), enum)
	s, err := avro.SchemaForType(c20Paint{})
	if err != nil {
		return "SchemaForType refuses a struct of a type registered with an enum schema: " + err.Error()
	}
	want := []avro.Schema{enum, {Type: "union", Union: []avro.Schema{{Type: "null"}, enum}},
		{Type: "array", Object: &avro.SchemaObject{Type: "array", Items: enum}}, {Type: "map", Object: &avro.SchemaObject{Type: "map", Values: enum}}, {Type: "long"}}
	if s.Object == nil || len(s.Object.Fields) != len(want) {
		return "SchemaForType(c20Paint) is not a five-field record: " + schemaJSON(s)
	}
	for i, f := range s.Object.Fields {
		if schemaJSON(f.Type) != schemaJSON(want[i]) {
			return fmt.Sprintf("field %s: generated %s, the registered schema in that position is %s", f.Name, schemaJSON(f.Type), schemaJSON(want[i]))
		}
	}
	if _, err := s.Codec(c20Paint{}); err != nil {
		return "Schema.Codec refuses the generated schema of a type whose fields are governed by a registered builder (enum schema): " + err.Error()
	}
	green := c20Color("GREEN")
	vals := []c20Paint{
		{Main: "BLUE", Opt: &green, All: []c20Color{"RED", "BLUE", "GREEN"}, ByName: map[string]c20Color{"sky": "BLUE", "grass": "GREEN"}, N: 7},
		{Main: "RED", N: -1},
		{Main: "GREEN", Opt: &green, All: []c20Color{"GREEN"}, ByName: map[string]c20Color{"x": "RED"}},
	}
	for _, comp := range compressions {
		var buf bytes.Buffer
		enc, err := avro.NewEncoderFor[c20Paint](&buf, comp, 30)
		if err != nil {
			return "NewEncoderFor refuses a type registered with an enum schema: " + err.Error()
		}
		for i := range vals {
			if err := enc.Encode(&vals[i]); err != nil {
				return "Encode: " + err.Error()
			}
		}
		if err := enc.Flush(); err != nil {
			return "Flush: " + err.Error()
		}
		var got []c20Paint
		err = avro.ReadFile(bytes.NewReader(buf.Bytes()), c20Paint{}, func(val unsafe.Pointer, rb *avro.ResourceBank) error {
			v := *(*c20Paint)(val)
			cp := c20Paint{Main: v.Main, N: v.N, All: append([]c20Color(nil), v.All...)}
			if v.Opt != nil {
				o := *v.Opt
				cp.Opt = &o
			}
			if v.ByName != nil {
				cp.ByName = map[string]c20Color{}
				for k, x := range v.ByName {
					cp.ByName[k] = x
				}
			}
			got = append(got, cp)
			return nil
		})
		if err != nil {
			return "ReadFile of a file whose schema carries a registered enum type: " + err.Error()
		}
		if len(got) != len(vals) {
			return fmt.Sprintf("ReadFile delivered %d records of %d", len(got), len(vals))
		}
		for i := range vals {
			a, b := vals[i], got[i]
			same := a.Main == b.Main && a.N == b.N && (a.Opt == nil) == (b.Opt == nil) && (a.Opt == nil || *a.Opt == *b.Opt) && len(a.All) == len(b.All) && len(a.ByName) == len(b.ByName)
			for k := range a.All {
				same = same && k < len(b.All) && a.All[k] == b.All[k]
			}
			for k, x := range a.ByName {
				same = same && b.ByName[k] == x
			}
			if !same {
				return fmt.Sprintf("record %d of a type registered with an enum schema reads back as %+v, written %+v", i, b, a)
			}
		}
	}
	return ""
}

// c20RelibCheck (child): avrotime.RegisterCodecs / null.RegisterCodecs after an application's own
// registration for the same types.
func c20RelibCheck() string {
	st := reflect.StructOf([]reflect.StructField{
		{Name: "At", Type: rtTime, Tag: `json:"at"`}, {Name: "N", Type: rtNullInt, Tag: `json:"n"`}})
	zero := reflect.New(st).Elem().Interface()
	gen := func() (string, error) {
		s, err := avro.SchemaForType(zero)
		return schemaJSON(s), err
	}
	avrotime.RegisterCodecs()
	avronull.RegisterCodecs()
	lib, err := gen()
	if err != nil {
		return "SchemaForType with the library's registrations: " + err.Error()
	}
	used := 0
	custom := func(s avro.Schema, typ reflect.Type, omit bool) (avro.Codec, error) {
		used++
		return avro.Int64Codec{}, nil
	}
	avro.Register(rtTime, custom)
	avro.RegisterSchema(rtTime, avro.Schema{Type: "long"})
	avro.Register(rtNullInt, custom)
	avro.RegisterSchema(rtNullInt, avro.Schema{Type: "long"})
	app, err := gen()
	if err != nil || app == lib {
		return fmt.Sprintf("an application registration for time.Time / avronull.Int does not govern schema generation: %v %s", err, app)
	}
	avrotime.RegisterCodecs()
	avronull.RegisterCodecs()
	again, err := gen()
	if err != nil || again != lib {
		return fmt.Sprintf("after RegisterCodecs was called again the generated schema is %s (%v); the library's registration (the latest) gives %s", again, err, lib)
	}
	s, _ := avro.SchemaForType(zero)
	before := used
	if _, err := s.Codec(zero); err != nil {
		return "Schema.Codec after RegisterCodecs was called again: " + err.Error()
	}
	if used != before {
		return "after RegisterCodecs was called again the superseded application builder is still consulted"
	}
	return ""
}

// c20UnionHistoryCheck (child): types whose registered schema is already a union, generated for
// in a sequence of struct types.  The registered schema is what generation emits in every
// position (omitempty and pointers add no second null and do not reorder the branches), and
// generating for one struct type leaves the results for every other - earlier and later - as
// they are: generation is a function of the type and the registrations, not of the history.
type c20Code string
type c20Qty int64

func c20UnionHistoryCheck() string {
	u2 := avro.Schema{Type: "union", Union: []avro.Schema{{Type: "string"}, {Type: "null"}}}
	u3 := avro.Schema{Type: "union", Union: []avro.Schema{{Type: "long"}, {Type: "string"}, {Type: "null"}}}
	want2, want3 := schemaJSON(u2), schemaJSON(u3)
	avro.RegisterSchema(reflect.TypeOf(c20Code("")), u2)
	avro.RegisterSchema(reflect.TypeOf(c20Qty(0)), u3)
	type plain struct {
		Code c20Code `json:"code"`
		Qty  c20Qty  `json:"qty"`
		N    int64   `json:"n"`
	}
	type opt struct {
		Code c20Code   `json:"code,omitempty"`
		Qty  c20Qty    `json:"qty,omitempty"`
		P    *c20Code  `json:"p"`
		PO   *c20Qty   `json:"po,omitempty"`
		L    []c20Code `json:"l,omitempty"`
	}
	type elems struct {
		L []c20Code         `json:"l"`
		M map[string]c20Qty `json:"m"`
		P *c20Code          `json:"p,omitempty"`
	}
	field := func(s avro.Schema, name string) string {
		if s.Object == nil {
			return "<no record>"
		}
		for _, f := range s.Object.Fields {
			if f.Name == name {
				return schemaJSON(f.Type)
			}
		}
		return "<no field " + name + ">"
	}
	s1, err := avro.SchemaForType(plain{})
	if err != nil {
		return "SchemaForType(plain) with registered union schemas: " + err.Error()
	}
	first := schemaJSON(s1)
	if field(s1, "code") != want2 || field(s1, "qty") != want3 {
		return fmt.Sprintf("plain fields of types registered with %s and %s get %s and %s", want2, want3, field(s1, "code"), field(s1, "qty"))
	}
	for round := 0; round < 2; round++ {
		s2, err := avro.SchemaForType(opt{})
		if err != nil {
			return "SchemaForType(opt) with registered union schemas: " + err.Error()
		}
		for _, fn := range []struct{ name, want string }{{"code", want2}, {"qty", want3}, {"p", want2}, {"po", want3}} {
			if got := field(s2, fn.name); got != fn.want {
				return fmt.Sprintf("field %q (omitempty / pointer over a type whose registered schema is the union %s) gets %s", fn.name, fn.want, got)
			}
		}
		s3, err := avro.SchemaForType(elems{})
		if err != nil {
			return "SchemaForType(elems) with registered union schemas: " + err.Error()
		}
		if got := field(s3, "p"); got != want2 {
			return fmt.Sprintf("an omitempty pointer to a type registered with %s gets %s", want2, got)
		}
		if got, want := field(s3, "l"), `{"type":"array","items":`+want2+`}`; got != want {
			return fmt.Sprintf("a slice of a string-kind type registered with %s gets %s", want2, got)
		}
		if got, want := field(s3, "m"), `{"type":"map","values":`+want3+`}`; got != want {
			return fmt.Sprintf("a map of an integer-kind type registered with %s gets %s", want3, got)
		}
		again, err := avro.SchemaForType(plain{})
		if err != nil {
			return "SchemaForType(plain), second time: " + err.Error()
		}
		if got := schemaJSON(again); got != first {
			return fmt.Sprintf("SchemaForType(plain) gave %s, and after generating schemas for two other struct types gives %s", first, got)
		}
		if got := schemaJSON(s1); got != first {
			return fmt.Sprintf("the schema value returned by SchemaForType(plain) read %s when it was returned and reads %s after schemas for two other struct types were generated", first, got)
		}
	}
	return ""
}

// c20StrictReRegistration (child): builder A (accepts a long schema) is registered for a type,
// then builder B (accepts a string schema only).  A codec for a struct of that type under a long
// schema must now be refused with B's error - the replaced builder is gone, it is not a
// fall-back - and under a string schema B serves it.  In the other order A is the latest and a
// long schema builds.
type c20Strict int64
type c20Strict2 int64

type c20StrictCodec struct{ tag byte }

func (c c20StrictCodec) Read(r *avro.ReadBuf, p unsafe.Pointer) error {
	if c.tag == 'A' {
		v, err := r.Varint()
		*(*int64)(p) = v
		return err
	}
	l, err := r.Varint()
	if err != nil {
		return err
	}
	b, err := r.Next(int(l))
	*(*int64)(p) = int64(len(b)) + 1000
	return err
}
func (c c20StrictCodec) Skip(r *avro.ReadBuf) error {
	var x int64
	return c.Read(r, unsafe.Pointer(&x))
}
func (c c20StrictCodec) New(r *avro.ReadBuf) unsafe.Pointer { return r.Alloc(reflect.TypeOf(int64(0))) }
func (c c20StrictCodec) Omit(p unsafe.Pointer) bool         { return false }
func (c c20StrictCodec) Write(w *avro.WriteBuf, p unsafe.Pointer) {
	w.Varint(*(*int64)(p))
}

func c20StrictReRegistration() string {
	errB := errors.New("builder B takes a string schema only")
	builderA := func(s avro.Schema, t reflect.Type, omit bool) (avro.Codec, error) {
		if s.Type != "long" {
			return nil, errors.New("builder A takes a long schema only")
		}
		return c20StrictCodec{'A'}, nil
	}
	builderB := func(s avro.Schema, t reflect.Type, omit bool) (avro.Codec, error) {
		if s.Type != "string" {
			return nil, errB
		}
		return c20StrictCodec{'B'}, nil
	}
	type h1 struct {
		F c20Strict  `json:"f"`
		P *c20Strict `json:"p"`
	}
	type h2 struct {
		F c20Strict2 `json:"f"`
	}
	long := `{"type":"record","name":"r","fields":[{"name":"f","type":"long"},{"name":"p","type":["null","long"]}]}`
	str := `{"type":"record","name":"r","fields":[{"name":"f","type":"string"},{"name":"p","type":["null","string"]}]}`
	long1 := `{"type":"record","name":"r","fields":[{"name":"f","type":"long"}]}`
	build := func(schema string, v any) (avro.Codec, error) {
		s, err := avro.SchemaFromString(schema)
		if err != nil {
			return nil, err
		}
		return s.Codec(v)
	}
	avro.Register(reflect.TypeOf(c20Strict(0)), builderA)
	if _, err := build(long, h1{}); err != nil {
		return "with builder A registered a long schema is refused: " + err.Error()
	}
	avro.Register(reflect.TypeOf(c20Strict(0)), builderB)
	if c, err := build(long, h1{}); err == nil {
		var v h1
		_ = c.Read(avro.NewReadBuf([]byte{0x54, 0}), unsafe.Pointer(&v))
		return fmt.Sprintf("builder B (string schemas only) was registered after builder A (long schemas only); a codec under a long schema is built all the same and decodes 0x54 to %d: the replaced builder still serves the type", v.F)
	} else if !errors.Is(err, errB) {
		return "after the re-registration a long schema is refused, but not with the latest builder's own error: " + err.Error()
	}
	c, err := build(str, h1{})
	if err != nil {
		return "the latest builder accepts string schemas, the codec is refused: " + err.Error()
	}
	var v h1
	if err := c.Read(avro.NewReadBuf([]byte{4, 'a', 'b', 2, 2, 'z'}), unsafe.Pointer(&v)); err != nil || v.F != 1002 || v.P == nil || *v.P != 1001 {
		return fmt.Sprintf("under a string schema the latest builder's codec must serve field and pointer: got %+v (error %v)", v, err)
	}
	// the other order
	avro.Register(reflect.TypeOf(c20Strict2(0)), builderB)
	avro.Register(reflect.TypeOf(c20Strict2(0)), builderA)
	if _, err := build(long1, h2{}); err != nil {
		return "builder A registered last: a long schema is refused: " + err.Error()
	}
	return ""
}

// c20CodecContract (child): a registered codec that is a struct value carrying a slice (not a
// comparable Go value), used as a field, behind a pointer, as a slice element and as a map value;
// and a codec that counts its calls: NewEncoderFor plus n Encode calls make exactly one Write per
// occurrence per encoded value, and reading the file back makes as many Reads.
type c20Level string

type c20LevelCodec struct {
	symbols []string // makes the codec value uncomparable
	writes  *int
	reads   *int
}

func (c c20LevelCodec) Read(r *avro.ReadBuf, p unsafe.Pointer) error {
	*c.reads++
	i, err := r.Varint()
	if err != nil {
		return err
	}
	if i < 0 || int(i) >= len(c.symbols) {
		return fmt.Errorf("level %d out of range", i)
	}
	*(*string)(p) = c.symbols[i]
	return nil
}
func (c c20LevelCodec) Skip(r *avro.ReadBuf) error { _, err := r.Varint(); return err }
func (c c20LevelCodec) New(r *avro.ReadBuf) unsafe.Pointer {
	return r.Alloc(reflect.TypeOf(c20Level("")))
}
func (c c20LevelCodec) Omit(p unsafe.Pointer) bool { return false }
func (c c20LevelCodec) Write(w *avro.WriteBuf, p unsafe.Pointer) {
	*c.writes++
	for i, s := range c.symbols {
		if s == *(*string)(p) {
			w.Varint(int64(i))
			return
		}
	}
	w.Varint(0)
}

type c20LevelRow struct {
	L  c20Level            `json:"l"`
	P  *c20Level           `json:"p"`
	S  []c20Level          `json:"s"`
	M  map[string]c20Level `json:"m"`
	ID int64               `json:"id"`
}

func c20CodecContract() (bad string) {
	defer func() {
		if p := recover(); p != nil {
			bad = fmt.Sprintf("panic: %v", p)
		}
	}()
	var writes, reads int
	syms := []string{"low", "mid", "high"}
	avro.Register(reflect.TypeOf(c20Level("")), func(s avro.Schema, t reflect.Type, omit bool) (avro.Codec, error) {
		return c20LevelCodec{symbols: syms, writes: &writes, reads: &reads}, nil
	})
	avro.RegisterSchema(reflect.TypeOf(c20Level("")), avro.Schema{Type: "long"})
	var buf bytes.Buffer
	enc, err := avro.NewEncoderFor[c20LevelRow](&buf, avro.CompressionNull, 64)
	if err != nil {
		return "a registered codec that is a struct value carrying a slice, used as field / pointer / element / map value: NewEncoderFor fails: " + err.Error()
	}
	if writes != 0 {
		return fmt.Sprintf("NewEncoderFor called Write of the registered codec %d times before any value was encoded", writes)
	}
	hi := c20Level("high")
	rows := []c20LevelRow{{L: "mid", P: &hi, S: []c20Level{"low", "high"}, M: map[string]c20Level{"k": "mid"}, ID: 1}, {L: "low", ID: 2}, {L: "high", P: &hi, S: []c20Level{"mid"}, ID: 3}}
	wantCalls := 0
	for i := range rows {
		if err := enc.Encode(&rows[i]); err != nil {
			return "Encode: " + err.Error()
		}
		wantCalls += 1 + len(rows[i].S) + len(rows[i].M)
		if rows[i].P != nil {
			wantCalls++
		}
	}
	enc.Flush()
	if writes != wantCalls {
		return fmt.Sprintf("three records holding %d values of the registered type were encoded; the registered codec's Write ran %d times", wantCalls, writes)
	}
	n := 0
	err = avro.ReadFile(bytes.NewReader(buf.Bytes()), c20LevelRow{}, func(val unsafe.Pointer, rb *avro.ResourceBank) error {
		v := (*c20LevelRow)(val)
		w := rows[n]
		if v.L != w.L || (v.P == nil) != (w.P == nil) || (v.P != nil && *v.P != *w.P) || len(v.S) != len(w.S) || len(v.M) != len(w.M) || v.ID != w.ID {
			return fmt.Errorf("record %d reads %+v, written %+v", n, *v, w)
		}
		n++
		return nil
	})
	if err != nil || n != len(rows) {
		return fmt.Sprintf("reading the file back: %d of %d records, %v", n, len(rows), err)
	}
	if reads != wantCalls {
		return fmt.Sprintf("the file holds %d values of the registered type; the registered codec's Read ran %d times", wantCalls, reads)
	}
	return ""
}
