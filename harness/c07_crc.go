package main

import (
	"bytes"
	"encoding/binary"
	"fmt"
	"hash/crc32"

	"github.com/golang/snappy"
	"github.com/philpearl/avro"
)

// c07Crc ties the model's bit-by-bit CRC-32 (Model/Compress.v) to the code on both sides:
// (a) hash/crc32.ChecksumIEEE, the function file.go calls, on data of every small length and
// a few large ones; (b) the four bytes the library's own FileWriter stores behind each snappy
// block: they must be the big-endian CRC-32 of the block's uncompressed data (checked here
// against hash/crc32 and, as a KCrc case, against the model), and the bytes in front of them
// a snappy stream of exactly that data.
func c07Crc(r *Run) {
	n := r.N(60, 600)
	for i := 0; i < n; i++ {
		ln := []int{0, 1, 2, 3, 4, 5, 7, 8, 9, 15, 16, 17, 63, 64, 65, 255, 256, 257, 1000, 4096}[r.Rng.Intn(20)]
		data := make([]byte, ln)
		switch r.Rng.Intn(4) {
		case 0:
			for k := range data {
				data[k] = byte(k)
			}
		case 1:
			for k := range data {
				data[k] = []byte{0x00, 0xff, 0x80, 0x01}[r.Rng.Intn(4)]
			}
		default:
			r.Rng.Read(data)
		}
		r.Add(cApp("KCrc", cBytes(data), cZ(int64(crc32.ChecksumIEEE(data)))), map[string]any{"data": hexs(data)}, fmt.Sprintf("crc/%x", data))
		r.Count(fmt.Sprintf("crc/len-class-%d", bitLen(ln)))
	}
	schema := []byte(`{"type":"record","name":"Row","fields":[{"name":"v","type":"long"}]}`)
	nb := r.N(20, 200)
	for i := 0; i < nb; i++ {
		fw, err := avro.NewFileWriter(schema, avro.Compression("snappy"))
		if err != nil {
			r.Fail(-1, "call-failed", fmt.Sprintf("NewFileWriter with snappy: %v", err), nil)
			return
		}
		var out bytes.Buffer
		if err := fw.WriteHeader(&out); err != nil {
			r.Fail(-1, "call-failed", fmt.Sprintf("WriteHeader: %v", err), nil)
			return
		}
		hdr := out.Len()
		var blocks [][]byte
		for b, k := 0, 1+r.Rng.Intn(4); b < k; b++ {
			rows := []int{1, 2, 10, 64, 300, 3000}[r.Rng.Intn(6)]
			data := make([]byte, rows)
			for j := range data {
				if r.Rng.Intn(3) == 0 {
					data[j] = byte(r.Rng.Intn(64) * 2)
				} else {
					data[j] = byte((b + 1) * 2)
				}
			}
			if err := fw.WriteBlock(&out, rows, data); err != nil {
				r.Fail(-1, "call-failed", fmt.Sprintf("WriteBlock: %v", err), nil)
				return
			}
			blocks = append(blocks, data)
		}
		rest := out.Bytes()[hdr:]
		for b, data := range blocks {
			desc := map[string]any{"block": b, "data": hexs(data)}
			_, r1, err1 := readVarint(rest)
			sz, r2, err2 := readVarint(r1)
			if err1 != nil || err2 != nil || sz < 4 || int64(len(r2)) < sz+16 {
				r.Fail(-1, "snappy-block-framing", fmt.Sprintf("block %d written by FileWriter under snappy cannot be framed (stored size %d)", b, sz), desc)
				break
			}
			raw := r2[:sz]
			body, trailer := raw[:sz-4], binary.BigEndian.Uint32(raw[sz-4:])
			r.Count("snappy-written-blocks")
			id := r.Add(cApp("KCrc", cBytes(data), cZ(int64(trailer))), desc, fmt.Sprintf("crcw/%x", data))
			if trailer != crc32.ChecksumIEEE(data) {
				r.Fail(id, "snappy-trailer", fmt.Sprintf("block %d: the four bytes behind the snappy stream are %08x, the CRC-32 of the uncompressed data is %08x", b, trailer, crc32.ChecksumIEEE(data)), desc)
			}
			if dec, err := snappy.Decode(nil, body); err != nil || !bytes.Equal(dec, data) {
				r.Fail(id, "snappy-body", fmt.Sprintf("block %d: the bytes in front of the checksum are not a snappy stream of the block's data (%v)", b, err), desc)
			}
			rest = r2[sz+16:]
		}
	}
}

func bitLen(n int) int {
	k := 0
	for ; n > 0; n >>= 1 {
		k++
	}
	return k
}
