(* C12: non-interference of independent goroutines over the shared state of
   Model/Conc.v, by induction over the schedule with an agreement invariant: the
   global state and the state of goroutine i's solitary run agree on every key
   goroutine i will still look up or register; its own steps keep that (and return
   the same), the others' steps cannot break it because they register none of those
   keys.  Also: one location per offset in any run; commutation of registry steps. *)
From Coq Require Import List ZArith Lia Bool Arith.
Require Import Avro.Model.Base Avro.Model.Schema Avro.Model.GoType Avro.Model.Codec Avro.Model.Conc.
Import ListNotations.
Open Scope Z_scope.

(* ---- keys ---- *)
Lemma wk_eqb_eq a c : wk_eqb a c = true <-> a = c.
Proof. destruct a, c; cbn; split; intros H; try reflexivity; try discriminate. Qed.

Lemma rkey_eqb_eq a c : rkey_eqb a c = true <-> a = c.
Proof.
  destruct a as [w|i], c as [w'|j]; cbn; split; intros H; try discriminate.
  - f_equal. apply wk_eqb_eq. exact H.
  - injection H as <-. apply wk_eqb_eq. reflexivity.
  - f_equal. apply Z.eqb_eq. exact H.
  - injection H as <-. apply Z.eqb_refl.
Qed.

Lemma rkey_eqb_refl a : rkey_eqb a a = true.
Proof. apply rkey_eqb_eq. reflexivity. Qed.

Lemma mem_key_In k l : mem_key k l = true <-> In k l.
Proof.
  unfold mem_key. rewrite existsb_exists. split.
  - intros [x [Hx He]]. apply rkey_eqb_eq in He. subst x. exact Hx.
  - intros H. exists k. split; [exact H|apply rkey_eqb_refl].
Qed.

Lemma mem_key_mono k l l' : (forall x, In x l -> In x l') -> mem_key k l = true -> mem_key k l' = true.
Proof. intros H Hm. apply mem_key_In. apply H. apply mem_key_In. exact Hm. Qed.

Lemma reg_touch_tail st rest x : In x (reg_touch rest) -> In x (reg_touch (st :: rest)).
Proof. destruct st; cbn [reg_touch]; intros H; try exact H; right; exact H. Qed.
Lemma sreg_touch_tail st rest x : In x (sreg_touch rest) -> In x (sreg_touch (st :: rest)).
Proof. destruct st; cbn [sreg_touch]; intros H; try exact H; right; exact H. Qed.
Lemma reg_sets_tail st rest x : In x (reg_sets rest) -> In x (reg_sets (st :: rest)).
Proof. destruct st; cbn [reg_sets]; intros H; try exact H; right; exact H. Qed.
Lemma sreg_sets_tail st rest x : In x (sreg_sets rest) -> In x (sreg_sets (st :: rest)).
Proof. destruct st; cbn [sreg_sets]; intros H; try exact H; right; exact H. Qed.

(* ---- agreement ---- *)
Definition agree (K Ks : list rkey) (s a : shared) : Prop :=
  (forall k, mem_key k K = true -> sh_reg s k = sh_reg a k) /\
  (forall k, mem_key k Ks = true -> sh_sreg s k = sh_sreg a k).

Lemma agree_refl K Ks s : agree K Ks s s.
Proof. split; reflexivity. Qed.

(* a step of the goroutine itself: same observation in both runs, agreement kept *)
Lemma step_self st rest s a orc orc' :
  agree (reg_touch (st :: rest)) (sreg_touch (st :: rest)) s a ->
  obs_of (snd (exec s orc st)) = obs_of (snd (exec a orc' st)) /\
  agree (reg_touch rest) (sreg_touch rest) (fst (exec s orc st)) (fst (exec a orc' st)).
Proof.
  intros [Hr Hs].
  assert (Hr' : forall k, mem_key k (reg_touch rest) = true -> sh_reg s k = sh_reg a k).
  { intros k Hk. apply Hr. eapply mem_key_mono; [|exact Hk]. intros x. apply reg_touch_tail. }
  assert (Hs' : forall k, mem_key k (sreg_touch rest) = true -> sh_sreg s k = sh_sreg a k).
  { intros k Hk. apply Hs. eapply mem_key_mono; [|exact Hk]. intros x. apply sreg_touch_tail. }
  destruct st; cbn [exec].
  - split; [|split; assumption]. cbn [snd obs_of]. f_equal. apply Hr. cbn [reg_touch mem_key existsb]. rewrite rkey_eqb_refl. reflexivity.
  - split; [reflexivity|]. cbn [fst]. split; cbn [sh_reg sh_sreg]; [|exact Hs'].
    intros x Hx. unfold upd_key. destruct (rkey_eqb x k); [reflexivity|apply Hr'; exact Hx].
  - split; [|split; assumption]. cbn [snd obs_of]. f_equal. apply Hs. cbn [sreg_touch mem_key existsb]. rewrite rkey_eqb_refl. reflexivity.
  - split; [reflexivity|]. cbn [fst]. split; cbn [sh_reg sh_sreg]; [exact Hr'|].
    intros x Hx. unfold upd_key. destruct (rkey_eqb x k); [reflexivity|apply Hs'; exact Hx].
  - destruct (tz_find off (sh_tz s)), (tz_find off (sh_tz a)); cbn [fst snd obs_of]; (split; [reflexivity|split; assumption]).
  - destruct (match orc with Some i => nth_error (sh_pool s) i | None => None end),
             (match orc' with Some i => nth_error (sh_pool a) i | None => None end);
      cbn [fst snd obs_of]; (split; [reflexivity|split; assumption]).
  - split; [reflexivity|split; assumption].
Qed.

(* a step of another goroutine that registers no key of K / Ks *)
Lemma step_other st K Ks s a orc :
  agree K Ks s a ->
  (forall k, In k (reg_sets [st]) -> mem_key k K = false) ->
  (forall k, In k (sreg_sets [st]) -> mem_key k Ks = false) ->
  agree K Ks (fst (exec s orc st)) a.
Proof.
  intros [Hr Hs] Hn Hns. destruct st; cbn [exec fst]; try (split; assumption).
  - split; cbn [sh_reg sh_sreg]; [|exact Hs]. intros x Hx. unfold upd_key.
    destruct (rkey_eqb x k) eqn:E; [|apply Hr; exact Hx].
    apply rkey_eqb_eq in E. subst x. rewrite (Hn k) in Hx; [discriminate|left; reflexivity].
  - split; cbn [sh_reg sh_sreg]; [exact Hr|]. intros x Hx. unfold upd_key.
    destruct (rkey_eqb x k) eqn:E; [|apply Hs; exact Hx].
    apply rkey_eqb_eq in E. subst x. rewrite (Hns k) in Hx; [discriminate|left; reflexivity].
  - destruct (tz_find off (sh_tz s)); cbn [fst]; split; assumption.
  - destruct (match orc with Some i => nth_error (sh_pool s) i | None => None end); cbn [fst]; split; assumption.
Qed.

Lemma fupd_same {A} (f : nat -> A) i x : fupd f i x i = x.
Proof. unfold fupd. rewrite Nat.eqb_refl. reflexivity. Qed.
Lemma fupd_other {A} (f : nat -> A) i j x : j <> i -> fupd f i x j = f j.
Proof. intros H. unfold fupd. destruct (Nat.eqb j i) eqn:E; [apply Nat.eqb_eq in E; contradiction|reflexivity]. Qed.

Lemma sets_head_reg st rest k : In k (reg_sets [st]) -> In k (reg_sets (st :: rest)).
Proof. destruct st; cbn [reg_sets]; intros H; try contradiction. destruct H as [<-|[]]. left. reflexivity. Qed.
Lemma sets_head_sreg st rest k : In k (sreg_sets [st]) -> In k (sreg_sets (st :: rest)).
Proof. destruct st; cbn [sreg_sets]; intros H; try contradiction. destruct H as [<-|[]]. left. reflexivity. Qed.

(* ---- the invariant along a schedule ---- *)
Lemma run_noninterference : forall sch s a ps tr i,
  agree (reg_touch (ps i)) (sreg_touch (ps i)) s a ->
  indep ps i ->
  exists n new,
    snd (run s ps tr sch) i = tr i ++ new /\
    map obs_of new = firstn n (alone a (ps i)) /\
    snd (fst (run s ps tr sch)) i = skipn n (ps i).
Proof.
  induction sch as [|[j orc] sch IH]; intros s a ps tr i Hag Hind.
  - exists O, []. cbn. rewrite app_nil_r. repeat split; reflexivity.
  - cbn [run]. destruct (ps j) as [|st rest] eqn:Epj; [apply IH; assumption|].
    destruct (Nat.eq_dec j i) as [->|Hji].
    + (* the goroutine's own step *)
      rewrite Epj in Hag.
      destruct (step_self st rest s a orc None Hag) as [Hobs Hag'].
      specialize (IH (fst (exec s orc st)) (fst (exec a None st)) (fupd ps i rest)
                     (fupd tr i (tr i ++ [snd (exec s orc st)])) i).
      rewrite !fupd_same in IH.
      destruct IH as [n [new [Htr [Hmap Hps]]]].
      * exact Hag'.
      * intros j Hj. rewrite fupd_same, (fupd_other ps i j rest Hj).
        destruct (Hind j Hj) as [H1 H2]. rewrite Epj in H1, H2. split; intros k Hk.
        -- specialize (H1 k Hk). destruct (mem_key k (reg_touch rest)) eqn:E; [|reflexivity].
           rewrite (mem_key_mono k _ (reg_touch (st :: rest)) (fun x => reg_touch_tail st rest x) E) in H1. discriminate.
        -- specialize (H2 k Hk). destruct (mem_key k (sreg_touch rest)) eqn:E; [|reflexivity].
           rewrite (mem_key_mono k _ (sreg_touch (st :: rest)) (fun x => sreg_touch_tail st rest x) E) in H2. discriminate.
      * exists (S n), (snd (exec s orc st) :: new). rewrite Epj. split; [|split].
        -- rewrite Htr. rewrite <- app_assoc. reflexivity.
        -- cbn [map alone firstn]. cbv zeta. rewrite Hobs, Hmap. reflexivity.
        -- exact Hps.
    + (* another goroutine's step *)
      assert (Hi : i <> j) by (intros E; apply Hji; symmetry; exact E).
      destruct (Hind j Hji) as [H1 H2]. rewrite Epj in H1, H2.
      specialize (IH (fst (exec s orc st)) a (fupd ps j rest) (fupd tr j (tr j ++ [snd (exec s orc st)])) i).
      rewrite (fupd_other ps j i rest Hi), (fupd_other tr j i _ Hi) in IH.
      apply IH.
      * apply step_other; [exact Hag| |].
        -- intros k Hk. apply H1. apply sets_head_reg. exact Hk.
        -- intros k Hk. apply H2. apply sets_head_sreg. exact Hk.
      * intros j' Hj'. rewrite (fupd_other ps j i rest Hi).
        destruct (Nat.eq_dec j' j) as [->|Hjj].
        -- rewrite fupd_same. split; intros k Hk; [apply H1; apply reg_sets_tail|apply H2; apply sreg_sets_tail]; exact Hk.
        -- rewrite (fupd_other ps j j' rest Hjj). apply Hind. exact Hj'.
Qed.

Lemma alone_length s : forall p, length (alone s p) = length p.
Proof. intros p. revert s. induction p as [|st r IH]; intros s; [reflexivity|]. cbn [alone length]. cbv zeta. rewrite IH. reflexivity. Qed.

(* ---- decidable independence ---- *)
Lemma independentb_sound l : independentb l = true -> forall i, indep (of_list l) i.
Proof.
  unfold independentb, indep, of_list. intros H i j Hji.
  destruct (Nat.lt_ge_cases j (length l)) as [Hj|Hj]; [|rewrite (nth_overflow l [] Hj); split; intros k []].
  destruct (Nat.lt_ge_cases i (length l)) as [Hi|Hi]; [|rewrite (nth_overflow l [] Hi); split; intros; reflexivity].
  rewrite forallb_forall in H. specialize (H i). rewrite forallb_forall in H.
  assert (Hin : forall x, (x < length l)%nat -> In x (seq 0 (length l))) by (intros x Hx; apply in_seq; lia).
  specialize (H (Hin i Hi) j (Hin j Hj)).
  destruct (Nat.eqb i j) eqn:E; [apply Nat.eqb_eq in E; subst; contradiction|].
  cbn [orb] in H. unfold no_write_into in H. apply andb_prop in H as [Ha Hb].
  rewrite forallb_forall in Ha, Hb. split; intros k Hk.
  - specialize (Ha k Hk). destruct (mem_key k (reg_touch (nth i l []))); [discriminate|reflexivity].
  - specialize (Hb k Hk). destruct (mem_key k (sreg_touch (nth i l []))); [discriminate|reflexivity].
Qed.

Theorem noninterference : forall (l : list prog) s0 sch i,
  independentb l = true ->
  exists n,
    map obs_of (snd (run s0 (of_list l) (fun _ => []) sch) i) = firstn n (alone s0 (nth i l [])) /\
    snd (fst (run s0 (of_list l) (fun _ => []) sch)) i = skipn n (nth i l []).
Proof.
  intros l s0 sch i H.
  destruct (run_noninterference sch s0 s0 (of_list l) (fun _ => []) i (agree_refl _ _ _) (independentb_sound l H i))
    as [n [new [Htr [Hmap Hps]]]].
  exists n. cbn [app] in Htr. rewrite Htr. split; [exact Hmap|exact Hps].
Qed.

(* when goroutine i has run to completion it has observed exactly its solitary run *)
Theorem noninterference_complete : forall (l : list prog) s0 sch i,
  independentb l = true ->
  snd (fst (run s0 (of_list l) (fun _ => []) sch)) i = [] ->
  map obs_of (snd (run s0 (of_list l) (fun _ => []) sch) i) = alone s0 (nth i l []).
Proof.
  intros l s0 sch i H Hdone. destruct (noninterference l s0 sch i H) as [n [Hmap Hps]].
  rewrite Hmap. rewrite Hdone in Hps.
  assert (Hn : (length (nth i l []) <= n)%nat).
  { destruct (Nat.le_gt_cases (length (nth i l [])) n) as [Hle|Hgt]; [exact Hle|].
    assert (Hl : length (skipn n (nth i l [])) = (length (nth i l []) - n)%nat) by apply skipn_length.
    rewrite <- Hps in Hl. cbn in Hl. lia. }
  apply firstn_all2. rewrite alone_length. exact Hn.
Qed.

(* ---- one location per offset ---- *)
Lemma tz_find_app off : forall l l',
  tz_find off (l ++ l') = match tz_find off l with Some x => Some x | None => tz_find off l' end.
Proof.
  induction l as [|[o id] r IH]; intros l'; [reflexivity|]. cbn [app tz_find].
  destruct (o =? off); [reflexivity|apply IH].
Qed.

Definition tz_inv (s : shared) (tr : nat -> list res) : Prop :=
  forall i o id, In (RTz o id) (tr i) -> tz_find o (sh_tz s) = Some id.

Lemma exec_tz_keeps s orc st o id :
  tz_find o (sh_tz s) = Some id -> tz_find o (sh_tz (fst (exec s orc st))) = Some id.
Proof.
  intros H. destruct st; cbn [exec fst sh_tz]; try exact H.
  - destruct (tz_find off (sh_tz s)); cbn [fst sh_tz]; [exact H|]. rewrite tz_find_app, H. reflexivity.
  - destruct (match orc with Some i => nth_error (sh_pool s) i | None => None end); cbn [fst sh_tz]; exact H.
Qed.

Lemma exec_tz_result s orc st o id :
  snd (exec s orc st) = RTz o id -> tz_find o (sh_tz (fst (exec s orc st))) = Some id.
Proof.
  destruct st; cbn [exec]; try discriminate.
  - destruct (tz_find off (sh_tz s)) as [x|] eqn:E; cbn [fst snd sh_tz]; intros H; injection H as <- <-.
    + exact E.
    + rewrite tz_find_app, E. cbn [tz_find]. rewrite Z.eqb_refl. reflexivity.
  - destruct (match orc with Some i => nth_error (sh_pool s) i | None => None end); cbn [snd]; discriminate.
Qed.

Lemma run_tz_inv : forall sch s ps tr, tz_inv s tr ->
  tz_inv (fst (fst (run s ps tr sch))) (snd (run s ps tr sch)).
Proof.
  induction sch as [|[j orc] sch IH]; intros s ps tr H; [exact H|].
  cbn [run]. destruct (ps j) as [|st rest]; [apply IH; exact H|]. apply IH.
  intros i o id Hin. unfold fupd in Hin. destruct (Nat.eqb i j).
  - apply in_app_or in Hin as [Hin|[Hin|[]]].
    + apply exec_tz_keeps. eapply H; eauto.
    + apply exec_tz_result. exact Hin.
  - apply exec_tz_keeps. eapply H; eauto.
Qed.

Theorem tz_unique : forall s0 ps sch i j o id id',
  In (RTz o id) (snd (run s0 ps (fun _ => []) sch) i) ->
  In (RTz o id') (snd (run s0 ps (fun _ => []) sch) j) -> id = id'.
Proof.
  intros s0 ps sch i j o id id' H1 H2.
  pose proof (run_tz_inv sch s0 ps (fun _ => []) (fun _ _ _ F => match F with end)) as Hinv.
  pose proof (Hinv i o id H1) as E1. pose proof (Hinv j o id' H2) as E2.
  rewrite E1 in E2. injection E2 as <-. reflexivity.
Qed.

(* ---- commutation of registry steps of different goroutines ---- *)
Definition is_reg_step (st : step) : bool :=
  match st with RegLookup _ | RegSet _ _ | SRegLookup _ | SRegSet _ _ => true | _ => false end.

(* neither registers a key the other looks up or registers *)
Definition steps_indep (x y : step) : bool :=
  no_write_into [x] [y] && no_write_into [y] [x].

Lemma upd_key_comm {A} (f : rkey -> option A) k v k' v' : rkey_eqb k k' = false ->
  forall x, upd_key (upd_key f k v) k' v' x = upd_key (upd_key f k' v') k v x.
Proof.
  intros H x. unfold upd_key. destruct (rkey_eqb x k') eqn:E1, (rkey_eqb x k) eqn:E2; try reflexivity.
  apply rkey_eqb_eq in E1, E2. subst. rewrite rkey_eqb_refl in H. discriminate.
Qed.

Lemma rkey_eqb_sym a c : rkey_eqb a c = rkey_eqb c a.
Proof.
  destruct (rkey_eqb a c) eqn:E1, (rkey_eqb c a) eqn:E2; try reflexivity.
  - apply rkey_eqb_eq in E1. subst. rewrite rkey_eqb_refl in E2. discriminate.
  - apply rkey_eqb_eq in E2. subst. rewrite rkey_eqb_refl in E1. discriminate.
Qed.

Lemma reg_steps_commute s o1 o2 x y :
  is_reg_step x = true -> is_reg_step y = true -> steps_indep x y = true ->
  let sx := exec s o1 x in let sxy := exec (fst sx) o2 y in
  let sy := exec s o2 y in let syx := exec (fst sy) o1 x in
  snd sx = snd syx /\ snd sy = snd sxy /\
  (forall k, sh_reg (fst sxy) k = sh_reg (fst syx) k) /\
  (forall k, sh_sreg (fst sxy) k = sh_sreg (fst syx) k) /\
  sh_tz (fst sxy) = sh_tz (fst syx) /\ sh_pool (fst sxy) = sh_pool (fst syx) /\ sh_next (fst sxy) = sh_next (fst syx).
Proof.
  intros Hx Hy Hi. unfold steps_indep, no_write_into in Hi.
  destruct x; try discriminate Hx; destruct y; try discriminate Hy; cbn in Hi; cbv zeta; cbn [exec fst snd sh_reg sh_sreg sh_tz sh_pool sh_next];
    repeat split; try reflexivity; unfold upd_key;
    repeat match type of Hi with
           | context [rkey_eqb ?a ?b] => let E := fresh "E" in destruct (rkey_eqb a b) eqn:E; cbn in Hi; try discriminate Hi
           end;
    try (intros k'; try reflexivity);
    try (f_equal;
         match goal with
         | |- ?f ?k1 = (if rkey_eqb ?k1 ?k2 then _ else _) =>
             let E' := fresh "E" in destruct (rkey_eqb k1 k2) eqn:E'; [|reflexivity]
         | |- (if rkey_eqb ?k1 ?k2 then _ else _) = _ =>
             let E' := fresh "E" in destruct (rkey_eqb k1 k2) eqn:E'; [|reflexivity]
         end; congruence).
  all: try (apply upd_key_comm; assumption).
  all: try (symmetry; apply upd_key_comm; assumption).
all: f_equal; match goal with E : rkey_eqb ?a ?b = false |- _ =>
         first [rewrite E; reflexivity | rewrite (rkey_eqb_sym b a), E; reflexivity] end.
Qed.
