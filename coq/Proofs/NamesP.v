(* What a record, enum or fixed is CALLED - its name and namespace, at any depth of the writer's
   schema - plays no part in how the file is read: the codec the reader builds is selected by
   the type names of the specification ("record", "long", ...), the field names, sizes and
   logical types only.  [gs_rename rho] renames every named type of a schema value by an
   arbitrary function of (name, namespace); [classify] - what buildCodec's dispatch sees - and
   hence [build_top] are unchanged. *)
From Coq Require Import List ZArith Bool.
Require Import Avro.Model.Base Avro.Model.Schema Avro.Model.GoType Avro.Model.Codec.
Require Import Avro.Corr.Codec Avro.Proofs.JsonP.
Import ListNotations.

Section Rename.
  Variable rho : ident * ident -> ident * ident.

  Fixpoint gs_rename (g : gschema) {struct g} : gschema :=
    match g with
    | GS ty obj un =>
      GS ty (match obj with Some o => Some (go_rename o) | None => None end)
         ((fix go (l : list gschema) {struct l} : list gschema :=
             match l with [] => [] | x :: r => gs_rename x :: go r end) un)
    end
  with go_rename (o : gobject) {struct o} : gobject :=
    match o with
    | GO lt name ns fields items values size syms =>
      GO lt (fst (rho (name, ns))) (snd (rho (name, ns)))
         ((fix go (l : list (ident * gschema)) {struct l} : list (ident * gschema) :=
             match l with [] => [] | (n, x) :: r => (n, gs_rename x) :: go r end) fields)
         (gs_rename items) (gs_rename values) size syms
    end.

  Lemma classify_union_eq : forall un, Forall (fun x => classify (gs_rename x) = classify x) un ->
    (fix go (l : list gschema) {struct l} : list schema :=
       match l with [] => [] | x :: r => classify x :: go r end)
      ((fix go (l : list gschema) {struct l} : list gschema :=
          match l with [] => [] | x :: r => gs_rename x :: go r end) un)
    = (fix go (l : list gschema) {struct l} : list schema :=
         match l with [] => [] | x :: r => classify x :: go r end) un.
  Proof.
    induction un as [|x r IH]; intros H; [reflexivity|]. inversion H as [|? ? Hx Hr]; subst.
    rewrite Hx, (IH Hr). reflexivity.
  Qed.

  Lemma classify_fields_eq : forall fs, Forall (fun p => classify (gs_rename (snd p)) = classify (snd p)) fs ->
    (fix go (l : list (ident * gschema)) {struct l} : list (ident * schema) :=
       match l with [] => [] | (n, x) :: r => (n, classify x) :: go r end)
      ((fix go (l : list (ident * gschema)) {struct l} : list (ident * gschema) :=
          match l with [] => [] | (n, x) :: r => (n, gs_rename x) :: go r end) fs)
    = (fix go (l : list (ident * gschema)) {struct l} : list (ident * schema) :=
         match l with [] => [] | (n, x) :: r => (n, classify x) :: go r end) fs.
  Proof.
    induction fs as [|[n x] r IH]; intros H; [reflexivity|]. inversion H as [|? ? Hx Hr]; subst.
    cbn [snd] in Hx. rewrite Hx, (IH Hr). reflexivity.
  Qed.

  Theorem classify_rename : forall g, classify (gs_rename g) = classify g.
  Proof.
    apply (gs_ind' (fun g => classify (gs_rename g) = classify g)
                   (fun o => forall ty, classify_obj ty (go_rename o) = classify_obj ty o)).
    - intros ty un Hun. cbn [gs_rename classify]. rewrite (classify_union_eq un Hun). reflexivity.
    - intros ty o un Ho Hun. cbn [gs_rename classify]. rewrite (classify_union_eq un Hun), (Ho ty).
      destruct o as [lt name ns fields items values size syms]. cbn [go_rename]. reflexivity.
    - intros lt name ns fields items values size syms Hf Hi Hv ty. cbn [go_rename classify_obj].
      rewrite (classify_fields_eq fields Hf), Hi, Hv. reflexivity.
  Qed.

  (* the reader's codec for any target type is the same *)
  Theorem build_top_rename g t : build_top (gs_rename g) t = build_top g t.
  Proof. unfold build_top. rewrite classify_rename. reflexivity. Qed.
End Rename.
