(* C08 as one statement: a valid file cut at ANY byte position.

   [cut_spec] is the property's wording as a function of the cut position k inside the
   body (the blocks after the header): walking over the blocks, a cut at a block boundary is
   a shorter valid file (success); a cut inside a block delivers the records of the blocks
   before it, plus the records of this block only when its stored payload is completely
   present (then the cut is inside the sync marker), and reports an error.  [every_cut_body]
   proves that the block loop of ReadFile computes exactly this for every k, and
   [every_cut_file] adds the header of any conforming writer: every cut inside it is refused,
   and the cut exactly behind it is the empty valid file. *)
From Coq Require Import List ZArith Lia Bool.
Require Import Avro.Model.Base Avro.Model.Prim Avro.Model.Container.
Require Import Avro.Proofs.ContainerP Avro.Proofs.HeaderGenP.
Import ListNotations.
Open Scope Z_scope.

(* ReadFile as a whole: header, then the block loop under the header's sync marker *)
Definition read_file (decompress : bytes -> option bytes) (read_record : bytes -> out unit) (cb : nat -> option Z)
           (fuel : nat) (bs : bytes) : nat * fres :=
  match read_header bs with
  | None => (O, FErr)
  | Some (h, rest) => read_blocks decompress read_record cb fuel (h_sync h) O rest
  end.

Section CutSpec.
  Variable sync : bytes.
  Notation vbytes := (vb_bytes sync).

  Fixpoint cut_spec (bl : list vblock) (k idx : nat) {struct bl} : nat * fres :=
    match bl with
    | [] => (idx, FOk)
    | b0 :: r =>
      if Nat.eqb k 0 then (idx, FOk)
      else if Nat.ltb k (length (vbytes b0))
           then (if Nat.ltb k (payload_end b0) then (idx, FErr) else ((idx + vb_count b0)%nat, FErr))
           else cut_spec r (k - length (vbytes b0)) (idx + vb_count b0)
    end.

  (* what cut_spec says, in the property's words *)

  (* success exactly at the block boundaries *)
  Lemma cut_spec_ok_iff : forall bl k idx, (k <= length (concat (map vbytes bl)))%nat ->
    (forall b0, In b0 bl -> (0 < length (vbytes b0))%nat) ->
    (snd (cut_spec bl k idx) = FOk <-> exists j, (j <= length bl)%nat /\ k = length (concat (map vbytes (firstn j bl)))).
  Proof.
    induction bl as [|b0 bl IH]; intros k idx Hk Hpos.
    - cbn in *. split; [intros _; exists 0%nat; split; [lia|cbn; lia]|reflexivity].
    - cbn [cut_spec map concat length] in *. rewrite app_length in Hk.
      assert (Hp0 : (0 < length (vbytes b0))%nat) by (apply Hpos; left; reflexivity).
      destruct (Nat.eqb_spec k 0) as [->|Hk0].
      + split; [intros _; exists 0%nat; split; [lia|reflexivity]|reflexivity].
      + destruct (Nat.ltb_spec k (length (vbytes b0))) as [Hlt|Hge].
        * split.
          -- destruct (Nat.ltb k (payload_end b0)); discriminate.
          -- intros (j & Hj & Hkj). destruct j as [|j]; [cbn in Hkj; lia|].
             cbn [firstn map concat] in Hkj. rewrite app_length in Hkj. lia.
        * rewrite IH; [|lia|intros b1 Hb1; apply Hpos; right; exact Hb1]. split.
          -- intros (j & Hj & Hkj). exists (S j). split; [lia|]. cbn [firstn map concat]. rewrite app_length. lia.
          -- intros (j & Hj & Hkj). destruct j as [|j]; [cbn in Hkj; lia|]. exists j. split; [lia|].
             cbn [firstn map concat] in Hkj. rewrite app_length in Hkj. lia.
  Qed.

  (* the delivered count is always a whole number of blocks: the first j, for some j *)
  Lemma cut_spec_whole_blocks : forall bl k idx,
    exists j, (j <= length bl)%nat /\ fst (cut_spec bl k idx) = (idx + total (firstn j bl))%nat.
  Proof.
    induction bl as [|b0 bl IH]; intros k idx.
    - exists 0%nat. cbn. split; [lia|]. unfold total. cbn. lia.
    - cbn [cut_spec]. destruct (Nat.eqb k 0).
      + exists 0%nat. cbn. split; [lia|]. unfold total. cbn. lia.
      + destruct (Nat.ltb k (length (vbytes b0))).
        * destruct (Nat.ltb k (payload_end b0)).
          -- exists 0%nat. cbn. split; [lia|]. unfold total. cbn. lia.
          -- exists 1%nat. cbn [firstn length fst]. split; [lia|]. unfold total. cbn. lia.
        * destruct (IH (k - length (vbytes b0))%nat (idx + vb_count b0)%nat) as (j & Hj & E).
          exists (S j). cbn [firstn length]. split; [lia|]. rewrite E. unfold total. cbn [fold_right]. lia.
  Qed.
End CutSpec.

Section EveryCut.
  Variable decompress : bytes -> option bytes.
  Variable read_record : bytes -> out unit.
  Variable cb : nat -> option Z.
  Variable sync : bytes.
  Hypothesis Hsync : len sync = 16.

  Notation RB := (read_blocks decompress read_record cb).
  Notation vbytes := (vb_bytes sync).
  Notation vsok := (vbs_ok decompress read_record cb).
  Notation cut_spec := (cut_spec sync).

  Theorem every_cut_body : forall bl idx k fuel,
    vsok idx bl -> (k <= length (concat (map vbytes bl)))%nat -> (length bl < fuel)%nat ->
    RB fuel sync idx (firstn k (concat (map vbytes bl))) = cut_spec bl k idx.
  Proof.
    induction bl as [|b0 bl IH]; intros idx k fuel Hok Hk Hf.
    - cbn [map concat cut_spec length] in *. rewrite firstn_nil. destruct fuel as [|f]; [exfalso; clear - Hf; lia|]. reflexivity.
    - destruct Hok as [Hb Hr]. cbn [map concat cut_spec length] in *. rewrite app_length in Hk.
      destruct fuel as [|f]; [lia|].
      destruct (Nat.eqb_spec k 0) as [->|Hk0]; [reflexivity|].
      destruct (Nat.ltb_spec k (length (vbytes b0))) as [Hlt|Hge].
      + rewrite firstn_app_le by lia.
        rewrite (block_truncated decompress read_record cb sync Hsync f idx b0 k Hb Hlt).
        destruct k; [lia|reflexivity].
      + rewrite firstn_app_ge by lia.
        rewrite (read_block_step decompress read_record cb sync Hsync f idx b0 _ Hb).
        apply IH; [exact Hr|lia|lia].
  Qed.

End EveryCut.

(* the whole file, header of any conforming writer included *)
Section EveryCutFile.
  Variable decompress : bytes -> option bytes.
  Variable read_record : bytes -> out unit.
  Variable cb : nat -> option Z.
  Variable sync : bytes.
  Hypothesis Hsync : len sync = 16.
  Variable mb : list (list entry).
  Hypothesis Hmb : Forall block_ok mb.

  Theorem every_cut_file : forall bl k fuel,
    vbs_ok decompress read_record cb 0 bl ->
    let file := gen_header mb sync ++ concat (map (vb_bytes sync) bl) in
    (k <= length file)%nat -> (length bl < fuel)%nat ->
    read_file decompress read_record cb fuel (firstn k file) =
      if Nat.ltb k (length (gen_header mb sync)) then (O, FErr)
      else cut_spec sync bl (k - length (gen_header mb sync)) 0.
  Proof.
    intros bl k fuel Hok file Hk Hf. unfold file in *. rewrite app_length in Hk. unfold read_file.
    destruct (Nat.ltb_spec k (length (gen_header mb sync))) as [Hlt|Hge].
    - rewrite firstn_app_le by lia. rewrite (header_cut_gen sync Hsync mb Hmb k Hlt). reflexivity.
    - rewrite firstn_app_ge by lia.
      rewrite (header_ok_gen sync Hsync mb Hmb). cbn [h_sync].
      apply every_cut_body; [exact Hsync|exact Hok|lia|exact Hf].
  Qed.
End EveryCutFile.
