(* C04 at the level of the codec builder: target struct types that differ by
   deleted, reordered or added fields, at any nesting depth, give codec trees in
   the projection relation of ProjectSimP, and related zero destinations.
   Together with [project_sim]: the fields that remain decode to the same values. *)
From Coq Require Import List ZArith Lia Bool.
Require Import Avro.Model.Base Avro.Model.Prim Avro.Model.Schema Avro.Model.GoType
               Avro.Model.Spec Avro.Model.Codec Avro.Model.Denote.
Require Import Avro.Proofs.BlocksP Avro.Proofs.CodecInd Avro.Proofs.ReadP Avro.Proofs.ProjectP Avro.Proofs.CanonP
               Avro.Proofs.ContainerP Avro.Proofs.LayoutP Avro.Proofs.TypedP Avro.Proofs.ProjectSimP.
Import ListNotations.

(* ---- the relation between target types ---- *)
Definition atomic (t : gtype) : Prop :=
  match t with TStruct _ _ _ | TPtr _ | TSlice _ | TMap _ _ | TNamed _ _ => False | _ => True end.

(* [tsub st tB tA]: tB is tA with struct fields (selected by name) deleted or
   reordered, at any depth; when [st = false] also with fields added.  Fields
   present on both sides keep their type (recursively related) and omitempty flag. *)
Inductive tsub (st : bool) : gtype -> gtype -> Prop :=
| ts_atomic t : atomic t -> tsub st t t
| ts_ptr b0 a : tsub st b0 a -> tsub st (TPtr b0) (TPtr a)
| ts_slice b0 a : tsub st b0 a -> tsub st (TSlice b0) (TSlice a)
| ts_map k b0 a : tsub st b0 a -> tsub st (TMap k b0) (TMap k a)
| ts_named id b0 a : tsub st b0 a -> tsub st (TNamed id b0) (TNamed id a)
| ts_struct nB pB fsB nA pA fsA :
    (forall n jB fB jA fA, find_field n fsB = Some (jB, fB) -> find_field n fsA = Some (jA, fA) ->
       omit_empty fB = omit_empty fA) ->
    (forall n jB fB jA fA, find_field n fsB = Some (jB, fB) -> find_field n fsA = Some (jA, fA) ->
       tsub st (gf_type fB) (gf_type fA)) ->
    (st = true -> forall n jB fB, find_field n fsB = Some (jB, fB) -> find_field n fsA <> None) ->
    tsub st (TStruct nB pB fsB) (TStruct nA pA fsA).

Lemma tsub_atomic_inv st tB tA : atomic tA -> tsub st tB tA -> tB = tA.
Proof. intros Ha H. destruct H; try contradiction; reflexivity. Qed.

Lemma tsub_atomic_left st tB tA : atomic tB -> tsub st tB tA -> tA = tB.
Proof. intros Ha H. destruct H; try contradiction; reflexivity. Qed.

Lemma tsub_underlying st tB tA : tsub st tB tA -> tsub st (underlying tB) (underlying tA).
Proof.
  induction 1 as [t Ha| | | |id b0 a H IH|]; try (cbn [underlying]; constructor; assumption).
  - destruct t; try contradiction; cbn [underlying]; constructor; exact Ha.
  - cbn [underlying]. exact IH.
Qed.

Lemma tsub_lookup st reg tB tA : tsub st tB tA -> reg_lookup reg tB = reg_lookup reg tA.
Proof. destruct 1; reflexivity. Qed.

Lemma zero_underlying t : zero_of (underlying t) = zero_of t.
Proof. induction t; try reflexivity. cbn [underlying zero_of]. exact IHt. Qed.

Lemma peel_nonptr t : (forall e, t <> TPtr e) -> peel t = (O, t).
Proof. destruct t; try reflexivity. intros H. exfalso. exact (H t eq_refl). Qed.

Lemma tsub_peel st tB tA : tsub st tB tA ->
  exists k t0B t0A, peel tB = (k, t0B) /\ peel tA = (k, t0A) /\ tsub st t0B t0A /\
    (k = O -> t0B = tB /\ t0A = tA) /\ (k <> O -> zero_of tB = VPtr None /\ zero_of tA = VPtr None).
Proof.
  induction 1 as [t Ha|b0 a H IH| | | |].
  - exists O, t, t. rewrite peel_nonptr by (intros e ->; contradiction).
    repeat split; try (constructor; exact Ha); congruence.
  - destruct IH as (k & t0B & t0A & EB & EA & Hs & _ & _). exists (S k), t0B, t0A. cbn [peel]. rewrite EB, EA.
    repeat split; auto; congruence.
  - exists O, (TSlice b0), (TSlice a). repeat split; try (constructor; assumption); congruence.
  - exists O, (TMap k b0), (TMap k a). repeat split; try (constructor; assumption); congruence.
  - exists O, (TNamed id b0), (TNamed id a). repeat split; try (constructor; assumption); congruence.
  - exists O, (TStruct nB pB fsB), (TStruct nA pA fsA). repeat split; try (constructor; assumption); congruence.
Qed.

(* ---- schemas in scope: distinct field names (as Avro requires), unions only of the nullable form ---- *)
Inductive sok : schema -> Prop :=
| sok_leaf s : match s with SRecord _ | SArray _ | SMap _ | SUnion _ => False | _ => True end -> sok s
| sok_record fields : NoDup (map fst fields) -> Forall (fun p => sok (snd p)) fields -> sok (SRecord fields)
| sok_array x : sok x -> sok (SArray x)
| sok_map x : sok x -> sok (SMap x)
| sok_null_first x : sok x -> sok (SUnion [SNull; x])
| sok_null_second x : x <> SNull -> sok x -> sok (SUnion [x; SNull]).

(* ---- leaves ---- *)
Definition leaf (c : codec) : Prop :=
  match c with
  | CNull | CRecord _ | CArray _ _ _ | CMap _ _ _ | CPtr _ _ | CUnionOne _ _ | CCustom _ _ => False
  | _ => True
  end.

Lemma leaf_proj st c z : leaf c -> cproj st c c /\ vproj c c z z.
Proof. destruct c; cbn; intros H; try contradiction; split; reflexivity. Qed.

Lemma build_prim_leaf s u om c : build_prim s u om = Some c -> c = CNull \/ leaf c.
Proof.
  unfold build_prim. destruct s; try discriminate.
  - intros H. injection H as <-. left. reflexivity.
  - destruct u as [[]|]; try discriminate; intros H; injection H as <-; right; exact I.
  - destruct u as [[| [] | | | | | | | | | | | | | | | |]|]; try discriminate; intros H; injection H as <-; right; exact I.
  - destruct u as [[| [] | | | | | | | | | | | | | | | |]|]; try discriminate; intros H; injection H as <-; right; exact I.
  - destruct u as [[]|]; try discriminate; intros H; injection H as <-; right; exact I.
  - destruct u as [[]|]; try discriminate; intros H; injection H as <-; right; exact I.
  - destruct u as [[]|]; try discriminate; try (destruct (is_u8 e); try discriminate); intros H; injection H as <-; right; exact I.
  - destruct u as [[]|]; try discriminate; intros H; injection H as <-; right; exact I.
  - destruct (size <? 0); try discriminate.
    destruct u as [[]|]; try discriminate; try (destruct (is_u8 e && (n =? size)); try discriminate); intros H; injection H as <-; right; exact I.
Qed.

(* build_prim looks at the underlying type only through shapes on which tsub forces equality,
   except []T, where the element decides *)
Lemma is_u8_tsub st eB eA : tsub st eB eA -> is_u8 eA = true -> eB = eA \/ is_u8 eB = true.
Proof.
  intros H Hu. unfold is_u8 in *. pose proof (tsub_underlying _ _ _ H) as Hun.
  destruct (underlying eA) eqn:EA; try discriminate. destruct k; try discriminate.
  apply tsub_atomic_inv in Hun; [|exact I]. right. rewrite Hun. reflexivity.
Qed.

Lemma tsub_slice_inv st tB eA : tsub st tB (TSlice eA) -> exists eB, tB = TSlice eB /\ tsub st eB eA.
Proof. inversion 1; subst; [contradiction|]. eexists; split; [reflexivity|assumption]. Qed.
Lemma tsub_map_inv st tB k eA : tsub st tB (TMap k eA) -> exists eB, tB = TMap k eB /\ tsub st eB eA.
Proof. inversion 1; subst; [contradiction|]. eexists; split; [reflexivity|assumption]. Qed.
Lemma tsub_struct_inv st tB nA pA fsA : tsub st tB (TStruct nA pA fsA) ->
  exists nB pB fsB, tB = TStruct nB pB fsB /\
    (forall n jB fB jA fA, find_field n fsB = Some (jB, fB) -> find_field n fsA = Some (jA, fA) -> omit_empty fB = omit_empty fA) /\
    (forall n jB fB jA fA, find_field n fsB = Some (jB, fB) -> find_field n fsA = Some (jA, fA) -> tsub st (gf_type fB) (gf_type fA)) /\
    (st = true -> forall n jB fB, find_field n fsB = Some (jB, fB) -> find_field n fsA <> None).
Proof. inversion 1; subst; [contradiction|]. do 3 eexists. split; [reflexivity|]. split; [|split]; assumption. Qed.

Lemma prim_proj st s uB uA om cA cB : tsub st uB uA ->
  build_prim s (Some uA) om = Some cA -> build_prim s (Some uB) om = Some cB ->
  cproj st cB cA /\ vproj cB cA (zero_of uB) (zero_of uA).
Proof.
  intros Hs HA HB.
  assert (Hsame : uB = uA -> cproj st cB cA /\ vproj cB cA (zero_of uB) (zero_of uA)).
  { intros ->. rewrite HA in HB. injection HB as <-.
    destruct (build_prim_leaf _ _ _ _ HA) as [->|Hl]; [split; [reflexivity|exact I]|apply leaf_proj; exact Hl]. }
  destruct uA; try (apply Hsame; apply (tsub_atomic_inv st); [exact I|exact Hs]).
  - (* slice *) destruct (tsub_slice_inv _ _ _ Hs) as (eB & -> & He).
    destruct s; try discriminate HA; try (cbn [build_prim] in HA; destruct (size <? 0); discriminate HA);
      try (injection HA as <-; injection HB as <-; split; [reflexivity|exact I]).
    cbn [build_prim] in HA, HB.
    destruct (is_u8 uA) eqn:EA; [|discriminate]. destruct (is_u8 eB) eqn:EB; [|discriminate].
    injection HA as <-. injection HB as <-. cbn [zero_of]. rewrite EA, EB. split; reflexivity.
  - destruct s; try discriminate HA; try (cbn [build_prim] in HA; destruct (size <? 0); discriminate HA). injection HA as <-. injection HB as <-. split; [reflexivity|exact I].
  - destruct s; try discriminate HA; try (cbn [build_prim] in HA; destruct (size <? 0); discriminate HA). injection HA as <-. injection HB as <-. split; [reflexivity|exact I].
  - destruct s; try discriminate HA; try (cbn [build_prim] in HA; destruct (size <? 0); discriminate HA). injection HA as <-. injection HB as <-. split; [reflexivity|exact I].
  - destruct s; try discriminate HA; try (cbn [build_prim] in HA; destruct (size <? 0); discriminate HA). injection HA as <-. injection HB as <-. split; [reflexivity|exact I].
Qed.

(* ---- find_field ---- *)
Lemma find_field_name name : forall gfs j gf, find_field name gfs = Some (j, gf) -> name_for_field gf = name.
Proof.
  unfold find_field. intros gfs.
  assert (Hgen : forall (l : list gfield) (i : nat) (found : option (nat * gfield)) (j : nat) (gf : gfield),
     (forall j0 gf0, found = Some (j0, gf0) -> name_for_field gf0 = name) ->
     (fix go (l : list gfield) (i : nat) (found : option (nat * gfield)) {struct l} :=
        match l with
        | [] => found
        | f :: r => let n := name_for_field f in
                    if negb (bytes_eqb n dash) && bytes_eqb n name then go r (S i) (Some (i, f)) else go r (S i) found
        end) l i found = Some (j, gf) -> name_for_field gf = name).
  { induction l as [|f r IH]; intros i found j gf Hf H.
    - eapply Hf. exact H.
    - cbv zeta in H.
      destruct (negb (bytes_eqb (name_for_field f) dash) && bytes_eqb (name_for_field f) name) eqn:E; rewrite ?E in H.
      + apply (IH (S i) (Some (i, f)) j gf); [|exact H]. intros j0 gf0 E0. injection E0 as <- <-.
        apply andb_true_iff in E. destruct E as [_ E]. apply beqb_eq. exact E.
      + apply (IH (S i) found j gf); [exact Hf|exact H]. }
  intros j gf H. apply (Hgen gfs O None j gf); [discriminate|exact H].
Qed.

Lemma find_field_inj gfs n1 n2 j f1 f2 :
  find_field n1 gfs = Some (j, f1) -> find_field n2 gfs = Some (j, f2) -> n1 = n2.
Proof.
  intros H1 H2. pose proof (find_field_nth _ _ _ _ H1) as E1. pose proof (find_field_nth _ _ _ _ H2) as E2.
  rewrite E1 in E2. injection E2 as <-. rewrite <- (find_field_name _ _ _ _ H1). apply (find_field_name _ _ _ _ H2).
Qed.

(* targets of a built field list *)
Definition hit_targets (gfs : list gfield) (fields : list (ident * schema)) : list nat :=
  flat_map (fun p => match find_field (fst p) gfs with Some (j, _) => [j] | None => [] end) fields.

Lemma build_fields_targets bld gfs : forall fields fs,
  build_fields bld (Some gfs) fields = Some fs -> targets fs = hit_targets gfs fields.
Proof.
  induction fields as [|[n s] l IH]; intros fs H.
  - cbn in H. injection H as <-. reflexivity.
  - cbn [build_fields] in H.
    destruct (match find_field n gfs with Some (_, gf) => bld s (Some (gf_type gf)) (omit_empty gf) | None => bld s None false end) as [c|]; [|discriminate].
    destruct (build_fields bld (Some gfs) l) as [r|] eqn:Er; [|discriminate]. injection H as <-.
    unfold hit_targets. cbn [flat_map fst]. fold (hit_targets gfs l). rewrite <- (IH r eq_refl).
    destruct (find_field n gfs) as [[j gf]|]; reflexivity.
Qed.

Lemma hit_targets_nodup gfs : forall fields, NoDup (map fst fields) -> NoDup (hit_targets gfs fields).
Proof.
  induction fields as [|[n s] l IH]; intros Hnd; [constructor|].
  cbn [map fst] in Hnd. inversion Hnd as [|? ? Hni Hnd']; subst.
  unfold hit_targets. cbn [flat_map fst]. fold (hit_targets gfs l).
  destruct (find_field n gfs) as [[j gf]|] eqn:E; [|apply IH; exact Hnd'].
  cbn [app]. constructor; [|apply IH; exact Hnd'].
  intros Hin. unfold hit_targets in Hin. apply in_flat_map in Hin. destruct Hin as ([n' s'] & Hl & Hj). cbn [fst] in Hj.
  destruct (find_field n' gfs) as [[j' gf']|] eqn:E'; [|contradiction]. destruct Hj as [<-|[]].
  apply Hni. rewrite (find_field_inj _ _ _ _ _ _ E E'). apply (in_map fst) in Hl. exact Hl.
Qed.

Lemma hit_targets_range gfs : forall fields, Forall (fun j => (j < length gfs)%nat) (hit_targets gfs fields).
Proof.
  induction fields as [|[n s] l IH]; [constructor|].
  unfold hit_targets. cbn [flat_map fst]. fold (hit_targets gfs l).
  destruct (find_field n gfs) as [[j gf]|] eqn:E; [|exact IH]. cbn [app]. constructor; [|exact IH].
  apply find_field_nth in E. apply nth_error_Some. congruence.
Qed.

Fixpoint zeros (l : list gfield) {struct l} : list gval :=
  match l with [] => [] | GF _ _ _ _ ft :: r => zero_of ft :: zeros r end.
Lemma zero_struct n p gfs : zero_of (TStruct n p gfs) = VStruct (zeros gfs).
Proof. reflexivity. Qed.
Lemma zeros_length gfs : length (zeros gfs) = length gfs.
Proof. induction gfs as [|[? ? ? ? ft] r IH]; [reflexivity|]. cbn [zeros length]. rewrite IH. reflexivity. Qed.
Lemma zeros_nth gfs : forall j gf, nth_error gfs j = Some gf -> nth j (zeros gfs) VBad = zero_of (gf_type gf).
Proof.
  induction gfs as [|[? ? ? ? ft] r IH]; intros [|j] gf H; try discriminate.
  - injection H as <-. reflexivity.
  - cbn [zeros nth]. apply IH. exact H.
Qed.

(* ---- what the recursive calls provide ---- *)
Definition proj_at (st : bool) (bld : schema -> option gtype -> bool -> option codec) (s : schema) : Prop :=
  forall tB tA om cA cB, tsub st tB tA -> bld s (Some tA) om = Some cA -> bld s (Some tB) om = Some cB ->
    cproj st cB cA /\ vproj cB cA (zero_of tB) (zero_of tA).

Lemma fields_proj st bld gfsB gfsA :
  (forall n jB fB jA fA, find_field n gfsB = Some (jB, fB) -> find_field n gfsA = Some (jA, fA) -> omit_empty fB = omit_empty fA) ->
  (forall n jB fB jA fA, find_field n gfsB = Some (jB, fB) -> find_field n gfsA = Some (jA, fA) -> tsub st (gf_type fB) (gf_type fA)) ->
  (st = true -> forall n jB fB, find_field n gfsB = Some (jB, fB) -> find_field n gfsA <> None) ->
  forall fields fsA fsB,
  Forall (fun p => proj_at st bld (snd p)) fields ->
  build_fields bld (Some gfsA) fields = Some fsA -> build_fields bld (Some gfsB) fields = Some fsB ->
  cfields st fsA fsB /\ vfields (zeros gfsB) (zeros gfsA) fsA fsB.
Proof.
  intros Hom Hty Hst. induction fields as [|[n s] l IH]; intros fsA fsB HP HA HB.
  - cbn in HA, HB. injection HA as <-. injection HB as <-. split; exact I.
  - inversion HP as [|? ? Hs HPl]; subst. cbn [snd] in Hs. cbn [build_fields] in HA, HB.
    destruct (match find_field n gfsA with Some (_, gf) => bld s (Some (gf_type gf)) (omit_empty gf) | None => bld s None false end) as [ca|] eqn:Ea; [|discriminate].
    destruct (build_fields bld (Some gfsA) l) as [rA|] eqn:ErA; [|discriminate]. injection HA as <-.
    destruct (match find_field n gfsB with Some (_, gf) => bld s (Some (gf_type gf)) (omit_empty gf) | None => bld s None false end) as [cb|] eqn:Eb; [|discriminate].
    destruct (build_fields bld (Some gfsB) l) as [rB|] eqn:ErB; [|discriminate]. injection HB as <-.
    destruct (IH rA rB HPl eq_refl eq_refl) as [Hc Hv].
    destruct (find_field n gfsA) as [[jA fA]|] eqn:EA; destruct (find_field n gfsB) as [[jB fB]|] eqn:EB;
      cbn [option_map fst cfields vfields].
    + rewrite (Hom n jB fB jA fA EB EA) in Eb.
      destruct (Hs _ _ _ _ _ (Hty n jB fB jA fA EB EA) Ea Eb) as [Hc1 Hv1]. split; [split; assumption|]. split; [|exact Hv].
      rewrite (zeros_nth _ _ _ (find_field_nth _ _ _ _ EB)), (zeros_nth _ _ _ (find_field_nth _ _ _ _ EA)). exact Hv1.
    + split; [split; [exact I|exact Hc]|exact Hv].
    + split; [split; [|exact Hc]|exact Hv]. destruct st; [|reflexivity]. exfalso. exact (Hst eq_refl n jB fB EB EA).
    + split; [split; [exact I|exact Hc]|exact Hv].
Qed.

Lemma disp_proj st bld s t0B t0A om cA cB :
  match s with
  | SArray it => proj_at st bld it
  | SMap vs => proj_at st bld vs
  | SRecord fields => NoDup (map fst fields) /\ Forall (fun p => proj_at st bld (snd p)) fields
  | SUnion _ => False
  | _ => True
  end ->
  tsub st t0B t0A ->
  disp bld s (Some t0A) om = Some cA -> disp bld s (Some t0B) om = Some cB ->
  cproj st cB cA /\ vproj cB cA (zero_of t0B) (zero_of t0A).
Proof.
  intros IH Hs HA HB. pose proof (tsub_underlying _ _ _ Hs) as Hu.
  rewrite <- (zero_underlying t0B), <- (zero_underlying t0A).
  unfold disp in HA, HB. cbn [option_map] in HA, HB.
  destruct s; try contradiction; try discriminate HA; try (eapply prim_proj; eassumption).
  - (* record *)
    destruct IH as [Hnd HP].
    destruct (underlying t0A) as [| | | | | | | | | |nA pA gfsA| | | | | | |] eqn:EA; cbn [struct_fields] in HA; try discriminate.
    destruct (tsub_struct_inv _ _ _ _ _ Hu) as (nB & pB & gfsB & EB & Hom & Hty & Hst). rewrite EB in HB |- *. cbn [struct_fields] in HB.
    destruct (build_fields bld (Some gfsA) fields) as [fsA|] eqn:EfA; [|discriminate]. injection HA as <-.
    destruct (build_fields bld (Some gfsB) fields) as [fsB|] eqn:EfB; [|discriminate]. injection HB as <-.
    destruct (fields_proj st bld gfsB gfsA Hom Hty Hst fields fsA fsB HP EfA EfB) as [Hc Hv].
    pose proof (build_fields_targets _ _ _ _ EfA) as TA. pose proof (build_fields_targets _ _ _ _ EfB) as TB.
    split.
    + apply cproj_record. rewrite TA, TB. refine (conj _ (conj _ Hc)); apply hit_targets_nodup; exact Hnd.
    + rewrite !zero_struct. apply vproj_record. rewrite TA, TB, !zeros_length.
      refine (conj _ (conj _ Hv)); apply hit_targets_range.
  - (* array *)
    destruct (underlying t0A) as [| | | | | |eA| | | | | | | | | | |] eqn:EA; try discriminate.
    destruct (tsub_slice_inv _ _ _ Hu) as (eB & EB & He). rewrite EB in HB |- *.
    destruct (bld s (Some eA) false) as [icA|] eqn:EiA; [|discriminate]. injection HA as <-.
    destruct (bld s (Some eB) false) as [icB|] eqn:EiB; [|discriminate]. injection HB as <-.
    destruct (IH _ _ _ _ _ He EiA EiB) as [Hc Hv]. split; [cbn [cproj]; split; assumption|].
    cbn [zero_of vproj].
    destruct (is_u8 eA) eqn:UA.
    + destruct (is_u8_tsub _ _ _ He UA) as [->|UB]; [rewrite UA|rewrite UB]; reflexivity.
    + destruct (is_u8 eB) eqn:UB; [|constructor].
      exfalso. unfold is_u8 in UA, UB. pose proof (tsub_underlying _ _ _ He) as Hue.
      destruct (underlying eB) eqn:E1; try discriminate. destruct k; try discriminate.
      apply tsub_atomic_left in Hue; [|exact I]. rewrite Hue in UA. discriminate.
  - (* map *)
    destruct (underlying t0A) as [| | | | | | | |kA eA| | | | | | | | |] eqn:EA; try discriminate.
    destruct (tsub_map_inv _ _ _ _ Hu) as (eB & EB & He). rewrite EB in HB |- *.
    destruct (underlying kA); try discriminate.
    destruct (bld s (Some eA) false) as [vcA|] eqn:EiA; [|discriminate]. injection HA as <-.
    destruct (bld s (Some eB) false) as [vcB|] eqn:EiB; [|discriminate]. injection HB as <-.
    destruct (IH _ _ _ _ _ He EiA EiB) as [Hc Hv]. split; [cbn [cproj]; split; assumption|exact I].
Qed.

(* ---- registry, pointers, nullable unions ---- *)
Lemma wrapper_leaf w s inner c : apply_builder (BWrap w) s inner = Some c -> leaf c.
Proof.
  destruct w; cbn [apply_builder]; destruct s; try discriminate; try (destruct date; try discriminate);
    intros H; injection H as <-; exact I.
Qed.

Lemma base_proj st reg bld s t0B t0A om cA cB : reg_sane reg ->
  match s with
  | SArray it => proj_at st bld it
  | SMap vs => proj_at st bld vs
  | SRecord fields => NoDup (map fst fields) /\ Forall (fun p => proj_at st bld (snd p)) fields
  | SUnion _ => False
  | _ => True
  end ->
  tsub st t0B t0A ->
  build_base reg bld s t0A om = Some cA -> build_base reg bld s t0B om = Some cB ->
  cproj st cB cA /\ vproj cB cA (zero_of t0B) (zero_of t0A).
Proof.
  intros Hreg IH Hs HA HB. unfold build_base in HA, HB. rewrite (tsub_lookup st reg _ _ Hs) in HB.
  destruct (reg_lookup reg t0A) as [[w|k]|] eqn:El.
  - (* a library wrapper: the type is that wrapper on both sides *)
    pose proof (Hreg _ _ El) as EA. subst t0A. apply tsub_atomic_inv in Hs; [|exact I]. subst t0B.
    rewrite HA in HB. injection HB as <-. apply leaf_proj. eapply wrapper_leaf. exact HA.
  - cbn [apply_builder] in HA, HB.
    destruct (disp bld s (Some t0A) om) as [dA|] eqn:EdA; [|discriminate]. injection HA as <-.
    destruct (disp bld s (Some t0B) om) as [dB|] eqn:EdB; [|discriminate]. injection HB as <-.
    destruct (disp_proj st bld s t0B t0A om dA dB IH Hs EdA EdB) as [Hc Hv]. split; [cbn [cproj]; split; [reflexivity|exact Hc]|exact Hv].
  - eapply disp_proj; eassumption.
Qed.

Lemma wrap_ptrs_proj st : forall k cB cA zB zA, cproj st cB cA -> vproj cB cA zB zA ->
  cproj st (wrap_ptrs k cB zB) (wrap_ptrs k cA zA) /\
  (k <> O -> vproj (wrap_ptrs k cB zB) (wrap_ptrs k cA zA) (VPtr None) (VPtr None)).
Proof.
  induction k as [|k IH]; intros cB cA zB zA Hc Hv; cbn [wrap_ptrs].
  - split; [exact Hc|congruence].
  - destruct (IH (CPtr cB zB) (CPtr cA zA) (VPtr None) (VPtr None)) as [Hc' Hv'].
    + cbn [cproj]. split; assumption.
    + exact I.
    + split; [exact Hc'|]. intros _. destruct k; [exact I|]. apply Hv'. congruence.
Qed.

Lemma union_one_proj st cA' cB' nn cA cB zB zA : cproj st cB' cA' -> vproj cB' cA' zB zA ->
  union_one (Some cA') nn = Some cA -> union_one (Some cB') nn = Some cB ->
  cproj st cB cA /\ vproj cB cA zB zA.
Proof.
  intros Hc Hv HA HB.
  assert (Hstr : forall om', cA' = CString om' -> cproj st cB cA /\ vproj cB cA zB zA).
  { intros om' ->. cbn [cproj] in Hc. subst cB'. cbn [union_one] in HA, HB. injection HA as <-. injection HB as <-.
    cbn [vproj] in Hv. subst zB. split; reflexivity. }
  destruct cA'; try (eapply Hstr; reflexivity);
    (cbn [union_one] in HA; injection HA as <-;
     destruct cB'; try (cbn [cproj] in Hc; first [contradiction|discriminate]);
     cbn [union_one] in HB; injection HB as <-; split; [cbn [cproj]; split; [reflexivity|exact Hc]|exact Hv]).
Qed.

(* ---- the builder ---- *)
Theorem build_proj st reg : reg_sane reg -> forall s, sok s -> proj_at st (fun s' t' om' => build reg s' t' om') s.
Proof.
  intros Hreg. induction s as [ | | | | | | | | | |fields IHfields|it IHit|vs IHvs|brs IHbrs| ] using schema_ind'; intros Hok tB tA om cA cB Hs HA HB.
  all: try (cbn [build] in HA, HB;
            destruct (tsub_peel _ _ _ Hs) as (k & t0B & t0A & EB & EA & Hs0 & Hk0 & Hk1);
            rewrite EA in HA; rewrite EB in HB;
            destruct k as [|k];
            [ destruct (Hk0 eq_refl) as [-> ->]; eapply (base_proj st reg _ _ _ _ om); [exact Hreg| |exact Hs0|exact HA|exact HB]; exact I
            | destruct (build_base reg (fun s' t' om' => build reg s' t' om') _ t0A false) as [c0A|] eqn:EbA; [|discriminate];
              destruct (build_base reg (fun s' t' om' => build reg s' t' om') _ t0B false) as [c0B|] eqn:EbB; [|discriminate];
              injection HA as <-; injection HB as <-;
              assert (Hbp : cproj st c0B c0A /\ vproj c0B c0A (zero_of t0B) (zero_of t0A))
                by (eapply (base_proj st reg _ _ t0B t0A false); [exact Hreg| |exact Hs0|exact EbA|exact EbB]; exact I);
              destruct Hbp as [Hc Hv];
              destruct (wrap_ptrs_proj st (S k) c0B c0A (zero_of t0B) (zero_of t0A) Hc Hv) as [Hc' Hv'];
              destruct (Hk1 ltac:(congruence)) as [-> ->]; split; [exact Hc'|apply Hv'; congruence] ]; fail).
  - (* null *) injection HA as <-. injection HB as <-. split; [reflexivity|exact I].
  - (* record *)
    assert (IHf : NoDup (map fst fields) /\ Forall (fun p => proj_at st (fun s' t' om' => build reg s' t' om') (snd p)) fields).
    { inversion Hok as [? Hl| ? Hnd Hf| | | |]; subst; [contradiction|]. split; [exact Hnd|].
      clear -IHfields Hf. induction fields as [|p l IHl]; [constructor|].
      inversion IHfields as [|? ? Hp Hl]; subst. inversion Hf as [|? ? Hp' Hl']; subst. constructor; [apply Hp; exact Hp'|apply IHl; assumption]. }
    cbn [build] in HA, HB.
    destruct (tsub_peel _ _ _ Hs) as (k & t0B & t0A & EB & EA & Hs0 & Hk0 & Hk1).
    rewrite EA in HA. rewrite EB in HB. destruct k as [|k].
    + destruct (Hk0 eq_refl) as [-> ->]. eapply (base_proj st reg _ _ _ _ om); [exact Hreg| |exact Hs0|exact HA|exact HB]; exact IHf.
    + destruct (build_base reg (fun s' t' om' => build reg s' t' om') _ t0A false) as [c0A|] eqn:EbA; [|discriminate].
      destruct (build_base reg (fun s' t' om' => build reg s' t' om') _ t0B false) as [c0B|] eqn:EbB; [|discriminate].
      injection HA as <-. injection HB as <-.
      assert (Hbp : cproj st c0B c0A /\ vproj c0B c0A (zero_of t0B) (zero_of t0A))
        by (eapply (base_proj st reg _ _ t0B t0A false); [exact Hreg| |exact Hs0|exact EbA|exact EbB]; exact IHf).
      destruct Hbp as [Hc Hv].
      destruct (wrap_ptrs_proj st (S k) c0B c0A (zero_of t0B) (zero_of t0A) Hc Hv) as [Hc' Hv'].
      destruct (Hk1 ltac:(congruence)) as [-> ->]. split; [exact Hc'|apply Hv'; congruence].
  - (* array *)
    assert (IHf : proj_at st (fun s' t' om' => build reg s' t' om') it).
    { inversion Hok as [? Hl| |? Hx| | |]; subst; [contradiction|]. apply IHit. exact Hx. }
    cbn [build] in HA, HB.
    destruct (tsub_peel _ _ _ Hs) as (k & t0B & t0A & EB & EA & Hs0 & Hk0 & Hk1).
    rewrite EA in HA. rewrite EB in HB. destruct k as [|k].
    + destruct (Hk0 eq_refl) as [-> ->]. eapply (base_proj st reg _ _ _ _ om); [exact Hreg| |exact Hs0|exact HA|exact HB]; exact IHf.
    + destruct (build_base reg (fun s' t' om' => build reg s' t' om') _ t0A false) as [c0A|] eqn:EbA; [|discriminate].
      destruct (build_base reg (fun s' t' om' => build reg s' t' om') _ t0B false) as [c0B|] eqn:EbB; [|discriminate].
      injection HA as <-. injection HB as <-.
      assert (Hbp : cproj st c0B c0A /\ vproj c0B c0A (zero_of t0B) (zero_of t0A))
        by (eapply (base_proj st reg _ _ t0B t0A false); [exact Hreg| |exact Hs0|exact EbA|exact EbB]; exact IHf).
      destruct Hbp as [Hc Hv].
      destruct (wrap_ptrs_proj st (S k) c0B c0A (zero_of t0B) (zero_of t0A) Hc Hv) as [Hc' Hv'].
      destruct (Hk1 ltac:(congruence)) as [-> ->]. split; [exact Hc'|apply Hv'; congruence].
  - (* map *)
    assert (IHf : proj_at st (fun s' t' om' => build reg s' t' om') vs).
    { inversion Hok as [? Hl| | |? Hx| |]; subst; [contradiction|]. apply IHvs. exact Hx. }
    cbn [build] in HA, HB.
    destruct (tsub_peel _ _ _ Hs) as (k & t0B & t0A & EB & EA & Hs0 & Hk0 & Hk1).
    rewrite EA in HA. rewrite EB in HB. destruct k as [|k].
    + destruct (Hk0 eq_refl) as [-> ->]. eapply (base_proj st reg _ _ _ _ om); [exact Hreg| |exact Hs0|exact HA|exact HB]; exact IHf.
    + destruct (build_base reg (fun s' t' om' => build reg s' t' om') _ t0A false) as [c0A|] eqn:EbA; [|discriminate].
      destruct (build_base reg (fun s' t' om' => build reg s' t' om') _ t0B false) as [c0B|] eqn:EbB; [|discriminate].
      injection HA as <-. injection HB as <-.
      assert (Hbp : cproj st c0B c0A /\ vproj c0B c0A (zero_of t0B) (zero_of t0A))
        by (eapply (base_proj st reg _ _ t0B t0A false); [exact Hreg| |exact Hs0|exact EbA|exact EbB]; exact IHf).
      destruct Hbp as [Hc Hv].
      destruct (wrap_ptrs_proj st (S k) c0B c0A (zero_of t0B) (zero_of t0A) Hc Hv) as [Hc' Hv'].
      destruct (Hk1 ltac:(congruence)) as [-> ->]. split; [exact Hc'|apply Hv'; congruence].
  - (* union: only the nullable forms are in scope *)
    inversion Hok as [? Hl| | | |x Hx|x Hne Hx]; subst; [contradiction| |].
    + inversion IHbrs as [|? ? _ H2]; subst. inversion H2 as [|? ? IHx _]; subst.
      assert (HA' : union_one (build reg x (Some tA) om) 1 = Some cA) by (destruct x; exact HA).
      assert (HB' : union_one (build reg x (Some tB) om) 1 = Some cB) by (destruct x; exact HB).
      destruct (build reg x (Some tA) om) as [cA'|] eqn:EA; [|discriminate].
      destruct (build reg x (Some tB) om) as [cB'|] eqn:EB; [|discriminate].
      destruct (IHx Hx tB tA om cA' cB' Hs EA EB) as [Hc Hv]. eapply union_one_proj; eassumption.
    + inversion IHbrs as [|? ? IHx _]; subst.
      assert (HA' : union_one (build reg x (Some tA) om) 0 = Some cA) by (destruct x; try exact HA; contradiction).
      assert (HB' : union_one (build reg x (Some tB) om) 0 = Some cB) by (destruct x; try exact HB; contradiction).
      destruct (build reg x (Some tA) om) as [cA'|] eqn:EA; [|discriminate].
      destruct (build reg x (Some tB) om) as [cB'|] eqn:EB; [|discriminate].
      destruct (IHx Hx tB tA om cA' cB' Hs EA EB) as [Hc Hv]. eapply union_one_proj; eassumption.
Qed.

(* ---- the composition: what C04 states ---- *)
Theorem projection_any_depth st reg s tB tA om cA cB d vA :
  reg_sane reg -> sok s -> tsub st tB tA ->
  build reg s (Some tA) om = Some cA -> build reg s (Some tB) om = Some cB ->
  apply_datum cA (zero_of tA) d = Some vA ->
  (st = true -> exists vB, apply_datum cB (zero_of tB) d = Some vB) /\
  (forall vB, apply_datum cB (zero_of tB) d = Some vB -> vproj cB cA vB vA).
Proof.
  intros Hreg Hok Hs HA HB Ha. destruct (build_proj st reg Hreg s Hok tB tA om cA cB Hs HA HB) as [Hc Hv].
  exact (project_sim st cA cB (zero_of tB) (zero_of tA) d vA Hc Hv Ha).
Qed.

(* ---- how to establish tsub, and non-vacuity ---- *)
Lemma find_field_in name gfs j gf : find_field name gfs = Some (j, gf) -> In gf gfs /\ name_for_field gf = name.
Proof.
  intros H. split; [|eapply find_field_name; exact H]. apply find_field_nth in H. eapply nth_error_In. exact H.
Qed.

Lemma find_field_some name : forall gfs gf, In gf gfs -> name_for_field gf = name -> name <> dash -> find_field name gfs <> None.
Proof.
  unfold find_field. intros gfs.
  assert (Hgen : forall (l : list gfield) (i : nat) (found : option (nat * gfield)) gf,
     (In gf l \/ found <> None) -> name_for_field gf = name -> name <> dash ->
     (fix go (l : list gfield) (i : nat) (found : option (nat * gfield)) {struct l} :=
        match l with
        | [] => found
        | f :: r => let n := name_for_field f in
                    if negb (bytes_eqb n dash) && bytes_eqb n name then go r (S i) (Some (i, f)) else go r (S i) found
        end) l i found <> None).
  { induction l as [|f r IH]; intros i found gf Hin Hn Hd.
    - destruct Hin as [[]|Hf]. exact Hf.
    - cbv zeta.
      destruct (negb (bytes_eqb (name_for_field f) dash) && bytes_eqb (name_for_field f) name) eqn:E.
      + apply (IH (S i) (Some (i, f)) gf); [right; discriminate|exact Hn|exact Hd].
      + destruct Hin as [[->|Hin]|Hf].
        * exfalso. rewrite Hn in E. rewrite beqb_refl in E. rewrite andb_true_r in E.
          apply negb_false_iff in E. apply beqb_eq in E. exact (Hd E).
        * apply (IH (S i) found gf); [left; exact Hin|exact Hn|exact Hd].
        * apply (IH (S i) found gf); [right; exact Hf|exact Hn|exact Hd]. }
  intros gf Hin Hn Hd. apply (Hgen gfs O None gf); [left; exact Hin|exact Hn|exact Hd].
Qed.

Lemma find_field_not_dash name gfs j gf : find_field name gfs = Some (j, gf) -> name <> dash.
Proof.
  unfold find_field.
  assert (Hgen : forall (l : list gfield) (i : nat) (found : option (nat * gfield)),
     (forall j0 gf0, found = Some (j0, gf0) -> name <> dash) ->
     (fix go (l : list gfield) (i : nat) (found : option (nat * gfield)) {struct l} :=
        match l with
        | [] => found
        | f :: r => let n := name_for_field f in
                    if negb (bytes_eqb n dash) && bytes_eqb n name then go r (S i) (Some (i, f)) else go r (S i) found
        end) l i found = Some (j, gf) -> name <> dash).
  { induction l as [|f r IH]; intros i found Hf H.
    - eapply Hf. exact H.
    - cbv zeta in H.
      destruct (negb (bytes_eqb (name_for_field f) dash) && bytes_eqb (name_for_field f) name) eqn:E; rewrite ?E in H.
      + apply (IH (S i) (Some (i, f))); [|exact H]. intros j0 gf0 _.
        apply andb_true_iff in E. destruct E as [E1 E2]. apply beqb_eq in E2. rewrite <- E2.
        intros Hd. rewrite Hd, beqb_refl in E1. discriminate.
      + apply (IH (S i) found); [exact Hf|exact H]. }
  apply Hgen. discriminate.
Qed.

(* a struct pair is related when same-named fields are, and (strict) every field of B has a namesake in A *)
Lemma ts_struct_pairs st nB pB fsB nA pA fsA :
  (forall fB fA, In fB fsB -> In fA fsA -> name_for_field fB = name_for_field fA ->
     omit_empty fB = omit_empty fA /\ tsub st (gf_type fB) (gf_type fA)) ->
  (st = true -> forall fB, In fB fsB -> name_for_field fB <> dash ->
     exists fA, In fA fsA /\ name_for_field fA = name_for_field fB) ->
  tsub st (TStruct nB pB fsB) (TStruct nA pA fsA).
Proof.
  intros Hp Hs. apply ts_struct.
  - intros n jB fB jA fA HB HA. destruct (find_field_in _ _ _ _ HB) as [IB NB]. destruct (find_field_in _ _ _ _ HA) as [IA NA].
    apply (Hp fB fA IB IA). congruence.
  - intros n jB fB jA fA HB HA. destruct (find_field_in _ _ _ _ HB) as [IB NB]. destruct (find_field_in _ _ _ _ HA) as [IA NA].
    apply (Hp fB fA IB IA). congruence.
  - intros Hst n jB fB HB. destruct (find_field_in _ _ _ _ HB) as [IB NB].
    pose proof (find_field_not_dash _ _ _ _ HB) as Hd.
    destruct (Hs Hst fB IB ltac:(congruence)) as (fA & IA & NA).
    eapply find_field_some; [exact IA|congruence|exact Hd].
Qed.

(* every type is related to itself *)
Lemma tsub_refl st : forall t, tsub st t t.
Proof.
  induction t using gtype_ind'; try (apply ts_atomic; exact I); try (constructor; assumption).
  apply ts_struct.
  - intros nm jB fB jA fA HB HA. rewrite HB in HA. injection HA as _ <-. reflexivity.
  - intros nm jB fB jA fA HB HA. rewrite HB in HA. injection HA as _ <-.
    destruct (find_field_in _ _ _ _ HB) as [IB _]. rewrite Forall_forall in H. apply H. exact IB.
  - intros _ nm jB fB HB. congruence.
Qed.

(* the example of Props/C04.v: a nested struct with a field deleted and the others reordered *)
Example tsub_example :
  let inner_full := TStruct [73] [] [GF [88] true [120] [] (TInt I64); GF [89] true [121] [] TString] in
  let inner_less := TStruct [74] [] [GF [89] true [121] [] TString] in
  let tA := TStruct [65] [] [GF [65] true [97] [] (TPtr TString); GF [66] true [98] [] (TInt I64);
                             GF [68] true [100] [] (TSlice inner_full)] in
  let tB := TStruct [66] [] [GF [68] true [100] [] (TSlice inner_less); GF [65] true [97] [] (TPtr TString)] in
  tsub true tB tA.
Proof.
  cbv zeta. apply ts_struct_pairs.
  - intros fB fA [<-|[<-|[]]] [<-|[<-|[<-|[]]]] Hn; try (vm_compute in Hn; discriminate); split; try reflexivity.
    + apply ts_slice. apply ts_struct_pairs.
      * intros gB gA [<-|[]] [<-|[<-|[]]] Hm; try (vm_compute in Hm; discriminate). split; [reflexivity|apply ts_atomic; exact I].
      * intros _ gB [<-|[]] _. eexists. split; [right; left; reflexivity|reflexivity].
    + apply tsub_refl.
  - intros _ fB [<-|[<-|[]]] _.
    + eexists. split; [right; right; left; reflexivity|reflexivity].
    + eexists. split; [left; reflexivity|reflexivity].
Qed.
