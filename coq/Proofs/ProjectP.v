(* C04, projection at the datum level: removing target fields never changes what
   is decoded into the fields that remain, and fields nobody targets keep the
   value they had (zero in a fresh target). *)
From Coq Require Import List ZArith Lia Bool.
Require Import Avro.Model.Base Avro.Model.Prim Avro.Model.Schema Avro.Model.GoType
               Avro.Model.Spec Avro.Model.Codec Avro.Model.Denote.
Require Import Avro.Proofs.ReadP.
Import ListNotations.

Definition drop_target (keep : nat -> bool) (f : codec * option nat) : codec * option nat :=
  match f with
  | (c, Some j) => (c, if keep j then Some j else None)
  | (c, None) => (c, None)
  end.

Lemma nth_update_same {A} (l : list A) j x d : (j < length l)%nat -> nth j (list_update l j x) d = x.
Proof. revert j. induction l as [|a l IH]; intros [|j] H; cbn in *; try lia; auto. apply IH. lia. Qed.
Lemma nth_update_other {A} (l : list A) i j x d : i <> j -> nth i (list_update l j x) d = nth i l d.
Proof. revert i j. induction l as [|a l IH]; intros [|i] [|j] H; cbn; auto; try congruence. Qed.
Lemma update_length {A} (l : list A) j x : length (list_update l j x) = length l.
Proof. revert j. induction l as [|a l IH]; intros [|j]; cbn; auto. Qed.
Lemma update_oob {A} (l : list A) j x : (length l <= j)%nat -> list_update l j x = l.
Proof. revert j. induction l as [|a l IH]; intros [|j] H; cbn in *; try lia; auto. f_equal. apply IH. lia. Qed.

(* two runs over the same datums: the full target and the target with some fields removed *)
Theorem projection_drop (keep : nat -> bool) : forall fs ds vs0 vsA vsB vsA',
  length vsA = length vs0 -> length vsB = length vs0 ->
  (forall j, keep j = true -> nth j vsB VBad = nth j vsA VBad) ->
  (forall j, keep j = false -> nth j vsB VBad = nth j vs0 VBad) ->
  apply_fields fs ds vsA = Some vsA' ->
  exists vsB', apply_fields (map (drop_target keep) fs) ds vsB = Some vsB' /\
    length vsB' = length vs0 /\
    (forall j, keep j = true -> nth j vsB' VBad = nth j vsA' VBad) /\
    (forall j, keep j = false -> nth j vsB' VBad = nth j vs0 VBad).
Proof.
  induction fs as [|[fc tgt] fs IH]; intros ds vs0 vsA vsB vsA' HlA HlB Hk Hd H.
  - destruct ds; [|discriminate]. cbn in H. injection H as <-. exists vsB. cbn. auto.
  - destruct ds as [|d ds]; [destruct tgt; discriminate|]. destruct tgt as [j|]; cbn [apply_fields map drop_target] in *.
    + destruct (apply_datum fc (nth j vsA VBad) d) as [v|] eqn:Ea; [|discriminate].
      destruct (keep j) eqn:Ekj.
      * cbn [apply_fields]. rewrite (Hk j Ekj), Ea.
        apply (IH ds vs0 (list_update vsA j v) (list_update vsB j v) vsA'); try (rewrite update_length; assumption); auto.
        -- intros i Hi. destruct (Nat.eq_dec i j) as [->|Hne].
           ++ destruct (Nat.lt_ge_cases j (length vs0)) as [Hlt|Hge].
              ** rewrite !nth_update_same by lia. reflexivity.
              ** rewrite !update_oob by lia. apply Hk. exact Hi.
           ++ rewrite !nth_update_other by exact Hne. apply Hk. exact Hi.
        -- intros i Hi. assert (i <> j) by (intros ->; congruence). rewrite nth_update_other by assumption. apply Hd. exact Hi.
      * cbn [apply_fields].
        apply (IH ds vs0 (list_update vsA j v) vsB vsA'); try (rewrite update_length; assumption); auto.
        intros i Hi. assert (i <> j) by (intros ->; congruence). rewrite nth_update_other by assumption. apply Hk. exact Hi.
    + apply (IH ds vs0 vsA vsB vsA'); auto.
Qed.

(* fields that no schema field targets keep their value *)
Theorem untargeted_unchanged : forall fs ds vs vs' j,
  (forall c, ~ In (c, Some j) fs) -> apply_fields fs ds vs = Some vs' -> nth j vs' VBad = nth j vs VBad.
Proof.
  induction fs as [|[fc tgt] fs IH]; intros ds vs vs' j Hn H.
  - destruct ds; [|discriminate]. cbn in H. injection H as <-. reflexivity.
  - destruct ds as [|d ds]; [destruct tgt; discriminate|]. destruct tgt as [i|]; cbn [apply_fields] in H.
    + destruct (apply_datum fc (nth i vs VBad) d) as [v|]; [|discriminate].
      assert (i <> j) by (intros ->; apply (Hn fc); left; reflexivity).
      rewrite (IH ds _ vs' j (fun c Hin => Hn c (or_intror Hin)) H). apply nth_update_other. congruence.
    + apply (IH ds vs vs' j (fun c Hin => Hn c (or_intror Hin)) H).
Qed.
