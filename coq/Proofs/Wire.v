(* [wire c s]: codec c reads/writes the wire type of schema s.
   The reference decoder consumes a prefix; skipping with any codec of the
   right wire type consumes exactly what the reference decoder consumes. *)
From Coq Require Import List ZArith Lia Bool ZifyBool ZifyNat.
Require Import Avro.Model.Base Avro.Model.Prim Avro.Model.Schema Avro.Model.GoType
               Avro.Model.Blocks Avro.Model.Time Avro.Model.Spec Avro.Model.Codec.
Require Import Avro.Proofs.ListFacts Avro.Proofs.VarintP Avro.Proofs.VarintMore Avro.Proofs.PrimP
               Avro.Proofs.BlocksP Avro.Proofs.CodecInd Avro.Proofs.CodecEq.
Import ListNotations.
Open Scope Z_scope.

Definition intlike (s : schema) : Prop := match s with SInt _ | SLong _ => True | _ => False end.

Fixpoint wire_fields (W : codec -> schema -> Prop) (l : list (codec * option nat)) (fl : list (ident * schema)) {struct l} : Prop :=
  match l, fl with
  | [], [] => True
  | (fc, _) :: l', (_, fs) :: fl' => W fc fs /\ wire_fields W l' fl'
  | _, _ => False
  end.
Fixpoint wire_list (W : codec -> schema -> Prop) (l : list codec) (sl : list schema) {struct l} : Prop :=
  match l, sl with
  | [], [] => True
  | c :: l', s :: sl' => W c s /\ wire_list W l' sl'
  | _, _ => False
  end.

Fixpoint wire (c : codec) (s : schema) {struct c} : Prop :=
  match c with
  | CNull => s = SNull
  | CBool _ | CNullBool => s = SBool
  | CInt _ _ | CNullInt | CTimeLong _ | CDate => intlike s
  | CFloat _ | CNullFloat => s = SFloat
  | CDouble _ | CF32Double _ | CNullDouble => s = SDouble
  | CBytes _ => s = SBytes
  | CString _ | CTimeString | CNullString | CNullTime => s = SString
  | CFixed n => s = SFixed n /\ 0 <= n
  | CRecord fs =>
      match s with
      | SRecord fields =>
          (fix go (l : list (codec * option nat)) (fl : list (ident * schema)) {struct l} : Prop :=
             match l, fl with
             | [], [] => True
             | (fc, _) :: l', (_, fs') :: fl' => wire fc fs' /\ go l' fl'
             | _, _ => False
             end) fs fields
      | _ => False
      end
  | CArray ic _ _ => match s with SArray it => wire ic it | _ => False end
  | CMap vc _ _ => match s with SMap vs => wire vc vs | _ => False end
  | CPtr c' _ | CCustom _ c' => wire c' s
  | CUnion cs =>
      match s with
      | SUnion brs =>
          (fix go (l : list codec) (sl : list schema) {struct l} : Prop :=
             match l, sl with
             | [], [] => True
             | x :: l', y :: sl' => wire x y /\ go l' sl'
             | _, _ => False
             end) cs brs
      | _ => False
      end
  | CUnionOne c' nn =>
      match s with
      | SUnion [SNull; x] => nn = 1 /\ wire c' x
      | SUnion [x; SNull] => nn = 0 /\ wire c' x
      | _ => False
      end
  | CUnionStr _ nn => (s = SUnion [SNull; SString] /\ nn = 1) \/ (s = SUnion [SString; SNull] /\ nn = 0)
  end.

Lemma wire_record_eq fs fields : wire (CRecord fs) (SRecord fields) = wire_fields wire fs fields.
Proof.
  cbn [wire]. revert fields. induction fs as [|[fc t] l IH]; intros [|[n s] fl]; try reflexivity.
  cbn [wire_fields]. rewrite <- IH. reflexivity.
Qed.
Lemma wire_union_eq cs brs : wire (CUnion cs) (SUnion brs) = wire_list wire cs brs.
Proof.
  cbn [wire]. revert brs. induction cs as [|x l IH]; intros [|y sl]; try reflexivity.
  cbn [wire_list]. rewrite <- IH. reflexivity.
Qed.

(* ---- the reference decoder consumes a prefix ---- *)
Lemma sd_len_prefixed_suffix bs v r : sd_len_prefixed bs = Done v r -> suffix r bs.
Proof.
  unfold sd_len_prefixed. intros H. inv_obind H. apply rd_varint_canon_rd in Ho.
  apply rd_varint_suffix in Ho. destruct (a <? 0); [discriminate|].
  apply rd_next_suffix in H. eauto using suffix_trans.
Qed.

Lemma float_read_suffix n bs v r : float_read n bs = Done v r -> suffix r bs.
Proof. unfold float_read. intros H. inv_obind H. injection H as _ <-. eapply rd_next_suffix; eauto. Qed.

Lemma sd_suffix fuel : forall s bs d r, sd fuel s bs = Done d r -> suffix r bs.
Proof.
  induction s using schema_ind'; intros bs dd r Hsd.
  - injection Hsd as _ <-. apply suffix_refl.
  - cbn [sd] in Hsd. inv_obind Hsd. apply rd_byte_suffix in Ho.
    destruct (a =? 0); [injection Hsd as _ <-; exact Ho|].
    destruct (a =? 1); [injection Hsd as _ <-; exact Ho|discriminate].
  - cbn [sd] in Hsd. inv_obind Hsd. apply rd_varint_canon_rd in Ho. apply rd_varint_suffix in Ho.
    destruct (int_fits 32 a); [injection Hsd as _ <-; exact Ho|discriminate].
  - cbn [sd] in Hsd. inv_obind Hsd. apply rd_varint_canon_rd in Ho. apply rd_varint_suffix in Ho.
    injection Hsd as _ <-; exact Ho.
  - cbn [sd] in Hsd. inv_obind Hsd. apply float_read_suffix in Ho. injection Hsd as _ <-; exact Ho.
  - cbn [sd] in Hsd. inv_obind Hsd. apply float_read_suffix in Ho. injection Hsd as _ <-; exact Ho.
  - cbn [sd] in Hsd. inv_obind Hsd. apply sd_len_prefixed_suffix in Ho. injection Hsd as _ <-; exact Ho.
  - cbn [sd] in Hsd. inv_obind Hsd. apply sd_len_prefixed_suffix in Ho. injection Hsd as _ <-; exact Ho.
  - cbn [sd] in Hsd. inv_obind Hsd. apply rd_next_suffix in Ho. injection Hsd as _ <-; exact Ho.
  - cbn [sd] in Hsd. inv_obind Hsd. apply rd_varint_canon_rd in Ho. apply rd_varint_suffix in Ho.
    destruct ((0 <=? a) && (a <? n)); [injection Hsd as _ <-; exact Ho|discriminate].
  - rewrite sd_record_eq in Hsd. inv_obind Hsd. injection Hsd as _ <-.
    revert bs a Ho. induction fields as [|[n fs] l IHl]; intros bs a Ho.
    + injection Ho as _ <-. apply suffix_refl.
    + cbn [sd_fields] in Ho. inv_obind Ho. inv_obind Ho. injection Ho as _ <-.
      inversion H as [|? ? Hfs Hl]; subst. cbn [snd] in Hfs.
      apply Hfs in Ho0. apply (IHl Hl) in Ho1. eauto using suffix_trans.
  - rewrite sd_array_eq in Hsd. inv_obind Hsd. injection Hsd as _ <-.
    eapply blocks_suffix; [|exact Ho].
    intros a0 b0 a' r' Hi. unfold sd_aitem in Hi. inv_obind Hi. injection Hi as _ <-. eauto.
  - rewrite sd_map_eq in Hsd. inv_obind Hsd. injection Hsd as _ <-.
    eapply blocks_suffix; [|exact Ho].
    intros a0 b0 a' r' Hi. unfold sd_mitem in Hi. inv_obind Hi. inv_obind Hi. injection Hi as _ <-.
    apply sd_len_prefixed_suffix in Ho0. apply IHs in Ho1. eauto using suffix_trans.
  - rewrite sd_union_eq in Hsd. inv_obind Hsd. apply rd_varint_canon_rd in Ho. apply rd_varint_suffix in Ho.
    destruct (a <? 0); [discriminate|].
    assert (suffix r r0); [|eauto using suffix_trans].
    revert Hsd. generalize (Z.to_nat a). induction brs as [|x l IHl]; intros i Hp; [destruct i; discriminate|].
    inversion H as [|? ? Hx Hl]; subst. destruct i.
    + cbn [sd_pick] in Hp. inv_obind Hp. injection Hp as _ <-. eauto.
    + cbn [sd_pick] in Hp. eauto.
  - discriminate.
Qed.

(* ---- primitive facts used by skip ---- *)
Lemma rd_byte_skip bs v r : rd_byte bs = Done v r -> rd_skipn 1 bs = Done tt r.
Proof. destruct bs as [|x bs]; [discriminate|]. cbn. intros H. injection H as _ <-. 
  unfold rd_skipn, rd_next, len. cbn [length]. replace ((1 <? 0) || (Z.of_nat (S (length bs)) <? 1)) with false by lia. reflexivity. Qed.

Lemma rd_next_skip l bs v r : rd_next l bs = Done v r -> rd_skipn l bs = Done tt r.
Proof. intros H. unfold rd_skipn. rewrite H. reflexivity. Qed.

Lemma float_read_skip n bs v r : float_read n bs = Done v r -> rd_skipn (Z.of_nat n) bs = Done tt r.
Proof. unfold float_read. intros H. inv_obind H. injection H as _ <-. apply rd_next_skip in Ho. exact Ho. Qed.

Lemma sd_len_prefixed_skip bs v r : sd_len_prefixed bs = Done v r -> string_skip bs = Done tt r.
Proof.
  unfold sd_len_prefixed, string_skip. intros H. inv_obind H. apply rd_varint_canon_rd in Ho. rewrite Ho. cbn [obind].
  destruct (a <? 0); [discriminate|]. eapply rd_next_skip; eauto.
Qed.

Lemma rd_varint_canon_skip bs v r : rd_varint_canon bs = Done v r -> int_skip bs = Done tt r.
Proof. intros H. apply rd_varint_canon_rd in H. unfold int_skip. rewrite H. reflexivity. Qed.

(* a canonical selector 0 or 1 is the single byte 0 or 2 *)
Lemma canon_selector bs idx r : rd_varint_canon bs = Done idx r -> 0 <= idx <= 1 -> bs = (2 * idx) :: r.
Proof.
  unfold rd_varint_canon. intros H Hi. inv_obind H.
  destruct (bytes_eqb (firstn (length bs - length r0) bs) (enc_varint a)) eqn:E; [|discriminate].
  injection H as -> ->. pose proof (rd_varint_suffix _ _ _ Ho) as [p ->].
  rewrite app_length in E. replace (length p + length r - length r)%nat with (length p) in E by lia.
  rewrite firstn_len_app in E.
  assert (Hp : p = enc_varint idx).
  { clear -E. revert E. generalize (enc_varint idx). induction p as [|x p IH]; intros [|y l] E; try discriminate; [reflexivity|].
    cbn in E. apply andb_prop in E as [E1 E2]. apply Z.eqb_eq in E1. subst. f_equal. apply IH. exact E2. }
  assert (idx = 0 \/ idx = 1) as [-> | ->] by lia; subst p; reflexivity.
Qed.

(* ---- K: skipping consumes exactly what the reference decoder consumes ---- *)
Theorem skip_exact fuel : forall c s bs d r,
  wire c s -> sd fuel s bs = Done d r -> c_skip fuel c bs = Done tt r.
Proof.
  induction c using codec_ind'; intros s bs d r W Hsd.
  - cbn [wire] in W. subst s. injection Hsd as _ <-. reflexivity.
  - cbn [wire] in W. subst s. cbn [sd] in Hsd. inv_obind Hsd. cbn [c_skip]. apply rd_byte_skip in Ho.
    destruct (a =? 0); [injection Hsd as _ <-; exact Ho|]. destruct (a =? 1); [injection Hsd as _ <-; exact Ho|discriminate].
  - cbn [wire] in W. destruct s; try contradiction; cbn [sd] in Hsd; inv_obind Hsd; apply rd_varint_canon_skip in Ho; cbn [c_skip].
    + destruct (int_fits 32 a); [injection Hsd as _ <-; exact Ho|discriminate].
    + injection Hsd as _ <-; exact Ho.
  - cbn [wire] in W. subst s. cbn [sd] in Hsd. inv_obind Hsd. apply float_read_skip in Ho. injection Hsd as _ <-. exact Ho.
  - cbn [wire] in W. subst s. cbn [sd] in Hsd. inv_obind Hsd. apply float_read_skip in Ho. injection Hsd as _ <-. exact Ho.
  - cbn [wire] in W. subst s. cbn [sd] in Hsd. inv_obind Hsd. apply float_read_skip in Ho. injection Hsd as _ <-. exact Ho.
  - cbn [wire] in W. subst s. cbn [sd] in Hsd. inv_obind Hsd. apply sd_len_prefixed_skip in Ho. injection Hsd as _ <-. exact Ho.
  - cbn [wire] in W. subst s. cbn [sd] in Hsd. inv_obind Hsd. apply sd_len_prefixed_skip in Ho. injection Hsd as _ <-. exact Ho.
  - cbn [wire] in W. destruct W as [-> Hn]. cbn [sd] in Hsd. inv_obind Hsd. apply rd_next_skip in Ho. injection Hsd as _ <-. exact Ho.
  - (* record *)
    destruct s; try contradiction. rewrite wire_record_eq in W.
    rewrite sd_record_eq in Hsd. inv_obind Hsd. injection Hsd as _ <-. rewrite c_skip_record_eq.
    revert fields bs a W Ho. induction fs as [|[fc t] l IHl]; intros [|[n fsch] fl] bs a W Ho; try contradiction.
    + injection Ho as _ <-. reflexivity.
    + cbn [wire_fields] in W. destruct W as [W1 W2].
      cbn [sd_fields] in Ho. inv_obind Ho. inv_obind Ho. injection Ho as _ <-.
      inversion H as [|? ? Hfc Hl]; subst. cbn [fst] in Hfc.
      cbn [skip_fields]. rewrite (Hfc _ _ _ _ W1 Ho0). cbn [obind]. eapply IHl; eauto.
  - cbn [wire] in W. (* array *)
    destruct s; try contradiction. rewrite sd_array_eq in Hsd. inv_obind Hsd. injection Hsd as _ <-.
    rewrite c_skip_array_eq. eapply blocks_skip; [| |exact Ho].
    + intros a0 b0 a' r' Hi. unfold sd_aitem in Hi. inv_obind Hi. injection Hi as _ <-. eapply sd_suffix; eauto.
    + intros a0 b0 a' r' Hi. unfold sd_aitem in Hi. inv_obind Hi. injection Hi as _ <-. eapply IHc; eauto.
  - cbn [wire] in W. (* map *)
    destruct s; try contradiction. rewrite sd_map_eq in Hsd. inv_obind Hsd. injection Hsd as _ <-.
    rewrite c_skip_map_eq. eapply blocks_skip; [| |exact Ho].
    + intros a0 b0 a' r' Hi. unfold sd_mitem in Hi. inv_obind Hi. inv_obind Hi. injection Hi as _ <-.
      apply sd_len_prefixed_suffix in Ho0. apply sd_suffix in Ho1. eauto using suffix_trans.
    + intros a0 b0 a' r' Hi. unfold sd_mitem in Hi. inv_obind Hi. inv_obind Hi. injection Hi as _ <-.
      unfold skip_mitem. rewrite (sd_len_prefixed_skip _ _ _ Ho0). cbn [obind]. eapply IHc; eauto.
  - cbn [wire] in W. (* pointer *) cbn [c_skip]. eapply IHc; eauto.
  - (* general union *)
    destruct s; try contradiction. rewrite wire_union_eq in W.
    rewrite sd_union_eq in Hsd. inv_obind Hsd. rewrite c_skip_union_eq.
    rewrite (rd_varint_canon_rd _ _ _ Ho). cbn [obind].
    destruct (a <? 0) eqn:Ea; [discriminate|].
    assert (Hlen : forall (l : list codec) (sl : list schema) i d0 r1,
              Forall (fun c => forall s bs d r, wire c s -> sd fuel s bs = Done d r -> c_skip fuel c bs = Done tt r) l ->
              wire_list wire l sl -> sd_pick fuel a r0 sl i = Done d0 r1 ->
              (i < length l)%nat /\ skip_pick fuel r0 l i = Done tt r1).
    { induction l as [|x l IHl]; intros [|y sl] i d0 r1 HFl Wl Hp; try contradiction.
      - destruct i; discriminate.
      - destruct Wl as [W1 W2]. inversion HFl as [|? ? Hx Hl]; subst. destruct i.
        + cbn [sd_pick] in Hp. inv_obind Hp. injection Hp as _ <-. split; [cbn; lia|]. cbn [skip_pick]. eauto.
        + cbn [sd_pick] in Hp. destruct (IHl _ _ _ _ Hl W2 Hp) as [Hlt Hs]. split; [cbn; lia|exact Hs]. }
    destruct (Hlen _ _ _ _ _ H W Hsd) as [Hlt Hs].
    replace (Z.of_nat (length cs) <=? a) with false by lia. cbn [orb]. exact Hs.
  - cbn [wire] in W. (* null + one *)
    destruct s; try contradiction. destruct branches as [|x1 [|x2 [|? ?]]]; try contradiction.
    + destruct x1; contradiction.
    + rewrite sd_union_eq in Hsd. inv_obind Hsd. destruct (a <? 0) eqn:Ea; [discriminate|].
      assert (Hidx : 0 <= a <= 1).
      { destruct (Z.to_nat a) as [|[|k]] eqn:Ek; try lia. cbn [sd_pick] in Hsd. discriminate. }
      pose proof (canon_selector _ _ _ Ho Hidx) as ->. cbn [c_skip rd_byte obind].
      replace (2 * a / 2) with a by lia. replace (2 <=? a) with false by lia.
      assert (Hcase : (x1 = SNull /\ nn = 1 /\ wire c x2) \/ (x2 = SNull /\ nn = 0 /\ wire c x1)).
      { destruct x1; destruct x2; try contradiction; destruct W as [? ?];
        first [left; repeat split; (reflexivity || assumption) | right; repeat split; (reflexivity || assumption)]. }
      assert (a = 0 \/ a = 1) as [-> | ->] by lia.
      * cbn [Z.to_nat sd_pick] in Hsd. inv_obind Hsd. injection Hsd as _ <-.
        destruct Hcase as [(-> & -> & Wc) | (-> & -> & Wc)].
        -- cbn [sd] in Ho0. injection Ho0 as _ <-. reflexivity.
        -- cbn [Z.eqb]. eapply IHc; eauto.
      * change (Z.to_nat 1) with 1%nat in Hsd. cbn [sd_pick] in Hsd. inv_obind Hsd. injection Hsd as _ <-.
        destruct Hcase as [(-> & -> & Wc) | (-> & -> & Wc)].
        -- cbn [Z.eqb Pos.eqb]. eapply IHc; eauto.
        -- cbn [sd] in Ho0. injection Ho0 as _ <-. reflexivity.
    + destruct x1; try contradiction; destruct x2; contradiction.
  - cbn [wire] in W. (* null + string *)
    destruct W as [[-> ->] | [-> ->]]; rewrite sd_union_eq in Hsd; inv_obind Hsd;
      (destruct (a <? 0) eqn:Ea; [discriminate|]);
      (assert (Hidx : 0 <= a <= 1) by (destruct (Z.to_nat a) as [|[|k]] eqn:Ek; try lia; cbn [sd_pick] in Hsd; discriminate));
      pose proof (canon_selector _ _ _ Ho Hidx) as ->; cbn [c_skip rd_byte obind];
      replace (2 * a / 2) with a by lia; replace (2 <=? a) with false by lia;
      (assert (a = 0 \/ a = 1) as [-> | ->] by lia).
    + cbn [Z.to_nat sd_pick sd obind] in Hsd. injection Hsd as _ <-. reflexivity.
    + change (Z.to_nat 1) with 1%nat in Hsd. cbn [sd_pick sd] in Hsd. inv_obind Hsd. inv_obind Ho0.
      injection Ho0 as <- <-. injection Hsd as _ <-. cbn [Z.eqb Pos.eqb]. eapply sd_len_prefixed_skip; eauto.
    + cbn [Z.to_nat sd_pick sd] in Hsd. inv_obind Hsd. inv_obind Ho0.
      injection Ho0 as <- <-. injection Hsd as _ <-. cbn [Z.eqb]. eapply sd_len_prefixed_skip; eauto.
    + change (Z.to_nat 1) with 1%nat in Hsd. cbn [sd_pick sd obind] in Hsd. injection Hsd as _ <-. reflexivity.
  - cbn [wire] in W. subst s. cbn [sd] in Hsd. inv_obind Hsd. apply sd_len_prefixed_skip in Ho. injection Hsd as _ <-. exact Ho.
  - cbn [wire] in W. destruct s; try contradiction; cbn [sd] in Hsd; inv_obind Hsd; apply rd_varint_canon_skip in Ho; cbn [c_skip].
    + destruct (int_fits 32 a); [injection Hsd as _ <-; exact Ho|discriminate].
    + injection Hsd as _ <-; exact Ho.
  - cbn [wire] in W. destruct s; try contradiction; cbn [sd] in Hsd; inv_obind Hsd; apply rd_varint_canon_skip in Ho; cbn [c_skip].
    + destruct (int_fits 32 a); [injection Hsd as _ <-; exact Ho|discriminate].
    + injection Hsd as _ <-; exact Ho.
  - cbn [wire] in W. destruct s; try contradiction; cbn [sd] in Hsd; inv_obind Hsd; apply rd_varint_canon_skip in Ho; cbn [c_skip].
    + destruct (int_fits 32 a); [injection Hsd as _ <-; exact Ho|discriminate].
    + injection Hsd as _ <-; exact Ho.
  - cbn [wire] in W. subst s. cbn [sd] in Hsd. inv_obind Hsd. cbn [c_skip]. apply rd_byte_skip in Ho.
    destruct (a =? 0); [injection Hsd as _ <-; exact Ho|]. destruct (a =? 1); [injection Hsd as _ <-; exact Ho|discriminate].
  - cbn [wire] in W. subst s. cbn [sd] in Hsd. inv_obind Hsd. apply float_read_skip in Ho. injection Hsd as _ <-. exact Ho.
  - cbn [wire] in W. subst s. cbn [sd] in Hsd. inv_obind Hsd. apply float_read_skip in Ho. injection Hsd as _ <-. exact Ho.
  - cbn [wire] in W. subst s. cbn [sd] in Hsd. inv_obind Hsd. apply sd_len_prefixed_skip in Ho. injection Hsd as _ <-. exact Ho.
  - cbn [wire] in W. subst s. cbn [sd] in Hsd. inv_obind Hsd. apply sd_len_prefixed_skip in Ho. injection Hsd as _ <-. exact Ho.
  - cbn [wire] in W. cbn [c_skip]. eapply IHc; eauto.
Qed.
