(* Induction principles for the nested inductives (schema, codec). *)
From Coq Require Import List ZArith.
Require Import Avro.Model.Base Avro.Model.Schema Avro.Model.GoType Avro.Model.Codec.
Import ListNotations.

Section SchemaInd.
  Variable P : schema -> Prop.
  Hypothesis HNull : P SNull.
  Hypothesis HBool : P SBool.
  Hypothesis HInt : forall d, P (SInt d).
  Hypothesis HLong : forall l, P (SLong l).
  Hypothesis HFloat : P SFloat.
  Hypothesis HDouble : P SDouble.
  Hypothesis HBytes : P SBytes.
  Hypothesis HString : P SString.
  Hypothesis HFixed : forall n, P (SFixed n).
  Hypothesis HEnum : forall n, P (SEnum n).
  Hypothesis HRecord : forall fields, Forall (fun p => P (snd p)) fields -> P (SRecord fields).
  Hypothesis HArray : forall it, P it -> P (SArray it).
  Hypothesis HMap : forall vs, P vs -> P (SMap vs).
  Hypothesis HUnion : forall brs, Forall P brs -> P (SUnion brs).
  Hypothesis HBad : P SBad.

  Fixpoint schema_ind' (s : schema) : P s :=
    match s with
    | SNull => HNull | SBool => HBool | SInt d => HInt d | SLong l => HLong l
    | SFloat => HFloat | SDouble => HDouble | SBytes => HBytes | SString => HString
    | SFixed n => HFixed n | SEnum n => HEnum n
    | SRecord fields =>
        HRecord fields ((fix go (l : list (ident * schema)) : Forall (fun p => P (snd p)) l :=
                           match l with
                           | [] => Forall_nil _
                           | p :: r => Forall_cons p (schema_ind' (snd p)) (go r)
                           end) fields)
    | SArray it => HArray it (schema_ind' it)
    | SMap vs => HMap vs (schema_ind' vs)
    | SUnion brs =>
        HUnion brs ((fix go (l : list schema) : Forall P l :=
                       match l with
                       | [] => Forall_nil _
                       | x :: r => Forall_cons x (schema_ind' x) (go r)
                       end) brs)
    | SBad => HBad
    end.
End SchemaInd.

Section CodecInd.
  Variable P : codec -> Prop.
  Hypothesis HNull : P CNull.
  Hypothesis HBool : forall om, P (CBool om).
  Hypothesis HInt : forall w om, P (CInt w om).
  Hypothesis HFloat : forall om, P (CFloat om).
  Hypothesis HDouble : forall om, P (CDouble om).
  Hypothesis HF32D : forall om, P (CF32Double om).
  Hypothesis HBytes : forall om, P (CBytes om).
  Hypothesis HString : forall om, P (CString om).
  Hypothesis HFixed : forall n, P (CFixed n).
  Hypothesis HRecord : forall fs, Forall (fun p => P (fst p)) fs -> P (CRecord fs).
  Hypothesis HArray : forall ic z om, P ic -> P (CArray ic z om).
  Hypothesis HMap : forall vc z om, P vc -> P (CMap vc z om).
  Hypothesis HPtr : forall c z, P c -> P (CPtr c z).
  Hypothesis HUnion : forall cs, Forall P cs -> P (CUnion cs).
  Hypothesis HUnionOne : forall c nn, P c -> P (CUnionOne c nn).
  Hypothesis HUnionStr : forall om nn, P (CUnionStr om nn).
  Hypothesis HTimeString : P CTimeString.
  Hypothesis HTimeLong : forall m, P (CTimeLong m).
  Hypothesis HDate : P CDate.
  Hypothesis HNullInt : P CNullInt.
  Hypothesis HNullBool : P CNullBool.
  Hypothesis HNullDouble : P CNullDouble.
  Hypothesis HNullFloat : P CNullFloat.
  Hypothesis HNullString : P CNullString.
  Hypothesis HNullTime : P CNullTime.
  Hypothesis HCustom : forall k c, P c -> P (CCustom k c).

  Fixpoint codec_ind' (c : codec) : P c :=
    match c with
    | CNull => HNull | CBool om => HBool om | CInt w om => HInt w om
    | CFloat om => HFloat om | CDouble om => HDouble om | CF32Double om => HF32D om
    | CBytes om => HBytes om | CString om => HString om | CFixed n => HFixed n
    | CRecord fs =>
        HRecord fs ((fix go (l : list (codec * option nat)) : Forall (fun p => P (fst p)) l :=
                       match l with
                       | [] => Forall_nil _
                       | p :: r => Forall_cons p (codec_ind' (fst p)) (go r)
                       end) fs)
    | CArray ic z om => HArray ic z om (codec_ind' ic)
    | CMap vc z om => HMap vc z om (codec_ind' vc)
    | CPtr c' z => HPtr c' z (codec_ind' c')
    | CUnion cs =>
        HUnion cs ((fix go (l : list codec) : Forall P l :=
                      match l with
                      | [] => Forall_nil _
                      | x :: r => Forall_cons x (codec_ind' x) (go r)
                      end) cs)
    | CUnionOne c' nn => HUnionOne c' nn (codec_ind' c')
    | CUnionStr om nn => HUnionStr om nn
    | CTimeString => HTimeString | CTimeLong m => HTimeLong m | CDate => HDate
    | CNullInt => HNullInt | CNullBool => HNullBool | CNullDouble => HNullDouble
    | CNullFloat => HNullFloat | CNullString => HNullString | CNullTime => HNullTime
    | CCustom k c' => HCustom k c' (codec_ind' c')
    end.
End CodecInd.
