(* The block loop of ReadFile in the model runs on fuel.  Its result does not
   depend on the fuel once there is more of it than bytes: every block consumes
   at least one byte, so the "out of fuel" answer (which the model renders as an
   error) is never what a sufficiently fuelled run returns.  This separates the
   model's fuel from the errors the theorems of C07/C08 speak about. *)
From Coq Require Import List ZArith Lia Bool ZifyBool ZifyNat.
Require Import Avro.Model.Base Avro.Model.Prim Avro.Model.Schema Avro.Model.Container.
Require Import Avro.Proofs.ListFacts Avro.Proofs.VarintP Avro.Proofs.VarintMore Avro.Proofs.PrimP Avro.Proofs.BlocksP
               Avro.Proofs.ContainerP.
Import ListNotations.
Open Scope Z_scope.

Lemma read_varint_shorter bs v r : read_varint bs = RvOk v r -> (length r < length bs)%nat.
Proof.
  unfold read_varint. destruct bs as [|x xs] eqn:E; [discriminate|]. rewrite <- E.
  destruct (dec_varint bs) as [[v' r']| |] eqn:D; try discriminate. intros H. injection H as <- <-.
  assert (Hr : rd_varint bs = Done v' r') by (unfold rd_varint; rewrite D; reflexivity).
  pose proof (rd_varint_shorter _ _ _ Hr) as Hl. unfold len in Hl. lia.
Qed.

Lemma read_full_shorter n bs a r : read_full n bs = Some (a, r) -> (length r <= length bs)%nat.
Proof.
  unfold read_full. destruct ((n <? 0) || (len bs <? n)); [discriminate|]. intros H. injection H as _ <-.
  rewrite skipn_length. lia.
Qed.

Section Fuel.
  Variable decompress : bytes -> option bytes.
  Variable read_record : bytes -> out unit.
  Variable cb : nat -> option Z.
  Variable sync : bytes.

  (* the record loop of one block: its fuel is the declared count + 1 *)
  Theorem read_records_fuel_independent : forall f1 f2 n idx bs,
    (Z.to_nat n < f1)%nat -> (Z.to_nat n < f2)%nat ->
    read_records read_record cb f1 n idx bs = read_records read_record cb f2 n idx bs.
  Proof.
    induction f1 as [|f1 IH]; intros f2 n idx bs H1 H2; [lia|]. destruct f2 as [|f2]; [lia|].
    cbn [read_records]. destruct (n <=? 0) eqn:En; [reflexivity|].
    destruct (read_record bs) as [u r| | |]; try reflexivity.
    destruct (cb idx); [reflexivity|]. apply IH; lia.
  Qed.

  Theorem read_blocks_fuel_independent : forall f1 f2 idx bs,
    (length bs < f1)%nat -> (length bs < f2)%nat ->
    read_blocks decompress read_record cb f1 sync idx bs = read_blocks decompress read_record cb f2 sync idx bs.
  Proof.
    induction f1 as [|f1 IH]; intros f2 idx bs H1 H2; [lia|]. destruct f2 as [|f2]; [lia|].
    cbn [read_blocks].
    destruct (read_varint bs) as [count r| |] eqn:Ec; try reflexivity.
    pose proof (read_varint_shorter _ _ _ Ec) as L1.
    destruct (read_varint r) as [dlen r1| |] eqn:El; try reflexivity.
    pose proof (read_varint_shorter _ _ _ El) as L2.
    destruct (read_full dlen r1) as [[compressed r2]|] eqn:Ef; try reflexivity.
    pose proof (read_full_shorter _ _ _ _ Ef) as L3.
    destruct (decompress compressed) as [payload|]; try reflexivity.
    destruct (read_records read_record cb (S (Z.to_nat count)) count idx payload) as [idx' [res|]]; try reflexivity.
    destruct (read_full 16 r2) as [[sig r3]|] eqn:Es; try reflexivity.
    pose proof (read_full_shorter _ _ _ _ Es) as L4.
    destruct (bytes_eqb sig sync); try reflexivity.
    apply IH; lia.
  Qed.

  (* in particular: with more fuel than bytes the loop's answer is THE answer *)
  Corollary read_blocks_enough_fuel : forall f idx bs, (length bs < f)%nat ->
    read_blocks decompress read_record cb f sync idx bs =
    read_blocks decompress read_record cb (S (length bs)) sync idx bs.
  Proof. intros f idx bs H. apply read_blocks_fuel_independent; lia. Qed.
End Fuel.
