(* Headers of any conforming writer: the metadata map laid out as any number of
   blocks of any number of entries (the library's own writer uses one block of
   two).  readFileHeader accepts every such header, returning exactly its
   entries and sync marker, and refuses every strict prefix of it. *)
From Coq Require Import List ZArith Lia Bool ZifyBool ZifyNat String.
Require Import Avro.Model.Base Avro.Model.Prim Avro.Model.Schema Avro.Model.Container.
Require Import Avro.Proofs.ListFacts Avro.Proofs.VarintP Avro.Proofs.VarintMore Avro.Proofs.PrimP.
Require Import Avro.Proofs.ContainerP Avro.Proofs.FileP Avro.Proofs.HeaderCutP.
Import ListNotations.
Open Scope Z_scope.
Open Scope list_scope.

Definition entry := (bytes * bytes)%type.

Fixpoint entries_bytes (es : list entry) {struct es} : bytes :=
  match es with
  | [] => []
  | e :: r => lp (fst e) ++ lp (snd e) ++ entries_bytes r
  end.

Fixpoint meta_blocks_bytes (bl : list (list entry)) {struct bl} : bytes :=
  match bl with
  | [] => enc_varint 0
  | b0 :: r => enc_varint (Z.of_nat (length b0)) ++ entries_bytes b0 ++ meta_blocks_bytes r
  end.

Definition gen_header (bl : list (list entry)) (sync : bytes) : bytes :=
  magic ++ meta_blocks_bytes bl ++ sync.

Definition entry_ok (e : entry) : Prop := len (fst e) < two63 /\ len (snd e) < two63.
Definition block_ok (b0 : list entry) : Prop :=
  b0 <> [] /\ Z.of_nat (length b0) < two63 /\ Forall entry_ok b0.

Definition set_entry (m : meta) (e : entry) : meta := meta_set m (fst e) (snd e).
Definition set_entries (m : meta) (es : list entry) : meta := fold_left set_entry es m.
Definition set_blocks (m : meta) (bl : list (list entry)) : meta := fold_left set_entries bl m.

Lemma lp_len_pos' s : (1 <= length (lp s))%nat.
Proof.
  unfold lp. rewrite app_length. pose proof (enc_varint_nonempty (len s)) as H.
  destruct (enc_varint (len s)); [congruence|]. cbn [length]. lia.
Qed.

Lemma entries_bytes_len es : (2 * length es <= length (entries_bytes es))%nat.
Proof.
  induction es as [|e es IH]; [cbn; lia|]. cbn [entries_bytes length]. rewrite !app_length.
  pose proof (lp_len_pos' (fst e)). pose proof (lp_len_pos' (snd e)). lia.
Qed.

Lemma meta_blocks_len bl : (length bl + 1 <= length (meta_blocks_bytes bl))%nat.
Proof.
  induction bl as [|b0 bl IH]; [cbn; lia|]. cbn [meta_blocks_bytes length]. rewrite !app_length.
  pose proof (enc_varint_nonempty (Z.of_nat (length b0))) as H.
  destruct (enc_varint (Z.of_nat (length b0))); [congruence|]. cbn [length]. lia.
Qed.

(* one block of entries, complete *)
Lemma entries_ok_gen es : forall fuel m rest, Forall entry_ok es -> (length es < fuel)%nat ->
  read_meta_entries fuel (Z.of_nat (length es)) m (entries_bytes es ++ rest) = Some (set_entries m es, rest).
Proof.
  induction es as [|e es IH]; intros fuel m rest Hok Hf.
  - destruct fuel as [|f]; [lia|]. reflexivity.
  - destruct fuel as [|f]; [lia|]. cbn [read_meta_entries].
    replace (Z.of_nat (length (e :: es)) <=? 0) with false by (cbn [length]; lia). cbv iota.
    inversion Hok as [|e' es' [Hk Hv] Hrest]; subst.
    cbn [entries_bytes]. rewrite <- !app_assoc.
    rewrite read_lp_app by exact Hk. rewrite read_lp_app by exact Hv.
    replace (Z.of_nat (length (e :: es)) - 1) with (Z.of_nat (length es)) by (cbn [length]; lia).
    rewrite IH by (try exact Hrest; cbn [length] in Hf; lia). reflexivity.
Qed.

(* one block of entries, cut anywhere *)
Lemma entries_cut_gen es : forall fuel m j, Forall entry_ok es -> (j < length (entries_bytes es))%nat ->
  read_meta_entries fuel (Z.of_nat (length es)) m (firstn j (entries_bytes es)) = None.
Proof.
  induction es as [|e es IH]; intros fuel m j Hok Hj.
  - cbn in Hj. lia.
  - destruct fuel as [|f]; [reflexivity|]. cbn [read_meta_entries].
    replace (Z.of_nat (length (e :: es)) <=? 0) with false by (cbn [length]; lia). cbv iota.
    inversion Hok as [|e' es' [Hk Hv] Hrest]; subst.
    cbn [entries_bytes] in *.
    destruct (firstn_app_split j (lp (fst e)) (lp (snd e) ++ entries_bytes es)) as [[H1 ->] | [H1 ->]].
    { rewrite read_lp_cut by (try exact Hk; exact H1). reflexivity. }
    rewrite read_lp_app by exact Hk. set (j1 := (j - length (lp (fst e)))%nat).
    destruct (firstn_app_split j1 (lp (snd e)) (entries_bytes es)) as [[H2 ->] | [H2 ->]].
    { rewrite read_lp_cut by (try exact Hv; exact H2). reflexivity. }
    rewrite read_lp_app by exact Hv.
    replace (Z.of_nat (length (e :: es)) - 1) with (Z.of_nat (length es)) by (cbn [length]; lia).
    apply IH; [exact Hrest|]. rewrite !app_length in Hj. unfold j1. lia.
Qed.

Lemma block_count_ok b0 : block_ok b0 ->
  int64_ok (Z.of_nat (length b0)) /\ (Z.of_nat (length b0) =? 0) = false /\ (Z.of_nat (length b0) <? 0) = false.
Proof.
  intros (Hne & Hlt & _). destruct b0 as [|e b0]; [congruence|]. cbn [length] in *.
  unfold int64_ok, two63 in *. lia.
Qed.

(* the whole metadata map, complete *)
Lemma meta_ok_gen bl : forall fuel m rest, Forall block_ok bl -> (length bl < fuel)%nat ->
  read_meta fuel m (meta_blocks_bytes bl ++ rest) = Some (set_blocks m bl, rest).
Proof.
  induction bl as [|b0 bl IH]; intros fuel m rest Hok Hf.
  - destruct fuel as [|f]; [lia|]. cbn [read_meta meta_blocks_bytes].
    rewrite read_varint_enc by (unfold int64_ok, two63; lia). reflexivity.
  - destruct fuel as [|f]; [lia|]. cbn [read_meta meta_blocks_bytes].
    inversion Hok as [|b' bl' Hb Hrest]; subst.
    destruct (block_count_ok b0 Hb) as (Hi & Hz & Hn).
    rewrite <- !app_assoc. rewrite read_varint_enc by exact Hi. rewrite Hz, Hn.
    destruct Hb as (_ & _ & Hes).
    rewrite entries_ok_gen.
    + rewrite IH by (try exact Hrest; cbn [length] in Hf; lia). reflexivity.
    + exact Hes.
    + rewrite app_length. pose proof (entries_bytes_len b0). lia.
Qed.

(* the whole metadata map, cut anywhere *)
Lemma meta_cut_gen bl : forall fuel m j, Forall block_ok bl -> (j < length (meta_blocks_bytes bl))%nat ->
  read_meta fuel m (firstn j (meta_blocks_bytes bl)) = None.
Proof.
  induction bl as [|b0 bl IH]; intros fuel m j Hok Hj.
  - destruct fuel as [|f]; [reflexivity|]. cbn [meta_blocks_bytes] in *.
    change (enc_varint 0) with [0] in *. cbn [length] in Hj. assert (j = 0%nat) by lia. subst j. reflexivity.
  - destruct fuel as [|f]; [reflexivity|]. cbn [read_meta meta_blocks_bytes] in *.
    inversion Hok as [|b' bl' Hb Hrest]; subst.
    destruct (block_count_ok b0 Hb) as (Hi & Hz & Hn).
    destruct (firstn_app_split j (enc_varint (Z.of_nat (length b0))) (entries_bytes b0 ++ meta_blocks_bytes bl)) as [[H1 ->] | [H1 ->]].
    { rewrite read_varint_cut by (try exact Hi; exact H1). destruct j; reflexivity. }
    rewrite read_varint_enc by exact Hi. rewrite Hz, Hn.
    set (j1 := (j - length (enc_varint (Z.of_nat (length b0))))%nat).
    destruct Hb as (_ & _ & Hes).
    destruct (firstn_app_split j1 (entries_bytes b0) (meta_blocks_bytes bl)) as [[H2 E2] | [H2 E2]]; rewrite E2.
    { rewrite entries_cut_gen by (try exact Hes; exact H2). reflexivity. }
    rewrite entries_ok_gen.
    + apply IH; [exact Hrest|]. rewrite !app_length in Hj. unfold j1. lia.
    + exact Hes.
    + rewrite app_length. pose proof (entries_bytes_len b0). lia.
Qed.

Section GenHeader.
  Variable sync : bytes.
  Hypothesis Hsync : len sync = 16.
  Variable bl : list (list entry).
  Hypothesis Hbl : Forall block_ok bl.

  (* any conforming header is accepted: its entries in order (later ones win), its sync marker, the rest untouched *)
  Theorem header_ok_gen rest :
    read_header (gen_header bl sync ++ rest) = Some ({| h_meta := set_blocks [] bl; h_sync := sync |}, rest).
  Proof.
    unfold gen_header, read_header. rewrite <- !app_assoc.
    rewrite (read_full_app 4 magic) by reflexivity. rewrite beqb_refl.
    rewrite meta_ok_gen.
    - rewrite (read_full_app 16 sync) by exact Hsync. reflexivity.
    - exact Hbl.
    - rewrite app_length. pose proof (meta_blocks_len bl). lia.
  Qed.

  (* and refused when cut anywhere *)
  Theorem header_cut_gen k : (k < length (gen_header bl sync))%nat ->
    read_header (firstn k (gen_header bl sync)) = None.
  Proof.
    intros Hk. unfold gen_header in *. unfold read_header.
    destruct (firstn_app_split k magic (meta_blocks_bytes bl ++ sync)) as [[H1 ->] | [H1 ->]].
    { rewrite read_full_short; [reflexivity|]. unfold len. rewrite firstn_length. cbn [length magic] in *. lia. }
    rewrite (read_full_app 4 magic) by reflexivity. rewrite beqb_refl.
    set (j := (k - length magic)%nat).
    destruct (firstn_app_split j (meta_blocks_bytes bl) sync) as [[H2 ->] | [H2 ->]].
    { rewrite meta_cut_gen by (try exact Hbl; exact H2). reflexivity. }
    rewrite meta_ok_gen.
    - rewrite read_full_short; [reflexivity|].
      unfold len in *. rewrite firstn_length. rewrite !app_length in Hk. unfold j. lia.
    - exact Hbl.
    - rewrite app_length. pose proof (meta_blocks_len bl). lia.
  Qed.
End GenHeader.

(* the library's own header is the instance with one block of two entries *)
Lemma header_bytes_is_gen schema_json codec_name sync :
  header_bytes schema_json codec_name sync =
  gen_header [[(b "avro.schema", schema_json); (b "avro.codec", codec_name)]] sync.
Proof.
  unfold header_bytes, gen_header. cbn [meta_blocks_bytes entries_bytes fst snd length].
  rewrite <- !app_assoc. reflexivity.
Qed.

Lemma find_app_bytes {A} (f : A -> bool) (l1 l2 : list A) :
  find f (l1 ++ l2) = match find f l1 with Some x => Some x | None => find f l2 end.
Proof. induction l1 as [|x l1 IH]; [reflexivity|]. cbn [app find]. destruct (f x); [reflexivity|exact IH]. Qed.

(* what a reader then finds under a key: the value of the last entry written with it *)
Lemma meta_get_set_entries es : forall m k,
  meta_get (set_entries m es) k =
  match find (fun e => bytes_eqb k (fst e)) (rev es) with
  | Some e => Some (snd e)
  | None => meta_get m k
  end.
Proof.
  induction es as [|e es IH]; intros m k; [reflexivity|].
  unfold set_entries in *. cbn [fold_left rev]. rewrite IH.
  rewrite find_app_bytes.
  destruct (find (fun e0 => bytes_eqb k (fst e0)) (rev es)) as [e1|]; [reflexivity|].
  cbn [find]. unfold set_entry, meta_set. cbn [meta_get]. cbv beta.
  match goal with |- context [if ?c then Some e else None] => change c with (bytes_eqb k (fst e)) end.
  destruct (bytes_eqb k (fst e)); reflexivity.
Qed.
