(* The whole pipeline in one statement: NewEncoderFor[T] (schema generated from the Go type,
   marshalled to JSON, carried in the header; codec built from that schema) -> Encode / Flush
   history -> bytes -> ReadFile (header read, schema text parsed back, codec built from the
   PARSED schema for the same Go type) -> records.

   The composition uses: schema generation yields normal schema values (JsonGenP), parsing
   what was printed returns the same schema value exactly (JsonP), the container round trip
   for any history (FileP) and the codec round trip W/S/R per record (EndToEnd).  The JSON
   text layer (tree <-> bytes) belongs to the JSON library and enters as two functions with
   one hypothesis: parsing the text of a tree the marshaller may emit returns that tree. *)
From Coq Require Import List ZArith Lia Bool String.
Local Close Scope string_scope.
Require Import Avro.Model.Base Avro.Model.Prim Avro.Model.Schema Avro.Model.GoType
  Avro.Model.Spec Avro.Model.Codec Avro.Model.SchemaGen Avro.Model.Denote Avro.Model.Container Avro.Model.Writer
  Avro.Model.Json.
Require Import Avro.Corr.Codec.
Require Import Avro.Proofs.JsonP Avro.Proofs.JsonGenP Avro.Proofs.FileP Avro.Proofs.EndToEnd.
Import ListNotations.
Open Scope Z_scope.

Section Pipeline.
  Variable text : json -> bytes.                 (* the JSON library's encoder *)
  Variable untext : bytes -> option json.        (* and its parser; None = not JSON *)
  Hypothesis Htext : forall j, json_text_ok j = true -> untext (text j) = Some j.

  (* NewEncoderFor[T]: T must be a struct; schemaForType; s.Codec(t); s.Marshal() *)
  Definition encoder_for (t : gtype) : option (gschema * bytes * codec) :=
    if is_struct t then
      match schema_for_type sreg_std t with
      | None => None
      | Some g =>
        match build_top g t with
        | None => None
        | Some c => match marshal_impl g with
                    | None => None
                    | Some j => Some (g, text j, c)
                    end
        end
      end
    else None.

  (* ReadFile(r, out, cb) after the header: fh.schema() (the avro.schema entry, parsed) and
     schema.Codec(out) *)
  Definition reader_codec (h : file_header) (out : gtype) : option codec :=
    match meta_get (h_meta h) (b "avro.schema") with
    | None => None
    | Some sj => match untext sj with
                 | None => None
                 | Some j => match unmarshal j with
                             | None => None
                             | Some g => build_top g out
                             end
                 end
    end.

  (* the schema the encoder put into the header is the schema the reader parses out of it,
     so the reader builds the very codec the encoder wrote with *)
  Lemma reader_builds_writer_codec t g sj c codec_name sync :
    encoder_for t = Some (g, sj, c) ->
    reader_codec {| h_meta := written_meta sj codec_name; h_sync := sync |} t = Some c.
  Proof.
    unfold encoder_for, reader_codec. destruct (is_struct t); [|discriminate].
    destruct (schema_for_type sreg_std t) as [g'|] eqn:Hg; [|discriminate].
    destruct (build_top g' t) as [c'|] eqn:Hb; [|discriminate].
    unfold marshal_impl. destruct (json_text_ok (marshal g')) eqn:Hok; [|discriminate].
    intros H. inversion H; subst. cbn [h_meta]. rewrite written_meta_schema.
    rewrite (Htext _ Hok).
    rewrite (parse_print_exact g (schema_for_type_normal sreg_std sreg_std_normal t g Hg)).
    exact Hb.
  Qed.

  Variable compress : bytes -> bytes.
  Variable decompress : bytes -> option bytes.
  Hypothesis Hdc : forall x, decompress (compress x) = Some x.
  Variable sync : bytes.
  Hypothesis Hsync : len sync = 16.

  Theorem whole_pipeline : forall t g sj c, encoder_for t = Some (g, sj, c) ->
    forall codec_name size ops bfuel fuel,
    len sj < two63 -> len codec_name < two63 ->
    Forall (fun r => exists v', written (classify g) c fuel (zero_of (top_type t)) r v') (recs_of ops) ->
    Forall (group_small compress) (fst (blocks_spec size [] (ops ++ [OpFlush]))) ->
    (length (fst (blocks_spec size [] (ops ++ [OpFlush]))) < bfuel)%nat ->
    exists h body c',
      read_header (concat (file_chunks compress sj codec_name sync size (ops ++ [OpFlush]))) = Some (h, body) /\
      meta_get (h_meta h) (b "avro.codec") = Some codec_name /\ h_sync h = sync /\
      reader_codec h t = Some c' /\ c' = c /\
      read_blocks decompress (rr c' fuel (zero_of (top_type t))) (fun _ => None) bfuel sync 0 body
        = (length (recs_of ops), FOk).
  Proof.
    intros t g sj c He cn size ops bfuel fuel Hs Hc Hw Hsm Hf.
    assert (Hb : build reg_std (classify g) (Some (top_type t)) false = Some c).
    { revert He. unfold encoder_for. destruct (is_struct t); [|discriminate].
      destruct (schema_for_type sreg_std t) as [g'|]; [|discriminate].
      destruct (build_top g' t) as [c'|] eqn:Hb; [|discriminate].
      destruct (marshal_impl g'); [|discriminate]. intros H; inversion H; subst.
      revert Hb. unfold build_top. destruct (is_struct (top_type t)); [|discriminate]. exact (fun H => H). }
    destruct (file_values_roundtrip reg_std (classify g) (Some (top_type t)) false c Hb fuel (zero_of (top_type t))
                compress decompress Hdc sync Hsync sj cn size ops bfuel Hs Hc Hw Hsm Hf) as (body & Hh & Hr).
    exists {| h_meta := written_meta sj cn; h_sync := sync |}, body, c.
    split; [exact Hh|]. split; [apply written_meta_codec|]. split; [reflexivity|].
    split; [eapply reader_builds_writer_codec; exact He|]. split; [reflexivity|exact Hr].
  Qed.

  (* the encoder exists for every type whose schema generation succeeds, whose codec the
     builder accepts (C15_codec_decided_top gives the domain) and whose names are valid UTF-8 *)
  Lemma encoder_for_defined t g c :
    is_struct t = true -> schema_for_type sreg_std t = Some g -> build_top g t = Some c ->
    json_text_ok (marshal g) = true ->
    encoder_for t = Some (g, text (marshal g), c).
  Proof.
    intros Hs Hg Hb Hok. unfold encoder_for, marshal_impl. rewrite Hs, Hg, Hb, Hok. reflexivity.
  Qed.
End Pipeline.

(* ---- the reading side alone, for files of any conforming writer ------------------------
   The header is laid out as any list of non-empty metadata blocks (application entries next
   to avro.schema / avro.codec, in any order, later entries winning); the schema document is
   ANY JSON tree the schema parser accepts (any key order, unknown attributes, named or
   spelled-out primitives: C14); the target type is any type the builder accepts for the
   parsed schema; every block payload is a concatenation of arbitrary specification encodings
   of typed datums that fit the target (any block structure of arrays and maps: C03).  Then
   ReadFile reads the header, parses the schema, builds that codec and delivers every record. *)
Require Import Avro.Proofs.ContainerP Avro.Proofs.HeaderGenP.

Section ForeignPipeline.
  Variable untext : bytes -> option json.
  Variable decompress : bytes -> option bytes.
  Variable sync : bytes.
  Hypothesis Hsync : len sync = 16.

  Theorem foreign_pipeline : forall (mb : list (list entry)) sj j g out c fuel blocks bfuel,
    Forall block_ok mb ->
    meta_get (set_blocks [] mb) (b "avro.schema") = Some sj ->
    untext sj = Some j -> unmarshal j = Some g -> build_top g out = Some c ->
    Forall (foreign_block_ok (classify g) c fuel (zero_of (top_type out)) decompress) blocks ->
    (length blocks < bfuel)%nat ->
    exists h body,
      read_header (gen_header mb sync ++ concat (map (vb_bytes sync) blocks)) = Some (h, body) /\
      h_sync h = sync /\ h_meta h = set_blocks [] mb /\
      reader_codec untext h out = Some c /\
      read_blocks decompress (rr c fuel (zero_of (top_type out))) (fun _ => None) bfuel sync 0 body
        = (total blocks, FOk).
  Proof.
    intros mb sj j g out c fuel blocks bfuel Hmb Hsj Hj Hg Hb Hbl Hf.
    exists {| h_meta := set_blocks [] mb; h_sync := sync |}, (concat (map (vb_bytes sync) blocks)).
    split; [apply header_ok_gen; assumption|]. split; [reflexivity|]. split; [reflexivity|]. split.
    - unfold reader_codec. cbn [h_meta]. rewrite Hsj, Hj, Hg. exact Hb.
    - assert (Hb' : build reg_std (classify g) (Some (top_type out)) false = Some c).
      { revert Hb. unfold build_top. destruct (is_struct (top_type out)); [exact (fun H => H)|discriminate]. }
      exact (foreign_file_reads reg_std (classify g) (Some (top_type out)) false c Hb' fuel (zero_of (top_type out))
               decompress sync Hsync blocks bfuel Hbl Hf).
  Qed.
End ForeignPipeline.
