(* Proofs about the timestamp parser, the RFC 3339 formatter and the time
   codecs (Model/Time.v, the CTimeString / CTimeLong / CDate cases of
   Model/Codec.v).  Used by Props/C18.v and Props/C19.v.

   The model describes /repo/time/parse.go and /repo/time/time.go as they are
   after the fix: commits 80868a2 (no index past a trailing fraction separator;
   only the first nine fraction digits count), c505d19 (DateCodec.Read decodes
   into an int32), aa1e58c (DateCodec.Write floors) and 35bfff8 (LongCodec.Write
   uses the unit of the logical type). *)
From Coq Require Import List ZArith Lia Bool ZifyBool ZifyNat.
Require Import Avro.Model.Base Avro.Model.Prim Avro.Model.Schema Avro.Model.GoType Avro.Model.Time Avro.Model.Codec.
Require Import Avro.Proofs.PrimP.
Import ListNotations.
Open Scope Z_scope.
Ltac Zify.zify_post_hook ::= Z.div_mod_to_equations.

(* ================= C18: the parser ================= *)

(* parseTime has no panicking path left *)
Lemma parse_time_no_panic : forall s, parse_time s <> PPanic.
Proof.
  intros s. unfold parse_time.
  repeat match goal with
  | |- context [match ?x with _ => _ end] => destruct x
  | |- context [if ?x then _ else _] => destruct x
  end; discriminate.
Qed.

Lemma digit_dig v : 0 <= v <= 9 -> digit (dig v) = Some v.
Proof. intros H. unfold digit, dig. replace ((48 <=? 48 + v) && (48 + v <=? 57)) with true by lia. f_equal. lia. Qed.

Lemma atoi2_two v : 0 <= v <= 99 -> atoi2 (dig (v / 10 mod 10)) (dig (v mod 10)) = Some v.
Proof. intros H. unfold atoi2. rewrite !digit_dig by lia. f_equal. lia. Qed.

Definition parse_rest (y mo d h mi sec : Z) (rem : bytes) : pres :=
  let c := nthb rem 0 in
  let fr :=
    if (c =? 46) || (c =? 44) then
      match skipn 1 rem with
      | [] => None
      | rem1 =>
        let '(val, mult, rest) := frac_digits rem1 0 1000000000 in
        match rest with [] => None | _ => Some (val * mult, rest) end
      end
    else Some (0, rem) in
  match fr with
  | None => PErr
  | Some (nsec, rem2) =>
    match parse_zone rem2 with
    | Some (off, []) => POk (TV (unix_of_fields y mo d h mi sec off) nsec off)
    | _ => PErr
    end
  end.

Definition head_text (y mo d h mi sec : Z) : bytes :=
  four_digits y ++ [45] ++ two_digits mo ++ [45] ++ two_digits d ++ [84] ++
  two_digits h ++ [58] ++ two_digits mi ++ [58] ++ two_digits sec.

Lemma parse_time_head y mo d h mi sec c tail :
  0 <= y <= 9999 -> 0 <= mo <= 99 -> 0 <= d <= 99 -> 0 <= h <= 99 -> 0 <= mi <= 99 -> 0 <= sec <= 99 ->
  parse_time (head_text y mo d h mi sec ++ c :: tail) = parse_rest y mo d h mi sec (c :: tail).
Proof.
  intros Hy Hmo Hd Hh Hmi Hs.
  unfold parse_time, head_text, four_digits, two_digits.
  cbn [app length nthb nth skipn Nat.ltb Nat.leb Nat.eqb].
  rewrite !atoi2_two by lia.
  rewrite !digit_dig by lia.
  change (45 =? 45) with true. change (84 =? 84) with true. change (58 =? 58) with true.
  cbn [andb negb].
  unfold parse_rest.
  replace (y / 1000 mod 10 * 1000 + y / 100 mod 10 * 100 + y / 10 mod 10 * 10 + y mod 10) with y by lia.
  reflexivity.
Qed.

Definition date_text (y mo d : Z) : bytes := four_digits y ++ [45] ++ two_digits mo ++ [45] ++ two_digits d.

Lemma parse_date_only y mo d :
  0 <= y <= 9999 -> 0 <= mo <= 99 -> 0 <= d <= 99 ->
  parse_time (date_text y mo d) = POk (TV (unix_of_fields y mo d 0 0 0 0) 0 0).
Proof.
  intros Hy Hmo Hd. unfold parse_time, date_text, four_digits, two_digits.
  cbn [app length nthb nth skipn Nat.ltb Nat.leb Nat.eqb].
  rewrite !atoi2_two by lia. rewrite !digit_dig by lia.
  change (45 =? 45) with true. cbn [andb negb].
  replace (y / 1000 mod 10 * 1000 + y / 100 mod 10 * 100 + y / 10 mod 10 * 10 + y mod 10) with y by lia.
  reflexivity.
Qed.

Lemma unix_of_fields_month y mo d h mi s off : 1 <= mo <= 12 ->
  unix_of_fields y mo d h mi s off = days_from_civil y mo d * 86400 + h * 3600 + mi * 60 + s - off.
Proof.
  intros H. unfold unix_of_fields.
  replace ((mo - 1) / 12) with 0 by lia. replace ((mo - 1) mod 12 + 1) with mo by lia.
  rewrite Z.add_0_r. reflexivity.
Qed.

(* ---- fraction ---- *)
Definition is_digit_val (v : Z) : Prop := 0 <= v <= 9.

Fixpoint nanos_aux (ds : list Z) (k : nat) {struct k} : Z :=
  match k with
  | O => 0
  | S k' => match ds with [] => 0 | dv :: r => dv * 10 ^ Z.of_nat k' + nanos_aux r k' end
  end.
Definition nanos_of (ds : list Z) : Z := nanos_aux ds 9.

Definition stops (rest : bytes) : Prop := match rest with [] => True | c :: _ => digit c = None end.

Lemma frac_digits_stop rest val mult : stops rest -> frac_digits rest val mult = (val, mult, rest).
Proof. destruct rest as [|c r]; cbn [frac_digits stops]; intros H; [reflexivity|]. rewrite H. reflexivity. Qed.

Lemma frac_digits_ignore : forall ds val rest, Forall is_digit_val ds -> stops rest ->
  frac_digits (map dig ds ++ rest) val 1 = (val, 1, rest).
Proof.
  induction ds as [|dv ds IH]; intros val rest Hds Hst; cbn [map app].
  - apply frac_digits_stop; assumption.
  - inversion Hds as [|? ? Hd Hds']; subst. cbn [frac_digits]. rewrite digit_dig by exact Hd.
    change (1 <? 1) with false. cbv iota. apply IH; assumption.
Qed.

Lemma frac_digits_spec : forall ds k val rest, Forall is_digit_val ds -> stops rest ->
  exists val' mult', frac_digits (map dig ds ++ rest) val (10 ^ Z.of_nat k) = (val', mult', rest) /\
                     val' * mult' = val * 10 ^ Z.of_nat k + nanos_aux ds k.
Proof.
  induction ds as [|dv ds IH]; intros k val rest Hds Hst; cbn [map app].
  - exists val, (10 ^ Z.of_nat k). split; [apply frac_digits_stop; assumption|]. destruct k; cbn [nanos_aux]; lia.
  - inversion Hds as [|? ? Hd Hds']; subst. cbn [frac_digits]. rewrite digit_dig by exact Hd.
    destruct k as [|k].
    + change (10 ^ Z.of_nat 0) with 1. change (1 <? 1) with false. cbv iota.
      exists val, 1. split; [apply frac_digits_ignore; assumption|]. cbn [nanos_aux]. lia.
    + assert (Hp : 10 ^ Z.of_nat (S k) = 10 * 10 ^ Z.of_nat k) by (rewrite Nat2Z.inj_succ, Z.pow_succ_r by lia; reflexivity).
      assert (Hpos : 0 < 10 ^ Z.of_nat k) by (apply Z.pow_pos_nonneg; lia).
      rewrite Hp. replace (1 <? 10 * 10 ^ Z.of_nat k) with true by lia. cbv iota.
      replace (10 * 10 ^ Z.of_nat k / 10) with (10 ^ Z.of_nat k) by (rewrite Z.mul_comm, Z.div_mul; lia).
      destruct (IH k (val * 10 + dv) rest Hds' Hst) as (v' & m' & He & Hv).
      exists v', m'. split; [exact He|]. cbn [nanos_aux]. rewrite Hv. ring.
Qed.

(* ---- zone ---- *)
Inductive zspec := ZUtc | ZOff (neg : bool) (hh mm : Z).
Definition zone_text (z : zspec) : bytes :=
  match z with
  | ZUtc => [90]
  | ZOff neg hh mm => (if neg then 45 else 43) :: two_digits hh ++ [58] ++ two_digits mm
  end.
Definition zone_off (z : zspec) : Z :=
  match z with ZUtc => 0 | ZOff neg hh mm => (if neg then -1 else 1) * (hh * 3600 + mm * 60) end.
Definition zone_wf (z : zspec) : Prop :=
  match z with ZUtc => True | ZOff _ hh mm => 0 <= hh <= 99 /\ 0 <= mm <= 99 end.

Lemma parse_zone_text z : zone_wf z -> parse_zone (zone_text z) = Some (zone_off z, []).
Proof.
  destruct z as [|neg hh mm]; cbn [zone_wf zone_text zone_off]; intros H.
  - reflexivity.
  - unfold parse_zone, two_digits. cbn [app].
    destruct neg.
    + change (45 =? 90) with false. change (45 =? 43) with false. change (45 =? 45) with true. cbv iota.
      change (58 =? 58) with true. cbv iota. rewrite !atoi2_two by lia. reflexivity.
    + change (43 =? 90) with false. change (43 =? 43) with true. cbv iota.
      change (58 =? 58) with true. cbv iota. rewrite !atoi2_two by lia. reflexivity.
Qed.

Lemma zone_text_head z : exists c r, zone_text z = c :: r /\ digit c = None /\ (c =? 46) || (c =? 44) = false.
Proof. destruct z as [|[|] hh mm]; cbn [zone_text]; eexists; eexists; (split; [reflexivity|split; reflexivity]). Qed.

(* ---- the grammar ---- *)
Definition frac_text (fr : option (Z * list Z)) : bytes :=
  match fr with None => [] | Some (sep, ds) => sep :: map dig ds end.
Definition frac_ns (fr : option (Z * list Z)) : Z :=
  match fr with None => 0 | Some (_, ds) => nanos_of ds end.
Definition frac_wf (fr : option (Z * list Z)) : Prop :=
  match fr with None => True | Some (sep, ds) => (sep = 46 \/ sep = 44) /\ Forall is_digit_val ds end.

Definition render_fields (y mo d h mi sec : Z) (fr : option (Z * list Z)) (z : zspec) : bytes :=
  head_text y mo d h mi sec ++ frac_text fr ++ zone_text z.

Definition two_digit (v : Z) : Prop := 0 <= v <= 99.

Theorem parse_render_fields y mo d h mi sec fr z :
  0 <= y <= 9999 -> two_digit mo -> two_digit d -> two_digit h -> two_digit mi -> two_digit sec ->
  frac_wf fr -> zone_wf z ->
  parse_time (render_fields y mo d h mi sec fr z) =
  POk (TV (unix_of_fields y mo d h mi sec (zone_off z)) (frac_ns fr) (zone_off z)).
Proof.
  unfold two_digit. intros Hy Hmo Hd Hh Hmi Hs Hfr Hz. unfold render_fields.
  destruct (zone_text_head z) as (zc & zr & Hzt & Hzd & Hzs).
  destruct fr as [[sep ds]|]; cbn [frac_text frac_ns frac_wf] in *.
  - destruct Hfr as [Hsep Hds]. cbn [app]. rewrite parse_time_head by assumption.
    unfold parse_rest. cbn [nthb nth skipn].
    replace ((sep =? 46) || (sep =? 44)) with true by lia. cbv iota.
    destruct (frac_digits_spec ds 9 0 (zone_text z) Hds) as (v' & m' & He & Hv).
    { rewrite Hzt. exact Hzd. }
    change (10 ^ Z.of_nat 9) with 1000000000 in He, Hv.
    assert (Hne : map dig ds ++ zone_text z = (map dig ds ++ zone_text z)) by reflexivity.
    destruct (map dig ds ++ zone_text z) as [|x xs] eqn:Ex.
    { exfalso. rewrite Hzt in Ex. destruct (map dig ds); discriminate. }
    rewrite He. rewrite Hzt at 1. rewrite parse_zone_text by exact Hz.
    rewrite Hv. unfold nanos_of. f_equal.
  - rewrite app_nil_l. rewrite Hzt. rewrite parse_time_head by assumption.
    unfold parse_rest. cbn [nthb nth]. rewrite Hzs. cbv iota. rewrite <- Hzt.
    rewrite parse_zone_text by exact Hz. reflexivity.
Qed.

(* ================= the calendar ================= *)
(* checker for an interval [lo, lo + 2^depth) by binary splitting *)
Fixpoint range_all (f : Z -> bool) (depth : nat) (lo : Z) {struct depth} : bool :=
  match depth with
  | O => f lo
  | S dp => range_all f dp lo && range_all f dp (lo + 2 ^ Z.of_nat dp)
  end.

Lemma range_all_sound f : forall depth lo, range_all f depth lo = true ->
  forall z, lo <= z < lo + 2 ^ Z.of_nat depth -> f z = true.
Proof.
  induction depth as [|dp IH]; intros lo H z Hz; cbn [range_all] in H.
  - change (2 ^ Z.of_nat 0) with 1 in Hz. replace z with lo by lia. exact H.
  - apply andb_prop in H. destruct H as [H1 H2].
    assert (Hp : 2 ^ Z.of_nat (S dp) = 2 * 2 ^ Z.of_nat dp) by (rewrite Nat2Z.inj_succ, Z.pow_succ_r by lia; reflexivity).
    rewrite Hp in Hz.
    destruct (Z_lt_ge_dec z (lo + 2 ^ Z.of_nat dp)) as [Hl|Hg].
    + apply (IH lo H1). lia.
    + apply (IH _ H2). lia.
Qed.

(* the day-of-era part of civil_from_days, with the facts days_from_civil needs *)
Definition doe_fields (doe : Z) : Z * Z * Z * Z :=
  let yoe := (doe - doe / 1460 + doe / 36524 - doe / 146096) / 365 in
  let doy := doe - (365 * yoe + yoe / 4 - yoe / 100) in
  let mp := (5 * doy + 2) / 153 in
  let d := doy - (153 * mp + 2) / 5 + 1 in
  (yoe, doy, mp, d).

Definition doe_ok (doe : Z) : bool :=
  let '(yoe, doy, mp, d) := doe_fields doe in
  (0 <=? yoe) && (yoe <=? 399) && (0 <=? mp) && (mp <=? 11) && (1 <=? d) && (d <=? 31) &&
  (0 <=? doy) && (doy <=? 365) &&
  (yoe * 365 + yoe / 4 - yoe / 100 + ((153 * mp + 2) / 5 + d - 1) =? doe).

Lemma doe_sweep : range_all (fun z => (146097 <=? z) || doe_ok z) 18 0 = true.
Proof. vm_cast_no_check (eq_refl true). Qed.

Lemma doe_ok_all doe : 0 <= doe < 146097 -> doe_ok doe = true.
Proof.
  intros H. pose proof (range_all_sound _ 18 0 doe_sweep doe) as S.
  change (2 ^ Z.of_nat 18) with 262144 in S.
  assert (S' : (146097 <=? doe) || doe_ok doe = true) by (apply S; lia).
  replace (146097 <=? doe) with false in S' by lia. exact S'.
Qed.

Theorem civil_roundtrip z :
  let '(y, m, d) := civil_from_days z in
  days_from_civil y m d = z /\ 1 <= m <= 12 /\ 1 <= d <= 31.
Proof.
  unfold civil_from_days.
  set (z1 := z + 719468). set (era := z1 / 146097). set (doe := z1 - era * 146097).
  assert (Hdoe : 0 <= doe < 146097) by (subst doe era; lia).
  pose proof (doe_ok_all doe Hdoe) as Hok. unfold doe_ok, doe_fields in Hok.
  set (yoe := (doe - doe / 1460 + doe / 36524 - doe / 146096) / 365) in *.
  set (doy := doe - (365 * yoe + yoe / 4 - yoe / 100)) in *.
  set (mp := (5 * doy + 2) / 153) in *.
  set (d := doy - (153 * mp + 2) / 5 + 1) in *.
  assert (Hyoe : 0 <= yoe <= 399) by lia.
  assert (Hmp : 0 <= mp <= 11) by lia.
  assert (Hd : 1 <= d <= 31) by lia.
  assert (Heq : yoe * 365 + yoe / 4 - yoe / 100 + ((153 * mp + 2) / 5 + d - 1) = doe) by lia.
  clearbody d mp doy yoe. clear Hok.
  set (m := if mp <? 10 then mp + 3 else mp - 9).
  assert (Hm : 1 <= m <= 12) by (subst m; destruct (mp <? 10) eqn:E; lia).
  assert (Hmp' : (m + 9) mod 12 = mp) by (subst m; destruct (mp <? 10) eqn:E; lia).
  split; [|split; assumption].
  unfold days_from_civil.
  set (y' := if m <=? 2 then (if m <=? 2 then yoe + era * 400 + 1 else yoe + era * 400) - 1 else (if m <=? 2 then yoe + era * 400 + 1 else yoe + era * 400)).
  assert (Hy' : y' = yoe + era * 400) by (subst y'; destruct (m <=? 2); lia).
  clearbody y'. subst y'. rewrite Hmp'.
  replace ((yoe + era * 400) / 400) with era by lia.
  replace (yoe + era * 400 - era * 400) with yoe by lia.
  rewrite Heq. subst doe z1. lia.
Qed.

Lemma year_range y m d :
  1 <= m <= 12 -> 1 <= d <= 31 -> -719528 <= days_from_civil y m d <= 2932896 -> 0 <= y <= 9999.
Proof.
  intros Hm Hd. unfold days_from_civil.
  set (y' := if m <=? 2 then y - 1 else y).
  set (mp := (m + 9) mod 12).
  assert (Hmp : 0 <= mp <= 11) by (subst mp; lia).
  assert (Hrel : (m <= 2 /\ y' = y - 1 /\ 10 <= mp) \/ (3 <= m /\ y' = y /\ mp <= 9)).
  { subst y' mp. destruct (m <=? 2) eqn:E; [left|right]; lia. }
  clearbody y' mp.
  set (era := y' / 400). set (yoe := y' - era * 400).
  assert (Hyoe : 0 <= yoe <= 399) by (subst yoe era; lia).
  assert (Hy : y' = yoe + 400 * era) by (subst yoe; lia).
  clearbody yoe era.
  lia.
Qed.

(* ---- trailing zeros ---- *)
Fixpoint tzv (l : list Z) {struct l} : list Z :=
  match l with c :: r => if c =? 0 then tzv r else l | [] => [] end.
Definition strip (l : list Z) : list Z := rev (tzv (rev l)).

Lemma trim_zeros_map l : trim_zeros (map dig l) = map dig (tzv l).
Proof.
  induction l as [|c r IH]; cbn [map trim_zeros tzv]; [reflexivity|].
  unfold dig at 1. replace (48 + c =? 48) with (c =? 0) by lia.
  destruct (c =? 0); [exact IH|reflexivity].
Qed.

Lemma tzv_decomp l : exists j, l = repeat 0 j ++ tzv l.
Proof.
  induction l as [|c r [j IH]]; cbn [tzv]; [exists O; reflexivity|].
  destruct (c =? 0) eqn:E.
  - exists (S j). cbn [repeat app]. replace c with 0 by lia. f_equal. exact IH.
  - exists O. reflexivity.
Qed.

Lemma rev_repeat0 j : rev (repeat 0 j) = repeat 0 j.
Proof.
  induction j as [|j IH]; [reflexivity|]. cbn [repeat rev]. rewrite IH.
  clear IH. induction j as [|j IH]; [reflexivity|]. cbn [repeat app]. f_equal. exact IH.
Qed.

Lemma strip_decomp l : exists j, l = strip l ++ repeat 0 j.
Proof.
  destruct (tzv_decomp (rev l)) as [j H]. exists j. unfold strip.
  rewrite <- (rev_involutive l) at 1. rewrite H at 1. rewrite rev_app_distr, rev_repeat0. reflexivity.
Qed.

Lemma tzv_forall P l : Forall P l -> Forall P (tzv l).
Proof.
  induction 1 as [|c r Hc Hr IH]; cbn [tzv]; [constructor|].
  destruct (c =? 0); [exact IH|constructor; assumption].
Qed.

Lemma forall_rev {A} (P : A -> Prop) l : Forall P l -> Forall P (rev l).
Proof. rewrite !Forall_forall. intros H x Hx. apply H. apply in_rev. exact Hx. Qed.

Lemma strip_forall P l : Forall P l -> Forall P (strip l).
Proof. intros H. unfold strip. apply forall_rev, tzv_forall, forall_rev, H. Qed.

Lemma nanos_aux_zeros : forall k j, nanos_aux (repeat 0 j) k = 0.
Proof. induction k as [|k IH]; intros j; cbn [nanos_aux]; [reflexivity|]. destruct j; cbn [repeat]; [reflexivity|]. rewrite IH. lia. Qed.

Lemma nanos_aux_pad : forall a k j, nanos_aux (a ++ repeat 0 j) k = nanos_aux a k.
Proof.
  induction a as [|x a IH]; intros k j; cbn [app].
  - rewrite nanos_aux_zeros. destruct k; reflexivity.
  - destruct k; cbn [nanos_aux]; [reflexivity|]. rewrite IH. reflexivity.
Qed.

Definition nine_vals (ns : Z) : list Z :=
  [ns / 100000000 mod 10; ns / 10000000 mod 10; ns / 1000000 mod 10;
   ns / 100000 mod 10; ns / 10000 mod 10; ns / 1000 mod 10;
   ns / 100 mod 10; ns / 10 mod 10; ns mod 10].

Lemma nanos_nine ns : 0 <= ns < 1000000000 -> nanos_of (nine_vals ns) = ns.
Proof.
  intros H. unfold nanos_of, nine_vals. cbn [nanos_aux].
  change (10 ^ Z.of_nat 8) with 100000000. change (10 ^ Z.of_nat 7) with 10000000.
  change (10 ^ Z.of_nat 6) with 1000000. change (10 ^ Z.of_nat 5) with 100000.
  change (10 ^ Z.of_nat 4) with 10000. change (10 ^ Z.of_nat 3) with 1000.
  change (10 ^ Z.of_nat 2) with 100. change (10 ^ Z.of_nat 1) with 10. change (10 ^ Z.of_nat 0) with 1.
  lia.
Qed.

Lemma nine_vals_digits ns : Forall is_digit_val (nine_vals ns).
Proof. unfold nine_vals, is_digit_val. repeat constructor; lia. Qed.

Definition frac_of_ns (ns : Z) : option (Z * list Z) :=
  match strip (nine_vals ns) with [] => None | ds => Some (46, ds) end.

Lemma render_frac_text ns : render_frac ns = frac_text (frac_of_ns ns).
Proof.
  unfold render_frac, frac_of_ns.
  change (nine_digits ns) with (map dig (nine_vals ns)).
  rewrite <- map_rev, trim_zeros_map, <- map_rev. fold (strip (nine_vals ns)).
  destruct (strip (nine_vals ns)); reflexivity.
Qed.

Lemma frac_of_ns_value ns : 0 <= ns < 1000000000 -> frac_ns (frac_of_ns ns) = ns.
Proof.
  intros H. pose proof (nanos_nine ns H) as Hn. unfold nanos_of in Hn.
  destruct (strip_decomp (nine_vals ns)) as [j Hj]. rewrite Hj, nanos_aux_pad in Hn.
  unfold frac_of_ns. destruct (strip (nine_vals ns)) as [|x xs]; cbn [frac_ns]; [|exact Hn].
  cbn [nanos_aux] in Hn. exact Hn.
Qed.

Lemma frac_of_ns_wf ns : frac_wf (frac_of_ns ns).
Proof.
  unfold frac_of_ns. pose proof (strip_forall _ _ (nine_vals_digits ns)) as H.
  destruct (strip (nine_vals ns)); cbn [frac_wf]; [exact I|]. split; [left; reflexivity|exact H].
Qed.

(* ---- zone ---- *)
Definition zone_of (off : Z) : zspec :=
  if off =? 0 then ZUtc else ZOff (off <? 0) (Z.abs off / 3600) (Z.abs off / 60 mod 60).

Lemma render_zone_text off : render_zone off = zone_text (zone_of off).
Proof. unfold render_zone, zone_of. destruct (off =? 0); reflexivity. Qed.

Lemma zone_of_off off : off mod 60 = 0 -> zone_off (zone_of off) = off.
Proof.
  intros H. unfold zone_of. destruct (off =? 0) eqn:E; cbn [zone_off]; [lia|].
  destruct (off <? 0) eqn:E2; lia.
Qed.

Lemma zone_of_wf off : -360000 < off < 360000 -> zone_wf (zone_of off).
Proof. intros H. unfold zone_of. destruct (off =? 0); cbn [zone_wf]; [exact I|]. lia. Qed.

(* ---- Format then parse ---- *)
Theorem parse_render_time us ns off :
  0 <= ns < 1000000000 -> off mod 60 = 0 -> -360000 < off < 360000 ->
  -62167219200 <= us + off < 253402300800 ->
  parse_time (render_time (TV us ns off)) = POk (TV us ns off).
Proof.
  intros Hns Hoff Hoffr Hloc. unfold render_time.
  set (loc := us + off) in *. set (days := loc / 86400). set (sod := loc mod 86400).
  pose proof (civil_roundtrip days) as Hc.
  destruct (civil_from_days days) as [[y m] d]. destruct Hc as (Hdc & Hm & Hd).
  assert (Hy : 0 <= y <= 9999) by (apply (year_range y m d Hm Hd); rewrite Hdc; subst days; lia).
  assert (Hsod : 0 <= sod < 86400) by (subst sod; lia).
  rewrite render_frac_text, render_zone_text.
  transitivity (parse_time (render_fields y m d (sod / 3600) (sod / 60 mod 60) (sod mod 60) (frac_of_ns ns) (zone_of off))).
  { unfold render_fields, head_text, four_digits, two_digits. cbn [app]. reflexivity. }
  rewrite parse_render_fields;
    [ | exact Hy | unfold two_digit; lia | unfold two_digit; lia | unfold two_digit; lia
      | unfold two_digit; lia | unfold two_digit; lia | apply frac_of_ns_wf | apply zone_of_wf; exact Hoffr ].
  rewrite frac_of_ns_value by exact Hns. rewrite zone_of_off by exact Hoff.
  rewrite unix_of_fields_month by exact Hm. rewrite Hdc.
  assert (H1 : sod / 3600 * 3600 + sod / 60 mod 60 * 60 + sod mod 60 = sod) by (clearbody sod; lia).
  assert (H2 : days * 86400 + sod = loc) by (subst days sod; clearbody loc; lia).
  subst loc. clearbody days sod.
  replace (days * 86400 + sod / 3600 * 3600 + sod / 60 mod 60 * 60 + sod mod 60 - off) with us by lia.
  reflexivity.
Qed.

(* ================= C19: date and long codecs ================= *)
Lemma wrap64_id x : int64_ok x -> wrap64 x = x.
Proof. unfold int64_ok, wrap64, two63, two64. lia. Qed.

Lemma to_int32_id x : int_fits 32 x = true -> to_int32 x = x.
Proof. unfold int_fits, to_int32. change (2 ^ (32 - 1)) with 2147483648. lia. Qed.

Lemma int_fits32_int64 n : int_fits 32 n = true -> int64_ok n.
Proof. unfold int_fits, int64_ok, two63. change (2 ^ (32 - 1)) with 2147483648. lia. Qed.

Lemma int_fits64_int64 n : int64_ok n -> int_fits 64 n = true.
Proof. unfold int_fits, int64_ok, two63. change (2 ^ (64 - 1)) with 9223372036854775808. lia. Qed.

Lemma date_read fuel dest n rest : int_fits 32 n = true ->
  c_read fuel CDate dest (int_write n ++ rest) = Done (VTime (TV (86400 * n) 0 0)) rest.
Proof.
  intros H. cbn [c_read]. rewrite int_read_enc by (apply int_fits32_int64; exact H). rewrite H. reflexivity.
Qed.

Lemma time_of_units_ns mult l : int64_ok (l * mult) -> time_of_units mult l = time_of_ns (l * mult).
Proof.
  intros Hm. unfold time_of_units, time_of_ns.
  destruct (mult =? 1000) eqn:E1; [|destruct (mult =? 1000000) eqn:E2].
  - apply Z.eqb_eq in E1. subst mult. f_equal; lia.
  - apply Z.eqb_eq in E2. subst mult. f_equal; lia.
  - rewrite wrap64_id by exact Hm. reflexivity.
Qed.

Lemma long_read fuel dest mult l rest : int64_ok l -> int64_ok (l * mult) ->
  c_read fuel (CTimeLong mult) dest (int_write l ++ rest) =
  Done (VTime (TV (l * mult / 1000000000) ((l * mult) mod 1000000000) 0)) rest.
Proof.
  intros Hl Hm. cbn [c_read]. rewrite int_read_enc by exact Hl. rewrite int_fits64_int64 by exact Hl.
  cbn [obind]. rewrite (time_of_units_ns mult l Hm). reflexivity.
Qed.

(* the two timestamp units are read without overflow, for every int64 *)
Lemma long_read_wide fuel dest mult l rest : int64_ok l ->
  c_read fuel (CTimeLong mult) dest (int_write l ++ rest) = Done (VTime (time_of_units mult l)) rest.
Proof.
  intros Hl. cbn [c_read]. rewrite int_read_enc by exact Hl. rewrite int_fits64_int64 by exact Hl. reflexivity.
Qed.

(* the instant of a time value, in nanoseconds since the epoch *)
Definition instant_ns (t : timeval) : Z := match t with TV s n _ => s * 1000000000 + n end.
Definition tv_wf (t : timeval) : Prop := match t with TV _ n _ => 0 <= n < 1000000000 end.
Definition unit_ok (mult : Z) : Prop := mult = 1 \/ mult = 1000 \/ mult = 1000000.

Lemma time_long_value_floor mult t : unit_ok mult -> tv_wf t -> int64_ok (instant_ns t / mult) ->
  time_long_value mult t = instant_ns t / mult.
Proof.
  destruct t as [s n off]. unfold unit_ok, tv_wf, instant_ns, time_long_value. intros Hu Hn Hr.
  destruct Hu as [->|[->| ->]].
  - change (1 =? 1000) with false. change (1 =? 1000000) with false. cbv iota.
    rewrite Z.div_1_r in Hr |- *. apply wrap64_id. exact Hr.
  - change (1000 =? 1000) with true. cbv iota.
    replace (s * 1000000 + n / 1000) with ((s * 1000000000 + n) / 1000) by lia. apply wrap64_id. exact Hr.
  - change (1000000 =? 1000) with false. change (1000000 =? 1000000) with true. cbv iota.
    replace (s * 1000 + n / 1000000) with ((s * 1000000000 + n) / 1000000) by lia. apply wrap64_id. exact Hr.
Qed.

Lemma floor_range mult x : unit_ok mult -> int64_ok (x / mult * mult) -> int64_ok (x / mult).
Proof. unfold unit_ok, int64_ok, two63. intros [->|[->| ->]] H; lia. Qed.

Lemma long_write_read fuel dest mult t rest : unit_ok mult -> tv_wf t ->
  int64_ok (instant_ns t / mult * mult) ->
  exists bs, c_write (CTimeLong mult) (VTime t) = Some bs /\
    bs = int_write (instant_ns t / mult) /\
    c_read fuel (CTimeLong mult) dest (bs ++ rest) = Done (VTime (time_of_ns (instant_ns t / mult * mult))) rest.
Proof.
  intros Hu Hn Hr. pose proof (floor_range _ _ Hu Hr) as Hq.
  exists (int_write (instant_ns t / mult)). split; [|split; [reflexivity|]].
  - cbn [c_write]. rewrite time_long_value_floor by assumption. reflexivity.
  - rewrite long_read by assumption. reflexivity.
Qed.

Lemma date_write_read fuel dest s n off rest : int_fits 32 (s / 86400) = true ->
  exists bs, c_write CDate (VTime (TV s n off)) = Some bs /\
    bs = int_write (s / 86400) /\
    c_read fuel CDate dest (bs ++ rest) = Done (VTime (TV (86400 * (s / 86400)) 0 0)) rest.
Proof.
  intros H. exists (int_write (s / 86400)). split; [|split; [reflexivity|]].
  - cbn [c_write]. rewrite to_int32_id by exact H. reflexivity.
  - apply date_read. exact H.
Qed.

(* the other direction: what was read is written back as the same integer *)
Lemma date_read_write n : int_fits 32 n = true ->
  c_write CDate (VTime (TV (86400 * n) 0 0)) = Some (int_write n).
Proof.
  intros H. cbn [c_write]. replace (86400 * n / 86400) with n by lia. rewrite to_int32_id by exact H. reflexivity.
Qed.

Lemma long_read_write mult l : unit_ok mult -> int64_ok l -> int64_ok (l * mult) ->
  c_write (CTimeLong mult) (VTime (time_of_ns (l * mult))) = Some (int_write l).
Proof.
  intros Hu Hl Hm. cbn [c_write]. unfold time_of_ns.
  rewrite time_long_value_floor; [| exact Hu | cbn [tv_wf]; lia | ].
  - cbn [instant_ns]. do 2 f_equal. destruct Hu as [->|[->| ->]]; lia.
  - cbn [instant_ns]. replace ((l * mult / 1000000000 * 1000000000 + (l * mult) mod 1000000000) / mult) with l; [exact Hl|].
    destruct Hu as [->|[->| ->]]; lia.
Qed.

(* timestamp-millis / timestamp-micros over the whole range of the stored long *)
Definition ts_unit (mult : Z) : Prop := mult = 1000 \/ mult = 1000000.

Lemma time_of_units_wf mult l : ts_unit mult -> tv_wf (time_of_units mult l) /\ instant_ns (time_of_units mult l) = l * mult.
Proof.
  intros [-> | ->]; unfold time_of_units; cbn [Z.eqb Pos.eqb tv_wf instant_ns]; split; lia.
Qed.

Lemma long_read_write_wide mult l : ts_unit mult -> int64_ok l ->
  c_write (CTimeLong mult) (VTime (time_of_units mult l)) = Some (int_write l).
Proof.
  intros Hu Hl. cbn [c_write]. do 2 f_equal.
  destruct Hu as [-> | ->]; unfold time_of_units, time_long_value; cbn [Z.eqb Pos.eqb].
  - replace (l / 1000000 * 1000000 + l mod 1000000 * 1000 / 1000) with l by lia. apply wrap64_id. exact Hl.
  - replace (l / 1000 * 1000 + l mod 1000 * 1000000 / 1000000) with l by lia. apply wrap64_id. exact Hl.
Qed.

Lemma long_write_read_wide fuel dest mult t rest : ts_unit mult -> tv_wf t ->
  int64_ok (instant_ns t / mult) ->
  exists bs, c_write (CTimeLong mult) (VTime t) = Some bs /\
    bs = int_write (instant_ns t / mult) /\
    c_read fuel (CTimeLong mult) dest (bs ++ rest) = Done (VTime (time_of_units mult (instant_ns t / mult))) rest.
Proof.
  intros Hu Hn Hr. exists (int_write (instant_ns t / mult)). split; [|split; [reflexivity|]].
  - cbn [c_write]. rewrite time_long_value_floor; [reflexivity| |exact Hn|exact Hr].
    unfold unit_ok. destruct Hu; auto.
  - apply long_read_wide. exact Hr.
Qed.

(* the codec chosen for a time.Time field by buildTimeCodec, per schema *)
Definition lt_unit (lt : long_lt) : Z :=
  match lt with LtNone => 1 | LtMicros => 1000 | LtMillis => 1000000 end.

Lemma lt_unit_ok lt : unit_ok (lt_unit lt).
Proof. destruct lt; cbn [lt_unit]; unfold unit_ok; auto. Qed.

Lemma time_codec_long lt inner : apply_builder (BWrap WTime) (SLong lt) inner = Some (CTimeLong (lt_unit lt)).
Proof. destruct lt; reflexivity. Qed.

Lemma time_codec_date inner : apply_builder (BWrap WTime) (SInt true) inner = Some CDate.
Proof. reflexivity. Qed.

(* only the first nine fraction digits count *)
Lemma nanos_aux_firstn : forall k ds, nanos_aux (firstn k ds) k = nanos_aux ds k.
Proof.
  induction k as [|k IH]; intros ds; [reflexivity|].
  destruct ds as [|x r]; cbn [firstn nanos_aux]; [reflexivity|]. rewrite IH. reflexivity.
Qed.
Lemma nanos_of_firstn ds : nanos_of (firstn 9 ds) = nanos_of ds.
Proof. apply nanos_aux_firstn. Qed.

Lemma nanos_of_range ds : Forall is_digit_val ds -> 0 <= nanos_of ds < 1000000000.
Proof.
  unfold nanos_of. intros H.
  assert (G : forall k l, Forall is_digit_val l -> 0 <= nanos_aux l k < 10 ^ Z.of_nat k).
  { induction k as [|k IH]; intros l Hl; cbn [nanos_aux]; [change (10 ^ Z.of_nat 0) with 1; lia|].
    assert (Hp : 10 ^ Z.of_nat (S k) = 10 * 10 ^ Z.of_nat k) by (rewrite Nat2Z.inj_succ, Z.pow_succ_r by lia; reflexivity).
    assert (Hpos : 0 < 10 ^ Z.of_nat k) by (apply Z.pow_pos_nonneg; lia).
    destruct l as [|x r]; [lia|]. inversion Hl as [|? ? Hx Hr]; subst. specialize (IH r Hr).
    unfold is_digit_val in Hx. rewrite Hp. nia. }
  apply (G 9%nat ds H).
Qed.
