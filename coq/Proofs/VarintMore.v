(* Further facts about the varint primitive: equivalence with the
   specification's shift/xor wording, length, shortest form, and the exact
   characterisation of what the reader accepts. *)
From Coq Require Import List ZArith Lia Bool ZifyBool ZifyNat.
Require Import Avro.Model.Base Avro.Proofs.ListFacts Avro.Proofs.VarintP.
Import ListNotations.
Open Scope Z_scope.
Ltac Zify.zify_post_hook ::= Z.div_mod_to_equations.

(* ---- spec wording = arithmetic wording ---- *)

Lemma spec_zigzag_eq v : int64_ok v -> spec_zigzag v = zigzag v.
Proof.
  unfold int64_ok, two63, spec_zigzag, zigzag. intros Hv.
  rewrite Z.shiftl_mul_pow2 by lia. rewrite Z.shiftr_div_pow2 by lia.
  change (2 ^ 1) with 2. change (2 ^ 63) with 9223372036854775808.
  destruct (v <? 0) eqn:E.
  - replace (v / 9223372036854775808) with (-1) by lia.
    rewrite Z.lxor_m1_r. unfold Z.lnot. lia.
  - replace (v / 9223372036854775808) with 0 by lia.
    rewrite Z.lxor_0_r. lia.
Qed.

Lemma lor128_sweep :
  forallb (fun a => Z.lor a 128 =? a + 128) (map Z.of_nat (seq 0 128)) = true.
Proof. vm_compute. reflexivity. Qed.

Lemma lor128 a : 0 <= a < 128 -> Z.lor a 128 = a + 128.
Proof.
  intros Ha. pose proof lor128_sweep as H. rewrite forallb_forall in H.
  specialize (H a). apply Z.eqb_eq. apply H.
  apply in_map_iff. exists (Z.to_nat a). split; [lia|]. apply in_seq. lia.
Qed.

Lemma spec_base128_eq fuel x : 0 <= x -> spec_base128 fuel x = enc_uvarint fuel x.
Proof.
  revert x. induction fuel as [|f IH]; intros x Hx; [reflexivity|].
  cbn [spec_base128 enc_uvarint].
  rewrite Z.shiftr_div_pow2 by lia. change (2 ^ 7) with 128.
  change 127 with (Z.ones 7). rewrite Z.land_ones by lia. change (2 ^ 7) with 128.
  destruct (x <? 128) eqn:E.
  - replace (x / 128 =? 0) with true by lia. f_equal. lia.
  - replace (x / 128 =? 0) with false by lia.
    rewrite lor128 by lia. rewrite IH by lia. reflexivity.
Qed.

Lemma enc_varint_spec v : int64_ok v -> enc_varint v = spec_varint v.
Proof.
  intros Hv. unfold enc_varint, spec_varint.
  rewrite spec_zigzag_eq by exact Hv. symmetry. apply spec_base128_eq.
  pose proof (zigzag_range v Hv). lia.
Qed.

(* ---- shape of an encoding ---- *)

Definition is_cont (b : Z) : Prop := 128 <= b < 256.
Definition is_last (b : Z) : Prop := 0 <= b < 128.

Lemma enc_uvarint_shape : forall f x,
  0 <= x < 2 ^ (7 * Z.of_nat (S f)) ->
  exists conts last,
    enc_uvarint (S f) x = conts ++ [last] /\ Forall is_cont conts /\ is_last last /\
    (length conts <= f)%nat /\ (conts <> [] -> last <> 0).
Proof.
  induction f as [|f IH]; intros x Hx.
  - change (2 ^ (7 * Z.of_nat 1)) with 128 in Hx. cbn [enc_uvarint].
    destruct (x <? 128) eqn:E; [|lia].
    exists [], x. repeat split; auto; unfold is_last; try lia; try congruence.
  - remember (S f) as g. cbn [enc_uvarint]. destruct (x <? 128) eqn:E.
    + exists [], x. repeat split; auto; unfold is_last; cbn; try lia; try congruence.
    + assert (Hq : 0 <= x / 128 < 2 ^ (7 * Z.of_nat g)).
      { replace (7 * Z.of_nat (S g)) with (7 * Z.of_nat g + 7) in Hx by lia.
        rewrite Z.pow_add_r in Hx by lia. change (2 ^ 7) with 128 in Hx.
        assert (0 < 2 ^ (7 * Z.of_nat g)) by (apply Z.pow_pos_nonneg; lia). nia. }
      subst g. destruct (IH (x / 128) Hq) as (conts & last & Heq & Hc & Hl & Hlen & Hnz).
      exists ((x mod 128 + 128) :: conts), last. rewrite Heq.
      refine (conj eq_refl (conj _ (conj Hl (conj _ _)))).
      * constructor; auto. unfold is_cont. lia.
      * cbn [length]. lia.
      * intros _. destruct conts as [|c cs].
        -- (* x/128 encoded in one byte = last, and x >= 128 so last <> 0 *)
           cbn [app] in Heq. cbn [enc_uvarint] in Heq.
           destruct (x / 128 <? 128) eqn:E2; injection Heq as Heq; lia.
        -- apply Hnz. discriminate.
Qed.

Lemma enc_varint_shape v : int64_ok v ->
  exists conts last,
    enc_varint v = conts ++ [last] /\ Forall is_cont conts /\ is_last last /\
    (length conts <= 9)%nat /\ (conts <> [] -> last <> 0).
Proof.
  intros Hv. unfold enc_varint. apply enc_uvarint_shape.
  pose proof (zigzag_range v Hv) as H. unfold two64 in H. change (7 * Z.of_nat 10) with 70. lia.
Qed.

Lemma enc_varint_length v : int64_ok v -> (1 <= length (enc_varint v) <= 10)%nat.
Proof.
  intros Hv. destruct (enc_varint_shape v Hv) as (c & l & E & _ & _ & Hlen & _).
  rewrite E, app_length. cbn. lia.
Qed.

(* ---- what the reader accepts ---- *)

Lemma dec_uvarint_all_cont : forall bs i m x,
  Forall (fun b => 128 <= b) bs -> dec_uvarint bs i m x = VEOF.
Proof.
  induction bs as [|b bs IH]; intros i m x H; [reflexivity|].
  inversion H as [|? ? Hb Hr]; subst. cbn [dec_uvarint].
  destruct (b <? 128) eqn:E; [lia|]. apply IH. exact Hr.
Qed.

(* truncation: every proper prefix of an encoding is rejected as EOF *)
Lemma dec_varint_truncated v k : int64_ok v ->
  (k < length (enc_varint v))%nat -> dec_varint (firstn k (enc_varint v)) = VEOF.
Proof.
  intros Hv Hk. destruct (enc_varint_shape v Hv) as (c & l & E & Hc & _ & _ & _).
  rewrite E in *. rewrite app_length in Hk. cbn in Hk.
  rewrite firstn_app. replace (k - length c)%nat with 0%nat by lia. cbn [firstn]. rewrite app_nil_r.
  unfold dec_varint. rewrite dec_uvarint_all_cont; [reflexivity|].
  apply Forall_forall. intros b Hb. apply In_firstn in Hb.
  rewrite Forall_forall in Hc. specialize (Hc b Hb). unfold is_cont in Hc. lia.
Qed.

(* exact characterisation of acceptance, from any loop state *)
Lemma dec_uvarint_ok_inv : forall bs i m x u rest,
  dec_uvarint bs i m x = VOk (u, rest) ->
  exists conts b,
    bs = conts ++ b :: rest /\ Forall (fun c => 128 <= c) conts /\ b < 128 /\
    (i + length conts <= 9)%nat /\ ((i + length conts = 9)%nat -> b <= 1).
Proof.
  induction bs as [|b bs IH]; intros i m x u rest H; [discriminate|].
  cbn [dec_uvarint] in H. destruct (b <? 128) eqn:E.
  - destruct (Nat.ltb 9 i) eqn:E1; [discriminate|]. apply Nat.ltb_ge in E1.
    destruct (Nat.eqb i 9) eqn:E2; cbn [orb andb] in H.
    + apply Nat.eqb_eq in E2.
      destruct (1 <? b) eqn:E3; [discriminate|]. injection H as _ Hr. subst rest.
      exists [], b. cbn [app length].
      refine (conj eq_refl (conj (Forall_nil _) (conj _ (conj _ _)))); lia.
    + apply Nat.eqb_neq in E2. injection H as _ Hr. subst rest. exists [], b. cbn [app length].
      refine (conj eq_refl (conj (Forall_nil _) (conj _ (conj _ _)))); lia.
  - destruct (IH _ _ _ _ _ H) as (c & b' & Hbs & Hc & Hb & Hlen & Hnine).
    exists (b :: c), b'. subst bs. cbn [app length].
    refine (conj eq_refl (conj _ (conj Hb (conj _ _)))).
    + constructor; [lia|exact Hc].
    + lia.
    + intros Hi. apply Hnine. lia.
Qed.

Lemma dec_uvarint_overflow : forall conts i m x b rest,
  Forall (fun c => 128 <= c) conts -> b < 128 ->
  ((9 < i + length conts)%nat \/ ((i + length conts = 9)%nat /\ 1 < b)) ->
  dec_uvarint (conts ++ b :: rest) i m x = VOverflow.
Proof.
  induction conts as [|c cs IH]; intros i m x b rest Hc Hb Hov.
  - cbn [app dec_uvarint length] in *. destruct (b <? 128) eqn:E; [|lia].
    destruct Hov as [H|[H1 H2]].
    + replace (Nat.ltb 9 i) with true by (symmetry; apply Nat.ltb_lt; lia). reflexivity.
    + replace (Nat.eqb i 9) with true by (symmetry; apply Nat.eqb_eq; lia).
      replace (1 <? b) with true by lia. destruct (Nat.ltb 9 i); reflexivity.
  - inversion Hc as [|? ? Hc1 Hc2]; subst. cbn [app dec_uvarint].
    destruct (c <? 128) eqn:E; [lia|]. apply IH; auto. cbn [length] in Hov. lia.
Qed.

(* Corollary for the public reader: any string of more than ten bytes whose
   first ten are continuation bytes is an error (overflow, or EOF if it never ends). *)
Lemma dec_varint_too_long bs :
  (10 <= length bs)%nat -> Forall (fun c => 128 <= c) (firstn 10 bs) ->
  forall v rest, dec_varint bs <> VOk (v, rest).
Proof.
  intros Hlen Hc v rest H. unfold dec_varint in H.
  destruct (dec_uvarint bs 0 1 0) as [[u r]| |] eqn:E; try discriminate.
  destruct (dec_uvarint_ok_inv _ _ _ _ _ _ E) as (c & b & Hbs & Hcc & Hb & Hl & _).
  subst bs. cbn in Hl.
  assert (In b (firstn 10 (c ++ b :: r))).
  { rewrite firstn_app. apply in_or_app. right.
    replace (10 - length c)%nat with (S (9 - length c)) by lia. cbn. left. reflexivity. }
  rewrite Forall_forall in Hc. specialize (Hc b H0). lia.
Qed.

(* ---- shortest form: nothing that decodes to v is shorter than enc_varint v ---- *)

Lemma enc_uvarint_len_bound : forall n f x,
  0 <= x < 2 ^ (7 * Z.of_nat (S n)) -> (length (enc_uvarint (S f) x) <= S n)%nat.
Proof.
  induction n as [|n IH]; intros f x Hx.
  - change (2 ^ (7 * Z.of_nat 1)) with 128 in Hx. cbn [enc_uvarint].
    destruct (x <? 128) eqn:E; [cbn; lia|lia].
  - cbn [enc_uvarint]. destruct (x <? 128) eqn:E; [cbn; lia|].
    cbn [length]. destruct f as [|f]; [cbn; lia|].
    apply le_n_S. apply IH.
    replace (7 * Z.of_nat (S (S n))) with (7 * Z.of_nat (S n) + 7) in Hx by lia.
    rewrite Z.pow_add_r in Hx by lia. change (2 ^ 7) with 128 in Hx.
    assert (0 < 2 ^ (7 * Z.of_nat (S n))) by (apply Z.pow_pos_nonneg; lia). nia.
Qed.

Lemma dec_uvarint_value_bound : forall bs i x u rest,
  bytes_ok bs -> 0 <= x < 2 ^ (7 * Z.of_nat i) ->
  dec_uvarint bs i (2 ^ (7 * Z.of_nat i)) x = VOk (u, rest) ->
  0 <= u < 2 ^ (7 * Z.of_nat (i + (length bs - length rest))).
Proof.
  induction bs as [|b bs IH]; intros i x u rest Hok Hx H; [discriminate|].
  inversion Hok as [|? ? Hb Hbs]; subst. unfold byte_ok in Hb.
  assert (Hp0 : 0 < 2 ^ (7 * Z.of_nat i)) by (apply Z.pow_pos_nonneg; lia).
  assert (Hpow : 2 ^ (7 * Z.of_nat (S i)) = 2 ^ (7 * Z.of_nat i) * 128).
  { replace (7 * Z.of_nat (S i)) with (7 * Z.of_nat i + 7) by lia.
    rewrite Z.pow_add_r by lia. reflexivity. }
  remember (2 ^ (7 * Z.of_nat i)) as P in *.
  cbn [dec_uvarint] in H. destruct (b <? 128) eqn:E.
  - destruct (Nat.ltb 9 i || Nat.eqb i 9 && (1 <? b)); [discriminate|].
    injection H as Hu Hr. subst rest u.
    replace (i + (length (b :: bs) - length bs))%nat with (S i) by (cbn [length]; lia).
    rewrite Hpow. unfold two64.
    assert (b <= 127) by lia.
    assert (0 <= x + b * P) by nia.
    split; [apply Z.mod_pos_bound; lia|].
    eapply Z.le_lt_trans; [apply Z.mod_le; lia|]. nia.
  - rewrite <- Hpow in H.
    assert (Hx' : 0 <= (x + (b - 128) * P) mod two64 < 2 ^ (7 * Z.of_nat (S i))).
    { rewrite Hpow.
      assert (128 <= b <= 255) by lia.
      assert (0 <= x + (b - 128) * P) by nia.
      split; [apply Z.mod_pos_bound; unfold two64; lia|].
      eapply Z.le_lt_trans; [apply Z.mod_le; unfold two64; lia|]. nia. }
    pose proof (IH _ _ _ _ Hbs Hx' H) as Hr.
    destruct (dec_uvarint_ok_inv _ _ _ _ _ _ H) as (c & b' & Hbs' & _).
    assert (length rest < length bs)%nat.
    { subst bs. rewrite app_length. cbn [length]. lia. }
    replace (i + (length (b :: bs) - length rest))%nat with (S i + (length bs - length rest))%nat
      by (cbn [length]; lia).
    exact Hr.
Qed.

Lemma zigzag_unzigzag u : 0 <= u -> zigzag (unzigzag u) = u.
Proof.
  intros Hu. unfold zigzag, unzigzag. destruct (Z.even u) eqn:E.
  - apply Z.even_spec in E. destruct E as [k ->]. replace (2 * k / 2) with k by lia.
    destruct (k <? 0) eqn:E2; lia.
  - assert (Z.odd u = true) by (rewrite <- Z.negb_even, E; reflexivity).
    apply Z.odd_spec in H. destruct H as [k ->].
    replace ((2 * k + 1) / 2) with k by lia.
    destruct (- k - 1 <? 0) eqn:E2; lia.
Qed.

Lemma enc_varint_shortest bs v rest :
  bytes_ok bs -> dec_varint bs = VOk (v, rest) ->
  (length (enc_varint v) <= length bs - length rest)%nat.
Proof.
  intros Hok H. unfold dec_varint in H.
  destruct (dec_uvarint bs 0 1 0) as [[u r]| |] eqn:E; try discriminate.
  injection H as Hv Hr. subst r v.
  change 1 with (2 ^ (7 * Z.of_nat 0)) in E.
  assert (H00 : 0 <= 0 < 2 ^ (7 * Z.of_nat 0)) by (cbn; lia).
  pose proof (dec_uvarint_value_bound bs 0%nat 0 u rest Hok H00 E) as Hb.
  destruct (dec_uvarint_ok_inv _ _ _ _ _ _ E) as (c & b & Hbs & _).
  assert (length rest < length bs)%nat by (subst bs; rewrite app_length; cbn; lia).
  unfold enc_varint. rewrite zigzag_unzigzag by lia.
  cbn [Nat.add] in Hb.
  remember (length bs - length rest)%nat as n. destruct n as [|n]; [lia|].
  apply (enc_uvarint_len_bound n 9 u Hb).
Qed.

(* whatever the reader accepts is a 64-bit value *)
Lemma unzigzag_range u : 0 <= u < two64 -> int64_ok (unzigzag u).
Proof.
  unfold unzigzag, int64_ok, two63, two64. intros Hu. destruct (Z.even u); lia.
Qed.

Lemma dec_uvarint_range : forall bs i m x u rest,
  dec_uvarint bs i m x = VOk (u, rest) -> 0 <= u < two64.
Proof.
  induction bs as [|b bs IH]; intros i m x u rest H; [discriminate|].
  cbn [dec_uvarint] in H. destruct (b <? 128).
  - destruct (Nat.ltb 9 i || Nat.eqb i 9 && (1 <? b)); [discriminate|].
    injection H as <- _. apply Z.mod_pos_bound. unfold two64. lia.
  - eauto.
Qed.

Lemma dec_varint_range bs v rest : dec_varint bs = VOk (v, rest) -> int64_ok v.
Proof.
  unfold dec_varint. destruct (dec_uvarint bs 0 1 0) as [[u r]| |] eqn:E; try discriminate.
  intros H. injection H as <- _. apply unzigzag_range. eapply dec_uvarint_range; eauto.
Qed.
