(* C06, the allocation clause: what a successful decode builds on the heap is
   bounded by the bytes it consumed, times a constant of the codec tree.

   [cells v] counts what a Go value holds outside its own (fixed-size) storage:
   the bytes of its strings and byte slices, the items of its slices, the entries
   and key bytes of its maps, the targets of its non-nil pointers — everything
   the decoder has to allocate (each cell costs at most the size of the type
   that views it, times the growth slack of append).

     nzw c -> c_read fuel c dest bs = Done v r ->
     cells v <= cells dest + st c + rate c * (len bs - len r)

   [st c]: the pointer targets a decode of c creates however short the input
   (a constant of the type); [rate c]: cells per consumed byte (one per nesting
   level of collections, plus the pointer targets of an item).  The premise
   [nzw] excludes collections whose items occupy zero bytes: for those the
   bound is false (C06_zero_width_items_refuted). *)
From Coq Require Import List ZArith Lia Bool ZifyBool ZifyNat.
Require Import Avro.Model.Base Avro.Model.Prim Avro.Model.Schema Avro.Model.GoType
               Avro.Model.Blocks Avro.Model.Time Avro.Model.Spec Avro.Model.Codec Avro.Model.Heap.
Require Import Avro.Proofs.ListFacts Avro.Proofs.VarintP Avro.Proofs.VarintMore Avro.Proofs.PrimP
               Avro.Proofs.BlocksP Avro.Proofs.CodecInd Avro.Proofs.CodecEq Avro.Proofs.SafeP Avro.Proofs.ReadSafeP.
Import ListNotations.
Open Scope Z_scope.

(* ---- heap cells of a value ---- *)

Fixpoint cells_items (l : list gval) {struct l} : Z := match l with [] => 0 | x :: r => 1 + cells x + cells_items r end.
Fixpoint cells_kvs (l : list (bytes * gval)) {struct l} : Z :=
  match l with [] => 0 | (k, x) :: r => 1 + len k + cells x + cells_kvs r end.
Fixpoint cells_fields (l : list gval) {struct l} : Z := match l with [] => 0 | x :: r => cells x + cells_fields r end.

Lemma cells_slice vs : cells (VSlice vs) = cells_items vs.
Proof. cbn [cells]. induction vs as [|x r IH]; [reflexivity|]. cbn [cells_items]. rewrite <- IH. reflexivity. Qed.
Lemma cells_map kvs : cells (VMap kvs) = cells_kvs kvs.
Proof. cbn [cells]. induction kvs as [|[k x] r IH]; [reflexivity|]. cbn [cells_kvs]. rewrite <- IH. reflexivity. Qed.
Lemma cells_struct vs : cells (VStruct vs) = cells_fields vs.
Proof. cbn [cells]. induction vs as [|x r IH]; [reflexivity|]. cbn [cells_fields]. rewrite <- IH. reflexivity. Qed.

Local Arguments Z.add : simpl never.
Fixpoint cells_nonneg (v : gval) {struct v} : 0 <= cells v.
Proof.
  destruct v as [ | | | | s | s | | vs | | kvs | o | vs | | valid p | ]; cbn [cells]; try lia; try (unfold len; lia).
  - induction vs as [|x r IH]; [lia|]. pose proof (cells_nonneg x). cbn. cbn in IH. lia.
  - induction kvs as [|[k x] r IH]; [lia|]. pose proof (cells_nonneg x). cbn. cbn in IH. unfold len in *. lia.
  - destruct o as [x|]; [pose proof (cells_nonneg x)|]; lia.
  - induction vs as [|x r IH]; [lia|]. pose proof (cells_nonneg x). cbn. cbn in IH. lia.
Qed.

Lemma cells_items_nonneg l : 0 <= cells_items l.
Proof. rewrite <- cells_slice. apply cells_nonneg. Qed.
Lemma cells_kvs_nonneg l : 0 <= cells_kvs l.
Proof. rewrite <- cells_map. apply cells_nonneg. Qed.
Lemma cells_fields_nonneg l : 0 <= cells_fields l.
Proof. rewrite <- cells_struct. apply cells_nonneg. Qed.

Lemma cells_items_snoc a v : cells_items (a ++ [v]) = cells_items a + 1 + cells v.
Proof. induction a as [|x r IH]; cbn [app cells_items]; lia. Qed.
Lemma cells_kvs_snoc a k v : cells_kvs (a ++ [(k, v)]) = cells_kvs a + 1 + len k + cells v.
Proof. induction a as [|[k' x] r IH]; cbn [app cells_kvs]; lia. Qed.

(* storing v over field j adds at most what v adds over the field's old value *)
Lemma cells_fields_update vs : forall j v d, 0 <= d -> cells v <= cells (nth j vs VBad) + d ->
  cells_fields (list_update vs j v) <= cells_fields vs + d.
Proof.
  induction vs as [|x r IH]; intros j v d Hd H; [cbn; lia|].
  destruct j as [|j]; cbn [list_update cells_fields nth] in *; [lia|].
  specialize (IH j v d Hd H). lia.
Qed.

Lemma cells_cx k v : cells (cx k v) = cells v.
Proof. destruct v; cbn [cx cells]; try reflexivity. unfold len. rewrite rev_length. reflexivity. Qed.

(* ---- the two constants of a codec tree ---- *)


Fixpoint st_fields (l : list (codec * option nat)) {struct l} : Z :=
  match l with [] => 0 | (fc, _) :: l' => st fc + st_fields l' end.
Fixpoint rate_fields (l : list (codec * option nat)) {struct l} : Z :=
  match l with [] => 0 | (fc, _) :: l' => Z.max (rate fc) (rate_fields l') end.
Fixpoint st_list (l : list codec) {struct l} : Z := match l with [] => 0 | x :: l' => st x + st_list l' end.
Fixpoint rate_list (l : list codec) {struct l} : Z := match l with [] => 0 | x :: l' => Z.max (rate x) (rate_list l') end.
Lemma st_record fs : st (CRecord fs) = st_fields fs. Proof. reflexivity. Qed.
Lemma rate_record fs : rate (CRecord fs) = rate_fields fs. Proof. reflexivity. Qed.
Lemma st_union cs : st (CUnion cs) = st_list cs. Proof. reflexivity. Qed.
Lemma rate_union cs : rate (CUnion cs) = rate_list cs. Proof. reflexivity. Qed.

Lemma st_rate_nonneg c : 0 <= st c /\ 0 <= rate c.
Proof.
  induction c using codec_ind'; try (cbn [st rate]; lia).
  - rewrite st_record, rate_record.
    induction H as [|[fc t] l Hx _ IH]; cbn [st_fields rate_fields fst] in *; lia.
  - cbn [st rate]. pose proof (cells_nonneg z). lia.
  - cbn [st rate]. pose proof (cells_nonneg z). lia.
  - cbn [st rate]. pose proof (cells_nonneg z). lia.
  - rewrite st_union, rate_union.
    induction H as [|x l Hx _ IH]; cbn [st_list rate_list] in *; lia.
Qed.
Lemma st_nonneg c : 0 <= st c. Proof. apply st_rate_nonneg. Qed.
Lemma rate_nonneg c : 0 <= rate c. Proof. apply st_rate_nonneg. Qed.
Lemma st_fields_nonneg l : 0 <= st_fields l.
Proof. induction l as [|[fc t] l IH]; cbn [st_fields]; [lia|]. pose proof (st_nonneg fc). lia. Qed.
Lemma rate_fields_nonneg l : 0 <= rate_fields l.
Proof. induction l as [|[fc t] l IH]; cbn [rate_fields]; lia. Qed.
Lemma st_list_nonneg l : 0 <= st_list l.
Proof. induction l as [|x l IH]; cbn [st_list]; [lia|]. pose proof (st_nonneg x). lia. Qed.
Lemma rate_list_nonneg l : 0 <= rate_list l.
Proof. induction l as [|x l IH]; cbn [rate_list]; lia. Qed.

(* ---- the block loop with a measure ---- *)
Section ReadMeasure.
  Context {A : Type} (item : A -> bytes -> out A) (M : A -> Z) (K : Z).
  Hypothesis HK : 0 <= K.
  Hypothesis Hitem : forall a bs a' r, item a bs = Done a' r ->
    len r < len bs /\ M a' <= M a + K * (len bs - len r).

  Lemma blocks_items_measure : forall f,
    (forall a bs a' r, blocks false item f a bs = Done a' r -> len r < len bs /\ M a' <= M a + K * (len bs - len r)) /\
    (forall n e a bs a' r, items false item f n e a bs = Done a' r -> len r <= len bs /\ M a' <= M a + K * (len bs - len r)).
  Proof.
    induction f as [|f [IHb IHi]]; [split; intros; discriminate|]. split.
    - intros a bs a' r H. cbn [blocks] in H. unfold rdv in H. inv_obind H. apply rd_varint_shorter in Ho.
      destruct (a0 =? 0); [injection H as <- <-; split; [exact Ho|nia]|]. destruct (a0 <? 0).
      + inv_obind H. apply rd_varint_shorter in Ho0. apply IHi in H. destruct H as [H1 H2]. split; [lia|nia].
      + apply IHi in H. destruct H as [H1 H2]. split; [lia|nia].
    - intros n e a bs a' r H. cbn [items] in H. destruct (n <=? 0).
      + assert (Hb : blocks false item f a bs = Done a' r) by (destruct e as [e|]; [destruct (len bs =? e); [exact H|discriminate]|exact H]).
        apply IHb in Hb. destruct Hb as [H1 H2]. split; [lia|exact H2].
      + inv_obind H. apply Hitem in Ho. apply IHi in H. destruct Ho as [P1 P2]. destruct H as [H1 H2]. split; [lia|nia].
  Qed.
End ReadMeasure.

(* ---- primitive readers: what they return is shorter than what they consumed ---- *)
Lemma string_read_cells bs v r : string_read bs = Done v r -> len v < len bs - len r.
Proof.
  unfold string_read. intros H. inv_obind H. apply rd_varint_shorter in Ho. destruct (a <? 0); [discriminate|].
  pose proof (rd_next_len _ _ _ _ H) as [Hl _]. destruct (rd_next_inv _ _ _ _ H) as (_ & _ & _ & _ & Hv). lia.
Qed.
Lemma bytes_read_cells bs o r : bytes_read bs = Done o r ->
  len r < len bs /\ match o with Some v => len v < len bs - len r | None => True end.
Proof.
  intros H. pose proof (bytes_read_len _ _ _ H) as Hs. split; [exact Hs|].
  unfold bytes_read in H. inv_obind H. apply rd_varint_shorter in Ho. destruct (a =? 0); [injection H as <- _; exact I|].
  inv_obind H. injection H as <- <-. pose proof (rd_next_len _ _ _ _ Ho0) as [Hl _].
  destruct (rd_next_inv _ _ _ _ Ho0) as (_ & _ & _ & _ & Hv). lia.
Qed.
Lemma time_string_read_cells dest bs v r : time_string_read dest bs = Done v r -> cells v <= cells dest.
Proof.
  unfold time_string_read. intros H. inv_obind H. destruct (a =? 0); [injection H as <- _; lia|].
  inv_obind H. destruct (parse_time a0); try discriminate. injection H as <- _. cbn [cells]. apply cells_nonneg.
Qed.
Lemma null_payload_cells dest : cells (null_payload dest) <= cells dest.
Proof. destruct dest; cbn [null_payload]; try (cbn [cells]; lia); change (cells VBad) with 0; apply cells_nonneg. Qed.

Lemma read_fields_len fuel l : forall vs bs vs' r, nzw_fields l -> read_fields fuel l vs bs = Done vs' r -> len r <= len bs.
Proof.
  induction l as [|[fc tgt] l IH]; intros vs bs vs' r Hz H; cbn [read_fields nzw_fields] in *.
  - injection H as _ <-. lia.
  - destruct Hz as [Hz1 Hz2]. pose proof (min_bytes_nonneg fc). destruct tgt as [j|]; inv_obind H.
    + pose proof (read_progress fuel _ _ _ _ _ Hz1 Ho). specialize (IH _ _ _ _ Hz2 H). lia.
    + destruct a. pose proof (skip_progress fuel _ _ _ Hz1 Ho). specialize (IH _ _ _ _ Hz2 H). lia.
Qed.

(* ---- the bound ---- *)
Theorem read_cells fuel : forall c dest bs v r, nzw c -> c_read fuel c dest bs = Done v r ->
  cells v <= cells dest + st c + rate c * (len bs - len r).
Proof.
  induction c using codec_ind'; intros dest bs v r Hz Hs;
    pose proof (cells_nonneg dest) as Hd; pose proof (read_progress fuel _ _ _ _ _ Hz Hs) as Hpr.
  - cbn in Hs. injection Hs as <- _. cbn [st rate]. lia.
  - cbn [c_read] in Hs. inv_obind Hs. injection Hs as <- _. cbn [cells st rate]. lia.
  - cbn [c_read] in Hs. inv_obind Hs. injection Hs as <- _. cbn [cells st rate]. lia.
  - cbn [c_read] in Hs. inv_obind Hs. injection Hs as <- _. cbn [cells st rate]. lia.
  - cbn [c_read] in Hs. inv_obind Hs. injection Hs as <- _. cbn [cells st rate]. lia.
  - cbn [c_read] in Hs. inv_obind Hs. injection Hs as <- _. cbn [cells st rate]. lia.
  - (* bytes *)
    cbn [c_read] in Hs. inv_obind Hs. injection Hs as <- <-. apply bytes_read_cells in Ho. destruct Ho as [H1 H2].
    cbn [st rate]. destruct a as [x|]; cbn [cells]; lia.
  - (* string *)
    cbn [c_read] in Hs. inv_obind Hs. injection Hs as <- <-. apply string_read_cells in Ho. cbn [cells st rate]. lia.
  - cbn [c_read] in Hs. inv_obind Hs. injection Hs as <- _. cbn [cells st rate]. lia.
  - (* record *)
    destruct dest; try discriminate. rewrite c_read_record_eq in Hs. inv_obind Hs. injection Hs as <- <-.
    rewrite nzw_record in Hz. rewrite st_record, rate_record, !cells_struct. clear Hd Hpr.
    revert fs0 bs a Ho Hz. induction H as [|[fc tgt] l Hx _ IH]; intros vs bs a Ho Hz; cbn [read_fields st_fields rate_fields nzw_fields] in *.
    + injection Ho as <- <-. lia.
    + destruct Hz as [Hz1 Hz2]. cbn [fst] in Hx.
      pose proof (st_nonneg fc). pose proof (rate_nonneg fc). pose proof (st_fields_nonneg l). pose proof (rate_fields_nonneg l).
      destruct tgt as [j|].
      * inv_obind Ho. pose proof (Hx _ _ _ _ Hz1 Ho0) as Hc. pose proof (read_progress fuel _ _ _ _ _ Hz1 Ho0) as Hp1.
        pose proof (min_bytes_nonneg fc).
        specialize (IH _ _ _ Ho Hz2).
        pose proof (read_fields_len fuel _ _ _ _ _ Hz2 Ho) as Hrest.
        match type of Hc with _ <= _ + _ + ?K =>
          assert (Hu : cells_fields (list_update vs j a0) <= cells_fields vs + (st fc + K))
            by (apply cells_fields_update; [nia|lia]) end.
        nia.
      * inv_obind Ho. destruct a0. pose proof (skip_progress fuel _ _ _ Hz1 Ho0). pose proof (min_bytes_nonneg fc).
        specialize (IH _ _ _ Ho Hz2).
        pose proof (read_fields_len fuel _ _ _ _ _ Hz2 Ho) as Hrest.
        nia.
  - (* array *)
    destruct Hz as [Hz Hm]. cbn [st rate]. cbn [c_read] in Hs.
    pose proof (cells_nonneg z). pose proof (st_nonneg c). pose proof (rate_nonneg c).
    destruct dest; try discriminate.
    + inv_obind Hs. injection Hs as <- <-.
      match type of Ho with blocks false ?it _ _ _ = _ =>
        assert (Hp : forall a0 b0 a' r', it a0 b0 = Done a' r' ->
                  len r' < len b0 /\ len a' <= len a0 + (1 + cells z + st c + rate c) * (len b0 - len r')) end.
      { intros a0 b0 a' r' E. inv_obind E. injection E as <- <-. pose proof (read_progress fuel _ _ _ _ _ Hz Ho0).
        split; [lia|]. unfold len. rewrite app_length. cbn [length]. unfold len in *. nia. }
      pose proof (proj1 (blocks_items_measure _ len (1 + cells z + st c + rate c) ltac:(lia) Hp fuel) _ _ _ _ Ho) as [_ Hb]. cbn [cells]. lia.
    + inv_obind Hs. injection Hs as <- <-. rewrite !cells_slice.
      match type of Ho with blocks false ?it _ _ _ = _ =>
        assert (Hp : forall a0 b0 a' r', it a0 b0 = Done a' r' ->
                  len r' < len b0 /\ cells_items a' <= cells_items a0 + (1 + cells z + st c + rate c) * (len b0 - len r')) end.
      { intros a0 b0 a' r' E. inv_obind E. injection E as <- <-. pose proof (read_progress fuel _ _ _ _ _ Hz Ho0).
        pose proof (IHc _ _ _ _ Hz Ho0). split; [lia|]. rewrite cells_items_snoc. nia. }
      pose proof (proj1 (blocks_items_measure _ cells_items (1 + cells z + st c + rate c) ltac:(lia) Hp fuel) _ _ _ _ Ho) as [_ Hb]. lia.
  - (* map *)
    cbn [st rate]. cbn [nzw] in Hz. rewrite c_read_map_eq in Hs.
    pose proof (cells_nonneg z). pose proof (st_nonneg c). pose proof (rate_nonneg c).
    destruct (map_start dest) as [kvs0|] eqn:Ems; [|discriminate].
    inv_obind Hs. injection Hs as <- <-. rewrite cells_map.
    assert (Hp : forall a0 b0 a' r', read_mitem fuel c z a0 b0 = Done a' r' ->
              len r' < len b0 /\ cells_kvs a' <= cells_kvs a0 + (1 + cells z + st c + Z.max 1 (rate c)) * (len b0 - len r')).
    { intros a0 b0 a' r' E. unfold read_mitem in E. inv_obind E. inv_obind E. injection E as <- <-.
      pose proof (string_read_len _ _ _ Ho0). apply string_read_cells in Ho0.
      pose proof (read_progress fuel _ _ _ _ _ Hz Ho1). pose proof (min_bytes_nonneg c).
      pose proof (IHc _ _ _ _ Hz Ho1). split; [lia|]. rewrite cells_kvs_snoc. nia. }
    pose proof (proj1 (blocks_items_measure _ cells_kvs (1 + cells z + st c + Z.max 1 (rate c)) ltac:(lia) Hp fuel) _ _ _ _ Ho) as [_ Hb].
    assert (cells_kvs kvs0 <= cells dest).
    { destruct dest; try discriminate; injection Ems as <-; [cbn; lia|rewrite cells_map; lia]. }
    lia.
  - (* ptr *)
    cbn [c_read] in Hs. destruct dest as [ | | | | | | | | | | o | | | | ]; try discriminate. inv_obind Hs. injection Hs as <- <-.
    cbn [nzw st rate] in *. pose proof (IHc _ _ _ _ Hz Ho) as Hc. cbn [cells].
    pose proof (cells_nonneg z). destruct o as [d|]; cbn [cells] in *; lia.
  - (* union *)
    rewrite c_read_union_eq in Hs. rewrite nzw_union in Hz. rewrite st_union, rate_union. inv_obind Hs. apply rd_varint_shorter in Ho.
    destruct ((a <? 0) || (Z.of_nat (length cs) <=? a)); [discriminate|]. clear Hpr.
    assert (Hg : cells v <= cells dest + st_list cs + rate_list cs * (len r0 - len r) /\ len r <= len r0).
    { revert Hs. generalize (Z.to_nat a). revert Hz. induction H as [|x l Hx _ IH]; intros Hz i Hs; [destruct i; discriminate|].
      destruct Hz as [Hz1 Hz2]. pose proof (st_nonneg x). pose proof (rate_nonneg x). pose proof (st_list_nonneg l). pose proof (rate_list_nonneg l).
      destruct i; cbn [read_pick st_list rate_list] in *.
      + pose proof (Hx _ _ _ _ Hz1 Hs). pose proof (read_progress fuel _ _ _ _ _ Hz1 Hs). pose proof (min_bytes_nonneg x). split; [nia|lia].
      + destruct (IH Hz2 _ Hs) as [I1 I2]. split; [nia|lia]. }
    pose proof (rate_list_nonneg cs). nia.
  - (* nullable union *)
    cbn [c_read] in Hs. cbn [st rate nzw] in *. inv_obind Hs. destruct bs as [|b0 bs']; [discriminate|]. cbn in Ho. injection Ho as <- <-.
    pose proof (st_nonneg c). pose proof (rate_nonneg c).
    destruct (2 <=? b0 / 2); [discriminate|]. destruct (b0 / 2 =? nn).
    + pose proof (IHc _ _ _ _ Hz Hs). pose proof (read_progress fuel _ _ _ _ _ Hz Hs). pose proof (min_bytes_nonneg c).
      unfold len in *. cbn [length] in *. nia.
    + injection Hs as <- <-. unfold len in *. cbn [length]. nia.
  - (* nullable string *)
    cbn [c_read] in Hs. cbn [st rate]. inv_obind Hs. destruct bs as [|b0 bs']; [discriminate|]. cbn in Ho. injection Ho as <- <-.
    destruct (2 <=? b0 / 2); [discriminate|]. destruct (b0 / 2 =? nn).
    + inv_obind Hs. injection Hs as <- <-. apply string_read_cells in Ho. cbn [cells]. unfold len in *. cbn [length] in *. lia.
    + injection Hs as <- <-. unfold len in *. cbn [length]. lia.
  - cbn [c_read] in Hs. apply time_string_read_cells in Hs. cbn [st rate]. lia.
  - cbn [c_read] in Hs. inv_obind Hs. injection Hs as <- _. cbn [cells st rate]. lia.
  - cbn [c_read] in Hs. inv_obind Hs. injection Hs as <- _. cbn [cells st rate]. lia.
  - cbn [c_read] in Hs. inv_obind Hs. injection Hs as <- _. cbn [cells st rate]. lia.
  - cbn [c_read] in Hs. inv_obind Hs. injection Hs as <- _. cbn [cells st rate]. lia.
  - cbn [c_read] in Hs. inv_obind Hs. injection Hs as <- _. cbn [cells st rate]. lia.
  - cbn [c_read] in Hs. inv_obind Hs. injection Hs as <- _. cbn [cells st rate]. lia.
  - cbn [c_read] in Hs. inv_obind Hs. injection Hs as <- <-. apply string_read_cells in Ho. cbn [cells st rate]. lia.
  - cbn [c_read] in Hs. inv_obind Hs. injection Hs as <- _. apply time_string_read_cells in Ho.
    pose proof (null_payload_cells dest). cbn [cells st rate]. lia.
  - cbn [c_read] in Hs. inv_obind Hs. injection Hs as <- <-. cbn [st rate nzw] in *. rewrite cells_cx. eauto.
Qed.

(* into a fresh destination: nothing but the input pays for the result *)
Corollary read_cells_fresh fuel c dest bs v r : nzw c -> cells dest = 0 -> c_read fuel c dest bs = Done v r ->
  cells v <= st c + rate c * len bs.
Proof.
  intros Hz Hd Hs. pose proof (read_cells fuel c dest bs v r Hz Hs). pose proof (rate_nonneg c).
  assert (0 <= len r) by (unfold len; lia). nia.
Qed.

(* the boolean guard of the correspondence check is the theorem's premise *)
Lemma minb_min c : minb c = min_bytes c.
Proof. reflexivity. Qed.

Lemma nzwb_nzw c : nzwb c = true -> nzw c.
Proof.
  induction c using codec_ind'; intros Hb; try exact I; cbn [nzwb nzw] in *.
  - induction H as [|[fc t] l Hx _ IH]; [exact I|]. cbn [fst] in Hx.
    apply andb_true_iff in Hb. destruct Hb as [H1 H2]. split; [apply Hx; exact H1|apply IH; exact H2].
  - apply andb_true_iff in Hb. destruct Hb as [H1 H2]. split; [apply IHc; exact H1|]. rewrite <- minb_min. lia.
  - apply IHc; exact Hb.
  - apply IHc; exact Hb.
  - induction H as [|x l Hx _ IH]; [exact I|].
    apply andb_true_iff in Hb. destruct Hb as [H1 H2]. split; [apply Hx; exact H1|apply IH; exact H2].
  - apply IHc; exact Hb.
  - apply IHc; exact Hb.
Qed.

Theorem heap_bound_holds fuel c dest bs v r :
  c_read fuel c dest bs = Done v r -> heap_bound_ok c dest (len bs - len r) v = true.
Proof.
  intros Hs. unfold heap_bound_ok. destruct (nzwb c) eqn:E; [|reflexivity]. cbn [negb orb].
  pose proof (read_cells fuel c dest bs v r (nzwb_nzw c E) Hs). lia.
Qed.
