(* R: on every input the strict reference decoder accepts as datum d, the
   library's reader, run with any codec of the right wire type, returns exactly
   [apply_datum c dest d] and leaves the same unread suffix — whatever block
   structure the writer chose. *)
From Coq Require Import List ZArith Lia Bool ZifyBool ZifyNat.
Require Import Avro.Model.Base Avro.Model.Prim Avro.Model.Schema Avro.Model.GoType
               Avro.Model.Blocks Avro.Model.Time Avro.Model.Spec Avro.Model.Codec Avro.Model.Denote.
Require Import Avro.Proofs.ListFacts Avro.Proofs.VarintP Avro.Proofs.VarintMore Avro.Proofs.PrimP
               Avro.Proofs.BlocksP Avro.Proofs.CodecInd Avro.Proofs.CodecEq Avro.Proofs.Wire.
Import ListNotations.
Open Scope Z_scope.

(* ---- named loops of apply_datum ---- *)
Fixpoint apply_fields (l : list (codec * option nat)) (ds : list datum) (vs : list gval) {struct l} : option (list gval) :=
  match l, ds with
  | [], [] => Some vs
  | (_, None) :: l', _ :: ds' => apply_fields l' ds' vs
  | (fc, Some j) :: l', d' :: ds' =>
      match apply_datum fc (nth j vs VBad) d' with
      | Some v => apply_fields l' ds' (list_update vs j v)
      | None => None
      end
  | _, _ => None
  end.
Fixpoint apply_pick (dest : gval) (d' : datum) (l : list codec) (i : nat) {struct l} : option gval :=
  match l, i with
  | [], _ => None
  | x :: _, O => apply_datum x dest d'
  | _ :: l', S j => apply_pick dest d' l' j
  end.
Definition conv_kv (vc : codec) (vz : gval) (kd : bytes * datum) : option (bytes * gval) :=
  option_map (pair (fst kd)) (apply_datum vc vz (snd kd)).

Lemma apply_record_eq fs ds vs :
  apply_datum (CRecord fs) (VStruct vs) (DRecord ds) = option_map VStruct (apply_fields fs ds vs).
Proof.
  reflexivity.
Qed.
Lemma apply_pick_eq dest d' cs i :
  (fix pick (l : list codec) (i : nat) {struct l} : option gval :=
     match l, i with
     | [], _ => None
     | x :: _, O => apply_datum x dest d'
     | _ :: l', S j => pick l' j
     end) cs i = apply_pick dest d' cs i.
Proof. revert i. induction cs as [|x l IH]; intros i; [destruct i; reflexivity|]. destruct i; [reflexivity|]. apply IH. Qed.
Lemma apply_array_go ic iz ds acc :
  (fix go (ds : list datum) (acc : list gval) {struct ds} : option (list gval) :=
     match ds with
     | [] => Some acc
     | d' :: ds' => match apply_datum ic iz d' with Some v => go ds' (acc ++ [v]) | None => None end
     end) ds acc = option_map (app acc) (mapo (apply_datum ic iz) ds).
Proof.
  revert acc. induction ds as [|d' ds IH]; intros acc; cbn [mapo option_map]; [rewrite app_nil_r; reflexivity|].
  destruct (apply_datum ic iz d') as [v|]; [|reflexivity]. rewrite IH.
  destruct (mapo (apply_datum ic iz) ds); cbn [option_map]; [rewrite <- app_assoc; reflexivity|reflexivity].
Qed.
Definition byte_of (v : gval) : Z := match v with VInt z => z | _ => 0 end.
Lemma apply_array_bytes_go ic iz ds acc :
  (fix go (ds : list datum) (acc : bytes) {struct ds} : option bytes :=
     match ds with
     | [] => Some acc
     | d' :: ds' => match apply_datum ic iz d' with
                    | Some v => go ds' (acc ++ [match v with VInt z => z | _ => 0 end])
                    | None => None end
     end) ds acc = option_map (app acc) (mapo (fun d' => option_map byte_of (apply_datum ic iz d')) ds).
Proof.
  revert acc. induction ds as [|d' ds IH]; intros acc; cbn [mapo option_map]; [rewrite app_nil_r; reflexivity|].
  destruct (apply_datum ic iz d') as [v|]; cbn [option_map]; [|reflexivity]. rewrite IH. fold (byte_of v).
  destruct (mapo (fun d'0 => option_map byte_of (apply_datum ic iz d'0)) ds); cbn [option_map app]; [rewrite <- app_assoc; reflexivity|reflexivity].
Qed.
Lemma apply_map_go vc vz kvs acc :
  (fix go (kvs : list (bytes * datum)) (acc : list (bytes * gval)) {struct kvs} : option (list (bytes * gval)) :=
     match kvs with
     | [] => Some acc
     | (k, d') :: r => match apply_datum vc vz d' with Some v => go r (acc ++ [(k, v)]) | None => None end
     end) kvs acc = option_map (app acc) (mapo (conv_kv vc vz) kvs).
Proof.
  revert acc. induction kvs as [|[k d'] kvs IH]; intros acc; cbn [mapo option_map]; [rewrite app_nil_r; reflexivity|].
  unfold conv_kv at 1. cbn [fst snd]. destruct (apply_datum vc vz d') as [v|]; cbn [option_map]; [|reflexivity]. rewrite IH.
  destruct (mapo (conv_kv vc vz) kvs); cbn [option_map]; [rewrite <- app_assoc; reflexivity|reflexivity].
Qed.

(* ---- primitive steps ---- *)
Lemma int_read_of_varint w bs v r : rd_varint bs = Done v r -> int_read w bs = if int_fits w v then Done v r else Err.
Proof.
  unfold rd_varint, int_read. destruct (dec_varint bs) as [[i r']| |]; try discriminate.
  intros H. injection H as -> ->. reflexivity.
Qed.

Lemma len_prefixed_string bs v r : sd_len_prefixed bs = Done v r -> string_read bs = Done v r.
Proof.
  unfold sd_len_prefixed, string_read. intros H. inv_obind H. rewrite (rd_varint_canon_rd _ _ _ Ho). exact H.
Qed.

Lemma len_prefixed_bytes bs v r : sd_len_prefixed bs = Done v r ->
  bytes_read bs = Done (match v with [] => None | _ => Some v end) r.
Proof.
  unfold sd_len_prefixed, bytes_read. intros H. inv_obind H. rewrite (rd_varint_canon_rd _ _ _ Ho). cbn [obind].
  destruct (a <? 0) eqn:En; [discriminate|]. destruct (rd_next_inv _ _ _ _ H) as (Hl & Hv & Hr & _ & Hlen).
  destruct (a =? 0) eqn:E0.
  - assert (Ha0 : a = 0) by lia. destruct v as [|x v]; [|unfold len in Hlen; cbn [length] in Hlen; lia].
    subst a. cbn in Hr. subst r. reflexivity.
  - rewrite H. cbn [obind]. destruct v; [unfold len in Hlen; cbn in Hlen; lia|reflexivity].
Qed.

Lemma len_prefixed_time dest bs v r : sd_len_prefixed bs = Done v r ->
  time_string_read dest bs =
  match v with
  | [] => Done dest r
  | _ => match parse_time v with POk t => Done (VTime t) r | PErr => Err | PPanic => Panic end
  end.
Proof.
  unfold sd_len_prefixed, time_string_read. intros H. inv_obind H. rewrite (rd_varint_canon_rd _ _ _ Ho). cbn [obind].
  destruct (a <? 0) eqn:En; [discriminate|]. destruct (rd_next_inv _ _ _ _ H) as (Hl & Hv & Hr & _ & Hlen).
  destruct (a =? 0) eqn:E0.
  - assert (Ha0 : a = 0) by lia. destruct v as [|x v]; [|unfold len in Hlen; cbn [length] in Hlen; lia].
    subst a. cbn in Hr. subst r. reflexivity.
  - rewrite H. cbn [obind]. destruct v; [unfold len in Hlen; cbn in Hlen; lia|reflexivity].
Qed.

Lemma sd_int_inv fuel s bs d r : intlike s -> sd fuel s bs = Done d r ->
  exists z, datum_int d = Some z /\ rd_varint bs = Done z r.
Proof.
  destruct s; try contradiction; intros _ H; cbn [sd] in H; inv_obind H; apply rd_varint_canon_rd in Ho.
  - destruct (int_fits 32 a); [|discriminate]. injection H as <- <-. exists a. split; [reflexivity|exact Ho].
  - injection H as <- <-. exists a. split; [reflexivity|exact Ho].
Qed.

Lemma union2_inv fuel x1 x2 bs d r : sd fuel (SUnion [x1; x2]) bs = Done d r ->
  exists idx d' r0, d = DUnion idx d' /\ bs = (2 * idx) :: r0 /\
    ((idx = 0 /\ sd fuel x1 r0 = Done d' r) \/ (idx = 1 /\ sd fuel x2 r0 = Done d' r)).
Proof.
  intros H. rewrite sd_union_eq in H. inv_obind H. destruct (a <? 0) eqn:Ea; [discriminate|].
  assert (Hidx : 0 <= a <= 1).
  { destruct (Z.to_nat a) as [|[|k]] eqn:Ek; try lia. cbn [sd_pick] in H. discriminate. }
  pose proof (canon_selector _ _ _ Ho Hidx) as ->.
  assert (a = 0 \/ a = 1) as [-> | ->] by lia.
  - cbn [Z.to_nat sd_pick] in H. inv_obind H. injection H as <- <-. exists 0, a, r0. auto.
  - change (Z.to_nat 1) with 1%nat in H. cbn [sd_pick] in H. inv_obind H. injection H as <- <-. exists 1, a, r0. auto.
Qed.

Theorem read_complete fuel : forall c s dest bs d r v,
  wire c s -> sd fuel s bs = Done d r -> apply_datum c dest d = Some v ->
  c_read fuel c dest bs = Done v r.
Proof.
  induction c using codec_ind'; intros s dest bs d r v W Hsd Ha.
  - (* CNull *) cbn [wire] in W. subst s. injection Hsd as <- <-. cbn in Ha. injection Ha as <-. reflexivity.
  - (* CBool *) cbn [wire] in W. subst s. cbn [sd] in Hsd. inv_obind Hsd. cbn [c_read]. unfold bool_read. rewrite Ho. cbn [obind].
    destruct (a =? 0) eqn:E0; [injection Hsd as <- <-; cbn in Ha; injection Ha as <-; reflexivity|].
    destruct (a =? 1); [injection Hsd as <- <-; cbn in Ha; injection Ha as <-; reflexivity|discriminate].
  - (* CInt *) cbn [wire] in W. destruct (sd_int_inv _ _ _ _ _ W Hsd) as (z & Hz & Hr).
    cbn [apply_datum] in Ha. rewrite Hz in Ha. cbn [c_read]. rewrite (int_read_of_varint _ _ _ _ Hr).
    destruct (int_fits w z); [|discriminate]. injection Ha as <-. reflexivity.
  - cbn [wire] in W. subst s. cbn [sd] in Hsd. inv_obind Hsd. injection Hsd as <- <-. cbn in Ha. injection Ha as <-.
    cbn [c_read]. rewrite Ho. reflexivity.
  - cbn [wire] in W. subst s. cbn [sd] in Hsd. inv_obind Hsd. injection Hsd as <- <-. cbn in Ha. injection Ha as <-.
    cbn [c_read]. rewrite Ho. reflexivity.
  - cbn [wire] in W. subst s. cbn [sd] in Hsd. inv_obind Hsd. injection Hsd as <- <-. cbn in Ha. injection Ha as <-.
    cbn [c_read]. unfold f32d_read. rewrite Ho. reflexivity.
  - (* CBytes *) cbn [wire] in W. subst s. cbn [sd] in Hsd. inv_obind Hsd. injection Hsd as <- <-. cbn in Ha. injection Ha as <-.
    cbn [c_read]. rewrite (len_prefixed_bytes _ _ _ Ho). cbn [obind]. destruct a; reflexivity.
  - (* CString *) cbn [wire] in W. subst s. cbn [sd] in Hsd. inv_obind Hsd. injection Hsd as <- <-. cbn in Ha. injection Ha as <-.
    cbn [c_read]. rewrite (len_prefixed_string _ _ _ Ho). reflexivity.
  - (* CFixed *) cbn [wire] in W. destruct W as [-> Hn]. cbn [sd] in Hsd. inv_obind Hsd. injection Hsd as <- <-. cbn in Ha. injection Ha as <-.
    cbn [c_read]. unfold fixed_read. rewrite Ho. reflexivity.
  - (* CRecord *)
    destruct s; try contradiction. rewrite wire_record_eq in W. rewrite sd_record_eq in Hsd. inv_obind Hsd. injection Hsd as <- <-.
    destruct dest; try discriminate. rewrite apply_record_eq in Ha.
    destruct (apply_fields fs a fs0) as [vs'|] eqn:Ef; [|discriminate]. injection Ha as <-.
    rewrite c_read_record_eq.
    assert (Hgo : read_fields fuel fs fs0 bs = Done vs' r0); [|rewrite Hgo; reflexivity].
    clear -H W Ho Ef. revert fields a fs0 bs W Ho Ef.
    induction fs as [|[fc tgt] l IHl]; intros [|[n fsch] fl] ds vs bs W Ho Ef; try contradiction.
    + injection Ho as <- <-. cbn in Ef. injection Ef as <-. reflexivity.
    + cbn [wire_fields] in W. destruct W as [W1 W2]. cbn [sd_fields] in Ho. inv_obind Ho. inv_obind Ho. injection Ho as <- <-.
      inversion H as [|? ? Hfc Hl]; subst. cbn [fst] in Hfc.
      destruct tgt as [j|]; cbn [apply_fields read_fields] in *.
      * destruct (apply_datum fc (nth j vs VBad) a) as [v|] eqn:Eav; [|discriminate].
        rewrite (Hfc _ _ _ _ _ _ W1 Ho0 Eav). cbn [obind]. eapply IHl; eauto.
      * rewrite (skip_exact _ _ _ _ _ _ W1 Ho0). cbn [obind]. eapply IHl; eauto.
  - (* CArray *)
    destruct s; try contradiction. cbn [wire] in W. rewrite sd_array_eq in Hsd. inv_obind Hsd. injection Hsd as <- <-.
    destruct dest as [| | | | |acc0| |vs| | | | | | |]; try discriminate.
    + (* a []byte destination *)
      cbn [apply_datum] in Ha. rewrite apply_array_bytes_go in Ha.
      destruct (mapo (fun d' => option_map byte_of (apply_datum c z d')) a) as [ys|] eqn:Em; [|discriminate]. injection Ha as <-.
      cbn [c_read].
      set (f2 := fun b0 => obind (c_read fuel c z b0) (fun v r => Done (byte_of v) r)).
      assert (Heq : forall acc b0, obind (c_read fuel c z b0) (fun v r => Done (acc ++ [match v with VInt z0 => z0 | _ => 0 end]) r) = app_item f2 acc b0).
      { intros acc b0. unfold app_item, f2. destruct (c_read fuel c z b0); reflexivity. }
      rewrite (blocks_ext false _ _ Heq).
      rewrite (blocks_simlist (sd fuel s) f2 (fun d' => option_map byte_of (apply_datum c z d'))) with (xsf := a) (r := r0) (ysf := ys); [reflexivity| |exact Ho|exact Em].
      intros b0 x r1 y H1 H2. unfold f2. destruct (apply_datum c z x) as [v0|] eqn:Eav; [|discriminate]. cbn [option_map] in H2. injection H2 as <-.
      rewrite (IHc _ _ _ _ _ _ W H1 Eav). reflexivity.
    + cbn [apply_datum] in Ha. rewrite apply_array_go in Ha.
      destruct (mapo (apply_datum c z) a) as [ys|] eqn:Em; [|discriminate]. injection Ha as <-.
      rewrite c_read_array_eq. change (read_aitem fuel c z) with (app_item (c_read fuel c z)).
      rewrite (blocks_simlist (sd fuel s) (c_read fuel c z) (apply_datum c z)
                 (fun bs x r y H1 H2 => IHc _ _ _ _ _ _ W H1 H2) fuel bs a r0 vs ys Ho Em).
      reflexivity.
  - (* CMap *)
    destruct s; try contradiction. cbn [wire] in W. rewrite sd_map_eq in Hsd. inv_obind Hsd. injection Hsd as <- <-.
    cbn [apply_datum] in Ha. rewrite c_read_map_eq. unfold map_start.
    destruct (match dest with VMap kvs0 => Some kvs0 | VMapNil => Some [] | _ => None end) as [kvs0|] eqn:Ed; [|discriminate].
    rewrite apply_map_go in Ha.
    destruct (mapo (conv_kv c z) a) as [ys|] eqn:Em; [|discriminate]. injection Ha as <-.
    set (f1 := fun b1 => obind (sd_len_prefixed b1) (fun k r => obind (sd fuel s r) (fun d r' => Done (k, d) r'))).
    set (f2 := fun b1 => obind (string_read b1) (fun k r => obind (c_read fuel c z r) (fun v r' => Done (k, v) r'))).
    assert (Heq1 : forall acc b0, app_item f1 acc b0 = sd_mitem fuel s acc b0).
    { intros acc b0. unfold sd_mitem, app_item, f1. destruct (sd_len_prefixed b0); cbn [obind]; try reflexivity.
      destruct (sd fuel s rest); reflexivity. }
    assert (Heq2 : forall acc b0, read_mitem fuel c z acc b0 = app_item f2 acc b0).
    { intros acc b0. unfold read_mitem, app_item, f2. destruct (string_read b0); cbn [obind]; try reflexivity.
      destruct (c_read fuel c z rest); reflexivity. }
    assert (Hb : blocks false (read_mitem fuel c z) fuel kvs0 bs = Done (kvs0 ++ ys) r0).
    { rewrite (blocks_ext false _ _ Heq2).
      apply (blocks_simlist f1 f2 (conv_kv c z)) with (xsf := a); [| |exact Em].
      - intros b0 [k d0] r1 [k' y] H1 H2. unfold f1 in H1. inv_obind H1. inv_obind H1. injection H1 as Hk Hd Hr. subst k d0 r1.
        unfold conv_kv in H2. cbn [fst snd] in H2. unfold f2.
        destruct (apply_datum c z a1) as [v0|] eqn:Eav; [|discriminate].
        injection H2 as Hk' Hy. subst k' y. rewrite (len_prefixed_string _ _ _ Ho0). cbn [obind].
        rewrite (IHc _ _ _ _ _ _ W Ho1 Eav). reflexivity.
      - rewrite (blocks_ext true _ _ Heq1). exact Ho. }
    destruct dest; try discriminate; injection Ed as <-; rewrite Hb; reflexivity.
  - (* CPtr *)
    cbn [wire] in W. cbn [apply_datum] in Ha. destruct dest; try discriminate.
    destruct (apply_datum c (match v0 with Some x => x | None => z end) d) as [v'|] eqn:Eav; [|discriminate]. injection Ha as <-.
    cbn [c_read]. rewrite (IHc _ _ _ _ _ _ W Hsd Eav). reflexivity.
  - (* CUnion *)
    destruct s; try contradiction. rewrite wire_union_eq in W. rewrite sd_union_eq in Hsd. inv_obind Hsd.
    rewrite c_read_union_eq. rewrite (rd_varint_canon_rd _ _ _ Ho). cbn [obind].
    destruct (a <? 0) eqn:Ea; [discriminate|].
    assert (Hp : forall (l : list codec) (sl : list schema) i,
              Forall (fun c => forall s dest bs d r v, wire c s -> sd fuel s bs = Done d r -> apply_datum c dest d = Some v -> c_read fuel c dest bs = Done v r) l ->
              wire_list wire l sl -> sd_pick fuel a r0 sl i = Done d r ->
              exists d', d = DUnion a d' /\ (i < length l)%nat /\
                (apply_pick dest d' l i = Some v -> read_pick fuel dest r0 l i = Done v r)).
    { induction l as [|x l IHl]; intros [|y sl] i HFl Wl Hpk; try contradiction.
      - destruct i; discriminate.
      - destruct Wl as [W1 W2]. inversion HFl as [|? ? Hx Hl]; subst. destruct i.
        + cbn [sd_pick] in Hpk. inv_obind Hpk. injection Hpk as <- <-. exists a0. split; [reflexivity|]. split; [cbn; lia|].
          cbn [apply_pick read_pick]. intros Hap. eapply Hx; eauto.
        + cbn [sd_pick] in Hpk. destruct (IHl _ _ Hl W2 Hpk) as (d' & -> & Hlt & Hrd). exists d'. split; [reflexivity|]. split; [cbn; lia|exact Hrd]. }
    destruct (Hp _ _ _ H W Hsd) as (d' & -> & Hlt & Hrd).
    cbn [apply_datum] in Ha. rewrite Ea in Ha. rewrite apply_pick_eq in Ha.
    replace (Z.of_nat (length cs) <=? a) with false by lia. cbn [orb]. auto.
  - (* CUnionOne *)
    cbn [wire] in W. destruct s; try contradiction. destruct branches as [|x1 [|x2 [|? ?]]]; try contradiction.
    + destruct x1; contradiction.
    + destruct (union2_inv _ _ _ _ _ _ Hsd) as (idx & d' & r0 & -> & -> & Hcase).
      assert (Hw : (x1 = SNull /\ nn = 1 /\ wire c x2) \/ (x2 = SNull /\ nn = 0 /\ wire c x1)).
      { destruct x1; destruct x2; try contradiction; destruct W as [? ?];
        first [left; repeat split; (reflexivity || assumption) | right; repeat split; (reflexivity || assumption)]. }
      cbn [apply_datum] in Ha. cbn [c_read rd_byte obind].
      destruct Hcase as [[-> Hs1] | [-> Hs2]]; destruct Hw as [(-> & -> & Wc) | (-> & -> & Wc)].
      * cbn [sd] in Hs1. injection Hs1 as <- <-. cbn in Ha. injection Ha as <-. reflexivity.
      * cbn in Ha |- *. eapply IHc; eauto.
      * cbn in Ha |- *. eapply IHc; eauto.
      * cbn [sd] in Hs2. injection Hs2 as <- <-. cbn in Ha. injection Ha as <-. reflexivity.
    + destruct x1; try contradiction; destruct x2; contradiction.
  - (* CUnionStr *)
    cbn [wire] in W. destruct W as [[-> ->] | [-> ->]];
      destruct (union2_inv _ _ _ _ _ _ Hsd) as (idx & d' & r0 & -> & -> & Hcase);
      cbn [apply_datum] in Ha; cbn [c_read rd_byte obind];
      destruct Hcase as [[-> Hs1] | [-> Hs2]].
    + cbn [sd] in Hs1. injection Hs1 as <- <-. cbn in Ha. injection Ha as <-. reflexivity.
    + cbn [sd] in Hs2. inv_obind Hs2. injection Hs2 as <- <-. cbn in Ha. injection Ha as <-. cbn.
      rewrite (len_prefixed_string _ _ _ Ho). reflexivity.
    + cbn [sd] in Hs1. inv_obind Hs1. injection Hs1 as <- <-. cbn in Ha. injection Ha as <-. cbn.
      rewrite (len_prefixed_string _ _ _ Ho). reflexivity.
    + cbn [sd] in Hs2. injection Hs2 as <- <-. cbn in Ha. injection Ha as <-. reflexivity.
  - (* CTimeString *)
    cbn [wire] in W. subst s. cbn [sd] in Hsd. inv_obind Hsd. injection Hsd as <- <-. cbn [apply_datum] in Ha.
    cbn [c_read]. rewrite (len_prefixed_time _ _ _ _ Ho). unfold time_string_apply in Ha.
    destruct a; [injection Ha as <-; reflexivity|]. destruct (parse_time (z :: a)); try discriminate. injection Ha as <-. reflexivity.
  - (* CTimeLong *) cbn [wire] in W. destruct (sd_int_inv _ _ _ _ _ W Hsd) as (z & Hz & Hr).
    cbn [apply_datum] in Ha. rewrite Hz in Ha. injection Ha as <-. cbn [c_read]. rewrite (int_read_of_varint _ _ _ _ Hr).
    assert (int_fits 64 z = true); [|rewrite H; reflexivity].
    unfold rd_varint in Hr. destruct (dec_varint bs) as [[i r']| |] eqn:E; try discriminate. injection Hr as -> ->.
    apply dec_varint_range in E. unfold int_fits. unfold int64_ok, two63 in E. change (2 ^ (64 - 1)) with 9223372036854775808. lia.
  - (* CDate *) cbn [wire] in W. destruct (sd_int_inv _ _ _ _ _ W Hsd) as (z & Hz & Hr).
    cbn [apply_datum] in Ha. rewrite Hz in Ha. cbn [c_read]. rewrite (int_read_of_varint _ _ _ _ Hr).
    destruct (int_fits 32 z); [|discriminate]. injection Ha as <-. reflexivity.
  - (* CNullInt *) cbn [wire] in W. destruct (sd_int_inv _ _ _ _ _ W Hsd) as (z & Hz & Hr).
    cbn [apply_datum] in Ha. rewrite Hz in Ha. injection Ha as <-. cbn [c_read]. rewrite (int_read_of_varint _ _ _ _ Hr).
    assert (int_fits 64 z = true); [|rewrite H; reflexivity].
    unfold rd_varint in Hr. destruct (dec_varint bs) as [[i r']| |] eqn:E; try discriminate. injection Hr as -> ->.
    apply dec_varint_range in E. unfold int_fits. unfold int64_ok, two63 in E. change (2 ^ (64 - 1)) with 9223372036854775808. lia.
  - (* CNullBool *) cbn [wire] in W. subst s. cbn [sd] in Hsd. inv_obind Hsd. cbn [c_read]. unfold bool_read. rewrite Ho. cbn [obind].
    destruct (a =? 0) eqn:E0; [injection Hsd as <- <-; cbn in Ha; injection Ha as <-; reflexivity|].
    destruct (a =? 1); [injection Hsd as <- <-; cbn in Ha; injection Ha as <-; reflexivity|discriminate].
  - cbn [wire] in W. subst s. cbn [sd] in Hsd. inv_obind Hsd. injection Hsd as <- <-. cbn in Ha. injection Ha as <-.
    cbn [c_read]. rewrite Ho. reflexivity.
  - cbn [wire] in W. subst s. cbn [sd] in Hsd. inv_obind Hsd. injection Hsd as <- <-. cbn in Ha. injection Ha as <-.
    cbn [c_read]. rewrite Ho. reflexivity.
  - cbn [wire] in W. subst s. cbn [sd] in Hsd. inv_obind Hsd. injection Hsd as <- <-. cbn in Ha. injection Ha as <-.
    cbn [c_read]. rewrite (len_prefixed_string _ _ _ Ho). reflexivity.
  - (* CNullTime *)
    cbn [wire] in W. subst s. cbn [sd] in Hsd. inv_obind Hsd. injection Hsd as <- <-. cbn [apply_datum] in Ha.
    cbn [c_read]. rewrite (len_prefixed_time _ _ _ _ Ho). unfold time_string_apply in Ha.
    destruct a; [cbn in Ha; injection Ha as <-; reflexivity|]. destruct (parse_time (z :: a)); try discriminate. cbn in Ha. injection Ha as <-. reflexivity.
  - (* CCustom *)
    cbn [wire] in W. cbn [apply_datum] in Ha. destruct (apply_datum c dest d) as [v'|] eqn:Eav; [|discriminate]. injection Ha as <-.
    cbn [c_read]. rewrite (IHc _ _ _ _ _ _ W Hsd Eav). reflexivity.
Qed.
