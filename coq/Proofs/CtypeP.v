(* Every codec buildCodec returns for (schema, Go type t) is a codec FOR t in the
   kind-accurate sense of Model/Typing.v; with Proofs/TypedP.v: decoding any bytes
   into a destination of type t never panics and yields a value of type t. *)
From Coq Require Import List ZArith Lia Bool.
Require Import Avro.Model.Base Avro.Model.Prim Avro.Model.Schema Avro.Model.GoType
               Avro.Model.Blocks Avro.Model.Time Avro.Model.Spec Avro.Model.Codec Avro.Model.Layout Avro.Model.Typing.
Require Import Avro.Proofs.CodecInd Avro.Proofs.LayoutP Avro.Proofs.TypedP.
Import ListNotations.
Open Scope Z_scope.

Lemma build_prim_ctype s t0 om c : build_prim s (Some (underlying t0)) om = Some c -> ctype c t0.
Proof.
  unfold build_prim. intros H. destruct s; try discriminate.
  - injection H as <-. exact I.
  - destruct (underlying t0) eqn:Eu; try discriminate. injection H as <-. exact Eu.
  - destruct (underlying t0) as [| [] | | | | | | | | | | | | | | | |] eqn:Eu; try discriminate; injection H as <-; cbn [ctype]; eexists; (split; [exact Eu|reflexivity]).
  - destruct (underlying t0) as [| [] | | | | | | | | | | | | | | | |] eqn:Eu; try discriminate; injection H as <-; cbn [ctype]; eexists; (split; [exact Eu|reflexivity]).
  - destruct (underlying t0) eqn:Eu; try discriminate. injection H as <-. exact Eu.
  - destruct (underlying t0) eqn:Eu; try discriminate; injection H as <-; exact Eu.
  - destruct (underlying t0) eqn:Eu; try discriminate. destruct (is_u8 g) eqn:Eg; try discriminate. injection H as <-. cbn [ctype]. eauto.
  - destruct (underlying t0) eqn:Eu; try discriminate. injection H as <-. exact Eu.
  - destruct (size <? 0); try discriminate. destruct (underlying t0) eqn:Eu; try discriminate.
    destruct (is_u8 g && (n =? size)) eqn:Eg; try discriminate. injection H as <-. cbn [ctype].
    apply andb_prop in Eg as [Eg1 Eg2]. apply Z.eqb_eq in Eg2. subst n. eauto.
Qed.

Lemma wrap_ptrs_ctype : forall k c z t0, ctype c t0 -> z = zero_of t0 -> ctype (wrap_ptrs k c z) (ptr_n k t0).
Proof.
  induction k as [|k IH]; intros c z t0 H Hz; [exact H|].
  cbn [wrap_ptrs ptr_n]. rewrite <- ptr_n_shift. apply IH; [|reflexivity]. cbn [ctype underlying]. exists t0. auto.
Qed.

Definition bld_ctype (bld : schema -> option gtype -> bool -> option codec) (s : schema) : Prop :=
  forall t om c, bld s (Some t) om = Some c -> ctype c t.

Fixpoint ctype_fields (gfs : list gfield) (l : list (codec * option nat)) {struct l} : Prop :=
  match l with
  | [] => True
  | (fc, Some j) :: l' => (exists gf, nth_error gfs j = Some gf /\ ctype fc (gf_type gf)) /\ ctype_fields gfs l'
  | (_, None) :: l' => ctype_fields gfs l'
  end.

Lemma ctype_record fs t n p gfs : underlying t = TStruct n p gfs -> ctype_fields gfs fs -> ctype (CRecord fs) t.
Proof.
  intros Hu H. cbn [ctype]. exists n, p, gfs. split; [exact Hu|].
  induction fs as [|[fc [j|]] l IH]; cbn [ctype_fields] in *; [exact I| |].
  - destruct H as [H1 H2]. split; [exact H1|apply IH; exact H2].
  - apply IH; exact H.
Qed.

Lemma build_fields_ctype bld gfs : forall fields fs,
  Forall (fun p => bld_ctype bld (snd p)) fields ->
  build_fields bld (Some gfs) fields = Some fs -> ctype_fields gfs fs.
Proof.
  induction fields as [|[n s] l IH]; intros fs HF H.
  - cbn in H. injection H as <-. exact I.
  - inversion HF as [|? ? Hs Hl]; subst. cbn [snd] in Hs. cbn [build_fields] in H.
    destruct (find_field n gfs) as [[j gf]|] eqn:Ef.
    + destruct (bld s (Some (gf_type gf)) (omit_empty gf)) as [c|] eqn:Ec; try discriminate.
      destruct (build_fields bld (Some gfs) l) as [r|] eqn:Er; try discriminate.
      injection H as <-. cbn [ctype_fields option_map fst]. split; [|apply IH; auto].
      exists gf. split; [eapply find_field_nth; eauto|eapply Hs; eauto].
    + destruct (bld s None false) as [c|] eqn:Ec; try discriminate.
      destruct (build_fields bld (Some gfs) l) as [r|] eqn:Er; try discriminate.
      injection H as <-. cbn [ctype_fields option_map]. apply IH; auto.
Qed.

Definition sub_ctype (bld : schema -> option gtype -> bool -> option codec) (s : schema) : Prop :=
  match s with
  | SArray it => bld_ctype bld it
  | SMap vs => bld_ctype bld vs
  | SRecord fields => Forall (fun p => bld_ctype bld (snd p)) fields
  | _ => True
  end.

Lemma disp_ctype bld s t0 om c : sub_ctype bld s -> disp bld s (Some t0) om = Some c -> ctype c t0.
Proof.
  intros IH H. unfold disp in H. cbn [option_map] in H.
  destruct s; try discriminate; try (apply build_prim_ctype in H; exact H).
  - destruct (underlying t0) eqn:Eu; cbn [struct_fields] in H; try discriminate.
    destruct (build_fields bld (Some fields0) fields) as [fs|] eqn:Ef; try discriminate.
    injection H as <-. eapply ctype_record; [exact Eu|]. eapply build_fields_ctype; eauto.
  - destruct (underlying t0) eqn:Eu; try discriminate.
    destruct (bld s (Some g) false) as [ic|] eqn:Ei; try discriminate. injection H as <-. cbn [ctype]. exists g. split; [exact Eu|]. split; [eapply IH; eauto|reflexivity].
  - destruct (underlying t0) eqn:Eu; try discriminate. destruct (underlying g1); try discriminate.
    destruct (bld s (Some g2) false) as [vc|] eqn:Ei; try discriminate. injection H as <-. cbn [ctype]. exists g1, g2. split; [exact Eu|]. split; [eapply IH; eauto|reflexivity].
Qed.

Lemma wrap_builder_ctype w s inner c : apply_builder (BWrap w) s inner = Some c -> ctype c (TWrap w).
Proof.
  unfold apply_builder. destruct w; destruct s; try discriminate; try (intros H; injection H as <-; reflexivity).
  destruct date; try discriminate. intros H; injection H as <-; reflexivity.
Qed.

Lemma build_base_ctype reg bld s t0 om c : reg_sane reg -> sub_ctype bld s ->
  build_base reg bld s t0 om = Some c -> ctype c t0.
Proof.
  intros Hreg IH H. unfold build_base in H. destruct (reg_lookup reg t0) as [[w|k]|] eqn:El.
  - rewrite (Hreg _ _ El). eapply wrap_builder_ctype; eauto.
  - unfold apply_builder in H. destruct (disp bld s (Some t0) om) as [ci|] eqn:Ed; try discriminate.
    injection H as <-. cbn [ctype]. eapply disp_ctype; eauto.
  - eapply disp_ctype; eauto.
Qed.

Lemma ctype_union_list t : forall cs, Forall (fun c => ctype c t) cs -> ctype (CUnion cs) t.
Proof. cbn [ctype]. induction 1 as [|x l Hx _ IH]; [exact I|split; assumption]. Qed.

Theorem build_ctype reg : reg_sane reg -> forall s t om c, build reg s (Some t) om = Some c -> ctype c t.
Proof.
  intros Hreg. induction s using schema_ind'; intros t om c Hb.
  all: try (cbn [build] in Hb;
            destruct (peel t) as [k t0] eqn:Ep; rewrite (peel_ptr_n _ _ _ Ep); destruct k;
            [ eapply build_base_ctype; [exact Hreg| |exact Hb]; cbn [sub_ctype]; auto
            | destruct (build_base reg (fun s' t' om' => build reg s' t' om') _ t0 false) as [c0|] eqn:Eb; try discriminate;
              injection Hb as <-; refine (wrap_ptrs_ctype (S k) c0 (zero_of t0) t0 _ eq_refl);
              eapply build_base_ctype; [exact Hreg| |exact Eb]; cbn [sub_ctype]; auto ]; fail).
  - injection Hb as <-. exact I.
  - assert (Hgen : forall c', option_map CUnion (build_list (fun x => build reg x (Some t) om) brs) = Some c' -> ctype c' t).
    { intros c' Hc. destruct (build_list (fun x => build reg x (Some t) om) brs) as [cs|] eqn:El; try discriminate.
      injection Hc as <-. apply ctype_union_list. clear Hb.
      revert cs El. induction brs as [|x l IHl]; intros cs El.
      - cbn in El. injection El as <-. constructor.
      - inversion H as [|? ? Hx Hl]; subst. cbn [build_list] in El.
        destruct (build reg x (Some t) om) as [cx|] eqn:Ex; try discriminate.
        destruct (build_list (fun x0 => build reg x0 (Some t) om) l) as [r|] eqn:Er; try discriminate.
        injection El as <-. constructor; [eapply Hx; eauto|apply IHl; auto]. }
    assert (Hone : forall x nn c', In x brs -> union_one (build reg x (Some t) om) nn = Some c' -> ctype c' t).
    { intros x nn c' Hin Hu. rewrite Forall_forall in H. specialize (H x Hin).
      destruct (build reg x (Some t) om) as [ci|] eqn:Ex; try discriminate.
      pose proof (H _ _ _ Ex) as Hf. destruct ci; cbn [union_one] in Hu; injection Hu as <-; cbn [ctype]; exact Hf. }
    cbn [build] in Hb.
    destruct brs as [|x1 [|x2 [|x3 l]]]; try (apply Hgen; exact Hb).
    + destruct x1; try (apply Hgen; exact Hb).
    + destruct x1.
      * assert (Hb' : union_one (build reg x2 (Some t) om) 1 = Some c) by (destruct x2; exact Hb).
        eapply (Hone x2); [right; left; reflexivity|exact Hb'].
      * destruct x2; try (apply Hgen; exact Hb). eapply (Hone SBool); [left; reflexivity|exact Hb].
      * destruct x2; try (apply Hgen; exact Hb). eapply (Hone (SInt date)); [left; reflexivity|exact Hb].
      * destruct x2; try (apply Hgen; exact Hb). eapply (Hone (SLong lt)); [left; reflexivity|exact Hb].
      * destruct x2; try (apply Hgen; exact Hb). eapply (Hone SFloat); [left; reflexivity|exact Hb].
      * destruct x2; try (apply Hgen; exact Hb). eapply (Hone SDouble); [left; reflexivity|exact Hb].
      * destruct x2; try (apply Hgen; exact Hb). eapply (Hone SBytes); [left; reflexivity|exact Hb].
      * destruct x2; try (apply Hgen; exact Hb). eapply (Hone SString); [left; reflexivity|exact Hb].
      * destruct x2; try (apply Hgen; exact Hb). eapply (Hone (SFixed size)); [left; reflexivity|exact Hb].
      * destruct x2; try (apply Hgen; exact Hb). eapply (Hone (SEnum nsyms)); [left; reflexivity|exact Hb].
      * destruct x2; try (apply Hgen; exact Hb). eapply (Hone (SRecord fields)); [left; reflexivity|exact Hb].
      * destruct x2; try (apply Hgen; exact Hb). eapply (Hone (SArray x1)); [left; reflexivity|exact Hb].
      * destruct x2; try (apply Hgen; exact Hb). eapply (Hone (SMap x1)); [left; reflexivity|exact Hb].
      * destruct x2; try (apply Hgen; exact Hb). eapply (Hone (SUnion branches)); [left; reflexivity|exact Hb].
      * destruct x2; try (apply Hgen; exact Hb). eapply (Hone SBad); [left; reflexivity|exact Hb].
    + destruct x1; try (apply Hgen; exact Hb); destruct x2; apply Hgen; exact Hb.
Qed.

(* the combination: what ReadFile / Codec.Read do with a built codec *)
Theorem built_codec_safe reg : reg_sane reg -> forall s t om c fuel dest bs,
  build reg s (Some t) om = Some c -> wt t dest ->
  c_read fuel c dest bs <> Panic /\ (forall v r, c_read fuel c dest bs = Done v r -> wt t v).
Proof. intros Hreg s t om c fuel dest bs Hb Hw. apply (read_typed fuel c t (build_ctype reg Hreg _ _ _ _ Hb) dest bs Hw). Qed.
